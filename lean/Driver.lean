import RuxModel.Drv.Common
import RuxModel.Drv.Lru
import RuxModel.Drv.Route
import RuxModel.Drv.Gates
import RuxModel.Drv.Chain
import RuxModel.Drv.Bind
import RuxModel.Drv.Writer
import RuxModel.Drv.Render
import RuxModel.Drv.Static
import RuxModel.Drv.Conc
import RuxModel.Drv.GoStr
import RuxModel.Drv.Path
import RuxModel.Drv.Dispatch
import RuxModel.Drv.Reg
/-
  Line-protocol driver: `driver <engine>` reads op lines on stdin and answers one line per op.
  Lines starting with `#` are echoed (they separate cases and carry comments).
  Imports Model/ and Drv/ only — never Props/, never Mathlib — so that it links as an executable.
-/
open Rux.Drv

partial def loop (e : Engine) (hin hout : IO.FS.Stream) (s : e.σ) : IO Unit := do
  let line ← hin.getLine
  if line.isEmpty then return ()
  let l := (line.dropRightWhile (fun c => c = '\n' || c = '\r'))
  if l.startsWith "#" then
    hout.putStrLn l
    -- `#case` resets the model state
    if l.startsWith "#case" then loop e hin hout e.init else loop e hin hout s
  else
    let (s', out) := e.step s (tokens l)
    hout.putStrLn out
    loop e hin hout s'

def engines : List (String × Engine) := [
  ("lru", lruEngine),
  ("route", routeEngine),
  ("gates", gatesEngine),
  ("chain", chainEngine),
  ("bind", bindEngine),
  ("writer", writerEngine),
  ("render", renderEngine),
  ("clean", cleanEngine),
  ("static", staticEngine),
  ("conc", concEngine),
  ("gostr", goStrEngine),
  ("path", pathEngine),
  ("dispatch", dispatchEngine),
  ("reg", regEngine)
]

def main (args : List String) : IO UInt32 := do
  match args with
  | [name] =>
    match engines.lookup name with
    | some e =>
      let hin ← IO.getStdin
      let hout ← IO.getStdout
      loop e hin hout e.init
      hout.flush
      return 0
    | none => IO.eprintln s!"unknown engine {name}"; return 2
  | _ => IO.eprintln "usage: driver <engine>"; return 2
