import RuxModel.Drv.Common
import RuxModel.Generated.Code
import RuxModel.Tie.Pattern
import RuxModel.Tie.Cache
import RuxModel.Model.Render
/-
  Line-protocol driver for the GENERATED definitions (Generated/Code.lean): `gendriver gencode` reads op lines and
  answers with what the definitions translated from /repo compute.  The harness engine `gencode` runs the same ops on
  the real Go functions (through the `verif` hooks) and compares: a sampled check of the TRANSLATOR (go/go2lean) itself,
  next to the proofs that use its output.  Parameters of a translation are instantiated as in the tie theorems
  (`findVars`, `replaceAll`, UTF-8 validity, `countGroups`).

  ops (strings hex encoded):
    fmtpath <0|1> <s> | simplefmt <s> | fixed <s> | quote <s> | optional <s> | methods <list> <def> | supported <s>
    compile <path>                       -> ok <first> <start> <spath> <regex> <names> | panic
    build <path> <k=v,...>               -> <path> <sorted query pairs>
    cnew <cap> | cset <k> <id> | cget <k> | cdel <k> | chas <k> | clen | ckeys
    tourl <path> <none | m:k=v,… | p:k=v,… | o:k=v,… | s:hex>     -> path of Route.ToURL(args…) | panic
    comb <n1> <n2> | pclone <nil|k=v,…> | rcopy <name> <path> <methods> <nmiddleware> <nil|k=v,…>
    wopt <routes 0|1> <options of New> <options of a later WithOptions>   options: enc cache strict fb mna icpt:<hex> max:<n> cnum:<n>
    winit <script> | wh <code> | wr <bytes> | fl | wst                                   (responseWriter)
    rinit <content type|-> <script> | rblob <ct> <data> | rtext <data> | rhtml <data> | rjson | rjsonp <cb> | rxml |
    rauto <accept header> | rst           (pkg/render on a plain writer; the value rendered is the string "x")
-/
open Rux Rux.Drv Rux.GoRt

namespace Rux.Drv.GenCodeE

def hexOf (b : Bytes) : String := if b.isEmpty then "-" else Bytes.toHex b
def unhex (s : String) : Option Bytes := if s = "-" then some [] else Bytes.ofHex s
def boolS (b : Bool) : String := if b then "true" else "false"

def parsePairs (s : String) : Option (List (Bytes × Bytes)) :=
  if s = "-" then some [] else
  (s.splitOn ",").mapM fun kv =>
    match kv.splitOn "=" with
    | [k, v] => match unhex k, unhex v with | some k, some v => some (k, v) | _, _ => none
    | _ => none

def bytesLt : Bytes → Bytes → Bool
  | [], [] => false
  | [], _ => true
  | _, [] => false
  | a :: s, b :: t => a < b || (a == b && bytesLt s t)

def insertSorted (x : Bytes × Bytes) : List (Bytes × Bytes) → List (Bytes × Bytes)
  | [] => [x]
  | y :: t => if bytesLt x.1 y.1 || (x.1 == y.1 && bytesLt x.2 y.2) then x :: y :: t else y :: insertSorted x t

def sortPairs (l : List (Bytes × Bytes)) : List (Bytes × Bytes) := l.foldl (fun acc x => insertSorted x acc) []

def pairsS (l : List (Bytes × Bytes)) : String :=
  if l.isEmpty then "-" else String.intercalate "," (l.map fun kv => hexOf kv.1 ++ "=" ++ hexOf kv.2)

/-- state of a case: a route cache, and a response writer with the scripted answers of the writer below it -/
structure St where
  cr : Gen.CR Nat
  rw : Gen.RW
  script : List (Nat × Bool)
  hw : HW := {}
  hscript : List Bool := []      -- errors of the coming writes of the plain writer
  herr : Bool := false           -- what the last renderer returned

def evS : WEv → String
  | .writeHeader c => "wh:" ++ toString c
  | .write b n e => "wr:" ++ hexOf b ++ ":" ++ toString n ++ ":" ++ (if e then "1" else "0")
  | .flush => "fl"

def parseScript (s : String) : Option (List (Nat × Bool)) :=
  if s = "-" then some [] else
  (s.splitOn ",").mapM fun x =>
    match x.splitOn ":" with
    | [n, e] => match n.toNat? with | some n => some (n, e == "1") | none => none
    | _ => none

def stepC (c : Gen.CR Nat) : List String → Option (Gen.CR Nat × String)
  | ["cnew", cap] => match cap.toInt? with | some n => some (Tie.genNew n, "ok") | none => none
  | ["cset", k, id] =>
    match unhex k, id.toNat? with
    | some k, some id => some ((Gen.CR.Set c k (some id)).1, boolS (Gen.CR.Set c k (some id)).2)
    | _, _ => none
  | ["cget", k] =>
    match unhex k with
    | some k =>
      let r := Gen.CR.Get c k
      some (r.1, if r.2.2 then (match r.2.1 with | some id => toString id | none => "nil") else "miss")
    | none => none
  | ["cdel", k] => match unhex k with | some k => some ((Gen.CR.Delete c k).1, boolS (Gen.CR.Delete c k).2) | none => none
  | ["chas", k] => match unhex k with | some k => some ((Gen.CR.Has c k).1, boolS (Gen.CR.Has c k).2) | none => none
  | ["clen"] => some (c, toString (Gen.CR.Len c))
  | ["ckeys"] => some (c, hexList (c.list.items.map (·.key)))
  | _ => none

/-- the response writer: `winit <script>` = `responseWriter.reset`, then its methods -/
def stepW (st : St) : List String → Option (St × String)
  | ["winit", sc] =>
    match parseScript sc with
    | some sc => some ({ st with rw := Gen.RW.reset { status := 0, length := 0, log := [] } (), script := sc }, "ok")
    | none => none
  | ["wh", code] =>
    match code.toInt? with
    | some c => some ({ st with rw := Gen.RW.WriteHeader st.rw c }, "ok")
    | none => none
  | ["wr", b] =>
    match unhex b with
    | some b =>
      let (ans, rest) : (Int × Bool) × List (Nat × Bool) :=
        match st.script with
        | [] => ((b.length, false), [])
        | (acc, e) :: t => (((min acc b.length : Nat), e), t)
      -- the writer below is only asked when the header is (or gets) committed: always, for Write
      let r := Gen.RW.Write st.rw b ans
      some ({ st with rw := r.1, script := rest }, toString r.2.1 ++ " " ++ (if r.2.2 then "1" else "0"))
    | none => none
  | ["fl"] => some ({ st with rw := Gen.RW.Flush st.rw }, "ok")
  | ["wend"] => some ({ st with rw := Gen.RW.ensureWriteHeader st.rw }, "ok")
  | ["wst"] =>
    some (st, toString (Gen.RW.Status st.rw) ++ " " ++ toString (Gen.RW.Length st.rw) ++ " " ++ boolS (Gen.RW.Written st.rw) ++ " " ++
      (if st.rw.log.isEmpty then "-" else String.intercalate "," (st.rw.log.map evS)))
  | _ => none

/-- the answer of the plain writer to its k-th write: the k-th script entry (no error when the script is exhausted) -/
def wansOf (sc : List Bool) (w : HW) : Bool := (sc[w.log.length - 1]?).getD false

def hevS : HEv → String
  | .write b => "wr:" ++ hexOf b

/-- `enc.Encode("x")` of encoding/json resp. encoding/xml: ONE write of the encoding (json adds a newline) -/
def encJSON (sc : List Bool) (_e : JEnc) (w : HW) : HW × Bool :=
  let w' := HW.write w [34, 120, 34, 10]
  (w', wansOf sc w')
def encXML (sc : List Bool) (_e : JEnc) (w : HW) : HW × Bool :=
  let w' := HW.write w [60, 115, 116, 114, 105, 110, 103, 62, 120, 60, 47, 115, 116, 114, 105, 110, 103, 62]
  (w', wansOf sc w')

def stepR (st : St) : List String → Option (St × String)
  | ["rinit", ct, sc] =>
    match unhex ct, parseScript sc with
    | some ct, some sc =>
      let w : HW := if ct.isEmpty then {} else HW.set {} [0x43, 0x6F, 0x6E, 0x74, 0x65, 0x6E, 0x74, 0x2D, 0x54, 0x79, 0x70, 0x65] ct
      some ({ st with hw := w, hscript := sc.map (·.2), herr := false }, "ok")
    | _, _ => none
  | ["rblob", ct, d] =>
    match unhex ct, unhex d with
    | some ct, some d => let r := Gen.renderBlob st.hw ct d (wansOf st.hscript); some ({ st with hw := r.1, herr := r.2 }, "ok")
    | _, _ => none
  | ["rtext", d] =>
    match unhex d with
    | some d => let r := Gen.renderText st.hw d (wansOf st.hscript); some ({ st with hw := r.1, herr := r.2 }, "ok")
    | none => none
  | ["rhtml", d] =>
    match unhex d with
    | some d => let r := Gen.renderHTML st.hw d (wansOf st.hscript); some ({ st with hw := r.1, herr := r.2 }, "ok")
    | none => none
  | ["rjson"] =>
    let r := Gen.JSONR.Render default st.hw () (wansOf st.hscript) (encJSON st.hscript)
    some ({ st with hw := r.1, herr := r.2 }, "ok")
  | ["rjsonp", cb] =>
    match unhex cb with
    | some cb =>
      let r := Gen.JSONPR.Render { callback := cb } st.hw () (wansOf st.hscript) (encJSON st.hscript)
      some ({ st with hw := r.1, herr := r.2 }, "ok")
    | none => none
  | ["rxml"] =>
    let r := Gen.XMLR.Render default st.hw () (wansOf st.hscript) (encXML st.hscript)
    some ({ st with hw := r.1, herr := r.2 }, "ok")
  | ["rauto", acc] =>
    match unhex acc with
    | some acc =>
      let env : RAEnv HW :=
        { acceptHeader := fun _ => acc, parseAccept := Rux.Render.parseAccept,
          json := fun w => Gen.JSONR.Render default w () (wansOf st.hscript) (encJSON st.hscript),
          xml := fun w => Gen.XMLR.Render default w () (wansOf st.hscript) (encXML st.hscript),
          text := fun w => Gen.renderText w [120] (wansOf st.hscript) }
      let r := Gen.renderAuto st.hw none () env [116, 101, 120, 116, 47, 112, 108, 97, 105, 110]
      some ({ st with hw := r.1, herr := r.2 }, "ok")
    | none => none
  | ["rst"] =>
    some (st, hexOf ((hdrGet st.hw.header [0x43, 0x6F, 0x6E, 0x74, 0x65, 0x6E, 0x74, 0x2D, 0x54, 0x79, 0x70, 0x65]).headD []) ++ " " ++
      boolS st.herr ++ " " ++ (if st.hw.log.isEmpty then "-" else String.intercalate "," (st.hw.log.map hevS)))
  | _ => none

def step (st : St) (toks : List String) : St × String :=
  match stepR st toks with
  | some r => r
  | none =>
  match stepC st.cr toks with
  | some (cr, out) => ({ st with cr := cr }, out)
  | none =>
  match stepW st toks with
  | some r => r
  | none => stepP st.cr toks |> fun r => ({ st with cr := r.1 }, r.2)
where stepP (c : Gen.CR Nat) : List String → Gen.CR Nat × String
  | ["fmtpath", s, p] =>
    match unhex p with
    | some p =>
      (c, match Gen.Router.formatPath { (default : Gen.Router) with strictLastSlash := (s == "1") } p with
          | .ok r => hexOf r | .error _ => "panic")
    | none => (c, "bad-op")
  | ["simplefmt", p] => match unhex p with | some p => (c, hexOf (Gen.simpleFmtPath p)) | none => (c, "bad-op")
  | ["fixed", p] => match unhex p with | some p => (c, boolS (Gen.isFixedPath p)) | none => (c, "bad-op")
  | ["quote", p] => match unhex p with | some p => (c, hexOf (Gen.quotePointChar p)) | none => (c, "bad-op")
  | ["optional", p] =>
    match unhex p with
    | some p => (c, match Gen.checkAndParseOptional p Tie.replacerM with | .ok r => hexOf r | .error _ => "panic")
    | none => (c, "bad-op")
  | ["methods", l, d] =>
    match parseHexList l, unhex d with
    | some l, some d => (c, hexList (Gen.formatMethodsWithDefault l d))
    | _, _ => (c, "bad-op")
  | ["supported", m] => match unhex m with | some m => (c, boolS (Gen.isSupportedMethod m)) | none => (c, "bad-op")
  | ["compile", p] =>
    match unhex p with
    | some p =>
      (c, match Gen.Router.parseParamRoute { (default : Gen.Route) with path := p } Tie.findAllM Tie.replacerM
                Facts.globalVarsB Tie.mustCompileM Tie.numSubexpM with
          | .ok (r, first) =>
            "ok " ++ hexOf first ++ " " ++ hexOf r.start ++ " " ++ hexOf r.spath ++ " " ++ hexOf (r.regex.getD []) ++ " " ++
              hexList r.matches_
          | .error _ => "panic")
    | none => (c, "bad-op")
  | ["build", p, args] =>
    match unhex p, parsePairs args with
    | some p, some args =>
      (c, match Gen.BRU.Build { (default : Gen.BRU) with path := p } [args] id (fun _ => []) Tie.findAllM Tie.replacerM with
          | .ok (b, u) => hexOf u.path ++ " " ++ pairsS (sortPairs b.queries)
          | .error _ => "panic")
    | _, _ => (c, "bad-op")
  | ["cnew", cap] => match cap.toInt? with | some n => (Tie.genNew n, "ok") | none => (c, "bad-op")
  | ["cset", k, id] =>
    match unhex k, id.toNat? with
    | some k, some id => ((Gen.CR.Set c k (some id)).1, boolS (Gen.CR.Set c k (some id)).2)
    | _, _ => (c, "bad-op")
  | ["cget", k] =>
    match unhex k with
    | some k =>
      let r := Gen.CR.Get c k
      (r.1, if r.2.2 then (match r.2.1 with | some id => toString id | none => "nil") else "miss")
    | none => (c, "bad-op")
  | ["cdel", k] => match unhex k with | some k => ((Gen.CR.Delete c k).1, boolS (Gen.CR.Delete c k).2) | none => (c, "bad-op")
  | ["chas", k] => match unhex k with | some k => ((Gen.CR.Has c k).1, boolS (Gen.CR.Has c k).2) | none => (c, "bad-op")
  -- route.go Route.ToURL: `none` | `m:<k=v,…>` (one rux.M) | `p:<k=v,…>` (key/value arguments, in this order) | `o:<k=v,…>`
  -- (the same with the last value dropped: an odd count) | `s:<hex>` (ONE string argument)
  | ["tourl", p, spec] =>
    match unhex p with
    | none => (c, "bad-op")
    | some p =>
      let r : Gen.Route := { (default : Gen.Route) with path := p }
      let mk (texts : List Bytes) : List (UArg Gen.BRU) := (List.range texts.length).map UArg.other
      let run (args : List (UArg Gen.BRU)) (texts : List Bytes) : String :=
        match Gen.Route.ToURL r args id (fun _ => []) Tie.findAllM Tie.replacerM
            (fun a => match a with | .other i => texts.getD i [] | _ => []) (args.length + 2) with
        | .ok (some u) => hexOf u.path
        | .ok none => "fuel"
        | .error _ => "panic"
      let flat (l : List (Bytes × Bytes)) : List Bytes := l.flatMap fun kv => [kv.1, kv.2]
      match spec.splitOn ":" with
      | ["none"] => (c, run [] [])
      | ["m", kv] => (match parsePairs kv with | some l => (c, run [UArg.m l] []) | none => (c, "bad-op"))
      | ["p", kv] => (match parsePairs kv with | some l => (c, run (mk (flat l)) (flat l)) | none => (c, "bad-op"))
      | ["o", kv] => (match parsePairs kv with | some l => (c, run (mk (flat l).dropLast) (flat l).dropLast) | none => (c, "bad-op"))
      | ["s", v] => (match unhex v with | some v => (c, run (mk [v]) [v]) | none => (c, "bad-op"))
      | _ => (c, "bad-op")
  -- middleware.go combineHandlers on marker chains [0..n1) and [n1..n1+n2)
  | ["comb", n1, n2] =>
    match n1.toNat?, n2.toNat? with
    | some n1, some n2 =>
      (c, match Gen.combineHandlers (List.range n1) ((List.range n2).map (· + n1)) with
          | .ok l => if l.isEmpty then "-" else String.intercalate "," (l.map toString)
          | .error _ => "panic")
    | _, _ => (c, "bad-op")
  -- route.go Params.clone (`nil` = a nil map)
  | ["pclone", m] =>
    (c, match (if m = "nil" then some none else (parsePairs m).map some) with
        | some p => (match Gen.Params.clone p id with | none => "nil" | some l => pairsS (sortPairs l))
        | none => "bad-op")
  -- route.go copyWithParams of a registered dynamic route: name, path, methods, number of middleware, params
  | ["rcopy", name, path, ms, nh, m] =>
    match unhex name, unhex path, parseHexList ms, nh.toNat?, (if m = "nil" then some none else (parsePairs m).map some) with
    | some name, some path, some ms, some nh, some ps =>
      -- the route as `AddNamed` builds it (generated constructor), with what registration adds to a dynamic route
      let r0 := Gen.NewNamedRoute name path (some 0) ms
      let r : Gen.Route := { r0 with handlers := List.range nh, matches_ := [[1]], start := [2], spath := [3], regex := some [4] }
      let cp := Gen.Route.copyWithParams r ps id
      (c, hexOf cp.name ++ " " ++ hexOf cp.path ++ " " ++ hexList cp.methods ++ " " ++ toString cp.handlers.length ++ " " ++
          boolS cp.handler.isSome ++ " " ++ boolS cp.regex.isNone ++ " " ++ toString cp.matches_.length ++ " " ++
          (match cp.params with | none => "nil" | some l => pairsS (sortPairs l)))
    | _, _, _, _, _ => (c, "bad-op")
  -- router.go New(opts…) [+ one route] + WithOptions(more…): the configuration afterwards
  | ["wopt", routes, first, more] =>
    let parseOpts (s : String) : Option (List (Gen.Router → Gen.Router)) :=
      if s = "-" then some [] else
      (s.splitOn ",").mapM fun o =>
        match o.splitOn ":" with
        | ["enc"] => some Gen.Opt.UseEncodedPath
        | ["cache"] => some Gen.Opt.EnableCaching
        | ["strict"] => some Gen.Opt.StrictLastSlash
        | ["fb"] => some Gen.Opt.HandleFallbackRoute
        | ["mna"] => some Gen.Opt.HandleMethodNotAllowed
        | ["icpt", h] => (unhex h).map Gen.Opt.InterceptAll
        | ["max", n] => n.toNat?.map fun n => Gen.Opt.MaxNumCaches n
        | ["cnum", n] => n.toNat?.map fun n => Gen.Opt.CachingWithNum n
        | _ => none
    match routes.toNat?, parseOpts first, parseOpts more with
    | some nr, some o1, some o2 =>
      let cfgS (r : Gen.Router) : String :=
        boolS r.strictLastSlash ++ " " ++ boolS r.handleFallbackRoute ++ " " ++ boolS r.handleMethodNotAllowed ++ " " ++
        boolS r.enableCaching ++ " " ++ boolS r.useEncodedPath ++ " " ++ hexOf r.interceptAll ++ " " ++ toString r.maxNumCaches ++ " " ++
        (match r.cachedRoutes with | none => "-1" | some n => toString n)
      let run (r : Gen.Router) (os : List (Gen.Router → Gen.Router)) :=
        Gen.Router.WithOptions r (List.range os.length) (fun i r => (os.getD i id) r) (fun n => n.toNat)
      -- New(): maxNumCaches 1000, then WithOptions(first…)
      (c, match run { (default : Gen.Router) with maxNumCaches := 1000 } o1 with
          | .error _ => "panic"
          | .ok r1 =>
            -- the route registrations: appendRoute counts one route per method, AddRoute creates a missing cache
            let r2 := (List.range nr).foldl (fun r _ =>
              match Gen.Router.AddRoute r (default : Gen.Route) (fun r rt => .ok ({ r with counter := r.counter + 1 }, rt)) (fun n => n.toNat) with
              | .ok (r', _) => r'
              | .error _ => r) r1
            match run r2 o2 with
            | .error _ => "panic " ++ cfgS r2
            | .ok r3 => "ok " ++ cfgS r3)
    | _, _, _ => (c, "bad-op")
  | ["clen"] => (c, toString (Gen.CR.Len c))
  | ["ckeys"] => (c, hexList (c.list.items.map (·.key)))
  | _ => (c, "bad-op")

def genCodeEngine : Engine :=
  { σ := St, init := { cr := Tie.genNew 0, rw := Gen.RW.reset { status := 0, length := 0, log := [] } (), script := [] }, step := step }

end Rux.Drv.GenCodeE

partial def loop (e : Engine) (hin hout : IO.FS.Stream) (s : e.σ) : IO Unit := do
  let line ← hin.getLine
  if line.isEmpty then return ()
  let l := (line.dropRightWhile (fun c => c = '\n' || c = '\r'))
  if l.startsWith "#" then
    hout.putStrLn l
    if l.startsWith "#case" then loop e hin hout e.init else loop e hin hout s
  else
    let (s', out) := e.step s (tokens l)
    hout.putStrLn out
    loop e hin hout s'

def main (args : List String) : IO UInt32 := do
  match args with
  | ["gencode"] =>
    let hin ← IO.getStdin
    let hout ← IO.getStdout
    loop Rux.Drv.GenCodeE.genCodeEngine hin hout Rux.Drv.GenCodeE.genCodeEngine.init
    hout.flush
    return 0
  | _ =>
    IO.eprintln "usage: gendriver gencode"
    return 2
