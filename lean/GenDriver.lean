import RuxModel.Drv.Common
import RuxModel.Generated.Code
import RuxModel.Tie.Pattern
import RuxModel.Tie.Cache
/-
  Line-protocol driver for the GENERATED definitions (Generated/Code.lean): `gendriver gencode` reads op lines and
  answers with what the definitions translated from /repo compute.  The harness engine `gencode` runs the same ops on
  the real Go functions (through the `verif` hooks) and compares: a sampled check of the TRANSLATOR (go/go2lean) itself,
  next to the proofs that use its output.  Parameters of a translation are instantiated as in the tie theorems
  (`findVars`, `replaceAll`, UTF-8 validity, `countGroups`).

  ops (strings hex encoded):
    fmtpath <0|1> <s> | simplefmt <s> | fixed <s> | quote <s> | optional <s> | methods <list> <def> | supported <s>
    compile <path>                       -> ok <first> <start> <spath> <regex> <names> | panic
    build <path> <k=v,...>               -> <path> <sorted query pairs>
    cnew <cap> | cset <k> <id> | cget <k> | cdel <k> | chas <k> | clen | ckeys
-/
open Rux Rux.Drv Rux.GoRt

namespace Rux.Drv.GenCodeE

def hexOf (b : Bytes) : String := if b.isEmpty then "-" else Bytes.toHex b
def unhex (s : String) : Option Bytes := if s = "-" then some [] else Bytes.ofHex s
def boolS (b : Bool) : String := if b then "true" else "false"

def parsePairs (s : String) : Option (List (Bytes × Bytes)) :=
  if s = "-" then some [] else
  (s.splitOn ",").mapM fun kv =>
    match kv.splitOn "=" with
    | [k, v] => match unhex k, unhex v with | some k, some v => some (k, v) | _, _ => none
    | _ => none

def bytesLt : Bytes → Bytes → Bool
  | [], [] => false
  | [], _ => true
  | _, [] => false
  | a :: s, b :: t => a < b || (a == b && bytesLt s t)

def insertSorted (x : Bytes × Bytes) : List (Bytes × Bytes) → List (Bytes × Bytes)
  | [] => [x]
  | y :: t => if bytesLt x.1 y.1 || (x.1 == y.1 && bytesLt x.2 y.2) then x :: y :: t else y :: insertSorted x t

def sortPairs (l : List (Bytes × Bytes)) : List (Bytes × Bytes) := l.foldl (fun acc x => insertSorted x acc) []

def pairsS (l : List (Bytes × Bytes)) : String :=
  if l.isEmpty then "-" else String.intercalate "," (l.map fun kv => hexOf kv.1 ++ "=" ++ hexOf kv.2)

/-- state of a case: a route cache, and a response writer with the scripted answers of the writer below it -/
structure St where
  cr : Gen.CR Nat
  rw : Gen.RW
  script : List (Nat × Bool)

def evS : WEv → String
  | .writeHeader c => "wh:" ++ toString c
  | .write b n e => "wr:" ++ hexOf b ++ ":" ++ toString n ++ ":" ++ (if e then "1" else "0")
  | .flush => "fl"

def parseScript (s : String) : Option (List (Nat × Bool)) :=
  if s = "-" then some [] else
  (s.splitOn ",").mapM fun x =>
    match x.splitOn ":" with
    | [n, e] => match n.toNat? with | some n => some (n, e == "1") | none => none
    | _ => none

def stepC (c : Gen.CR Nat) : List String → Option (Gen.CR Nat × String)
  | ["cnew", cap] => match cap.toInt? with | some n => some (Tie.genNew n, "ok") | none => none
  | ["cset", k, id] =>
    match unhex k, id.toNat? with
    | some k, some id => some ((Gen.CR.Set c k (some id)).1, boolS (Gen.CR.Set c k (some id)).2)
    | _, _ => none
  | ["cget", k] =>
    match unhex k with
    | some k =>
      let r := Gen.CR.Get c k
      some (r.1, if r.2.2 then (match r.2.1 with | some id => toString id | none => "nil") else "miss")
    | none => none
  | ["cdel", k] => match unhex k with | some k => some ((Gen.CR.Delete c k).1, boolS (Gen.CR.Delete c k).2) | none => none
  | ["chas", k] => match unhex k with | some k => some ((Gen.CR.Has c k).1, boolS (Gen.CR.Has c k).2) | none => none
  | ["clen"] => some (c, toString (Gen.CR.Len c))
  | ["ckeys"] => some (c, hexList (c.list.items.map (·.key)))
  | _ => none

/-- the response writer: `winit <script>` = `responseWriter.reset`, then its methods -/
def stepW (st : St) : List String → Option (St × String)
  | ["winit", sc] =>
    match parseScript sc with
    | some sc => some ({ st with rw := Gen.RW.reset { status := 0, length := 0, log := [] } (), script := sc }, "ok")
    | none => none
  | ["wh", code] =>
    match code.toInt? with
    | some c => some ({ st with rw := Gen.RW.WriteHeader st.rw c }, "ok")
    | none => none
  | ["wr", b] =>
    match unhex b with
    | some b =>
      let (ans, rest) : (Int × Bool) × List (Nat × Bool) :=
        match st.script with
        | [] => ((b.length, false), [])
        | (acc, e) :: t => (((min acc b.length : Nat), e), t)
      -- the writer below is only asked when the header is (or gets) committed: always, for Write
      let r := Gen.RW.Write st.rw b ans
      some ({ st with rw := r.1, script := rest }, toString r.2.1 ++ " " ++ (if r.2.2 then "1" else "0"))
    | none => none
  | ["fl"] => some ({ st with rw := Gen.RW.Flush st.rw }, "ok")
  | ["wend"] => some ({ st with rw := Gen.RW.ensureWriteHeader st.rw }, "ok")
  | ["wst"] =>
    some (st, toString (Gen.RW.Status st.rw) ++ " " ++ toString (Gen.RW.Length st.rw) ++ " " ++ boolS (Gen.RW.Written st.rw) ++ " " ++
      (if st.rw.log.isEmpty then "-" else String.intercalate "," (st.rw.log.map evS)))
  | _ => none

def step (st : St) (toks : List String) : St × String :=
  match stepC st.cr toks with
  | some (cr, out) => ({ st with cr := cr }, out)
  | none =>
  match stepW st toks with
  | some r => r
  | none => stepP st.cr toks |> fun r => ({ st with cr := r.1 }, r.2)
where stepP (c : Gen.CR Nat) : List String → Gen.CR Nat × String
  | ["fmtpath", s, p] =>
    match unhex p with
    | some p =>
      (c, match Gen.Router.formatPath { (default : Gen.Router) with strictLastSlash := (s == "1") } p with
          | .ok r => hexOf r | .error _ => "panic")
    | none => (c, "bad-op")
  | ["simplefmt", p] => match unhex p with | some p => (c, hexOf (Gen.simpleFmtPath p)) | none => (c, "bad-op")
  | ["fixed", p] => match unhex p with | some p => (c, boolS (Gen.isFixedPath p)) | none => (c, "bad-op")
  | ["quote", p] => match unhex p with | some p => (c, hexOf (Gen.quotePointChar p)) | none => (c, "bad-op")
  | ["optional", p] =>
    match unhex p with
    | some p => (c, match Gen.checkAndParseOptional p Tie.replacerM with | .ok r => hexOf r | .error _ => "panic")
    | none => (c, "bad-op")
  | ["methods", l, d] =>
    match parseHexList l, unhex d with
    | some l, some d => (c, hexList (Gen.formatMethodsWithDefault l d))
    | _, _ => (c, "bad-op")
  | ["supported", m] => match unhex m with | some m => (c, boolS (Gen.isSupportedMethod m)) | none => (c, "bad-op")
  | ["compile", p] =>
    match unhex p with
    | some p =>
      (c, match Gen.Router.parseParamRoute { (default : Gen.Route) with path := p } Tie.findAllM Tie.replacerM
                Facts.globalVarsB Tie.mustCompileM Tie.numSubexpM with
          | .ok (r, first) =>
            "ok " ++ hexOf first ++ " " ++ hexOf r.start ++ " " ++ hexOf r.spath ++ " " ++ hexOf (r.regex.getD []) ++ " " ++
              hexList r.matches_
          | .error _ => "panic")
    | none => (c, "bad-op")
  | ["build", p, args] =>
    match unhex p, parsePairs args with
    | some p, some args =>
      (c, match Gen.BRU.Build { (default : Gen.BRU) with path := p } [args] id (fun _ => []) Tie.findAllM Tie.replacerM with
          | .ok (b, u) => hexOf u.path ++ " " ++ pairsS (sortPairs b.queries)
          | .error _ => "panic")
    | _, _ => (c, "bad-op")
  | ["cnew", cap] => match cap.toInt? with | some n => (Tie.genNew n, "ok") | none => (c, "bad-op")
  | ["cset", k, id] =>
    match unhex k, id.toNat? with
    | some k, some id => ((Gen.CR.Set c k (some id)).1, boolS (Gen.CR.Set c k (some id)).2)
    | _, _ => (c, "bad-op")
  | ["cget", k] =>
    match unhex k with
    | some k =>
      let r := Gen.CR.Get c k
      (r.1, if r.2.2 then (match r.2.1 with | some id => toString id | none => "nil") else "miss")
    | none => (c, "bad-op")
  | ["cdel", k] => match unhex k with | some k => ((Gen.CR.Delete c k).1, boolS (Gen.CR.Delete c k).2) | none => (c, "bad-op")
  | ["chas", k] => match unhex k with | some k => ((Gen.CR.Has c k).1, boolS (Gen.CR.Has c k).2) | none => (c, "bad-op")
  | ["clen"] => (c, toString (Gen.CR.Len c))
  | ["ckeys"] => (c, hexList (c.list.items.map (·.key)))
  | _ => (c, "bad-op")

def genCodeEngine : Engine :=
  { σ := St, init := { cr := Tie.genNew 0, rw := Gen.RW.reset { status := 0, length := 0, log := [] } (), script := [] }, step := step }

end Rux.Drv.GenCodeE

partial def loop (e : Engine) (hin hout : IO.FS.Stream) (s : e.σ) : IO Unit := do
  let line ← hin.getLine
  if line.isEmpty then return ()
  let l := (line.dropRightWhile (fun c => c = '\n' || c = '\r'))
  if l.startsWith "#" then
    hout.putStrLn l
    if l.startsWith "#case" then loop e hin hout e.init else loop e hin hout s
  else
    let (s', out) := e.step s (tokens l)
    hout.putStrLn out
    loop e hin hout s'

def main (args : List String) : IO UInt32 := do
  match args with
  | ["gencode"] =>
    let hin ← IO.getStdin
    let hout ← IO.getStdout
    loop Rux.Drv.GenCodeE.genCodeEngine hin hout Rux.Drv.GenCodeE.genCodeEngine.init
    hout.flush
    return 0
  | _ =>
    IO.eprintln "usage: gendriver gencode"
    return 2
