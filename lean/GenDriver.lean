import RuxModel.Drv.Common
import RuxModel.Generated.Code
import RuxModel.Tie.Pattern
import RuxModel.Tie.Cache
/-
  Line-protocol driver for the GENERATED definitions (Generated/Code.lean): `gendriver gencode` reads op lines and
  answers with what the definitions translated from /repo compute.  The harness engine `gencode` runs the same ops on
  the real Go functions (through the `verif` hooks) and compares: a sampled check of the TRANSLATOR (go/go2lean) itself,
  next to the proofs that use its output.  Parameters of a translation are instantiated as in the tie theorems
  (`findVars`, `replaceAll`, UTF-8 validity, `countGroups`).

  ops (strings hex encoded):
    fmtpath <0|1> <s> | simplefmt <s> | fixed <s> | quote <s> | optional <s> | methods <list> <def> | supported <s>
    compile <path>                       -> ok <first> <start> <spath> <regex> <names> | panic
    build <path> <k=v,...>               -> <path> <sorted query pairs>
    cnew <cap> | cset <k> <id> | cget <k> | cdel <k> | chas <k> | clen | ckeys
-/
open Rux Rux.Drv Rux.GoRt

namespace Rux.Drv.GenCodeE

def hexOf (b : Bytes) : String := if b.isEmpty then "-" else Bytes.toHex b
def unhex (s : String) : Option Bytes := if s = "-" then some [] else Bytes.ofHex s
def boolS (b : Bool) : String := if b then "true" else "false"

def parsePairs (s : String) : Option (List (Bytes × Bytes)) :=
  if s = "-" then some [] else
  (s.splitOn ",").mapM fun kv =>
    match kv.splitOn "=" with
    | [k, v] => match unhex k, unhex v with | some k, some v => some (k, v) | _, _ => none
    | _ => none

def bytesLt : Bytes → Bytes → Bool
  | [], [] => false
  | [], _ => true
  | _, [] => false
  | a :: s, b :: t => a < b || (a == b && bytesLt s t)

def insertSorted (x : Bytes × Bytes) : List (Bytes × Bytes) → List (Bytes × Bytes)
  | [] => [x]
  | y :: t => if bytesLt x.1 y.1 || (x.1 == y.1 && bytesLt x.2 y.2) then x :: y :: t else y :: insertSorted x t

def sortPairs (l : List (Bytes × Bytes)) : List (Bytes × Bytes) := l.foldl (fun acc x => insertSorted x acc) []

def pairsS (l : List (Bytes × Bytes)) : String :=
  if l.isEmpty then "-" else String.intercalate "," (l.map fun kv => hexOf kv.1 ++ "=" ++ hexOf kv.2)

abbrev St := Gen.CR Nat

def step (c : St) : List String → St × String
  | ["fmtpath", s, p] =>
    match unhex p with
    | some p =>
      (c, match Gen.Router.formatPath { (default : Gen.Router) with strictLastSlash := (s == "1") } p with
          | .ok r => hexOf r | .error _ => "panic")
    | none => (c, "bad-op")
  | ["simplefmt", p] => match unhex p with | some p => (c, hexOf (Gen.simpleFmtPath p)) | none => (c, "bad-op")
  | ["fixed", p] => match unhex p with | some p => (c, boolS (Gen.isFixedPath p)) | none => (c, "bad-op")
  | ["quote", p] => match unhex p with | some p => (c, hexOf (Gen.quotePointChar p)) | none => (c, "bad-op")
  | ["optional", p] =>
    match unhex p with
    | some p => (c, match Gen.checkAndParseOptional p Tie.replacerM with | .ok r => hexOf r | .error _ => "panic")
    | none => (c, "bad-op")
  | ["methods", l, d] =>
    match parseHexList l, unhex d with
    | some l, some d => (c, hexList (Gen.formatMethodsWithDefault l d))
    | _, _ => (c, "bad-op")
  | ["supported", m] => match unhex m with | some m => (c, boolS (Gen.isSupportedMethod m)) | none => (c, "bad-op")
  | ["compile", p] =>
    match unhex p with
    | some p =>
      (c, match Gen.Router.parseParamRoute { (default : Gen.Route) with path := p } Tie.findAllM Tie.replacerM
                Facts.globalVarsB Tie.mustCompileM Tie.numSubexpM with
          | .ok (r, first) =>
            "ok " ++ hexOf first ++ " " ++ hexOf r.start ++ " " ++ hexOf r.spath ++ " " ++ hexOf (r.regex.getD []) ++ " " ++
              hexList r.matches_
          | .error _ => "panic")
    | none => (c, "bad-op")
  | ["build", p, args] =>
    match unhex p, parsePairs args with
    | some p, some args =>
      (c, match Gen.BRU.Build { (default : Gen.BRU) with path := p } [args] id (fun _ => []) Tie.findAllM Tie.replacerM with
          | .ok (b, u) => hexOf u.path ++ " " ++ pairsS (sortPairs b.queries)
          | .error _ => "panic")
    | _, _ => (c, "bad-op")
  | ["cnew", cap] => match cap.toInt? with | some n => (Tie.genNew n, "ok") | none => (c, "bad-op")
  | ["cset", k, id] =>
    match unhex k, id.toNat? with
    | some k, some id => ((Gen.CR.Set c k (some id)).1, boolS (Gen.CR.Set c k (some id)).2)
    | _, _ => (c, "bad-op")
  | ["cget", k] =>
    match unhex k with
    | some k =>
      let r := Gen.CR.Get c k
      (r.1, if r.2.2 then (match r.2.1 with | some id => toString id | none => "nil") else "miss")
    | none => (c, "bad-op")
  | ["cdel", k] => match unhex k with | some k => ((Gen.CR.Delete c k).1, boolS (Gen.CR.Delete c k).2) | none => (c, "bad-op")
  | ["chas", k] => match unhex k with | some k => ((Gen.CR.Has c k).1, boolS (Gen.CR.Has c k).2) | none => (c, "bad-op")
  | ["clen"] => (c, toString (Gen.CR.Len c))
  | ["ckeys"] => (c, hexList (c.list.items.map (·.key)))
  | _ => (c, "bad-op")

def genCodeEngine : Engine := { σ := St, init := Tie.genNew 0, step := step }

end Rux.Drv.GenCodeE

partial def loop (e : Engine) (hin hout : IO.FS.Stream) (s : e.σ) : IO Unit := do
  let line ← hin.getLine
  if line.isEmpty then return ()
  let l := (line.dropRightWhile (fun c => c = '\n' || c = '\r'))
  if l.startsWith "#" then
    hout.putStrLn l
    if l.startsWith "#case" then loop e hin hout e.init else loop e hin hout s
  else
    let (s', out) := e.step s (tokens l)
    hout.putStrLn out
    loop e hin hout s'

def main (args : List String) : IO UInt32 := do
  match args with
  | ["gencode"] =>
    let hin ← IO.getStdin
    let hout ← IO.getStdout
    loop Rux.Drv.GenCodeE.genCodeEngine hin hout Rux.Drv.GenCodeE.genCodeEngine.init
    hout.flush
    return 0
  | _ =>
    IO.eprintln "usage: gendriver gencode"
    return 2
