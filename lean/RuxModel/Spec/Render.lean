import RuxModel.Model.Render
/-
  C19 — specification-level definitions: what a helper must have produced.
-/
namespace Rux
namespace Render
open Writer

/-- the status the header commit carries when a helper is given `st` while the request has recorded
    the status `cur` (0 = none) and nothing is committed yet: the given one when it is positive -/
def commitCode (st cur : Int) : Int := if st > 0 then st else if cur = 0 then 200 else cur

/-- the Content-Type a pkg/render renderer leaves: the caller's if there is one, else the documented -/
def keepCT (cur : Option Bytes) (documented : Bytes) : Option Bytes := some (cur.getD documented)

/-- content negotiation as a decision procedure on the parsed Accept list: the first listed type that
    `Auto` supports, looking at `text/plain` when nothing is listed -/
def choose (accepts : List Bytes) : Option Kind :=
  (if accepts.isEmpty then [mimeText] else accepts).findSome? kindOf

/-- what a stream delivers: the data of all reads up to and including the first one that comes with
    `io.EOF` or an error -/
def streamData : List (Bytes × RErr) → Bytes
  | [] => []
  | (d, .none) :: rest => d ++ streamData rest
  | (d, _) :: _ => d

/-- the reader ends with `io.EOF` (or simply has nothing more), not with another error -/
def readsOk : List (Bytes × RErr) → Bool
  | [] => true
  | (_, .none) :: rest => readsOk rest
  | (_, .eof) :: _ => true
  | (_, .fail) :: _ => false

end Render
end Rux
