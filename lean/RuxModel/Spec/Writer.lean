import RuxModel.Model.Writer
/-
  C08 — what the property demands of one request, as definitions over the sequence of operations that
  reached the writer.  They read like the English statement; `Lemmas/Writer.lean` connects them to the model.
-/
namespace Rux
namespace Writer

/-- a body write or a flush: the operations that send the header -/
def Op.isIO : Op → Bool
  | .write _ _ _ => true
  | .flush => true
  | _ => false

def Op.notIO (o : Op) : Bool := !o.isIO

/-- the code of a status setting that counts (positive codes only; `WriteHeader(c)` with `c ≤ 0` is ignored) -/
def Op.posCode : Op → Option Int
  | .setStatus c => if c > 0 then some c else none
  | _ => none

/-- "the last positive status set before the first write or flush (200 if none was set)" -/
def specStatus (ops : List Op) : Int :=
  (((ops.takeWhile Op.notIO).filterMap Op.posCode).getLast?).getD 200

/-- bytes the underlying writer accepted for one operation -/
def Op.accepted : Op → Nat
  | .write _ acc _ => acc
  | _ => 0

/-- "the number of bytes accepted" -/
def specLength (ops : List Op) : Nat := (ops.map Op.accepted).sum

/-- the accepted prefix of one write -/
def Op.bodyPart : Op → Bytes
  | .write b acc _ => b.take acc
  | _ => []

/-- "the concatenation of all writes in order" (what the underlying writer accepted of them) -/
def specBody (ops : List Op) : Bytes := ops.flatMap Op.bodyPart

/-- the call an operation makes on the underlying writer AFTER the header is out -/
def Op.ev : Op → Option Ev
  | .write b acc err => some (.w b acc err)
  | .flush => some .fl
  | _ => none

/-- the body writes and flushes, in order -/
def ioEvents (ops : List Op) : List Ev := ops.filterMap Op.ev

/-- well-behaved underlying writer (io.Writer contract): never claims more bytes than it was given -/
def Op.accOk : Op → Bool
  | .write b acc _ => acc ≤ b.length
  | _ => true

end Writer
end Rux
