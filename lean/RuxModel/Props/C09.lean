import RuxModel.Lemmas.Dispatch
import RuxModel.Props.C10
/-
  C09 — A panicking handler is contained and leaves the router healthy.

  Statement (properties.jsonl): "If a handler panics at any point of the chain and a panic hook (OnPanic) is
  installed, the panic does not escape ServeHTTP, the hook runs exactly once with the recovered value
  available under the documented context key, no later handler runs, and the response is committed with the
  status and body the hook produced; without a hook the panic propagates to the caller unchanged.  In both
  cases the router stays fully usable: subsequent requests behave as if the panic had never happened."

  Model: Model/Dispatch.lean.  "A handler panics at any point of the chain" is the hypothesis
  `body cfg rq c = (st, some (.panic v))`: the part of handleHTTPRequest below the `defer` — the chain of ANY
  shape and length (global/group/route middleware, main handler, custom or default 404/405 chain, `Next()`
  anywhere, any number of times) followed by the OnError handler — ended in a panic with value `v`, in
  state `st`.  That covers every panic position, explicit `panic(v)` as well as runtime errors.

  clause                                                     theorem
  ----------------------------------------------------------------------------------------------------------
  the panic does not escape ServeHTTP                        C09_hook_once (1st part), C09_hook_contained_serve
  the hook runs exactly once                                 C09_hook_once, C09_hook_count
  … with the recovered value under CTXRecoverResult          C09_hook_once (`mapGet … keyRecover`), C09_hook_reads_value
  no later handler runs, suspended handlers do not resume    C09_hook_once (shape of the trace), C09_nothing_after_panic
  response committed with the hook's status and body         C09_hook_response_nothing / _status / _status_body
      (nothing ⇒ 200 or the status set before the panic;      (+ the `…_committed` variants: already committed
       status only; status + body)                             before the panic ⇒ no second commit), C09_committed
  without a hook the panic propagates unchanged              C09_no_hook_propagates
  the router stays usable (every later request = fresh)      C09_healthy, C09_healthy_reconfigured
                                                              (+ C09_lost_context_never_reused,
                                                              C10_serve_as_fresh, C10_pool_invariant)
  the theorems speak about every chain rux accepts           C09_in_model (≤ 64 handlers ⇒ never `Stop.off`)
  in-chain PanicsHandler                                     C09_panicsHandler_recovers, C09_panicsHandler_500,
                                                              C09_panicsHandler_dispatch

  Honest notes
  * A hook that panics itself is not "contained": the new value propagates (`C09_hook_panics`, Go semantics
    of a panic inside a deferred function).  The statement is about hooks that produce a response.
  * `PanicsHandler` does NOT abort the chain: after it has recovered, the `Next()` loop of its caller goes on
    with the handler after the one that panicked (`C09_panicsHandler_recovers` says exactly that), so later
    handlers still run (example below: body "MAIN" with status 500) and a second panic is not caught.
    `C09_panicsHandler_dispatch` is therefore stated for a panic in the last handler (or after an abort).
  * `panic(nil)` is not modelled (with `GODEBUG=panicnil=1`, the default for a main module with `go < 1.21`
    in go.mod, `recover()` returns nil and the deferred function neither runs the hook nor commits).
  * Not proved here: that the Go code is the model (sampled by the engines `panic` and `ctx`).
-/
namespace Rux
open Rux.Dispatch

/-! ### hook installed -/

/-- With a hook, a panic anywhere below the `defer`:
    * the hook starts in the state the panic left, with the recovered value stored under `CTXRecoverResult`;
    * if the hook does not panic itself, `handleHTTPRequest` RETURNS (result `none`), after
      `ensureWriteHeader`;
    * the trace is: everything up to the panic point (events of the chain only, the last one being the panic
      itself), then "hook starts", the hook's own events, "hook returns" — so no handler starts and no
      suspended handler resumes after the panic point, and the hook runs once. -/
theorem C09_hook_once (cfg : Cfg) (rq : Req) (c : Ctx) (hk : List SAct) (st : St) (v : PVal)
    (hh : cfg.hook = some hk) (hb : body cfg rq c = (st, some (.panic v))) :
    mapGet (hookStart v st).ctx.data keyRecover = some (.pv v) ∧
    ∀ st', runS .hook hk (hookStart v st) = (st', none) →
      handleRequest cfg rq c = (ensureWH (st'.ev .hookLeave), none) ∧
      ∃ pre p H, st.trace = pre ++ [.panicked p v] ∧
        (∀ e ∈ pre ++ [.panicked p v], e.zone = .chain) ∧ (∀ e ∈ H, e.zone = .hook) ∧
        (handleRequest cfg rq c).1.trace = pre ++ [.panicked p v] ++ [.hookEnter] ++ H ++ [.hookLeave] := by
  refine ⟨by simp [hookStart, St.ev, Ctx.set, mapGet_mapSet_same], ?_⟩
  intro st' hr
  have hret : handleRequest cfg rq c = (ensureWH (st'.ev .hookLeave), none) := by
    simp [handleRequest, hh, hb, hr]
  refine ⟨hret, ?_⟩
  obtain ⟨_, _, evs, ht, hz, hp⟩ := body_good cfg rq c
  rw [hb] at ht hp
  obtain ⟨pre, p, hpre⟩ := hp v rfl
  have hst : st.trace = pre ++ [.panicked p v] := by
    simpa [start, hpre] using ht
  obtain ⟨_, _, H, hH, hzH, _⟩ := runS_good .hook hk (hookStart v st)
  rw [hr] at hH
  refine ⟨pre, p, H, hst, ?_, hzH, ?_⟩
  · intro e he
    exact hz e (by rw [hpre]; exact he)
  · rw [hret]
    simp only [liftP, hookStart, St.ev] at hH
    simp [ensureWH_trace, St.ev, hH, hst]

/-- the hook runs exactly once -/
theorem C09_hook_count (cfg : Cfg) (rq : Req) (c : Ctx) (hk : List SAct) (st st' : St) (v : PVal)
    (hh : cfg.hook = some hk) (hb : body cfg rq c = (st, some (.panic v)))
    (hr : runS .hook hk (hookStart v st) = (st', none)) :
    (handleRequest cfg rq c).1.trace.count .hookEnter = 1 := by
  obtain ⟨_, h⟩ := C09_hook_once cfg rq c hk st v hh hb
  obtain ⟨_, pre, p, H, _, hz, hzH, ht⟩ := h st' hr
  rw [ht]
  have h1 : pre.count .hookEnter = 0 :=
    List.count_eq_zero.mpr (fun hm => by have := hz _ (List.mem_append_left _ hm); simp [TEv.zone] at this)
  have h2 : H.count .hookEnter = 0 :=
    List.count_eq_zero.mpr (fun hm => by have := hzH _ hm; simp [TEv.zone] at this)
  simp [List.count_append, h1, h2]

/-- nothing of the chain after the panic point: every event after the `panicked` mark is one of the hook -/
theorem C09_nothing_after_panic (cfg : Cfg) (rq : Req) (c : Ctx) (hk : List SAct) (st st' : St) (v : PVal)
    (hh : cfg.hook = some hk) (hb : body cfg rq c = (st, some (.panic v)))
    (hr : runS .hook hk (hookStart v st) = (st', none)) :
    ∃ pre p post, (handleRequest cfg rq c).1.trace = pre ++ [.panicked p v] ++ post ∧
      (∀ e ∈ pre, e.zone = .chain) ∧ p.zone = .chain ∧
      ∀ e ∈ post, ∀ i, e ≠ .enter i ∧ e ≠ .leave i ∧ (∀ t, e ≠ .mark (.h i) t) ∧ e ≠ .errEnter ∧ e ≠ .errLeave := by
  obtain ⟨_, h⟩ := C09_hook_once cfg rq c hk st v hh hb
  obtain ⟨_, pre, p, H, _, hz, hzH, ht⟩ := h st' hr
  refine ⟨pre, p, [.hookEnter] ++ H ++ [.hookLeave], by rw [ht]; simp, ?_, ?_, ?_⟩
  · intro e he; exact hz e (by simp [he])
  · have := hz (.panicked p v) (by simp)
    simpa [TEv.zone] using this
  · intro e he i
    have : e.zone ≠ .chain := by
      simp only [List.mem_append, List.mem_singleton] at he
      rcases he with (rfl | he) | rfl
      · simp [TEv.zone]
      · rw [hzH e he]; simp
      · simp [TEv.zone]
    refine ⟨?_, ?_, ?_, ?_, ?_⟩
    · intro he'; subst he'; simp [TEv.zone] at this
    · intro he'; subst he'; simp [TEv.zone] at this
    · intro t he'; subst he'; simp [TEv.zone, Pos.zone] at this
    · intro he'; subst he'; simp [TEv.zone] at this
    · intro he'; subst he'; simp [TEv.zone] at this

/-- a hook that starts by reading `CTXRecoverResult` reads exactly the value the handler panicked with -/
theorem C09_hook_reads_value (cfg : Cfg) (rq : Req) (c : Ctx) (hk : List SAct) (st st' : St) (v : PVal)
    (hh : cfg.hook = some (.get keyRecover :: hk)) (hb : body cfg rq c = (st, some (.panic v)))
    (hr : runS .hook (.get keyRecover :: hk) (hookStart v st) = (st', none)) :
    ∃ post, (handleRequest cfg rq c).1.trace =
      st.trace ++ [.hookEnter, .got .hook keyRecover (some (.pv v))] ++ post := by
  have hret : handleRequest cfg rq c = (ensureWH (st'.ev .hookLeave), none) := by
    simp [handleRequest, hh, hb, hr]
  have hget : mapGet (hookStart v st).ctx.data keyRecover = some (.pv v) := by
    simp [hookStart, St.ev, Ctx.set, mapGet_mapSet_same]
  rw [runS] at hr
  simp only [stepS, hget] at hr
  obtain ⟨_, _, H, hH, _, _⟩ := runS_good .hook hk ((hookStart v st).ev (.got .hook keyRecover (some (.pv v))))
  rw [hr] at hH
  simp only [liftP, hookStart, St.ev] at hH
  exact ⟨H ++ [.hookLeave], by rw [hret]; simp [ensureWH_trace, St.ev, hH]⟩

/-- at the level of `ServeHTTP`: it returns, and the context goes back to the pool -/
theorem C09_hook_contained_serve (cfg : Cfg) (pool : List Ctx) (pick : Option Nat) (rq : Req)
    (hk : List SAct) (st st' : St) (v : PVal) (hh : cfg.hook = some hk)
    (hb : body cfg rq ((poolGet cfg.rid pool pick).1.init rq.w rq.r) = (st, some (.panic v)))
    (hr : runS .hook hk (hookStart v st) = (st', none)) :
    (serve cfg pool pick rq).1.outcome = .returned ∧
    (serve cfg pool pick rq).2 = (ensureWH (st'.ev .hookLeave)).ctx :: (poolGet cfg.rid pool pick).2 := by
  have h := ((C09_hook_once cfg rq _ hk st v hh hb).2 st' hr).1
  simp [serve, Result.ofOut, h]

/-- a hook that panics itself: the new value propagates (and nothing is committed by rux) -/
theorem C09_hook_panics (cfg : Cfg) (rq : Req) (c : Ctx) (hk : List SAct) (st st' : St) (v v' : PVal)
    (hh : cfg.hook = some hk) (hb : body cfg rq c = (st, some (.panic v)))
    (hr : runS .hook hk (hookStart v st) = (st', some v')) :
    handleRequest cfg rq c = (st', some (.panic v')) := by
  simp [handleRequest, hh, hb, hr]

/-! ### the response the hook produced -/

/-- the hook does nothing: the commit is the status set before the panic, 200 if none was set —
    and nothing at all when the response was already committed before the panic -/
theorem C09_hook_response_nothing (cfg : Cfg) (rq : Req) (c : Ctx) (st : St) (v : PVal)
    (hh : cfg.hook = some []) (hb : body cfg rq c = (st, some (.panic v))) :
    (handleRequest cfg rq c).2 = none ∧
    (handleRequest cfg rq c).1.log = st.log ++ commitOf st.ctx.writer := by
  have h : handleRequest cfg rq c = (ensureWH ((hookStart v st).ev .hookLeave), none) := by
    simp [handleRequest, hh, hb, runS]
  rw [h]
  exact ⟨rfl, by rw [ensureWH_log]; rfl⟩

/-- nothing set anywhere, nothing committed before the panic ⇒ exactly `WriteHeader(200)` -/
theorem C09_hook_response_default_200 (cfg : Cfg) (rq : Req) (c : Ctx) (st : St) (v : PVal)
    (hh : cfg.hook = some []) (hb : body cfg rq c = (st, some (.panic v)))
    (hs : st.ctx.writer.status = 0) (hl : st.ctx.writer.length = noWritten) :
    (handleRequest cfg rq c).1.log = st.log ++ [.wh (.under st.ctx.writer.under) 200] := by
  rw [(C09_hook_response_nothing cfg rq c st v hh hb).2]
  simp [commitOf, hs, hl]

/-- the hook only sets a status (F8): that status is committed — unless the response was committed before
    the panic, then nothing more is sent -/
theorem C09_hook_response_status (cfg : Cfg) (rq : Req) (c : Ctx) (st : St) (v : PVal) (code : Int)
    (hh : cfg.hook = some [.setStatus code]) (hb : body cfg rq c = (st, some (.panic v))) (hc : code > 0) :
    (handleRequest cfg rq c).2 = none ∧
    (handleRequest cfg rq c).1.log =
      st.log ++ (if st.ctx.writer.length = noWritten then [.wh (.under st.ctx.writer.under) code] else []) := by
  have hne : code ≠ 0 := by omega
  simp only [handleRequest, hh, hb, runS, stepS, ownWriteHeader, hookStart, St.ev, ensureWH, Ctx.set]
  by_cases h1 : st.ctx.writer.status = code <;> by_cases h2 : st.ctx.writer.length = noWritten <;>
    simp [h1, h2, hc, hne]

/-- the writer's `length` is never below `noWritten` (-1) in a state reached from an initialised context -/
theorem C09_length_invariant (cfg : Cfg) (rq : Req) (c : Ctx) (w r : Nat) :
    noWritten ≤ (body cfg rq (c.init w r)).1.ctx.writer.length := by
  apply (body_good cfg rq (c.init w r)).wlen
  cases hk : rq.kind <;> simp [start, prelude, hk, Ctx.set, Ctx.init, Ctx.reset, Writer.reset]

/-- the hook sets a status and writes a body through `c.Resp` (= the context's own writer): status, then body;
    already committed before the panic ⇒ only the body follows.  (`hl` holds for every state reached from an
    initialised context: `C09_length_invariant`.) -/
theorem C09_hook_response_status_body (cfg : Cfg) (rq : Req) (c : Ctx) (st : St) (v : PVal) (code : Int)
    (b : Bytes) (hh : cfg.hook = some [.setStatus code, .write b])
    (hb : body cfg rq c = (st, some (.panic v))) (hc : code > 0) (hr : st.ctx.resp = .own)
    (hl : noWritten ≤ st.ctx.writer.length) :
    (handleRequest cfg rq c).2 = none ∧
    (handleRequest cfg rq c).1.log =
      st.log ++ (if st.ctx.writer.length = noWritten then [.wh (.under st.ctx.writer.under) code] else []) ++
        [.wr (.under st.ctx.writer.under) b] := by
  have hne : code ≠ 0 := by omega
  have hnw : (b.length : Int) ≠ noWritten := by
    simp only [noWritten, Facts.noWritten]; omega
  have hnw2 : st.ctx.writer.length ≠ noWritten → st.ctx.writer.length + (b.length : Int) ≠ noWritten := by
    simp only [noWritten, Facts.noWritten] at hl ⊢; omega
  simp only [handleRequest, hh, hb, runS, stepS, ownWriteHeader, ownWrite, hookStart, St.ev, ensureWH, Ctx.set, hr]
  by_cases h1 : st.ctx.writer.status = code <;> by_cases h2 : st.ctx.writer.length = noWritten <;>
    simp [h1, h2, hc, hne, hnw, hnw2]

/-- whatever the hook does (as long as it returns): when `handleHTTPRequest` returns, the header is committed -/
theorem C09_committed (cfg : Cfg) (rq : Req) (c : Ctx) (hk : List SAct) (st st' : St) (v : PVal)
    (hh : cfg.hook = some hk) (hb : body cfg rq c = (st, some (.panic v)))
    (hr : runS .hook hk (hookStart v st) = (st', none)) :
    (handleRequest cfg rq c).1.ctx.writer.length ≠ noWritten := by
  rw [((C09_hook_once cfg rq c hk st v hh hb).2 st' hr).1]
  exact ensureWH_committed _

/-! ### no hook -/

/-- without a hook the panic reaches the caller of `ServeHTTP` with the SAME value — the value of the panic
    event that ends the trace —, nothing is committed by rux on the way, and the context is NOT put back -/
theorem C09_no_hook_propagates (cfg : Cfg) (pool : List Ctx) (pick : Option Nat) (rq : Req) (st : St) (v : PVal)
    (hh : cfg.hook = none)
    (hb : body cfg rq ((poolGet cfg.rid pool pick).1.init rq.w rq.r) = (st, some (.panic v))) :
    (serve cfg pool pick rq).1 = { outcome := .stopped (.panic v), trace := st.trace, log := st.log } ∧
    (∃ pre p, st.trace = pre ++ [.panicked p v]) ∧
    (serve cfg pool pick rq).2 = (poolGet cfg.rid pool pick).2 := by
  have hr : handleRequest cfg rq ((poolGet cfg.rid pool pick).1.init rq.w rq.r) = (st, some (.panic v)) := by
    simp [handleRequest, hh, hb]
  refine ⟨by simp [serve, Result.ofOut, hr], ?_, by simp [serve, hr]⟩
  obtain ⟨_, _, evs, ht, _, hp⟩ := body_good cfg rq ((poolGet cfg.rid pool pick).1.init rq.w rq.r)
  rw [hb] at ht hp
  obtain ⟨pre, p, hpre⟩ := hp v rfl
  exact ⟨pre, p, by simpa [start, hpre] using ht⟩

/-! ### the router stays healthy -/

/-- a context whose request ended with a propagated panic (or left the model) is in no later pool:
    the pool after the request is the pool before it minus the context that was taken -/
theorem C09_lost_context_never_reused (cfg : Cfg) (pool : List Ctx) (pick : Option Nat) (rq : Req)
    (h : (serve cfg pool pick rq).1.outcome ≠ .returned) :
    (serve cfg pool pick rq).2 = (poolGet cfg.rid pool pick).2 := by
  simp only [serve, Result.ofOut] at h ⊢
  split
  · rename_i heq; simp [heq] at h
  · rfl

/-- For every history — requests that panic with or without hook at any point, mixed with any others, any
    choice of pooled context, losses from the pool — every request's complete result (returned or panicked and
    with what, everything its handlers did and observed, everything sent to its writer) is what the same
    request gives as the first request on a fresh identical router: "as if the panic had never happened".
    Two facts make it true: a context that is put back (hook case: in whatever state the panic left it) is
    re-initialised by `Init` before any handler sees it (`C10_serve_as_fresh`), and a context whose panic
    propagated never comes back (`C09_lost_context_never_reused`). -/
theorem C09_healthy (cfg : Cfg) (steps : List Step) (pool : List Ctx) (h : PoolOk cfg.rid pool) :
    (runHist cfg pool steps).1 = (Step.reqs steps).map (serveFresh cfg) :=
  C10_history cfg steps pool h

/-- the same when the router is reconfigured between the requests (OnPanic / OnError installed, replaced or
    removed at any time): each request's result is its result on a fresh router with the configuration of
    that moment -/
theorem C09_healthy_reconfigured (rid : Nat) (steps : List (Cfg × Option Nat × Req)) (pool : List Ctx)
    (h : PoolOk rid pool) (hc : ∀ s ∈ steps, s.1.rid = rid) :
    runHistCfg pool steps = steps.map (fun s => serveFresh s.1 s.2.2) := by
  induction steps generalizing pool with
  | nil => rfl
  | cons s rest ih =>
    obtain ⟨cfg, pick, rq⟩ := s
    have hr : cfg.rid = rid := hc (cfg, pick, rq) (by simp)
    subst hr
    simp only [runHistCfg, List.map_cons]
    rw [C10_serve_as_fresh cfg pool pick rq h]
    rw [ih _ (C10_pool_invariant cfg pool pick rq h) (fun s hs => hc s (List.mem_cons_of_mem _ hs))]

/-- the model covers every chain rux accepts: with at most 64 handlers in the chain (registration refuses 63
    and more per route and for the globals), `handleHTTPRequest` never leaves the modelled fragment
    (`Stop.off` = "Abort moved the cursor backwards") — so every theorem above speaks about all such requests -/
theorem C09_in_model (cfg : Cfg) (rq : Req) (c : Ctx) (hlen : rq.chain.length ≤ 64) (hidx : c.index = -1) :
    (handleRequest cfg rq c).2 ≠ some .off := by
  have hidx' : (start rq c).ctx.index = -1 := by
    cases hk : rq.kind <;> simp [start, prelude, hk, Ctx.set, hidx]
  have hl := loop_fwd rq.chain 0 (start rq c) (by simp [start]) (by simpa [start] using hlen)
    (by rw [hidx']; decide) (by rw [hidx']; decide)
  have hb : (body cfg rq c).2 ≠ some .off := by
    unfold body
    generalize loop 0 rq.chain (start rq c) = r at hl
    obtain ⟨s, x⟩ := r
    cases x with
    | some x => exact hl.noOff
    | none =>
      simp only
      generalize runOnError cfg s = r2
      obtain ⟨s2, x2⟩ := r2
      cases x2 <;> simp
  unfold handleRequest
  split
  · exact hb
  · generalize body cfg rq c = r at hb
    obtain ⟨s, x⟩ := r
    cases x with
    | none => simp
    | some x =>
      cases x with
      | off => exact absurd rfl hb
      | panic v =>
        simp only
        generalize runS .hook _ (hookStart v s) = r2
        obtain ⟨s2, x2⟩ := r2
        cases x2 <;> simp

/-! ### the in-chain `PanicsHandler` -/

/-- `PanicsHandler` at position `i`, reached by the loop: a panic raised anywhere below its `c.Next()` does not
    pass it.  It calls `c.Resp.WriteHeader(500)` and returns; the `Next()` loop of ITS caller then goes on
    after the handler that panicked (the chain is NOT aborted). -/
theorem C09_panicsHandler_recovers (i : Nat) (rest : List Handler) (st st2 : St) (v : PVal)
    (hlt : st.ctx.index < st.last) (hi : st.ctx.index + 1 = (i : Int))
    (hp : loop (i + 1) rest { st with ctx := { st.ctx with index := st.ctx.index + 1 } } = (st2, some (.panic v)))
    (hresp : st2.ctx.resp ≠ .nil) :
    (respWriteHeader (.h i) st2 500).2 = none ∧
    loop i (.panicsHandler :: rest) st = loop (i + 1) rest (respWriteHeader (.h i) st2 500).1 := by
  have hn : (respWriteHeader (.h i) st2 500).2 = none := by
    unfold respWriteHeader
    split <;> simp_all
  refine ⟨hn, ?_⟩
  rw [loop, if_pos hlt, if_pos hi]
  simp only [hp]
  generalize respWriteHeader (.h i) st2 500 = r at hn
  obtain ⟨s3, x3⟩ := r
  simp only at hn
  subst hn
  rfl

/-- … and 500 is recorded as the status of the response (when `c.Resp` is still the context's own writer);
    it is what gets committed later unless the header was committed before or a later handler changes it -/
theorem C09_panicsHandler_500 (i : Nat) (st2 : St) (hresp : st2.ctx.resp = .own) :
    (respWriteHeader (.h i) st2 500).1.ctx.writer.status = 500 ∧
    (respWriteHeader (.h i) st2 500).1.log = st2.log ∧
    (respWriteHeader (.h i) st2 500).1.ctx.writer.length = st2.ctx.writer.length := by
  simp only [respWriteHeader, hresp, ownWriteHeader]
  by_cases h : st2.ctx.writer.status = 500 <;> simp [h]

/-- whole dispatch with `PanicsHandler` as the first global middleware and a panic in the LAST handler of the
    chain (or after an abort: the cursor is at or past the end): `handleHTTPRequest` returns, and the client
    gets `WriteHeader(500)` — or nothing more, when the header had been committed before the panic -/
theorem C09_panicsHandler_dispatch (cfg : Cfg) (rq : Req) (c : Ctx) (rest : List Handler) (st2 : St) (v : PVal)
    (hc : rq.chain = .panicsHandler :: rest) (hidx : c.index = -1)
    (hp : loop 1 rest { start rq c with ctx := { (start rq c).ctx with index := 0 } } = (st2, some (.panic v)))
    (hresp : st2.ctx.resp = .own) (hend : ¬ st2.ctx.index < st2.last) (herr : st2.ctx.errors = []) :
    (handleRequest cfg rq c).2 = none ∧
    (handleRequest cfg rq c).1.log =
      st2.log ++ (if st2.ctx.writer.length = noWritten then [.wh (.under st2.ctx.writer.under) 500] else []) := by
  have hidx' : (start rq c).ctx.index = -1 := by
    cases hk : rq.kind <;> simp [start, prelude, hk, Ctx.set, hidx]
  have hlt : (start rq c).ctx.index < (start rq c).last := by
    simp only [St.last, hidx']
    simp only [start, hc, List.length_cons]; omega
  have hi : (start rq c).ctx.index + 1 = ((0 : Nat) : Int) := by rw [hidx']; rfl
  have hp' : loop (0 + 1) rest { start rq c with ctx := { (start rq c).ctx with index := (start rq c).ctx.index + 1 } }
      = (st2, some (.panic v)) := by
    rw [← hp, hidx']; rfl
  obtain ⟨_, hrec⟩ := C09_panicsHandler_recovers 0 rest (start rq c) st2 v hlt hi hp' (by rw [hresp]; simp)
  obtain ⟨h500, hlog, hlen⟩ := C09_panicsHandler_500 0 st2 hresp
  -- after the recovery nothing is left to run
  have hrest : loop (0 + 1) rest (respWriteHeader (.h 0) st2 500).1 = ((respWriteHeader (.h 0) st2 500).1, none) := by
    apply loop_done
    simp only [respWriteHeader, hresp, ownWriteHeader, St.last] at hend ⊢
    split <;> simpa [St.last] using hend
  have hbody : body cfg rq c = (ensureWH (respWriteHeader (.h 0) st2 500).1, none) := by
    have herr' : (respWriteHeader (.h 0) st2 500).1.ctx.errors = [] := by
      simp only [respWriteHeader, hresp, ownWriteHeader]
      split <;> simpa using herr
    unfold body
    rw [hc, hrec, hrest]
    simp only [runOnError, herr']
    cases cfg.onError <;> simp
  have hres : handleRequest cfg rq c = (ensureWH (respWriteHeader (.h 0) st2 500).1, none) := by
    unfold handleRequest
    cases cfg.hook <;> simp [hbody]
  rw [hres]
  refine ⟨rfl, ?_⟩
  simp only [ensureWH, hlen, hlog, h500]
  have hu : (respWriteHeader (.h 0) st2 500).1.ctx.writer.under = st2.ctx.writer.under := by
    simp only [respWriteHeader, hresp, ownWriteHeader]
    split <;> rfl
  split <;> simp [hu, hlog]

/-! ### non-vacuity -/

namespace C09Ex

def boom : PVal := .str [98, 111, 111, 109]

/-- three middlewares around a main handler; the 2nd panics AFTER `Next()` returned, two handlers are suspended -/
def chain1 : List Handler :=
  [ .acts [.s (.emit 1), .next, .s (.emit 2)],
    .acts [.s (.emit 3), .next, .s (.panic boom), .s (.emit 4)],
    .acts [.s (.emit 5), .next, .s (.emit 6)],
    .acts [.s (.emit 7)] ]

def rq1 : Req := { w := 1, r := 1, kind := Kind.notFound, chain := chain1 }
def cfgStatus : Cfg := { rid := 7, hook := some [.get keyRecover, .setStatus 500], onError := none }
def cfgNone : Cfg := { rid := 7, hook := none, onError := none }
def c0 : Ctx := (newCtx 7).init 1 1

-- the hypothesis of the hook theorems is met: the body ends in a panic with that value …
example : (body cfgStatus rq1 c0).2 = some (.panic boom) := by decide +kernel
-- … and the whole trace is as the theorems say: handlers 2 and 3 ran completely, 1 panicked after its Next(),
-- handler 0 never resumed (no `mark 0 2`, no `leave 0`), the hook ran once and read the value
example : (serve cfgStatus [] none rq1).1 =
    { outcome := .returned,
      trace := [.enter 0, .mark (.h 0) 1, .enter 1, .mark (.h 1) 3, .enter 2, .mark (.h 2) 5, .enter 3, .mark (.h 3) 7,
                .leave 3, .mark (.h 2) 6, .leave 2, .panicked (.h 1) boom,
                .hookEnter, .got .hook keyRecover (some (.pv boom)), .hookLeave],
      log := [.wh (.under (some 1)) 500] } := by decide +kernel
-- without hook: the same value propagates, nothing is committed, the context is lost
example : (serve cfgNone [] none rq1).1.outcome = .stopped (.panic boom) ∧ (serve cfgNone [] none rq1).1.log = [] ∧
    (serve cfgNone [] none rq1).2 = [] := by decide +kernel

-- panic in the OnError handler, and a runtime panic (write to nil Params) in a custom 404 chain
example : (serve { rid := 7, hook := some [], onError := some [.panic (.int 3)] } [] none
    { w := 1, r := 1, kind := Kind.notFound, chain := [.acts [.s (.addError [101])]] }).1 =
    { outcome := .returned,
      trace := [.enter 0, .leave 0, .errEnter, .panicked .onErr (.int 3), .hookEnter, .hookLeave],
      log := [.wh (.under (some 1)) 200] } := by decide +kernel
example : (serve cfgStatus [] none { w := 1, r := 1, kind := Kind.notFound, chain := [.acts [.s (.setParam [112] [120])]] }).1.trace =
    [.enter 0, .panicked (.h 0) .rtNilMap, .hookEnter, .got .hook keyRecover (some (.pv .rtNilMap)), .hookLeave] := by
  decide +kernel

-- PanicsHandler does not abort: after the recovery the main handler still runs (body "MAIN" under status 500) …
def rqPH1 : Req := { w := 1, r := 1, kind := Kind.notFound, chain := [.panicsHandler, .acts [.s (.panic boom)], .acts [.s (.write [77])]] }
def rqPH2 : Req := { w := 1, r := 1, kind := Kind.notFound, chain := [.panicsHandler, .acts [.s (.panic boom)], .acts [.s (.panic (.int 2))]] }
example : (serve cfgNone [] none rqPH1).1 =
    { outcome := .returned, trace := [.enter 1, .panicked (.h 1) boom, .enter 2, .leave 2],
      log := [.wh (.under (some 1)) 500, .wr (.under (some 1)) [77]] } := by decide +kernel
-- … and a second panic after the recovery is not caught by it
example : (serve cfgNone [] none rqPH2).1.outcome =
    .stopped (.panic (.int 2)) := by decide +kernel
-- the hypotheses of C09_panicsHandler_dispatch are met by a panic in the last handler
def rqPH : Req :=
  { w := 1, r := 1, kind := Kind.notFound, chain := [.panicsHandler, .acts [.next], .acts [.s (.panic boom)]] }
def outPH : Out := loop 1 [.acts [.next], .acts [.s (.panic boom)]]
  { start rqPH c0 with ctx := { (start rqPH c0).ctx with index := 0 } }
example : outPH.2 = some (.panic boom) ∧ outPH.1.ctx.resp = .own ∧ ¬ outPH.1.ctx.index < outPH.1.last ∧
    outPH.1.ctx.errors = [] := by decide +kernel

-- a history: panic with hook, panic without … every later request equals its fresh self (instance of C09_healthy)
example : (runHist cfgStatus [] [.req none rq1, .req (some 0) { rq1 with w := 2, r := 2 },
      .req (some 0) { w := 3, r := 3, kind := Kind.notFound, chain := [.acts [.s .dump]] }]).1.map (·.outcome) =
    [.returned, .returned, .returned] := by decide +kernel

end C09Ex

end Rux
