import RuxModel.Tie.Pipeline
import RuxModel.Props.C06Gen
import RuxModel.Props.C07
import RuxModel.Props.C02
import RuxModel.Props.C01
/-
  C06 / C07 / C02 / C01 on the COMPOSED generated pipeline (Tie/Pipeline.lean): `QuickMatch` as generated from
  parse_match.go, whose `r.match` is the generated `Router.match` and whose `r.findAllowedMethods` is the generated
  `findAllowedMethods` (which calls the generated `match` again) — over the model's tables and route cache, no model
  function in between.  `ord` is the order in which Go's `range` visits the keys of the map in `findAllowedMethods`:
  any function that keeps the length (a permutation does).
-/
set_option linter.unusedSimpArgs false
set_option linter.unusedVariables false
namespace Rux
open Tie

/-- the observation with the allowed methods in the order Go visited them -/
def obsOrd (ord : List Bytes → List Bytes) : Obs → Obs
  | .allowed ms => .allowed (ord ms)
  | o => o

theorem quickMatch_allowed_ne (rt : RouterM) (m p : Bytes) (ms : List Bytes)
    (h : (quickMatch rt m p).1 = .allowed ms) : ms ≠ [] := by
  unfold quickMatch at h
  simp only at h
  generalize fmtPath rt.opts.strict (if rt.opts.intercept.isEmpty = true then p else rt.opts.intercept) = q at h
  have tail : ∀ rt' : RouterM, (tailMatch rt' m q).1 = .allowed ms → ms ≠ [] := by
    intro rt' ht
    unfold tailMatch at ht
    split at ht
    · simp at ht
    · split at ht
      · simp only at ht
        split at ht
        · simp at ht
        · rename_i hne
          simp only [MatchResult.allowed.injEq] at ht
          subst ht
          intro he; rw [he] at hne; simp at hne
      · simp at ht
  rcases hm : matchM rt m q with ⟨_ | ⟨r, ps, c⟩, rt1⟩
  · rw [hm] at h
    simp only at h
    unfold headMatch at h
    by_cases hh : m = methodHEAD
    · simp only [if_pos hh] at h
      rcases hg : matchM rt1 methodGET q with ⟨_ | ⟨r, ps, c⟩, rt2⟩
      · rw [hg] at h; exact tail rt2 h
      · rw [hg] at h; simp at h
    · simp only [if_neg hh] at h; exact tail rt1 h
  · rw [hm] at h; simp at h

theorem genObs_absResO (ord : List Bytes → List Bytes) (hord : ∀ l, (ord l).length = l.length)
    (rt : RouterM) (m p : Bytes) :
    genObs (absResO ord (quickMatch rt m p).1) = obsOrd ord (quickMatch rt m p).1.obs := by
  cases hr : (quickMatch rt m p).1 with
  | allowed ms =>
    have hne := quickMatch_allowed_ne rt m p ms hr
    have : ord ms ≠ [] := by
      intro he
      have := hord ms
      rw [he] at this
      cases ms with
      | nil => exact hne rfl
      | cons a t => simp at this
    cases ho : ord ms with
    | nil => exact absurd ho this
    | cons a t => simp [absResO, genObs, MatchResult.obs, obsOrd, ho]
  | route r ps c => rfl
  | fallback r => rfl
  | notFound => rfl

/-- histories served by the composed generated pipeline, threading the router state (the route cache) -/
def genRunPipe (g : Gen.Router) (ord : List Bytes → List Bytes) (rt : RouterM) : List (Bytes × Bytes) → List (Option Obs)
  | [] => []
  | mp :: h =>
    match Gen.Router.QuickMatch g mp.1 mp.2 (envG g ord) rt with
    | .ok (rt', res) => some (genObs res) :: genRunPipe g ord rt' h
    | .error _ => [none]

/-- the generated record describes the router built with the options `o` -/
structure GenRel (g : Gen.Router) (o : Opts) : Prop where
  opts : OptsRel g o
  caching : g.enableCaching = o.caching

theorem quickMatch_opts (rt : RouterM) (m p : Bytes) : (quickMatch rt m p).2.opts = rt.opts := by
  unfold quickMatch
  simp only
  generalize fmtPath rt.opts.strict (if rt.opts.intercept.isEmpty = true then p else rt.opts.intercept) = q
  have fao : ∀ rt' : RouterM, (findAllowed rt' m q).2.opts = rt'.opts := by
    intro rt'
    unfold findAllowed
    generalize anyMethodsB = ms
    suffices ∀ (acc : List Bytes × RouterM), acc.2.opts = rt'.opts →
        (ms.foldl (fun (acc : List Bytes × RouterM) m' =>
          if m' = m then acc else
            let (res, rt'') := matchM acc.2 m' q
            (if res.isSome then acc.1 ++ [m'] else acc.1, rt'')) acc).2.opts = rt'.opts from this _ rfl
    induction ms with
    | nil => intro acc ha; exact ha
    | cons a t iht =>
      intro acc ha
      simp only [List.foldl_cons]
      apply iht
      by_cases hae : a = m
      · simp [hae, ha]
      · simp only [if_neg hae]
        exact (matchM_opts acc.2 a q).trans ha
  have tailo : ∀ rt' : RouterM, (tailMatch rt' m q).2.opts = rt'.opts := by
    intro rt'
    unfold tailMatch
    split
    · rfl
    · split
      · simp only; split <;> exact fao rt'
      · rfl
  rcases hmm : matchM rt m q with ⟨_ | ⟨r, ps, c⟩, rt1⟩
  · have h1 : rt1.opts = rt.opts := by have := matchM_opts rt m q; rw [hmm] at this; exact this
    simp only
    unfold headMatch
    by_cases hh : m = methodHEAD
    · simp only [if_pos hh]
      rcases hg2 : matchM rt1 methodGET q with ⟨_ | ⟨r, ps, c⟩, rt2⟩
      · have h2 : rt2.opts = rt1.opts := by have := matchM_opts rt1 methodGET q; rw [hg2] at this; exact this
        simp only; exact ((tailo rt2).trans h2).trans h1
      · have h2 : rt2.opts = rt1.opts := by have := matchM_opts rt1 methodGET q; rw [hg2] at this; exact this
        exact h2.trans h1
    · simp only [if_neg hh]; exact (tailo rt1).trans h1
  · have h1 : rt1.opts = rt.opts := by have := matchM_opts rt m q; rw [hmm] at this; exact this
    exact h1

theorem genRunPipe_eq (g : Gen.Router) (ord : List Bytes → List Bytes) (hord : ∀ l, (ord l).length = l.length)
    (hnd : anyMethodsB.Nodup) (h : List (Bytes × Bytes)) :
    ∀ rt : RouterM, GenRel g rt.opts →
      genRunPipe g ord rt h = (runQuick rt h).map (fun o => some (obsOrd ord o)) := by
  induction h with
  | nil => intro _ _; rfl
  | cons mp h ih =>
    intro rt hrel
    simp only [genRunPipe, runQuick, tie_pipeline g ord rt hrel.opts hrel.caching hnd hord mp.1 mp.2,
      List.map_cons, genObs_absResO ord hord]
    congr 1
    exact ih _ (by rw [quickMatch_opts]; exact hrel)

theorem anyMethods_nodup : anyMethodsB.Nodup := by decide

/-- **C06 on the composed pipeline**: every request of every history is resolved in the fixed order of the stateless
    specification `quickPure` (direct match, HEAD→GET, `/*` of the method, 405 with exactly the other matching methods,
    404), whatever was served before and whatever the cache holds. -/
theorem C06_gen_pipeline_history (g : Gen.Router) (ord : List Bytes → List Bytes) (hord : ∀ l, (ord l).length = l.length)
    (o : Opts) (rs : List RouteM) (hg : GenRel g o) (h : List (Bytes × Bytes)) (hm : ∀ mp ∈ h, (0x2F : Nat) ∉ mp.1) :
    genRunPipe g ord (build o rs) h = h.map fun mp => some (obsOrd ord (quickPure (build o rs) mp.1 mp.2)) := by
  have hbo : (build o rs).opts = o := by unfold build; rw [foldl_insert_opts]; rfl
  rw [genRunPipe_eq g ord hord anyMethods_nodup h (build o rs) (by rw [hbo]; exact hg),
    C07_history_is_pure o rs h hm, List.map_map]
  rfl

/-- **C07 on the composed pipeline**: the generated code with the route cache enabled (any capacity) observes, request
    by request, exactly what it observes with the cache disabled — after evictions, for repeated requests, for HEAD
    fallbacks and for method-not-allowed probes (they all go through the generated `match`). -/
theorem C07_gen_pipeline_transparent (g g' : Gen.Router) (ord : List Bytes → List Bytes)
    (hord : ∀ l, (ord l).length = l.length) (o : Opts) (rs : List RouteM) (cap : Nat)
    (hg : GenRel g { o with caching := true, cap := cap }) (hg' : GenRel g' { o with caching := false, cap := cap })
    (h : List (Bytes × Bytes)) (hm : ∀ mp ∈ h, (0x2F : Nat) ∉ mp.1) :
    genRunPipe g ord (build { o with caching := true, cap := cap } rs) h =
      genRunPipe g' ord (build { o with caching := false, cap := cap } rs) h := by
  rw [C06_gen_pipeline_history g ord hord _ rs hg h hm, C06_gen_pipeline_history g' ord hord _ rs hg' h hm]
  apply List.map_congr_left
  intro mp _
  rw [quickPure_caching_irrelevant o rs true cap, quickPure_caching_irrelevant o rs false cap]


/-- **C03 (the routing tables are read-only after registration) on the composed pipeline**: serving a request with
    the generated `QuickMatch` / `match` / `findAllowedMethods` leaves the options and the three routing tables exactly
    as they were — the only shared state a request changes is the route cache (the part behind the RW mutex), and it
    stays coherent.  Requests therefore cannot influence each other through the tables, whatever their order. -/
theorem C03_gen_pipeline_tables_readonly (g : Gen.Router) (ord : List Bytes → List Bytes)
    (hord : ∀ l, (ord l).length = l.length) (rt : RouterM) (hg : GenRel g rt.opts) (hc : CacheOK rt)
    (m p : Bytes) (hm : (0x2F : Nat) ∉ m) :
    ∃ rt' res, Gen.Router.QuickMatch g m p (envG g ord) rt = .ok (rt', res) ∧ SameTables rt rt' ∧ CacheOK rt' := by
  refine ⟨_, _, tie_pipeline g ord rt hg.opts hg.caching anyMethods_nodup hord m p, ?_, ?_⟩
  · exact (quickMatch_spec rt m p hm hc).2.1
  · exact (quickMatch_spec rt m p hm hc).2.2

/-- … and so the answer to a request does not depend on which requests were served before it, in whatever order
    (any two histories, e.g. two interleavings of the same concurrent requests, followed by the same request) -/
theorem C03_gen_pipeline_history_independent (g : Gen.Router) (ord : List Bytes → List Bytes)
    (hord : ∀ l, (ord l).length = l.length) (o : Opts) (rs : List RouteM) (hg : GenRel g o)
    (h1 h2 : List (Bytes × Bytes)) (m p : Bytes)
    (hm1 : ∀ mp ∈ h1, (0x2F : Nat) ∉ mp.1) (hm2 : ∀ mp ∈ h2, (0x2F : Nat) ∉ mp.1) (hm : (0x2F : Nat) ∉ m) :
    (genRunPipe g ord (build o rs) (h1 ++ [(m, p)])).getLast? =
      (genRunPipe g ord (build o rs) (h2 ++ [(m, p)])).getLast? := by
  rw [C06_gen_pipeline_history g ord hord o rs hg (h1 ++ [(m, p)]) (by
        intro mp hmp; rcases List.mem_append.mp hmp with h | h
        · exact hm1 mp h
        · simp at h; subst h; exact hm),
      C06_gen_pipeline_history g ord hord o rs hg (h2 ++ [(m, p)]) (by
        intro mp hmp; rcases List.mem_append.mp hmp with h | h
        · exact hm2 mp h
        · simp at h; subst h; exact hm)]
  simp

/-- **C01 on the composed pipeline**: the table is built by registering ANY accepted list of definitions (model of
    registration), the request is served by the generated code: whenever the specification selects a route for the
    method and the normalised path (the static route registered last for exactly this path, else the first registered
    matching dynamic route with the path's first segment as literal prefix, else the first matching of the rest), the
    generated pipeline answers exactly that route with exactly those parameters. -/
theorem C01_gen_pipeline_select (g : Gen.Router) (ord : List Bytes → List Bytes) (hord : ∀ l, (ord l).length = l.length)
    (o : Opts) (defs : List RouteDef) (rt : RouterM) (rs : List RouteM)
    (hreg : registerAll (RouterM.new o) defs = some (rt, rs)) (hg : GenRel g o) (hi : o.intercept = [])
    (m p : Bytes) (hm : (0x2F : Nat) ∉ m) (r : RouteM) (ps : Params)
    (hsel : specSelect rs m (fmtPath o.strict p) = some (r, ps)) :
    genRunPipe g ord rt [(m, p)] = [some (.route r ps)] := by
  obtain ⟨h1, h2, _⟩ := registerAll_build defs _ _ _ hreg
  have hb : rt = build o rs := h1
  have hopts : rt.opts = o := h2
  have hlook : lookupPure rt m (lookupPath rt p) = some (r, ps) := by
    have : lookupPath rt p = fmtPath o.strict p := by simp [lookupPath, hopts, hi]
    rw [this, C01_priority o defs rt rs hreg m p hm]; exact hsel
  have hq := C06_direct_first rt m p r ps hlook
  rw [hb] at hq ⊢
  rw [C06_gen_pipeline_history g ord hord o rs hg [(m, p)] (by simpa using hm)]
  simp [hq, obsOrd]

/-- **C02 on the composed pipeline**: the parameters the generated code reports for a dynamic route have exactly the
    route's variable names as keys, each once, and they are the values of a reading of the whole normalised path by the
    route's pattern (so substituting them back reproduces the path: `C02_subst`); a static route reports none. -/
theorem C02_gen_pipeline_params (g : Gen.Router) (ord : List Bytes → List Bytes) (hord : ∀ l, (ord l).length = l.length)
    (o : Opts) (defs : List RouteDef) (rt : RouterM) (rs : List RouteM)
    (hreg : registerAll (RouterM.new o) defs = some (rt, rs)) (hg : GenRel g o) (hi : o.intercept = [])
    (m p : Bytes) (hm : (0x2F : Nat) ∉ m) (r : RouteM) (ps : Params)
    (hsel : specSelect rs m (fmtPath o.strict p) = some (r, ps)) :
    genRunPipe g ord rt [(m, p)] = [some (.route r ps)] ∧
    (r.static = true → ps = []) ∧
    (r.static = false →
      (∃ caps, LevelsLang r.info.levels caps (fmtPath o.strict p) ∧ ps = mkParams r.info.names caps) ∧
      (∀ kv ∈ ps, kv.1 ∈ r.info.names) ∧ (∀ n ∈ r.info.names, ∃ v, (n, v) ∈ ps) ∧ (ps.map (·.1)).Nodup) := by
  refine ⟨C01_gen_pipeline_select g ord hord o defs rt rs hreg hg hi m p hm r ps hsel, ?_, ?_⟩
  · exact (C01_sound rs m _ r ps hsel).2.2.1
  · intro hns
    obtain ⟨hin, _, _, hdyn⟩ := C01_sound rs m _ r ps hsel
    obtain ⟨caps, hl, hps⟩ := hdyn hns
    obtain ⟨_, _, htab⟩ := registerAll_build defs _ _ _ hreg
    have hok := htab.dynOK r hin hns
    have hcount := C02_caps_count hl
    have hn : r.info.names.length = levelsVars r.info.levels := by
      unfold routeOK at hok
      simp only [Bool.and_eq_true, beq_iff_eq] at hok
      exact hok.1.1
    subst hps
    exact ⟨⟨caps, hl, rfl⟩, mkParams_keys_subset _ _, mkParams_has_name _ _ (by omega), mkParams_keys_nodup _ _⟩

end Rux
