import RuxModel.Lemmas.Reg
/-
  C04 (registration half) — WHICH chain is assembled for a request.
  The onion half (how a chain runs: `C04_onion`) belongs to the chain model; the integrator merges
  this file with it into Props/C04.lean.

  Clause of the statement                                           theorem
  ---------------------------------------------------------------   -----------------------------
  global middleware in Use order, including those added after the   C04_chain_of_route (globals at
  route was registered; then group middleware outermost → inner-     request time = top-level Use
  most; then the route's own middleware; then the main handler       arguments of the program ++ later)
  not-found / method-not-allowed run the global middleware around    C04_fallback_chain
  the corresponding fallback handlers (no group / route middleware)
  NOT here: each handler at most once, reverse order after Next, a   chain model (other half)
  middleware that does not call Next — `C04_onion`

  `chain` (Model/Reg.lean) mirrors `handleHTTPRequest`: the chain is built WHEN THE REQUEST ARRIVES
  from the router's global list as it is then, the matched route's stored list and its main handler.
  Which route a request resolves to is the table model's business (C01/C06).
-/
namespace Rux
open Reg Reg.Spec

/-- For every registration program `prog` run on a fresh router and every later sequence of
    top-level `Use` calls: the routes are those of the reference semantics of `prog` alone (the later
    calls change no route), the global list at request time is every `Use` argument that stands
    outside all groups, in order, followed by the later ones, and the chain executed for a request
    that resolves to a registered route `r` is
      globals at request time ++ handlers stored in r ++ [main r]
    where (`mkRouteL`) the stored handlers are the levels of the enclosing groups from the outermost
    to the innermost — each the group's middleware followed by the `Use` calls made in that group
    before the route — followed by the route's own middleware in call order. -/
theorem C04_chain_of_route (cfg : Cfg) (hne : ∀ x, cfg.fmt x ≠ []) (d404 d405 : H)
    (prog : List Stmt) (later : List (List H)) (st' : RS)
    (h : execList cfg RS.init (prog ++ later.map Stmt.use) = .ok st') :
    st'.routes = (denoteList cfg LScope.init prog).1 ∧
    st'.globals = topUses prog ++ later.flatten ∧
    (∀ r, r ∈ st'.routes →
      chain d404 d405 st'.toScope (.found r) = (topUses prog ++ later.flatten) ++ r.handlers ++ [r.main]) ∧
    (∀ (ls : LScope) (d : RouteDef),
      (mkRouteL cfg ls d).handlers = ls.lv.reverse.flatten ++ d.pre.flatten ++ d.post.flatten ∧
      (mkRouteL cfg ls d).main = d.main) := by
  have hd := execList_den_split cfg RS.init st' _ h
  rw [denList_append] at hd
  have hsp := (denList_denote cfg hne LScope.init rfl prog).1
  have h0 : RS.init.toScope = LScope.init.flat cfg := rfl
  rw [h0, hsp] at hd
  have hpfx : ((denoteList cfg LScope.init prog).2.flat cfg).pfx = [] := by
    have := denList_pfx cfg (LScope.init.flat cfg) prog
    rw [hsp] at this
    simpa [LScope.flat, LScope.init, LScope.fullPrefix] using this
  rw [denList_uses_top cfg later _ hpfx] at hd
  have htop := (denoteList_top cfg prog LScope.init rfl).1
  have hg : st'.globals = topUses prog ++ later.flatten := by
    have := congrArg Scope.globals hd.2
    simp only [LScope.flat] at this
    rw [this, htop]
    simp [LScope.init]
  refine ⟨by simpa [RS.init] using hd.1, hg, fun r _ => ?_, fun ls d => ⟨rfl, rfl⟩⟩
  simp only [chain]
  rw [show st'.toScope.globals = st'.globals from rfl, hg]

/-- Requests that resolve to not-found / method-not-allowed run the global list at request time
    followed by the fallback handlers — the argument of the LAST `NotFound` / `NotAllowed` call
    anywhere in the program, or the built-in handler when that is empty — and nothing else: no group
    and no route middleware. -/
theorem C04_fallback_chain (cfg : Cfg) (hne : ∀ x, cfg.fmt x ≠ []) (d404 d405 : H)
    (prog : List Stmt) (later : List (List H)) (st' : RS)
    (h : execList cfg RS.init (prog ++ later.map Stmt.use) = .ok st') :
    chain d404 d405 st'.toScope .notFound =
      (topUses prog ++ later.flatten) ++ (if (lastNFList [] prog).length = 0 then [d404] else lastNFList [] prog) ∧
    chain d404 d405 st'.toScope .notAllowed =
      (topUses prog ++ later.flatten) ++ (if (lastNAList [] prog).length = 0 then [d405] else lastNAList [] prog) := by
  have hg := (C04_chain_of_route cfg hne d404 d405 prog later st' h).2.1
  have hd := execList_den_split cfg RS.init st' _ h
  rw [denList_append] at hd
  have hsp := (denList_denote cfg hne LScope.init rfl prog).1
  have h0 : RS.init.toScope = LScope.init.flat cfg := rfl
  rw [h0, hsp] at hd
  have hpfx : ((denoteList cfg LScope.init prog).2.flat cfg).pfx = [] := by
    have := denList_pfx cfg (LScope.init.flat cfg) prog
    rw [hsp] at this
    simpa [LScope.flat, LScope.init, LScope.fullPrefix] using this
  rw [denList_uses_top cfg later _ hpfx] at hd
  have hnf := denoteList_nf cfg LScope.init prog
  have e1 : st'.noRoute = lastNFList [] prog := by
    have := congrArg Scope.noRoute hd.2
    simp only [LScope.flat] at this
    rw [this, hnf.1]; rfl
  have e2 : st'.noAllowed = lastNAList [] prog := by
    have := congrArg Scope.noAllowed hd.2
    simp only [LScope.flat] at this
    rw [this, hnf.2]; rfl
  simp only [chain]
  rw [show st'.toScope.globals = st'.globals from rfl, show st'.toScope.noRoute = st'.noRoute from rfl,
    show st'.toScope.noAllowed = st'.noAllowed from rfl, hg, e1, e2]
  exact ⟨rfl, rfl⟩

/-! ### non-vacuity -/

namespace C04ex
def g1 : Bytes := [47, 97]
def p1 : Bytes := [47, 120]
def rd (id : Nat) (post : List (List H)) : RouteDef :=
  { id := id, main := id, name := [], methods := [[71, 69, 84]], path := p1, pre := [], post := post }
/-- Use(1); Group("/a", { NotFound(8); Use(3); Group("/a", {GET /x [5]}, 4) }, 2); Use(6) — then, later, Use(7) -/
def prog : List Stmt :=
  [.use [1], .group g1 [2] [.notFound [8], .use [3], .group g1 [4] [.route (rd 10 [[5]])]], .use [6]]
def chains (r : Except Err RS) : List (List H) :=
  match r with
  | .ok st => st.routes.map (fun r => chain 404 405 st.toScope (.found r)) ++
      [chain 404 405 st.toScope .notFound, chain 404 405 st.toScope .notAllowed]
  | .error _ => []
end C04ex

open C04ex in
example : chains (execList (cleanCfg 63) RS.init (prog ++ [[7]].map Stmt.use)) =
    [[1, 6, 7, 2, 3, 4, 5, 10], [1, 6, 7, 8], [1, 6, 7, 405]] := by decide

end Rux
