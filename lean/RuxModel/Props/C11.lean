import RuxModel.Lemmas.Path
/-
  C11 — Registration and lookup normalise paths identically; normalisation is total.

  Model: Model/Path.lean (`formatPath strict`, `simpleFmtPath`, `storedPath`, `groupPrefix`,
  `nestedPrefix`, `Router.addStatic/matchStatic/serveStatic`), over ALL byte strings (lists of naturals, a
  superset of Go strings), for both `StrictLastSlash` settings (`st`).  Helper lemmas: Lemmas/Trim.lean,
  Lemmas/Path.lean.  `slash = 0x2F`.

  Clause of the statement                         theorem(s)
  ------------------------------------------------------------------------------------------------
  normalisation is total (never panics)           C11_total, C11_total_register, C11_total_match
                                                  (`simpleFmtPath` has no partial operation at all: TrimSpace,
                                                  a test for "", TrimLeft — it is a total function by type)
  registration and lookup normalise alike         C11_agree (NewRoute's simpleFmtPath + formatPath at
                                                  registration = formatPath at lookup)
  surrounding white space is ignored              C11_ws (any runs of white-space runes on both sides),
                                                  C11_ws_trimSpace (what Go's TrimSpace removes)
  a missing leading slash is repaired             C11_leading (side condition: no leading white space;
                                                  excluded string exhibited in C11_leading_excluded)
  a repeated leading slash is repaired            C11_slashes
  trailing slashes are insignificant (non-strict) C11_trailing, C11_trailing_mixed
  strict mode distinguishes /a and /a/            C11_strict_separates (decide), C11_nonstrict_merges
  shape of the result / normal forms              C11_shape, C11_normal_iff, C11_idem (idempotent: holds for
                                                  the current code, after the fix of F16)
  group prefix G, path P                          C11_group (closed form for normal G, P), C11_group_stored
                                                  (what is stored, any nesting), C11_group_reachable (the
                                                  stored path is a fixed point: the route is reached by
                                                  the request spelled like it — F16)
  a route registered as P is reached by every     C11_reach_step (general table: the newest registration
  request that normalises to the same string      under a key wins, every other lookup is unchanged),
  and by no other                                 C11_reach_table_sound / _complete (any registration program),
                                                  C11_reach (one route: iff), C11_reach_keys (method names
                                                  without '/': equal keys = equal method and equal path;
                                                  excluded method exhibited in C11_reach_keys_excluded)
  decoded vs escaped request path                 C11_path_choice (the model takes URL.Path and
                                                  URL.EscapedPath() as computed by net/url as inputs)
  InterceptAll                                    C11_intercept

  NOT proved here: dynamic routes ("iff the pattern matches formatPath q") — that is C01's table model;
  the HEAD→GET / fallback / 405 steps of QuickMatch (C06); net/url's computation of Path/EscapedPath
  (outside rux, real values are fed to the model by the harness); that `isWsRune` is exactly
  `unicode.IsSpace` on valid encodings (differentially tested by the gostr engine, with the 25 runes
  listed in `C11_ws_runes`).
-/
namespace Rux
open Bytes Path

/-! ### totality -/

/-- `formatPath` never reaches one of its index panics (`path[0]`, `path[1]`), whatever the string -/
theorem C11_total (st : Bool) (s : Bytes) : ∃ t, formatPath st s = .ok t :=
  ⟨_, formatPath_eq st s⟩

/-- registration (`NewRoute` + `appendGroupInfo`) inside any nesting of groups never panics in the
    normalisation steps -/
theorem C11_total_register (st : Bool) (gs : List Bytes) (P : Bytes) :
    ∃ pre s, nestedPrefix st [] gs = .ok pre ∧ storedPath st pre P = .ok s :=
  ⟨_, _, nestedPrefix_eq st [] gs, storedPath_eq st _ P⟩

/-- lookup of any request path (or intercept path) never panics in the normalisation step -/
theorem C11_total_match (r : Router) (m q : Bytes) : ∃ o, r.matchStatic m q = .ok o := by
  unfold Router.matchStatic
  simp only [formatPath_eq, bind, Except.bind, pure, Except.pure]
  exact ⟨_, rfl⟩

example : formatPath false [0x20, 0x20] = .ok [slash] := by decide        -- F3: "  " used to panic
example : formatPath false [0xE3, 0x80, 0x80] = .ok [slash] := by decide  -- U+3000 alone
example : formatPath true [] = .ok [slash] := by decide

/-! ### registration = lookup -/

/-- what is stored for a route registered as `P` (outside groups) is what a request spelled `P` is
    looked up as: `formatPath (simpleFmtPath P) = formatPath P` -/
theorem C11_agree (st : Bool) (P : Bytes) : formatPath st (simpleFmtPath P) = formatPath st P := by
  rw [formatPath_eq, formatPath_eq, final_simple]

/-! ### shape, normal forms, idempotence -/

/-- every result starts with `/`, has no second leading `/`, no leading or trailing white space and, in
    non-strict mode, no trailing `/` unless it is `/` itself -/
theorem C11_shape (st : Bool) (s t : Bytes) (h : formatPath st s = .ok t) :
    t.head? = some slash ∧ t[1]? ≠ some slash ∧ spaceAtHead t = 0 ∧ spaceAtHeadRev t.reverse = 0 ∧
    (st = false → t = [slash] ∨ hasSuffix t [slash] = false) := by
  rw [formatPath_eq] at h
  have ht : t = final st s := by injection h with h; exact h.symm
  have hnf := final_nf st s
  rw [← ht] at hnf
  refine ⟨?_, ?_, nf_noLead hnf, nf_noTrail hnf, ?_⟩
  · obtain ⟨x, hx⟩ := nf_head hnf; rw [hx]; rfl
  · rcases hnf with h1 | ⟨c, rest, hs, hc, _, _⟩
    · rw [h1]; simp
    · rw [hs]; simpa using hc
  · intro hst
    rcases hnf with h1 | ⟨c, rest, _, _, _, he⟩
    · exact Or.inl h1
    · exact Or.inr (he hst)

/-- the results are exactly the strings of that shape: a string is a fixed point of `formatPath` iff it is
    `/`, or starts with `/c` (`c ≠ '/'`), has no trailing white space and (non-strict) no trailing `/` -/
theorem C11_normal_iff (st : Bool) (t : Bytes) :
    formatPath st t = .ok t ↔
      (t = [slash] ∨ ∃ c rest, t = slash :: c :: rest ∧ c ≠ slash ∧ spaceAtHeadRev t.reverse = 0 ∧
        (st = false → hasSuffix t [slash] = false)) := by
  constructor
  · intro h
    rw [formatPath_eq] at h
    have ht : final st t = t := by injection h
    have := final_nf st t
    rw [ht] at this
    exact this
  · intro h
    rw [formatPath_eq, nf_fixed h]

/-- `formatPath` is idempotent (current code; before the fix of F16 it was not: `"/a /" ↦ "/a " ↦ "/a"`) -/
theorem C11_idem (st : Bool) (s t : Bytes) (h : formatPath st s = .ok t) : formatPath st t = .ok t := by
  rw [formatPath_eq] at h
  have ht : t = final st s := by injection h with h; exact h.symm
  rw [ht, formatPath_eq, final_idem]

example : formatPath false [slash, 0x61, 0x20, slash] = .ok [slash, 0x61] := by decide   -- "/a /" ↦ "/a"
example : formatPath true [slash, 0x61, 0x20, slash] = .ok [slash, 0x61, 0x20, slash] := by decide

/-! ### surrounding white space -/

/-- the 25 white-space runes of `unicode.IsSpace`, UTF-8 encoded, are white-space runes of the model -/
theorem C11_ws_runes :
    ∀ w ∈ ([[0x09], [0x0A], [0x0B], [0x0C], [0x0D], [0x20], [0xC2, 0x85], [0xC2, 0xA0], [0xE1, 0x9A, 0x80],
      [0xE2, 0x80, 0x80], [0xE2, 0x80, 0x81], [0xE2, 0x80, 0x82], [0xE2, 0x80, 0x83], [0xE2, 0x80, 0x84],
      [0xE2, 0x80, 0x85], [0xE2, 0x80, 0x86], [0xE2, 0x80, 0x87], [0xE2, 0x80, 0x88], [0xE2, 0x80, 0x89],
      [0xE2, 0x80, 0x8A], [0xE2, 0x80, 0xA8], [0xE2, 0x80, 0xA9], [0xE2, 0x80, 0xAF], [0xE2, 0x81, 0x9F],
      [0xE3, 0x80, 0x80]] : List Bytes), isWsRune w = true := by decide

/-- any number of white-space runes in front of and behind a path do not change the result -/
theorem C11_ws (st : Bool) (l r : List Bytes) (hl : ∀ w ∈ l, isWsRune w = true)
    (hr : ∀ w ∈ r, isWsRune w = true) (P : Bytes) :
    formatPath st (l.flatten ++ P ++ r.flatten) = formatPath st P := by
  rw [formatPath_eq, formatPath_eq, ← final_trimSpace, trimSpace_ws l r hl hr, final_trimSpace]

/-- what Go's `strings.TrimSpace` removes does not change the result -/
theorem C11_ws_trimSpace (st : Bool) (P : Bytes) : formatPath st (trimSpace P) = formatPath st P := by
  rw [formatPath_eq, formatPath_eq, final_trimSpace]

example : formatPath false ([[0x20], [0xC2, 0xA0]].flatten ++ [0x61] ++ [[0xE2, 0x80, 0x83], [0x09]].flatten)
    = formatPath false [0x61] := by decide
-- a lone continuation byte is no white space: it stays
example : formatPath false [0xA0, 0x61] = .ok [slash, 0xA0, 0x61] := by decide

/-! ### leading slashes -/

/-- a missing leading slash is repaired: `P` and `/P` are the same path, provided `P` has no leading
    white space (that would be trimmed from `P` but is interior in `/P`) -/
theorem C11_leading (st : Bool) (P : Bytes) (h : spaceAtHead P = 0) :
    formatPath st (slash :: P) = formatPath st P := by
  rw [formatPath_eq, formatPath_eq, final_cons_slash st h]

/-- the side condition of `C11_leading` is needed: `"/ a"` and `" a"` are different paths -/
theorem C11_leading_excluded (st : Bool) :
    formatPath st (slash :: [0x20, 0x61]) ≠ formatPath st [0x20, 0x61] := by
  cases st <;> decide

/-- repeated leading slashes are one leading slash -/
theorem C11_slashes (st : Bool) (k : Nat) (P : Bytes) :
    formatPath st (List.replicate (k + 1) slash ++ P) = formatPath st (slash :: P) := by
  rw [formatPath_eq, formatPath_eq, final_replicate_slash]

example : spaceAtHead [0x61, 0x20] = 0 := by decide      -- the hypothesis of C11_leading is satisfiable
example : formatPath true [0x61, 0x20] = formatPath true [slash, 0x61, 0x20] := by decide
example : formatPath true [slash, slash, slash, 0x78] = .ok [slash, 0x78] := by decide
-- only LEADING slashes are merged
example : formatPath false [slash, 0x78, slash, slash, 0x79] = .ok [slash, 0x78, slash, slash, 0x79] := by decide

/-! ### trailing slashes -/

/-- non-strict mode: trailing slashes are insignificant -/
theorem C11_trailing (k : Nat) (P : Bytes) :
    formatPath false (P ++ List.replicate k slash) = formatPath false P := by
  induction k with
  | zero => simp
  | succ n ih =>
    rw [List.replicate_succ', ← List.append_assoc, formatPath_eq, final_append_slash, ← formatPath_eq, ih]

/-- non-strict mode: any mixture of slashes and white-space runes at the end is insignificant -/
theorem C11_trailing_mixed (r : List Bytes) (hr : ∀ w ∈ r, isWsRune w = true ∨ w = [slash]) (P : Bytes) :
    formatPath false (P ++ r.flatten) = formatPath false P := by
  induction r generalizing P with
  | nil => simp
  | cons w r ih =>
    rw [List.flatten_cons, ← List.append_assoc, ih (fun x hx => hr x (by simp [hx]))]
    rcases hr w (by simp) with hw | hw
    · rw [formatPath_eq, formatPath_eq, ← final_trimSpace, trimSpace_ws_right hw, final_trimSpace]
    · rw [hw, formatPath_eq, formatPath_eq, final_append_slash]

/-- strict mode distinguishes `/a` from `/a/` … -/
theorem C11_strict_separates :
    formatPath true [slash, 0x61] ≠ formatPath true [slash, 0x61, slash] := by decide

/-- … non-strict mode does not -/
theorem C11_nonstrict_merges :
    formatPath false [slash, 0x61] = formatPath false [slash, 0x61, slash] := by decide

example : formatPath true [slash, 0x61, slash] = .ok [slash, 0x61, slash] := by decide
example : formatPath false [0x61, slash, 0x20, slash, 0xC2, 0xA0, slash] = .ok [slash, 0x61] := by decide

/-! ### groups -/

/-- what is stored for `P` inside nested groups `gs`: the prefix is the concatenation of the normalised
    group prefixes, and the stored path is `formatPath (prefix ++ formatPath P)` -/
theorem C11_group_stored (st : Bool) (gs : List Bytes) (P pre path s : Bytes)
    (hpre : nestedPrefix st [] gs = .ok pre) (hP : formatPath st P = .ok path)
    (hs : storedPath st pre P = .ok s) :
    (gs ≠ [] → formatPath st (pre ++ path) = .ok s) ∧ (gs = [] → s = path) := by
  rw [nestedPrefix_eq] at hpre
  rw [formatPath_eq] at hP
  rw [storedPath_eq] at hs
  have hpre' : pre = (gs.map (final st)).flatten := by injection hpre with h; simpa using h.symm
  have hP' : path = final st P := by injection hP with h; exact h.symm
  have hs' : s = stored st pre P := by injection hs with h; exact h.symm
  constructor
  · intro hg
    have hne : pre ≠ [] := by
      cases gs with
      | nil => exact absurd rfl hg
      | cons g gs => rw [hpre']; simp [final]
    rw [formatPath_eq, hs', hP', stored, if_pos hne]
  · intro hg
    subst hg
    have : pre = [] := by rw [hpre']; rfl
    rw [hs', hP', stored, this]; simp

/-- the stored path is a fixed point of `formatPath` whatever the nesting: the route is reached by the
    request spelled like its stored path (this is what failed for `Group("/g", GET("/a /"))` — F16) -/
theorem C11_group_reachable (st : Bool) (pre P s : Bytes) (hs : storedPath st pre P = .ok s) :
    formatPath st s = .ok s := by
  rw [storedPath_eq] at hs
  have hs' : s = stored st pre P := by injection hs with h; exact h.symm
  rw [hs', formatPath_eq, nf_fixed (stored_nf st pre P)]

/-- one group, prefix and path in normal form (`G' = formatPath G`, `P' = formatPath P`): the stored path
    is `P'` for the root prefix, `G'` for the root path in non-strict mode (strict: `G' ++ "/"`), and the
    plain concatenation otherwise -/
theorem C11_group (st : Bool) (G P G' P' : Bytes) (hG : formatPath st G = .ok G')
    (hP : formatPath st P = .ok P') :
    storedPath st G' P =
      .ok (if G' = [slash] then P' else if st = false ∧ P' = [slash] then G' else G' ++ P') := by
  rw [formatPath_eq] at hG hP
  have hG' : G' = final st G := by injection hG with h; exact h.symm
  have hP' : P' = final st P := by injection hP with h; exact h.symm
  have nG : NF st G' := hG' ▸ final_nf st G
  have nP : NF st P' := hP' ▸ final_nf st P
  have hne : G' ≠ [] := by rw [hG']; simp [final]
  rw [storedPath_eq, stored, if_pos hne, ← hP']
  congr 1
  by_cases h1 : G' = [slash]
  · rw [if_pos h1, h1]; exact group_root nP
  · rw [if_neg h1]
    by_cases h2 : st = false ∧ P' = [slash]
    · rw [if_pos h2]
      obtain ⟨hst, hp⟩ := h2
      subst hst; rw [hp]; exact group_slash nG
    · rw [if_neg h2]
      exact nf_fixed (group_concat nG h1 nP (fun hst hp => h2 ⟨hst, hp⟩))

-- Group("/g") { GET("/a /") } is stored as "/g/a" and so is the request "/g/a /" looked up
example : storedPath false [slash, 0x67] [slash, 0x61, 0x20, slash] = .ok [slash, 0x67, slash, 0x61] := by decide
example : formatPath false [slash, 0x67, slash, 0x61, 0x20, slash] = .ok [slash, 0x67, slash, 0x61] := by decide
-- nested groups "/a" and "/": the prefixes are concatenated as they are, interior slashes stay
example : nestedPrefix false [] [[slash, 0x61], [slash]] = .ok [slash, 0x61, slash] := by decide
example : storedPath false [slash, 0x61, slash] [0x62] = .ok [slash, 0x61, slash, slash, 0x62] := by decide
example : storedPath true [slash, 0x67] [slash] = .ok [slash, 0x67, slash] := by decide

/-! ### static routes: reached by exactly the requests that normalise to the stored path -/

/-- general table, general router state (any group prefix, any intercept setting is excluded by `hi`):
    after registering `P` for method `m`, a lookup finds the new route iff its key `method ++
    formatPath q` equals `m ++ stored path`; every other lookup answers as before -/
theorem C11_reach_step (r r' : Router) (m P : Bytes) (id : Nat) (s : Bytes)
    (hreg : r.addStatic m P id = .ok (r', s)) (hi : r.intercept = []) (m' q q' : Bytes)
    (hq : formatPath r.strict q = .ok q') :
    r'.matchStatic m' q = if m ++ s = m' ++ q' then .ok (some id) else r.matchStatic m' q := by
  unfold Router.addStatic at hreg
  rw [storedPath_eq] at hreg
  simp only [bind, Except.bind, pure, Except.pure] at hreg
  injection hreg with hreg
  injection hreg with h1 h2
  subst h1 h2
  unfold Router.matchStatic
  rw [formatPath_eq] at hq
  injection hq with hq
  subst hq
  simp only [hi, ne_eq, not_true_eq_false, if_false, formatPath_eq, bind, Except.bind, pure, Except.pure,
    find_add]
  split <;> rfl

/-- method names without `/`: the key `method ++ path` determines method and path, because every
    normalised path starts with `/` -/
theorem C11_reach_keys (st : Bool) (m m' P q s q' : Bytes) (hm : slash ∉ m) (hm' : slash ∉ m')
    (hs : formatPath st P = .ok s) (hq : formatPath st q = .ok q') :
    m ++ s = m' ++ q' ↔ m = m' ∧ s = q' := by
  rw [formatPath_eq] at hs hq
  injection hs with hs; injection hq with hq
  subst hs hq
  constructor
  · intro h
    have := key_inj hm hm' h
    exact ⟨this.1, by unfold final; rw [this.2]⟩
  · intro ⟨h1, h2⟩; rw [h1, h2]

/-- the side condition of `C11_reach_keys` is needed: a "method" containing `/` aliases another key
    (`QuickMatch("GET/a", "/b")` finds `GET /a/b`); net/http never delivers such a method -/
theorem C11_reach_keys_excluded :
    ([0x47, slash, 0x61] : Bytes) ++ [slash, 0x62] = [0x47] ++ [slash, 0x61, slash, 0x62] ∧
    formatPath false [slash, 0x62] = .ok [slash, 0x62] ∧
    formatPath false [slash, 0x61, slash, 0x62] = .ok [slash, 0x61, slash, 0x62] := by decide

/-- one static route registered as `P` (top level, fresh router): it is returned for the request
    `(m', q)` iff `m' = m` and `formatPath q = formatPath (simpleFmtPath P)` -/
theorem C11_reach (st enc : Bool) (m P : Bytes) (id : Nat) (hm : slash ∉ m) (m' q : Bytes)
    (hm' : slash ∉ m') :
    ∃ r' s, ({ strict := st, useEncoded := enc } : Router).addStatic m P id = .ok (r', s) ∧
      (r'.matchStatic m' q = .ok (some id) ↔
        (m' = m ∧ formatPath st q = formatPath st (simpleFmtPath P))) ∧
      (r'.matchStatic m' q = .ok none ∨ r'.matchStatic m' q = .ok (some id)) := by
  let r : Router := { strict := st, useEncoded := enc }
  have hst : stored st [] P = final st P := by simp [stored]
  have hreg : r.addStatic m P id = .ok ({ r with stable := r.stable.add m (final st P) id }, final st P) := by
    unfold Router.addStatic
    rw [storedPath_eq, hst]; rfl
  refine ⟨_, _, hreg, ?_⟩
  have hstep := C11_reach_step r _ m P id _ hreg rfl m' q (final st q) (formatPath_eq st q)
  have hold : r.matchStatic m' q = .ok none := by
    unfold Router.matchStatic
    simp only [formatPath_eq, bind, Except.bind, pure, Except.pure]
    rfl
  have hkeys := C11_reach_keys st m m' P q (final st P) (final st q) hm hm' (formatPath_eq st P)
    (formatPath_eq st q)
  rw [hold] at hstep
  rw [C11_agree, formatPath_eq, formatPath_eq]
  constructor
  · constructor
    · intro h
      rw [hstep] at h
      split at h
      · rename_i hk
        have := hkeys.1 hk
        exact ⟨this.1.symm, by rw [this.2]⟩
      · injection h with h; cases h
    · intro ⟨h1, h2⟩
      rw [hstep, if_pos]
      apply hkeys.2
      injection h2 with h2
      exact ⟨h1.symm, h2.symm⟩
  · rw [hstep]
    split
    · exact Or.inr rfl
    · exact Or.inl rfl

example : slash ∉ ([0x47, 0x45, 0x54] : Bytes) := by decide   -- "GET" meets the hypothesis on methods
-- non-vacuity: GET "about/" is found by " /about", not by "/about/x"
example : ∃ r' s, ({} : Router).addStatic [0x47] [0x61, slash] 7 = .ok (r', s) ∧
    r'.matchStatic [0x47] [0x20, slash, 0x61] = .ok (some 7) ∧
    r'.matchStatic [0x47] [slash, 0x61, slash, 0x78] = .ok none := ⟨_, _, rfl, by decide, by decide⟩

/-- any registration program (static routes inside any nesting of groups) on a fresh router — "by no
    other": if a lookup returns route `id`, some registration with that id was stored under exactly the
    key `method ++ formatPath q` of the request -/
theorem C11_reach_table_sound (st enc : Bool) (regs : List (List Bytes × Bytes × Bytes × Nat))
    (r' : Router) (hreg : ({ strict := st, useEncoded := enc } : Router).regAll regs = .ok r')
    (m' q : Bytes) (id : Nat) (h : r'.matchStatic m' q = .ok (some id)) :
    ∃ gs m P pre s q', (gs, m, P, id) ∈ regs ∧ nestedPrefix st [] gs = .ok pre ∧
      storedPath st pre P = .ok s ∧ formatPath st q = .ok q' ∧ m ++ s = m' ++ q' := by
  rw [regAll_eq] at hreg
  injection hreg with hreg
  subst hreg
  unfold Router.matchStatic at h
  simp only [ne_eq, not_true_eq_false, if_false, formatPath_eq, bind, Except.bind, pure, Except.pure,
    List.append_nil] at h
  injection h with h
  have hmem := find_some_mem h
  simp only [List.mem_map, List.mem_reverse] at hmem
  obtain ⟨⟨gs, m, P, i⟩, he, hk⟩ := hmem
  simp only [Prod.mk.injEq] at hk
  obtain ⟨hk1, hk2⟩ := hk
  subst hk2
  exact ⟨gs, m, P, _, _, _, he, nestedPrefix_eq st [] gs, storedPath_eq st _ P, formatPath_eq st q,
    by simpa [regKey] using hk1⟩

/-- … and "by every request that normalises to the same string": if the key of the request equals the key
    under which some registration was stored, the lookup returns a route (the newest one stored under that
    key — `stableRoutes[key] = route` overwrites) -/
theorem C11_reach_table_complete (st enc : Bool) (regs : List (List Bytes × Bytes × Bytes × Nat))
    (r' : Router) (hreg : ({ strict := st, useEncoded := enc } : Router).regAll regs = .ok r')
    (gs : List Bytes) (m P : Bytes) (id : Nat) (hmem : (gs, m, P, id) ∈ regs) (pre s m' q q' : Bytes)
    (hpre : nestedPrefix st [] gs = .ok pre) (hs : storedPath st pre P = .ok s)
    (hq : formatPath st q = .ok q') (hkey : m ++ s = m' ++ q') :
    ∃ id', r'.matchStatic m' q = .ok (some id') := by
  rw [regAll_eq] at hreg
  injection hreg with hreg
  subst hreg
  rw [nestedPrefix_eq] at hpre; injection hpre with hpre
  rw [storedPath_eq] at hs; injection hs with hs
  rw [formatPath_eq] at hq; injection hq with hq
  subst hpre hs hq
  unfold Router.matchStatic
  simp only [ne_eq, not_true_eq_false, if_false, formatPath_eq, bind, Except.bind, pure, Except.pure,
    List.append_nil]
  have : (m' ++ final st q, id) ∈
      (regs.reverse.map fun e => (regKey st [] e, e.2.2.2)) := by
    simp only [List.mem_map, List.mem_reverse]
    exact ⟨(gs, m, P, id), hmem, by simp [regKey, ← hkey]⟩
  obtain ⟨id', h'⟩ := find_of_mem this
  exact ⟨id', by rw [h']⟩

-- non-vacuity: two routes in groups, the second registration of an equal key wins
example : ∃ r', ({} : Router).regAll [([[slash, 0x67]], [0x47], [0x61, 0x20, slash], 1), ([], [0x47], [slash, 0x67, slash, 0x61], 2)] = .ok r' ∧
    r'.matchStatic [0x47] [0x67, slash, 0x61, slash] = .ok (some 2) := ⟨_, rfl, by decide⟩

/-! ### request path choice, InterceptAll -/

/-- dispatch matches `URL.Path`, or `URL.EscapedPath()` iff `UseEncodedPath` is set -/
theorem C11_path_choice (r : Router) (m urlPath escaped : Bytes) :
    r.serveStatic m urlPath escaped =
      r.matchStatic m (if r.useEncoded then escaped else urlPath) := rfl

/-- `InterceptAll(p)`: every request is looked up as `p` would be, with the same normalisation as a request
    path (F14); a white-space-only `p` switches the option off -/
theorem C11_intercept (r : Router) (p m q : Bytes) (hi : r.intercept = []) :
    (r.setIntercept p).matchStatic m q =
      if trimSpace p = [] then r.matchStatic m q else r.matchStatic m p := by
  unfold Router.setIntercept Router.matchStatic
  simp only [hi, ne_eq, not_true_eq_false, if_false, formatPath_eq, bind, Except.bind, pure, Except.pure]
  by_cases h : trimSpace p = []
  · simp [h]
  · simp [h, final_trimSpace]

example : (({} : Router).setIntercept [0x20, 0x78, slash]).intercept = [0x78, slash] := by decide

end Rux
