import RuxModel.Lemmas.Writer
/-
  C08 — Exactly one header commit per request, with the status set before the body.

  Property theorems only (spec definitions: Spec/Writer.lean, helper lemmas: Lemmas/Writer.lean).

  Two levels.
  * Writer level: `finish ct ops` = fresh `responseWriter`, ANY list `ops` of operations reaching it
    (status settings with any integer code, header settings, writes of any bytes whose answer
    `(accepted, err)` from the underlying writer is part of the operation — short and failing writes
    included —, flushes), then the commit at the end of dispatch.  Quantified over every such list and
    every Content-Type already present on the underlying writer.
  * Request level: `serve cfg prog` = one pass through `handleHTTPRequest` for ANY program of handler
    actions (SetStatus/WriteHeader, SetHeader, Write, WriteBytes which panics on a failing write, Flush,
    http.Error, Redirect, AbortWithStatus with and without message, AddError, panic) placed in any blocks
    of the chain (before/after `c.Next()`), in `OnError` and in `OnPanic`.

  Clause of the statement                                        theorem(s)
  ---------------------------------------------------------------------------------------------------
  "exactly one WriteHeader call, before any body byte"           C08_one_commit, C08_one_commit_count,
                                                                 C08_log_exact, C08_request_one_commit
  "carrying the last positive status set before the first        C08_status, C08_status_fixed_at_first_io,
   write or flush (200 if none was set)"                         C08_status_default
  "the body is the concatenation of all writes in order"         C08_body
  "Length() equals the number of bytes accepted"                 C08_length, C08_length_is_body_length,
   (and -1 exactly while nothing is committed)                   C08_length_mid
  "a request whose handlers write nothing still has its          C08_empty_chain, C08_empty_request,
   header committed exactly once when the chain ends"            C08_request_one_commit
  panics (dispatch.go OnPanic path)                              C08_onpanic_commits, C08_no_panic_commits,
                                                                 C08_request_escaped

  NOT proved here (stated where it is used):
  * that the Go code is this model — sampled by the `writer` correspondence engine;
  * `Hijack()` (sets length to 0 without a WriteHeader; the connection leaves HTTP) is outside the model;
  * an underlying writer that answers a NEGATIVE byte count (violates io.Writer) could make `length`
    return to -1; accepted counts are naturals here;
  * that header FIELDS set after the commit are not sent is net/http's behaviour, not rux's; the model
    tracks the Content-Type only because http.Redirect branches on it.
-/
namespace Rux
open Writer

/-- the whole log of the underlying writer, for every operation sequence: the single `WriteHeader`
    with the specified status, followed by exactly the writes and flushes in the order issued -/
theorem C08_log_exact (ct : Option Bytes) (ops : List Op) :
    (finish ct ops).log = .wh (specStatus ops) :: ioEvents ops := by
  have h : (finish ct ops).log = [] ++ .wh (statusFrom 0 ops) :: ioEvents ops :=
    (fresh_run ops (W.fresh ct) rfl).1
  rw [statusFrom_zero] at h
  simpa using h

/-- exactly one `WriteHeader`, and it precedes every write and flush -/
theorem C08_one_commit (ct : Option Bytes) (ops : List Op) :
    ∃ code evs, (finish ct ops).log = .wh code :: evs ∧ evs.all (fun e => !e.isWH) = true :=
  ⟨specStatus ops, ioEvents ops, C08_log_exact ct ops, ioEvents_no_wh ops⟩

/-- the same as a count: one `WriteHeader` in the log, and it is the first event -/
theorem C08_one_commit_count (ct : Option Bytes) (ops : List Op) :
    ((finish ct ops).log.filter Ev.isWH).length = 1 ∧
    ((finish ct ops).log.head?.map Ev.isWH) = some true := by
  rw [C08_log_exact]
  have h := ioEvents_no_wh ops
  constructor
  · have : (ioEvents ops).filter Ev.isWH = [] := by
      rw [List.filter_eq_nil_iff]
      intro e he
      have := (List.all_eq_true.mp h) e he
      simpa using this
    simp [List.filter_cons, Ev.isWH, this]
  · simp [Ev.isWH]

/-- every `WriteHeader` the underlying writer sees carries the last positive code set before the first
    write or flush, 200 if there is none -/
theorem C08_status (ct : Option Bytes) (ops : List Op) (code : Int)
    (h : Ev.wh code ∈ (finish ct ops).log) : code = specStatus ops := by
  rw [C08_log_exact] at h
  rcases List.mem_cons.mp h with h | h
  · injection h
  · have := (List.all_eq_true.mp (ioEvents_no_wh ops)) _ h
    simp [Ev.isWH] at this

/-- no positive status before the first write/flush: 200 -/
theorem C08_status_default (ops : List Op)
    (h : ∀ o ∈ ops.takeWhile Op.notIO, o.posCode = none) : specStatus ops = 200 := by
  unfold specStatus
  have : (ops.takeWhile Op.notIO).filterMap Op.posCode = [] := by
    rw [List.filterMap_eq_nil_iff]; exact h
  rw [this]; rfl

/-- whatever follows the first write or flush — status settings included — does not change the code -/
theorem C08_status_fixed_at_first_io (pre post : List Op) (io : Op) (hio : io.isIO = true) :
    specStatus (pre ++ io :: post) = specStatus pre := by
  unfold specStatus
  congr 3
  induction pre with
  | nil =>
    have : ¬ Op.notIO io = true := by simp [Op.notIO, hio]
    simp [List.takeWhile_cons_of_neg this]
  | cons a t ih =>
    by_cases ha : Op.notIO a = true
    · simp [List.takeWhile_cons_of_pos ha, ih]
    · simp [List.takeWhile_cons_of_neg ha]

/-- the body the client receives is the concatenation of the accepted prefixes of all writes, in order -/
theorem C08_body (ct : Option Bytes) (ops : List Op) :
    bodyOf (finish ct ops).log = specBody ops := by
  rw [C08_log_exact]
  have := bodyOf_ioEvents ops
  simpa [bodyOf, Ev.body] using this

/-- `Length()` at the end of the request = the number of bytes the underlying writer accepted -/
theorem C08_length (ct : Option Bytes) (ops : List Op) :
    (finish ct ops).length = specLength ops := by
  simpa [finish] using (fresh_run ops (W.fresh ct) rfl).2

/-- with an underlying writer that respects io.Writer (`accepted ≤ len`), `Length()` is the length of
    the body that went out -/
theorem C08_length_is_body_length (ct : Option Bytes) (ops : List Op)
    (hok : ∀ o ∈ ops, o.accOk = true) :
    (finish ct ops).length = (bodyOf (finish ct ops).log).length := by
  rw [C08_length, C08_body]
  congr 1
  induction ops with
  | nil => rfl
  | cons op rest ih =>
    have h1 := hok op (by simp)
    have h2 := ih (fun o ho => hok o (by simp [ho]))
    simp only [specLength, specBody, List.map_cons, List.sum_cons, List.flatMap_cons,
      List.length_append] at h2 ⊢
    rw [h2]
    cases op <;> simp_all [Op.accepted, Op.bodyPart, Op.accOk, List.length_take, Nat.min_eq_left]

/-- during the request: `Length()` is -1 exactly while no write/flush has happened, which is exactly
    while the underlying writer has received nothing; afterwards it is the accepted byte count and the
    log starts with the single `WriteHeader` -/
theorem C08_length_mid (ct : Option Bytes) (ops : List Op) :
    ((run (W.fresh ct) ops).length = -1 ↔ ops.any Op.isIO = false) ∧
    ((run (W.fresh ct) ops).length = -1 ↔ (run (W.fresh ct) ops).log = []) ∧
    ((run (W.fresh ct) ops).length ≠ -1 →
      (run (W.fresh ct) ops).length = specLength ops ∧
      (run (W.fresh ct) ops).log = .wh (specStatus ops) :: ioEvents ops) := by
  by_cases hio : ops.any Op.isIO = true
  · have hn := io_run_nonneg ops (W.fresh ct) (Or.inl rfl) hio
    have he := ensure_committed _ hn
    have hl := C08_length ct ops
    have hg := C08_log_exact ct ops
    simp only [finish, he] at hl hg
    refine ⟨?_, ?_, fun _ => ⟨hl, hg⟩⟩
    · constructor
      · intro h; omega
      · intro h; rw [hio] at h; cases h
    · constructor
      · intro h; omega
      · intro h; rw [hg] at h; cases h
  · have hio' : ops.any Op.isIO = false := by simpa using hio
    obtain ⟨h1, h2⟩ := nonIO_run ops (W.fresh ct) hio'
    have h1' : (run (W.fresh ct) ops).length = -1 := h1
    have h2' : (run (W.fresh ct) ops).log = [] := h2
    refine ⟨⟨fun _ => hio', fun _ => h1'⟩, ⟨fun _ => h2', fun _ => h1'⟩, fun h => absurd h1' h⟩

/-- handlers that never write or flush: the end of dispatch commits the header, once, and nothing else
    reaches the underlying writer -/
theorem C08_empty_chain (ct : Option Bytes) (ops : List Op) (h : ops.any Op.isIO = false) :
    (finish ct ops).log = [.wh (specStatus ops)] ∧ (finish ct ops).length = 0 := by
  have hev : ioEvents ops = [] := by
    unfold ioEvents
    rw [List.filterMap_eq_nil_iff]
    intro o ho
    have : o.isIO = false := by
      have := List.any_eq_false.mp h o ho
      simpa using this
    cases o <;> simp_all [Op.ev, Op.isIO]
  have hlen : specLength ops = 0 := by
    unfold specLength
    have : ∀ o ∈ ops, o.accepted = 0 := by
      intro o ho
      have : o.isIO = false := by
        have := List.any_eq_false.mp h o ho
        simpa using this
      cases o <;> simp_all [Op.accepted, Op.isIO]
    induction ops with
    | nil => rfl
    | cons a t ih =>
      simp only [List.map_cons, List.sum_cons]
      rw [this a (by simp)]
      simp only [List.any_cons, Bool.or_eq_false_iff] at h
      have := ih h.2 (by
        unfold ioEvents; rw [List.filterMap_eq_nil_iff]
        intro o ho
        have hh := List.filterMap_eq_nil_iff.mp hev o (by simp [ho])
        exact hh) (fun o ho => this o (by simp [ho]))
      omega
  rw [C08_log_exact, C08_length, hev, hlen]
  exact ⟨rfl, rfl⟩

/-! ### the request level: handler chain, OnError, OnPanic -/

/-- a request that is not torn down by an escaping panic — normal end, or a panic recovered by the
    OnPanic handler — commits exactly once, first, with the specified status; body and `Length()`
    as specified.  `trace` is the sequence of operations the handlers' actions issued on the writer. -/
theorem C08_request_one_commit (c : Cfg) (prog : List (Site × Act))
    (h : (serve c prog).escaped = false) :
    (serve c prog).finish.log =
        .wh (specStatus (serve c prog).trace) :: ioEvents (serve c prog).trace ∧
    (ioEvents (serve c prog).trace).all (fun e => !e.isWH) = true ∧
    bodyOf (serve c prog).finish.log = specBody (serve c prog).trace ∧
    (serve c prog).finish.length = specLength (serve c prog).trace := by
  have hf : (serve c prog).finish = finish c.ct (serve c prog).trace := by
    simp only [Req.finish, h, finish, ← serve_trace]
    rfl
  rw [hf]
  exact ⟨C08_log_exact _ _, ioEvents_no_wh _, C08_body _ _, C08_length _ _⟩

/-- when a panic does leave ServeHTTP (no OnPanic handler, or the OnPanic handler panicked), there is
    still never a second `WriteHeader`, and nothing precedes the first: the underlying writer has
    seen nothing at all, or the single commit followed by writes/flushes -/
theorem C08_request_escaped (c : Cfg) (prog : List (Site × Act))
    (h : (serve c prog).escaped = true) :
    ((serve c prog).finish.log = [] ∧ (serve c prog).finish.length = -1) ∨
    ((serve c prog).finish.log =
        .wh (specStatus (serve c prog).trace) :: ioEvents (serve c prog).trace ∧
     (serve c prog).finish.length = specLength (serve c prog).trace) := by
  have hf : (serve c prog).finish = run (W.fresh c.ct) (serve c prog).trace := by
    simp only [Req.finish, h, ← serve_trace]
    rfl
  rw [hf]
  have hm := C08_length_mid c.ct (serve c prog).trace
  by_cases hl : (run (W.fresh c.ct) (serve c prog).trace).length = -1
  · exact Or.inl ⟨hm.2.1.mp hl, hl⟩
  · obtain ⟨h1, h2⟩ := hm.2.2 hl
    exact Or.inr ⟨h2, h1⟩

/-- with an OnPanic handler that does not panic itself, no panic escapes: the request commits -/
theorem C08_onpanic_commits (c : Cfg) (prog : List (Site × Act)) (hp : c.hasOnPanic = true)
    (hq : ∀ sa ∈ prog, sa.1 = Site.onPanic → actPanics sa.2 = false) :
    (serve c prog).escaped = false := by
  exact acts_contained c hp prog _ rfl hq

/-- without any panicking action nothing escapes: the request commits -/
theorem C08_no_panic_commits (c : Cfg) (prog : List (Site × Act))
    (hq : ∀ sa ∈ prog, actPanics sa.2 = false) :
    (serve c prog).escaped = false := by
  exact acts_no_panic c prog _ rfl hq

/-- the empty chain / handlers that do nothing: one `WriteHeader(200)` at the end, nothing else -/
theorem C08_empty_request (c : Cfg) :
    (serve c []).finish.log = [.wh 200] ∧ (serve c []).finish.length = 0 := by
  constructor <;> rfl

/-! ### non-vacuity: concrete sequences that hit the interesting branches -/

-- F9's input: status, flush, status again, write — the flush commits 201, the 202 is not sent
example : (finish none [.setStatus 201, .flush, .setStatus 202, .write [120] 1 false]).log =
    [.wh 201, .fl, .w [120] 1 false] := by decide

-- status ≤ 0 ignored, last positive wins, zero-length write commits, short + failing write counted
example : (finish none [.setStatus 404, .setStatus 0, .setStatus (-5), .setStatus 503, .write [] 0 false,
      .setStatus 200, .write [1, 2, 3] 2 true, .flush]) =
    ⟨200, 2, none, some none, [.wh 503, .w [] 0 false, .w [1, 2, 3] 2 true, .fl]⟩ := by decide

example : specStatus [.setStatus 404, .setStatus 0, .setStatus 503, .write [] 0 false, .setStatus 200] = 503 := by
  decide

-- a request: handler 0 sets 201 and aborts with a message before Next (handler 1 is cut off),
-- then writes after Next; WriteBytes fails -> panic -> OnPanic sets 500 (too late: 201 is out)
def c08DemoCfg : Cfg := ⟨3, .get, true, false, none⟩
def c08DemoProg : List (Site × Act) :=
  [(.chain 0, .op (.setStatus 201)),
   (.chain 0, .abort 403 (some ([110, 111], 3, false))),
   (.chain 1, .op (.setStatus 202)),
   (.chain 4, .writeBytes [97, 98] 1 true),
   (.chain 4, .op .flush),
   (.onPanic, .op (.setStatus 500))]

example : (serve c08DemoCfg c08DemoProg).escaped = false := by decide
example : (serve c08DemoCfg c08DemoProg).finish.log =
    [.wh 403, .w [110, 111, 10] 3 false, .w [97, 98] 1 true] := by decide
example : (serve c08DemoCfg c08DemoProg).finish.length = 4 := by decide
-- the same program without an OnPanic handler: the panic escapes, still one WriteHeader
example : (serve { c08DemoCfg with hasOnPanic := false } c08DemoProg).escaped = true := by decide
-- a panic before anything was written and no OnPanic: nothing reaches the underlying writer
example : (serve { c08DemoCfg with hasOnPanic := false } [(.chain 0, .panic)]).finish.log = [] := by decide
-- hypotheses of C08_onpanic_commits are satisfiable with a panicking program
example : c08DemoCfg.hasOnPanic = true ∧
    ∀ sa ∈ c08DemoProg, sa.1 = Site.onPanic → actPanics sa.2 = false := by decide

end Rux
