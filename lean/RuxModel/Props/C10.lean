import RuxModel.Lemmas.Dispatch
import RuxModel.Generated.Facts
/-
  C10 — Every request starts from a pristine context whatever happened before.

  Statement (properties.jsonl): "Whatever the handlers of earlier requests did to their context - stored
  values, recorded errors, parameters, abort state, status and length, a replaced writer or request - the
  handlers of every later request start from a pristine context.  The outcome and the context state observed
  by the k-th request of any history are the same as if it were the first request on a freshly built
  identical router."

  Model: Model/Dispatch.lean (`Ctx` = every field of the Go struct, `newCtx` = ctxPool.New, `init` = Init,
  `serve` = ServeHTTP with the pool as a list from which ANY element may be handed out, `runHist` = a history
  of requests and arbitrary losses from the pool).  Handlers are arbitrary action lists (Set, AddError,
  Params writes, Abort, status/body, replaced Resp/Req, panics, Next anywhere).

  clause                                                          theorem
  ------------------------------------------------------------------------------------------------------
  Init forgets everything a handler can observe                   C10_init_forgets, C10_init_forgets_all_fields
  … and what it leaves is the documented pristine state           C10_init_pristine
  one request on ANY pool = the same request on a fresh router    C10_serve_as_fresh
  the pool only ever holds this router's contexts                 C10_pool_invariant
  k-th request of any history = first request on a fresh router   C10_history   (whole outcome: returned or
      (histories mix every kind of request, incl. panicking        panicked + value, trace with every dump, writer
      ones with and without hook; any pool choice; GC losses)      log)
  the context state the first handler observes is pristine        C10_first_handler_pristine (explicit record)
  every struct field is reset in the SOURCE                       C10_all_fields_reset (`decide` over Generated/Facts)

  NOT proved here (see level_note in checks.json):
  * that the Go code is the model — sampled by the engines `ctx` and `panic`;
  * the route cache: the model has none, which is the claim "caching is unobservable"; it is checked by the
    `ctx` engine with caching on and off (incl. the F13 input: a handler writing into c.Params) and proved for
    the table model in C07;
  * the backing arrays that `Errors[:0]` / `handlers[:0]` keep (not observable through the Context API);
  * HandleContext (a caller-owned context is put into the pool while the caller may still use it — noted in
    DESIGN.md §7 as an observation outside the statement).
-/
namespace Rux
open Rux.Dispatch

/-- `Init` forgets: whatever state the pooled context is in, after `Init` a handler observes exactly what it
    would observe on a context that `ctxPool.New` has just made -/
theorem C10_init_forgets (c : Ctx) (rid w r : Nat) (h : c.router = rid) :
    (c.init w r).observe = ((newCtx rid).init w r).observe := by
  rw [init_eq, h]

/-- the same for ALL fields of the struct, observable or not -/
theorem C10_init_forgets_all_fields (c : Ctx) (rid w r : Nat) (h : c.router = rid) :
    c.init w r = (newCtx rid).init w r := by
  rw [init_eq, h]

/-- … and that observation is: no data, nil params, no errors, not aborted, status 0, nothing written,
    `Resp` = the context's own writer wrapping `w`, `Req` = `r` -/
theorem C10_init_pristine (c : Ctx) (w r : Nat) :
    (c.init w r).observe =
      { data := [], params := none, errors := [], aborted := false, status := 0, length := -1,
        resp := .own, req := .orig r, raw := some w, router := c.router } := by
  simp [Ctx.init, Ctx.reset, Writer.reset, Ctx.observe, Ctx.isAborted, abortIndex, noWritten,
    Facts.abortIndex, Facts.noWritten]

/-- one request: whichever pooled context `sync.Pool` hands out (or a new one), the complete result —
    returned or panicked and with which value, the trace of everything the handlers did and saw, the
    calls that reached the response writers — is that of the first request on a fresh router -/
theorem C10_serve_as_fresh (cfg : Cfg) (pool : List Ctx) (pick : Option Nat) (rq : Req)
    (h : PoolOk cfg.rid pool) : (serve cfg pool pick rq).1 = serveFresh cfg rq := by
  have hr := (poolGet_router cfg.rid pool pick h).1
  simp only [serve, serveFresh]
  rw [init_eq (poolGet cfg.rid pool pick).1, hr]
  rfl

/-- the pool invariant is kept by every request (returned or panicked) and by losses -/
theorem C10_pool_invariant (cfg : Cfg) (pool : List Ctx) (pick : Option Nat) (rq : Req)
    (h : PoolOk cfg.rid pool) : PoolOk cfg.rid (serve cfg pool pick rq).2 := by
  obtain ⟨hr, hp⟩ := poolGet_router cfg.rid pool pick h
  simp only [serve]
  split
  · intro c hc
    rcases List.mem_cons.mp hc with rfl | hc
    · rw [handleRequest_router, init_router, hr]
    · exact hp c hc
  · exact hp

/-- every history: the k-th request's result is the result of the same request as the first one on a fresh
    identical router.  The history may start from ANY pool of this router's contexts (in whatever state earlier
    requests left them), may pick any pooled context or a new one for every request, and may lose pooled
    contexts at any time. -/
theorem C10_history (cfg : Cfg) (steps : List Step) (pool : List Ctx) (h : PoolOk cfg.rid pool) :
    (runHist cfg pool steps).1 = (Step.reqs steps).map (serveFresh cfg) := by
  induction steps generalizing pool with
  | nil => rfl
  | cons s rest ih =>
    cases s with
    | drop n =>
      simp only [runHist, Step.reqs]
      exact ih _ (fun c hc => h c (List.mem_of_mem_eraseIdx hc))
    | req pick rq =>
      simp only [runHist, Step.reqs, List.map_cons]
      rw [C10_serve_as_fresh cfg pool pick rq h, ih _ (C10_pool_invariant cfg pool pick rq h)]

/-! ### what the first handler sees -/

/-- the state that the first handler of ANY request of ANY history observes, stated outright: if the first
    handler of the chain begins by dumping its context, the first two events of the request's trace are
    "handler 0 starts" and the pristine observation — nothing of any earlier request, only what
    `handleHTTPRequest` itself stored for this request (route params, route name/path or allowed methods) -/
theorem C10_first_handler_pristine (cfg : Cfg) (pool : List Ctx) (pick : Option Nat) (rq : Req)
    (l : List Act) (rest : List Handler) (h : PoolOk cfg.rid pool)
    (hc : rq.chain = .acts (.s .dump :: l) :: rest) :
    ∃ tl, (serve cfg pool pick rq).1.trace = .enter 0 :: .obs (.h 0) (pristineObs cfg.rid rq) :: tl := by
  rw [C10_serve_as_fresh cfg pool pick rq h]
  simp only [serveFresh, serve, poolGet, Result.ofOut]
  obtain ⟨e2, h2⟩ := handleRequest_trace_mono cfg rq ((newCtx cfg.rid).init rq.w rq.r)
  obtain ⟨e1, h1⟩ := body_trace_mono cfg rq ((newCtx cfg.rid).init rq.w rq.r)
  have hidx : (start rq ((newCtx cfg.rid).init rq.w rq.r)).ctx.index = -1 := by
    cases hk : rq.kind <;> simp [start, prelude, hk, Ctx.set, Ctx.init, Ctx.reset]
  have hh : (start rq ((newCtx cfg.rid).init rq.w rq.r)).ctx.handlers = .acts (.s .dump :: l) :: rest := by
    simp [start, hc]
  obtain ⟨e0, h0⟩ := loop_first_dump l rest _ hidx hh
  rw [h2, h1, hc, h0]
  refine ⟨e0 ++ e1 ++ e2, ?_⟩
  have hobs : ({ (start rq ((newCtx cfg.rid).init rq.w rq.r)).ctx with index := 0 } : Ctx).observe
      = pristineObs cfg.rid rq := by
    cases hk : rq.kind <;>
      simp [start, prelude, hk, Ctx.set, Ctx.init, Ctx.reset, Writer.reset, newCtx, Ctx.observe, Ctx.isAborted,
        pristineObs, preludeData, preludeParams, abortIndex, noWritten, Facts.abortIndex, Facts.noWritten, mapSet]
  rw [hobs]
  simp [start]

/-! ### the source: every field is reset -/

/-- read off the Go source on every run (go/extract): every field of `Context` except `router` is assigned in
    `Init`/`Reset` (`writer` through `writer.reset`), and every field of `responseWriter` is assigned in `reset`.
    A field added later that nobody resets makes this theorem fail. -/
theorem C10_all_fields_reset :
    (∀ f ∈ Facts.contextFields, f = "router" ∨ f ∈ Facts.contextFieldsReset) ∧
    (∀ f ∈ Facts.writerFields, f ∈ Facts.writerFieldsReset) := by
  decide

/-! ### non-vacuity: a dirty pool, a history with every kind of request -/

namespace C10Ex

/-- a context as a handler may leave it: data, errors, params, aborted, committed, Resp and Req replaced -/
def dirtyCtx : Ctx :=
  { req := .alt 9, resp := .alt 3, writer := { under := some 5, status := 500, length := 12 },
    params := some [([112], [101, 118, 105, 108])], errors := [[101]], index := 63, router := 7,
    data := [([107], .str [118])], handlers := [.acts [.next]] }

def exCfg : Cfg := { rid := 7, hook := some [.setStatus 500], onError := some [.emit 9] }

/-- leaves everything behind, then panics -/
def exDirty : Handler :=
  .acts [.s .dump, .s (.set [107] [118]), .s (.addError [101]), .s (.setParam [112] [120]), .s (.setStatus 201),
         .s (.write [98]), .s (.replaceResp 1), .s (.replaceReq 1), .s .abort, .next, .s (.panic (.str [33]))]

def exLook : Handler := .acts [.s .dump, .next]

def exReqs : List Req :=
  [ { w := 1, r := 1, kind := .route (some [([112], [97])]) [] [47, 100], chain := [exDirty, .acts []] },
    { w := 2, r := 2, kind := .notFound, chain := [exLook, default404] },
    { w := 3, r := 3, kind := .notAllowed [[71, 69, 84]], chain := [exLook, default405] } ]

example : PoolOk 7 [dirtyCtx] := by simp [PoolOk, dirtyCtx]

-- the dirty context really is observably dirty, and Init cleans it
example : dirtyCtx.observe ≠ ((newCtx 7).init 1 1).observe := by decide
example : (dirtyCtx.init 1 1).observe = ((newCtx 7).init 1 1).observe := by decide

-- the first request really panics and its context (hook installed) goes back to the pool in a dirty state
example : (serve exCfg [] none exReqs[0]).2.map (·.observe.aborted) = [true] := by decide
example : (serve exCfg [] none exReqs[0]).2.map (·.observe.resp) = [.alt 1] := by decide

-- the second request runs on that very context and observes the pristine state
example : ((runHist exCfg [dirtyCtx] [.req (some 0) exReqs[0], .req (some 0) exReqs[1], .drop 0, .req (some 5) exReqs[2]]).1.map
    (fun r => r.trace.take 2)) =
    [ [.enter 0, .obs (.h 0) (pristineObs 7 exReqs[0])],
      [.enter 0, .obs (.h 0) (pristineObs 7 exReqs[1])],
      [.enter 0, .obs (.h 0) (pristineObs 7 exReqs[2])] ] := by decide +kernel

end C10Ex

end Rux
