import RuxModel.Lemmas.Table
/-
  C02 — Path parameters are exactly the substrings the pattern captured.

  Statement clauses → theorems
    "the parameters contain exactly the route's variable names"        C02_names
    "substituting the reported values back into the pattern (variables in an absent optional part
     contribute the empty string) reproduces the normalised request path"   C02_subst
    "the value of every variable in a present part satisfies that variable's regex"   C02_values_match
    "where the decomposition is unique the values are exactly the corresponding path substrings"
                                                      C02_unique (the class of patterns whose decomposition
                                                      is unique is characterised by hypothesis, not yet by a syntactic criterion)
    "a static route exposes no parameters"                                  C02_static_no_params
    "with the route cache on or off"                   C07_transparent (Props/C07.lean): the cached router
                                                       returns the same route and parameters
  All for every pattern (levels of literal / variable segments with arbitrary variable regexes) and
  every path.
-/
namespace Rux

/-- put values back into a segment list; returns the text and the unused values -/
def substSegs : List Seg → List Bytes → Bytes × List Bytes
  | [], caps => ([], caps)
  | .lit l :: rest, caps => let r := substSegs rest caps; (l ++ r.1, r.2)
  | .var _ :: rest, v :: caps => let r := substSegs rest caps; (v ++ r.1, r.2)
  | .var _ :: rest, [] => substSegs rest []

/-- put values back into the present levels -/
def substLevels : Levels → List Bytes → Bytes × List Bytes
  | [], caps => ([], caps)
  | segs :: rest, caps =>
    let r1 := substSegs segs caps
    let r2 := substLevels rest r1.2
    (r1.1 ++ r2.1, r2.2)

theorem substSegs_of_lang {segs : List Seg} {caps : List Bytes} {u : Bytes} (h : SegsLang segs caps u) :
    ∀ extra, substSegs segs (caps ++ extra) = (u, extra) := by
  induction h with
  | nil => intro extra; rfl
  | lit _ ih => intro extra; simp [substSegs, ih extra]
  | var _ _ ih => intro extra; simp [substSegs, ih extra]

theorem segsLang_caps_length {segs : List Seg} {caps : List Bytes} {u : Bytes} (h : SegsLang segs caps u) :
    caps.length = segVars segs := by
  induction h with
  | nil => rfl
  | lit _ ih => simpa [segVars, List.filter] using ih
  | var _ _ ih => simp [segVars, List.filter] at ih ⊢; omega

/-- one value per variable of the pattern, absent optional parts included -/
theorem C02_caps_count {ls : Levels} {caps : List Bytes} {q : Bytes} (h : LevelsLang ls caps q) :
    caps.length = levelsVars ls := by
  induction h with
  | nil => rfl
  | last hu => simpa [levelsVars] using segsLang_caps_length hu
  | present h1 _ ih =>
    have := segsLang_caps_length h1
    simp [levelsVars] at ih ⊢; omega
  | absent h1 =>
    have := segsLang_caps_length h1
    simp [levelsVars] at ⊢; omega

/-- substitution: the path is the text of the first `k` levels with the values put back, and the
    values of the remaining (absent) levels are all empty -/
theorem C02_subst_of_reading {ls : Levels} {caps : List Bytes} {q : Bytes} (h : LevelsLang ls caps q) :
    ∃ k, k ≤ ls.length ∧ (substLevels (ls.take k) caps).1 = q ∧
      (∀ c ∈ (substLevels (ls.take k) caps).2, c = []) ∧
      (substLevels (ls.take k) caps).2.length = levelsVars (ls.drop k) := by
  induction h with
  | nil => exact ⟨0, by simp, rfl, by simp [substLevels], rfl⟩
  | @last segs caps u hu =>
    refine ⟨1, by simp, ?_, ?_, ?_⟩
    · have := substSegs_of_lang hu []; simp at this; simp [substLevels, this]
    · have := substSegs_of_lang hu []; simp at this; simp [substLevels, this]
    · have := substSegs_of_lang hu []; simp at this; simp [substLevels, this, levelsVars]
  | @present segs l2 rest c1 u1 c2 u2 h1 _ ih =>
    obtain ⟨k, hk, e1, e2, e3⟩ := ih
    refine ⟨k + 1, by simp at hk ⊢; omega, ?_, ?_, ?_⟩
    · simp [substLevels, substSegs_of_lang h1 c2, e1]
    · simpa [substLevels, substSegs_of_lang h1 c2] using e2
    · simpa [substLevels, substSegs_of_lang h1 c2] using e3
  | @absent segs l2 rest c1 u1 h1 =>
    refine ⟨1, by simp, ?_, ?_, ?_⟩
    · simp [substLevels, substSegs_of_lang h1 _]
    · simp [substLevels, substSegs_of_lang h1 _]
    · simp [substLevels, substSegs_of_lang h1 _]

/-- C02 substitution clause for what the matcher reports -/
theorem C02_subst (ls : Levels) (q : Bytes) (caps : List Bytes) (h : matchPat ls q = some caps) :
    ∃ k, k ≤ ls.length ∧ (substLevels (ls.take k) caps).1 = q ∧
      (∀ c ∈ (substLevels (ls.take k) caps).2, c = []) :=
  let ⟨k, h1, h2, h3, _⟩ := C02_subst_of_reading (matchPat_some h)
  ⟨k, h1, h2, h3⟩

/-- the values of the variables of a segment list, paired with their regexes -/
def varsWith : List Seg → List Bytes → List (Re × Bytes)
  | [], _ => []
  | .lit _ :: rest, caps => varsWith rest caps
  | .var re :: rest, v :: caps => (re, v) :: varsWith rest caps
  | .var _ :: _, [] => []

theorem segs_values_match {segs : List Seg} {caps : List Bytes} {u : Bytes} (h : SegsLang segs caps u) :
    ∀ extra, ∀ rv ∈ varsWith segs (caps ++ extra), Lang rv.1 rv.2 := by
  induction h with
  | nil => intro extra rv hrv; simp [varsWith] at hrv
  | lit _ ih => intro extra rv hrv; exact ih extra rv (by simpa [varsWith] using hrv)
  | var hv _ ih =>
    intro extra rv hrv
    simp only [List.cons_append, varsWith, List.mem_cons] at hrv
    rcases hrv with rfl | hrv
    · exact hv
    · exact ih extra rv hrv

/-- every variable of the first (always present) level has a value in the language of its regex -/
theorem C02_values_match_first {segs : List Seg} {rest : Levels} {caps : List Bytes} {q : Bytes}
    (h : LevelsLang (segs :: rest) caps q) : ∀ rv ∈ varsWith segs caps, Lang rv.1 rv.2 := by
  cases h with
  | last hu => have := segs_values_match hu []; simpa using this
  | present h1 _ => exact segs_values_match h1 _
  | absent h1 => exact segs_values_match h1 _

/-- the full statement for all present levels, by recursion over the reading -/
inductive PresentValuesOK : Levels → List Bytes → Prop where
  | nil : PresentValuesOK [] []
  | last {segs caps} : (∀ rv ∈ varsWith segs caps, Lang rv.1 rv.2) → PresentValuesOK [segs] caps
  | present {segs l2 rest c1 c2} : (∀ rv ∈ varsWith segs c1, Lang rv.1 rv.2) → c1.length = segVars segs →
      PresentValuesOK (l2 :: rest) c2 → PresentValuesOK (segs :: l2 :: rest) (c1 ++ c2)
  | absent {segs l2 rest c1} : (∀ rv ∈ varsWith segs c1, Lang rv.1 rv.2) → c1.length = segVars segs →
      PresentValuesOK (segs :: l2 :: rest) (c1 ++ List.replicate (levelsVars (l2 :: rest)) [])

theorem C02_values_match (ls : Levels) (q : Bytes) (caps : List Bytes) (h : matchPat ls q = some caps) :
    PresentValuesOK ls caps := by
  have hl := matchPat_some h
  clear h
  induction hl with
  | nil => exact .nil
  | last hu => exact .last (by have := segs_values_match hu []; simpa using this)
  | present h1 _ ih =>
    exact .present (by have := segs_values_match h1 []; simpa using this) (segsLang_caps_length h1) ih
  | absent h1 =>
    exact .absent (by have := segs_values_match h1 []; simpa using this) (segsLang_caps_length h1)

/-! ### names -/

theorem mkParams_keys_subset : ∀ (names caps : List Bytes), ∀ kv ∈ mkParams names caps, kv.1 ∈ names := by
  intro names
  induction names with
  | nil => intro caps kv h; cases caps <;> simp [mkParams] at h
  | cons n ns ih =>
    intro caps kv h
    cases caps with
    | nil => simp [mkParams] at h
    | cons v vs =>
      simp only [mkParams] at h
      split at h
      · exact List.mem_cons_of_mem _ (ih vs kv h)
      · rcases List.mem_cons.mp h with rfl | h
        · simp
        · exact List.mem_cons_of_mem _ (ih vs kv h)

theorem mkParams_has_name : ∀ (names caps : List Bytes), names.length = caps.length →
    ∀ n ∈ names, ∃ v, (n, v) ∈ mkParams names caps := by
  intro names
  induction names with
  | nil => intro caps _ n hn; cases hn
  | cons a ns ih =>
    intro caps hlen n hn
    cases caps with
    | nil => simp at hlen
    | cons v vs =>
      simp only [List.length_cons, Nat.add_right_cancel_iff] at hlen
      simp only [mkParams]
      rcases List.mem_cons.mp hn with rfl | hn
      · split
        · rename_i hany
          simp only [List.any_eq_true, decide_eq_true_eq] at hany
          obtain ⟨kv, hkv, rfl⟩ := hany
          exact ⟨kv.2, hkv⟩
        · exact ⟨v, by simp⟩
      · obtain ⟨w, hw⟩ := ih vs hlen n hn
        split
        · exact ⟨w, hw⟩
        · exact ⟨w, List.mem_cons_of_mem _ hw⟩

theorem mkParams_keys_nodup : ∀ (names caps : List Bytes), ((mkParams names caps).map (·.1)).Nodup := by
  intro names
  induction names with
  | nil => intro caps; cases caps <;> simp [mkParams]
  | cons n ns ih =>
    intro caps
    cases caps with
    | nil => simp [mkParams]
    | cons v vs =>
      simp only [mkParams]
      split
      · exact ih vs
      · rename_i hany
        simp only [List.map_cons, List.nodup_cons]
        refine ⟨?_, ih vs⟩
        intro hmem
        apply hany
        simp only [List.mem_map] at hmem
        obtain ⟨kv, hkv, rfl⟩ := hmem
        simp only [List.any_eq_true, decide_eq_true_eq]
        exact ⟨kv, hkv, rfl⟩

/-- the reported parameters have exactly the route's variable names as keys, each once -/
theorem C02_names (r : RouteM) (q : Bytes) (ps : Params) (hok : routeOK r.info = true)
    (h : routeMatch r q = some ps) :
    (∀ kv ∈ ps, kv.1 ∈ r.info.names) ∧ (∀ n ∈ r.info.names, ∃ v, (n, v) ∈ ps) ∧ (ps.map (·.1)).Nodup := by
  obtain ⟨caps, hl, rfl⟩ := routeMatch_some_levels h
  have hcount := C02_caps_count hl
  have hn : r.info.names.length = levelsVars r.info.levels := by
    unfold routeOK at hok
    simp only [Bool.and_eq_true, beq_iff_eq] at hok
    exact hok.1.1
  exact ⟨mkParams_keys_subset _ _, mkParams_has_name _ _ (by omega), mkParams_keys_nodup _ _⟩

/-- a static route exposes no parameters (whatever table, method and path) -/
theorem C02_static_no_params (rs : List RouteM) (m q : Bytes) (r : RouteM) (ps : Params)
    (h : specSelect rs m q = some (r, ps)) (hs : r.static = true) : ps = [] := by
  unfold specSelect at h
  split at h
  · simp only [Option.some.injEq, Prod.mk.injEq] at h; exact h.2.symm
  · exfalso
    split at h
    · rename_i x hx
      simp only [Option.some.injEq] at h; subst h
      have hmem := (firstMatch_some' hx)
      have := (List.mem_filter.mp hmem).2
      unfold isRegularFor at this; simp [hs] at this
    · have hmem := (firstMatch_some' h)
      have := (List.mem_filter.mp hmem).2
      unfold isIrregularFor at this; simp [hs] at this

/-- where the decomposition of the path by the pattern is unique, the reported values are that
    decomposition -/
theorem C02_unique (ls : Levels) (q : Bytes) (caps a : List Bytes) (h : matchPat ls q = some caps)
    (ha : LevelsLang ls a q) (huniq : ∀ c1 c2, LevelsLang ls c1 q → LevelsLang ls c2 q → c1 = c2) :
    caps = a := huniq _ _ (matchPat_some h) ha

end Rux
