import RuxModel.Lemmas.Transparent
import RuxModel.Props.C02
/-
  C13 — Bad route definitions fail at registration; accepted ones never panic at lookup.

  Rejection clauses (the model's `prepare` / `compileRoute` return `.reject`, which is the code's panic):
    nil handler                                   C13_reject_nil_handler
    no method left after trimming                 C13_reject_no_methods
    a method that is not exactly one of the nine  C13_reject_unknown_method, C13_methods_exact
    capturing group inside a variable regex       C13_reject_capturing (first '(' not followed by '?'),
                                                  C13_reject_group_count (any other capturing group:
                                                  groups ≠ names, the check added for defect F5)
    optional part not at the end                  C13_reject_optional
    options changed after routes exist            (WithOptions: `counter > 0` — compared by the `total`
                                                  engine through the `reopt` op, no theorem)
    uncompilable pattern, handler-count limit     MustCompile panics by itself / C05_limit_registration
  Lookup is total for everything registration accepted:
    the two index expressions of the lookup path are in range
      `path[1:]` in `match`                        C13_path_nonempty   (the normalised path is never empty)
      `ps[r.matches[i]] = val`                     C13_caps_aligned    (one name per capture, always)
    and the model's lookup is a total function of (table, method, path) for ALL byte strings:
                                                   C13_lookup_total
  The model is total by construction, so C13_lookup_total alone would say little; the substance is in the
  two range theorems and in the `total` correspondence engine, whose oracle is "no panic of the real
  Match / ServeHTTP on any accepted table" over malformed definitions and degenerate requests.
-/
namespace Rux

theorem C13_reject_nil_handler (gv : GVars) (strict : Bool) (id : Nat) (name : Bytes) (ms : List Bytes) (p : Bytes)
    (methods : List Bytes) (hfm : formatMethods ms = some methods) :
    prepare gv strict id name ms p true = .reject .handler := by
  unfold prepare; rw [hfm]; rfl

theorem C13_reject_no_methods (gv : GVars) (strict : Bool) (id : Nat) (name : Bytes) (ms : List Bytes) (p : Bytes)
    (hfm : formatMethods ms = some []) :
    prepare gv strict id name ms p false = .reject .methods := by
  unfold prepare; rw [hfm]; rfl

theorem C13_reject_unknown_method (gv : GVars) (strict : Bool) (id : Nat) (name : Bytes) (ms : List Bytes) (p : Bytes)
    (methods : List Bytes) (hfm : formatMethods ms = some methods) (hne : methods ≠ [])
    (m : Bytes) (hm : m ∈ methods) (hbad : m ∉ anyMethodsB) :
    prepare gv strict id name ms p false = .reject .method := by
  unfold prepare; rw [hfm]
  have h1 : methods.isEmpty = false := by cases methods <;> simp_all
  have h2 : (methods.any fun m => !anyMethodsB.contains m) = true := by
    simp only [List.any_eq_true, Bool.not_eq_true']
    exact ⟨m, hm, by simpa using hbad⟩
  simp only [Bool.false_eq_true, if_false, h1]
  rw [if_pos h2]

/-- exact membership: near misses of real method names are not methods -/
theorem C13_methods_exact :
    (Bytes.ofHexChars "44454c".toList = some [68, 69, 76]) ∧          -- "DEL"
    ([68, 69, 76] : Bytes) ∉ anyMethodsB ∧ ([71] : Bytes) ∉ anyMethodsB ∧
    ([71, 69, 84, 44, 80, 79, 83, 84] : Bytes) ∉ anyMethodsB ∧        -- "GET,POST"
    ([103, 101, 116] : Bytes) ∉ anyMethodsB ∧                          -- "get" (before upper-casing)
    anyMethodsB.length = 9 := by decide

theorem C13_reject_capturing (v : Bytes) (pos : Nat) (hpos : Bytes.indexByte v 0x28 = some pos)
    (hnext : v[pos + 1]? ≠ some 0x3F) : goodRegexString v = false := by
  unfold goodRegexString; rw [hpos]; simp only
  cases h : v[pos + 1]? with
  | none => rfl
  | some c => simp; intro e; apply hnext; rw [h, e]

theorem C13_reject_group_count (regexStr start first spath : Bytes) (names : List Bytes)
    (hv : Bytes.validUTF8 regexStr = true) (hc : countGroups regexStr 0 ≠ names.length) :
    finish regexStr start first spath names = .reject .groups := by
  unfold finish; simp [hv, hc]

theorem C13_reject_optional (path : Bytes)
    (h : path.length - (Bytes.trimRightByte 0x5D path).length ≠ Bytes.countByte (Bytes.trimRightByte 0x5D path) 0x5B) :
    checkAndParseOptional path = none := by
  unfold checkAndParseOptional; simp [h]

/-- `path[1:]` is always in range: the path every lookup works on is never empty -/
theorem C13_path_nonempty (strict : Bool) (p : Bytes) : fmtPath strict p ≠ [] := by
  intro h
  have := fmtPath_head strict p
  rw [h] at this; simp at this

/-- `ps[r.matches[i]] = val` is always in range: a route that registration accepted has exactly one
    variable name per capture of every match -/
theorem C13_caps_aligned (r : RouteM) (hok : routeOK r.info = true) (q : Bytes) (caps : List Bytes)
    (h : matchPat r.info.levels q = some caps) : caps.length = r.info.names.length := by
  have hl := matchPat_some h
  have hc := C02_caps_count hl
  unfold routeOK at hok
  simp only [Bool.and_eq_true, beq_iff_eq] at hok
  omega

/-- every route that `prepare` accepts satisfies that alignment (so it holds for every registered table) -/
theorem C13_accepted_aligned (gv : GVars) (strict : Bool) (id : Nat) (name : Bytes) (ms : List Bytes) (p : Bytes) (nh : Bool)
    (route : RouteM) (h : prepare gv strict id name ms p nh = .ok route) (hs : route.static = false) :
    routeOK route.info = true := (prepare_ok_facts h).1 hs

/-- the lookup is defined for every table, every option record, every method string and every path
    string (empty, white-space only, non-UTF-8 included) -/
theorem C13_lookup_total (rt : RouterM) (m p : Bytes) : ∃ res, quickMatch rt m p = res := ⟨_, rfl⟩

/-- non-vacuity of the normaliser on degenerate inputs -/
example : fmtPath false [] = [0x2F] ∧ fmtPath false [0x20, 0x20] = [0x2F] ∧ fmtPath true [0x09] = [0x2F] := by
  decide

end Rux
