import RuxModel.Lemmas.Table
/-
  C01 — Route selection follows the documented pattern semantics.

  Statement clauses → theorems
    "dispatched to a route only if it allows the method and its pattern matches the whole
     normalised path"                                          C01_sound
    "'no route' only if no registered route does"              C01_complete
    "static beats dynamic; literal-first-segment patterns before the others; earliest wins"
                                                               C01_priority  (lookup = specSelect)
    pattern semantics ({name}, {name:regex}, optional tails, literal '.')
                                                               `LevelsLang` (Lemmas/Pattern.lean) is the
                                                               declarative reading; the matcher is sound and
                                                               complete for it: C01_matcher_sound / _complete
  Quantifiers: every list of route definitions accepted by registration (any number of routes), every
  option record, every request method without '/', every path byte string.
  What is NOT proved here: that `compileRoute` turns the *text* of a pattern into the intended levels
  (the translation mirrors the Go code step by step and is tied to it by the correspondence engine, which
  compares the produced regexp text, literal prefix, first-segment key and variable names verbatim with
  what rux computed; `routeOK` re-checks at registration the facts about that output the proofs rely on).
-/
namespace Rux

/-- does route `r` qualify for method `m` and normalised path `q`? -/
def Qualifies (r : RouteM) (m q : Bytes) : Prop :=
  m ∈ r.methods ∧ (if r.static then r.path = q else ∃ caps, LevelsLang r.info.levels caps q)

/-- the prioritised matcher only returns readings of the path as an instance of the pattern … -/
theorem C01_matcher_sound (ls : Levels) (q : Bytes) (caps : List Bytes) (h : matchPat ls q = some caps) :
    LevelsLang ls caps q := matchPat_some h

/-- … and finds one whenever one exists -/
theorem C01_matcher_complete (ls : Levels) (q : Bytes) :
    matchPat ls q = none ↔ ¬ ∃ caps, LevelsLang ls caps q := matchPat_none_iff ls q

/-- the table built by registering any accepted list of definitions answers exactly the specified
    selection, for every method without '/' and every path (normalised by `fmtPath` as lookup does) -/
theorem C01_priority (o : Opts) (defs : List RouteDef) (rt : RouterM) (rs : List RouteM)
    (hreg : registerAll (RouterM.new o) defs = some (rt, rs))
    (m p : Bytes) (hm : (0x2F : Nat) ∉ m) :
    lookupPure rt m (fmtPath o.strict p) = specSelect rs m (fmtPath o.strict p) := by
  obtain ⟨h1, _, h3⟩ := registerAll_build defs _ _ _ hreg
  rw [h1]
  exact lookupPure_eq_spec o rs h3 m _ hm (fmtPath_head _ _)

theorem firstMatch_some {rs : List RouteM} {q : Bytes} {us : Bool} {r : RouteM} {ps : Params}
    (h : firstMatch rs q us = some (r, ps)) : r ∈ rs ∧ routeMatch r q = some ps := by
  unfold firstMatch at h
  obtain ⟨r', hr', hg⟩ := List.exists_of_findSome?_eq_some h
  split at hg
  · cases hg
  · cases hm : routeMatch r' q with
    | none => rw [hm] at hg; simp at hg
    | some ps' =>
      rw [hm] at hg; simp at hg
      obtain ⟨rfl, rfl⟩ := hg
      exact ⟨hr', hm⟩

/-- soundness: whatever is selected is a registered route that allows the method and whose pattern
    matches the whole path; the parameters are the values of that reading -/
theorem C01_sound (rs : List RouteM) (m q : Bytes) (r : RouteM) (ps : Params)
    (h : specSelect rs m q = some (r, ps)) :
    r ∈ rs ∧ Qualifies r m q ∧
    (r.static = true → ps = []) ∧
    (r.static = false → ∃ caps, LevelsLang r.info.levels caps q ∧ ps = mkParams r.info.names caps) := by
  unfold specSelect at h
  split at h
  · rename_i r' hlast
    simp only [Option.some.injEq, Prod.mk.injEq] at h
    obtain ⟨rfl, rfl⟩ := h
    have hmem := List.mem_of_getLast? hlast
    obtain ⟨hin, hst⟩ := List.mem_filter.mp hmem
    unfold isStaticFor at hst
    simp only [Bool.and_eq_true, beq_iff_eq] at hst
    obtain ⟨⟨hs, hc⟩, hp⟩ := hst
    refine ⟨hin, ⟨by simpa using hc, by simp [hs, hp]⟩, fun _ => rfl, fun hns => by rw [hs] at hns; cases hns⟩
  · split at h
    · rename_i x hx
      simp only [Option.some.injEq] at h
      subst h
      obtain ⟨hmem, hm⟩ := firstMatch_some hx
      obtain ⟨hin, hreg⟩ := List.mem_filter.mp hmem
      unfold isRegularFor at hreg
      simp only [Bool.and_eq_true, Bool.not_eq_true'] at hreg
      obtain ⟨caps, hl, hps⟩ := routeMatch_some_levels hm
      have hst := hreg.1.1
      refine ⟨hin, ⟨by simpa using hreg.2, by rw [if_neg (by simp [hst])]; exact ⟨caps, hl⟩⟩,
        ?_, fun _ => ⟨caps, hl, hps⟩⟩
      intro hs; rw [hst] at hs; cases hs
    · obtain ⟨hmem, hm⟩ := firstMatch_some h
      obtain ⟨hin, hreg⟩ := List.mem_filter.mp hmem
      unfold isIrregularFor at hreg
      simp only [Bool.and_eq_true, Bool.not_eq_true'] at hreg
      obtain ⟨caps, hl, hps⟩ := routeMatch_some_levels hm
      have hst := hreg.1.1
      refine ⟨hin, ⟨by simpa using hreg.2, by rw [if_neg (by simp [hst])]; exact ⟨caps, hl⟩⟩,
        ?_, fun _ => ⟨caps, hl, hps⟩⟩
      intro hs; rw [hst] at hs; cases hs

theorem firstMatch_none {rs : List RouteM} {q : Bytes} (h : firstMatch rs q false = none) :
    ∀ r ∈ rs, routeMatch r q = none := by
  intro r hr
  unfold firstMatch at h
  rw [List.findSome?_eq_none_iff] at h
  have := h r hr
  cases hm : routeMatch r q with
  | none => rfl
  | some ps => rw [hm] at this; simp at this

/-- completeness: "no route" is reported only if no registered route qualifies -/
theorem C01_complete (rs : List RouteM) (m q : Bytes) (h : specSelect rs m q = none) :
    ∀ r ∈ rs, ¬ Qualifies r m q := by
  intro r hr ⟨hm, hq⟩
  unfold specSelect at h
  split at h
  · cases h
  · rename_i hlast
    split at h
    · cases h
    · rename_i hreg
      by_cases hs : r.static = true
      · -- a qualifying static route would be in the static filter
        rw [if_pos hs] at hq
        have : r ∈ rs.filter (isStaticFor m q) := by
          apply List.mem_filter.mpr
          refine ⟨hr, ?_⟩
          unfold isStaticFor
          simp [hs, hm, hq]
        rw [List.getLast?_eq_none_iff] at hlast
        rw [hlast] at this; cases this
      · have hs' : r.static = false := by simpa using hs
        rw [if_neg hs] at hq
        obtain ⟨caps, hl⟩ := hq
        have hsome : routeMatch r q ≠ none := by
          unfold routeMatch
          intro hn
          cases hmp : matchPat r.info.levels q with
          | none => exact (matchPat_none_iff _ _).mp hmp ⟨caps, hl⟩
          | some c => rw [hmp] at hn; simp at hn
        by_cases hf : r.info.first.isEmpty = true
        · apply hsome
          apply firstMatch_none h r
          apply List.mem_filter.mpr
          exact ⟨hr, by unfold isIrregularFor; simp [hs', hf, hm]⟩
        · apply hsome
          apply firstMatch_none hreg r
          apply List.mem_filter.mpr
          exact ⟨hr, by unfold isRegularFor; simp [hs', hf, hm]⟩

end Rux
