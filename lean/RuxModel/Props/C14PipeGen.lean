import RuxModel.Tie.Match
import RuxModel.Tie.Cache
import RuxModel.Tie.Copy
/-
  **A repeated dynamic request is answered from the route cache with the same route and the same parameters** — on
  GENERATED code end to end: the generated `Router.match` (parse_match.go) whose cache operations are the generated
  `cachedRoutes.Get` / `Set` (route_cache.go), whose `cacheDynamicRoute` is the generated one (with the generated
  `Route.copyWithParams` and `Params.clone` of route.go inside).  The static table, the two maps of route lists and the
  per-route regexp match are parameters (`GTables`, `mr`); the router state that changes is the cache.
-/
set_option linter.unusedSimpArgs false
namespace Rux
open Tie GoRt

/-- the read-only part of the router state as `match` sees it -/
structure GTables where
  stable : Bytes → Option Gen.Route
  regular : Bytes → List Gen.Route × Bool
  irregular : Bytes → List Gen.Route × Bool

/-- the environment of the generated `match`: cache operations = the generated cache code -/
def envC (g : Gen.Router) (t : GTables) (ord : KV → KV) (mr : Gen.Route → Bytes → Option KV × Bool) :
    MEnv (Gen.CR Gen.Route) Gen.Route KV where
  stable _ k := t.stable k
  cacheGet c k := (((Gen.CR.Get c k).2.1, (Gen.CR.Get c k).2.2), (Gen.CR.Get c k).1)
  paramsClone r := r.bind fun r => Gen.Params.clone r.params ord
  regular _ k := t.regular k
  irregular _ k := t.irregular k
  start r := r.start
  matchRegex r p := mr r p
  cacheDynamic c key ps r := Gen.Router.cacheDynamicRoute g key ps r (fun c k v => (Gen.CR.Set c k (some v)).1) ord c

/-- model cache: with room for at least one entry, a key just stored is found, with the value stored -/
theorem cache_get_set {V : Type} (c : Cache Bytes V) (k : Bytes) (v : V) (hc : c.cap ≥ 1) :
    ((c.set k v).get k).1 = some v := by
  unfold Cache.set Cache.get
  by_cases hany : c.items.any (fun x => decide (x.1 = k)) = true
  · simp [hany]
  · simp only [hany, Bool.false_eq_true, if_false]
    by_cases hlen : ((k, v) :: c.items).length > c.cap
    · simp only [hlen, if_true]
      cases hi : c.items with
      | nil => simp [hi] at hlen; omega
      | cons a t => simp [List.dropLast]
    · simp only [hlen, if_false]
      simp

theorem kvSet_nodup (m : KV) (k v : Bytes) (h : KeysNodup m) : KeysNodup (kvSet m k v) := by
  unfold KeysNodup kvSet at *
  simp only [List.map_cons, List.nodup_cons]
  refine ⟨?_, nodup_map_filter (fun x : Bytes × Bytes => x.1) (fun x => x.1 != k) h⟩
  simp only [List.mem_map, List.mem_filter]
  rintro ⟨x, ⟨_, hx⟩, hxk⟩
  simp [hxk] at hx

theorem fold_keys_nodup (xs : KV) : ∀ acc : KV, KeysNodup acc → KeysNodup (xs.foldl (fun b a => kvSet b a.1 a.2) acc) := by
  induction xs with
  | nil => intro acc h; exact h
  | cons a t ih => intro acc h; exact ih _ (kvSet_nodup acc a.1 a.2 h)

/-- the generated cache: after `Set k v` on a cache with room for an entry, `Get k` finds `v` (and keeps the invariant) -/
theorem gen_get_after_set (c : Gen.CR Gen.Route) (k : Bytes) (v : Gen.Route) (h : Inv c) (hc : c.size ≥ 1) :
    (Gen.CR.Get (Gen.CR.Set c k (some v)).1 k).2 = (some v, true) ∧ Inv (Gen.CR.Get (Gen.CR.Set c k (some v)).1 k).1 := by
  obtain ⟨hi, ha, _⟩ := tie_Set c k (some v) h
  obtain ⟨hi2, _, hfound, hval⟩ := tie_Get (Gen.CR.Set c k (some v)).1 k hi
  have hcap : (absC c).cap ≥ 1 := by simp only [absC]; omega
  have := cache_get_set (absC c) k (some v) hcap
  rw [ha] at hfound hval
  rw [this] at hfound hval
  refine ⟨?_, hi2⟩
  ext <;> simp [hfound, hval]

/-- the dynamic tiers return a route only together with the cache store of exactly that route under the request's key -/
theorem loopSpec_stores (env : MEnv (Gen.CR Gen.Route) Gen.Route KV) (m p : Bytes) (b : Bool) (l : List Gen.Route)
    (c : Gen.CR Gen.Route) (r : Gen.CR Gen.Route × Option Gen.Route × Option KV)
    (h : (loopSpec env m p b l c).1 = some r) :
    ∃ el, r = (env.cacheDynamic c (m ++ p) (env.matchRegex el p).1 el, some el, (env.matchRegex el p).1) := by
  unfold loopSpec at h
  split at h
  · rename_i el _
    exact ⟨el, (Option.some.inj h).symm⟩
  · cases h

theorem loopSpec_state (env : MEnv (Gen.CR Gen.Route) Gen.Route KV) (m p : Bytes) (b : Bool) (l : List Gen.Route)
    (c : Gen.CR Gen.Route) (h : (loopSpec env m p b l c).1 = none) : (loopSpec env m p b l c).2 = c := by
  unfold loopSpec at h ⊢
  split at h
  · cases h
  · rename_i hf; simp [hf]

/-- whatever the dynamic tiers return with a route: the state is the cache after storing that route's copy -/
theorem dynSpec_stores (g : Gen.Router) (t : GTables) (ord : KV → KV) (mr : Gen.Route → Bytes → Option KV × Bool)
    (m p : Bytes) (c c1 : Gen.CR Gen.Route) (r : Gen.Route) (ps : Option KV)
    (h : dynSpec (envC g t ord mr) m p c = .ok (c1, some r, ps)) :
    c1 = (envC g t ord mr).cacheDynamic c (m ++ p) ps r ∧ ps = (mr r p).1 := by
  unfold dynSpec at h
  have hirr : ∀ c0 : Gen.CR Gen.Route, c0 = c → irrSpec (envC g t ord mr) m p c0 = .ok (c1, some r, ps) →
      c1 = (envC g t ord mr).cacheDynamic c (m ++ p) ps r ∧ ps = (mr r p).1 := by
    intro c0 hc0 hi
    subst hc0
    unfold irrSpec at hi
    split at hi
    · split at hi
      · rename_i r' hr'
        obtain ⟨el, hel⟩ := loopSpec_stores _ m p false _ c0 r' hr'
        rw [hel] at hi
        simp only [Except.ok.injEq, Prod.mk.injEq, Option.some.injEq] at hi
        obtain ⟨h1, h2, h3⟩ := hi
        subst h2
        exact ⟨by rw [← h1, ← h3], h3.symm⟩
      · simp at hi
    · simp at hi
  split at h
  · cases h
  · split at h
    · split at h
      · cases h
      · split at h
        · split at h
          · rename_i r' hr'
            obtain ⟨el, hel⟩ := loopSpec_stores _ m p true _ c r' hr'
            rw [hel] at h
            simp only [Except.ok.injEq, Prod.mk.injEq, Option.some.injEq] at h
            obtain ⟨h1, h2, h3⟩ := h
            subst h2
            exact ⟨by rw [← h1, ← h3], h3.symm⟩
          · rename_i hn
            exact hirr _ (loopSpec_state _ m p true _ c hn) h
        · exact hirr c rfl h
    · exact hirr c rfl h

/-- **C14 / C07 on generated code**: on a caching router whose cache has room for at least one entry, when a request
    `(m, p)` that is not in the static table and not in the cache is resolved by the dynamic tiers to route `r` with
    params `ps`, then the SAME request on the state that lookup left behind is answered from the cache — by a route with
    `r`'s name, path, methods, main handler and middleware chain, and with params that are the same map as `ps`
    (`nil` when `ps` is nil), for every visiting order of Go's map iteration -/
theorem C14_gen_repeat_from_cache (g : Gen.Router) (t : GTables) (ord : KV → KV) (mr : Gen.Route → Bytes → Option KV × Bool)
    (m p : Bytes) (c c1 : Gen.CR Gen.Route) (r : Gen.Route) (ps : Option KV)
    (hg : g.enableCaching = true) (hinv : Inv c) (hcap : c.size ≥ 1)
    (hstable : t.stable (m ++ p) = none) (hmiss : (Gen.CR.Get c (m ++ p)).2.2 = false)
    (hord : ∀ l, (ord l).Perm l) (hkeys : ∀ l, ps = some l → KeysNodup l)
    (h : Gen.Router.match_ g m p (envC g t ord mr) c = .ok (c1, some r, ps)) :
    ∃ c2 r2 ps2, Gen.Router.match_ g m p (envC g t ord mr) c1 = .ok (c2, some r2, ps2) ∧
      r2.name = r.name ∧ r2.path = r.path ∧ r2.methods = r.methods ∧ r2.handler = r.handler ∧ r2.handlers = r.handlers ∧
      (ps = none → ps2 = none) ∧
      (∀ l, ps = some l → ∃ l2, ps2 = some l2 ∧ l2.length = l.length ∧ ∀ k, kvFind l2 k = kvFind l k) := by
  rw [gen_match_eq_spec] at h ⊢
  unfold matchSpec at h
  have hst : ((envC g t ord mr).stable c (m ++ p)).isSome = false := by simp [envC, hstable]
  have hcg : ((envC g t ord mr).cacheGet c (m ++ p)).1.2 = false := by simp [envC, hmiss]
  simp only [hst, Bool.false_eq_true, if_false, hg, if_true, hcg] at h
  obtain ⟨hc1, _⟩ := dynSpec_stores g t ord mr m p _ c1 r ps h
  -- the state after the first lookup: Get (a miss keeps the invariant), then the store of the copy
  obtain ⟨hiG, _, _, _⟩ := tie_Get c (m ++ p) hinv
  have hsz : (Gen.CR.Get c (m ++ p)).1.size = c.size := by
    simp only [Gen.CR.Get, Id.run, GoRt.idPure]; split <;> rfl
  have hc1' : c1 = (Gen.CR.Set (Gen.CR.Get c (m ++ p)).1 (m ++ p) (some (Gen.Route.copyWithParams r ps ord))).1 := by
    rw [hc1]; simp only [envC, cacheDynamicRoute_eq, hg, if_true]
  obtain ⟨hget, _⟩ := gen_get_after_set (Gen.CR.Get c (m ++ p)).1 (m ++ p) (Gen.Route.copyWithParams r ps ord) hiG (by omega)
  rw [← hc1'] at hget
  -- the second lookup
  unfold matchSpec
  have hst1 : ((envC g t ord mr).stable c1 (m ++ p)).isSome = false := by simp [envC, hstable]
  have hcg1 : ((envC g t ord mr).cacheGet c1 (m ++ p)).1 = (some (Gen.Route.copyWithParams r ps ord), true) := by
    simp only [envC]; exact hget
  simp only [hst1, Bool.false_eq_true, if_false, hg, if_true, hcg1]
  refine ⟨_, _, _, rfl, ?_, ?_, ?_, ?_, ?_, ?_, ?_⟩
  · simp [copyWithParams_eq]
  · simp [copyWithParams_eq]
  · simp [copyWithParams_eq]
  · simp [copyWithParams_eq]
  · simp [copyWithParams_eq]
  · intro hn; subst hn; simp [envC, copyWithParams_eq, clone_none]
  · intro l hl
    subst hl
    have hn := hkeys l rfl
    -- the cached params are the clone of ps; what the hit returns is the clone of that clone
    obtain ⟨l1, h1, hlen1, hfind1⟩ : ∃ l1, Gen.Params.clone (some l) ord = some l1 ∧ l1.length = l.length ∧ ∀ k, kvFind l1 k = kvFind l k := by
      obtain ⟨l1, h1, hf⟩ := clone_same_map l ord (hord l) hn
      obtain ⟨l1', h1', hl⟩ := clone_length l ord (hord l) hn
      have : l1 = l1' := by rw [h1] at h1'; exact Option.some.inj h1'
      subst this
      exact ⟨l1, h1, hl, hf⟩
    have hn1 : KeysNodup l1 := by
      -- the clone is built by stores on distinct keys: its keys are distinct too
      rw [clone_some, fold_some] at h1
      have := Option.some.inj h1
      subst this
      have hnd : KeysNodup (ord l) := by unfold KeysNodup at hn ⊢; exact ((hord l).map _).nodup_iff.mpr hn
      exact fold_keys_nodup (ord l) [] (by unfold KeysNodup; simp)
    obtain ⟨l2, h2, hf2⟩ := clone_same_map l1 ord (hord l1) hn1
    obtain ⟨l2', h2', hl2⟩ := clone_length l1 ord (hord l1) hn1
    have : l2 = l2' := by rw [h2] at h2'; exact Option.some.inj h2'
    subst this
    refine ⟨l2, ?_, by omega, fun k => by rw [hf2, hfind1]⟩
    simp [envC, copyWithParams_eq, h1, h2]

-- non-vacuity: one irregular GET route `/{id}` (the regexp match is a table here), an empty cache of capacity 2, the
-- request GET /7: the first lookup goes through the dynamic tiers and stores, so the premises of the theorem hold
def demoRoute : Gen.Route :=
  { name := [1], path := [2], methods := [[71, 69, 84]], handler := some 0, handlers := [5], matches_ := [[105, 100]], start := [], spath := [], regex := some [9] }
def demoTables : GTables :=
  { stable := fun _ => none, regular := fun _ => ([], false), irregular := fun m => if m = [71, 69, 84] then ([demoRoute], true) else ([], false) }
def demoMr : Gen.Route → Bytes → Option KV × Bool := fun _ p => if p = [47, 55] then (some [([105, 100], [55])], true) else (none, false)
def demoG : Gen.Router := { (default : Gen.Router) with enableCaching := true }

example : (Gen.Router.match_ demoG [71, 69, 84] [47, 55] (envC demoG demoTables id demoMr) (genNew 2)).toOption.map
      (fun x => (x.2.1.map (·.name), x.2.2)) = some (some [1], some [([105, 100], [55])]) ∧
    (Gen.CR.Get (genNew 2 : Gen.CR Gen.Route) ([71, 69, 84] ++ [47, 55])).2.2 = false := by decide

end Rux
