import RuxModel.Lemmas.Reg
import RuxModel.Lemmas.RegHeap
/-
  C12 — Groups add prefix and middleware to their own routes and leave no residue.

  Model: `Model/Reg.lean` (`exec`/`execList` mirror Group / Controller / Resource / Use / Add… /
  appendGroupInfo / Route.Use; `den`/`denList` is the lexically scoped denotation; `Spec.denote` the
  reference semantics with the explicit stack of enclosing groups).  `formatPath` / `simpleFmtPath`
  are parameters (`cfg.fmt`, `cfg.sfmt`); what is assumed about them is a hypothesis of the theorem
  that needs it, and `cleanFns`, `cleanFmt_ne` (Lemmas/Reg.lean) show that the executable instance
  of the driver meets these hypotheses.

  Clause of the statement                                            theorem
  ---------------------------------------------------------------    ---------------------------------
  routes inside Group(..) — any depth, incl. Controller/Resource —   C12_denotation, C12_denotation_total,
  are registered under the concatenated prefixes with the middle-    C12_denotation_spec, C12_paths_concat,
  ware of their enclosing groups in effect at registration           C12_group_mw_prefix
  when Group returns, prefix and group middleware are what they      C12_restore, C12_restore_any,
  were before; siblings / later routes outside are unaffected        C12_group_leaves_no_residue
  Router.Use inside a group affects only routes registered later     C12_use_local, C12_use_in_group_not_global
  inside that group
  Controller / Resource are Group instances                          C12_resource_controller
  (slices) a registered route's handlers never change afterwards,    C12_no_alias (slice model:
  although groups append into shared backing arrays                  Model/RegHeap.lean)

  C12_no_alias assumes that every call passes a middleware slice with a backing array of its own
  (the model allocates one per call).  A caller that hands sub-slices of ONE array with spare
  capacity to several Group calls gets that array overwritten by rux: known finding F17 (reg corpus).

  NOT proved here: which request path reaches a stored path (C01/C11, table and path models); the
  paths `Resource` registers (C16); that `cfg.fmt`/`cfg.sfmt` ARE formatPath/simpleFmtPath (C11,
  path worker; sampled here by the `reg` engine on white-space-free paths).
-/
namespace Rux
open Reg Reg.Spec

/-- The interpreter computes the denotation: after any program, run from ANY state, the routes are
    the old ones followed by exactly the routes the program denotes in the scope it started in —
    each with the prefix and the group middleware of its own position — and the scope handed on is
    the denoted one. -/
theorem C12_denotation (cfg : Cfg) (st st' : RS) (prog : List Stmt)
    (h : execList cfg st prog = .ok st') :
    st'.routes = st.routes ++ (denList cfg st.toScope prog).1 ∧
    st'.toScope = (denList cfg st.toScope prog).2 := by
  have := execList_den cfg st st' prog h
  subst this
  exact ⟨rfl, rfl⟩

/-- … and the interpreter does succeed whenever no route reaches the handler limit and no
    `Resource` call gets a bad controller (so `C12_denotation` is not vacuous). -/
theorem C12_denotation_total (cfg : Cfg) (st : RS) (prog : List Stmt)
    (hc : okCtrlList prog = true)
    (hl : ∀ r ∈ (denList cfg st.toScope prog).1, r.handlers.length < cfg.limit) :
    execList cfg st prog = .ok ⟨(denList cfg st.toScope prog).2, st.routes ++ (denList cfg st.toScope prog).1⟩ :=
  execList_total cfg st prog hc hl

/-- From a fresh router the registered routes are those of the reference semantics: path = the
    formatted prefixes of the enclosing groups (outermost first) + the route's path, handlers = the
    levels of the enclosing groups (outermost first; a level is the group's middleware followed by the
    `Use` calls made in it before the route) followed by the route's own middleware. -/
theorem C12_denotation_spec (cfg : Cfg) (hne : ∀ x, cfg.fmt x ≠ []) (st' : RS) (prog : List Stmt)
    (h : execList cfg RS.init prog = .ok st') :
    st'.routes = (denoteList cfg LScope.init prog).1 := by
  have h1 := (C12_denotation cfg RS.init st' prog h).1
  have h2 := (denList_denote cfg hne LScope.init rfl prog).1
  have h0 : RS.init.toScope = LScope.init.flat cfg := rfl
  rw [h1, h0, h2]
  simp [RS.init]

/-- For clean prefixes and paths the path functions do nothing: the stored path is literally the
    concatenation `g₁ ++ … ++ gₙ ++ path` (`storedPath_id`). -/
theorem C12_paths_concat (cfg : Cfg) (P : Bytes → Prop) (hc : CleanFns cfg P) (prog : List Stmt)
    (hp : CleanProg P prog) :
    denoteList cfg LScope.init prog = denoteList (idCfg cfg) LScope.init prog ∧
    ∀ (ls : LScope) (d : RouteDef),
      (mkRouteL (idCfg cfg) ls d).path = ls.pfxs.reverse.flatten ++ d.path := by
  refine ⟨(denoteList_clean hc LScope.init (by simp [LScope.init]) prog hp).1, fun ls d => ?_⟩
  simp only [mkRouteL, storedPath_id, LScope.fullPrefix]
  simp [idCfg]

/-- Every route registered inside `Group(p, body, mws...)` carries the group handlers in effect
    outside followed by `mws` as a PREFIX of its handlers (outer before inner), whatever the body is;
    the rest is what the body gives the route in a scope without group handlers. -/
theorem C12_group_mw_prefix (cfg : Cfg) (sc : Scope) (p : Bytes) (mws : List H) (body : List Stmt) :
    (den cfg sc (.group p mws body)).1 =
      (denList cfg { enterScope cfg sc p mws with grp := [] } body).1.map (Route.pre (sc.grp ++ mws)) := by
  have h := denList_pre cfg (sc.grp ++ mws) ({ enterScope cfg sc p mws with grp := [] } : Scope) body
  have e : ({ enterScope cfg sc p mws with grp := [] } : Scope).pre (sc.grp ++ mws) = enterScope cfg sc p mws := by
    rw [enterScope_eq]; simp [Scope.pre]
  rw [e] at h
  simp only [den]
  rw [h]

/-- `Group` (and `Controller`, `Resource`) returns with the prefix and the group handlers it was
    called with — for every body. -/
theorem C12_restore (cfg : Cfg) (st st' : RS) (p : Bytes) (mws : List H) (body : List Stmt)
    (h : exec cfg st (.group p mws body) = .ok st') :
    st'.pfx = st.pfx ∧ st'.grp = st.grp := by
  simp only [exec] at h
  split at h
  · injection h with h; subst h; exact ⟨rfl, rfl⟩
  · cases h

/-- the same for every statement: no statement changes the prefix, and only a `Use` standing
    directly in the current body changes the current group handlers -/
theorem C12_restore_any (cfg : Cfg) (st st' : RS) (s : Stmt) (h : exec cfg st s = .ok st') :
    st'.pfx = st.pfx ∧ ((∀ hs, s ≠ .use hs) → st'.grp = st.grp) := by
  have := exec_den cfg st st' s h
  subst this
  refine ⟨den_pfx cfg st.toScope s, fun hn => ?_⟩
  cases s with
  | use hs => exact absurd rfl (hn hs)
  | route d => rfl
  | group p m b => rfl
  | controller p m b => rfl
  | resource rd m => rfl
  | notFound hs => rfl
  | notAllowed hs => rfl

/-- no residue: whatever a group contains, the statements after it denote what they denote after
    a group that only contains the router-wide settings (global `Use` cannot occur inside, see
    `C12_use_in_group_not_global`): the following siblings see the scope `sc` with at most the
    router-wide lists changed. -/
theorem C12_group_leaves_no_residue (cfg : Cfg) (sc : Scope) (p : Bytes) (mws : List H) (body rest : List Stmt) :
    (denList cfg sc (.group p mws body :: rest)).1 =
      (den cfg sc (.group p mws body)).1 ++
      (denList cfg { sc with globals := (den cfg sc (.group p mws body)).2.globals
                             noRoute := (den cfg sc (.group p mws body)).2.noRoute
                             noAllowed := (den cfg sc (.group p mws body)).2.noAllowed } rest).1 := by
  simp [denList, den, Scope.after]

/-- `Use` in a group: earlier routes of the group are untouched, later routes of the group get
    exactly `hs` inserted behind the group handlers in effect at the `Use`, and what follows the
    group is denoted in the same scope as without the `Use`. -/
theorem C12_use_local (cfg : Cfg) (hne : ∀ x, cfg.fmt x ≠ []) (sc : Scope) (p : Bytes) (mws : List H)
    (b1 b2 : List Stmt) (hs : List H) :
    let r1 := denList cfg (enterScope cfg sc p mws) b1
    let base := denList cfg { r1.2 with grp := [] } b2
    (den cfg sc (.group p mws (b1 ++ .use hs :: b2))).1 = r1.1 ++ base.1.map (Route.pre (r1.2.grp ++ hs)) ∧
    (den cfg sc (.group p mws (b1 ++ b2))).1 = r1.1 ++ base.1.map (Route.pre r1.2.grp) ∧
    (den cfg sc (.group p mws (b1 ++ .use hs :: b2))).2 = (den cfg sc (.group p mws (b1 ++ b2))).2 :=
  group_use_local cfg sc p mws b1 b2 hs (by
    simp only [enterScope]
    intro h
    exact hne p (List.append_eq_nil_iff.mp h).2)

/-- inside a group `Use` never touches the global list (and outside it never touches a group list) -/
theorem C12_use_in_group_not_global (sc : Scope) (hs : List H) :
    (sc.pfx ≠ [] → (useScope sc hs).globals = sc.globals ∧ (useScope sc hs).grp = sc.grp ++ hs) ∧
    (sc.pfx = [] → (useScope sc hs).globals = sc.globals ++ hs ∧ (useScope sc hs).grp = sc.grp) := by
  constructor <;> intro h <;> simp [useScope, h]

/-- `Controller(p, c, mws...)` is `Group(p, func(){ c.AddRoutes(r) }, mws...)`, and
    `Resource(base, c, mws...)` with a valid controller is the group `base ++ name` around the
    `AddNamed` + `Use` calls of the implemented actions; an invalid controller panics before
    anything is registered. -/
theorem C12_resource_controller (cfg : Cfg) (st : RS) :
    (∀ p mws body, exec cfg st (.controller p mws body) = exec cfg st (.group p mws body)) ∧
    (∀ rd mws, rd.kind = .ptrStruct →
      exec cfg st (.resource rd mws) =
        exec cfg st (.group (rd.base ++ rd.resName) mws ((restRoutes rd).map Stmt.route))) ∧
    (∀ rd mws, rd.kind ≠ .ptrStruct → exec cfg st (.resource rd mws) = .error .badController) := by
  refine ⟨fun p mws body => by simp [exec], fun rd mws hk => ?_, fun rd mws hk => by simp [exec, hk]⟩
  simp only [exec, hk]
  rw [if_neg (by simp), execList_routes]

/-! ### non-vacuity: a three-level program with a `Use` between two routes of one group -/

namespace C12ex
def g1 : Bytes := [47, 97]        -- "/a"
def g2 : Bytes := [47, 98]        -- "/b"
def p1 : Bytes := [47, 120]       -- "/x"
def p2 : Bytes := [47, 121]       -- "/y"
def rd (id : Nat) (p : Bytes) (post : List (List H)) : RouteDef :=
  { id := id, main := id, name := [], methods := [[71, 69, 84]], path := p, pre := [], post := post }

/-- Use(1); Group("/a", {GET /x [4]; Use(5); Group("/b", {GET /y}, 6); GET /y [7]}, 2, 3); GET /x -/
def prog : List Stmt :=
  [.use [1],
   .group g1 [2, 3] [.route (rd 10 p1 [[4]]), .use [5], .group g2 [6] [.route (rd 11 p2 [[]])], .route (rd 12 p2 [[7]])],
   .route (rd 13 p1 [[]])]

def outcome (r : Except Err RS) : List (Nat × Bytes × List H) × List H × Bytes × List H :=
  match r with
  | .ok st => (st.routes.map fun r => (r.id, r.path, r.handlers), st.globals, st.pfx, st.grp)
  | .error _ => ([], [], [], [])
end C12ex

open C12ex in
example : outcome (execList (cleanCfg 63) RS.init prog) =
    ([(10, g1 ++ p1, [2, 3, 4]), (11, g1 ++ g2 ++ p2, [2, 3, 5, 6]), (12, g1 ++ p2, [2, 3, 5, 7]), (13, p1, [])],
     [1], [], []) := by decide

open C12ex in
example : CleanProg CleanPath prog := by
  simp only [CleanProg, CleanStmt, prog, rd, g1, g2, p1, p2]; decide

open C12ex in
example : okCtrlList prog = true ∧
    ∀ r ∈ (denList (cleanCfg 63) RS.init.toScope prog).1, r.handlers.length < (cleanCfg 63).limit := by decide

/-- the hypotheses on the path functions are satisfiable: the driver's instance meets them -/
example : (∀ x, (cleanCfg 63).fmt x ≠ []) ∧ CleanFns (cleanCfg 63) CleanPath :=
  ⟨cleanFmt_ne, cleanFns 63⟩

/-! ### slices -/

/-- Slice level (backing arrays, capacities, ANY growth policy `pol`): run any program from any
    state that satisfies the separation invariant `Inv` (the fresh router does: `inv_init`, and
    every state reached by `hexecList` does again).  Then
    (1) what the slices show evolves exactly as the list-level interpreter `execList` says, so all
        list-level theorems (C12_denotation, …) hold for the real slices;
    (2) every route registered before is still registered and shows the SAME handler list — a
        registered route's handlers never change, although `Group`/`Use` append in place into
        backing arrays shared with saved slices of enclosing groups;
    (3) the invariant holds again.
    A panic at slice level is the same panic at list level. -/
theorem C12_no_alias (pol : Pol) (cfg : Cfg) (st : HS) (hi : Inv st) (prog : List Stmt) :
    (∀ st', hexecList pol cfg st prog = .ok st' →
      execList cfg st.abs prog = .ok st'.abs ∧
      (∀ r, r ∈ st.routes → r ∈ st'.routes ∧ read st'.heap r.handlers = read st.heap r.handlers) ∧
      Inv st') ∧
    (∀ e, hexecList pol cfg st prog = .error e → execList cfg st.abs prog = .error e) := by
  have h := hexecList_sim pol cfg st hi prog
  refine ⟨fun st' hr => ?_, h.2⟩
  obtain ⟨hs, hl⟩ := h.1 st' hr
  refine ⟨hl, fun r hmem => ⟨?_, (step_read_route hi hs hmem).1⟩, hs.inv⟩
  obtain ⟨new, hnew, _⟩ := hs.routes
  rw [hnew]; exact List.mem_append_left _ hmem

namespace C12heap
def g0 : Bytes := [47, 111]       -- "/o"
def gx : Bytes := [47, 120]       -- "/x"
def gy : Bytes := [47, 121]       -- "/y"
def pr : Bytes := [47, 114]       -- "/r"
def rd (id : Nat) : RouteDef :=
  { id := id, main := id, name := [], methods := [[71, 69, 84]], path := pr, pre := [], post := [[]] }
/-- Group("/o", { Group("/x", {GET /r}, 2); Group("/y", {GET /r}, 3) }, 1) -/
def prog : List Stmt :=
  [.group g0 [1] [.group gx [2] [.route (rd 10)], .group gy [3] [.route (rd 11)]]]
/-- every allocation gets two spare cells -/
def pol : Pol := ⟨fun _ => 2, 0⟩
def view (r : Except Err HS) : List H × List (List H) :=
  match r with
  | .ok st => (cells st.heap 0, st.routes.map fun r => read st.heap r.handlers)
  | .error _ => ([], [])
end C12heap

open C12heap in
/-- non-vacuity: the two sibling groups both appended IN PLACE into the array of the outer group's
    argument (its cell 1 first held 2, now holds 3), and the first route still shows [1, 2] -/
example : view (hexecList pol (cleanCfg 63) HS.init prog) = ([1, 3, 0], [[1, 2], [1, 3]]) := by decide

example : Inv HS.init := inv_init


end Rux
