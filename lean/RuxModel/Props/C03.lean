import RuxModel.Lemmas.Conc
import RuxModel.Generated.Facts
/-
  C03 — Concurrent requests are independent of each other and race-free.

  Statement (properties.jsonl): once registration is finished, every request executes exactly the handler
  chain, sees exactly the parameters and produces exactly the response it would produce if it were the
  only request, whatever the interleaving.  No execution contains a data race inside the router, its route
  cache or its pooled contexts.

  Model: Model/Conc.lean (interleaving semantics: a schedule is any list of request ids, every occurrence
  is one atomic step of that request).  Which theorem covers which clause:

  * "whatever the interleaving ... as if it were the only request"
      C03_schedule_independent   the abstract lemma: steps preserve a shared invariant and act on the
                                 (normalised) local state independently of the shared state  ==>  every
                                 schedule gives every request its solo state.
      C03_independent            its instance for the rux step function: for every configuration (any pure
                                 tables, handler programs, options, cache capacity, pool policy), every
                                 shared state with a coherent cache, every number of in-flight requests in
                                 any local states, EVERY schedule and every request i: the state of i equals
                                 its state when only i's steps are run (up to `norm`).
      C03_independent_fresh      the same from the state registration leaves behind (no hypothesis left).
      C03_norm_observables       `norm` hides nothing observable: equal normal forms have the same chain,
                                 cursor, params, data, trace, response, stack and finality.
      C03_independent_done       once the solo run has finished after k steps, every schedule that gives the
                                 request at least k steps leaves it in EXACTLY that final state.
      C03_advance_is_steps       the macro step of the harness scheduler (`adv`) is a sequence of atomic steps.
  * "executes exactly the handler chain / sees exactly the parameters / produces exactly the response"
      are components of the local state (ctx.chain, trace with enter events, ctx.params and the params
      events, outStatus/body/allowHdr), so they are covered by the four theorems above.
  * "no data race inside the router, its route cache or its pooled contexts" (the modelled part)
      C03_no_shared_write        no step changes a registered array cell or a Router/Route field, and every
                                 declared write access is to the cache or the pool.
      C03_access_sound           the declared write sets are sound: a step that does not declare a cache
                                 (pool) write leaves the cache (pool) as it is.
      C03_no_conflicting_access  two steps of two requests never touch the same location with a write
                                 unless the location is the cache (serialised by its mutex, see
                                 C03_cache_lock_modes) or the pool (sync.Pool).
      C03_shared_invariant       after every schedule: nothing registered has changed, the cache is coherent.
      C03_pool_context_reset     whatever context the pool hands out, `Init` leaves no residue.
      C03_request_path_writes_nothing_shared, C03_cache_lock_modes
                                 facts regenerated from the Go AST on every run: the per-request functions
                                 contain no assignment to / append on / delete from a Router or Route field;
                                 every cachedRoutes method that mutates takes the write lock, every method
                                 takes a lock, Has goes through Get.

  NOT proved here (see level_note): the Go memory model itself, the internals of container/list, map,
  sync.Pool, sync.RWMutex (trusted: mutual exclusion / exclusive hand-out), races inside user handlers,
  that the real tables are the pure functions `stable`/`dyn` (C01/C07 + the differential engine), panics
  (C09).  The race-detector stress run of the thorough tier is supporting runtime evidence for the first
  two items.
-/
namespace Rux
open Conc

/-! ### independence -/

/-- the abstract schedule lemma -/
theorem C03_schedule_independent {C L : Type} (S : Sys C L) (n : Nat) (sch : List (Fin n))
    (c : C) (ls : Fin n → L) (hc : S.Coh c) (hl : ∀ i, S.LInv (ls i)) :
    S.Coh (S.run n sch (c, ls)).1 ∧ (∀ i, S.LInv ((S.run n sch (c, ls)).2 i)) ∧
    ∀ i, S.norm ((S.run n sch (c, ls)).2 i) = iter S.stepPure (count i sch) (S.norm (ls i)) :=
  S.run_independent n sch c ls hc hl

/-- every request's state under every schedule is its solo state -/
theorem C03_independent (cfg : Cfg) (sh : Shared) (hc : Cache.Coherent cfg.dyn sh.cache)
    (n : Nat) (ls : Fin n → Local) (hl : ∀ i, LInv cfg (ls i)) (sch : List (Fin n)) (i : Fin n) :
    norm ((run cfg n sch (sh, ls)).2 i) = norm ((run cfg n (sch.filter (· = i)) (sh, ls)).2 i) := by
  have hcoh : (ruxSys cfg sh.static).Coh sh := ⟨rfl, hc⟩
  have h1 := (C03_schedule_independent (ruxSys cfg sh.static) n sch sh ls hcoh hl).2.2 i
  have h2 := (C03_schedule_independent (ruxSys cfg sh.static) n (sch.filter (· = i)) sh ls hcoh hl).2.2 i
  rw [ruxSys_run] at h1 h2
  rw [count_filter_self] at h2
  exact h1.trans h2.symm

/-- the same, starting from what registration leaves behind: empty cache, empty pool, new requests -/
theorem C03_independent_fresh (cfg : Cfg) (s0 : Static) (cap : Nat) (n : Nat)
    (reqs : Fin n → Bytes × Bytes) (sch : List (Fin n)) (i : Fin n) :
    norm ((run cfg n sch (⟨s0, Cache.empty cap, []⟩, fun j => Local.fresh (reqs j).1 (reqs j).2)).2 i) =
    norm ((run cfg n (sch.filter (· = i))
            (⟨s0, Cache.empty cap, []⟩, fun j => Local.fresh (reqs j).1 (reqs j).2)).2 i) := by
  apply C03_independent
  · exact Cache.empty_coherent cfg.dyn cap
  · intro j; exact linv_of_not_got _ _ (by simp [Local.fresh])

/-- `norm` only forgets the pending answer of the cache: everything observable is kept -/
theorem C03_norm_observables (l₁ l₂ : Local) (h : norm l₁ = norm l₂) :
    l₁.ctx = l₂.ctx ∧ l₁.trace = l₂.trace ∧ l₁.outStatus = l₂.outStatus ∧ l₁.body = l₂.body ∧
    l₁.allowHdr = l₂.allowHdr ∧ l₁.stack = l₂.stack ∧ l₁.isFinal = l₂.isFinal := by
  have hf : l₁.isFinal = l₂.isFinal := by rw [← norm_isFinal l₁, ← norm_isFinal l₂, h]
  have key : ∀ l : Local, (norm l).ctx = l.ctx ∧ (norm l).trace = l.trace ∧ (norm l).outStatus = l.outStatus ∧
      (norm l).body = l.body ∧ (norm l).allowHdr = l.allowHdr ∧ (norm l).stack = l.stack := by
    intro l; unfold norm; split <;> simp
  obtain ⟨a1, a2, a3, a4, a5, a6⟩ := key l₁
  obtain ⟨b1, b2, b3, b4, b5, b6⟩ := key l₂
  rw [h] at a1 a2 a3 a4 a5 a6
  exact ⟨a1.symm.trans b1, a2.symm.trans b2, a3.symm.trans b3, a4.symm.trans b4, a5.symm.trans b5,
    a6.symm.trans b6, hf⟩

/-- a request that finishes within k steps when alone finishes in exactly the same final state under
    every schedule that gives it at least k steps -/
theorem C03_independent_done (cfg : Cfg) (sh : Shared) (hc : Cache.Coherent cfg.dyn sh.cache)
    (n : Nat) (ls : Fin n → Local) (hl : ∀ i, LInv cfg (ls i)) (sch : List (Fin n)) (i : Fin n) (k : Nat)
    (hsolo : ((run cfg n (List.replicate k i) (sh, ls)).2 i).isFinal = true) (hk : k ≤ count i sch) :
    (run cfg n sch (sh, ls)).2 i = (run cfg n (List.replicate k i) (sh, ls)).2 i := by
  have hcoh : (ruxSys cfg sh.static).Coh sh := ⟨rfl, hc⟩
  have h1 := (C03_schedule_independent (ruxSys cfg sh.static) n sch sh ls hcoh hl).2.2 i
  have h2 := (C03_schedule_independent (ruxSys cfg sh.static) n (List.replicate k i) sh ls hcoh hl).2.2 i
  rw [ruxSys_run] at h1 h2
  have hcnt : count i (List.replicate k i) = k := by simp [count]
  rw [hcnt] at h2
  simp only [ruxSys] at h1 h2
  obtain ⟨d, hd⟩ := Nat.exists_eq_add_of_le hk
  have hfin : (norm ((run cfg n (List.replicate k i) (sh, ls)).2 i)).isFinal = true := by
    rw [norm_isFinal]; exact hsolo
  rw [hd, iter_add, ← h2, iter_fixed _ _ (stepPure_final cfg sh.static _ hfin)] at h1
  have hfin' : ((run cfg n sch (sh, ls)).2 i).isFinal = true := by
    rw [← norm_isFinal, h1]; exact hfin
  rw [norm_of_final _ hfin', norm_of_final _ hsolo] at h1
  exact h1

/-- what the deterministic scheduler of the harness does in one `adv` (release a request until its next park or
    its end) is a finite sequence of atomic steps of that request: the schedules the correspondence engine
    can realise are schedules of the theorem above -/
theorem C03_advance_is_steps (cfg : Cfg) (fuel : Nat) (sh : Shared) (l : Local) :
    ∃ k, advance cfg fuel sh l = stepN cfg k (sh, l) :=
  advance_steps cfg fuel sh l

/-! ### the shared state -/

/-- after every schedule nothing registered has changed and the cache agrees with the pure tables -/
theorem C03_shared_invariant (cfg : Cfg) (sh : Shared) (hc : Cache.Coherent cfg.dyn sh.cache)
    (n : Nat) (ls : Fin n → Local) (hl : ∀ i, LInv cfg (ls i)) (sch : List (Fin n)) :
    (run cfg n sch (sh, ls)).1.static = sh.static ∧
    Cache.Coherent cfg.dyn (run cfg n sch (sh, ls)).1.cache := by
  have hcoh : (ruxSys cfg sh.static).Coh sh := ⟨rfl, hc⟩
  have h1 := (C03_schedule_independent (ruxSys cfg sh.static) n sch sh ls hcoh hl).1
  rw [ruxSys_run] at h1
  exact h1

/-- no step writes a cell of a registered array or a Router/Route field -/
theorem C03_no_shared_write (cfg : Cfg) (sh : Shared) (l : Local) :
    (step cfg sh l).1.static = sh.static ∧
    ∀ a ∈ accesses cfg sh l, a.write = true → a.loc = .cache ∨ a.loc = .pool := by
  constructor
  · unfold step
    split
    · rfl
    · split
      · rfl
      · split <;> rfl
    · rfl
    · split
      · split <;> rfl
      · rfl
    · rfl
    · split <;> rfl
    · rfl
    · rfl
  · intro a ha hw
    unfold accesses at ha
    split at ha
    · simp [wr] at ha; subst ha; right; rfl
    · split at ha
      · simp [rd] at ha; subst ha; simp at hw
      · split at ha
        · simp [rd, wr] at ha
          rcases ha with rfl | rfl
          · simp at hw
          · left; rfl
        · simp [rd] at ha; subst ha; simp at hw
    · simp at ha
    · split at ha
      · split at ha
        · simp [rd, wr] at ha
          rcases ha with rfl | rfl | rfl
          · simp at hw
          · simp at hw
          · left; rfl
        · simp [rd] at ha
          rcases ha with rfl | rfl <;> simp at hw
      · simp [rd] at ha; subst ha; simp at hw
    · simp only [List.cons_append, List.mem_cons, List.mem_append] at ha
      rcases ha with rfl | ha | ha
      · simp [rd] at hw
      · rw [sliceCells_read _ _ ha] at hw; simp at hw
      · split at ha
        · split at ha
          · simp only [List.mem_cons] at ha
            rcases ha with rfl | ha
            · simp [rd] at hw
            · rw [sliceCells_read _ _ ha] at hw; simp at hw
          · simp at ha
        · simp only [List.mem_cons] at ha
          rcases ha with rfl | ha
          · simp [rd] at hw
          · rw [sliceCells_read _ _ ha] at hw; simp at hw
        · simp only [List.mem_cons] at ha
          rcases ha with rfl | ha
          · simp [rd] at hw
          · rw [sliceCells_read _ _ ha] at hw; simp at hw
    · split at ha
      · simp [wr] at ha; subst ha; right; rfl
      · simp at ha
    · simp at ha
    · simp at ha

/-- the declared write sets are sound for the two mutable shared objects -/
theorem C03_access_sound (cfg : Cfg) (sh : Shared) (l : Local) :
    (wr .cache ∉ accesses cfg sh l → (step cfg sh l).1.cache = sh.cache) ∧
    (wr .pool ∉ accesses cfg sh l → (step cfg sh l).1.pool = sh.pool) := by
  constructor
  · intro h
    unfold accesses at h
    unfold step
    cases hp : l.pc with
    | fresh => rfl
    | probe st =>
      simp only [hp] at h ⊢
      cases hs : cfg.stable (keyOf l st) with
      | some r => rfl
      | none =>
        simp only [hs] at h ⊢
        cases hcache : cfg.caching with
        | true => simp [hcache, wr, rd] at h
        | false => simp
    | got st res =>
      cases res with
      | some v => rfl
      | none =>
        simp only [hp] at h ⊢
        cases hd : cfg.dyn (keyOf l st) with
        | none => rfl
        | some v =>
          simp only [hd] at h ⊢
          cases hcache : cfg.caching with
          | true => simp [hcache, wr, rd] at h
          | false => simp
    | assemble sel => rfl
    | running =>
      simp only
      split <;> rfl
    | done => rfl
    | crashed => rfl
  · intro h
    unfold accesses at h
    unfold step
    cases hp : l.pc with
    | fresh => simp [hp] at h
    | probe st =>
      simp only
      split
      · rfl
      · split <;> rfl
    | got st res =>
      cases res with
      | some v => rfl
      | none =>
        simp only
        split
        · split <;> rfl
        · rfl
    | assemble sel => rfl
    | running =>
      simp only [hp] at h ⊢
      cases hst : l.stack with
      | nil => simp [hst] at h
      | cons a t => rfl
    | done => rfl
    | crashed => rfl

/-- steps of two requests conflict only on the objects that serialise their own accesses -/
theorem C03_no_conflicting_access (cfg : Cfg) (sh sh' : Shared) (l₁ l₂ : Local) (a₁ a₂ : Access)
    (h₁ : a₁ ∈ accesses cfg sh l₁) (h₂ : a₂ ∈ accesses cfg sh' l₂) (hloc : a₁.loc = a₂.loc)
    (hw : a₁.write = true ∨ a₂.write = true) : a₁.loc = .cache ∨ a₁.loc = .pool := by
  rcases hw with hw | hw
  · exact (C03_no_shared_write cfg sh l₁).2 a₁ h₁ hw
  · rw [hloc]; exact (C03_no_shared_write cfg sh' l₂).2 a₂ h₂ hw

/-- whatever context `sync.Pool` hands out (any earlier request's leftovers), `Init` resets every field -/
theorem C03_pool_context_reset (cfg : Cfg) (pool : List Ctx) : (takeCtx cfg pool).init = Ctx.pristine :=
  init_pristine _

/-! ### facts regenerated from the Go source -/

/-- ServeHTTP, handleHTTPRequest, QuickMatch, match, cacheDynamicRoute, findAllowedMethods, matchRegex
    contain no assignment to / append on / delete from a field of the Router or of a shared Route -/
theorem C03_request_path_writes_nothing_shared : Facts.requestPathWrites = [] := by decide

/-- every `cachedRoutes` method that mutates the list or the index takes the write lock first; every method
    takes a lock (or goes through one that does); `Get` and `Set` — the two the request path calls — hold the
    write lock; `Has` goes through `Get` -/
theorem C03_cache_lock_modes :
    (Facts.cacheMethods.all (fun e => !e.2.2 || e.2.1 == "Lock")) = true ∧
    (Facts.cacheMethods.all (fun e => e.2.1 == "Lock" || e.2.1 == "RLock" || e.2.1 == "via:Get")) = true ∧
    ("Get", "Lock", true) ∈ Facts.cacheMethods ∧ ("Set", "Lock", true) ∈ Facts.cacheMethods ∧
    ("Has", "via:Get", false) ∈ Facts.cacheMethods := by decide

/-! ### non-vacuity -/

/-- "GET/b", "GET/c", "GET/u/7", "GET/u/8" -/
def demoKeyB : Bytes := [71, 69, 84, 47, 98]
def demoKeyC : Bytes := [71, 69, 84, 47, 99]
def demoKeyU7 : Bytes := [71, 69, 84, 47, 117, 47, 55]
def demoKeyU8 : Bytes := [71, 69, 84, 47, 117, 47, 56]

/-- three `Use` calls left the global slice with len 3, cap 4 (array 0); routes /b, /c (static) and
    /u/{id} (dynamic, one route middleware in array 1); cache on with capacity 1 -/
def demoStatic : Static :=
  { heap := [[.user 1, .user 2, .user 3, .nil], [.user 4]],
    glob := ⟨0, 3, 4⟩, noRoute := ⟨2, 0, 0⟩, noAllowed := ⟨2, 0, 0⟩,
    routes := [⟨[], ⟨2, 0, 0⟩, .user 10⟩, ⟨[], ⟨2, 0, 0⟩, .user 11⟩, ⟨[117], ⟨1, 1, 1⟩, .user 12⟩] }

def demoCfg : Cfg :=
  { stable := fun k => if k = demoKeyB then some 0 else if k = demoKeyC then some 1 else none,
    dyn := fun k => if k = demoKeyU7 then some (2, [([105, 100], [55])])
                    else if k = demoKeyU8 then some (2, [([105, 100], [56])]) else none,
    prog := fun id =>
      if id = 1 then [.next] else if id = 2 then [.next] else if id = 3 then [.park, .next, .emit 3]
      else if id = 4 then [.setParam [105, 100] [0], .next]
      else if id = 10 then [.write [66]] else if id = 11 then [.write [67]]
      else if id = 12 then [.seeParams, .write [85]] else [],
    caching := true, fallback := false, mna := false, methods := [], pick := fun _ => 0 }

def demoShared : Shared := ⟨demoStatic, Cache.empty 1, []⟩

def demoReqs : Fin 3 → Local
  | 0 => Local.fresh mGET [47, 98]          -- GET /b
  | 1 => Local.fresh mGET [47, 99]          -- GET /c
  | 2 => Local.fresh mGET [47, 117, 47, 55] -- GET /u/7

/-- an interleaved schedule long enough for all three requests -/
def demoSched : List (Fin 3) :=
  List.replicate 9 0 ++ (List.replicate 30 [1, 2]).flatten ++ (List.replicate 20 [0, 1, 2]).flatten

set_option maxRecDepth 20000

-- /b is parked in the third global middleware while /c is assembled and served (the F10a schedule):
-- each request still answers with its own handler, and all three finish
example : ((run demoCfg 3 demoSched (demoShared, demoReqs)).2 0).body = [66] ∧
    ((run demoCfg 3 demoSched (demoShared, demoReqs)).2 1).body = [67] ∧
    ((run demoCfg 3 demoSched (demoShared, demoReqs)).2 2).body = [85] ∧
    ((run demoCfg 3 demoSched (demoShared, demoReqs)).2 0).isFinal = true ∧
    ((run demoCfg 3 demoSched (demoShared, demoReqs)).2 2).isFinal = true := by decide

-- request 2 saw the parameter as rewritten by its own route middleware, its chain is global ++ route ++ main
example : ((run demoCfg 3 demoSched (demoShared, demoReqs)).2 2).trace =
      [.enter 1, .enter 2, .enter 3, .enter 4, .enter 12, .params (some [([105, 100], [0])]), .tag 3] ∧
    ((run demoCfg 3 demoSched (demoShared, demoReqs)).2 2).ctx.chain =
      [.user 1, .user 2, .user 3, .user 4, .user 12] := by decide

-- the dynamic route went into the cache (with the matched value, not the one the handler wrote),
-- three contexts went back into the pool
example : (run demoCfg 3 demoSched (demoShared, demoReqs)).1.cache.items = [(demoKeyU7, (2, [([105, 100], [55])]))] ∧
    (run demoCfg 3 demoSched (demoShared, demoReqs)).1.pool.length = 3 := by decide

-- the hypotheses of C03_independent hold for this configuration
example : Cache.Coherent demoCfg.dyn demoShared.cache := Cache.empty_coherent _ _
example : ∀ i, LInv demoCfg (demoReqs i) := by
  intro i st v h
  match i with
  | 0 => simp [demoReqs, Local.fresh] at h
  | 1 => simp [demoReqs, Local.fresh] at h
  | 2 => simp [demoReqs, Local.fresh] at h

-- a state in which the cache answer differs between schedules: after [2,2] alone request 2 holds a MISS,
-- after another request for the same key ran first it holds a HIT; `norm` identifies exactly these two
def demoReqs2 : Fin 2 → Local
  | 0 => Local.fresh mGET [47, 117, 47, 55]
  | 1 => Local.fresh mGET [47, 117, 47, 55]

example : ((run demoCfg 2 [0, 0] (demoShared, demoReqs2)).2 0).pc = .got .primary none ∧
    ((run demoCfg 2 [1, 1, 1, 0, 0] (demoShared, demoReqs2)).2 0).pc =
      .got .primary (some (2, [([105, 100], [55])])) := by decide

-- the slice model can express the defect F10a: the pre-fix code appended to the shared global slice; with
-- spare capacity the second request overwrites the cell the first request's chain ends in
example :
    let r1 := appendInPlace demoStatic.heap demoStatic.glob [.user 10]
    let r2 := appendInPlace r1.1 demoStatic.glob [.user 11]
    readSlice r1.1 r1.2 = [.user 1, .user 2, .user 3, .user 10] ∧
    readSlice r2.1 r1.2 = [.user 1, .user 2, .user 3, .user 11] ∧
    r1.1 ≠ demoStatic.heap := by decide

-- whereas the step of the model (the current code) leaves the heap alone in the same situation
example : (step demoCfg demoShared { (Local.fresh mGET [47, 98]) with pc := .assemble (.route 0) }).1.static.heap =
    demoStatic.heap := by decide

end Rux
