import RuxModel.Generated.Code
/-
  C13 / C02 on the code GENERATED from route.go `Route.matchRegex` / `Route.match` (Generated/Code.lean, regenerated
  by go/go2lean on every check run).  The compiled regexp is a parameter: `findAll path` is what
  `FindAllStringSubmatch(path, -1)` answers (no row = no match; a row = the whole match followed by one entry per
  capturing group).  The indexing `r.matches_[i]` is explicit (`Except Panic`), so "cannot panic" is a theorem.
-/
namespace Rux
open GoRt

/-- the loop `for i, val := range vs[1:] { ps[r.matches_[i]] = val }`, started at index `k` -/
theorem matchRegex_loop (names : List Bytes)
    (body : Int × Bytes → Option KV → Except Panic (ForInStep (Option KV)))
    (hbody : ∀ p s, body p s = (GoRt.elemAt names p.1).map (fun v => ForInStep.yield (some (GoRt.kvSet (s.getD []) v p.2)))) :
    ∀ (caps : List Bytes) (k : Nat) (acc : KV), k + caps.length ≤ names.length →
    forIn (GoRt.enumFrom (k : Int) caps) (some acc : Option KV) body =
    .ok (some (((names.drop k).zip caps).foldl (fun (m : KV) (p : Bytes × Bytes) => GoRt.kvSet m p.1 p.2) acc)) := by
  intro caps
  induction caps with
  | nil => intro k acc _; simp [GoRt.enumFrom, pure, Except.pure]
  | cons c t ih =>
    intro k acc h
    simp only [List.length_cons] at h
    have hk : k < names.length := by omega
    have hget : GoRt.elemAt names (k : Int) = .ok names[k] := by
      have : ¬ ((k : Int) < 0) := by omega
      simp [GoRt.elemAt, this, List.getElem?_eq_getElem hk]
    have hdrop : names.drop k = names[k] :: names.drop (k + 1) := by
      rw [List.drop_eq_getElem_cons hk]
    simp only [GoRt.enumFrom, List.forIn_cons, hbody, hget, Except.map, bind, Except.bind, Option.getD_some]
    have hcast : ((k : Int) + 1) = ((k + 1 : Nat) : Int) := by omega
    rw [hcast, ih (k + 1) (GoRt.kvSet acc names[k] c) (by omega)]
    conv => rhs; rw [hdrop]
    simp only [List.zip_cons_cons, List.foldl_cons]

theorem matchRegex_loop0 (names : List Bytes)
    (body : Int × Bytes → Option KV → Except Panic (ForInStep (Option KV)))
    (hbody : ∀ p s, body p s = (GoRt.elemAt names p.1).map (fun v => ForInStep.yield (some (GoRt.kvSet (s.getD []) v p.2))))
    (caps : List Bytes) (h : caps.length ≤ names.length) :
    forIn (GoRt.enumFrom (0 : Int) caps) (some [] : Option KV) body =
    .ok (some ((names.zip caps).foldl (fun (m : KV) (p : Bytes × Bytes) => GoRt.kvSet m p.1 p.2) [])) := by
  have := matchRegex_loop names body hbody caps 0 [] (by simpa using h)
  simpa using this

/-- an accepted route never panics at lookup: when the regexp answers with rows of at most (number of variable
    names + 1) entries — which `goodRegexGroups` guarantees at registration (`NumSubexp() == len(matches)`) — the
    generated `matchRegex` returns normally; and its parameters are the variable names bound to the captures -/
theorem C13_gen_matchRegex (r : Gen.Route) (path : Bytes) (findAll : Bytes → List (List Bytes)) :
    (findAll path = [] → Gen.Route.matchRegex r path findAll = .ok (none, false)) ∧
    (∀ full caps rest, findAll path = (full :: caps) :: rest → caps.length ≤ r.matches_.length →
      Gen.Route.matchRegex r path findAll =
        .ok (some ((r.matches_.zip caps).foldl (fun m p => GoRt.kvSet m p.1 p.2) []), true)) := by
  constructor
  · intro h
    simp [Gen.Route.matchRegex, h, bind, Except.bind, pure, Except.pure]
  · intro full caps rest h hl
    unfold Gen.Route.matchRegex
    have hne : ((((full :: caps) :: rest).length : Int) == 0) = false := by simp; omega
    have hslice : GoRt.sliceList (full :: caps) 1 ((full :: caps).length : Int) = .ok caps := by
      simp only [GoRt.sliceList, List.length_cons]
      have : (0 : Int) ≤ 1 ∧ (1 : Int) ≤ ((caps.length + 1 : Nat) : Int) ∧ ((caps.length + 1 : Nat) : Int) ≤ ((caps.length + 1 : Nat) : Int) := by omega
      rw [if_pos this]; simp
    simp only [h, hne, Bool.false_eq_true, if_false, bind, Except.bind, pure, Except.pure, GoRt.listAt,
      show ¬ ((0 : Int) < 0) from by omega, List.getElem?_cons_zero, Int.toNat_zero, hslice, GoRt.enum]
    rw [matchRegex_loop0 r.matches_ _ (by intro p s; cases GoRt.elemAt r.matches_ p.1 <;> rfl) caps hl]

/-- when the regexp answers with MORE groups than there are names the generated code panics (index out of range):
    the registration-time check `goodRegexGroups` is what excludes this (F5) -/
theorem C13_gen_matchRegex_needs_group_check (findAll : Bytes → List (List Bytes)) (path full c : Bytes)
    (h : findAll path = [[full, c]]) :
    Gen.Route.matchRegex { (default : Gen.Route) with matches_ := [] } path findAll = .error .index := by
  simp [Gen.Route.matchRegex, h, bind, Except.bind, pure, Except.pure, GoRt.listAt, GoRt.sliceList, GoRt.enum,
    GoRt.enumFrom, GoRt.elemAt]

/-- `Route.match`: the literal-prefix test comes first; a route whose `start` is not a prefix of the path does not
    match, whatever its regexp says -/
theorem C01_gen_route_match_prefix (r : Gen.Route) (path : Bytes) (findAll : Bytes → List (List Bytes))
    (hs : r.start ≠ []) (hp : GoRt.index path r.start ≠ 0) :
    Gen.Route.match_ r path findAll = .ok (none, false) := by
  have h1 : (r.start != ([] : Bytes)) = true := by simp [hs]
  have h2 : (GoRt.index path r.start != 0) = true := by simp [hp]
  simp [Gen.Route.match_, h1, h2, pure, Except.pure]

end Rux
