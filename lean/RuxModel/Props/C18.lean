import RuxModel.Lemmas.Bind
/-
  C18 — Binding picks its source from the request and round-trips data.

  Property theorems only (model: Model/Bind.lean, helper lemmas: Lemmas/Bind.lean).
  Clauses of the statement and the theorems that cover them:

  (a) "Automatic binding selects its source solely from the request: the query string for methods without a
      body (anything but POST, PUT, PATCH), otherwise url-encoded form, multipart form, JSON or XML according
      to the Content-Type, and an error for any other type."
        `C18_source`                 the decision table of `binding.Auto`, for ALL method byte strings and ALL
                                     Content-Type byte strings (substring tests on the raw header, in order)
        `C18_source_by_media_type`   for a header `mt ++ params` whose parameter part starts with `;`/blank and
                                     contains none of the four markers, the source depends on `mt` alone
        `C18_source_lowercase_types` the five documented lower-case media types, with any such parameters
        examples                     the EXCLUDED headers are real: `multipart/mixed; boundary=a/json` is bound
                                     as JSON, `text/plain; x=/xml` as XML, `Application/JSON` is unsupported
        `C18_auto_ok_iff`            a successful `Auto` is exactly: the selected source was read without error
                                     (form: `r.PostForm`, i.e. the body only; query: URL query, errors dropped),
                                     its decoder succeeded, and the validator (if any) accepted; an unsupported
                                     type never succeeds
  (b) "a successful bind implies that the struct passed validation whenever a validator is enabled"
        `C18_validated`              every entry point (Auto, Form, Query, Header, JSON, XML binders — the
                                     `Context` shortcuts are these), every decoder path incl. empty input
        `C18_validator_off`          with `DisableValidator()` a bind succeeds iff reading+decoding succeeded
  (c) "malformed input yields an error"
        `C18_malformed_is_error`     whenever reading the selected source or its decoder fails, `Auto` fails
                                     (also part of `C18_auto_ok_iff`); a malformed URL query fails a form bind
  (d) "encoding … and binding it back yields an equal value" — the part that is rux + net/url:
        `C18_query_roundtrip`        `QueryUnescape (QueryEscape s) = s` for all byte strings;
                                     `ParseQuery` of encoded pairs returns exactly the pairs, no error;
                                     `ParseQuery (v.Encode())` = `v` as a map (key order, no empty entries)
        `C18_form_values_roundtrip`, `C18_query_values_roundtrip`
                                     the `url.Values` handed to the form/query decoder by `Auto` is exactly the
                                     canonical form of the `url.Values` that was encoded into the body / URL
        `C18_codec_roundtrip`        IF a codec round-trips a value and the validator accepts it, `Auto` on a
                                     JSON / XML request carrying its encoding returns exactly that value

  NOT proved (level "proof, partial"): `formam`, `encoding/json`, `encoding/xml`, `gookit/validate`,
  `mime.ParseMediaType` and `mime/multipart` are PARAMETERS of the model.  That their decoders invert their
  encoders on the representative struct types, and that they return errors instead of panicking on arbitrary
  bytes ("never a panic"), is only SAMPLED by the `bind` engine (go/harness/engine_bind.go) — the model is
  total by construction, so it says nothing about panics inside third-party code.
-/
namespace Rux
open Rux.Bind
set_option linter.unusedSectionVars false
variable {Val ε : Type}

/-! ### (a) source selection -/

/-- the decision table of `binding.Auto`, for every method string and every Content-Type string -/
theorem C18_source (method ctype : Bytes) :
    (¬ (method = mPOST ∨ method = mPUT ∨ method = mPATCH) → autoSource method ctype = .query) ∧
    ((method = mPOST ∨ method = mPUT ∨ method = mPATCH) →
      (markUrlenc <:+: ctype → autoSource method ctype = .form) ∧
      (¬ markUrlenc <:+: ctype → markFormData <:+: ctype → autoSource method ctype = .multipart) ∧
      (¬ markUrlenc <:+: ctype → ¬ markFormData <:+: ctype → markJson <:+: ctype →
        autoSource method ctype = .json) ∧
      (¬ markUrlenc <:+: ctype → ¬ markFormData <:+: ctype → ¬ markJson <:+: ctype → markXml <:+: ctype →
        autoSource method ctype = .xml) ∧
      (¬ markUrlenc <:+: ctype → ¬ markFormData <:+: ctype → ¬ markJson <:+: ctype → ¬ markXml <:+: ctype →
        autoSource method ctype = .unsupported)) := by
  simp only [← bodyMethod_iff, ← containsSub_iff, autoSource]
  refine ⟨fun h => by simp [h], fun h => ?_⟩
  simp only [h]
  refine ⟨fun h1 => by simp [h1], fun h1 h2 => by simp [h1, h2], fun h1 h2 h3 => by simp [h1, h2, h3],
    fun h1 h2 h3 h4 => by simp [h1, h2, h3, h4], fun h1 h2 h3 h4 => by simp [h1, h2, h3, h4]⟩

/-- parameters cannot change the source — PROVIDED the parameter part (`;…`, or blank then `;…`) contains
    none of the four markers `/x-www-form-urlencoded`, `/form-data`, `/json`, `/xml`.
    The proviso is necessary: see the examples below. -/
theorem C18_source_by_media_type (method mt params : Bytes)
    (hsep : ∀ c, params.head? = some c → c = 0x3B ∨ c = 0x20 ∨ c = 0x09)
    (hfree : ∀ mk ∈ markers, ¬ mk <:+: params) :
    autoSource method (mt ++ params) = autoSource method mt := by
  have key : ∀ mk ∈ markers, containsSub mk (mt ++ params) = containsSub mk mt := by
    intro mk hmk
    rw [Bool.eq_iff_iff, containsSub_iff, containsSub_iff]
    constructor
    · intro h
      cases params with
      | nil => simpa using h
      | cons c rest =>
        have hc : c ∉ mk := by
          have := hsep c rfl
          simp only [markers, List.mem_cons, List.not_mem_nil, or_false] at hmk
          rcases hmk with rfl | rfl | rfl | rfl <;> rcases this with rfl | rfl | rfl <;> decide
        rcases infix_append_cons hc h with h | h
        · exact h
        · exact absurd (h.trans (List.suffix_cons c rest).isInfix) (hfree mk hmk)
    · intro h; exact h.trans (List.prefix_append mt params).isInfix
  have k1 := key markUrlenc (by simp [markers])
  have k2 := key markFormData (by simp [markers])
  have k3 := key markJson (by simp [markers])
  have k4 := key markXml (by simp [markers])
  simp only [autoSource, k1, k2, k3, k4]

/-- the documented lower-case media types select the documented source, whatever marker-free parameters
    follow, for each of POST, PUT, PATCH; every other method string reads the query -/
theorem C18_source_lowercase_types (method params : Bytes)
    (hsep : ∀ c, params.head? = some c → c = 0x3B ∨ c = 0x20 ∨ c = 0x09)
    (hfree : ∀ mk ∈ markers, ¬ mk <:+: params) :
    let body := method = mPOST ∨ method = mPUT ∨ method = mPATCH
    (¬ body → ∀ ct, autoSource method ct = .query) ∧
    (body →
      autoSource method (mtUrlenc ++ params) = .form ∧
      autoSource method (mtMultipart ++ params) = .multipart ∧
      autoSource method (mtJson ++ params) = .json ∧
      autoSource method (mtXmlApp ++ params) = .xml ∧
      autoSource method (mtXmlText ++ params) = .xml ∧
      autoSource method (mtPlain ++ params) = .unsupported ∧
      autoSource method params = .unsupported) := by
  intro body
  refine ⟨fun h ct => (C18_source method ct).1 h, fun h => ?_⟩
  have hb : bodyMethod method = true := (bodyMethod_iff method).mpr h
  have hnil : autoSource method [] = .unsupported := by
    simp only [autoSource, hb]; decide
  have hp : autoSource method params = .unsupported := by
    have := C18_source_by_media_type method [] params hsep hfree
    simpa [hnil] using this
  refine ⟨?_, ?_, ?_, ?_, ?_, ?_, hp⟩ <;>
    (rw [C18_source_by_media_type method _ params hsep hfree]; simp only [autoSource, hb]; decide)

/-- the proviso of `C18_source_by_media_type` is satisfiable: an ordinary charset parameter -/
example : (∀ c, paramsCharset.head? = some c → c = 0x3B ∨ c = 0x20 ∨ c = 0x09) ∧
    (∀ mk ∈ markers, ¬ mk <:+: paramsCharset) := by
  constructor
  · intro c h; simp only [paramsCharset, List.head?_cons, Option.some.injEq] at h; exact Or.inl h.symm
  · intro mk hmk; rw [← containsSub_iff]
    simp only [markers, List.mem_cons, List.not_mem_nil, or_false] at hmk
    rcases hmk with rfl | rfl | rfl | rfl <;> decide

/-- … and necessary: `POST`, `multipart/mixed; boundary=a/json` is bound as JSON although `multipart/mixed`
    alone is unsupported (the substring test looks at the whole raw header) -/
example : autoSource mPOST (mtMixed ++ paramsBoundaryJson) = .json ∧ autoSource mPOST mtMixed = .unsupported := by
  decide

/-- `text/plain; x=/xml` → XML; upper case `Application/JSON` → unsupported; `post` (lower case) → query;
    a JSON type whose parameters mention `/x-www-form-urlencoded` → form (the earlier test wins) -/
example : autoSource mPOST (mtPlain ++ paramsSlashXml) = .xml ∧
    autoSource mPOST mtJsonUpper = .unsupported ∧
    autoSource methodPostLower mtJson = .query ∧
    autoSource mPUT (mtJson ++ paramsUrlencMarker) = .form := by
  decide

/-! ### (a)+(c) what a successful `Auto` means -/

/-- `Auto` succeeds with `v` exactly when the selected source was read without error, its decoder produced
    `v`, and the validator — if one is installed — accepted `v`.  (`AutoDecoded`, Lemmas/Bind.lean: query →
    `decodeValues query (r.URL.Query())`; form → `ParseForm` had no error and `decodeValues form r.PostForm`;
    multipart → `ParseMultipartForm` had no error and `decodeValues form r.PostForm`; json/xml → the body
    decoder; unsupported → never.) -/
theorem C18_auto_ok_iff (c : Codecs Val ε) (r : Request ε) (v : Val) :
    auto c r = .ok v ↔ AutoDecoded c r v ∧ Passes c v :=
  auto_ok_iff c r v

/-- malformed input is an error: if the selected source cannot be read or decoded to any value, `Auto`
    returns an error; in particular an unsupported type, and a form request whose body or URL query has a bad
    escape (`ParseForm` error), always fail -/
theorem C18_malformed_is_error (c : Codecs Val ε) (r : Request ε) :
    ((∀ v, ¬ AutoDecoded c r v) → ∃ e, auto c r = .error e) ∧
    (autoSource r.method r.ctype = .unsupported → ∃ e, auto c r = .error e) ∧
    (autoSource r.method r.ctype = .form → (parseQuery r.rawQuery).2 = true → ∃ e, auto c r = .error e) ∧
    (autoSource r.method r.ctype = .form → r.mclass = .urlenc → (parseQuery r.body).2 = true →
      ∃ e, auto c r = .error e) := by
  have main : (∀ v, ¬ AutoDecoded c r v) → ∃ e, auto c r = .error e := by
    intro h
    cases hr : auto c r with
    | error e => exact ⟨e, rfl⟩
    | ok v => exact absurd ((auto_ok_iff c r v).mp hr).1 (h v)
  refine ⟨main, fun hs => main ?_, fun hs hq => main ?_, fun hs hm hq => main ?_⟩
  · intro v hv; simp [AutoDecoded, hs] at hv
  · intro v hv
    simp only [AutoDecoded, hs] at hv
    have := hv.1
    simp only [parseForm, hq] at this
    split at this <;> simp at this
  · intro v hv
    simp only [AutoDecoded, hs] at hv
    have hb : bodyMethod r.method = true := by
      have := hs; simp only [autoSource] at this
      cases hbm : bodyMethod r.method with
      | true => rfl
      | false => simp [hbm] at this
    have := hv.1
    simp [parseForm, hb, hm, hq] at this

/-! ### (b) validation -/

/-- a successful bind through ANY entry point implies the installed validator accepted the value -/
theorem C18_validated (c : Codecs Val ε) (r : Request ε) (api : Api) (v : Val)
    (f : Val → Except ε Unit) (hval : c.validator = some f) (hok : bindWith c r api = .ok v) :
    f v = .ok () := by
  have : Passes c v := by
    cases api with
    | auto => exact ((auto_ok_iff c r v).mp hok).2
    | form =>
      simp only [bindWith, formBind] at hok
      split at hok
      · cases hok
      · exact ((decodeUrlValues_ok_iff ..).mp hok).2
    | query => exact ((decodeUrlValues_ok_iff ..).mp hok).2
    | header => exact ((decodeUrlValues_ok_iff ..).mp hok).2
    | json => exact ((bindJSON_ok_iff ..).mp hok).2
    | xml => exact ((bindXML_ok_iff ..).mp hok).2
  exact this f hval

/-- with the validator disabled nothing but reading and decoding decides the outcome -/
theorem C18_validator_off (c : Codecs Val ε) (r : Request ε) (v : Val) (hoff : c.validator = none) :
    (auto c r = .ok v ↔ AutoDecoded c r v) ∧
    (bindJSON c r.body = .ok v ↔ c.decodeJSON r.body = .ok v) ∧
    (bindXML c r.body = .ok v ↔ c.decodeXML r.body = .ok v) := by
  have hp : Passes c v := fun f hf => by rw [hoff] at hf; cases hf
  exact ⟨by rw [auto_ok_iff]; exact and_iff_left hp, by rw [bindJSON_ok_iff]; exact and_iff_left hp,
    by rw [bindXML_ok_iff]; exact and_iff_left hp⟩

/-- non-vacuity of `C18_validated`: a request with NO values at all (POST, urlencoded, empty body) whose
    decoder happily produces the zero value is rejected by a validator that requires a non-empty value, and
    the same request binds when the value is present -/
example :
    auto (demoCodecs true) (demoRequest mPOST mtUrlenc [] []) = .error (.codec ()) ∧
    auto (demoCodecs true) (demoRequest mPOST mtUrlenc [] sampleVB) = .ok [0x42] ∧
    auto (demoCodecs false) (demoRequest mPOST mtUrlenc [] []) = .ok [] :=
  ⟨rfl, rfl, rfl⟩

/-! ### (d) round trips -/

/-- the percent-encoding codec: (1) `QueryUnescape ∘ QueryEscape = id` on all byte strings;
    (2) `ParseQuery` of any list of encoded pairs gives back exactly those pairs, in order, without error;
    (3) `ParseQuery (v.Encode())` is `v` as a map, for every `url.Values` `v`: no error, and every key has
    exactly the values it had (keys come out in sorted order, keys without values disappear) -/
theorem C18_query_roundtrip :
    (∀ s, IsBytes s → unescape (escape s) = some s) ∧
    (∀ ps : List (Bytes × Bytes), (∀ p ∈ ps, IsBytes p.1 ∧ IsBytes p.2) →
      parsePairs (encodePairs ps) = (ps, false)) ∧
    (∀ m : Vals, (keysOf m).Nodup → ValsBytes m →
      parseQuery (encode m) = (canon m, false) ∧ ∀ k, valsGet (canon m) k = valsGet m k) :=
  ⟨unescape_escape, parsePairs_encodePairs,
    fun m hk hb => ⟨parseQuery_encode m hk hb, valsGet_canon m hk⟩⟩

/-- separators, `%`, `+`, blank, and non-ASCII bytes survive -/
example : escape sampleSeparators = sampleEscaped ∧ unescape sampleEscaped = some sampleSeparators := by
  decide

/-- url-encoded form: the decoder receives exactly the (canonical) values that were encoded into the body —
    whatever the URL query says, as long as it parses -/
theorem C18_form_values_roundtrip (c : Codecs Val ε) (r : Request ε) (m : Vals)
    (hk : (keysOf m).Nodup) (hb : ValsBytes m)
    (hsrc : autoSource r.method r.ctype = .form) (hmc : r.mclass = .urlenc)
    (hbody : r.body = encode m) (hq : (parseQuery r.rawQuery).2 = false) :
    auto c r = decodeUrlValues c .form (canon m) := by
  have hbm : bodyMethod r.method = true := by
    have := hsrc; simp only [autoSource] at this
    cases hbm : bodyMethod r.method with
    | true => rfl
    | false => simp [hbm] at this
  simp only [auto, hsrc, parseForm, hbm, hmc, hbody, parseQuery_encode m hk hb, hq, if_true]
  rfl

/-- query source: the decoder receives exactly the (canonical) values that were encoded into the URL -/
theorem C18_query_values_roundtrip (c : Codecs Val ε) (r : Request ε) (m : Vals)
    (hk : (keysOf m).Nodup) (hb : ValsBytes m)
    (hsrc : autoSource r.method r.ctype = .query) (hq : r.rawQuery = encode m) :
    auto c r = decodeUrlValues c .query (canon m) := by
  simp only [auto, hsrc, urlQuery, hq, parseQuery_encode m hk hb]

/-- JSON / XML: if the codec inverts its encoder on `v` and the validator (if any) accepts `v`, then `Auto`
    on a request that carries the encoding and is dispatched to that codec returns exactly `v` -/
theorem C18_codec_roundtrip (c : Codecs Val ε) (r : Request ε) (v : Val) (hp : Passes c v) :
    (autoSource r.method r.ctype = .json → c.decodeJSON r.body = .ok v → auto c r = .ok v) ∧
    (autoSource r.method r.ctype = .xml → c.decodeXML r.body = .ok v → auto c r = .ok v) := by
  constructor
  · intro hs hd; rw [auto_ok_iff]; exact ⟨by simp [AutoDecoded, hs, hd], hp⟩
  · intro hs hd; rw [auto_ok_iff]; exact ⟨by simp [AutoDecoded, hs, hd], hp⟩

/-- non-vacuity of the round-trip hypotheses: a two-key `url.Values` with separators in key and value, sent
    as a POST form, reaches the decoder in canonical form; the URL query (which names the same key) is NOT
    read -/
example :
    let m : Vals := [([0x76], [sampleValue]), ([0x71], [[0x31], [0x32]])]
    (keysOf m).Nodup ∧
    (parseForm (demoRequest mPOST mtUrlenc sampleVA (encode m))).postForm = canon m ∧
    canon m = [([0x71], [[0x31], [0x32]]), ([0x76], [sampleValue])] := by
  decide

end Rux
