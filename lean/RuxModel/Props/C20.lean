import RuxModel.Lemmas.Gates
/-
  C20 — Auth, method-override and http.Handler wrappers behave as gates.

  Clause of the statement                                              theorem(s)
  ------------------------------------------------------------------   ---------------------------------------
  HTTPBasicAuth lets the rest of the chain run  iff  credentials are    C20_basic_auth_decision (decision function),
    present and (no account list or the password matches)               C20_basic_auth (the handler inside the chain:
                                                                         downstream runs ↔ …, traces, for every rest
                                                                         of the chain and every chain position),
                                                                        C20_basic_auth_served (the same through the
                                                                         cursor loop `Context.Next`, chains ≤ 63)
  no credentials ⇒ 401 with a WWW-Authenticate challenge               C20_basic_auth_401, C20_basic_auth_response
  otherwise (unknown user / wrong password) ⇒ 403                       C20_basic_auth_403, C20_basic_auth_response
  nothing downstream runs after a denial                                C20_basic_auth (trace has no event of a later
                                                                         handler), C20_basic_auth_trace (the exact
                                                                         trace), C20_basic_auth_aborts (the handler
                                                                         never calls Next and aborts iff it denies),
                                                                        C20_basic_auth_served
  "well-formed Basic credentials" (the header parser)                   C20_parse_set_roundtrip (what SetBasicAuth
                                                                         produces is parsed back), C20_parse_rejects
                                                                         (no header, empty header, wrong scheme),
                                                                        C20_parse_scheme_case ("basic " in any case)
  override only for POST, only to PUT/PATCH/DELETE, from the form       C20_override (as in DESIGN.md §6),
    value else the header, upper-cased, original recorded;              C20_override_complete (it DOES rewrite when
    every other request untouched                                        it may), C20_override_non_post,
                                                                        C20_override_case_insensitive
  WrapHTTPHandlers [w₁…wₙ] r = w₁ (w₂ (… (wₙ r))), first listed is      C20_wrap_fold (any wrappers, any n ≥ 1),
    outermost: enter 1…n, leave n…1                                      C20_wrap_order (tracing wrappers),
                                                                        C20_wrap_override_inside (the override wrapper
                                                                         between tracing wrappers), C20_wrap_nil
                                                                         (n = 0: the code returns a nil handler —
                                                                         an observation, outside the quantifier)
  wrapped http.Handlers take part in the chain like native ones          C20_wrapped_in_chain, C20_wrapped_between_native,
                                                                        C20_wrapped_served

  NOT proved here (trusted / sampled by the `gates` engine, see checks.json):
  * that `net/http`'s `Request.BasicAuth`, `FormValue`, `Header.Get` and `strings.ToUpper` behave like
    `requestBasicAuth`, `formValue` and ASCII upper-casing (differentially tested on generated headers,
    bodies and query strings; the decision theorems take their results as parameters);
  * statements about arbitrary handlers IN FRONT of the gate (they may abort or answer before it runs):
    the gate theorems are about the chain segment `basicAuth :: rest` at an arbitrary position `i`; how
    such a segment is embedded in a longer chain is the recursion of `onion` (lemma `chain_runs_onion`
    ties it to the cursor loop for every chain of at most 63 handlers), the properties of that embedding
    are C04/C05's;
  * rux's `responseWriter` (C08): `respOf` is a small model of "lazy status, first write commits".
-/
namespace Rux
open Gates

/-! ## HTTPBasicAuth -/

theorem C20_basic_auth_decision (accounts : List (Bytes × Bytes)) (creds : Option (Bytes × Bytes)) :
    authDecide accounts creds = .pass ↔
      ∃ u p, creds = some (u, p) ∧ (accounts = [] ∨ lookup u accounts = some p) := by
  cases creds with
  | none => simp [authDecide]
  | some c =>
    obtain ⟨u, p⟩ := c
    cases accounts with
    | nil => simp [authDecide]
    | cons a t =>
      have hlen : (a :: t).length > 0 := by simp
      simp only [authDecide, hlen, if_true]
      constructor
      · intro h
        refine ⟨u, p, rfl, Or.inr ?_⟩
        split at h
        · rename_i sp heq
          split at h
          · cases h
          · rename_i hnot
            have : sp = p := Classical.not_not.mp hnot
            rw [heq, this]
        · cases h
      · rintro ⟨u', p', hc, h⟩
        cases hc
        rcases h with h | h
        · cases h
        · rw [h]; simp

theorem C20_basic_auth_401 (accounts : List (Bytes × Bytes)) (creds : Option (Bytes × Bytes)) :
    (creds = none → authDecide accounts creds = .deny401 challenge) ∧
    (∀ ch, authDecide accounts creds = .deny401 ch → creds = none ∧ ch = challenge) := by
  cases creds with
  | none =>
    refine ⟨fun _ => rfl, fun ch h => ⟨rfl, ?_⟩⟩
    simp only [authDecide] at h
    cases h; rfl
  | some c =>
    obtain ⟨u, p⟩ := c
    refine ⟨fun h => (by cases h), ?_⟩
    intro ch h
    simp only [authDecide] at h
    split at h
    · split at h
      · split at h <;> cases h
      · cases h
    · cases h

theorem C20_basic_auth_403 (accounts : List (Bytes × Bytes)) (creds : Option (Bytes × Bytes)) :
    authDecide accounts creds = .deny403 ↔
      ∃ u p, creds = some (u, p) ∧ accounts ≠ [] ∧ lookup u accounts ≠ some p := by
  cases creds with
  | none => simp [authDecide]
  | some c =>
    obtain ⟨u, p⟩ := c
    cases accounts with
    | nil => simp [authDecide]
    | cons a t =>
      have hlen : (a :: t).length > 0 := by simp
      simp only [authDecide, hlen, if_true]
      constructor
      · intro h
        refine ⟨u, p, rfl, by simp, ?_⟩
        split at h
        · rename_i sp heq
          split at h
          · rename_i hne
            rw [heq]; intro he; cases he; exact hne rfl
          · cases h
        · rename_i heq; rw [heq]; simp
      · rintro ⟨u', p', hc, _, h⟩
        cases hc
        split
        · rename_i sp heq
          split
          · rfl
          · rename_i hnot
            have : sp = p := Classical.not_not.mp hnot
            rw [heq, this] at h; exact absurd rfl h
        · rfl

theorem C20_basic_auth_aborts (accounts : List (Bytes × Bytes)) (creds : Option (Bytes × Bytes)) :
    Flat (basicAuthHandler accounts creds) ∧
    (hasAbort (basicAuthHandler accounts creds) = true ↔ authDecide accounts creds ≠ .pass) := by
  cases creds with
  | none => simp [basicAuthHandler, authDecide, Flat, hasAbort, abortWithStatusMsg]
  | some c =>
    obtain ⟨u, p⟩ := c
    simp only [basicAuthHandler, authDecide]
    split
    · split
      · split <;> simp [Flat, hasAbort, abortWithStatus]
      · simp [Flat, hasAbort, abortWithStatus]
    · simp [Flat, hasAbort]

theorem C20_basic_auth_trace (accounts : List (Bytes × Bytes)) (creds : Option (Bytes × Bytes))
    (rest : List Handler) (i : Nat) :
    onion i (basicAuthHandler accounts creds :: rest) =
      match authDecide accounts creds, creds with
      | .pass, some (u, p) =>
          ([Ev.enter i, .out i (.set kUsername u), .out i (.set kPassword p), .leave i]
             ++ (onion (i+1) rest).1, (onion (i+1) rest).2)
      | .deny401 ch, _ =>
          ([Ev.enter i, .out i (.header hWWWAuth ch), .out i (.status 401), .out i (.body unauthorizedBody),
            .leave i], true)
      | .deny403, some (u, p) =>
          ([Ev.enter i, .out i (.status 403), .out i (.set kUsername u), .out i (.set kPassword p),
            .leave i], true)
      | _, _ => ([], false) := by
  rw [onion_flat i _ rest (C20_basic_auth_aborts accounts creds).1]
  cases creds with
  | none => simp [basicAuthHandler, authDecide, hasAbort, abortWithStatusMsg, emits]
  | some c =>
    obtain ⟨u, p⟩ := c
    simp only [basicAuthHandler, authDecide]
    split
    · split
      · split <;> simp [hasAbort, abortWithStatus, emits]
      · simp [hasAbort, abortWithStatus, emits]
    · simp [hasAbort, emits]

theorem C20_basic_auth (accounts : List (Bytes × Bytes)) (creds : Option (Bytes × Bytes))
    (h : Handler) (rest : List Handler) (i : Nat) :
    ranAfter i (onion i (basicAuthHandler accounts creds :: h :: rest)).1 = true ↔
      ∃ u p, creds = some (u, p) ∧ (accounts = [] ∨ lookup u accounts = some p) := by
  rw [← C20_basic_auth_decision, C20_basic_auth_trace]
  obtain ⟨t, ht⟩ := onion_head (i+1) h rest
  cases creds with
  | none => simp [authDecide, ranAfter]
  | some c =>
    obtain ⟨u, p⟩ := c
    cases hd : authDecide accounts (some (u, p)) with
    | pass => simp [ranAfter, ht]
    | deny401 ch => simp [ranAfter]
    | deny403 => simp [ranAfter]

theorem C20_basic_auth_response (accounts : List (Bytes × Bytes)) (creds : Option (Bytes × Bytes))
    (rest : List Handler) :
    (creds = none →
        (respOf (onion 0 (basicAuthHandler accounts creds :: rest)).1).finalStatus = 401 ∧
        (respOf (onion 0 (basicAuthHandler accounts creds :: rest)).1).finalHeader hWWWAuth = some challenge) ∧
    (authDecide accounts creds = .deny403 →
        (respOf (onion 0 (basicAuthHandler accounts creds :: rest)).1).finalStatus = 403) ∧
    (∀ u p, creds = some (u, p) → authDecide accounts creds = .pass →
        outsOf (onion 0 (basicAuthHandler accounts creds :: rest)).1 =
          [.set kUsername u, .set kPassword p] ++ outsOf (onion 1 rest).1) := by
  rw [C20_basic_auth_trace]
  refine ⟨?_, ?_, ?_⟩
  · intro hc
    subst hc
    simp only [authDecide]
    simp [respOf, outsOf, Resp.step, Resp.finalStatus, Resp.finalHeader, lookup]
  · intro hd
    cases creds with
    | none => simp [authDecide] at hd
    | some c =>
      obtain ⟨u, p⟩ := c
      rw [hd]
      simp [respOf, outsOf, Resp.step, Resp.finalStatus]
  · intro u p hc hd
    subst hc
    rw [hd]
    simp [outsOf]

theorem C20_basic_auth_served (accounts : List (Bytes × Bytes)) (creds : Option (Bytes × Bytes))
    (rest : List Handler) (hlen : rest.length < 63) :
    ∃ f0, ∀ f, f0 ≤ f → ∃ tr,
      serve (basicAuthHandler accounts creds :: rest) f = some tr ∧
      (authDecide accounts creds = .pass →
        ∃ u p, creds = some (u, p) ∧
          tr = [Ev.enter 0, .out 0 (.set kUsername u), .out 0 (.set kPassword p), .leave 0]
                 ++ (onion 1 rest).1) ∧
      (authDecide accounts creds ≠ .pass → ranAfter 0 tr = false ∧ tr.getLast? = some (.leave 0)) := by
  obtain ⟨f0, hf⟩ := chain_runs_onion (basicAuthHandler accounts creds :: rest)
    (by simp only [List.length_cons]; omega)
  refine ⟨f0, fun f hge => ⟨_, hf f hge, ?_, ?_⟩⟩
  · intro hp
    obtain ⟨u, p, hc, _⟩ := (C20_basic_auth_decision accounts creds).mp hp
    refine ⟨u, p, hc, ?_⟩
    rw [C20_basic_auth_trace, hp, hc]
  · intro hnp
    rw [C20_basic_auth_trace]
    cases creds with
    | none => simp [authDecide, ranAfter]
    | some c =>
      obtain ⟨u, p⟩ := c
      cases hd : authDecide accounts (some (u, p)) with
      | pass => exact absurd hd hnp
      | deny401 ch => simp [ranAfter]
      | deny403 => simp [ranAfter]

/-! ## the header parser (`Request.BasicAuth`) -/

/-- what `Request.SetBasicAuth(u, p)` puts into the header is parsed back to `(u, p)` — for every
    user name without a colon and every password (bytes), empty ones included -/
theorem C20_parse_set_roundtrip (u p : Bytes) (hb : ∀ b ∈ u ++ [58] ++ p, b < 256) (hu : 58 ∉ u) :
    requestBasicAuth (some (setBasicAuth u p)) = some (u, p) :=
  parse_set u p hb hu

/-- no header, an empty header, a header shorter than the scheme, or one that does not start with
    `Basic ` (compared case-insensitively) carries no credentials -/
theorem C20_parse_rejects :
    requestBasicAuth none = none ∧ requestBasicAuth (some []) = none ∧
    (∀ a : Bytes, a.length < 6 → requestBasicAuth (some a) = none) ∧
    (∀ a : Bytes, equalFold (a.take 6) basicPrefix = false → requestBasicAuth (some a) = none) := by
  have h6 : basicPrefix.length = 6 := rfl
  refine ⟨rfl, rfl, ?_, ?_⟩
  · intro a h
    show (if a = [] then none else parseBasicAuth a) = none
    split
    · rfl
    · simp [parseBasicAuth, h6, h]
  · intro a h
    show (if a = [] then none else parseBasicAuth a) = none
    split
    · rfl
    · simp [parseBasicAuth, h6, h]

/-- the scheme is matched case-insensitively: any 6-byte prefix that folds to `basic ` is as good as `Basic ` -/
theorem C20_parse_scheme_case (pre rest : Bytes) (hl : pre.length = 6)
    (hf : pre.map lower = basicPrefix.map lower) :
    parseBasicAuth (pre ++ rest) = parseBasicAuth (basicPrefix ++ rest) := by
  have h6 : basicPrefix.length = 6 := rfl
  unfold parseBasicAuth
  have t1 : (pre ++ rest).take basicPrefix.length = pre := by rw [h6, ← hl]; simp
  have t2 : (basicPrefix ++ rest).take basicPrefix.length = basicPrefix := by simp
  have d1 : (pre ++ rest).drop basicPrefix.length = rest := by rw [h6, ← hl]; simp
  have d2 : (basicPrefix ++ rest).drop basicPrefix.length = rest := by simp
  have e1 : equalFold pre basicPrefix = true := by simp [equalFold, hl, h6, hf]
  have e2 : equalFold basicPrefix basicPrefix = true := by decide
  have l1 : ¬ (pre ++ rest).length < basicPrefix.length := by simp [hl, h6]
  have l2 : ¬ (basicPrefix ++ rest).length < basicPrefix.length := by simp
  simp only [t1, t2, d1, d2, e1, e2, l1, l2]

/-! ## HTTPMethodOverrideHandler -/

theorem C20_override (method form hdr : Bytes) :
    ((methodOverride method form hdr).1 ≠ method →
        method = POST ∧
        ((methodOverride method form hdr).1 = PUT ∨ (methodOverride method form hdr).1 = PATCH ∨
          (methodOverride method form hdr).1 = DELETE) ∧
        (methodOverride method form hdr).1 = Bytes.toUpper (if form ≠ [] then form else hdr) ∧
        (methodOverride method form hdr).2 = some POST) ∧
    ((methodOverride method form hdr).1 = method → (methodOverride method form hdr).2 = none) := by
  by_cases hm : method = POST
  · subst hm
    rw [mo_post]
    generalize Bytes.toUpper (if form ≠ [] then form else hdr) = om
    by_cases hw : om = PUT ∨ om = PATCH ∨ om = DELETE
    · rw [if_pos hw]
      refine ⟨fun _ => ⟨rfl, hw, rfl, rfl⟩, ?_⟩
      intro he
      simp only at he
      exfalso
      rcases hw with h | h | h <;> rw [h] at he <;> revert he <;> decide
    · rw [if_neg hw]
      exact ⟨fun h => absurd rfl h, fun _ => rfl⟩
  · have : methodOverride method form hdr = (method, none) := by simp [methodOverride, hm]
    rw [this]
    exact ⟨fun h => absurd rfl h, fun _ => rfl⟩

theorem C20_override_complete (form hdr : Bytes)
    (h : Bytes.toUpper (if form ≠ [] then form else hdr) = PUT ∨
         Bytes.toUpper (if form ≠ [] then form else hdr) = PATCH ∨
         Bytes.toUpper (if form ≠ [] then form else hdr) = DELETE) :
    methodOverride POST form hdr = (Bytes.toUpper (if form ≠ [] then form else hdr), some POST) := by
  rw [mo_post, if_pos h]

theorem C20_override_non_post (method form hdr : Bytes) (h : method ≠ POST) :
    methodOverride method form hdr = (method, none) := by
  simp [methodOverride, h]

theorem C20_override_case_insensitive (method form hdr : Bytes) :
    methodOverride method (Bytes.toUpper form) (Bytes.toUpper hdr) = methodOverride method form hdr := by
  have idem : ∀ s : Bytes, Bytes.toUpper (Bytes.toUpper s) = Bytes.toUpper s := by
    intro s
    simp only [Bytes.toUpper, List.map_map]
    apply List.map_congr_left
    intro b _
    simp only [Function.comp]
    split
    · split <;> omega
    · rfl
  have hnil : ∀ s : Bytes, Bytes.toUpper s = [] ↔ s = [] := by
    intro s; simp [Bytes.toUpper]
  unfold methodOverride
  by_cases hm : method = POST
  · simp only [hm, if_true, om_eq]
    by_cases hf : form = []
    · subst hf
      have h0 : Bytes.toUpper ([] : Bytes) = [] := rfl
      simp only [h0, ne_eq, not_true_eq_false, if_false, idem]
    · have : Bytes.toUpper form ≠ [] := fun h => hf ((hnil form).mp h)
      simp only [ne_eq, this, not_false_eq_true, if_true, hf, idem]
  · simp [hm]

/-! ## WrapHTTPHandlers -/

/-- for every non-empty wrapper list and ANY wrappers: `WrapHTTPHandlers [w₁…wₙ] r = w₁ (w₂ (… (wₙ r)))` -/
theorem C20_wrap_fold {α : Type} (pre : List (α → α)) (r : α) (hne : pre ≠ []) :
    wrapHTTPHandlers pre r = some (pre.foldr (fun w acc => w acc) r) := by
  rw [wrapHTTPHandlers_eq, if_neg hne]; rfl

/-- observation (outside the property's quantifier `1..n`): with no wrapper the code returns the nil
    `http.Handler`, not the router -/
theorem C20_wrap_nil {α : Type} (r : α) : wrapHTTPHandlers ([] : List (α → α)) r = none := by
  rfl

/-- the first listed wrapper is outermost: with tracing wrappers `k₁ … kₙ` (n ≥ 1) every request enters
    them in the order 1…n, reaches the router, and leaves them in the order n…1 -/
theorem C20_wrap_order (ks : List Nat) (hne : ks ≠ []) :
    ∃ h, wrapHTTPHandlers (ks.map traceW) routerH = some h ∧
      ∀ req : Req, h req =
        ks.map WEv.enter ++ [WEv.served req.method req.orig] ++ ks.reverse.map WEv.leave := by
  refine ⟨_, C20_wrap_fold _ _ (by simpa using hne), ?_⟩
  intro req
  clear hne
  induction ks with
  | nil => simp [routerH]
  | cons k t ih =>
    simp only [List.map_cons, List.foldr_cons, traceW]
    rw [ih]
    simp [List.append_assoc]

/-- the override wrapper between tracing wrappers: all tracing wrappers still run in list order around
    it, and the router sees exactly `methodOverride` of the incoming request -/
theorem C20_wrap_override_inside (ks₁ ks₂ : List Nat) :
    ∃ h, wrapHTTPHandlers (ks₁.map traceW ++ [overrideW] ++ ks₂.map traceW) routerH = some h ∧
      ∀ req : Req, h req =
        (ks₁ ++ ks₂).map WEv.enter
          ++ [WEv.served (methodOverride req.method req.form req.hdr).1
                (match (methodOverride req.method req.form req.hdr).2 with
                 | some o => some o | none => req.orig)]
          ++ (ks₁ ++ ks₂).reverse.map WEv.leave := by
  refine ⟨_, C20_wrap_fold _ _ (by simp), ?_⟩
  intro req
  have inner : ∀ (ks : List Nat) (rq : Req),
      (ks.map traceW).foldr (fun w acc => w acc) routerH rq =
        ks.map WEv.enter ++ [WEv.served rq.method rq.orig] ++ ks.reverse.map WEv.leave := by
    intro ks
    induction ks with
    | nil => intro rq; simp [routerH]
    | cons k t ih => intro rq; simp only [List.map_cons, List.foldr_cons, traceW]; rw [ih]; simp
  induction ks₁ with
  | nil =>
    simp only [List.map_nil, List.nil_append, List.foldr_cons, List.cons_append, overrideW]
    rw [inner]
    rfl
  | cons k t ih =>
    simp only [List.map_cons, List.cons_append, List.foldr_cons, traceW]
    rw [ih]
    simp

/-! ## WrapHTTPHandler / WrapHTTPHandlerFunc (and WrapH, WrapHF, HTTPHandler, HTTPHandlerFunc) -/

/-- a wrapped generic handler at chain position `i`: its effects happen once, between `enter i` and
    `leave i`, it neither starts the rest itself nor aborts — the rest of the chain runs after it exactly
    as after a native handler that does not call `Next` -/
theorem C20_wrapped_in_chain (effects : List Out) (rest : List Handler) (i : Nat) :
    onion i (wrapHTTPHandler effects :: rest) =
      ([Ev.enter i] ++ effects.map (Ev.out i) ++ [Ev.leave i] ++ (onion (i+1) rest).1,
       (onion (i+1) rest).2) := by
  rw [onion_flat i _ rest (flat_wrapHTTPHandler effects), hasAbort_wrapHTTPHandler,
    emits_wrapHTTPHandler]
  simp

/-- between native middleware: a native onion middleware (`a; c.Next(); b`) in front of a wrapped handler
    sees the wrapped handler AND the whole rest of the chain run inside its `Next` call -/
theorem C20_wrapped_between_native (a b : Out) (effects : List Out) (rest : List Handler) (i : Nat) :
    (onion i ([.emit a, .next, .emit b] :: wrapHTTPHandler effects :: rest)).1 =
      [Ev.enter i, .out i a, .enter (i+1)] ++ effects.map (Ev.out (i+1)) ++ [Ev.leave (i+1)]
        ++ (onion (i+2) rest).1 ++ [.out i b, .leave i] := by
  rw [onion]
  simp only [C20_wrapped_in_chain, List.foldl_cons, List.foldl_nil, specStep]
  simp [List.append_assoc]

/-- the same through the cursor loop `Context.Next` (at most 63 handlers) -/
theorem C20_wrapped_served (effects : List Out) (rest : List Handler) (hlen : rest.length < 63) :
    ∃ f0, ∀ f, f0 ≤ f →
      serve (wrapHTTPHandler effects :: rest) f =
        some ([Ev.enter 0] ++ effects.map (Ev.out 0) ++ [Ev.leave 0] ++ (onion 1 rest).1) := by
  obtain ⟨f0, hf⟩ := chain_runs_onion (wrapHTTPHandler effects :: rest)
    (by simp only [List.length_cons]; omega)
  refine ⟨f0, fun f hge => ?_⟩
  rw [hf f hge, C20_wrapped_in_chain]

/-! ## non-vacuity -/

-- accounts [("test","123")]: right password passes, wrong password / unknown user with empty password
-- are 403, no credentials is 401
example : authDecide [([116,101,115,116], [49,50,51])] (some ([116,101,115,116], [49,50,51])) = .pass := by decide
example : authDecide [([116,101,115,116], [49,50,51])] (some ([116,101,115,116], [49,50])) = .deny403 := by decide
example : authDecide [([116,101,115,116], [49,50,51])] (some ([120], [])) = .deny403 := by decide
example : authDecide [] (some ([120], [])) = .pass := by decide
example : authDecide [([116,101,115,116], [49,50,51])] none = .deny401 challenge := by decide

-- a chain `[HTTPBasicAuth, onion middleware, main]`: on pass the rest runs, on 403 it does not
example : ranAfter 0 (onion 0 [basicAuthHandler [] (some ([120], [])),
    [.emit (.mark 1), .next, .emit (.mark 2)], [.emit (.mark 3)]]).1 = true := by decide
example : (onion 0 [basicAuthHandler [([116], [49])] (some ([120], [])),
    [.emit (.mark 1), .next, .emit (.mark 2)], [.emit (.mark 3)]]).1 =
    [.enter 0, .out 0 (.status 403), .out 0 (.set kUsername [120]), .out 0 (.set kPassword []), .leave 0] := by
  decide

-- POST + `_method=delete` is rewritten, GET + the same is not, POST + `get` is not
example : methodOverride POST [100,101,108,101,116,101] [] = (DELETE, some POST) := by decide
example : methodOverride [71,69,84] [100,101,108,101,116,101] [] = ([71,69,84], none) := by decide
example : methodOverride POST [103,101,116] PUT = (POST, none) := by decide
-- the form value wins over the header
example : methodOverride POST [112,117,116] DELETE = (PUT, some POST) := by decide

-- three tracing wrappers
example : (wrapHTTPHandlers [traceW 1, traceW 2, traceW 3] routerH).map (· ⟨POST, [], [], none⟩) =
    some [.enter 1, .enter 2, .enter 3, .served POST none, .leave 3, .leave 2, .leave 1] := by decide

-- `basic dGVzdDoxMjM=` (lower-case scheme) carries ("test", "123"); `Basic dGVzdA==` ("test", no colon) and
-- `Bearer …` carry nothing; "Basic Og==" (":") carries the empty user with the empty password
example : requestBasicAuth (some [98,97,115,105,99,32,100,71,86,122,100,68,111,120,77,106,77,61]) =
    some ([116,101,115,116], [49,50,51]) := by decide
example : requestBasicAuth (some [66,97,115,105,99,32,100,71,86,122,100,65,61,61]) = none := by decide
example : requestBasicAuth (some [66,101,97,114,101,114,32,120]) = none := by decide
example : requestBasicAuth (some [66,97,115,105,99,32,79,103,61,61]) = some ([], []) := by decide
example : setBasicAuth [116,101,115,116] [49,50,51] =
    [66,97,115,105,99,32,100,71,86,122,100,68,111,120,77,106,77,61] := by decide

end Rux
