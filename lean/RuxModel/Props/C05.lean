import RuxModel.Lemmas.Chain
import RuxModel.Generated.Facts
/-
  C05 — Abort stops every later handler and only later handlers.

  Property theorems only (model: Model/Chain.lean, lemmas: Lemmas/Chain.lean).  Everything is a corollary
  of `C05_run_is_onion`: within the handler limit the cursor loop of `Context.Next` (int8 cursor, wrap made
  explicit in the model) computes exactly the onion specification.  All theorems quantify over EVERY chain
  of at most `Facts.abortIndex` (= 63) handlers — global + group + route middleware + main handler — and
  every behaviour of every handler: any sequence of emit / Next() / Abort / AbortThen / AbortWithStatus(c) /
  AbortWithStatus(c, msg) / IsAborted() / SetStatus / Write, hence every position of the aborting handler,
  abort before / after / without Next(), and 0, 1, 2, … Next() calls per handler.

  Clause of the statement                                         theorem
  ----------------------------------------------------------------------------------------------------
  "no handler later in the chain starts … even if Next() is       C05_no_later_start
    called afterwards"
  "handlers already suspended inside Next() resume and run to     C05_suspended_resume (each started
    completion"                                                     handler performs each of its actions
                                                                    exactly once, in order, and returns)
                                                                  C05_resume_order (they return last in,
                                                                    first out, i.e. in reverse order)
  "IsAborted() is false before and true after"                    C05_isAborted
  "every position … every chain shape within the documented       hypothesis `hs.length ≤ abortIndex` of all
    handler limit"                                                  theorems; C05_limit_ok (facts of the
                                                                    source: int8 cursor, abortIndex = 63,
                                                                    Use / appendGroupInfo compare with it);
                                                                  C05_limit_registration (what the two
                                                                    registration checks accept)
  "AbortWithStatus additionally determines the response status    C05_abort_status,
    unless the response was already committed"                    C05_abort_status_committed
  termination / no panic / cursor never leaves [-1, 63]           C05_terminates

  NOT proved here, on purpose:
  * The response writer is abstract (status / write events folded by `finalStatus`, which mirrors
    `responseWriter.WriteHeader/Write/ensureWriteHeader`); the writer itself is property C08.
  * Which chain is assembled for a route (globals ++ groups ++ route middleware ++ [main]) is C04/C12
    (`Reg` model); here the chain is an arbitrary list.
  * The registration checks count the ROUTE's chain only (group + route middleware, `< abortIndex`, so
    with the main handler at most 63).  Global middleware (`Router.Use`) is NOT counted by any check, so
    a router with global middleware can build chains of more than 63 handlers; that is outside the
    hypothesis of the theorems and outside the property's quantifier ("within the documented handler
    limit").  The last `example`s show that the hypothesis is tight: with 64 handlers `IsAborted()` is
    already true in the last handler although nobody aborted.
  * Handlers that panic (C09), handlers that replace `c.Resp`, and concurrent use of one Context.
-/
namespace Rux
open Chain

/-- Main theorem.  A request whose chain has at most `abortIndex` handlers ends normally; its trace is
    the onion of the chain; the cursor ends at `abortIndex` if somebody aborted, else at the last handler. -/
theorem C05_run_is_onion (hs : List Handler) (hlen : (hs.length : Int) ≤ Facts.abortIndex) :
    serve hs = .ok ⟨if (onion 0 hs).2 then Chain.abortIndex else (hs.length : Int) - 1, (onion 0 hs).1⟩ := by
  have h63 : hs.length ≤ 63 := by simp only [Facts.abortIndex] at hlen; omega
  rw [serve_eq_onion hs h63]
  simp [idxOf]

/-- Termination is proved, not assumed: `hs.length + 1` loop iterations / nesting levels always suffice
    (and more fuel changes nothing), there is no index panic, and the cursor ends inside the int8 range —
    at the last handler or at `abortIndex`. -/
theorem C05_terminates (hs : List Handler) (hlen : (hs.length : Int) ≤ Facts.abortIndex) :
    ∃ st, serve hs = .ok st ∧ (∀ f, hs.length + 1 ≤ f → next hs f ⟨-1, []⟩ = .ok st) ∧
      (st.idx = (hs.length : Int) - 1 ∨ st.idx = Chain.abortIndex) ∧ -1 ≤ st.idx ∧ st.idx ≤ 63 := by
  have h63 : hs.length ≤ 63 := by simp only [Facts.abortIndex] at hlen; omega
  refine ⟨_, serve_eq_onion hs h63, ?_, ?_, ?_⟩
  · intro f hf
    have := next_eq_onion hs h63 hs.length 0 (by omega) [] f hf
    simpa using this
  · simp only [idxOf]; cases (onion 0 hs).2 <;> simp
  · simp only [idxOf, Chain.abortIndex]; cases (onion 0 hs).2 <;> simp <;> omega

/-- After any of Abort / AbortThen / AbortWithStatus — in whichever handler, before or after its Next(),
    whatever Next() calls follow anywhere — no handler starts any more. -/
theorem C05_no_later_start (hs : List Handler) (hlen : (hs.length : Int) ≤ Facts.abortIndex)
    (st : St) (hrun : serve hs = .ok st) (pre post : List Ev) (e : Ev)
    (hsplit : st.trace = pre ++ e :: post) (habort : e.isAbort = true) :
    ∀ j, Ev.enter j ∉ post := by
  rw [C05_run_is_onion hs hlen] at hrun
  simp only [Res.ok.injEq] at hrun
  subst hrun
  simp only at hsplit
  obtain ⟨k, _, _, hck⟩ := serve_check hs
  rw [hsplit] at hck
  obtain ⟨s1, s2, _, h2, h3⟩ := check_split hck
  have hab : s2.ab = true := by rw [checkStep_ab h2, habort]; simp
  exact check_no_enter h3 hab

/-- Every handler that has started — in particular every handler that is suspended inside Next() when
    somebody aborts — performs each of its actions exactly once, in order, and returns: the events of
    handler `j` in the trace are `enter j`, the events of all its actions (`shape`), `leave j`. -/
theorem C05_suspended_resume (hs : List Handler) (hlen : (hs.length : Int) ≤ Facts.abortIndex)
    (st : St) (hrun : serve hs = .ok st) (j : Nat) (hstarted : Ev.enter j ∈ st.trace) :
    ∃ h, hs[j]? = some h ∧
      (proj j st.trace).map Ev.erase = [Ev.enter j] ++ shape j h ++ [Ev.leave j] := by
  rw [C05_run_is_onion hs hlen] at hrun
  simp only [Res.ok.injEq] at hrun
  subst hrun
  simp only at hstarted ⊢
  rcases proj_onion hs 0 j with h0 | ⟨h, hget, _, hp⟩
  · have : Ev.enter j ∈ proj j (onion 0 hs).1 := by
      simp only [proj, List.mem_filter]; exact ⟨hstarted, by simp [Ev.handler]⟩
    rw [h0] at this; simp at this
  · exact ⟨h, by simpa using hget, hp⟩

/-- … and they return in reverse order: the trace obeys the stack discipline `nest` (a `leave` always
    closes the innermost running handler, a handler acts only while it is the innermost running one)
    and nobody is left suspended at the end. -/
theorem C05_resume_order (hs : List Handler) (hlen : (hs.length : Int) ≤ Facts.abortIndex)
    (st : St) (hrun : serve hs = .ok st) : nest [] st.trace = some [] := by
  rw [C05_run_is_onion hs hlen] at hrun
  simp only [Res.ok.injEq] at hrun
  subst hrun
  obtain ⟨k, _, _, hck⟩ := serve_check hs
  simpa using check_nest hck

/-- `IsAborted()`, observed anywhere in the request, is true iff an abort happened earlier in the request. -/
theorem C05_isAborted (hs : List Handler) (hlen : (hs.length : Int) ≤ Facts.abortIndex)
    (st : St) (hrun : serve hs = .ok st) (pre post : List Ev) (h t : Nat) (b : Bool)
    (hsplit : st.trace = pre ++ Ev.aborted h t b :: post) :
    b = true ↔ ∃ e ∈ pre, e.isAbort = true := by
  rw [C05_run_is_onion hs hlen] at hrun
  simp only [Res.ok.injEq] at hrun
  subst hrun
  simp only at hsplit
  obtain ⟨k, _, _, hck⟩ := serve_check hs
  rw [hsplit] at hck
  obtain ⟨s1, s2, h1, h2, _⟩ := check_split hck
  have hab := check_ab h1
  simp only [Bool.false_or] at hab
  simp only [checkStep] at h2
  split at h2
  · rename_i hc
    rw [hc.2, hab]
    simp
  · simp at h2

/-- `AbortWithStatus(c)` (the adjacent pair `WriteHeader(c)`, `Abort()`), `c > 0`: if no body byte was
    written before it and nobody sets another status afterwards (only handlers that had already started
    can: nobody else runs), the client sees `c` — whether the commit happens through a later body write or
    at the end of the request. -/
theorem C05_abort_status (pre post : List Ev) (i c : Nat) (hc : c > 0)
    (hnotCommitted : ∀ e ∈ pre, e.isWrite = false) (hnoOverride : ∀ e ∈ post, e.isStatus = false) :
    finalStatus (pre ++ Ev.status i c :: Ev.abort i :: post) = c := by
  have h1 := W.run_no_write pre {} rfl hnotCommitted
  have h2 : (W.step (W.run {} pre) (Ev.status i c)).status = c ∧
      (W.step (W.run {} pre) (Ev.status i c)).committed = none := by
    simp only [W.step]
    split
    · exact ⟨rfl, h1⟩
    · rename_i hn
      refine ⟨?_, h1⟩
      have : ¬ (W.run {} pre).status ≠ c := fun h => hn ⟨hc, h⟩
      simpa using this
  have h3 := W.run_keep post _ c hc h2.1 (Or.inl h2.2) hnoOverride
  simp only [finalStatus, W.run_append, W.run_cons]
  have hstep : W.step (W.step (W.run {} pre) (Ev.status i c)) (Ev.abort i) =
      W.step (W.run {} pre) (Ev.status i c) := by simp [W.step]
  rw [hstep]
  generalize W.run (W.step (W.run {} pre) (Ev.status i c)) post = w at h3
  obtain ⟨hs, hcm⟩ := h3
  rcases hcm with hcm | hcm
  · simp only [W.ensure, hcm, hs]
    have : ¬ c = 0 := by omega
    simp [this]
  · simp [W.ensure, hcm]

/-- "unless the response was already committed": after the first body write the status the client sees
    is fixed, whatever (AbortWithStatus included) comes later. -/
theorem C05_abort_status_committed (pre post : List Ev) (hcommitted : ∃ e ∈ pre, e.isWrite = true) :
    finalStatus (pre ++ post) = finalStatus pre := by
  obtain ⟨s, hs⟩ := W.run_write pre {} hcommitted
  have h2 := W.run_committed post _ s hs
  simp only [finalStatus, W.run_append]
  simp [W.ensure, hs, h2]

/-- The facts of the source the limit rests on, re-extracted from /repo on every run: the cursor is an
    `int8`, `abortIndex` is 63 (= the model's constant, and it fits the cursor type with room for the
    `index++` of the loop), and both `Route.Use` and `appendGroupInfo` compare a handler count with
    `abortIndex` using `>=`. -/
theorem C05_limit_ok :
    Facts.indexType = "int8" ∧ Facts.abortIndex = 63 ∧ Chain.abortIndex = Facts.abortIndex ∧
    "Use" ∈ Facts.limitChecks ∧ "appendGroupInfo" ∈ Facts.limitChecks ∧
    Facts.abortIndex + 1 ≤ 127 := by decide

/-- What the two registration checks accept (model `routeUse` / `groupAttach` of `Route.Use` /
    `appendGroupInfo`, tied to the code by the `chain` engine's `lim` ops): a route never holds
    `abortIndex` or more middleware, so a route's own chain — group + route middleware + main handler —
    has at most `abortIndex` handlers.  Global middleware is not counted by either check. -/
theorem C05_limit_registration (grp cur add n : Nat) :
    (routeUse cur add = some n ↔ (n = cur + add ∧ ((cur + add : Nat) : Int) < Facts.abortIndex)) ∧
    (groupAttach grp cur = some n → ((cur : Int) < Facts.abortIndex) →
      n = grp + cur ∧ ((n : Nat) : Int) + 1 ≤ Facts.abortIndex) := by
  simp only [routeUse, groupAttach, Chain.abortIndex, Facts.abortIndex]
  refine ⟨?_, ?_⟩
  · by_cases hge : ((cur + add : Nat) : Int) ≥ 63
    · simp only [hge, if_true]
      constructor
      · intro h; simp at h
      · intro h; omega
    · simp only [hge, if_false, Option.some.injEq]
      constructor
      · intro h; omega
      · intro h; omega
  · intro h hcur
    by_cases hg : grp > 0
    · simp [hg] at h; omega
    · simp only [hg, if_false, Option.some.injEq] at h; omega

/-! ### non-vacuity -/

-- `demoAbort` (Model/Chain.lean): abort after Next() in the 2nd of 5 handlers, two handlers suspended
example : ((demoAbort.length : Nat) : Int) ≤ Facts.abortIndex := by decide

example : serve demoAbort = .ok ⟨63,
    [.enter 0, .mark 0 1, .enter 1, .mark 1 4, .enter 2, .aborted 2 7 false, .enter 3, .mark 3 9, .leave 3,
     .enter 4, .mark 4 10, .leave 4, .mark 2 8, .leave 2, .status 1 403, .abort 1, .aborted 1 5 true,
     .mark 1 6, .leave 1, .aborted 0 2 true, .mark 0 3, .leave 0]⟩ := by decide

example : finalStatus (onion 0 demoAbort).1 = 403 := by decide

/-- the hypotheses of the theorems above are met by this run: it contains an abort event with events
    after it, a false and a true IsAborted() sample, and started handlers that were suspended -/
example : Ev.abort 1 ∈ (onion 0 demoAbort).1 ∧ Ev.aborted 2 7 false ∈ (onion 0 demoAbort).1 ∧
    Ev.aborted 0 2 true ∈ (onion 0 demoAbort).1 ∧ Ev.enter 0 ∈ (onion 0 demoAbort).1 ∧
    (proj 0 (onion 0 demoAbort).1).map Ev.erase = [Ev.enter 0] ++ shape 0 [.emit 1, .next, .isAborted 2, .emit 3] ++ [Ev.leave 0] ∧
    nest [] (onion 0 demoAbort).1 = some [] := by decide

/-- `C05_abort_status`: its hypotheses hold for the part of the demo trace around `AbortWithStatus(403)`;
    `C05_abort_status_committed`: a write before the abort fixes the status (200 here) -/
example : finalStatus ([Ev.enter 0, .mark 0 4] ++ Ev.status 0 403 :: Ev.abort 0 :: [.write 0 1, .leave 0]) = 403 ∧
    finalStatus ([Ev.enter 0, .write 0 1] ++ [Ev.status 0 403, .abort 0, .leave 0]) = 200 := by decide

/-- abort BEFORE Next() in the first of 3 handlers: nobody else starts, Next() afterwards does nothing -/
example : serve [[.abort, .next, .emit 1], [.emit 2], [.emit 3]] =
    .ok ⟨63, [.enter 0, .abort 0, .mark 0 1, .leave 0]⟩ := by decide

/-- the registration checks: 62 middleware accepted, 63 refused; with one global middleware in front the
    accepted route gives a chain of 1 + 62 + 1 = 64 handlers, which no check refuses -/
example : routeUse 0 62 = some 62 ∧ routeUse 0 63 = none ∧ groupAttach 30 32 = some 62 ∧
    groupAttach 31 32 = none := by decide

/-- the hypothesis is tight: in a chain of 64 handlers that never aborts, `IsAborted()` is true in the
    last handler (cursor 63 = abortIndex) -/
example : ∃ tr, serve (List.replicate 63 [] ++ [[Act.isAborted 0]]) = .ok ⟨63, tr⟩ ∧
    Ev.aborted 63 0 true ∈ tr := by
  refine ⟨(onion 0 (List.replicate 63 [])).1 ++ [.enter 63, .aborted 63 0 true, .leave 63], ?_, by simp⟩
  set_option maxRecDepth 100000 in decide

end Rux
