import RuxModel.Lemmas.Render
/-
  C19 — Response helpers emit the given status, content type and a decodable body.

  Property theorems only (model: Model/Render.lean on top of Model/Writer.lean; specs: Spec/Render.lean).
  The encoders (encoding/json, encoding/xml) are PARAMETERS: `Enc.ok bytes | Enc.error` is their verdict
  on the value.  "A body that decodes back to the value" is therefore proved here as "the body is exactly
  the encoder's output (framed as documented)"; that the stdlib decoders invert the stdlib encoders is
  NOT proved — it is sampled by the `render` engine (decode with encoding/json / encoding/xml and compare).
  Hence the level of C19 is "proof, partial".

  All `C19_*_emits` theorems quantify over every status (any integer), every payload, every state `s`
  of a request in which nothing is committed yet (`s.w.length = -1`: any recorded status, any
  Content-Type set by the caller or absent), with an underlying writer that accepts the writes
  (`s.script = []`).  They give the complete writer state after the helper; `C19_committed` turns that
  into what the client gets at the end of the request.

  Clause of the statement                                         theorem(s)
  ---------------------------------------------------------------------------------------------------
  status given, documented Content-Type, body — per helper:
    Blob / Text / HTML / JSONBytes                                C19_blob_emits, C19_blob_empty_emits,
                                                                  C19_text_html_jsonbytes
    JSON                                                          C19_json_emits
    JSONP  (callback(…);)                                         C19_jsonp_emits
    XML                                                           C19_xml_emits
    Stream                                                        C19_stream_emits
    NoContent                                                     C19_nocontent_emits
    Redirect                                                      C19_redirect_emits
    HTTPError                                                     C19_httperror_emits
    … and that this is what is committed / what the client sees   C19_committed
  "renderers of pkg/render never override a Content-Type
   the caller has already set"                                    C19_no_override, C19_sets_documented_when_absent
  "negotiation by Accept picks the first supported type listed"   C19_negotiate, C19_choose_first_supported,
                                                                  C19_choose_none, C19_supported_set
  "encoding failures are reported through the error list or the
   returned error instead of a panic"                             C19_errors_reported, C19_errors_returned,
                                                                  C19_write_errors_reported, C19_stream_errors_reported

  NOT proved: the decode round trip (sampled); that Go's encoders never panic (they are parameters that
  return `error`); XML encodings of 4096 bytes or more (bufio chunking — the concatenated body is the
  same, the number of Write calls is not modelled); `c.Blob`-family helpers DO override a preset
  Content-Type (`Header().Set`) and DO panic when the underlying writer fails (`WriteBytes`) — that is
  the code's documented behaviour and outside the statement (pkg/render renderers / encoding failures).
-/
namespace Rux
open Writer Render

/-! ### status, content type and body per helper -/

/-- `c.Blob(status, ct, data)` with data: status committed = the given one when positive, the
    Content-Type is the given one (also when the caller had set another), one write of exactly the data -/
theorem C19_blob_emits (st : Int) (ct data : Bytes) (s : St)
    (hl : s.w.length = -1) (hs : s.script = []) (hd : data ≠ []) :
    (blob st ct data s).st.w =
      { status := commitCode st s.w.status, length := data.length, ctype := some ct,
        sent := some (some ct),
        log := s.w.log ++ [.wh (commitCode st s.w.status), .w data data.length false] } ∧
    (blob st ct data s).panicked = false ∧ (blob st ct data s).st.errs = s.errs := by
  have he : data.isEmpty = false := by cases data <;> simp_all
  unfold blob
  simp only [he, St.op, step_setStatus, step_setCT]
  rw [write_nil _ _ (by simpa using hs)]
  simp only [Bool.false_eq_true, if_false]
  rw [step_write_fresh _ _ _ _ (by simpa using hl)]
  simp [commitCode_eq]

/-- `c.Blob` without data ("only write headers"): status recorded and Content-Type set; the commit
    follows at the end of the request (`C19_committed`) -/
theorem C19_blob_empty_emits (st : Int) (ct : Bytes) (s : St) (hl : s.w.length = -1) :
    (blob st ct [] s).st.finish =
      { status := commitCode st s.w.status, length := 0, ctype := some ct, sent := some (some ct),
        log := s.w.log ++ [.wh (commitCode st s.w.status)] } ∧
    (blob st ct [] s).panicked = false ∧ (blob st ct [] s).st.errs = s.errs := by
  unfold blob St.finish
  simp only [List.isEmpty_nil, if_true, St.op, step_setStatus, step_setCT]
  rw [ensure_fresh _ (by simpa using hl)]
  simp [commitCode_eq]

/-- Text, HTML, JSONBytes are `Blob` with their documented content types -/
theorem C19_text_html_jsonbytes (st : Int) (data : Bytes) :
    text st data = blob st (ascii "text/plain; charset=utf-8") data ∧
    html st data = blob st (ascii "text/html; charset=utf-8") data ∧
    jsonBytes st data = blob st (ascii "application/json; charset=utf-8") data :=
  ⟨rfl, rfl, rfl⟩

/-- `c.JSON(status, v)` when the encoder succeeds: one write of `enc v` + newline; Content-Type
    `application/json; charset=utf-8` unless the caller had set one -/
theorem C19_json_emits (st : Int) (b : Bytes) (s : St) (hl : s.w.length = -1) (hs : s.script = []) :
    (json st (.ok b) s).st.w =
      { status := commitCode st s.w.status, length := (b ++ [10]).length,
        ctype := keepCT s.w.ctype ctJSON, sent := some (keepCT s.w.ctype ctJSON),
        log := s.w.log ++ [.wh (commitCode st s.w.status), .w (b ++ [10]) (b ++ [10]).length false] } ∧
    (json st (.ok b) s).panicked = false ∧ (json st (.ok b) s).st.errs = s.errs := by
  unfold json respond rJSON
  simp only [St.op, step_setStatus, step_setCTIfAbsent]
  rw [write_nil _ _ (by simpa using hs)]
  simp only [Bool.false_eq_true, if_false]
  rw [step_write_fresh _ _ _ _ (by simpa using hl)]
  simp [commitCode_eq, keepCT]

/-- `c.JSONP(status, callback, v)`: the body is `callback(` + `enc v` + newline + `);` -/
theorem C19_jsonp_emits (st : Int) (cb b : Bytes) (s : St) (hl : s.w.length = -1) (hs : s.script = []) :
    (jsonp st cb (.ok b) s).st.w =
      { status := commitCode st s.w.status,
        length := (cb ++ [40]).length + (b ++ [10]).length + 2,
        ctype := keepCT s.w.ctype ctJSONP, sent := some (keepCT s.w.ctype ctJSONP),
        log := s.w.log ++ [.wh (commitCode st s.w.status), .w (cb ++ [40]) (cb ++ [40]).length false,
                           .w (b ++ [10]) (b ++ [10]).length false, .w [41, 59] 2 false] } ∧
    bodyOf (jsonp st cb (.ok b) s).st.w.log = bodyOf s.w.log ++ (cb ++ [40] ++ b ++ [10] ++ [41, 59]) ∧
    (jsonp st cb (.ok b) s).panicked = false ∧ (jsonp st cb (.ok b) s).st.errs = s.errs := by
  have key : (jsonp st cb (.ok b) s).st.w =
      { status := commitCode st s.w.status,
        length := (cb ++ [40]).length + (b ++ [10]).length + 2,
        ctype := keepCT s.w.ctype ctJSONP, sent := some (keepCT s.w.ctype ctJSONP),
        log := s.w.log ++ [.wh (commitCode st s.w.status), .w (cb ++ [40]) (cb ++ [40]).length false,
                           .w (b ++ [10]) (b ++ [10]).length false, .w [41, 59] 2 false] } ∧
      (jsonp st cb (.ok b) s).panicked = false ∧ (jsonp st cb (.ok b) s).st.errs = s.errs := by
    unfold jsonp respond rJSONP
    simp only [St.op, step_setStatus, step_setCTIfAbsent]
    rw [write_nil _ _ (by simpa using hs)]
    simp only [Bool.false_eq_true, if_false]
    rw [step_write_fresh _ _ _ _ (by simpa using hl)]
    rw [write_nil _ _ (by simpa using hs)]
    simp only [Bool.false_eq_true, if_false]
    rw [step_write_committed _ _ _ _ (by simp <;> omega)]
    rw [write_nil _ _ (by simpa using hs)]
    rw [step_write_committed _ _ _ _ (by simp <;> omega)]
    simp [commitCode_eq, keepCT]
  refine ⟨key.1, ?_, key.2.1, key.2.2⟩
  rw [key.1]
  simp only [bodyOf, List.flatMap_append, List.flatMap_cons, List.flatMap_nil, body_w, body_wh,
    List.append_nil, List.nil_append, List.append_assoc]
  rfl

/-- `c.XML(status, v)`: `xml.Header` then the encoding (one write, nothing when it is empty) -/
theorem C19_xml_emits (st : Int) (b : Bytes) (s : St) (hl : s.w.length = -1) (hs : s.script = []) :
    bodyOf (xml st (.ok b) s).st.w.log = bodyOf s.w.log ++ (xmlHeader ++ b) ∧
    (xml st (.ok b) s).st.w.status = commitCode st s.w.status ∧
    (xml st (.ok b) s).st.w.ctype = keepCT s.w.ctype ctXML ∧
    (xml st (.ok b) s).st.w.sent = some (keepCT s.w.ctype ctXML) ∧
    (∃ evs, (xml st (.ok b) s).st.w.log = s.w.log ++ .wh (commitCode st s.w.status) :: evs ∧
            evs.all (fun e => !e.isWH) = true) ∧
    (xml st (.ok b) s).panicked = false ∧ (xml st (.ok b) s).st.errs = s.errs := by
  unfold xml respond rXML
  simp only [St.op, step_setStatus, step_setCTIfAbsent]
  rw [write_nil _ _ (by simpa using hs)]
  simp only [Bool.false_eq_true, if_false]
  rw [step_write_fresh _ _ _ _ (by simpa using hl)]
  by_cases hb : b.isEmpty = true
  · have : b = [] := by simpa using hb
    subst this
    simp [commitCode_eq, keepCT, bodyOf, Ev.body, Ev.isWH, xmlHeader]
  · simp only [hb, Bool.false_eq_true, if_false]
    rw [write_nil _ _ (by simpa using hs)]
    rw [step_write_committed _ _ _ _ (by simp <;> omega)]
    simp [commitCode_eq, keepCT, bodyOf, Ev.body, Ev.isWH]

/-- `c.NoContent()`: 204, no body -/
theorem C19_nocontent_emits (s : St) (hl : s.w.length = -1) :
    (noContent s).st.finish =
      { s.w with status := 204, length := 0, sent := some s.w.ctype, log := s.w.log ++ [.wh 204] } ∧
    (noContent s).panicked = false ∧ (noContent s).st.errs = s.errs := by
  unfold noContent St.finish
  simp only [St.op, step_setStatus]
  rw [ensure_fresh _ (by simpa using hl)]
  simp [norm]

/-- `c.Stream(status, ct, reader)`: for every read script of the reader (chunks of any size, data
    together with io.EOF, empty reads, errors) — what the client gets at the end of the request:
    the given status, the given Content-Type, the reader's data up to its end; a reader error
    (other than io.EOF) is reported in `c.Errors` -/
theorem C19_stream_emits (st : Int) (ct : Bytes) (reads : List (Bytes × RErr)) (s : St)
    (hl : s.w.length = -1) (hs : s.script = []) :
    (stream st ct reads s).st.finish.log =
        s.w.log ++ .wh (commitCode st s.w.status) :: ioEvents (copyOps reads) ∧
    (ioEvents (copyOps reads)).all (fun e => !e.isWH) = true ∧
    bodyOf (ioEvents (copyOps reads)) = streamData reads ∧
    (stream st ct reads s).st.finish.sent = some (some ct) ∧
    (stream st ct reads s).st.finish.ctype = some ct ∧
    (stream st ct reads s).st.errs = s.errs + (if readsOk reads then 0 else 1) ∧
    (stream st ct reads s).panicked = false := by
  have hs' : ((s.op (.setStatus st)).op (.setCT ct)).script = [] := by simpa [St.op] using hs
  have heq : stream st ct reads s =
      ⟨{ w := run (step (step s.w (.setStatus st)) (.setCT ct)) (copyOps reads), script := s.script,
         errs := s.errs + (if readsOk reads then 0 else 1) }, false⟩ := by
    unfold stream
    simp only [copy_run reads _ hs']
    cases readsOk reads <;> simp [St.op]
  have hl' : (step (step s.w (.setStatus st)) (.setCT ct)).length = -1 := by
    rw [step_setCT, step_setStatus]; exact hl
  obtain ⟨h1, _⟩ := fresh_run (copyOps reads) _ hl'
  obtain ⟨h3, h4⟩ := fresh_sent (copyOps reads) _ hl' (copyOps_stable reads)
  rw [statusFrom_noCode _ _ (copyOps_noCode reads)] at h1
  rw [heq]
  refine ⟨?_, ioEvents_no_wh _, ?_, ?_, ?_, rfl, rfl⟩
  · simp only [St.finish, h1]
    rw [step_setCT, step_setStatus]
    simp [commitCode_eq]
  · rw [bodyOf_ioEvents, specBody_copyOps]
  · simp only [St.finish, h3]; rfl
  · simp only [St.finish, h4]; rfl

/-- `c.Redirect(url[, code])` for a GET request without Content-Type: the given code (301 when none is
    given), `text/html`, net/http's little page as the body -/
theorem C19_redirect_emits (code : Option Int) (body : Bytes) (s : St)
    (hl : s.w.length = -1) (hs : s.script = []) (hct : s.w.ctype = none) :
    (redirect .get code body s).st.w =
      { status := commitCode (code.getD 301) s.w.status, length := body.length,
        ctype := some (ascii "text/html; charset=utf-8"),
        sent := some (some (ascii "text/html; charset=utf-8")),
        log := s.w.log ++ [.wh (commitCode (code.getD 301) s.w.status), .w body body.length false] } ∧
    (redirect .get code body s).panicked = false ∧ (redirect .get code body s).st.errs = s.errs := by
  unfold redirect viaOps scriptHead
  simp only [hs, actOps, hct, Option.isSome_none, redirectOps_get_noct]
  simp only [run, List.foldl_cons, List.foldl_nil, step_setHeader, step_setStatus, step_setCT]
  rw [step_write_fresh _ _ _ _ (by simpa using hl)]
  simp [commitCode_eq, ctTextHtml]

/-- Redirect of a HEAD request without Content-Type: code and `text/html`, no body; with a Content-Type
    already present, or for other methods: the code only (that is net/http's rule) -/
theorem C19_redirect_nobody (m : Meth) (code : Option Int) (body : Bytes) (s : St)
    (hl : s.w.length = -1) (hm : m ≠ .get ∨ s.w.ctype ≠ none) :
    (redirect m code body s).st.finish.log = s.w.log ++ [.wh (commitCode (code.getD 301) s.w.status)] ∧
    (redirect m code body s).st.finish.ctype =
      (if s.w.ctype = none ∧ m = .head then some (ascii "text/html; charset=utf-8") else s.w.ctype) := by
  unfold redirect viaOps St.finish
  cases hc : s.w.ctype with
  | some v =>
    simp only [actOps, hc, Option.isSome_some, redirectOps_ct, run, List.foldl_cons, List.foldl_nil,
      step_setHeader, step_setStatus]
    rw [ensure_fresh _ (by simpa using hl)]
    simp [commitCode_eq, hc]
  | none =>
    have hm' : m ≠ .get := by
      rcases hm with h | h
      · exact h
      · exact absurd hc h
    cases m with
    | get => exact absurd rfl hm'
    | head =>
      simp only [actOps, hc, Option.isSome_none, redirectOps_head_noct, run, List.foldl_cons,
        List.foldl_nil, step_setHeader, step_setStatus, step_setCT]
      rw [ensure_fresh _ (by simpa using hl)]
      simp [commitCode_eq, hc, ctTextHtml]
    | other =>
      simp only [actOps, hc, Option.isSome_none, redirectOps_other_noct, run, List.foldl_cons,
        List.foldl_nil, step_setHeader, step_setStatus]
      rw [ensure_fresh _ (by simpa using hl)]
      simp [commitCode_eq, hc]

/-- `c.HTTPError(msg, code)`: the given code, `text/plain` (net/http resets the type for the error
    text), the message and a newline -/
theorem C19_httperror_emits (code : Int) (msg : Bytes) (s : St)
    (hl : s.w.length = -1) (hs : s.script = []) :
    (httpError code msg s).st.w =
      { status := commitCode code s.w.status, length := (msg ++ [10]).length,
        ctype := some (ascii "text/plain; charset=utf-8"),
        sent := some (some (ascii "text/plain; charset=utf-8")),
        log := s.w.log ++ [.wh (commitCode code s.w.status), .w (msg ++ [10]) (msg ++ [10]).length false] } ∧
    (httpError code msg s).panicked = false ∧ (httpError code msg s).st.errs = s.errs := by
  unfold httpError viaOps scriptHead
  simp only [hs, actOps, httpErrorOps, run, List.foldl_cons, List.foldl_nil]
  simp only [step_setStatus, step_setCT, step_setHeader]
  rw [step_write_fresh _ _ _ _ (by simpa using hl)]
  simp [commitCode_eq, ctTextPlain]

/-- a helper that has written leaves a committed writer, and then the end of the request adds
    nothing: what the `_emits` theorems state is what the client has got -/
theorem C19_committed (s : St) (h : 0 ≤ s.w.length) : s.finish = s.w :=
  ensure_committed s.w h

/-! ### pkg/render never overrides a Content-Type -/

/-- every renderer of pkg/render — for every payload, encoder verdict, Accept header and every behaviour
    of the underlying writer — leaves a Content-Type that is already set exactly as it is -/
theorem C19_no_override (v : Bytes) (s : St) (h : s.w.ctype = some v)
    (ct data cb accept : Bytes) (e : Enc) (val : Val) (es : Encs) :
    (rBlob ct data s).1.w.ctype = some v ∧
    (rJSON e s).1.w.ctype = some v ∧
    (rJSONP cb e s).1.w.ctype = some v ∧
    (rXML e s).1.w.ctype = some v ∧
    (rView s).1.w.ctype = some v ∧
    (rText val es s).1.w.ctype = some v ∧
    (rAuto accept val es s).1.w.ctype = some v := by
  have hb : ∀ ct data, (rBlob ct data s).1.w.ctype = some v := by
    intro ct data
    unfold rBlob
    simp only [St.op, step_setCTIfAbsent, h]
    split <;> simp [write_ctype]
  have hj : ∀ e, (rJSON e s).1.w.ctype = some v := by
    intro e
    unfold rJSON
    simp only [St.op, step_setCTIfAbsent, h]
    split <;> simp [write_ctype]
  have hx : ∀ e, (rXML e s).1.w.ctype = some v := by
    intro e
    unfold rXML
    simp only [St.op, step_setCTIfAbsent, h]
    repeat' split
    all_goals simp [write_ctype]
  have ht : ∀ val, (rText val es s).1.w.ctype = some v := by
    intro val
    unfold rText
    repeat' split
    all_goals first | exact hb _ _ | exact h
  refine ⟨hb ct data, hj e, ?_, hx e, ?_, ht val, ?_⟩
  · unfold rJSONP
    simp only [St.op, step_setCTIfAbsent, h]
    repeat' split
    all_goals simp [write_ctype]
  · simp [rView, St.op, step_setCTIfAbsent, h]
  · unfold rAuto
    simp only
    generalize (if (parseAccept accept).isEmpty = true then [mimeText] else parseAccept accept) = l
    have : ∀ r, autoLoop val es s l = some r → r.1.w.ctype = some v := by
      induction l with
      | nil => intro r hr; simp [autoLoop] at hr
      | cons t rest ih =>
        intro r hr
        unfold autoLoop at hr
        split at hr
        · rename_i k _
          injection hr with hr
          subst hr
          cases k
          · exact hj _
          · exact h
          · exact ht _
          · exact hx _
        · exact ih r hr
    split
    · rename_i r hr; exact this r hr
    · exact h

/-- … and sets the documented one when none is there -/
theorem C19_sets_documented_when_absent (s : St) (h : s.w.ctype = none)
    (ct data cb : Bytes) (e : Enc) :
    (rBlob ct data s).1.w.ctype = some ct ∧
    (rJSON e s).1.w.ctype = some (ascii "application/json; charset=utf-8") ∧
    (rJSONP cb e s).1.w.ctype = some (ascii "application/javascript; charset=utf-8") ∧
    (rXML e s).1.w.ctype = some (ascii "application/xml; charset=utf-8") ∧
    (rView s).1.w.ctype = some (ascii "text/html; charset=utf-8") := by
  refine ⟨?_, ?_, ?_, ?_, ?_⟩
  · unfold rBlob
    simp only [St.op, step_setCTIfAbsent, h]
    split <;> simp [write_ctype]
  · unfold rJSON
    simp only [St.op, step_setCTIfAbsent, h]
    split <;> simp [write_ctype, ctJSON]
  · unfold rJSONP
    simp only [St.op, step_setCTIfAbsent, h]
    repeat' split
    all_goals simp [write_ctype, ctJSONP]
  · unfold rXML
    simp only [St.op, step_setCTIfAbsent, h]
    repeat' split
    all_goals simp [write_ctype, ctXML]
  · simp [rView, St.op, step_setCTIfAbsent, h, ctHTML]

/-! ### content negotiation -/

/-- `render.Auto` IS the decision procedure: parse the Accept header, take the first listed type that is
    supported (`text/plain` when nothing is listed) and render exactly that; error when there is none.
    For every Accept header, value, encoder verdicts and writer state. -/
theorem C19_negotiate (accept : Bytes) (v : Val) (es : Encs) (s : St) :
    rAuto accept v es s =
      match choose (parseAccept accept) with
      | some k => rKind k v es s
      | none => (s, true) := by
  have hloop : ∀ l : List Bytes,
      autoLoop v es s l = (l.findSome? kindOf).map (fun k => rKind k v es s) := by
    intro l
    induction l with
    | nil => rfl
    | cons t rest ih =>
      unfold autoLoop
      cases hk : kindOf t with
      | some k => simp [List.findSome?_cons, hk]
      | none => simp [List.findSome?_cons, hk, ih]
  unfold rAuto choose
  simp only [hloop]
  cases (if (parseAccept accept).isEmpty = true then [mimeText] else parseAccept accept).findSome? kindOf <;> rfl

/-- the choice is the FIRST supported entry: everything listed before it is unsupported -/
theorem C19_choose_first_supported (accepts : List Bytes) (k : Kind) :
    choose accepts = some k ↔
      ∃ pre t post, (if accepts.isEmpty then [mimeText] else accepts) = pre ++ t :: post ∧
        kindOf t = some k ∧ ∀ x ∈ pre, kindOf x = none := by
  unfold choose
  exact List.findSome?_eq_some_iff

/-- no choice exactly when nothing listed is supported -/
theorem C19_choose_none (accepts : List Bytes) :
    choose accepts = none ↔ ∀ x ∈ (if accepts.isEmpty then [mimeText] else accepts), kindOf x = none := by
  unfold choose
  exact List.findSome?_eq_none_iff

/-- the supported set, and what each member selects -/
theorem C19_supported_set (t : Bytes) (k : Kind) :
    kindOf t = some k ↔
      (t = ascii "application/json" ∧ k = .json) ∨ (t = ascii "text/html" ∧ k = .html) ∨
      (t = ascii "text/plain" ∧ k = .text) ∨
      ((t = ascii "application/xml" ∨ t = ascii "text/xml") ∧ k = .xml) := by
  unfold kindOf
  constructor
  · intro h
    split at h
    · rename_i h1; injection h with h; exact Or.inl ⟨h1, h.symm⟩
    · split at h
      · rename_i h1; injection h with h; exact Or.inr (Or.inl ⟨h1, h.symm⟩)
      · split at h
        · rename_i h1; injection h with h; exact Or.inr (Or.inr (Or.inl ⟨h1, h.symm⟩))
        · split at h
          · rename_i h1; injection h with h; exact Or.inr (Or.inr (Or.inr ⟨h1, h.symm⟩))
          · cases h
  · intro h
    rcases h with ⟨h, hk⟩ | ⟨h, hk⟩ | ⟨h, hk⟩ | ⟨h, hk⟩
    · subst h hk; decide
    · subst h hk; decide
    · subst h hk; decide
    · subst hk
      rcases h with h | h <;> subst h <;> decide

/-! ### failures are reported, not thrown -/

/-- an encoding failure in JSON / JSONP / XML — in any state, whatever the underlying writer does —
    adds exactly one error to `c.Errors` and does not panic -/
theorem C19_errors_reported (st : Int) (cb : Bytes) (s : St) :
    ((json st .error s).st.errs = s.errs + 1 ∧ (json st .error s).panicked = false) ∧
    ((jsonp st cb .error s).st.errs = s.errs + 1 ∧ (jsonp st cb .error s).panicked = false) ∧
    ((xml st .error s).st.errs = s.errs + 1 ∧ (xml st .error s).panicked = false) := by
  have hp : ∀ s : St, rJSONP cb .error s =
      ((write (s.op (.setCTIfAbsent ctJSONP)) (cb ++ [40])).st, true) := by
    intro s; unfold rJSONP; simp only; split <;> rfl
  have hx : ∀ s : St, rXML .error s = ((write (s.op (.setCTIfAbsent ctXML)) xmlHeader).st, true) := by
    intro s; unfold rXML; simp only; split <;> rfl
  refine ⟨⟨?_, rfl⟩, ⟨?_, rfl⟩, ⟨?_, rfl⟩⟩
  · simp [json, respond, rJSON, St.op]
  · simp [jsonp, respond, hp, write_errs, St.op]
  · simp [xml, respond, hx, write_errs, St.op]

/-- the renderers of pkg/render return the encoder's error; `Auto` returns it for the chosen renderer
    and returns an error when no listed type is supported -/
theorem C19_errors_returned (cb accept : Bytes) (v : Val) (es : Encs) (s : St) :
    (rJSON .error s).2 = true ∧ (rJSONP cb .error s).2 = true ∧ (rXML .error s).2 = true ∧
    (es.marshal = .error → (rText .other es s).2 = true) ∧
    (choose (parseAccept accept) = some .json → es.json = .error → (rAuto accept v es s).2 = true) ∧
    (choose (parseAccept accept) = some .xml → es.xml = .error → (rAuto accept v es s).2 = true) ∧
    (choose (parseAccept accept) = none → rAuto accept v es s = (s, true)) := by
  have hx : ∀ s : St, (rXML .error s).2 = true := by
    intro s; unfold rXML; simp only; split <;> rfl
  refine ⟨rfl, ?_, hx s, ?_, ?_, ?_, ?_⟩
  · unfold rJSONP; simp only; split <;> rfl
  · intro h; simp [rText, h]
  · intro hc he; rw [C19_negotiate, hc]; simp [rKind, he, rJSON]
  · intro hc he; rw [C19_negotiate, hc]; simp only [rKind, he]; exact hx s
  · intro hc; rw [C19_negotiate, hc]

/-- a failing write of the underlying writer during JSON is reported in `c.Errors` too -/
theorem C19_write_errors_reported (st : Int) (b : Bytes) (w : W) (acc errs : Nat) (rest : Script) :
    (json st (.ok b) ⟨w, (acc, true) :: rest, errs⟩).st.errs = errs + 1 ∧
    (json st (.ok b) ⟨w, (acc, true) :: rest, errs⟩).panicked = false := by
  simp [json, respond, rJSON, St.op, write]

/-- Stream: a failing or short write on the first chunk, or a failing read, is reported -/
theorem C19_stream_errors_reported (st : Int) (ct d : Bytes) (re : RErr) (rest : List (Bytes × RErr))
    (w : W) (acc errs : Nat) (err : Bool) (sc : Script) (hd : d ≠ [])
    (hbad : err = true ∨ acc < d.length) :
    (stream st ct ((d, re) :: rest) ⟨w, (acc, err) :: sc, errs⟩).st.errs = errs + 1 ∧
    (stream st ct ((d, re) :: rest) ⟨w, (acc, err) :: sc, errs⟩).panicked = false := by
  have he : d.isEmpty = false := by cases d <;> simp_all
  have hcond : (err || decide (min acc d.length < d.length)) = true := by
    rcases hbad with h | h
    · simp [h]
    · have : min acc d.length < d.length := by omega
      simp [this]
  simp [stream, copy, he, write, St.op, hcond]

/-! ### non-vacuity -/

def demoSt : St := ⟨⟨404, -1, some (ascii "x/y"), none, []⟩, [], 0⟩

-- the hypotheses of the `_emits` theorems hold for a state with a recorded status and a caller's type
example : demoSt.w.length = -1 ∧ demoSt.script = [] := by decide

-- JSON with status 0: the recorded 404 is committed, the caller's Content-Type stays
example : (json 0 (.ok [123, 125]) demoSt).st.w =
    ⟨404, 3, some (ascii "x/y"), some (some (ascii "x/y")), [.wh 404, .w [123, 125, 10] 3 false]⟩ := by
  decide

-- Text overrides the caller's Content-Type (Header().Set), the renderers do not
example : (text 201 [104, 105] demoSt).st.w.ctype = some (ascii "text/plain; charset=utf-8") := by decide

-- JSONP on a fresh request
example : bodyOf (jsonp 200 (ascii "cb") (.ok (ascii "1")) (St.fresh none [])).st.w.log = ascii "cb(1\n);" := by
  decide

-- unencodable value: reported, the commit still happens at the end with the given status
example : (json 201 .error (St.fresh none [])).st.errs = 1 ∧
    (json 201 .error (St.fresh none [])).st.finish.log = [.wh 201] := by decide

-- a reader that returns its data together with io.EOF, after an empty read
example : bodyOf (stream 200 (ascii "a/b") [([], .none), ([1, 2], .none), ([3], .eof), ([4], .none)]
    (St.fresh none [])).st.finish.log = [1, 2, 3] := by decide

-- negotiation: F12's inputs
example : parseAccept (ascii "application/xml") = [ascii "application/xml"] := by decide
example : choose (parseAccept (ascii "application/xml, application/json")) = some .xml := by decide
example : choose (parseAccept (ascii " text/csv ;q=1 ,, text/xml;q=0.5, text/plain")) = some .xml := by decide
example : choose (parseAccept []) = some .text := by decide
example : choose (parseAccept (ascii "image/png")) = none := by decide

end Rux
