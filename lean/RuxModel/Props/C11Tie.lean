import RuxModel.Model.PathFmt
import RuxModel.Model.Path
/-
  C11 (tie): the normaliser used by the route-table model (C01, C02, C06, C07, C13, C15) is the very
  function the C11 theorems are about.  `fmtPath` / `simpleFmt` (Model/PathFmt.lean) are the total versions;
  `Path.formatPath` returns `Except Panic` with the index accesses explicit, and never takes the panic
  branch (C11_total).
-/
namespace Rux

theorem C11_table_normaliser (strict : Bool) (p : Bytes) : Path.formatPath strict p = .ok (fmtPath strict p) := by
  unfold Path.formatPath fmtPath trimRightSlashSpace
  have hs : Path.slash = (0x2F : Nat) := rfl
  simp only [hs]
  by_cases h1 : p = [] ∨ p = [0x2F]
  · rw [if_pos h1, if_pos h1]
  · rw [if_neg h1, if_neg h1]
    generalize (if (!strict && Bytes.hasSuffix (Bytes.trimSpace p) [0x2F]) = true then
      Bytes.trimRightSpaceOrByte 0x2F (Bytes.trimSpace p) else Bytes.trimSpace p) = p2
    by_cases h2 : p2 = [] ∨ p2 = [0x2F]
    · rw [if_pos h2, if_pos h2]
    · rw [if_neg h2, if_neg h2]
      cases p2 with
      | nil => simp at h2
      | cons c rest =>
        simp only [Path.byteAt, List.getElem?_cons_zero, bind, Except.bind, pure, Except.pure]
        by_cases hc : c ≠ 0x2F
        · rw [if_pos hc, if_pos hc]
        · rw [if_neg hc, if_neg hc]
          have hce : c = 0x2F := by simpa using hc
          cases rest with
          | nil => subst hce; simp at h2
          | cons d rest' =>
            simp only [List.getElem?_cons_succ, List.getElem?_cons_zero]
            by_cases hd : d = 0x2F
            · subst hd; simp
            · rw [if_neg hd]
              split
              · rename_i heq; simp at heq; exact absurd heq.1 hd
              · rfl

theorem C11_table_simple_normaliser (p : Bytes) : Path.simpleFmtPath p = simpleFmt p := rfl

end Rux
