import RuxModel.Props.C09Gen
import RuxModel.Props.C05Gen
import RuxModel.Props.C10Gen
/-
  C04 / C05 on the generated dispatch COMPOSED with the generated `Next` loop: the `ctx.Next()` inside the generated
  `handleHTTPRequest` is the generated `Ctx.Next` (context.go), running handlers that the chain model reads
  (`Tie.modelCall`: action lists, nested `Next()` answered by the chain model).  Then the trace of a request is the
  onion of exactly `chainFor`: global middleware → the route's middleware → the main handler (resp. the 405 / 404
  handlers), each handler's code before its `Next()` in this order and the code after it in reverse order.
-/
set_option linter.unusedSimpArgs false
set_option linter.unusedVariables false
namespace Rux
open GoRt Tie Chain

variable {σ ρ : Type}

/-- `ctx.Next()` of the dispatcher := the generated loop over the chain that `SetHandlers` installed -/
def Tie.nextByGen (s : σ) (c : GCtx) (chain : List Handler) : σ × GCtx × Option Panic :=
  match Gen.Ctx.Next c (modelCall chain) (chain.length + 1) with
  | .ok (some c') => (s, c', none)
  | .ok none => (s, c, none)
  | .error p => (s, c, some p)

/-- **the trace of a dispatched request** (generated `handleHTTPRequest`, its `Next()` = the generated loop): for
    whatever QuickMatch answered (`route`, `params`, `allowed`; no panic), on a context as `Init` leaves it
    (cursor -1, trace empty) and a chain within the documented limit, the body ends without panic in
    `afterChain` of a context whose trace is the onion of `chainFor` — global middleware first, main handler last. -/
theorem C04_gen_dispatch_onion (env : HEnv σ ρ Handler GCtx) (g : Gen.Router) (ctx : GCtx) (s s1 : σ)
    (route : Option ρ) (params : Option KV) (allowed : List Bytes)
    (hnext : env.next = nextByGen)
    (hq : matchOf env g ctx s = (s1, route, params, allowed, none))
    (hi : ctx.index = -1) (hg : ctx.ghost = [])
    (hlen : ((chainFor env s1 route allowed).length : Int) ≤ Facts.abortIndex) :
    ∃ c, bodySpec env g ctx s = afterChain env (s1, c, none) ∧
      c.ghost = (onion 0 (chainFor env s1 route allowed)).1 ∧
      c.index = (if (onion 0 (chainFor env s1 route allowed)).2 then Chain.abortIndex
                 else ((chainFor env s1 route allowed).length : Int) - 1) := by
  rw [C04_gen_dispatch_chain env g ctx s s1 route params allowed hq, hnext]
  generalize hch : chainFor env s1 route allowed = chain at hlen ⊢
  generalize hpc : preludeCtx env ctx (reqPath env g ctx) route params allowed = pc
  have hp : pc.index = -1 ∧ pc.ghost = [] := by
    rw [← hpc]; unfold preludeCtx; split <;> (try split) <;> simp [hi, hg]
  have h1 : (pc.set_handlers (chain.map (fun _ => ()))).index = -1 := hp.1
  have h2 : (pc.set_handlers (chain.map (fun _ => ()))).ghost = [] := hp.2
  have h3 : (pc.set_handlers (chain.map (fun _ => ()))).handlers.length = chain.length := by
    simp [Gen.Ctx.set_handlers]
  obtain ⟨c, hc, htr, hidx⟩ := C05_gen_run_is_onion chain hlen _ h1 h2 h3
  refine ⟨c, ?_, htr, hidx⟩
  unfold nextByGen
  rw [hc]


/-! ### the whole request: `ServeHTTP` as generated, its `handleHTTPRequest` the generated one -/

variable {η γ : Type}

/-- the pool and the dispatcher of `ServeHTTP`, the dispatcher being the GENERATED `handleHTTPRequest` -/
def Tie.serveEnv (g : Gen.Router) (henv : HEnv σ ρ η (Gen.Ctx γ)) (get : σ → σ × Gen.Ctx γ) (put : σ → Gen.Ctx γ → σ) :
    PEnv σ (Gen.Ctx γ) :=
  { poolGet := get, poolPut := put, handle := fun s c => Gen.Router.handleHTTPRequest g c henv s }

/-- **one request, end to end, on generated code only**: `ServeHTTP` takes SOME context from the pool, `Init`
    makes it pristine (`C10_gen_init_pristine`), the dispatcher is the closed form `handleSpec` on it (deferred recover,
    QuickMatch, prelude, chain, OnError, commit), and the context goes back to the pool exactly when the dispatcher
    returned — a panic that escapes (no OnPanic hook, or a hook that panics) leaves the pool without it. -/
theorem C10_gen_request_pipeline (g : Gen.Router) (req : Option Nat) (henv : HEnv σ ρ η (Gen.Ctx γ))
    (get : σ → σ × Gen.Ctx γ) (put : σ → Gen.Ctx γ → σ) (s : σ) :
    Gen.Router.ServeHTTP g () req (serveEnv g henv get put) s =
      match handleSpec henv g (Gen.Ctx.Init (get s).2 () req) (get s).1 with
      | (s2, _, some p) => (s2, some p)
      | (s2, c2, none) => (put s2 c2, none) := by
  rw [C10_gen_serveHTTP]
  simp only [serveEnv, gen_handle_eq_spec]
  rcases handleSpec henv g (Gen.Ctx.Init (get s).2 () req) (get s).1 with ⟨s2, c2, _ | p⟩ <;> rfl

/-- … and its outcome does not depend on which pooled context it got (C03 / C10, end to end) -/
theorem C03_gen_request_pool_choice_irrelevant (g : Gen.Router) (req : Option Nat) (henv : HEnv σ ρ η (Gen.Ctx γ))
    (put : σ → Gen.Ctx γ → σ) (s1 : σ) (c c' : Gen.Ctx γ) (hg : c.ghost = c'.ghost) :
    Gen.Router.ServeHTTP g () req (serveEnv g henv (fun _ => (s1, c)) put) s1 =
      Gen.Router.ServeHTTP g () req (serveEnv g henv (fun _ => (s1, c')) put) s1 := by
  rw [C10_gen_request_pipeline, C10_gen_request_pipeline]
  simp only [C10_gen_init_forgets c c' () req hg]

end Rux
