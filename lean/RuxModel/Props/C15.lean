import RuxModel.Model.URLBuild
import RuxModel.Props.C02
/-
  C15 — A URL built for a named route is routed back to that route.

    "BuildURL(name, values) yields a URL whose path, when requested, is dispatched to that same route
     with exactly those values"
        C15_roundtrip_reading   the text obtained by putting values that satisfy the variables' regexes
                                into the pattern IS an instance of the pattern with exactly those values
        C15_roundtrip_match     hence the matcher accepts it, and where the decomposition is unique it reports
                                exactly those values (C15_roundtrip_unique)
        — that this path then selects the named route is C01_priority (it must be the winner of
          specSelect: no static route or earlier dynamic route shadows it), and it must survive lookup
          normalisation (known finding K1: a path ending in white space or '/' does not; known finding K2:
          with several variables and a value containing '/' the decomposition is not unique).
    "additional non-variable arguments appear as query parameters"          C15_query
    the result does not depend on the order of the arguments (defect F15)    C15_order_independent
    "GetRoute(name) returns the route most recently registered under that name, whichever naming API"
                                                                             C15_named_last_wins,
                                                                             C15_named_others_kept
  NOT proved: that `buildPath` (text substitution on the registered path, as the code does it) equals the
  structured substitution `substSegs` on the compiled levels; that tie is checked by the `url` correspondence
  engine (the built path and its Match result are compared with the model for every generated case).
-/
namespace Rux

/-- values for the variables of a segment list, each in the language of its variable's regex -/
inductive ValuesOK : List Seg → List Bytes → Prop where
  | nil : ValuesOK [] []
  | lit {l rest vs} : ValuesOK rest vs → ValuesOK (.lit l :: rest) vs
  | var {re rest v vs} : Lang re v → ValuesOK rest vs → ValuesOK (.var re :: rest) (v :: vs)

/-- putting such values into the pattern gives an instance of the pattern with exactly those values -/
theorem C15_roundtrip_reading (segs : List Seg) (vs : List Bytes) (h : ValuesOK segs vs) :
    SegsLang segs vs (substSegs segs vs).1 ∧ (substSegs segs vs).2 = [] := by
  induction h with
  | nil => exact ⟨SegsLang.nil, rfl⟩
  | lit _ ih => exact ⟨SegsLang.lit ih.1, ih.2⟩
  | var hv _ ih => exact ⟨SegsLang.var hv ih.1, ih.2⟩

/-- the matcher accepts the built path (a route without optional parts) … -/
theorem C15_roundtrip_match (segs : List Seg) (vs : List Bytes) (h : ValuesOK segs vs) :
    ∃ caps, matchPat [segs] (substSegs segs vs).1 = some caps := by
  have hl : LevelsLang [segs] vs (substSegs segs vs).1 := LevelsLang.last (C15_roundtrip_reading segs vs h).1
  cases hm : matchPat [segs] (substSegs segs vs).1 with
  | some caps => exact ⟨caps, rfl⟩
  | none => exact absurd ⟨vs, hl⟩ ((matchPat_none_iff _ _).mp hm)

/-- … and reports exactly the given values when the built path has only one decomposition -/
theorem C15_roundtrip_unique (segs : List Seg) (vs : List Bytes) (h : ValuesOK segs vs)
    (huniq : ∀ c1 c2, LevelsLang [segs] c1 (substSegs segs vs).1 → LevelsLang [segs] c2 (substSegs segs vs).1 → c1 = c2) :
    matchPat [segs] (substSegs segs vs).1 = some vs := by
  obtain ⟨caps, hc⟩ := C15_roundtrip_match segs vs h
  rw [hc]
  congr 1
  exact huniq _ _ (matchPat_some hc) (LevelsLang.last (C15_roundtrip_reading segs vs h).1)

/-- keys without braces become query parameters, keys with a brace never do -/
theorem C15_query (args : List (Bytes × Bytes)) (kv : Bytes × Bytes) :
    (kv ∈ (splitArgs args).2 ↔ kv ∈ args ∧ isParamKey kv.1 = false) ∧
    (kv ∈ (splitArgs args).1 ↔ kv ∈ args ∧ isParamKey kv.1 = true) := by
  unfold splitArgs
  simp [List.mem_filter]

/-- the built path depends on the arguments only through the value bound to each key — not on their order -/
theorem C15_order_independent (path : Bytes) (p1 p2 : List (Bytes × Bytes))
    (h : ∀ k, argGet p1 k = argGet p2 k) : buildPath path p1 = buildPath path p2 := by
  unfold buildPath buildPairs
  simp only [h]

theorem unique_of_nodup_keys : ∀ (l : List (Bytes × Bytes)), (l.map (·.1)).Nodup →
    ∀ a b, a ∈ l → b ∈ l → a.1 = b.1 → a = b := by
  intro l
  induction l with
  | nil => intro _ a b ha; cases ha
  | cons x t ih =>
    intro hl a b ha hb hk
    simp only [List.map_cons, List.nodup_cons] at hl
    rcases List.mem_cons.mp ha with ea | ha
    · rcases List.mem_cons.mp hb with eb | hb
      · rw [ea, eb]
      · exfalso; apply hl.1; rw [← ea, hk]; exact List.mem_map.mpr ⟨b, hb, rfl⟩
    · rcases List.mem_cons.mp hb with eb | hb
      · exfalso; apply hl.1; rw [← eb, ← hk]; exact List.mem_map.mpr ⟨a, ha, rfl⟩
      · exact ih hl.2 a b ha hb hk

/-- a permutation of arguments with distinct keys binds every key to the same value -/
theorem argGet_perm_nodup {p1 p2 : List (Bytes × Bytes)} (hp : p1.Perm p2) (hn : (p1.map (·.1)).Nodup) (k : Bytes) :
    argGet p1 k = argGet p2 k := by
  have key : ∀ (l : List (Bytes × Bytes)), (l.map (·.1)).Nodup → ∀ v, (k, v) ∈ l → argGet l k = v := by
    intro l hl v hv
    unfold argGet
    have hv' : (k, v) ∈ l.reverse := List.mem_reverse.mpr hv
    cases hf : l.reverse.find? (fun kv => decide (kv.1 = k)) with
    | none =>
      have := List.find?_eq_none.mp hf (k, v) hv'
      simp at this
    | some kv =>
      have hmem := List.mem_reverse.mp (List.mem_of_find?_eq_some hf)
      have hk : kv.1 = k := by simpa using List.find?_some hf
      simp only
      have : kv = (k, v) := unique_of_nodup_keys l hl kv (k, v) hmem hv hk
      rw [this]
  have hn2 : (p2.map (·.1)).Nodup := (hp.map (·.1)).nodup_iff.mp hn
  by_cases hex : ∃ v, (k, v) ∈ p1
  · obtain ⟨v, hv⟩ := hex
    rw [key p1 hn v hv, key p2 hn2 v (hp.mem_iff.mp hv)]
  · have none1 : ∀ (l : List (Bytes × Bytes)), (¬ ∃ v, (k, v) ∈ l) → argGet l k = [] := by
      intro l hl
      unfold argGet
      cases hf : l.reverse.find? (fun kv => decide (kv.1 = k)) with
      | none => rfl
      | some kv =>
        exfalso; apply hl
        have hmem := List.mem_reverse.mp (List.mem_of_find?_eq_some hf)
        have hk : kv.1 = k := by simpa using List.find?_some hf
        exact ⟨kv.2, by rw [← hk]; exact hmem⟩
    rw [none1 p1 hex, none1 p2 (fun ⟨v, hv⟩ => hex ⟨v, hp.mem_iff.mpr hv⟩)]

/-- F15 as a theorem: any reordering of a map's entries builds the same path -/
theorem C15_map_order_irrelevant (path : Bytes) (p1 p2 : List (Bytes × Bytes)) (hp : p1.Perm p2)
    (hn : (p1.map (·.1)).Nodup) : buildPath path p1 = buildPath path p2 :=
  C15_order_independent path p1 p2 (argGet_perm_nodup hp hn)

/-- the latest registration under a (trimmed, non-empty) name is what GetRoute returns -/
theorem C15_named_last_wins (ns : Names) (name : Bytes) (id : Nat) (h : (Bytes.trimSpace name).isEmpty = false) :
    getRoute (nameRoute ns name id) (Bytes.trimSpace name) = some id := by
  unfold nameRoute getRoute
  simp [h]

/-- … and no other name is affected (renaming a route never removes another route's name) -/
theorem C15_named_others_kept (ns : Names) (name other : Bytes) (id : Nat) (h : other ≠ Bytes.trimSpace name) :
    getRoute (nameRoute ns name id) other = getRoute ns other := by
  unfold nameRoute getRoute
  by_cases he : (Bytes.trimSpace name).isEmpty = true
  · simp [he]
  · have he' : (Bytes.trimSpace name).isEmpty = false := by simpa using he
    simp only [he', Bool.false_eq_true, if_false]
    have hne : ¬ Bytes.trimSpace name = other := fun e => h e.symm
    rw [List.find?_cons_of_neg (by simp [hne])]
    congr 1
    induction ns with
    | nil => rfl
    | cons a t ih =>
      by_cases ha : a.1 = Bytes.trimSpace name
      · have : ¬ a.1 = other := fun e => h (e.symm.trans ha)
        rw [List.filter_cons_of_neg (by simp [ha]), List.find?_cons_of_neg (by simp [this])]; exact ih
      · rw [List.filter_cons_of_pos (by simp [ha])]
        by_cases hb : a.1 = other
        · rw [List.find?_cons_of_pos (by simp [hb]), List.find?_cons_of_pos (by simp [hb])]
        · rw [List.find?_cons_of_neg (by simp [hb]), List.find?_cons_of_neg (by simp [hb])]; exact ih

end Rux
