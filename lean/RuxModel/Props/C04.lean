import RuxModel.Lemmas.Chain
import RuxModel.Generated.Facts
/-
  C04 — Middleware runs in global → group → route → handler onion order.

  THIS FILE: the "onion" half of C04 — how a given chain `hs` (a list of handlers, whatever it was
  assembled from) is executed by `Context.Next`.  Model: Model/Chain.lean, lemmas: Lemmas/Chain.lean.
  All theorems hold for every chain of at most `Facts.abortIndex` (= 63) handlers and every behaviour of
  every handler (0, 1, 2, … calls of Next(), before / between / after other actions).

  Clause of the statement                                         theorem
  ----------------------------------------------------------------------------------------------------
  "the handlers run in the order [of the chain]"                  C04_enter_order (enter order = list
  "each at most once"                                               order, no gaps, no repetition; all of
                                                                    them when nobody aborts)
  "the code after Next() runs in exactly the reverse order"       C04_lifo (every behaviour: last in,
                                                                    first out)
                                                                  C04_leave_reversed (everybody calls
                                                                    Next(): leave order = reversed list)
                                                                  C04_next_wraps (what a handler that calls
                                                                    Next() looks like in the trace)
  "a middleware that returns without calling Next() is            C04_no_next_followed
    followed automatically by the rest of the chain"
  handlers calling Next() 2+ times                                C04_extra_next_noop
  all of the above at once                                        C04_onion (run = onion),
                                                                  C04_onion_step (onion in closed form)

  -- C04_chain_of_route: see Props/C12 / Reg
  --   (which chain is assembled for a request: globals at request time ++ groups outer→inner ++ route
  --    middleware ++ [main]; proved by the `reg` worker over the registration-program model.  The
  --    `chain` engine already builds its chains through the real router from global / group / route
  --    middleware + main handler, Use before or after the route, so the assembly is SAMPLED here.)
  -- C04_fallback_chain: see Props/C06 / Dispatch (404/405 run globals ++ noRoute/noAllowed).

  NOT proved here: chain assembly (above); panicking handlers (C09).
-/
namespace Rux
open Chain

/-- run = onion: within the handler limit, the trace of a request is the onion of its chain -/
theorem C04_onion (hs : List Handler) (hlen : (hs.length : Int) ≤ Facts.abortIndex) :
    ∃ idx, serve hs = .ok ⟨idx, (onion 0 hs).1⟩ := by
  have h63 : hs.length ≤ 63 := by simp only [Facts.abortIndex] at hlen; omega
  exact ⟨_, serve_eq_onion hs h63⟩

/-- the onion, one handler at a time (`onionStep`, Model/Chain.lean): handler `i` with actions `h` in
    front of the rest of the chain is
    * `h = pre ++ Next() :: post` (first Next() not preceded by an abort): enter i, `pre`, THE REST OF THE
      CHAIN, `post` (further Next() calls do nothing), leave i;
    * no such Next() and no abort: enter i, `h`, leave i, THE REST OF THE CHAIN;
    * aborted before any Next(): enter i, `h`, leave i. -/
theorem C04_onion_step (i : Nat) (h : Handler) (rest : List Handler) :
    onion i (h :: rest) = onionStep i h (onion (i + 1) rest) := onion_cons i h rest

/-- Enter order is list order: the handlers that start are exactly `0, 1, …, k-1` in this order — each at
    most once —, and when nobody aborts, `k` is the whole chain (whether or not anybody calls Next()). -/
theorem C04_enter_order (hs : List Handler) (hlen : (hs.length : Int) ≤ Facts.abortIndex)
    (st : St) (hrun : serve hs = .ok st) :
    ∃ k, k ≤ hs.length ∧ enters st.trace = List.range k ∧
      ((∀ e ∈ st.trace, e.isAbort = false) → k = hs.length) := by
  have h63 : hs.length ≤ 63 := by simp only [Facts.abortIndex] at hlen; omega
  rw [serve_eq_onion hs h63] at hrun
  simp only [Res.ok.injEq] at hrun
  subst hrun
  obtain ⟨k, hk1, hk2, hck⟩ := serve_check hs
  refine ⟨k, hk1, ?_, ?_⟩
  · have := (check_enters hck).2
    simpa [List.range_eq_range'] using this
  · intro hna
    apply hk2
    have hab := check_ab hck
    simp only [Bool.false_or] at hab
    rw [hab]
    simp only [List.any_eq_false]
    intro e he; simp [hna e he]

/-- Last in, first out, for every behaviour: a `leave` always closes the innermost running handler, a
    handler acts only while it is the innermost running one, and nobody is left open at the end. -/
theorem C04_lifo (hs : List Handler) (hlen : (hs.length : Int) ≤ Facts.abortIndex)
    (st : St) (hrun : serve hs = .ok st) : nest [] st.trace = some [] := by
  have h63 : hs.length ≤ 63 := by simp only [Facts.abortIndex] at hlen; omega
  rw [serve_eq_onion hs h63] at hrun
  simp only [Res.ok.injEq] at hrun
  subst hrun
  obtain ⟨k, _, _, hck⟩ := serve_check hs
  simpa using check_nest hck

/-- Nobody aborts and every handler except possibly the last (the main handler) calls Next() — once or
    several times: all handlers start in list order and the code after Next() runs in exactly the reverse
    order. -/
theorem C04_leave_reversed (hs : List Handler) (hlen : (hs.length : Int) ≤ Facts.abortIndex)
    (hnoAbort : ∀ h ∈ hs, ∀ a ∈ h, a.isAbort = false) (hnext : ∀ h ∈ hs.dropLast, Act.next ∈ h)
    (st : St) (hrun : serve hs = .ok st) :
    enters st.trace = List.range hs.length ∧ leaves st.trace = (List.range hs.length).reverse := by
  have h63 : hs.length ≤ 63 := by simp only [Facts.abortIndex] at hlen; omega
  rw [serve_eq_onion hs h63] at hrun
  simp only [Res.ok.injEq] at hrun
  subst hrun
  obtain ⟨h1, h2, _⟩ := onion_all_next hs 0 hnoAbort hnext
  simp only [List.range_eq_range']
  exact ⟨h1, h2⟩

/-- A handler that returns without calling Next() (and without aborting) is followed by the rest of the
    chain: enter i, its actions, leave i, then the rest. -/
theorem C04_no_next_followed (i : Nat) (h : Handler) (rest : List Handler)
    (hnoNext : Act.next ∉ h) (hnoAbort : ∀ a ∈ h, a.isAbort = false) :
    onion i (h :: rest) =
      ([Ev.enter i] ++ (flat i false h).1 ++ [Ev.leave i] ++ (onion (i + 1) rest).1, (onion (i + 1) rest).2) := by
  rw [onion_cons]
  simp [onionStep, splitNext_none_of_not_mem h hnoNext hnoAbort, flat_no_abort i h false hnoAbort]

/-- A handler that calls Next() (first call not preceded by an abort) wraps the rest of the chain:
    enter i, what it does before, the rest of the chain, what it does after, leave i. -/
theorem C04_next_wraps (i : Nat) (pre post : List Act) (rest : List Handler)
    (hpre : ∀ a ∈ pre, a ≠ Act.next ∧ a.isAbort = false) :
    onion i ((pre ++ Act.next :: post) :: rest) =
      ([Ev.enter i] ++ (flat i false pre).1 ++ (onion (i + 1) rest).1 ++
        (flat i (onion (i + 1) rest).2 post).1 ++ [Ev.leave i],
       (flat i (onion (i + 1) rest).2 post).2) := by
  rw [onion_cons]
  simp [onionStep, splitNext_of_split pre post hpre]

/-- Calling Next() two or more times is the same as calling it once: every Next() after the first
    effective one can be deleted without changing anything. -/
theorem C04_extra_next_noop (i : Nat) (pre post : List Act) (rest : List Handler)
    (hpre : ∀ a ∈ pre, a ≠ Act.next ∧ a.isAbort = false) :
    onion i ((pre ++ Act.next :: post) :: rest) =
      onion i ((pre ++ Act.next :: post.filter (fun a => !decide (a = Act.next))) :: rest) := by
  rw [C04_next_wraps i pre post rest hpre, C04_next_wraps i pre _ rest hpre, flat_filter_next]

/-! ### non-vacuity: handlers calling Next() 0, 1 and 2 times in one chain -/

example : serve [[.emit 1, .next, .emit 2, .next, .emit 3], [.emit 4], [.emit 5, .next, .emit 6], [.emit 7]] =
    .ok ⟨3, [.enter 0, .mark 0 1, .enter 1, .mark 1 4, .leave 1, .enter 2, .mark 2 5, .enter 3, .mark 3 7,
             .leave 3, .mark 2 6, .leave 2, .mark 0 2, .mark 0 3, .leave 0]⟩ := by decide

example : leaves (onion 0 [[.next], [.next, .next], [.emit 1, .next], [.emit 2]]).1 = [3, 2, 1, 0] := by decide

/-- the hypotheses of `C04_leave_reversed` are met by that chain -/
example : (∀ h ∈ [[Act.next], [.next, .next], [.emit 1, .next], [.emit 2]], ∀ a ∈ h, a.isAbort = false) ∧
    (∀ h ∈ [[Act.next], [.next, .next], [.emit 1, .next], [.emit 2]].dropLast, Act.next ∈ h) := by decide

end Rux
