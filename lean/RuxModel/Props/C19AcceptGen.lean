import RuxModel.Generated.Code
import RuxModel.Lemmas.Bind
import RuxModel.Tie.Append
/-
  utils.go `parseAccept` (the Accept header as `Context.AcceptedTypes` hands it out) on the GENERATED code.
-/
namespace Rux

/-- the media type of one item of an Accept header: what stands before the first `;`, white space trimmed -/
def acceptItem (part : Bytes) : Bytes := Bytes.trimSpace ((Bytes.splitOnByte 59 part).headD [])

theorem acc_fold (l : List Bytes) : ∀ acc : List Bytes,
    l.foldl (fun b a => if acceptItem a != [] then b ++ [acceptItem a] else b) acc =
      acc ++ (l.map acceptItem).filter (fun x => x != []) := by
  induction l with
  | nil => intro acc; simp
  | cons a t ih =>
    intro acc
    simp only [List.foldl_cons, List.map_cons, List.filter_cons]
    rw [ih]
    by_cases h : (acceptItem a != []) = true
    · simp [h]
    · simp [h]

/-- **C19 (the input of content negotiation)**: `parseAccept` as generated never panics — the `[0]` of the split is always
    there — and returns, in order, the media types of the comma-separated items with their parameters cut off, empty
    items dropped; the empty header gives the empty list -/
theorem C19_gen_parseAccept (h : Bytes) :
    Gen.parseAccept h =
      .ok (if h = [] then [] else ((Bytes.splitOnByte 44 h).map acceptItem).filter (fun x => x != [])) := by
  unfold Gen.parseAccept
  by_cases he : h = []
  · subst he; rfl
  · have hb : (h == ([] : Bytes)) = false := by simpa using he
    simp only [hb, he, if_false, Bool.false_eq_true, List.headD_cons]
    rw [Tie.forIn_pure (Bytes.splitOnByte 44 h) _
      (fun part r => if acceptItem part != [] then r ++ [acceptItem part] else r)]
    · simp only [bind, Except.bind, pure, Except.pure]
      rw [acc_fold]; simp
    · intro a b
      have hne := Bind.splitOnByte_ne_nil 59 a
      unfold acceptItem
      cases hs : Bytes.splitOnByte 59 a with
      | nil => exact absurd hs hne
      | cons x t =>
        by_cases hx : Bytes.trimSpace x = []
        · simp [hx, bind, Except.bind, pure, Except.pure, GoRt.elemAt]
        · simp [hx, bind, Except.bind, pure, Except.pure, GoRt.elemAt]

/-- `Context.AcceptedTypes` is `parseAccept` of the request's `Accept` header (what `Header.Get("Accept")` answers): it
    never panics and keeps nothing in the context -/
theorem C19_gen_acceptedTypes {γ : Type} (c : Gen.Ctx γ) (hdr : Option Nat → Bytes → List Bytes)
    (hget : Option Nat → Bytes → Bytes) (meth : Option Nat → Bytes) :
    Gen.Ctx.AcceptedTypes c hdr hget meth = Gen.parseAccept (hget c.req [0x41, 0x63, 0x63, 0x65, 0x70, 0x74]) ∧
    ∃ l, Gen.Ctx.AcceptedTypes c hdr hget meth = .ok l := by
  have h : Gen.Ctx.AcceptedTypes c hdr hget meth = Gen.parseAccept (hget c.req [0x41, 0x63, 0x63, 0x65, 0x70, 0x74]) := by
    unfold Gen.Ctx.AcceptedTypes
    simp only [bind_pure]
  exact ⟨h, _, by rw [h, C19_gen_parseAccept]⟩

#guard ([0x41, 0x63, 0x63, 0x65, 0x70, 0x74] : Bytes) = Bytes.ofString "Accept"

end Rux
