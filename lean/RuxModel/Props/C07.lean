import RuxModel.Lemmas.Transparent
import RuxModel.Props.C14
/-
  C07 — The dynamic-route cache never changes what a request observes.
  (and the router-level clause of C14: the entry of exactly that method and path is present after a
   dynamic match, and an immediate repeat is answered from the cache)

  Statement clauses → theorems
    "for every sequence of requests, the selected route, the parameters … are identical to those produced
     by the same router with caching disabled — after evictions, for repeated requests, for HEAD fallbacks
     and for method-not-allowed probes"        C07_transparent  (every history, every capacity incl. 0,
                                               every option combination; the internal probes of HEAD→GET
                                               and 405 discovery go through the same cache)
    the invariant behind it                    C07_cache_coherent (every entry is what the pure lookup gives)
    C14 "the entry for exactly that method and path is present"   C14_router_key
    C14 "an immediate repeat is answered from the cache"          C14_repeat_hits
  Hypotheses: registration finished before the first request (the table is `build o rs`), request methods
  contain no '/', handlers treat Params as read-only (the model has no handler side effects on the cache).
  Responses are a function of the observation `Obs` (route, params | allowed set | not found), see C06.
-/
namespace Rux

theorem foldl_insert_cache (rs : List RouteM) : ∀ rt : RouterM, (rs.foldl insertRoute rt).cache = rt.cache := by
  induction rs with
  | nil => intro rt; rfl
  | cons r rs ih =>
    intro rt
    simp only [List.foldl_cons, ih]
    unfold insertRoute
    by_cases hs : r.static = true
    · simp [hs]
    · by_cases hf : r.info.first.isEmpty = true <;> simp [hs, hf]

/-- a freshly built router has a coherent (empty) cache -/
theorem build_cacheOK (o : Opts) (rs : List RouteM) : CacheOK (build o rs) := by
  unfold CacheOK build
  rw [foldl_insert_cache]
  exact Cache.empty_coherent _ _

/-- the invariant: whatever history has been served, every cache entry is what the pure lookup returns
    for its key, and the tables are untouched -/
theorem C07_cache_coherent (o : Opts) (rs : List RouteM) (h : List (Bytes × Bytes))
    (hm : ∀ mp ∈ h, (0x2F : Nat) ∉ mp.1) :
    ∀ rt, SameTables (build o rs) rt → CacheOK rt →
      SameTables (build o rs) (h.foldl (fun rt mp => (quickMatch rt mp.1 mp.2).2) rt) ∧
      CacheOK (h.foldl (fun rt mp => (quickMatch rt mp.1 mp.2).2) rt) := by
  induction h with
  | nil => intro rt hs hc; exact ⟨hs, hc⟩
  | cons mp h ih =>
    intro rt hs hc
    obtain ⟨_, e2, e3⟩ := quickMatch_spec rt mp.1 mp.2 (hm mp (List.mem_cons_self ..)) hc
    exact ih (fun x hx => hm x (List.mem_cons_of_mem _ hx)) _ (hs.trans e2) e3

/-- the tables of a built router do not depend on the options -/
theorem build_tables (o o' : Opts) (rs : List RouteM) :
    (build o rs).stable = (build o' rs).stable ∧ (build o rs).regular = (build o' rs).regular ∧
    (build o rs).irregular = (build o' rs).irregular := by
  unfold build
  have : ∀ (a b : RouterM), a.stable = b.stable → a.regular = b.regular → a.irregular = b.irregular →
      (rs.foldl insertRoute a).stable = (rs.foldl insertRoute b).stable ∧
      (rs.foldl insertRoute a).regular = (rs.foldl insertRoute b).regular ∧
      (rs.foldl insertRoute a).irregular = (rs.foldl insertRoute b).irregular := by
    induction rs with
    | nil => intro a b h1 h2 h3; exact ⟨h1, h2, h3⟩
    | cons r rs ih =>
      intro a b h1 h2 h3
      simp only [List.foldl_cons]
      apply ih
      · unfold insertRoute
        by_cases hs : r.static = true
        · simp [hs, h1]
        · by_cases hf : r.info.first.isEmpty = true <;> simp [hs, hf, h1]
      · unfold insertRoute
        by_cases hs : r.static = true
        · simp [hs, h2]
        · by_cases hf : r.info.first.isEmpty = true <;> simp [hs, hf, h2]
      · unfold insertRoute
        by_cases hs : r.static = true
        · simp [hs, h3]
        · by_cases hf : r.info.first.isEmpty = true <;> simp [hs, hf, h3]
  exact this _ _ rfl rfl rfl

/-- the stateless specification does not look at the caching options -/
theorem quickPure_caching_irrelevant (o : Opts) (rs : List RouteM) (c : Bool) (cap : Nat) (m p : Bytes) :
    quickPure (build { o with caching := c, cap := cap } rs) m p = quickPure (build o rs) m p := by
  obtain ⟨t1, t2, t3⟩ := build_tables { o with caching := c, cap := cap } o rs
  have hop : (build { o with caching := c, cap := cap } rs).opts = { o with caching := c, cap := cap } := by
    unfold build; rw [foldl_insert_opts]; rfl
  have hop' : (build o rs).opts = o := by unfold build; rw [foldl_insert_opts]; rfl
  have hl : ∀ m q, lookupPure (build { o with caching := c, cap := cap } rs) m q = lookupPure (build o rs) m q := by
    intro m q; unfold lookupPure dynMatch regTier irrTier; rw [t1, t2, t3]
  have ha : ∀ m q, allowedPure (build { o with caching := c, cap := cap } rs) m q = allowedPure (build o rs) m q := by
    intro m q; unfold allowedPure; congr 1; funext x; rw [hl]
  have ht : ∀ m q, tailPure (build { o with caching := c, cap := cap } rs) m q = tailPure (build o rs) m q := by
    intro m q; unfold tailPure; rw [hop, hop', t1, ha]
  have hh : ∀ m q, headPure (build { o with caching := c, cap := cap } rs) m q = headPure (build o rs) m q := by
    intro m q; unfold headPure; rw [hl, ht]
  unfold quickPure
  simp only [hop, hop', hl, hh]

/-- C07: for every table, every option record, every cache capacity (0 included) and every request
    history, the caching router observes exactly what the same router without cache observes -/
theorem C07_transparent (o : Opts) (rs : List RouteM) (cap : Nat) (h : List (Bytes × Bytes))
    (hm : ∀ mp ∈ h, (0x2F : Nat) ∉ mp.1) :
    runQuick (build { o with caching := true, cap := cap } rs) h =
      runQuick (build { o with caching := false, cap := cap } rs) h := by
  rw [runQuick_pure h hm _ _ (SameTables.refl _) (build_cacheOK _ rs),
      runQuick_pure h hm _ _ (SameTables.refl _) (build_cacheOK _ rs)]
  apply List.map_congr_left
  intro mp _
  rw [quickPure_caching_irrelevant o rs true cap, quickPure_caching_irrelevant o rs false cap]

/-- … and both equal the stateless specification request by request -/
theorem C07_history_is_pure (o : Opts) (rs : List RouteM) (h : List (Bytes × Bytes))
    (hm : ∀ mp ∈ h, (0x2F : Nat) ∉ mp.1) :
    runQuick (build o rs) h = h.map fun mp => quickPure (build o rs) mp.1 mp.2 :=
  runQuick_pure h hm _ _ (SameTables.refl _) (build_cacheOK _ rs)

/-! ### C14, router level -/

/-- after a dynamic request has been resolved with caching enabled (capacity ≥ 1), the entry for exactly
    that method and path is present and is the most recent one -/
theorem C14_router_key (rt : RouterM) (m p : Bytes) (hcach : rt.opts.caching = true) (hcap : 1 ≤ rt.cache.cap)
    (hinv : rt.cache.Inv) (hs : alistGet rt.stable (m ++ p) = none)
    (r : RouteM) (ps : Params) (c : Bool) (h : (matchM rt m p).1 = some (r, ps, c)) :
    (matchM rt m p).2.cache.items.head? = some (m ++ p, (r, ps)) := by
  unfold matchM at h ⊢
  rw [hs] at h ⊢
  simp only [hcach, if_true] at h ⊢
  cases hget : (rt.cache.get (m ++ p)).1 with
  | some v =>
    obtain ⟨r', ps'⟩ := v
    have e : rt.cache.get (m ++ p) = (some (r', ps'), (rt.cache.get (m ++ p)).2) := by rw [← hget]
    rw [e] at h ⊢
    simp only [Option.some.injEq, Prod.mk.injEq] at h
    obtain ⟨rfl, rfl, _⟩ := h
    exact C14_mru_get rt.cache (m ++ p) (r', ps') hget
  | none =>
    have e : rt.cache.get (m ++ p) = (none, (rt.cache.get (m ++ p)).2) := by rw [← hget]
    rw [e] at h ⊢
    simp only at h ⊢
    cases hd : dynMatch rt m p with
    | none => rw [hd] at h; simp at h
    | some v =>
      obtain ⟨r', ps'⟩ := v
      rw [hd] at h
      simp only [Option.some.injEq, Prod.mk.injEq] at h
      obtain ⟨rfl, rfl, _⟩ := h
      simp only
      have hmiss := C14_get_miss rt.cache (m ++ p) hget
      rw [hmiss]
      exact C14_mru_set rt.cache (m ++ p) (r', ps') hcap hinv

/-- … so an immediate repeat of the request takes the cache branch and returns the same route and
    parameters -/
theorem C14_repeat_hits (rt : RouterM) (m p : Bytes) (hcach : rt.opts.caching = true) (hcap : 1 ≤ rt.cache.cap)
    (hinv : rt.cache.Inv) (hs : alistGet rt.stable (m ++ p) = none)
    (r : RouteM) (ps : Params) (c : Bool) (h : (matchM rt m p).1 = some (r, ps, c)) :
    (matchM (matchM rt m p).2 m p).1 = some (r, ps, true) := by
  have hk := C14_router_key rt m p hcach hcap hinv hs r ps c h
  have hst : (matchM rt m p).2.stable = rt.stable := by
    unfold matchM; rw [hs]; simp only [hcach, if_true]
    cases hget : (rt.cache.get (m ++ p)).1 with
    | some v =>
      have e : rt.cache.get (m ++ p) = (some v, (rt.cache.get (m ++ p)).2) := by rw [← hget]
      rw [e]
    | none =>
      have e : rt.cache.get (m ++ p) = (none, (rt.cache.get (m ++ p)).2) := by rw [← hget]
      rw [e]; simp only
      cases dynMatch rt m p <;> rfl
  have hop : (matchM rt m p).2.opts = rt.opts := by
    unfold matchM; rw [hs]; simp only [hcach, if_true]
    cases hget : (rt.cache.get (m ++ p)).1 with
    | some v =>
      have e : rt.cache.get (m ++ p) = (some v, (rt.cache.get (m ++ p)).2) := by rw [← hget]
      rw [e]
    | none =>
      have e : rt.cache.get (m ++ p) = (none, (rt.cache.get (m ++ p)).2) := by rw [← hget]
      rw [e]; simp only
      cases dynMatch rt m p <;> rfl
  generalize (matchM rt m p).2 = rt1 at hk hst hop
  unfold matchM
  rw [hst, hs]
  simp only [hop, hcach, if_true]
  have hget : (rt1.cache.get (m ++ p)).1 = some (r, ps) := by
    unfold Cache.get
    cases hi : rt1.cache.items with
    | nil => rw [hi] at hk; simp at hk
    | cons a t =>
      rw [hi] at hk; simp at hk; subst hk
      simp [List.find?]
  have e : rt1.cache.get (m ++ p) = (some (r, ps), (rt1.cache.get (m ++ p)).2) := by rw [← hget]
  rw [e]

end Rux
