import RuxModel.Lemmas.Transparent
import RuxModel.Props.C07
/-
  C06 — Unmatched requests resolve HEAD→GET, fallback route, 405/Allow, 404 in order.

  `quickPure` (Model/Quick.lean) IS the fixed order stated outright; C06_order says that `QuickMatch`
  (with or without cache, any option combination) computes exactly it.  The remaining theorems spell the
  clauses out one by one.

    "a direct match always takes precedence"                           C06_direct_first
    "a HEAD request is served by the matching GET route"               C06_head_get
    "otherwise, if fallback handling is enabled and a '/*' route exists for the method"  C06_fallback
    "otherwise … the allowed set equal to exactly those other methods" C06_not_allowed, C06_allow_exact,
                                                                       C06_allow_nodup
    "otherwise by the not-found handlers"                              C06_not_found
    "with InterceptAll(p) every request is resolved exactly as a request for p"   C06_intercept
    "by default 405 with a sorted Allow header, 200 for OPTIONS; by default 404"  C06_default_responses,
                                                                       C06_allow_sorted
    which chain runs (route / not-allowed with the allowed set / not-found)       C06_chain
  All for every table, every option record, every method without '/', every path.
-/
namespace Rux

/-- `QuickMatch` computes exactly the stated order (any cache state reachable from registration) -/
theorem C06_order (o : Opts) (rs : List RouteM) (h : List (Bytes × Bytes))
    (hm : ∀ mp ∈ h, (0x2F : Nat) ∉ mp.1) :
    runQuick (build o rs) h = h.map fun mp => quickPure (build o rs) mp.1 mp.2 :=
  C07_history_is_pure o rs h hm

/-- the normalised path a request is looked up under -/
def lookupPath (rt : RouterM) (p0 : Bytes) : Bytes :=
  fmtPath rt.opts.strict (if rt.opts.intercept.isEmpty then p0 else rt.opts.intercept)

theorem C06_direct_first (rt : RouterM) (m p0 : Bytes) (r : RouteM) (ps : Params)
    (h : lookupPure rt m (lookupPath rt p0) = some (r, ps)) :
    quickPure rt m p0 = .route r ps := by
  unfold quickPure; simp only; unfold lookupPath at h; rw [h]

theorem C06_head_get (rt : RouterM) (p0 : Bytes) (r : RouteM) (ps : Params)
    (h0 : lookupPure rt methodHEAD (lookupPath rt p0) = none)
    (h : lookupPure rt methodGET (lookupPath rt p0) = some (r, ps)) :
    quickPure rt methodHEAD p0 = .route r ps := by
  unfold quickPure; simp only; unfold lookupPath at h h0; rw [h0]
  simp only; unfold headPure; rw [if_pos rfl, h]

/-- everything before the `/*` step failed -/
def NoDirect (rt : RouterM) (m p0 : Bytes) : Prop :=
  lookupPure rt m (lookupPath rt p0) = none ∧
  (m = methodHEAD → lookupPure rt methodGET (lookupPath rt p0) = none)

theorem quickPure_tail (rt : RouterM) (m p0 : Bytes) (h : NoDirect rt m p0) :
    quickPure rt m p0 = tailPure rt m (lookupPath rt p0) := by
  obtain ⟨h1, h2⟩ := h
  unfold quickPure; simp only; unfold lookupPath at h1 h2 ⊢; rw [h1]
  simp only; unfold headPure
  by_cases hh : m = methodHEAD
  · rw [if_pos hh, h2 hh]
  · rw [if_neg hh]

theorem C06_fallback (rt : RouterM) (m p0 : Bytes) (r : RouteM) (h : NoDirect rt m p0)
    (hf : rt.opts.fallback = true) (hr : alistGet rt.stable (m ++ slashStar) = some r) :
    quickPure rt m p0 = .route r [] := by
  rw [quickPure_tail rt m p0 h]; unfold tailPure; rw [if_pos hf, hr]

theorem C06_not_allowed (rt : RouterM) (m p0 : Bytes) (h : NoDirect rt m p0)
    (hf : rt.opts.fallback = false ∨ alistGet rt.stable (m ++ slashStar) = none)
    (hna : rt.opts.notAllowed = true) (hne : allowedPure rt m (lookupPath rt p0) ≠ []) :
    quickPure rt m p0 = .allowed (allowedPure rt m (lookupPath rt p0)) := by
  rw [quickPure_tail rt m p0 h]; unfold tailPure
  have : (if rt.opts.fallback = true then alistGet rt.stable (m ++ slashStar) else none) = none := by
    rcases hf with hf | hf
    · rw [hf]; rfl
    · rw [hf]; split <;> rfl
  rw [this]; simp only
  rw [if_pos hna]
  have : (allowedPure rt m (lookupPath rt p0)).isEmpty = false := by
    cases hl : allowedPure rt m (lookupPath rt p0) with
    | nil => exact absurd hl hne
    | cons a t => rfl
  rw [this]; rfl

theorem C06_not_found (rt : RouterM) (m p0 : Bytes) (h : NoDirect rt m p0)
    (hf : rt.opts.fallback = false ∨ alistGet rt.stable (m ++ slashStar) = none)
    (hna : rt.opts.notAllowed = false ∨ allowedPure rt m (lookupPath rt p0) = []) :
    quickPure rt m p0 = .notFound := by
  rw [quickPure_tail rt m p0 h]; unfold tailPure
  have : (if rt.opts.fallback = true then alistGet rt.stable (m ++ slashStar) else none) = none := by
    rcases hf with hf | hf
    · rw [hf]; rfl
    · rw [hf]; split <;> rfl
  rw [this]; simp only
  rcases hna with hna | hna
  · rw [hna]; rfl
  · rw [hna]; split <;> rfl

/-- the allowed set is exactly: the supported methods other than the request's own under which the path
    matches a route -/
theorem C06_allow_exact (rt : RouterM) (method path m' : Bytes) :
    m' ∈ allowedPure rt method path ↔
      m' ∈ anyMethodsB ∧ m' ≠ method ∧ (lookupPure rt m' path).isSome = true := by
  unfold allowedPure
  simp [List.mem_filter]

theorem nine_nodup : anyMethodsB.Nodup := by decide

theorem C06_allow_nodup (rt : RouterM) (method path : Bytes) : (allowedPure rt method path).Nodup :=
  List.Nodup.sublist List.filter_sublist nine_nodup

/-- with `InterceptAll(p)` the requested path is irrelevant -/
theorem C06_intercept (rt : RouterM) (m x y : Bytes) (h : rt.opts.intercept.isEmpty = false) :
    quickPure rt m x = quickPure rt m y := by
  unfold quickPure; simp only [h]; rfl

/-- which chain runs -/
theorem C06_chain (o : Obs) :
    (∀ r ps, o = .route r ps → chainOf o = .route r ps) ∧
    (∀ ms, o = .allowed ms → chainOf o = .notAllowed ms) ∧
    (o = .notFound → chainOf o = .notFound) := by
  refine ⟨?_, ?_, ?_⟩ <;> intros <;> subst_vars <;> rfl

/-- the default handlers: 404; 405 with the Allow header, or 200 for OPTIONS -/
theorem C06_default_responses (method : Bytes) (ms : List Bytes) :
    defaultResp method .notFound = some .status404 ∧
    (method = methodOPTIONS → defaultResp method (.notAllowed ms) =
        some (.options200 (Bytes.join [0x2C, 0x20] (sortBytes ms)))) ∧
    (method ≠ methodOPTIONS → defaultResp method (.notAllowed ms) =
        some (.status405 (Bytes.join [0x2C, 0x20] (sortBytes ms)))) := by
  refine ⟨rfl, ?_, ?_⟩
  · intro h; unfold defaultResp; simp [h]
  · intro h; unfold defaultResp; simp [h]

/-- the list in the Allow header is sorted (and a permutation of the allowed set) -/
def SortedB : List Bytes → Prop
  | [] => True
  | [_] => True
  | a :: b :: t => bytesLt b a = false ∧ SortedB (b :: t)

theorem bytesLt_irrefl : ∀ a : Bytes, bytesLt a a = false := by
  intro a; induction a with
  | nil => rfl
  | cons x t ih => simp [bytesLt, ih]

theorem bytesLt_asymm : ∀ a b : Bytes, bytesLt a b = true → bytesLt b a = false := by
  intro a
  induction a with
  | nil => intro b h; cases b <;> simp [bytesLt] at h ⊢
  | cons x s ih =>
    intro b h
    cases b with
    | nil => simp [bytesLt] at h
    | cons y t =>
      simp only [bytesLt] at h ⊢
      by_cases h1 : x < y
      · have : ¬ y < x := by omega
        simp [this, h1]
      · by_cases h2 : x > y
        · simp [h1, h2] at h
        · have hxy : x = y := by omega
          subst hxy
          simp at h ⊢
          exact ih t h

theorem insertSorted_sorted (x : Bytes) : ∀ l : List Bytes, SortedB l → SortedB (insertSorted x l) := by
  intro l
  induction l with
  | nil => intro _; trivial
  | cons y t ih =>
    intro hs
    unfold insertSorted
    by_cases h : bytesLt y x = true
    · rw [if_pos h]
      cases t with
      | nil => simp only [insertSorted]; exact ⟨bytesLt_asymm _ _ h, trivial⟩
      | cons z t' =>
        have hs' : SortedB (z :: t') := hs.2
        have := ih hs'
        unfold insertSorted at this ⊢
        by_cases h2 : bytesLt z x = true
        · rw [if_pos h2] at this ⊢; exact ⟨hs.1, this⟩
        · rw [if_neg h2] at this ⊢; exact ⟨bytesLt_asymm _ _ h, this⟩
    · rw [if_neg h]
      have h' : bytesLt y x = false := by simpa using h
      exact ⟨h', hs⟩

theorem C06_allow_sorted (ms : List Bytes) : SortedB (sortBytes ms) := by
  unfold sortBytes
  induction ms with
  | nil => trivial
  | cons a t ih => simp only [List.foldr_cons]; exact insertSorted_sorted a _ ih

theorem insertSorted_perm (x : Bytes) (l : List Bytes) : (insertSorted x l).Perm (x :: l) := by
  induction l with
  | nil => exact List.Perm.refl _
  | cons y t ih =>
    unfold insertSorted
    split
    · exact (List.Perm.cons y ih).trans (List.Perm.swap x y t)
    · exact List.Perm.refl _

theorem C06_allow_perm (ms : List Bytes) : (sortBytes ms).Perm ms := by
  unfold sortBytes
  induction ms with
  | nil => exact List.Perm.refl _
  | cons a t ih => simp only [List.foldr_cons]; exact (insertSorted_perm a _).trans (List.Perm.cons a ih)

end Rux
