import RuxModel.Lemmas.Rest
import RuxModel.Generated.Facts
/-
  C16 — Resource registers exactly the documented REST table for the controller.

  Model: `Stmt.resource` in Model/Reg.lean (`restRoutes`: the loop of `Router.Resource` over the map
  `RESTFulActions`, whose iteration order is the parameter `rd.order`), `docTable`/`docRows`/`lookup`
  in Model/Rest.lean.  A controller is its method set `rd.impl` (any list of actions = any subset of
  the seven), its optional `Uses()` map `rd.uses`, and what `reflect` says about its kind.

  Clause of the statement                                          theorem
  --------------------------------------------------------------   ------------------------------
  the action table of the code is the documented one               C16_table (over Generated/Facts)
  for exactly the implemented actions the documented               C16_exact (every subset, every
  method/path/name triple, and nothing else                        iteration order), C16_accepts
  Uses() middleware is attached only to its action                 C16_uses_local
  GET /res/create is served by create and never by show            C16_create_not_show
  a non-pointer or non-struct controller is rejected               C16_reject

  Hypotheses: `RestPaths cfg G` — what formatPath/simpleFmtPath do with the four relative paths used
  by `Resource` under the group prefix `G` (discharged for the driver's path functions and every
  clean `G` by `restPaths_clean`; for the Go functions it is C11's business and is sampled by the
  `rest` engine on the base paths "/", "/api/", "/v1.0/").
  NOT proved here: `C16_reachability` for arbitrary probe paths (needs the general table model, C01);
  the `rest` engine samples it with all 9 methods × probe paths against `Rest.resolve`.
-/
namespace Rux
open Reg

/-- `RESTFulActions` as extracted from rux.go is the documented method table, and the documented
    table lists each of the seven actions once with the methods/names the model uses. -/
theorem C16_table :
    Facts.restfulActions.length = 7 ∧
    (∀ a, a ∈ Action.all → Facts.restfulActions.lookup a.goName = some a.methods) ∧
    docTable.map (·.1) = Action.all ∧
    (∀ row, row ∈ docTable → row.2.1 = row.1.methods ∧ row.2.2.2 = row.1.lname) := by decide

/-- For every controller shape (`rd.impl`: any subset of the seven actions), every `Uses()` map,
    every group middleware and EVERY iteration order of the action map (`rd.order`: any permutation of
    the seven actions), a successful `Resource` call adds routes whose (methods, path, name) triples
    are exactly the documented rows of the implemented actions — no row missing, none extra, none
    twice — under the prefix `G` = current prefix + formatted (base path + lower-cased type name). -/
theorem C16_exact (cfg : Cfg) (st st' : RS) (rd : ResDef) (mws : List H)
    (hord : rd.order.Perm Action.all)
    (hp : RestPaths cfg (st.pfx ++ cfg.fmt (rd.base ++ rd.resName)))
    (h : exec cfg st (.resource rd mws) = .ok st') :
    ∃ new, st'.routes = st.routes ++ new ∧
      (new.map Route.triple).Perm
        (docRows (st.pfx ++ cfg.fmt (rd.base ++ rd.resName)) rd.resName (Action.all.filter fun a => decide (a ∈ rd.impl))) := by
  refine ⟨_, resource_routes h, ?_⟩
  have hpfx : (enterScope cfg st.toScope (rd.base ++ rd.resName) mws).pfx = st.pfx ++ cfg.fmt (rd.base ++ rd.resName) := rfl
  rw [docRows_eq, List.map_map]
  have e : (Route.triple ∘ fun a => mkRoute cfg (enterScope cfg st.toScope (rd.base ++ rd.resName) mws) (restDef rd a)) =
      rowOf (st.pfx ++ cfg.fmt (rd.base ++ rd.resName)) rd.resName := by
    funext a
    simp only [Function.comp]
    rw [triple_mkRoute _ (by rw [hpfx]; exact hp), hpfx]
  rw [e]
  apply List.Perm.map
  have h2 : (Action.all.filter fun a => decide (a ∈ Action.all.filter fun a => decide (a ∈ rd.impl))) =
      Action.all.filter fun a => decide (a ∈ rd.impl) := by
    apply List.filter_congr
    intro x hx
    simp [hx]
  rw [h2]
  exact hord.filter _

/-- a valid controller is accepted whenever no route reaches the handler limit -/
theorem C16_accepts (cfg : Cfg) (st : RS) (rd : ResDef) (mws : List H) (hk : rd.kind = .ptrStruct)
    (hl : ∀ r, r ∈ (den cfg st.toScope (.resource rd mws)).1 → r.handlers.length < cfg.limit) :
    ∃ st', exec cfg st (.resource rd mws) = .ok st' :=
  ⟨_, exec_total cfg st (.resource rd mws) (by simp [okCtrl, hk]) hl⟩

/-- The route of action `a` carries the group handlers in effect, the `middles` of the call and
    exactly `Uses()[a]` — the per-action middleware of no other action. -/
theorem C16_uses_local (cfg : Cfg) (st st' : RS) (rd : ResDef) (mws : List H)
    (h : exec cfg st (.resource rd mws) = .ok st') :
    st'.routes = st.routes ++
      (rd.order.filter fun a => decide (a ∈ rd.impl)).map fun a =>
        { id := rd.rid + a.idx, main := rd.rid + a.idx
          name := rd.resName ++ ascii "_" ++ ascii a.lname
          methods := a.methods.map ascii
          path := storedPath cfg (st.pfx ++ cfg.fmt (rd.base ++ rd.resName)) (ascii a.relPath)
          handlers := st.grp ++ mws ++ (rd.uses.lookup a).getD [] } := by
  rw [resource_routes h]
  congr 1
  apply List.map_congr_left
  intro a _
  simp only [mkRoute, restDef, enter_grp]
  cases rd.uses.lookup a <;> simp [enterScope]

/-- `GET G/create` is a static entry that only the create route owns, and static entries are looked
    up before any dynamic route: whatever the registration order, the request is served by create —
    never by show's `G/{id}`. -/
theorem C16_create_not_show (cfg : Cfg) (st st' : RS) (rd : ResDef) (mws : List H)
    (hord : rd.order.Perm Action.all) (hc : Action.aCreate ∈ rd.impl)
    (hp : RestPaths cfg (st.pfx ++ cfg.fmt (rd.base ++ rd.resName)))
    (hG : isFixed (st.pfx ++ cfg.fmt (rd.base ++ rd.resName)) = true)
    (hst : st.routes = [])
    (h : exec cfg st (.resource rd mws) = .ok st') :
    ∃ r, lookup st'.routes (ascii "GET") (st.pfx ++ cfg.fmt (rd.base ++ rd.resName) ++ ascii "/create") = some r ∧
      r.id = rd.rid + Action.aCreate.idx := by
  let sc := enterScope cfg st.toScope (rd.base ++ rd.resName) mws
  have hpfx : sc.pfx = st.pfx ++ cfg.fmt (rd.base ++ rd.resName) := rfl
  refine ⟨mkRoute cfg sc (restDef rd .aCreate), ?_, rfl⟩
  rw [resource_routes h, hst, List.nil_append]
  unfold lookup
  have hf : ((rd.order.filter fun a => decide (a ∈ rd.impl)).map fun a => mkRoute cfg sc (restDef rd a)).filter
      (fun r => isFixed r.path && r.methods.contains (ascii "GET") &&
        r.path == st.pfx ++ cfg.fmt (rd.base ++ rd.resName) ++ ascii "/create") =
      [mkRoute cfg sc (restDef rd .aCreate)] := by
    rw [List.filter_map]
    have : ((fun r : Route => isFixed r.path && r.methods.contains (ascii "GET") &&
        r.path == st.pfx ++ cfg.fmt (rd.base ++ rd.resName) ++ ascii "/create") ∘
        fun a => mkRoute cfg sc (restDef rd a)) = fun a => decide (a = Action.aCreate) := by
      funext a
      simp only [Function.comp]
      rw [← hpfx]
      exact static_create sc (by rw [hpfx]; exact hp) (by rw [hpfx]; exact hG) rd a
    rw [this, filter_eq_create hord rd.impl hc]
    rfl
  rw [hf]
  rfl

/-- a controller that is not a pointer, or a pointer to something that is not a struct, is rejected
    (the call panics) and nothing is registered -/
theorem C16_reject (cfg : Cfg) (st : RS) (rd : ResDef) (mws : List H) (hk : rd.kind ≠ .ptrStruct) :
    exec cfg st (.resource rd mws) = .error .badController := by
  simp [exec, hk]

/-! ### non-vacuity -/

namespace C16ex
def base : Bytes := ascii "/api/"
def res : Bytes := ascii "photo"
/-- a controller with Create, Show, Update and Delete; map order: Delete, Show, Index, Update, Edit, Create, Store -/
def rd : ResDef :=
  { kind := .ptrStruct, base := base, resName := res
    impl := [.aCreate, .aShow, .aUpdate, .aDelete]
    uses := [(.aShow, [7]), (.aIndex, [8])]
    order := [.aDelete, .aShow, .aIndex, .aUpdate, .aEdit, .aCreate, .aStore], rid := 100 }
def triples (r : Except Err RS) : List (List Bytes × Bytes × Bytes × List H) :=
  match r with
  | .ok st => st.routes.map fun r => (r.methods, r.path, r.name, r.handlers)
  | .error _ => []
end C16ex

open C16ex in
example : triples (exec (cleanCfg 63) RS.init (.resource rd [5])) =
    [ ([ascii "DELETE"], ascii "/api/photo/{id}", ascii "photo_delete", [5]),
      ([ascii "GET"], ascii "/api/photo/{id}", ascii "photo_show", [5, 7]),
      ([ascii "PUT", ascii "PATCH"], ascii "/api/photo/{id}", ascii "photo_update", [5]),
      ([ascii "GET"], ascii "/api/photo/create", ascii "photo_create", [5]) ] := by decide

open C16ex in
example : rd.order.Perm Action.all ∧ CleanPath (ascii "/api/photo") ∧ isFixed (ascii "/api/photo") = true := by
  refine ⟨?_, by decide, by decide⟩
  decide

/-- the path hypothesis is satisfiable: the driver's functions meet it under every clean prefix -/
example (G : Bytes) (hG : CleanPath G) : RestPaths (cleanCfg 63) G := restPaths_clean 63 G hG

end Rux
