import RuxModel.Lemmas.Cache
/-
  C14 — The route cache is a bounded LRU map.

  Property theorems only (helper lemmas live in Lemmas/Cache.lean).
  All statements quantify over every capacity (0 included), every key/value type with decidable
  equality on keys, and every operation history from the empty cache.
  The router-level clause ("after a dynamic match the entry for exactly that method and path is
  present, so an immediate repeat is answered from the cache") is `C14_router_key` /
  `C14_repeat_hits` in Props/C07.lean, next to the table model it talks about.
-/
namespace Rux
set_option linter.unusedSectionVars false
variable {K V : Type} [DecidableEq K]

open Cache

/-- never more entries than the capacity, for every history from the empty cache -/
theorem C14_bounded (cap : Nat) (ops : List (CacheOp K V)) :
    ((Cache.empty cap : Cache K V).run ops).len ≤ cap := by
  have h := run_inv ops (Cache.empty cap : Cache K V) (empty_inv cap)
  have hc := run_cap ops (Cache.empty cap : Cache K V)
  have := h.1
  simp only [Cache.len]
  rw [hc] at this
  exact this

/-- never two entries for one key -/
theorem C14_unique_keys (cap : Nat) (ops : List (CacheOp K V)) :
    ((Cache.empty cap : Cache K V).run ops).keys.Nodup :=
  (run_inv ops (Cache.empty cap : Cache K V) (empty_inv cap)).2

/-- a key just stored is the most recent one (any cache that can hold an entry at all) -/
theorem C14_mru_set (c : Cache K V) (k : K) (v : V) (hcap : 1 ≤ c.cap) (hinv : c.Inv) :
    (c.set k v).items.head? = some (k, v) := by
  unfold Cache.set
  split
  · rfl
  · simp only
    split
    · -- over capacity: the back element is dropped, the list had ≥ 1 element besides the new one
      rename_i hlen
      have hl : c.items ≠ [] := by
        intro he; rw [he] at hlen; simp at hlen; omega
      cases hi : c.items with
      | nil => exact absurd hi hl
      | cons a t => simp [List.dropLast]
    · rfl

/-- a key just read (hit) is the most recent one and the value returned is the stored one -/
theorem C14_mru_get (c : Cache K V) (k : K) (v : V) (h : (c.get k).1 = some v) :
    (c.get k).2.items.head? = some (k, v) := by
  unfold Cache.get at h ⊢
  split
  · rename_i kv hf
    have hk : kv.1 = k := by simpa using List.find?_some hf
    rw [hf] at h
    simp at h
    simp [← hk, ← h]
  · rename_i hf; rw [hf] at h; simp at h

/-- a miss changes nothing -/
theorem C14_get_miss (c : Cache K V) (k : K) (h : (c.get k).1 = none) : (c.get k).2 = c := by
  unfold Cache.get at h ⊢
  split
  · rename_i kv hf; rw [hf] at h; simp at h
  · rfl

/-- inserting a NEW key into a FULL cache evicts exactly the least recently used key -/
theorem C14_evicts_lru (c : Cache K V) (k : K) (v : V)
    (hnew : k ∉ c.keys) (hfull : c.len = c.cap) :
    (c.set k v).keys = (k :: c.keys).dropLast := by
  have hany : ¬ c.items.any (fun x => decide (x.1 = k)) = true :=
    fun h => hnew ((any_key_iff _ _).mp h)
  unfold Cache.set
  simp only [hany]
  have hlen : ((k, v) :: c.items).length > c.cap := by
    simp only [Cache.len] at hfull
    simp; omega
  simp only [hlen, if_true, Cache.keys]
  simp [List.map_dropLast]

/-- inserting a new key into a cache that is not full evicts nothing -/
theorem C14_no_evict (c : Cache K V) (k : K) (v : V)
    (hnew : k ∉ c.keys) (hroom : c.len < c.cap) :
    (c.set k v).items = (k, v) :: c.items := by
  have hany : ¬ c.items.any (fun x => decide (x.1 = k)) = true :=
    fun h => hnew ((any_key_iff _ _).mp h)
  unfold Cache.set
  simp only [hany]
  have hlen : ¬ c.cap < c.items.length + 1 := by
    simp only [Cache.len] at hroom; omega
  simp [hlen]

/-- storing an existing key replaces its value, keeps every other entry and their relative order -/
theorem C14_replace (c : Cache K V) (k : K) (v : V) (hold : k ∈ c.keys) :
    (c.set k v).items = (k, v) :: rmKey k c.items ∧
    (c.set k v).keys = k :: c.keys.filter (fun x => !decide (x = k)) := by
  have hany : c.items.any (fun x => decide (x.1 = k)) = true := (any_key_iff _ _).mpr hold
  unfold Cache.set
  simp only [hany, if_true, Cache.keys, List.map_cons, keys_rmKey, and_self]

/-- deleting removes only that key: every other entry stays, in the same order -/
theorem C14_delete_only (c : Cache K V) (k : K) :
    (c.delete k).2.keys = c.keys.filter (fun x => !decide (x = k)) ∧
    (∀ k', k' ≠ k → (c.delete k).2.lookup k' = c.lookup k') ∧
    (c.delete k).1 = decide (k ∈ c.keys) := by
  refine ⟨keys_rmKey c.items k, ?_, ?_⟩
  · intro k' hne
    simp only [Cache.delete, Cache.lookup]
    rw [find?_rmKey_ne c.items hne]
  · simp only [Cache.delete, Cache.keys]
    by_cases h : k ∈ c.items.map (·.1)
    · simp [h, (any_key_iff c.items k).mpr h]
    · have : ¬ c.items.any (fun x => decide (x.1 = k)) = true := fun h' => h ((any_key_iff _ _).mp h')
      simp [h, this]

/-- map refinement, read side: `Get` returns exactly the binding of the pure map view -/
theorem C14_get_is_lookup (c : Cache K V) (k : K) : (c.get k).1 = c.lookup k := by
  unfold Cache.get Cache.lookup
  split <;> rename_i h <;> simp [h]

/-- map refinement, write side: after `Set k v` (capacity ≥ 1) the map view binds `k` to `v` -/
theorem C14_lookup_after_set (c : Cache K V) (k : K) (v : V) (hcap : 1 ≤ c.cap) (hinv : c.Inv) :
    (c.set k v).lookup k = some v := by
  have h := C14_mru_set c k v hcap hinv
  unfold Cache.lookup
  cases hi : (c.set k v).items with
  | nil => rw [hi] at h; simp at h
  | cons a t => rw [hi] at h; simp at h; subst h; simp [List.find?]

/-- map refinement: a binding that survives a `Set` of another key is unchanged by it -/
theorem C14_set_other (c : Cache K V) (k k' : K) (v : V) (hne : k' ≠ k)
    (hin : k' ∈ (c.set k v).keys) : (c.set k v).lookup k' = c.lookup k' := by
  have hk : ¬ k = k' := fun h => hne h.symm
  unfold Cache.lookup
  congr 1
  by_cases hany : c.items.any (fun x => decide (x.1 = k)) = true
  · rw [set_items_hit c k v hany]
    rw [List.find?_cons_of_neg (by simp [hk]), find?_rmKey_ne c.items hne]
  · by_cases hlen : ((k, v) :: c.items).length > c.cap
    · simp only [Cache.keys] at hin
      rw [set_items_evict c k v hany hlen] at hin ⊢
      have hany' : ((k, v) :: c.items).dropLast.any (fun x => decide (x.1 = k')) = true :=
        (any_key_iff _ _).mpr hin
      rw [find?_dropLast_of_any _ _ hany', List.find?_cons_of_neg (by simp [hk])]
    · rw [set_items_room c k v hany hlen]
      rw [List.find?_cons_of_neg (by simp [hk])]

/-- reading never changes the map view (only the recency order) -/
theorem C14_get_keeps_bindings (c : Cache K V) (k k' : K) :
    (c.get k).2.lookup k' = c.lookup k' := by
  unfold Cache.get
  split
  · rename_i kv hf
    have hk : kv.1 = k := by simpa using List.find?_some hf
    unfold Cache.lookup
    simp only
    by_cases hkk : k' = k
    · subst hkk
      simp [List.find?, hk, hf]
    · have h1 : ¬ kv.1 = k' := fun h => hkk (h.symm.trans hk)
      rw [List.find?_cons_of_neg (by simp [h1]), find?_rmKey_ne c.items hkk]
  · rfl

/-! ### non-vacuity: a concrete history in which hits, misses, replacement and eviction all occur -/

def demoOps : List (CacheOp Nat Nat) :=
  [.set 1 10, .set 2 20, .get 1, .set 3 30, .get 2, .set 1 11, .del 3, .len, .has 1]

example : (Cache.empty 2 : Cache Nat Nat).outputs demoOps =
    [.bool true, .bool true, .val (some 10), .bool true, .val none, .bool true, .bool true, .nat 1,
     .bool true] := by decide

example : ((Cache.empty 2 : Cache Nat Nat).run demoOps).keys = [1] := by decide

-- capacity 0: nothing is ever kept
example : ((Cache.empty 0 : Cache Nat Nat).run [.set 1 10, .set 2 20]).keys = [] := by decide

end Rux
