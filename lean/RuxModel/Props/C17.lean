import RuxModel.Lemmas.StaticFlow
/-
  C17 — Static file handlers never serve anything outside their root.

  Statement (properties.jsonl): "StaticDir, StaticFiles, StaticFS and StaticFile only ever return bytes
  of files located under the configured root (or of the single configured file): no request path - with
  dot-dot segments, repeated or encoded slashes or absolute components - yields content from outside it.
  StaticFiles additionally serves only request paths that end in one of the allowed extensions."

  The theorems are about the model of Model/Clean.lean: `serve look m q` is the answer of a router with
  the route(s) of ONE Static* call (`m : Mount`) to the GET request `q` (`URL.Path`, `URL.RawPath`,
  `URL.EscapedPath()` as the server's parser produced them — all three are arbitrary byte strings in the
  theorems), on a file system `look` (arbitrary).  `Resp.opened` lists the full paths handed to `os.Open`,
  `Resp.served` what a 200 answer carries.

  clause                                                            theorem
  ------------------------------------------------------------------------------------------------------
  path.Clean on a rooted path: rooted, no "", ".", ".." element,    C17_clean_rooted
    idempotent
  no request yields content from outside the root                   C17_confined (every root that is an
    (StaticDir / StaticFS over http.Dir / StaticFiles)                absolute path), C17_confined_clean_root
                                                                      (the literal `root ++ "/e1/e2…"` form),
                                                                      C17_under_lexical (what that excludes:
                                                                      the parent, the sibling "root-private")
  what is served was opened (so it is under the root, too)          second half of C17_confined
  the extension survives Clean                                      C17_ext, C17_last_segment (exact condition)
  StaticFiles: a served file has an allowed extension, nothing      C17_ext_served
    is listed
  StaticFiles: a request whose normalised path does not end in      C17_ext_required
    an allowed extension is answered 404 and opens nothing
  StaticFile only ever opens the configured path                    C17_single_file, C17_single_file_regular

  NOT proved (trusted, see level_note): that `look`/the OS resolves a lexical path without leaving the
  root (symlinks, mount points), the bytes net/http sends for an opened file (serveContent), the URL parser
  (how a request line becomes URL.Path/RawPath), the regexp engine (the route `{file:.+}` is modelled as
  "non-empty, no newline", its extension part as a suffix test), StaticFS over a FileSystem other than
  http.Dir, roots that are relative paths.  The correspondence of the model with the real handlers and
  with path.Clean is sampled by the engines `static` and `clean`.
-/
namespace Rux
open Clean Bytes

/-! ### path.Clean -/

/-- `path.Clean("/" ++ s)`, for every byte string `s`: begins with '/', is "/" or consists of proper
    elements only (non-empty, no "." or "..", no '/' inside), and cleaning it again — as `Clean("/" ++ c)`
    (http.Dir.Open) or as `Clean(c)` — changes nothing. -/
theorem C17_clean_rooted (s : Bytes) :
    (cleanRooted s).head? = some slash ∧
    (cleanRooted s = [slash] ∨ ∀ seg ∈ splitOnByte slash ((cleanRooted s).drop 1), Proper seg) ∧
    cleanRooted (cleanRooted s) = cleanRooted s ∧
    cleanAbs (cleanRooted s) = cleanRooted s := by
  have hp := cleanSegs_proper s
  refine ⟨?_, ?_, ?_, ?_⟩
  · obtain ⟨t, ht⟩ := render_head (cleanSegs s)
    unfold cleanRooted; rw [ht]; rfl
  · unfold cleanRooted
    cases hc : cleanSegs s with
    | nil => left; rfl
    | cons a t =>
      right
      rw [hc] at hp
      rw [render_of_ne_nil (by simp), renderRel_cons]
      simp only [List.drop_succ_cons, List.drop_zero]
      rw [split_renderRel a t (hp a (by simp)).2.2.2 (fun x m => (hp x (by simp [m])).2.2.2)]
      exact hp
  · unfold cleanRooted
    rw [cleanSegs_render _ hp]
  · unfold cleanAbs cleanRooted
    rw [cleanSegs_render_drop _ hp]

example : cleanRooted (b!"a/../../www-private/./secret.css") = b!"/www-private/secret.css" := by decide
example : cleanRooted (b!"css//..\\..//a.css/") = b!"/css/..\\../a.css" := by decide
example : cleanRooted (b!"../..") = b!"/" := by decide

/-! ### confinement -/

/-- StaticDir, StaticFS (over http.Dir) and StaticFiles with ANY prefix, extension list,
    UseEncodedPath and StrictLastSlash setting, on ANY file system, for EVERY request: each path handed to `os.Open` is
    `Clean(root)` followed by zero or more proper elements, and whatever a 200 answer carries (a file's
    bytes or a directory listing) is one of the opened paths.  `root` is any absolute path. -/
theorem C17_confined (look : Bytes → Node) (m : Mount) (q : Req) (r' : Bytes)
    (hk : m.kind ≠ .file) (hroot : m.target = slash :: r') :
    (∀ p ∈ (serve look m q).opened, Under m.target p) ∧
    (∀ k, (serve look m q).served = .file k ∨ (serve look m q).served = .listing k →
          k ∈ (serve look m q).opened) := by
  rcases serve_cases look m q hk with ⟨_, h2, h3⟩ | ⟨u, hu⟩
  · rw [h2, h3]; simp
  · rw [hu, hroot]
    exact fileServer_opened look r' u

/-- the same for a clean root "/e1/…/en" (n ≥ 1), in literal form: every opened path is the root itself
    or the root followed by "/x1/x2…" with proper elements -/
theorem C17_confined_clean_root (look : Bytes → Node) (m : Mount) (q : Req) (r : List Bytes)
    (hk : m.kind ≠ .file) (hr : r ≠ []) (hp : AllProper r) (hroot : m.target = render r) :
    ∀ p ∈ (serve look m q).opened, ∃ l, AllProper l ∧ p = m.target ++ renderRel l := by
  intro p hmem
  obtain ⟨t, ht⟩ := render_head r
  have h := (C17_confined look m q t hk (by rw [hroot, ht])).1 p hmem
  rw [hroot] at h ⊢
  exact (under_clean_root r hr hp p).mp h

/-- what "the root followed by proper elements" excludes: such a path is the root or begins with
    `root ++ "/"` — never the parent, never a sibling whose name merely begins with the root's name — and
    none of the elements after the root is ".." -/
theorem C17_under_lexical (root : Bytes) (l : List Bytes) (hl : AllProper l) :
    (root ++ renderRel l = root ∨ hasPrefix (root ++ renderRel l) (root ++ [slash]) = true) ∧
    (∀ seg ∈ l, seg ≠ [dot, dot]) := by
  refine ⟨?_, fun seg m => (hl seg m).2.2.1⟩
  cases l with
  | nil => left; simp [renderRel]
  | cons a t =>
    right
    rw [hasPrefix_iff]
    exact ⟨a ++ renderRel t, by rw [renderRel_cons]; simp⟩

/-- non-vacuity: the hypotheses of the confinement theorems hold for the sandbox of the `static` engine,
    and the attack paths resolve inside it -/
example :
    let m : Mount := { kind := .dir, enc := false, pfx := b!"/static", exts := [],
                       target := b!"/srv/box/www" }
    let look : Bytes → Node := fun p =>
      if p = b!"/srv/box/www-private/secret.css" ∨ p = b!"/srv/box/www/a.css" then .file
      else if p = b!"/srv/box/www" then .dir else .none
    (serve look m { path := b!"/static/../www-private/secret.css", raw := [], esc := [] }).opened
        = [b!"/srv/box/www/www-private/secret.css"] ∧
    (serve look m { path := b!"/static/css/..//a.css", raw := [], esc := [] }).served
        = .file (b!"/srv/box/www/a.css") := by decide

example : AllProper [b!"srv", b!"box", b!"www"] ∧
    render [b!"srv", b!"box", b!"www"] = b!"/srv/box/www" := by
  constructor
  · intro s hs; simp at hs; rcases hs with h | h | h <;> subst h <;> decide
  · decide

/-! ### extensions -/

/-- Clean keeps the last element when it is a proper one (the exact condition: the text after the last
    slash is not "", "." or "..") -/
theorem C17_last_segment (s z : Bytes) (init : List Bytes)
    (h : splitOnByte slash s = init ++ [z]) (hz : Proper z) :
    ∃ y, cleanRooted s = y ++ slash :: z := by
  obtain ⟨A, hA⟩ := cleanSegs_last s z hz init h
  exact ⟨renderRel A, by unfold cleanRooted; rw [hA, render_append_singleton]⟩

/-- a name that ends in "." ++ e still does after Clean — for every `e` that is not empty, not "." and
    contains no slash -/
theorem C17_ext (x e : Bytes) (he : e ≠ []) (hd : e ≠ [dot]) (hs : slash ∉ e) :
    ∃ y, cleanRooted (x ++ dot :: e) = y ++ dot :: e := by
  obtain ⟨A, qq, hA⟩ := cleanSegs_ext x e he hd hs
  exact ⟨renderRel A ++ slash :: qq, by unfold cleanRooted; rw [hA, render_append_singleton]; simp⟩

/-- the condition `e ≠ "."` is needed: "a/" ++ "." ++ "." is "a/..", which cleans to "/" -/
example : cleanRooted (b!"a/" ++ dot :: [dot]) = b!"/" := by decide

/-- StaticFiles: whatever file a request is answered with has a name ending in "." ++ e for an allowed
    `e`, and no directory is ever listed.  Every prefix, every request, every file system; the extension
    alternatives are non-empty, not "." and without '/' (the engine uses alphanumeric ones). -/
theorem C17_ext_served (look : Bytes → Node) (m : Mount) (q : Req) (r' : Bytes)
    (hk : m.kind = .files) (hroot : m.target = slash :: r')
    (hexts : ∀ e ∈ m.exts, e ≠ [] ∧ e ≠ [dot] ∧ slash ∉ e) :
    (∀ k, (serve look m q).served = .file k → ∃ e ∈ m.exts, ∃ y, k = y ++ dot :: e) ∧
    (∀ k, (serve look m q).served ≠ .listing k) := by
  unfold serve
  dsimp only
  rw [hk]
  dsimp only
  split
  · simp
  · rename_i v hv
    obtain ⟨_, _, hext⟩ := capture_some _ _ _ _ hv
    simp only [extsOk, List.any_eq_true] at hext
    obtain ⟨e, hmem, hm⟩ := hext
    obtain ⟨x, hx, rfl⟩ := (extMatch_iff v e).mp hm
    obtain ⟨he, hd, hs⟩ := hexts e hmem
    rw [hroot]
    obtain ⟨h1, h2⟩ := fileServer_ext look r' x e hx he hd hs
    exact ⟨fun k hk => ⟨e, hmem, h1 k hk⟩, h2⟩

/-- StaticFiles: a request whose normalised path (the router's formatPath: white space and — unless
    StrictLastSlash — trailing slashes trimmed) does not end in "." ++ e for an allowed `e` is answered 404 and opens nothing -/
theorem C17_ext_required (look : Bytes → Node) (m : Mount) (q : Req) (hk : m.kind = .files)
    (h : ∀ e ∈ m.exts, hasSuffix (formatPath m.strict (if m.enc then q.esc else q.path)) (dot :: e) = false) :
    (serve look m q).status = 404 ∧ (serve look m q).opened = [] ∧ (serve look m q).served = .nothing := by
  unfold serve
  dsimp only
  rw [hk]
  dsimp only
  split
  · simp
  · rename_i v hv
    obtain ⟨hp, _, hext⟩ := capture_some _ _ _ _ hv
    simp only [extsOk, List.any_eq_true] at hext
    obtain ⟨e, hmem, hm⟩ := hext
    obtain ⟨x, _, rfl⟩ := (extMatch_iff v e).mp hm
    have := h e hmem
    rw [hp] at this
    have hs : hasSuffix (routeStatic m.pfx ++ (x ++ dot :: e)) (dot :: e) = true :=
      (hasSuffix_iff _ _).mpr ⟨routeStatic m.pfx ++ x, by simp⟩
    rw [hs] at this
    exact absurd this (by simp)

/-- non-vacuity: an allowed extension is served, a disallowed one and a traversal are not -/
example :
    let m : Mount := { kind := .files, enc := false, pfx := b!"/assets", exts := [b!"css", b!"js"],
                       target := b!"/srv/box/www" }
    let look : Bytes → Node := fun p =>
      if p = b!"/srv/box/secret.css" ∨ p = b!"/srv/box/www/a.css" ∨ p = b!"/srv/box/www/nodejs" then .file
      else .none
    (serve look m { path := b!"/assets/x/../a.css ", raw := [], esc := [] }).served = .file (b!"/srv/box/www/a.css") ∧
    (serve look m { path := b!"/assets/nodejs", raw := [], esc := [] }).status = 404 ∧
    (serve look m { path := b!"/assets/../secret.css", raw := [], esc := [] }).opened = [b!"/srv/box/www/secret.css"] := by
  decide

/-! ### the single file -/

/-- StaticFile(path, F) for a clean absolute F = "/e1/…/en" (n ≥ 1): for every request and file system,
    the only paths opened are F and — when F turns out to be a directory — F ++ "/index.html"; what is
    served was opened. -/
theorem C17_single_file (look : Bytes → Node) (m : Mount) (q : Req) (init : List Bytes) (z : Bytes)
    (hk : m.kind = .file) (hi : AllProper init) (hz : Proper z) (hF : m.target = render (init ++ [z])) :
    (∀ p ∈ (serve look m q).opened, p = m.target ∨ p = m.target ++ indexPage) ∧
    (∀ k, (serve look m q).served = .file k ∨ (serve look m q).served = .listing k →
          k ∈ (serve look m q).opened) := by
  rcases serve_file_cases look m q hk with h | h
  · rw [h]; simp
  · rw [h, hF]; exact httpServeFile_single look q.path init z hi hz

/-- … and when F is a regular file, nothing but F is opened, nothing but F is served, nothing is listed -/
theorem C17_single_file_regular (look : Bytes → Node) (m : Mount) (q : Req) (init : List Bytes) (z : Bytes)
    (hk : m.kind = .file) (hi : AllProper init) (hz : Proper z) (hF : m.target = render (init ++ [z]))
    (hfile : look m.target = .file) :
    (∀ p ∈ (serve look m q).opened, p = m.target) ∧
    (∀ k, (serve look m q).served = .file k → k = m.target) ∧
    (∀ k, (serve look m q).served ≠ .listing k) := by
  rcases serve_file_cases look m q hk with h | h
  · rw [h]; simp
  · rw [hF] at hfile
    rw [h, hF]; exact httpServeFile_regular look q.path init z hi hz hfile

/-- non-vacuity: the configured file is served; a request with ".." is refused before anything is opened -/
example :
    let m : Mount := { kind := .file, enc := false, pfx := b!"/one.js", exts := [],
                       target := b!"/srv/box/www/a.css" }
    let look : Bytes → Node := fun p => if p = b!"/srv/box/www/a.css" then .file else .none
    (serve look m { path := b!"/one.js/", raw := [], esc := [] }).served = .file (b!"/srv/box/www/a.css") ∧
    (serve look m { path := b!"/one.js/..", raw := [], esc := [] }).opened = [] := by decide

end Rux
