/-
  Go-semantics prelude: byte strings.

  A Go `string` is a sequence of bytes.  The model represents a byte as a `Nat`
  (the harness only ever sends values < 256; theorems quantify over all lists of
  naturals, a superset of all byte strings, which only makes them stronger).
  Core Lean only — this file is linked into the driver executable.
-/
namespace Rux

abbrev Bytes := List Nat

namespace Bytes

/-! ### hex wire format (`-` is the empty string) -/

def hexDigit (n : Nat) : Char :=
  if n < 10 then Char.ofNat (48 + n) else Char.ofNat (87 + n)

def toHex (b : Bytes) : String :=
  if b.isEmpty then "-" else
  String.ofList (b.flatMap fun x => [hexDigit ((x / 16) % 16), hexDigit (x % 16)])

def hexVal (c : Char) : Option Nat :=
  let n := c.toNat
  if 48 ≤ n ∧ n ≤ 57 then some (n - 48)
  else if 97 ≤ n ∧ n ≤ 102 then some (n - 87)
  else if 65 ≤ n ∧ n ≤ 70 then some (n - 55)
  else none

def ofHexChars : List Char → Option Bytes
  | [] => some []
  | [_] => none
  | a :: b :: rest =>
    match hexVal a, hexVal b, ofHexChars rest with
    | some x, some y, some r => some ((x * 16 + y) :: r)
    | _, _, _ => none

def ofHex (s : String) : Option Bytes :=
  if s = "-" then some [] else ofHexChars s.toList

def ofString (s : String) : Bytes := s.toUTF8.toList.map (·.toNat)

/-! ### the `strings` functions rux uses -/

/-- `strings.IndexByte`; `none` is Go's `-1`. -/
def indexByte (s : Bytes) (c : Nat) : Option Nat :=
  match s with
  | [] => none
  | b :: t => if b = c then some 0 else (indexByte t c).map (· + 1)

def hasPrefix : Bytes → Bytes → Bool
  | _, [] => true
  | [], _ :: _ => false
  | a :: s, b :: p => a = b && hasPrefix s p

def hasSuffix (s p : Bytes) : Bool := hasPrefix s.reverse p.reverse

/-- `strings.TrimLeft(s, string(c))` for a single cut byte. -/
def trimLeftByte (c : Nat) : Bytes → Bytes
  | [] => []
  | b :: t => if b = c then trimLeftByte c t else b :: t

/-- `strings.TrimRight(s, string(c))` for a single cut byte. -/
def trimRightByte (c : Nat) (s : Bytes) : Bytes := (trimLeftByte c s.reverse).reverse

def isAsciiSpace (b : Nat) : Bool :=
  b = 0x20 || (0x09 ≤ b && b ≤ 0x0D)

/-- `a b` is the UTF-8 encoding of a two-byte white-space rune: U+0085, U+00A0 -/
def isSp2 (a b : Nat) : Bool := a = 0xC2 && (b = 0x85 || b = 0xA0)

/-- `a b c` is the UTF-8 encoding of a three-byte white-space rune:
    U+1680, U+2000–U+200A, U+2028, U+2029, U+202F, U+205F, U+3000 -/
def isSp3 (a b c : Nat) : Bool :=
  (a = 0xE1 && b = 0x9A && c = 0x80) ||
  (a = 0xE2 && b = 0x80 && ((0x80 ≤ c && c ≤ 0x8A) || c = 0xA8 || c = 0xA9 || c = 0xAF)) ||
  (a = 0xE2 && b = 0x81 && c = 0x9F) ||
  (a = 0xE3 && b = 0x80 && c = 0x80)

/-- `w` is the UTF-8 encoding of exactly one white-space rune (`unicode.IsSpace`) -/
def isWsRune : Bytes → Bool
  | [a] => isAsciiSpace a
  | [a, b] => isSp2 a b
  | [a, b, c] => isSp3 a b c
  | _ => false

/-- length (1–3) of a Unicode white-space rune encoded at the head of `s`, 0 if there is none.
    `unicode.IsSpace`: `\t \n \v \f \r ' '`, U+0085, U+00A0, U+1680, U+2000–U+200A, U+2028, U+2029,
    U+202F, U+205F, U+3000.  (This is what `utf8.DecodeRuneInString` + `unicode.IsSpace` see at the
    front of a Go string: an invalid or truncated sequence decodes to U+FFFD, which is no space.) -/
def spaceAtHead : Bytes → Nat
  | [] => 0
  | [a] => if isAsciiSpace a then 1 else 0
  | [a, b] => if isAsciiSpace a then 1 else if isSp2 a b then 2 else 0
  | a :: b :: c :: _ =>
    if isAsciiSpace a then 1 else if isSp2 a b then 2 else if isSp3 a b c then 3 else 0

/-- the same test on the reversed string (the rune's bytes appear last-first): what
    `utf8.DecodeLastRuneInString` + `unicode.IsSpace` see at the END of the original string. -/
def spaceAtHeadRev : Bytes → Nat
  | [] => 0
  | [a] => if isAsciiSpace a then 1 else 0
  | [a, b] => if isAsciiSpace a then 1 else if isSp2 b a then 2 else 0
  | a :: b :: c :: _ =>
    if isAsciiSpace a then 1 else if isSp2 b a then 2 else if isSp3 c b a then 3 else 0

theorem spaceAtHead_le (s : Bytes) : spaceAtHead s ≤ s.length := by
  unfold spaceAtHead
  split <;> (repeat' split) <;> simp

theorem spaceAtHeadRev_le (s : Bytes) : spaceAtHeadRev s ≤ s.length := by
  unfold spaceAtHeadRev
  split <;> (repeat' split) <;> simp

/-- repeatedly drop the `f s` leading bytes while `f s > 0` (fuel = length suffices when
    `f s ≤ s.length`, so the recursion is structural). -/
def dropSpaces (f : Bytes → Nat) : Nat → Bytes → Bytes
  | 0, s => s
  | fuel + 1, s =>
    match f s with
    | 0 => s
    | n + 1 => dropSpaces f fuel (s.drop (n + 1))

def trimLeftSpace (s : Bytes) : Bytes := dropSpaces spaceAtHead s.length s

def trimRightSpace (s : Bytes) : Bytes := (dropSpaces spaceAtHeadRev s.length s.reverse).reverse

/-- `strings.TrimSpace` (= `TrimRightFunc(TrimLeftFunc(s, unicode.IsSpace), unicode.IsSpace)`). -/
def trimSpace (s : Bytes) : Bytes := trimRightSpace (trimLeftSpace s)

/-- is the byte string well-formed UTF-8 (as `utf8.ValidString`)? -/
def validUTF8 : Bytes → Bool
  | [] => true
  | b :: t =>
    if b < 0x80 then validUTF8 t
    else if 0xC2 ≤ b ∧ b ≤ 0xDF then
      match t with
      | c1 :: t' => (0x80 ≤ c1 && c1 ≤ 0xBF) && validUTF8 t'
      | _ => false
    else if 0xE0 ≤ b ∧ b ≤ 0xEF then
      match t with
      | c1 :: c2 :: t' =>
        let lo := if b = 0xE0 then 0xA0 else 0x80
        let hi := if b = 0xED then 0x9F else 0xBF
        (lo ≤ c1 && c1 ≤ hi) && (0x80 ≤ c2 && c2 ≤ 0xBF) && validUTF8 t'
      | _ => false
    else if 0xF0 ≤ b ∧ b ≤ 0xF4 then
      match t with
      | c1 :: c2 :: c3 :: t' =>
        let lo := if b = 0xF0 then 0x90 else 0x80
        let hi := if b = 0xF4 then 0x8F else 0xBF
        (lo ≤ c1 && c1 ≤ hi) && (0x80 ≤ c2 && c2 ≤ 0xBF) && (0x80 ≤ c3 && c3 ≤ 0xBF) && validUTF8 t'
      | _ => false
    else false

/-- on the reversed string: one trailing rune that is the ASCII byte `c` or white space -/
def spaceOrByteAtHeadRev (c : Nat) (s : Bytes) : Nat :=
  match s with
  | [] => 0
  | b :: _ => if b = c then 1 else spaceAtHeadRev s

/-- `strings.TrimRightFunc(s, func(r rune) bool { return r == c || unicode.IsSpace(r) })`
    for an ASCII byte `c`. -/
def trimRightSpaceOrByte (c : Nat) (s : Bytes) : Bytes :=
  (dropSpaces (spaceOrByteAtHeadRev c) s.length s.reverse).reverse

/-- ASCII upper-casing, as `strings.ToUpper` does on ASCII input. -/
def toUpper (s : Bytes) : Bytes := s.map fun b => if 97 ≤ b ∧ b ≤ 122 then b - 32 else b

/-- `strings.Replace(s, ".", "\\.", -1)` -/
def quoteDots (s : Bytes) : Bytes := s.flatMap fun b => if b = 0x2E then [0x5C, 0x2E] else [b]

/-- `strings.Count(s, string(c))` -/
def countByte (s : Bytes) (c : Nat) : Nat := (s.filter (· = c)).length

/-- split at every occurrence of the byte `c` (like `strings.Split`) -/
def splitOnByte (c : Nat) : Bytes → List Bytes
  | [] => [[]]
  | b :: t =>
    match splitOnByte c t with
    | [] => [[]]            -- unreachable: the result is never empty
    | hd :: tl => if b = c then [] :: hd :: tl else (b :: hd) :: tl

def join (sep : Bytes) : List Bytes → Bytes
  | [] => []
  | [a] => a
  | a :: rest => a ++ sep ++ join sep rest

end Bytes

/-! ### wire helpers for the driver -/

def boolStr (b : Bool) : String := if b then "1" else "0"

def natOfStr? (s : String) : Option Nat := s.toNat?

def intOfStr? (s : String) : Option Int :=
  if s.startsWith "-" then (s.drop 1).toNat?.map fun n => -(n : Int)
  else s.toNat?.map fun n => (n : Int)

end Rux
