import RuxModel.Go.Bytes
/-
  Go run-time panics as data (DESIGN.md §4): a panicking operation of the Go code is an
  `Except Panic _` in the model, never silently totalised.
-/
namespace Rux

inductive Panic where
  | index                 -- index / slice bounds out of range
  | nil                   -- nil dereference, write to a nil map
  | msg (text : Bytes)    -- explicit panic(...) with a message
  | value                 -- any other panic value
  deriving DecidableEq, Repr

def Panic.cls : Panic → String
  | .index => "panic:index"
  | .nil => "panic:nil"
  | .msg _ => "panic:msg"
  | .value => "panic:msg"

-- results of panicking operations can be compared by `decide`
deriving instance DecidableEq for Except

end Rux
