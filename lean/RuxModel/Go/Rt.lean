import RuxModel.Go.Bytes
import RuxModel.Go.Panic
/-
  Run-time support for the definitions that go/go2lean generates from the Go source
  (RuxModel/Generated/Code.lean).  Core Lean only.
-/
namespace Rux
namespace GoRt

/-- type of a definition the translator could not produce; nothing can be proved about it -/
structure Untranslatable where
  why : String

/-- conversion to `int8` / `int8` overflow: two's complement wrap-around -/
def wrap8 (x : Int) : Int := (x + 128) % 256 - 128

/-- Go `s[i]` on a string -/
def byteAt (s : Bytes) (i : Int) : Except Panic Nat :=
  if i < 0 then .error .index else
  match s[i.toNat]? with
  | some b => .ok b
  | none => .error .index

/-- Go `xs[i]` on a `[]string` -/
def elemAt (s : List Bytes) (i : Int) : Except Panic Bytes :=
  if i < 0 then .error .index else
  match s[i.toNat]? with
  | some b => .ok b
  | none => .error .index

/-- Go `s[lo:hi]` on a string: panics unless `0 ≤ lo ≤ hi ≤ len(s)` -/
def slice (s : Bytes) (lo hi : Int) : Except Panic Bytes :=
  if 0 ≤ lo ∧ lo ≤ hi ∧ hi ≤ s.length then .ok ((s.drop lo.toNat).take (hi.toNat - lo.toNat))
  else .error .index

/-- `strings.IndexByte`, with Go's `-1` -/
def indexByte (s : Bytes) (c : Nat) : Int :=
  match Bytes.indexByte s c with
  | some i => i
  | none => -1

/-- first position at which `sub` is a prefix of the rest of `s` -/
def indexFrom (sub : Bytes) : Bytes → Nat → Option Nat
  | [], k => if sub = [] then some k else none
  | b :: t, k => if Bytes.hasPrefix (b :: t) sub then some k else indexFrom sub t (k + 1)

/-- `strings.Index`, with Go's `-1` -/
def index (s sub : Bytes) : Int :=
  match indexFrom sub s 0 with
  | some i => i
  | none => -1

/-- `Id` plumbing of the generated `Id.run do` blocks (both sides are definitionally equal) -/
theorem idPure {α : Type} (a : α) : (pure a : Id α) = a := rfl
theorem idBind {α β : Type} (x : Id α) (f : α → Id β) : x >>= f = f x := rfl

/-- calls received by the `http.ResponseWriter` underneath rux's `responseWriter` -/
inductive WEv
  | writeHeader (code : Int)
  | write (b : Bytes) (n : Int) (err : Bool)
  | flush
  deriving DecidableEq, Repr

/-- what `Router.QuickMatch` calls, over an abstract router state `σ` (the route cache may change when a
    dynamic route is matched), abstract routes `ρ` and parameter maps `π` -/
structure QMEnv (σ ρ π : Type) where
  /-- `r.match(method, path)` -/
  match_ : σ → Bytes → Bytes → (Option ρ × Option π) × σ
  /-- `r.findAllowedMethods(method, path)` -/
  findAllowed : σ → Bytes → Bytes → List Bytes × σ
  /-- `r.stableRoutes[key]` -/
  stable : σ → Bytes → Option ρ

end GoRt
end Rux
