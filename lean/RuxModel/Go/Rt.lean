import RuxModel.Go.Bytes
import RuxModel.Go.Panic
/-
  Run-time support for the definitions that go/go2lean generates from the Go source
  (RuxModel/Generated/Code.lean).  Core Lean only.
-/
namespace Rux
namespace GoRt

/-- a string-keyed map (Params) as an association list -/
abbrev KV := List (Bytes × Bytes)

/-- type of a definition the translator could not produce; nothing can be proved about it -/
structure Untranslatable where
  why : String

/-- conversion to `int8` / `int8` overflow: two's complement wrap-around -/
def wrap8 (x : Int) : Int := (x + 128) % 256 - 128

/-- Go `s[i]` on a string -/
def byteAt (s : Bytes) (i : Int) : Except Panic Nat :=
  if i < 0 then .error .index else
  match s[i.toNat]? with
  | some b => .ok b
  | none => .error .index

/-- Go `xs[i]` on a `[]string` -/
def elemAt (s : List Bytes) (i : Int) : Except Panic Bytes :=
  if i < 0 then .error .index else
  match s[i.toNat]? with
  | some b => .ok b
  | none => .error .index

/-- Go `s[lo:hi]` on a string: panics unless `0 ≤ lo ≤ hi ≤ len(s)` -/
def slice (s : Bytes) (lo hi : Int) : Except Panic Bytes :=
  if 0 ≤ lo ∧ lo ≤ hi ∧ hi ≤ s.length then .ok ((s.drop lo.toNat).take (hi.toNat - lo.toNat))
  else .error .index

/-- Go `xs[i]` on a slice -/
def listAt {α : Type} (s : List α) (i : Int) : Except Panic α :=
  if i < 0 then .error .index else
  match s[i.toNat]? with
  | some b => .ok b
  | none => .error .index

/-- Go `xs[lo:hi]` on a slice (capacity = length here) -/
def sliceList {α : Type} (s : List α) (lo hi : Int) : Except Panic (List α) :=
  if 0 ≤ lo ∧ lo ≤ hi ∧ hi ≤ s.length then .ok ((s.drop lo.toNat).take (hi.toNat - lo.toNat))
  else .error .index

/-- `for i, v := range xs`: the (index, element) pairs -/
def enumFrom {α : Type} (k : Int) : List α → List (Int × α)
  | [] => []
  | x :: t => (k, x) :: enumFrom (k + 1) t

def enum {α : Type} (xs : List α) : List (Int × α) := enumFrom 0 xs

/-- `m[k] = v` on a string map kept as an association list (latest binding first, older one removed) -/
def kvSet (m : KV) (k v : Bytes) : KV := (k, v) :: m.filter (fun x => x.1 != k)

/-- `m[k] = v` on a nil-able map that is not nil (`make` was called on it); an assignment to a nil map panics in Go,
    the translated code only uses this on maps it has just made, and `none` stays `none` so that nothing can be
    concluded from such a use -/
def kvSetO (m : Option KV) (k v : Bytes) : Option KV := m.map fun l => kvSet l k v

/-- `v, ok := m[k]` on a nil-able string map (reading a nil map finds nothing) -/
def kvGetO (m : Option KV) (k : Bytes) : Bytes × Bool :=
  match (m.getD []).find? (fun x => x.1 == k) with
  | some x => (x.2, true)
  | none => ([], false)

/-- `m[k]` on a string-valued Go map (the zero value "" when the key is absent) -/
def kvGetD (m : KV) (k : Bytes) : Bytes :=
  match m.find? (fun x => x.1 == k) with
  | some x => x.2
  | none => []

/-- `strings.ToLower` on ASCII text (type and method names) -/
def toLower (s : Bytes) : Bytes := s.map fun b => if 65 ≤ b ∧ b ≤ 90 then b + 32 else b

/-- `strings.SplitN(s, string(c), 2)`: cut at the first `c` -/
def splitN2 (s : Bytes) (c : Nat) : List Bytes :=
  match Bytes.indexByte s c with
  | some i => [s.take i, s.drop (i + 1)]
  | none => [s]

/-- `strings.IndexByte`, with Go's `-1` -/
def indexByte (s : Bytes) (c : Nat) : Int :=
  match Bytes.indexByte s c with
  | some i => i
  | none => -1

/-- first position at which `sub` is a prefix of the rest of `s` -/
def indexFrom (sub : Bytes) : Bytes → Nat → Option Nat
  | [], k => if sub = [] then some k else none
  | b :: t, k => if Bytes.hasPrefix (b :: t) sub then some k else indexFrom sub t (k + 1)

/-- `strings.Index`, with Go's `-1` -/
def index (s sub : Bytes) : Int :=
  match indexFrom sub s 0 with
  | some i => i
  | none => -1

/-- `Id` plumbing of the generated `Id.run do` blocks (both sides are definitionally equal) -/
theorem idPure {α : Type} (a : α) : (pure a : Id α) = a := rfl
theorem idBind {α β : Type} (x : Id α) (f : α → Id β) : x >>= f = f x := rfl

/-- calls received by the `http.ResponseWriter` underneath rux's `responseWriter` -/
inductive WEv
  | writeHeader (code : Int)
  | write (b : Bytes) (n : Int) (err : Bool)
  | flush
  deriving DecidableEq, Repr

/-! ### `container/list` and `map[string]*list.Element` as used by route_cache.go

  A list element has an identity (the pointer in Go); `*list.Element` and `*cacheNode` values are `Option Nat`
  (`none` = nil).  Operations on a nil or foreign element do nothing (in Go they would panic or corrupt the
  list; `cachedRoutes` never does that — part of the refinement proof in Tie/Cache.lean). -/

structure LElem (ρ : Type) where
  id : Nat
  key : Bytes
  val : Option ρ
  deriving Repr

/-- front first; `nextId` = the identity the next pushed element gets -/
structure LList (ρ : Type) where
  items : List (LElem ρ) := []
  nextId : Nat := 0
  deriving Repr

instance {ρ : Type} : Inhabited (LList ρ) := ⟨{}⟩

namespace LList
variable {ρ : Type}

def len (l : LList ρ) : Int := l.items.length

def find (l : LList ρ) (e : Option Nat) : Option (LElem ρ) :=
  match e with
  | none => none
  | some i => l.items.find? (fun x => x.id == i)

def pushFront (l : LList ρ) (kv : Bytes × Option ρ) : LList ρ × Option Nat :=
  ({ items := ⟨l.nextId, kv.1, kv.2⟩ :: l.items, nextId := l.nextId + 1 }, some l.nextId)

def remove (l : LList ρ) (e : Option Nat) : LList ρ :=
  match e with
  | none => l
  | some i => { l with items := l.items.filter (fun x => x.id != i) }

def moveToFront (l : LList ρ) (e : Option Nat) : LList ρ :=
  match l.find e with
  | none => l
  | some x => { l with items := x :: (l.items.filter (fun y => y.id != x.id)) }

def back (l : LList ρ) : Option Nat := l.items.getLast?.map (·.id)

def setVal (l : LList ρ) (e : Option Nat) (v : Option ρ) : LList ρ :=
  match e with
  | none => l
  | some i => { l with items := l.items.map (fun x => if x.id == i then { x with val := v } else x) }

def valOf (l : LList ρ) (e : Option Nat) : Option ρ := (l.find e).bind (·.val)

def keyOf (l : LList ρ) (e : Option Nat) : Bytes := ((l.find e).map (·.key)).getD []

end LList

/-- `map[string]*list.Element` as an association list (first binding of a key is the live one) -/
structure HMap where
  items : List (Bytes × Nat) := []
  deriving Repr

instance : Inhabited HMap := ⟨{}⟩

namespace HMap

def get (m : HMap) (k : Bytes) : Option Nat := (m.items.find? (fun x => x.1 == k)).map (·.2)

def del (m : HMap) (k : Bytes) : HMap := { items := m.items.filter (fun x => x.1 != k) }

/-- `m[k] = e` (storing a nil element does not happen in route_cache.go; it is modelled as a deletion) -/
def set (m : HMap) (k : Bytes) (e : Option Nat) : HMap :=
  match e with
  | none => m.del k
  | some i => { items := (k, i) :: (m.del k).items }

end HMap

/-- values stored in the context data map by rux itself -/
inductive DV
  | str (b : Bytes)
  | strs (l : List Bytes)
  | pv (p : Panic)
  | handler
  deriving DecidableEq, Repr

class ToDV (α : Type) where
  toDV : α → DV

instance : ToDV Bytes := ⟨DV.str⟩
instance : ToDV (List Bytes) := ⟨DV.strs⟩
instance : ToDV Panic := ⟨DV.pv⟩

/-- the context data map (`map[string]any`) -/
abbrev Data := List (Bytes × DV)

/-- `c.Set(key, val)`: creates the map when it is nil -/
def dataSet (d : Option Data) (k : Bytes) (v : DV) : Option Data :=
  some ((k, v) :: ((d.getD []).filter (fun x => x.1 != k)))

/-- `m[k] = v` on the data map (a store into a nil map panics in Go; the translated code makes the map first, and `none`
    stays `none` so that nothing can be concluded from such a use) -/
def dataPut (d : Option Data) (k : Bytes) (v : DV) : Option Data :=
  d.map fun l => (k, v) :: l.filter (fun x => x.1 != k)

instance : Inhabited DV := ⟨DV.str []⟩

/-- `v, ok := m[k]` on the data map (reading a nil map is fine in Go: nothing is found); the zero value of `any` is
    represented by the default `DV` together with `ok = false` -/
def dataGet (d : Option Data) (k : Bytes) : DV × Bool :=
  match (d.getD []).find? (fun x => x.1 == k) with
  | some x => (x.2, true)
  | none => (default, false)

/-- what a gate middleware does to the context (pkg/handlers) -/
inductive GEv
  | header (k v : Bytes)
  | abort (code : Int)
  | set (k v : Bytes)
  deriving DecidableEq, Repr

/-- Go map lookup `v, ok := m[k]` on an association list (first binding) -/
def mapGet (m : List (Bytes × Bytes)) (k : Bytes) : Bytes × Bool :=
  match m.find? (fun x => x.1 == k) with
  | some x => (x.2, true)
  | none => ([], false)

/-- the request as the method-override handler sees it: method, the `_method`/other form values (`FormValue`),
    the headers (`Header.Get`), and the original method recorded in the request context -/
structure OReq where
  method : Bytes
  formValue : Bytes → Bytes
  header : Bytes → Bytes
  original : Option Bytes := none

/-- `strings.Contains` -/
def contains (s sub : Bytes) : Bool := decide (index s sub ≥ 0)

/-- the request as `binding.Auto` sees it -/
structure BReq where
  method : Bytes
  header : Bytes → Bytes

/-- which binder `binding.Auto` handed the request to -/
inductive BindSrc
  | none | query | form | multipart | json | xml
  deriving DecidableEq, Repr

/-- `m[k] = 1` on a Go map used as a set (represented by the list of its keys, in insertion order) -/
def setInsert (l : List Bytes) (k : Bytes) : List Bytes := if k ∈ l then l else l ++ [k]

/-- what `Router.QuickMatch` calls, over an abstract router state `σ` (the route cache may change when a
    dynamic route is matched), abstract routes `ρ` and parameter maps `π` -/
structure QMEnv (σ ρ π : Type) where
  /-- `r.match(method, path)` -/
  match_ : σ → Bytes → Bytes → (Option ρ × Option π) × σ
  /-- `r.findAllowedMethods(method, path)` -/
  findAllowed : σ → Bytes → Bytes → List Bytes × σ
  /-- `r.stableRoutes[key]` -/
  stable : σ → Bytes → Option ρ

/-- what `Router.match` works on: the static table, the route cache, the two maps of route lists, and the
    per-route operations, over an abstract router state `σ`, routes `ρ`, params `π` -/
structure MEnv (σ ρ π : Type) where
  /-- `r.stableRoutes[key]` -/
  stable : σ → Bytes → Option ρ
  /-- `r.cachedRoutes.Get(key)`: (route, found) and the new state (recency changes) -/
  cacheGet : σ → Bytes → (Option ρ × Bool) × σ
  /-- `route.params.clone()` of a cached route -/
  paramsClone : Option ρ → Option π
  /-- `r.regularRoutes[key]`: (list, present) -/
  regular : σ → Bytes → List ρ × Bool
  /-- `r.irregularRoutes[method]`: (list, present) -/
  irregular : σ → Bytes → List ρ × Bool
  /-- `route.start` -/
  start : ρ → Bytes
  /-- `route.matchRegex(path)`: (params, matched) -/
  matchRegex : ρ → Bytes → Option π × Bool
  /-- `r.cacheDynamicRoute(key, ps, route)` -/
  cacheDynamic : σ → Bytes → Option π → ρ → σ

/-- what `Router.appendRoute` works on: the checks and the pattern compiler as (possibly panicking) operations
    that return the updated route, and the tables as an abstract state -/
structure AEnv (σ ρ : Type) where
  /-- `route.goodInfo()`: panics on a nil handler, no methods, an unknown method -/
  goodInfo : ρ → Except Panic Unit
  /-- `r.appendGroupInfo(route)`: formats the path, adds the group prefix and middleware (handler limit) -/
  appendGroupInfo : σ → ρ → Except Panic (σ × ρ)
  name : ρ → Bytes
  path : ρ → Bytes
  methods : ρ → List Bytes
  /-- `r.parseParamRoute(route)`: compiles the pattern; returns the first-segment key ("" = none) -/
  parseParam : σ → ρ → Except Panic (Bytes × ρ)
  setNamed : σ → Bytes → ρ → σ
  setStable : σ → Bytes → ρ → σ
  getRegular : σ → Bytes → List ρ × Bool
  setRegular : σ → Bytes → List ρ → σ
  getIrregular : σ → Bytes → List ρ × Bool
  setIrregular : σ → Bytes → List ρ → σ

/-- what `Router.handleHTTPRequest` works with: `κ` is the context record; the chain run and the hooks return
    the new context and, when they panic, the panic value -/
structure HEnv (σ ρ η κ : Type) where
  urlPath : Option Nat → Bytes
  escapedPath : Option Nat → Bytes
  method : Option Nat → Bytes
  /-- `r.QuickMatch(method, path)`: state, route, params, allowed methods, panic -/
  quickMatch : σ → Bytes → Bytes → σ × Option ρ × Option KV × List Bytes × Option Panic
  routeName : Option ρ → Bytes
  routeHandlers : Option ρ → List η
  routeHandler : Option ρ → Option η
  noAllowed : σ → List η
  noRoute : σ → List η
  globalHandlers : σ → List η
  default405 : List η
  default404 : List η
  /-- `r.OnPanic` / `r.OnError` (nil or set) -/
  onPanicH : σ → Option η
  onErrorH : σ → Option η
  /-- `ctx.Next()` on the chain that `SetHandlers` installed -/
  next : σ → κ → List η → σ × κ × Option Panic
  onError : σ → κ → σ × κ × Option Panic
  onPanic : σ → κ → σ × κ × Option Panic

/-- `v, ok := m[k]` on a map from names to handler lists -/
def kvhGet (m : List (Bytes × List Nat)) (k : Bytes) : List Nat × Bool :=
  match m.find? (fun x => x.1 == k) with
  | some x => (x.2, true)
  | none => ([], false)

/-- a method of a controller as `reflect` shows it to `Router.Resource` -/
structure CMeth where
  valid : Bool                                   -- `MethodByName(name).IsValid()`
  isAction : Bool                                -- its value has the type `func(*Context)`
  uses : Option (List (Bytes × List Nat))        -- its value has the type `func() map[string][]HandlerFunc`: what it returns
  deriving Repr, Inhabited

/-- a controller value as `reflect` shows it -/
structure Ctrl where
  kind : Int                                     -- `reflect.ValueOf(c).Kind()`
  elemKind : Int                                 -- `.Elem().Type().Kind()`
  typeName : Bytes                               -- `.Type().Elem().Name()`
  method : Bytes → CMeth                         -- `.MethodByName(name)`

/-- the package-level variables `IndexAction` … `DeleteAction` (names of the REST actions) as they stand -/
structure ActNames where
  index : Bytes
  create : Bytes
  store : Bytes
  show_ : Bytes
  edit : Bytes
  update : Bytes
  delete : Bytes

/-- what `Router.Resource` does on the router -/
inductive ResEv
  | groupEnter (prefix_ : Bytes) (middles : List Nat)
  | groupLeave
  | addNamed (name path : Bytes) (methods : List Bytes)
  | use (routeName : Bytes) (handlers : List Nat)
  | addRoutes (controller : Nat)     -- `controller.AddRoutes(r)` of `Router.Controller`
  deriving DecidableEq, Repr

/-- the renderers of pkg/render that the context helpers construct -/
inductive RKind
  | json
  | jsonp (callback : Bytes)
  | xml (indent : Bytes)
  deriving DecidableEq, Repr

/-- what a response helper of context_render.go does, call by call -/
inductive REv
  | setStatus (c : Int)                 -- c.SetStatus(c)
  | wh (c : Int)                        -- c.Resp.WriteHeader(c)
  | setHeader (k v : Bytes)             -- c.Resp.Header().Set(k, v)
  | writeBytes (b : Bytes)              -- c.WriteBytes(b)
  | render (k : RKind)                  -- renderer.Render(c.Resp, obj)
  | addError                            -- c.AddError(err)
  | copy                                -- io.Copy(c.Resp, r)
  | httpError (msg : Bytes) (code : Int)
  | redirect (url : Bytes) (code : Int)
  deriving DecidableEq, Repr

/-- the settings of a `json.Encoder` / `xml.Encoder` -/
structure JEnc where
  prefix_ : Bytes := []
  indent : Bytes := []
  escapeHTML : Bool := true
  deriving DecidableEq, Repr, Inhabited

/-- calls received by an `http.ResponseWriter` below pkg/render -/
inductive HEv
  | write (b : Bytes)
  deriving DecidableEq, Repr

/-- an `http.ResponseWriter` as pkg/render sees it: its header map (single-valued) and the `Write` calls it received -/
structure HW where
  header : List (Bytes × Bytes) := []
  log : List HEv := []
  deriving DecidableEq, Repr, Inhabited

/-- `header[key]`: the values stored under the key (none or one) -/
def hdrGet (h : List (Bytes × Bytes)) (k : Bytes) : List Bytes :=
  match h.find? (fun x => x.1 == k) with
  | some x => [x.2]
  | none => []

/-- `w.Header().Set(key, value)` -/
def HW.set (w : HW) (k v : Bytes) : HW := { w with header := (k, v) :: w.header.filter (fun x => x.1 != k) }

/-- `w.Write(data)` -/
def HW.write (w : HW) (b : Bytes) : HW := { w with log := w.log ++ [.write b] }

/-- an argument of `BuildURL` / `Route.ToURL` as its type switch sees it: a `*BuildRequestURL` (β is the builder record),
    a map `M` (its pairs, values already as the text `goutil.String` gives them), or a value of any other type -/
inductive UArg (β : Type)
  | builder (b : β)
  | m (kv : KV)
  | other (id : Nat)
  deriving Repr, Inhabited

/-- an `http.Handler` value as `WrapHTTPHandlers` builds it: nil, the router itself, or a wrapper applied to a handler -/
inductive HV
  | nil
  | router
  | wrap (pre : Nat) (inner : HV)
  deriving DecidableEq, Repr, Inhabited

/-- which field of the context an adapter hands to the wrapped std handler -/
inductive CArg
  | resp   -- c.Resp
  | req    -- c.Req
  deriving DecidableEq, Repr, Inhabited

/-- `copy(dst, src)`: the first `min (len dst) (len src)` elements of `dst` are overwritten by those of `src` -/
def copyInto {α : Type} (dst src : List α) : List α := src.take dst.length ++ dst.drop src.length

/-- `copy(dst[k:], src)` with `k ≤ len dst` (Go panics otherwise; the translated code only uses it with such a `k`) -/
def copyIntoAt {α : Type} (dst : List α) (k : Nat) (src : List α) : List α := dst.take k ++ copyInto (dst.drop k) src

/-- a Go value of type `any` as a type switch sees it: a string, a byte slice, or a value of some other type (identity) -/
inductive AnyV
  | str (s : Bytes)
  | bytes (b : Bytes)
  | other (id : Nat)
  deriving DecidableEq, Repr, Inhabited

/-- what `render.Auto` calls: the Accept header of the request, `httpreq.ParseAccept`, and the three renderers it hands
    the value to (each returns the writer afterwards and whether it returned an error) -/
structure RAEnv (ω : Type) where
  acceptHeader : Bytes → Bytes
  parseAccept : Bytes → List Bytes
  json : ω → ω × Bool
  xml : ω → ω × Bool
  text : ω → ω × Bool

/-- the context pool and the dispatcher, as seen by `ServeHTTP` / `HandleContext`: `κ` is the context record.
    When `handle` ends with a panic the entry point does not reach its `Put` (the panic propagates). -/
structure PEnv (σ κ : Type) where
  /-- `r.ctxPool.Get().(*Context)`: some context of the pool (or a new one) and the pool without it -/
  poolGet : σ → σ × κ
  /-- `r.ctxPool.Put(ctx)` -/
  poolPut : σ → κ → σ
  /-- `r.handleHTTPRequest(ctx)` -/
  handle : σ → κ → σ × κ × Option Panic

end GoRt
end Rux
