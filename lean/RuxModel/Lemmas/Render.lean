import RuxModel.Spec.Render
import RuxModel.Lemmas.Writer
/-
  Helper lemmas about the render model.  Property theorems are in Props/C19.lean.
-/
namespace Rux
namespace Render
open Writer
set_option linter.unusedSimpArgs false

theorem step_setStatus (w : W) (c : Int) :
    step w (.setStatus c) = { w with status := if c > 0 then c else w.status } := by
  simp only [step]
  by_cases hc : c > 0
  · by_cases he : w.status = c
    · simp [hc, he]; cases w; simp_all
    · simp [hc, he]
  · simp [hc]

theorem step_setCT (w : W) (v : Bytes) : step w (.setCT v) = { w with ctype := some v } := rfl

theorem step_setCTIfAbsent (w : W) (v : Bytes) :
    step w (.setCTIfAbsent v) = { w with ctype := some (w.ctype.getD v) } := by
  simp only [step]
  cases h : w.ctype with
  | none => simp
  | some x => cases w; simp_all

/-- a complete, successful write on an uncommitted writer: commit + the write -/
theorem step_write_fresh (w : W) (b : Bytes) (acc : Nat) (err : Bool) (h : w.length = -1) :
    step w (.write b acc err) =
      { w with status := norm w.status, length := acc, sent := some w.ctype,
               log := w.log ++ [.wh (norm w.status), .w b acc err] } := by
  simp [step, ensure_fresh w h]

theorem step_write_committed (w : W) (b : Bytes) (acc : Nat) (err : Bool) (h : 0 ≤ w.length) :
    step w (.write b acc err) =
      { w with length := w.length + acc, log := w.log ++ [.w b acc err] } := by
  simp only [step, ensure_committed w h]

theorem ensure_ctype (w : W) : (ensure w).ctype = w.ctype := by
  unfold ensure; split <;> rfl

theorem step_write_ctype (w : W) (b : Bytes) (acc : Nat) (err : Bool) :
    (step w (.write b acc err)).ctype = w.ctype := by
  simp [step, ensure_ctype]

theorem write_ctype (s : St) (b : Bytes) : (write s b).st.w.ctype = s.w.ctype := by
  unfold write
  split <;> simp [step_write_ctype]

theorem write_errs (s : St) (b : Bytes) : (write s b).st.errs = s.errs := by
  unfold write
  split <;> rfl

/-- with an exhausted script every write is complete and succeeds -/
theorem write_nil (s : St) (b : Bytes) (h : s.script = []) :
    write s b = ⟨{ s with w := step s.w (.write b b.length false) }, false, false⟩ := by
  unfold write; rw [h]

theorem norm_eq (cur : Int) : norm cur = if cur = 0 then 200 else cur := rfl

theorem commitCode_eq (st cur : Int) :
    norm (if st > 0 then st else cur) = commitCode st cur := by
  unfold commitCode norm
  by_cases h : st > 0
  · have : ¬ st = 0 := by omega
    simp [h, this]
  · simp [h]

theorem body_w (b : Bytes) (e : Bool) : Ev.body (.w b b.length e) = b := by simp [Ev.body]

theorem body_wh (c : Int) : Ev.body (.wh c) = [] := rfl

/-! ### net/http.Redirect, case by case -/

theorem redirectOps_get_noct (code : Int) (body : Bytes) (acc : Nat) (err : Bool) :
    redirectOps .get false code body acc err =
      [.setHeader, .setCT ctTextHtml, .setStatus code, .write body acc err] := rfl

theorem redirectOps_head_noct (code : Int) (body : Bytes) (acc : Nat) (err : Bool) :
    redirectOps .head false code body acc err = [.setHeader, .setCT ctTextHtml, .setStatus code] := rfl

theorem redirectOps_other_noct (code : Int) (body : Bytes) (acc : Nat) (err : Bool) :
    redirectOps .other false code body acc err = [.setHeader, .setStatus code] := rfl

theorem redirectOps_ct (m : Meth) (code : Int) (body : Bytes) (acc : Nat) (err : Bool) :
    redirectOps m true code body acc err = [.setHeader, .setStatus code] := by
  cases m <;> rfl

theorem step_setHeader (w : W) : step w .setHeader = w := rfl

/-! ### sent Content-Type -/

/-- operations that do not touch the Content-Type -/
def Op.ctStable : Op → Bool
  | .setCT _ => false
  | .setCTIfAbsent _ => false
  | _ => true

theorem step_ctStable (w : W) (o : Op) (h : Op.ctStable o = true) : (step w o).ctype = w.ctype := by
  cases o with
  | setStatus c => rw [step_setStatus]
  | setCT v => simp [Op.ctStable] at h
  | setCTIfAbsent v => simp [Op.ctStable] at h
  | setHeader => rfl
  | write b acc err => exact step_write_ctype w b acc err
  | flush => simp [step, ensure_ctype]

theorem ensure_sent_committed (w : W) (h : 0 ≤ w.length) : (ensure w).sent = w.sent := by
  rw [ensure_committed w h]

/-- once committed, the recorded header snapshot never changes -/
theorem committed_sent (ops : List Op) : ∀ w : W, 0 ≤ w.length → (run w ops).sent = w.sent := by
  induction ops with
  | nil => intro w _; rfl
  | cons op rest ih =>
    intro w hw
    rw [run_cons]
    have h1 : 0 ≤ (step w op).length := by
      have := committed_run_nonneg [op] w hw
      simpa [run] using this
    rw [ih _ h1]
    cases op with
    | setStatus c => rw [step_setStatus]
    | setCT v => rfl
    | setCTIfAbsent v => rw [step_setCTIfAbsent]
    | setHeader => rfl
    | write b acc err => rw [step_write_committed w b acc err hw]
    | flush => simp only [step, ensure_committed w hw]

/-- from an uncommitted writer, with operations that leave the Content-Type alone: what is sent with
    the commit is the Content-Type the writer has now -/
theorem fresh_sent (ops : List Op) : ∀ w : W, w.length = -1 → (∀ o ∈ ops, Op.ctStable o = true) →
    (ensure (run w ops)).sent = some w.ctype ∧ (ensure (run w ops)).ctype = w.ctype := by
  induction ops with
  | nil =>
    intro w hw _
    simp [run, ensure_fresh w hw]
  | cons op rest ih =>
    intro w hw hst
    rw [run_cons]
    have hop := hst op (by simp)
    have hrest : ∀ o ∈ rest, Op.ctStable o = true := fun o ho => hst o (by simp [ho])
    by_cases hio : op.isIO = true
    · have hc : 0 ≤ (step w op).length := by
        have := io_run_nonneg [op] w (Or.inl hw) (by simp [hio])
        simpa [run] using this
      have hn := committed_run_nonneg rest _ hc
      rw [ensure_committed _ hn, committed_sent rest _ hc]
      constructor
      · cases op with
        | write b acc err => rw [step_write_fresh w b acc err hw]
        | flush => simp [step, ensure_fresh w hw]
        | _ => simp [Op.isIO] at hio
      · have hct : ∀ (os : List Op) (w' : W), (∀ o ∈ os, Op.ctStable o = true) → (run w' os).ctype = w'.ctype := by
          intro os
          induction os with
          | nil => intro w' _; rfl
          | cons a t iht =>
            intro w' h
            rw [run_cons, iht _ (fun o ho => h o (by simp [ho])), step_ctStable _ _ (h a (by simp))]
        rw [hct rest _ hrest, step_ctStable _ _ hop]
    · have hio' : op.isIO = false := by simpa using hio
      obtain ⟨hl, _⟩ := step_nonIO w op hio'
      obtain ⟨h1, h2⟩ := ih (step w op) (by rw [hl]; exact hw) hrest
      rw [h1, h2, step_ctStable _ _ hop]
      exact ⟨rfl, rfl⟩

/-! ### Stream -/

/-- the writes `io.Copy` performs when the underlying writer accepts everything -/
def copyOps : List (Bytes × RErr) → List Op
  | [] => []
  | (d, re) :: rest =>
    (if d.isEmpty then [] else [Op.write d d.length false]) ++
    (match re with
     | .none => copyOps rest
     | _ => [])

theorem copy_run (reads : List (Bytes × RErr)) : ∀ s : St, s.script = [] →
    copy reads s = ({ s with w := run s.w (copyOps reads) }, !readsOk reads) := by
  induction reads with
  | nil => intro s _; simp [copy, copyOps, run, readsOk]
  | cons r rest ih =>
    intro s hs
    obtain ⟨d, re⟩ := r
    by_cases hd : d.isEmpty = true
    · cases re with
      | none =>
        simp only [copy, hd, if_true, Bool.or_self, Bool.false_eq_true, if_false, copyOps, readsOk,
          List.nil_append]
        exact ih s hs
      | eof => simp [copy, hd, copyOps, readsOk, run]
      | fail => simp [copy, hd, copyOps, readsOk, run]
    · have hd' : d.isEmpty = false := by simpa using hd
      cases re with
      | none =>
        simp only [copy, hd', Bool.false_eq_true, if_false, copyOps, readsOk, write_nil s d hs,
          Bool.or_self, List.cons_append, List.nil_append, run_cons]
        rw [ih _ (by simpa using hs)]
      | eof =>
        simp [copy, hd', copyOps, readsOk, write_nil s d hs, run]
      | fail =>
        simp [copy, hd', copyOps, readsOk, write_nil s d hs, run]

theorem copyOps_stable (reads : List (Bytes × RErr)) : ∀ o ∈ copyOps reads, Op.ctStable o = true := by
  induction reads with
  | nil => intro o h; simp [copyOps] at h
  | cons r rest ih =>
    obtain ⟨d, re⟩ := r
    intro o h
    simp only [copyOps, List.mem_append] at h
    rcases h with h | h
    · split at h
      · simp at h
      · simp at h; subst h; rfl
    · cases re with
      | none => exact ih o h
      | eof => simp at h
      | fail => simp at h

theorem copyOps_noCode (reads : List (Bytes × RErr)) : ∀ o ∈ copyOps reads, Op.posCode o = none := by
  induction reads with
  | nil => intro o h; simp [copyOps] at h
  | cons r rest ih =>
    obtain ⟨d, re⟩ := r
    intro o h
    simp only [copyOps, List.mem_append] at h
    rcases h with h | h
    · split at h
      · simp at h
      · simp at h; subst h; rfl
    · cases re with
      | none => exact ih o h
      | eof => simp at h
      | fail => simp at h

theorem specBody_copyOps (reads : List (Bytes × RErr)) : specBody (copyOps reads) = streamData reads := by
  induction reads with
  | nil => rfl
  | cons r rest ih =>
    obtain ⟨d, re⟩ := r
    simp only [specBody, List.flatMap_append] at ih ⊢
    by_cases hd : d.isEmpty = true
    · have : d = [] := by simpa using hd
      subst this
      cases re <;> simp_all [copyOps, streamData, specBody]
    · have hd' : d.isEmpty = false := by simpa using hd
      cases re <;> simp_all [copyOps, streamData, specBody, Op.bodyPart]

theorem mem_of_mem_takeWhile {α : Type} (p : α → Bool) (l : List α) (x : α)
    (h : x ∈ l.takeWhile p) : x ∈ l := by
  induction l with
  | nil => simp at h
  | cons a t ih =>
    by_cases hp : p a = true
    · rw [List.takeWhile_cons_of_pos hp] at h
      rcases List.mem_cons.mp h with h | h
      · simp [h]
      · simp [ih h]
    · rw [List.takeWhile_cons_of_neg hp] at h
      simp at h

/-- operations that set no positive status: the commit carries the recorded status -/
theorem statusFrom_noCode (ops : List Op) (cur : Int) (h : ∀ o ∈ ops, Op.posCode o = none) :
    statusFrom cur ops = norm cur := by
  rw [statusFrom_eq]
  have : (ops.takeWhile Op.notIO).filterMap Op.posCode = [] := by
    rw [List.filterMap_eq_nil_iff]
    intro o ho
    exact h o (mem_of_mem_takeWhile _ _ _ ho)
  rw [this]; rfl

end Render
end Rux
