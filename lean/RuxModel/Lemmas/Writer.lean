import RuxModel.Spec.Writer
/-
  Helper lemmas about the writer model.  Property theorems are in Props/C08.lean.
-/
namespace Rux
namespace Writer
set_option linter.unusedSimpArgs false

def norm (st : Int) : Int := if st = 0 then 200 else st

/-- recursive form of the status specification, from a recorded status `cur` -/
def statusFrom (cur : Int) : List Op → Int
  | [] => norm cur
  | .setStatus c :: rest => statusFrom (if c > 0 then c else cur) rest
  | .write _ _ _ :: _ => norm cur
  | .flush :: _ => norm cur
  | _ :: rest => statusFrom cur rest

theorem ensure_committed (w : W) (h : 0 ≤ w.length) : ensure w = w := by
  unfold ensure
  have : ¬ w.length = -1 := by omega
  simp [this]

theorem ensure_fresh (w : W) (h : w.length = -1) :
    ensure w = { w with status := norm w.status, length := 0, sent := some w.ctype, log := w.log ++ [.wh (norm w.status)] } := by
  unfold ensure norm
  simp [h]

theorem run_cons (w : W) (op : Op) (rest : List Op) : run w (op :: rest) = run (step w op) rest := rfl

theorem run_append (w : W) (a b : List Op) : run w (a ++ b) = run (run w a) b := by
  simp [run, List.foldl_append]

/-- once committed: every later write/flush is appended, nothing else, and the length adds up -/
theorem committed_run (ops : List Op) : ∀ w : W, 0 ≤ w.length →
    (run w ops).log = w.log ++ ioEvents ops ∧ (run w ops).length = w.length + specLength ops := by
  induction ops with
  | nil => intro w _; simp [run, ioEvents, specLength]
  | cons op rest ih =>
    intro w hw
    rw [run_cons]
    cases op with
    | setStatus c =>
      have hl : (step w (.setStatus c)).length = w.length := by simp only [step]; split <;> rfl
      have hg : (step w (.setStatus c)).log = w.log := by simp only [step]; split <;> rfl
      obtain ⟨h1, h2⟩ := ih (step w (.setStatus c)) (by omega)
      rw [h1, h2, hl, hg]
      simp [ioEvents, specLength, List.filterMap_cons, Op.ev, Op.accepted]
    | setCT v =>
      obtain ⟨h1, h2⟩ := ih (step w (.setCT v)) (by simpa [step] using hw)
      rw [h1, h2]
      simp [step, ioEvents, specLength, List.filterMap_cons, Op.ev, Op.accepted]
    | setCTIfAbsent v =>
      have hl : (step w (.setCTIfAbsent v)).length = w.length := by simp only [step]; split <;> rfl
      have hg : (step w (.setCTIfAbsent v)).log = w.log := by simp only [step]; split <;> rfl
      obtain ⟨h1, h2⟩ := ih (step w (.setCTIfAbsent v)) (by omega)
      rw [h1, h2, hl, hg]
      simp [ioEvents, specLength, List.filterMap_cons, Op.ev, Op.accepted]
    | setHeader =>
      obtain ⟨h1, h2⟩ := ih (step w .setHeader) (by simpa [step] using hw)
      rw [h1, h2]
      simp [step, ioEvents, specLength, List.filterMap_cons, Op.ev, Op.accepted]
    | write b acc err =>
      have hs : step w (.write b acc err) =
          { w with length := w.length + acc, log := w.log ++ [.w b acc err] } := by
        simp only [step, ensure_committed w hw]
      obtain ⟨h1, h2⟩ := ih (step w (.write b acc err)) (by rw [hs]; simp; omega)
      rw [h1, h2, hs]
      simp [ioEvents, specLength, List.filterMap_cons, Op.ev, Op.accepted]
      omega
    | flush =>
      have hs : step w .flush = { w with log := w.log ++ [.fl] } := by
        simp only [step, ensure_committed w hw]
      obtain ⟨h1, h2⟩ := ih (step w .flush) (by rw [hs]; exact hw)
      rw [h1, h2, hs]
      simp [ioEvents, specLength, List.filterMap_cons, Op.ev, Op.accepted]

theorem committed_run_nonneg (ops : List Op) (w : W) (h : 0 ≤ w.length) : 0 ≤ (run w ops).length := by
  rw [(committed_run ops w h).2]; omega

/-- from an uncommitted writer: the header goes out exactly once, in front of all body events -/
theorem fresh_run (ops : List Op) : ∀ w : W, w.length = -1 →
    (ensure (run w ops)).log = w.log ++ .wh (statusFrom w.status ops) :: ioEvents ops ∧
    (ensure (run w ops)).length = specLength ops := by
  induction ops with
  | nil =>
    intro w hw
    simp [run, ensure_fresh w hw, statusFrom, ioEvents, specLength]
  | cons op rest ih =>
    intro w hw
    rw [run_cons]
    cases op with
    | setStatus c =>
      have hl : (step w (.setStatus c)).length = -1 := by simp only [step]; split <;> exact hw
      have hg : (step w (.setStatus c)).log = w.log := by simp only [step]; split <;> rfl
      have hst : (step w (.setStatus c)).status = if c > 0 then c else w.status := by
        simp only [step]
        by_cases hc : c > 0
        · by_cases he : w.status = c
          · simp [hc, he]
          · simp [hc, he]
        · simp [hc]
      obtain ⟨h1, h2⟩ := ih (step w (.setStatus c)) hl
      rw [h1, h2, hg, hst]
      simp [statusFrom, ioEvents, specLength, List.filterMap_cons, Op.ev, Op.accepted]
    | setCT v =>
      obtain ⟨h1, h2⟩ := ih (step w (.setCT v)) (by simpa [step] using hw)
      rw [h1, h2]
      simp [step, statusFrom, ioEvents, specLength, List.filterMap_cons, Op.ev, Op.accepted]
    | setCTIfAbsent v =>
      have hl : (step w (.setCTIfAbsent v)).length = -1 := by simp only [step]; split <;> exact hw
      have hg : (step w (.setCTIfAbsent v)).log = w.log := by simp only [step]; split <;> rfl
      have hst : (step w (.setCTIfAbsent v)).status = w.status := by simp only [step]; split <;> rfl
      obtain ⟨h1, h2⟩ := ih (step w (.setCTIfAbsent v)) hl
      rw [h1, h2, hg, hst]
      simp [statusFrom, ioEvents, specLength, List.filterMap_cons, Op.ev, Op.accepted]
    | setHeader =>
      obtain ⟨h1, h2⟩ := ih (step w .setHeader) (by simpa [step] using hw)
      rw [h1, h2]
      simp [step, statusFrom, ioEvents, specLength, List.filterMap_cons, Op.ev, Op.accepted]
    | write b acc err =>
      have hs : step w (.write b acc err) =
          { w with status := norm w.status, length := 0 + acc, sent := some w.ctype,
                   log := w.log ++ [.wh (norm w.status)] ++ [.w b acc err] } := by
        simp only [step, ensure_fresh w hw]
      have hc : 0 ≤ (step w (.write b acc err)).length := by rw [hs]; simp
      obtain ⟨h1, h2⟩ := committed_run rest _ hc
      rw [ensure_committed _ (committed_run_nonneg rest _ hc), h1, h2, hs]
      simp [statusFrom, ioEvents, specLength, List.filterMap_cons, Op.ev, Op.accepted]
    | flush =>
      have hs : step w .flush =
          { w with status := norm w.status, length := 0, sent := some w.ctype,
                   log := w.log ++ [.wh (norm w.status)] ++ [.fl] } := by
        simp only [step, ensure_fresh w hw]
      have hc : 0 ≤ (step w .flush).length := by rw [hs]; simp
      obtain ⟨h1, h2⟩ := committed_run rest _ hc
      rw [ensure_committed _ (committed_run_nonneg rest _ hc), h1, h2, hs]
      simp [statusFrom, ioEvents, specLength, List.filterMap_cons, Op.ev, Op.accepted]

theorem norm_pos (c : Int) (h : c > 0) : norm c = c := by
  unfold norm; have : ¬ c = 0 := by omega
  simp [this]

theorem getLast?_cons_getD (c : Int) (l : List Int) (d : Int) :
    ((c :: l).getLast?).getD d = (l.getLast?).getD c := by
  cases l with
  | nil => simp
  | cons a t =>
    obtain ⟨x, hx⟩ : ∃ x, (a :: t).getLast? = some x := by
      cases h : (a :: t).getLast? with
      | none => simp at h
      | some x => exact ⟨x, rfl⟩
    rw [List.getLast?_cons_cons, hx]; rfl

/-- the recursive status specification is the declarative one -/
theorem statusFrom_eq (ops : List Op) : ∀ cur : Int,
    statusFrom cur ops =
      (((ops.takeWhile Op.notIO).filterMap Op.posCode).getLast?).getD (norm cur) := by
  induction ops with
  | nil => intro cur; simp [statusFrom]
  | cons op rest ih =>
    intro cur
    cases op with
    | setStatus c =>
      have hp : Op.notIO (.setStatus c) = true := rfl
      rw [List.takeWhile_cons_of_pos hp]
      simp only [statusFrom]
      rw [ih]
      by_cases hc : c > 0
      · have hpc : Op.posCode (.setStatus c) = some c := by simp [Op.posCode, hc]
        rw [List.filterMap_cons_some hpc, getLast?_cons_getD, if_pos hc, norm_pos c hc]
      · have hpc : Op.posCode (.setStatus c) = none := by simp [Op.posCode, hc]
        rw [List.filterMap_cons_none hpc, if_neg hc]
    | setCT v =>
      have hp : Op.notIO (.setCT v) = true := rfl
      have hpc : Op.posCode (.setCT v) = none := rfl
      rw [List.takeWhile_cons_of_pos hp, List.filterMap_cons_none hpc]
      simp only [statusFrom]; exact ih cur
    | setCTIfAbsent v =>
      have hp : Op.notIO (.setCTIfAbsent v) = true := rfl
      have hpc : Op.posCode (.setCTIfAbsent v) = none := rfl
      rw [List.takeWhile_cons_of_pos hp, List.filterMap_cons_none hpc]
      simp only [statusFrom]; exact ih cur
    | setHeader =>
      have hp : Op.notIO .setHeader = true := rfl
      have hpc : Op.posCode .setHeader = none := rfl
      rw [List.takeWhile_cons_of_pos hp, List.filterMap_cons_none hpc]
      simp only [statusFrom]; exact ih cur
    | write b acc err =>
      have hp : ¬ Op.notIO (.write b acc err) = true := by simp [Op.notIO, Op.isIO]
      rw [List.takeWhile_cons_of_neg hp]
      simp [statusFrom]
    | flush =>
      have hp : ¬ Op.notIO .flush = true := by simp [Op.notIO, Op.isIO]
      rw [List.takeWhile_cons_of_neg hp]
      simp [statusFrom]

theorem statusFrom_zero (ops : List Op) : statusFrom 0 ops = specStatus ops := by
  rw [statusFrom_eq]; rfl

theorem ioEvents_cons (op : Op) (rest : List Op) :
    ioEvents (op :: rest) = op.ev.toList ++ ioEvents rest := by
  cases h : op.ev with
  | none => simp [ioEvents, List.filterMap_cons, h]
  | some e => simp [ioEvents, List.filterMap_cons, h]

theorem ioEvents_no_wh (ops : List Op) : (ioEvents ops).all (fun e => !e.isWH) = true := by
  induction ops with
  | nil => simp [ioEvents]
  | cons op rest ih =>
    rw [ioEvents_cons, List.all_append, ih]
    cases op <;> simp [Op.ev, Ev.isWH]

theorem bodyOf_ioEvents (ops : List Op) : bodyOf (ioEvents ops) = specBody ops := by
  induction ops with
  | nil => simp [bodyOf, ioEvents, specBody]
  | cons op rest ih =>
    rw [ioEvents_cons]
    simp only [bodyOf, specBody, List.flatMap_append, List.flatMap_cons] at ih ⊢
    rw [ih]
    cases op <;> simp [Op.ev, Ev.body, Op.bodyPart]

/-- operations that are neither a write nor a flush leave length and log alone -/
theorem step_nonIO (w : W) (op : Op) (h : op.isIO = false) :
    (step w op).length = w.length ∧ (step w op).log = w.log := by
  cases op with
  | setStatus c => simp only [step]; split <;> exact ⟨rfl, rfl⟩
  | setCT v => exact ⟨rfl, rfl⟩
  | setCTIfAbsent v => simp only [step]; split <;> exact ⟨rfl, rfl⟩
  | setHeader => exact ⟨rfl, rfl⟩
  | write b acc err => simp [Op.isIO] at h
  | flush => simp [Op.isIO] at h

theorem ensure_nonneg (w : W) (h : w.length = -1 ∨ 0 ≤ w.length) : 0 ≤ (ensure w).length := by
  unfold ensure
  by_cases hw : w.length = -1
  · simp [hw]
  · simp only [hw, if_false]; omega

/-- operations without a write or flush leave an uncommitted writer uncommitted -/
theorem nonIO_run (ops : List Op) : ∀ w : W, ops.any Op.isIO = false →
    (run w ops).length = w.length ∧ (run w ops).log = w.log := by
  induction ops with
  | nil => intro w _; exact ⟨rfl, rfl⟩
  | cons op rest ih =>
    intro w h
    simp only [List.any_cons, Bool.or_eq_false_iff] at h
    rw [run_cons]
    obtain ⟨h1, h2⟩ := ih (step w op) h.2
    obtain ⟨h3, h4⟩ := step_nonIO w op h.1
    exact ⟨h1.trans h3, h2.trans h4⟩

/-- a write or a flush commits -/
theorem io_run_nonneg (ops : List Op) : ∀ w : W, (w.length = -1 ∨ 0 ≤ w.length) →
    ops.any Op.isIO = true → 0 ≤ (run w ops).length := by
  induction ops with
  | nil => intro w _ h; simp at h
  | cons op rest ih =>
    intro w hw h
    rw [run_cons]
    by_cases hio : op.isIO = true
    · apply committed_run_nonneg
      cases op with
      | write b acc err =>
        have := ensure_nonneg w hw
        simp only [step]; omega
      | flush => simpa [step] using ensure_nonneg w hw
      | _ => simp [Op.isIO] at hio
    · have hio' : op.isIO = false := by simpa using hio
      simp only [List.any_cons, hio', Bool.false_or] at h
      obtain ⟨h3, _⟩ := step_nonIO w op hio'
      exact ih (step w op) (by rw [h3]; exact hw) h

/-! ### the request level -/

theorem act_trace (c : Cfg) (r : Req) (s : Site) (a : Act)
    (h : r.w = run (W.fresh c.ct) r.trace) :
    (r.act c s a).1.w = run (W.fresh c.ct) (r.act c s a).1.trace := by
  unfold Req.act
  split
  · simp only [run_append, ← h]
  · exact h

theorem acts_trace (c : Cfg) (prog : List (Site × Act)) : ∀ r : Req,
    r.w = run (W.fresh c.ct) r.trace →
    (Req.acts c r prog).w = run (W.fresh c.ct) (Req.acts c r prog).trace := by
  induction prog with
  | nil => intro r h; exact h
  | cons sa rest ih =>
    intro r h
    obtain ⟨s, a⟩ := sa
    exact ih _ (act_trace c r s a h)

theorem serve_trace (c : Cfg) (prog : List (Site × Act)) :
    (serve c prog).w = run (W.fresh c.ct) (serve c prog).trace :=
  acts_trace c prog (Req.init c) rfl

theorem acts_contained (c : Cfg) (hp : c.hasOnPanic = true) (prog : List (Site × Act)) :
    ∀ r : Req, r.escaped = false →
      (∀ sa ∈ prog, sa.1 = Site.onPanic → actPanics sa.2 = false) →
      (Req.acts c r prog).escaped = false := by
  induction prog with
  | nil => intro r h _; exact h
  | cons sa rest ih =>
    intro r h hq
    obtain ⟨s, a⟩ := sa
    apply ih _ _ (fun x hx => hq x (by simp [hx]))
    unfold Req.act
    split
    · simp only [h, Bool.false_or, hp, Bool.not_true, Bool.or_false]
      by_cases hs : s = Site.onPanic
      · have := hq (s, a) (by simp) hs
        simp [this]
      · simp [hs]
    · exact h

theorem acts_no_panic (c : Cfg) (prog : List (Site × Act)) :
    ∀ r : Req, r.escaped = false →
      (∀ sa ∈ prog, actPanics sa.2 = false) →
      (Req.acts c r prog).escaped = false := by
  induction prog with
  | nil => intro r h _; exact h
  | cons sa rest ih =>
    intro r h hq
    obtain ⟨s, a⟩ := sa
    apply ih _ _ (fun x hx => hq x (by simp [hx]))
    unfold Req.act
    split
    · have := hq (s, a) (by simp)
      simp only at this
      simp [h, this]
    · exact h

end Writer
end Rux
