import RuxModel.Lemmas.Clean
/-
  Lemmas about the static-file flow of Model/Clean.lean: what http.Dir.Open resolves a name to, which
  paths serveFile opens, what the route captures.  Used by Props/C17.lean.
-/
namespace Rux

/-- `b!"text"`: the bytes of a string literal as a list literal (so that `decide` can evaluate the
    examples; `Bytes.ofString` goes through `String.toUTF8`, which the kernel does not unfold) -/
macro "b!" s:str : term => do
  let elems : Array (Lean.TSyntax `term) :=
    (s.getString.toUTF8.toList.map fun b => (Lean.quote b.toNat : Lean.TSyntax `term)).toArray
  `(([$elems,*] : List Nat))

namespace Clean
open Bytes

/-! ### Clean is compositional in the element stack -/

/-- the element stack after processing the elements of `s` -/
def foldSegs (stk : List Bytes) (s : Bytes) : List Bytes := (splitOnByte slash s).foldl push stk

theorem cleanSegs_eq (s : Bytes) : cleanSegs s = (foldSegs [] s).reverse := rfl

theorem split_append_sep_gen (c : Nat) (a t : Bytes) :
    splitOnByte c (a ++ c :: t) = splitOnByte c a ++ splitOnByte c t := by
  induction a with
  | nil => simp [split_cons_sep, splitOnByte]
  | cons x a ih =>
    by_cases hx : x = c
    · subst hx
      rw [List.cons_append, split_cons_sep, split_cons_sep, ih]; rfl
    · obtain ⟨hd, tl, e1, e2⟩ := split_cons_ne c x (a ++ c :: t) hx
      obtain ⟨hd', tl', e1', e2'⟩ := split_cons_ne c x a hx
      rw [List.cons_append, e2, e2']
      rw [ih, e1'] at e1
      simp at e1
      obtain ⟨rfl, rfl⟩ := e1
      rfl

theorem foldSegs_append_sep (stk : List Bytes) (x y : Bytes) :
    foldSegs stk (x ++ slash :: y) = foldSegs (foldSegs stk x) y := by
  unfold foldSegs
  rw [split_append_sep_gen, List.foldl_append]

theorem foldSegs_nil (stk : List Bytes) : foldSegs stk [] = stk := by
  simp [foldSegs, splitOnByte, push]

theorem foldSegs_cons_slash (stk : List Bytes) (y : Bytes) : foldSegs stk (slash :: y) = foldSegs stk y := by
  have := foldSegs_append_sep stk [] y
  simpa [foldSegs_nil] using this

theorem foldSegs_noSlash (stk : List Bytes) (seg : Bytes) (h : slash ∉ seg) : foldSegs stk seg = push stk seg := by
  simp [foldSegs, split_of_noSep slash seg h]

theorem foldSegs_renderRel (l : List Bytes) (h : AllProper l) (stk : List Bytes) :
    foldSegs stk (renderRel l) = l.reverse ++ stk :=
  foldl_push_split_renderRel l h stk

theorem foldSegs_proper (stk : List Bytes) (s : Bytes) (h : AllProper stk) : AllProper (foldSegs stk s) :=
  foldl_push_proper _ stk h (split_noSep slash s)

/-- `Clean(p)` and `Clean("/" ++ p)` agree for a `p` that begins with '/' -/
theorem cleanAbs_cons_slash (t : Bytes) : cleanAbs (slash :: t) = cleanRooted (slash :: t) := by
  simp only [cleanAbs, cleanRooted, cleanSegs_eq, List.drop_succ_cons, List.drop_zero, foldSegs_cons_slash]

/-! ### http.Dir.Open -/

/-- the relative name Dir.Open joins to the directory, in terms of the element stack -/
theorem foldSegs_rel (name : Bytes) (stk : List Bytes) :
    foldSegs stk (if (cleanRooted name).drop 1 = [] then [dot] else (cleanRooted name).drop 1)
      = (cleanSegs name).reverse ++ stk := by
  have hl := cleanSegs_proper name
  unfold cleanRooted
  cases hc : cleanSegs name with
  | nil =>
    simp only [render, List.drop_succ_cons, List.drop_zero, if_true, List.reverse_nil, List.nil_append]
    rw [foldSegs_noSlash _ _ (by decide)]
    simp [push]
  | cons a t =>
    rw [hc] at hl
    have ha := hl a (by simp)
    rw [render_of_ne_nil (by simp), renderRel_cons]
    simp only [List.drop_succ_cons, List.drop_zero]
    have hne : a ++ renderRel t ≠ [] := by
      intro e; exact ha.1 (List.append_eq_nil_iff.mp e).1
    rw [if_neg hne]
    unfold foldSegs
    rw [split_renderRel a t ha.2.2.2 (fun s m => (hl s (by simp [m])).2.2.2)]
    exact foldl_push_of_proper (a :: t) stk hl

/-- the path `http.Dir(d).Open(name)` opens is `Clean(d)` followed by the elements of `Clean("/"+name)` -/
theorem dirOpen_full (d' name full : Bytes) (h : dirOpen (slash :: d') name = some full) :
    full = render (cleanSegs d' ++ cleanSegs name) := by
  unfold dirOpen at h
  dsimp only at h
  generalize hrel : (if (cleanRooted name).drop 1 = [] then [dot] else (cleanRooted name).drop 1) = rel at h
  split at h
  · injection h with h
    rw [← h, ← hrel]
    unfold joinAbs cleanAbs cleanRooted
    simp only [List.cons_append, List.drop_succ_cons, List.drop_zero]
    rw [cleanSegs_eq, foldSegs_append_sep]
    have := foldSegs_rel name (foldSegs [] d')
    unfold cleanRooted at this
    rw [this, cleanSegs_eq, cleanSegs_eq]
    simp
  · exact absurd h (by simp)

/-- `p` is `Clean(root)` followed by zero or more proper elements (non-empty, no '/', not "." / "..") -/
def Under (root p : Bytes) : Prop := ∃ l, AllProper l ∧ p = render (cleanSegs (root.drop 1) ++ l)

theorem dirOpen_under (d' name full : Bytes) (h : dirOpen (slash :: d') name = some full) :
    Under (slash :: d') full :=
  ⟨cleanSegs name, cleanSegs_proper name, by simpa using dirOpen_full d' name full h⟩

/-- for a clean root other than "/", "under" is literally `root ++ "/e1/e2…"` -/
theorem under_clean_root (r : List Bytes) (hr : r ≠ []) (hp : AllProper r) (p : Bytes) :
    Under (render r) p ↔ ∃ l, AllProper l ∧ p = render r ++ renderRel l := by
  unfold Under
  have e : cleanSegs ((render r).drop 1) = r := cleanSegs_render_drop r hp
  rw [e]
  constructor
  · rintro ⟨l, hl, rfl⟩
    refine ⟨l, hl, ?_⟩
    rw [render_of_ne_nil (l := r ++ l) (by simp [hr]), render_of_ne_nil hr, renderRel_append]
  · rintro ⟨l, hl, rfl⟩
    refine ⟨l, hl, ?_⟩
    rw [render_of_ne_nil (l := r ++ l) (by simp [hr]), render_of_ne_nil hr, renderRel_append]

/-! ### serveFile -/

/-- everything serveFile opens is what Dir.Open resolves for `name` or for the index page of `name`,
    and whatever it serves it has opened -/
theorem serveFile_opened (look : Bytes → Node) (dir urlPath name : Bytes) (redirect : Bool) :
    (∀ p ∈ (serveFile look dir urlPath name redirect).opened,
        dirOpen dir name = some p ∨ dirOpen dir (trimSuffix name [slash] ++ indexPage) = some p) ∧
    (∀ k, (serveFile look dir urlPath name redirect).served = .file k ∨
          (serveFile look dir urlPath name redirect).served = .listing k →
          k ∈ (serveFile look dir urlPath name redirect).opened) := by
  unfold serveFile
  split
  · simp
  · split
    · simp
    · rename_i full hfull
      split
      · simp [hfull]
      · split
        · simp [hfull]
        · unfold serveDirectory
          simp only
          split
          · simp [hfull]
          · rename_i full2 hfull2
            split <;> simp [hfull, hfull2]
      · split
        · dsimp only
          split <;> simp [hfull]
        · simp [hfull]

/-- when the URL does not end in '/', a served file is exactly what Dir.Open resolved for `name`, and
    nothing is listed -/
theorem serveFile_noslash (look : Bytes → Node) (dir urlPath name : Bytes) (redirect : Bool)
    (h : lastByte urlPath ≠ some slash) :
    (∀ k, (serveFile look dir urlPath name redirect).served = .file k → dirOpen dir name = some k) ∧
    (∀ k, (serveFile look dir urlPath name redirect).served ≠ .listing k) := by
  unfold serveFile
  split
  · simp
  · split
    · simp
    · rename_i full hfull
      split
      · simp
      · first
          | (rw [if_pos h]; simp)
          | simp
      · split
        · rename_i h2; exact absurd h2.2 h
        · simp [hfull]

/-! ### the route -/

theorem capture_some (pfx : Bytes) (exts : Option (List Bytes)) (p v : Bytes)
    (h : capture pfx exts p = some v) :
    p = routeStatic pfx ++ v ∧ v ≠ [] ∧ extsOk exts v = true := by
  unfold capture at h
  split at h
  · rename_i hp
    simp only at h
    split at h
    · rename_i hv
      injection h with h
      obtain ⟨t, ht⟩ := (hasPrefix_iff _ _).mp hp
      subst h
      refine ⟨?_, hv.1, hv.2.2⟩
      rw [ht]
      simp
    · exact absurd h (by simp)
  · exact absurd h (by simp)

theorem extMatch_iff (v e : Bytes) : extMatch v e = true ↔ ∃ x, x ≠ [] ∧ v = x ++ dot :: e := by
  unfold extMatch
  rw [Bool.and_eq_true, hasSuffix_iff, decide_eq_true_eq]
  constructor
  · rintro ⟨⟨y, rfl⟩, hl⟩
    refine ⟨y, ?_, rfl⟩
    intro e0; subst e0; simp at hl
  · rintro ⟨x, hx, rfl⟩
    refine ⟨⟨x, rfl⟩, ?_⟩
    have : 0 < x.length := List.length_pos_iff.mpr hx
    simp; omega

/-! ### the last element -/

/-- if the text after the last slash is a proper element, it is the last element of the cleaned path -/
theorem cleanSegs_last (s z : Bytes) (hz : Proper z) (init : List Bytes)
    (h : splitOnByte slash s = init ++ [z]) : ∃ A, cleanSegs s = A ++ [z] := by
  unfold cleanSegs
  rw [h, List.foldl_append]
  simp only [List.foldl_cons, List.foldl_nil]
  rw [push_of_proper _ z hz]
  exact ⟨(List.foldl push [] init).reverse, by simp⟩

theorem ext_proper (last e : Bytes) (hl : slash ∉ last) (he : e ≠ []) (hd : e ≠ [dot]) (hs : slash ∉ e) :
    Proper (last ++ dot :: e) := by
  refine ⟨by simp, ?_, ?_, ?_⟩
  · intro h
    have := congrArg List.length h
    have : 0 < e.length := List.length_pos_iff.mpr he
    simp at *; omega
  · intro h
    have hlen := congrArg List.length h
    have hpos : 0 < e.length := List.length_pos_iff.mpr he
    simp at hlen
    have hnil : last = [] := List.eq_nil_of_length_eq_zero (by omega)
    subst hnil
    simp at h
    exact hd h
  · intro h
    rcases List.mem_append.mp h with h | h
    · exact hl h
    · rcases List.mem_cons.mp h with h | h
      · exact absurd h (by decide)
      · exact hs h

/-- a name ending in "." ++ e keeps that ending through Clean -/
theorem cleanSegs_ext (x e : Bytes) (he : e ≠ []) (hd : e ≠ [dot]) (hs : slash ∉ e) :
    ∃ A q, cleanSegs (x ++ dot :: e) = A ++ [q ++ dot :: e] := by
  have hde : slash ∉ dot :: e := by
    intro h
    rcases List.mem_cons.mp h with h | h
    · exact absurd h (by decide)
    · exact hs h
  obtain ⟨init, last, h1, h2⟩ := split_append_noSep slash x (dot :: e) hde
  have hlast : slash ∉ last := split_noSep slash x last (by rw [h1]; simp)
  obtain ⟨A, hA⟩ := cleanSegs_last (x ++ dot :: e) (last ++ dot :: e) (ext_proper last e hlast he hd hs) init h2
  exact ⟨A, last, hA⟩

theorem render_append_singleton (A : List Bytes) (z : Bytes) :
    render (A ++ [z]) = renderRel A ++ slash :: z := by
  rw [render_of_ne_nil (by simp), renderRel_append]
  simp [renderRel]

/-! ### FileServer and the handlers -/

theorem fileServer_opened (look : Bytes → Node) (d' upath0 : Bytes) :
    (∀ p ∈ (fileServer look (slash :: d') upath0).opened, Under (slash :: d') p) ∧
    (∀ k, (fileServer look (slash :: d') upath0).served = .file k ∨
          (fileServer look (slash :: d') upath0).served = .listing k →
          k ∈ (fileServer look (slash :: d') upath0).opened) := by
  unfold fileServer
  dsimp only
  refine ⟨?_, (serveFile_opened look _ _ _ true).2⟩
  intro p hp
  rcases (serveFile_opened look _ _ _ true).1 p hp with h | h
  · exact dirOpen_under d' _ p h
  · exact dirOpen_under d' _ p h

/-- a request to a StaticDir / StaticFS / StaticFiles mount is answered 404 without touching the file
    system, or by the file server of the configured directory -/
theorem serve_cases (look : Bytes → Node) (m : Mount) (q : Req) (hk : m.kind ≠ .file) :
    ((serve look m q).status = 404 ∧ (serve look m q).opened = [] ∧ (serve look m q).served = .nothing) ∨
    ∃ u, serve look m q = fileServer look m.target u := by
  unfold serve
  dsimp only
  split
  · split
    · left; simp
    · split
      · left; simp
      · right; exact ⟨_, rfl⟩
  · split
    · left; simp
    · split
      · left; simp
      · right; exact ⟨_, rfl⟩
  · split
    · left; simp
    · right; exact ⟨_, rfl⟩
  · rename_i h; exact absurd h hk

theorem lastByte_ext (x e : Bytes) (hs : slash ∉ e) : lastByte (x ++ dot :: e) ≠ some slash := by
  unfold lastByte
  rw [List.getLast?_append, List.getLast?_cons]
  intro h
  injection h with h
  cases hl : e.getLast? with
  | none => rw [hl] at h; simp at h; exact absurd h (by decide)
  | some z =>
    rw [hl] at h
    simp at h
    subst h
    exact hs (List.mem_of_getLast? hl)

/-- the file server applied to a captured value `x ++ "." ++ e`: a served file ends in "." ++ e and no
    directory is listed -/
theorem fileServer_ext (look : Bytes → Node) (d' x e : Bytes) (hx : x ≠ [])
    (he : e ≠ []) (hd : e ≠ [dot]) (hs : slash ∉ e) :
    (∀ k, (fileServer look (slash :: d') (x ++ dot :: e)).served = .file k → ∃ y, k = y ++ dot :: e) ∧
    (∀ k, (fileServer look (slash :: d') (x ++ dot :: e)).served ≠ .listing k) := by
  -- the URL path the file server works with is "/" ++ w where w still ends in "." ++ e
  have hw : ∃ w x', (if hasPrefix (x ++ dot :: e) [slash] then x ++ dot :: e else slash :: (x ++ dot :: e)) = slash :: w
      ∧ w = x' ++ dot :: e := by
    split
    · rename_i hp
      obtain ⟨t, ht⟩ := (hasPrefix_iff _ _).mp hp
      cases x with
      | nil => exact absurd rfl hx
      | cons a x' =>
        simp at ht
        refine ⟨x' ++ dot :: e, x', ?_, rfl⟩
        rw [ht.1]; rfl
    · exact ⟨x ++ dot :: e, x, rfl, rfl⟩
  obtain ⟨w, x', hu, hwe⟩ := hw
  unfold fileServer
  dsimp only
  rw [hu]
  have hlast : lastByte (slash :: w) ≠ some slash := by
    rw [hwe]; exact lastByte_ext (slash :: x') e hs
  obtain ⟨h1, h2⟩ := serveFile_noslash look (slash :: d') (slash :: w) (cleanAbs (slash :: w)) true hlast
  refine ⟨?_, h2⟩
  intro k hk
  have hfull := dirOpen_full d' _ k (h1 k hk)
  have hname : cleanSegs (cleanAbs (slash :: w)) = cleanSegs w := by
    unfold cleanAbs cleanRooted
    simp only [List.drop_succ_cons, List.drop_zero]
    exact cleanSegs_render _ (cleanSegs_proper w)
  obtain ⟨A, qq, hA⟩ := cleanSegs_ext x' e he hd hs
  rw [hname, hwe, hA, ← List.append_assoc, render_append_singleton] at hfull
  exact ⟨renderRel (cleanSegs d' ++ A) ++ slash :: qq, by rw [hfull]; simp⟩

/-! ### filepath.Split and ServeFile on a clean absolute file name -/

theorem splitLast_render (init : List Bytes) (z : Bytes) (hz : slash ∉ z) :
    splitLast (renderRel init ++ slash :: z) = (renderRel init ++ [slash], z) := by
  unfold splitLast
  rw [split_append_sep_gen, split_of_noSep slash z hz, List.getLast?_concat]
  simp only [Prod.mk.injEq, and_true]
  have : renderRel init ++ slash :: z = (renderRel init ++ [slash]) ++ z := by simp
  rw [this]
  apply List.take_left'
  simp
  omega

theorem cleanSegs_dir_of (init : List Bytes) (hp : AllProper init) :
    ∃ d', renderRel init ++ [slash] = slash :: d' ∧ cleanSegs d' = init := by
  cases init with
  | nil => exact ⟨[], rfl, by simp [cleanSegs_eq, foldSegs_nil]⟩
  | cons a t =>
    refine ⟨a ++ renderRel t ++ [slash], by simp [renderRel_cons], ?_⟩
    rw [cleanSegs_eq, foldSegs_append_sep, foldSegs_nil]
    have := foldSegs_renderRel (a :: t) hp []
    rw [renderRel_cons, foldSegs_cons_slash] at this
    rw [this]; simp

theorem cleanSegs_proper_seg (z : Bytes) (hz : Proper z) : cleanSegs z = [z] := by
  rw [cleanSegs_eq, foldSegs_noSlash _ _ hz.2.2.2, push_of_proper _ _ hz]; rfl

def indexSeg : Bytes := [0x69, 0x6E, 0x64, 0x65, 0x78, 0x2E, 0x68, 0x74, 0x6D, 0x6C]  -- "index.html"

theorem indexPage_eq : indexPage = slash :: indexSeg := rfl

theorem indexSeg_proper : Proper indexSeg := by decide

theorem trimSuffix_noSlash (z : Bytes) (hz : slash ∉ z) : trimSuffix z [slash] = z := by
  unfold trimSuffix
  split
  · rename_i h
    obtain ⟨y, hy⟩ := (hasSuffix_iff _ _).mp h
    exact absurd (by rw [hy]; simp) hz
  · rfl

/-- for a clean absolute file name F = "/e1/…/en" (n ≥ 1): `http.Dir(dir).Open(file)` with
    `dir, file = filepath.Split(F)` opens F, and the index page of F is F ++ "/index.html" -/
theorem singleFile_open (init : List Bytes) (z : Bytes) (hi : AllProper init) (hz : Proper z) (p : Bytes) :
    (dirOpen (renderRel init ++ [slash]) z = some p → p = render (init ++ [z])) ∧
    (dirOpen (renderRel init ++ [slash]) (trimSuffix z [slash] ++ indexPage) = some p →
      p = render (init ++ [z]) ++ indexPage) := by
  obtain ⟨d', hd1, hd2⟩ := cleanSegs_dir_of init hi
  rw [hd1]
  constructor
  · intro h
    rw [dirOpen_full d' z p h, hd2, cleanSegs_proper_seg z hz]
  · intro h
    rw [trimSuffix_noSlash z hz.2.2.2] at h
    rw [dirOpen_full d' _ p h, hd2, indexPage_eq, cleanSegs_eq, foldSegs_append_sep,
      foldSegs_noSlash _ z hz.2.2.2, push_of_proper _ _ hz,
      foldSegs_noSlash _ indexSeg indexSeg_proper.2.2.2, push_of_proper _ _ indexSeg_proper]
    have : init ++ [indexSeg, z].reverse = (init ++ [z]) ++ [indexSeg] := by simp
    rw [this, render_append_singleton, render_of_ne_nil (by simp)]

/-- ServeFile on a name that is a regular file: only that name is opened, only it is served -/
theorem serveFile_false_file (look : Bytes → Node) (dir url name : Bytes)
    (h1 : ∀ full, dirOpen dir name = some full → look full = .file) :
    (∀ p ∈ (serveFile look dir url name false).opened, dirOpen dir name = some p) ∧
    (∀ k, (serveFile look dir url name false).served = .file k → dirOpen dir name = some k) ∧
    (∀ k, (serveFile look dir url name false).served ≠ .listing k) := by
  unfold serveFile
  split
  · simp
  · split
    · simp
    · rename_i full hfull
      rw [h1 full hfull]
      simp [hfull]

/-- a request to a StaticFile mount is answered 404 without touching the file system, or by
    `http.ServeFile` on the configured file -/
theorem serve_file_cases (look : Bytes → Node) (m : Mount) (q : Req) (hk : m.kind = .file) :
    serve look m q = { status := 404 } ∨ serve look m q = httpServeFile look q.path m.target := by
  unfold serve
  dsimp only
  rw [hk]
  dsimp only
  by_cases h : formatPath m.strict (if m.enc = true then q.esc else q.path) = formatPath m.strict m.pfx
  · right; rw [if_pos h]
  · left; rw [if_neg h]

theorem httpServeFile_single (look : Bytes → Node) (url : Bytes) (init : List Bytes) (z : Bytes)
    (hi : AllProper init) (hz : Proper z) :
    (∀ p ∈ (httpServeFile look url (render (init ++ [z]))).opened,
        p = render (init ++ [z]) ∨ p = render (init ++ [z]) ++ indexPage) ∧
    (∀ k, (httpServeFile look url (render (init ++ [z]))).served = .file k ∨
          (httpServeFile look url (render (init ++ [z]))).served = .listing k →
          k ∈ (httpServeFile look url (render (init ++ [z]))).opened) := by
  unfold httpServeFile
  by_cases hdd : containsDotDot url = true
  · rw [if_pos hdd]; simp
  · rw [if_neg hdd, render_append_singleton, splitLast_render init z hz.2.2.2]
    dsimp only
    refine ⟨?_, (serveFile_opened look _ _ _ false).2⟩
    intro p hp
    rw [← render_append_singleton init z]
    rcases (serveFile_opened look _ _ _ false).1 p hp with h | h
    · left; exact (singleFile_open init z hi hz p).1 h
    · right; exact (singleFile_open init z hi hz p).2 h

theorem httpServeFile_regular (look : Bytes → Node) (url : Bytes) (init : List Bytes) (z : Bytes)
    (hi : AllProper init) (hz : Proper z) (hfile : look (render (init ++ [z])) = .file) :
    (∀ p ∈ (httpServeFile look url (render (init ++ [z]))).opened, p = render (init ++ [z])) ∧
    (∀ k, (httpServeFile look url (render (init ++ [z]))).served = .file k → k = render (init ++ [z])) ∧
    (∀ k, (httpServeFile look url (render (init ++ [z]))).served ≠ .listing k) := by
  unfold httpServeFile
  by_cases hdd : containsDotDot url = true
  · rw [if_pos hdd]; simp
  · rw [if_neg hdd, render_append_singleton, splitLast_render init z hz.2.2.2]
    dsimp only
    rw [← render_append_singleton init z]
    have hopen : ∀ full, dirOpen (renderRel init ++ [slash]) z = some full → full = render (init ++ [z]) :=
      fun full h => (singleFile_open init z hi hz full).1 h
    obtain ⟨h1, h2, h3⟩ := serveFile_false_file look (renderRel init ++ [slash]) url z
      (fun full h => by rw [hopen full h]; exact hfile)
    exact ⟨fun p hp => hopen p (h1 p hp), fun k hk => hopen k (h2 k hk), h3⟩

end Clean
end Rux
