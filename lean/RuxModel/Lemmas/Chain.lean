import RuxModel.Model.Chain
/-
  Lemmas about the handler-chain model.

  1. `next_eq_onion` / `serve_eq_onion`: the cursor loop `next` (with the int8 wrap) computes exactly the
     onion specification, for every chain of at most 63 handlers and every behaviour, with an explicit
     fuel bound (so termination is part of the statement).
  2. `check_onion`: every onion trace passes the trace validator `check`.
  3. generic consequences of `check` (no enter after an abort, IsAborted samples, LIFO, enter order).
  4. `proj_onion`: the events of one handler inside an onion trace are exactly its own actions, once.
  5. the writer fold.
-/
namespace Rux.Chain
set_option linter.unusedSimpArgs false

/-! ### 1. the loop computes the onion -/

theorem wrap8_id {x : Int} (h1 : -128 ≤ x) (h2 : x ≤ 127) : wrap8 x = x := by
  unfold wrap8; omega

theorem last_eq (s : Nat) (hs : s ≤ 63) : wrap8 (wrap8 (s : Int) - 1) = (s : Int) - 1 := by
  have h1 : wrap8 (s : Int) = s := wrap8_id (by omega) (by omega)
  rw [h1, wrap8_id (by omega) (by omega)]

theorem next_done (hs : List Handler) (hlen : hs.length ≤ 63) (f : Nat) (st : St)
    (h : ¬ st.idx < (hs.length : Int) - 1) : next hs (f + 1) st = .ok st := by
  rw [next]; simp only [last_eq _ hlen, h, if_false]

theorem idxOf_ge (s i : Nat) (hs : s ≤ 63) (hi : i < s) (started ab : Bool) :
    decide (idxOf s i started ab ≥ abortIndex) = ab := by
  unfold idxOf abortIndex
  cases ab <;> cases started <;> simp <;> omega

/-- the body of handler `i`, started with the cursor at the point `acc` describes, performs `specStep` -/
theorem runActs_spec (s i : Nat) (nx : St → Res) (R : List Ev × Bool) (hs63 : s ≤ 63) (hi : i < s)
    (hfresh : ∀ tr, nx ⟨(i : Int), tr⟩ = .ok ⟨idxOf s i true R.2, tr ++ R.1⟩)
    (hdone : ∀ st, ¬ st.idx < (s : Int) - 1 → nx st = .ok st) :
    ∀ (acts : List Act) (pre : List Ev) (acc : Acc),
      runActs nx i acts ⟨idxOf s i acc.started acc.ab, pre ++ acc.tr⟩ =
        .ok ⟨idxOf s i (acts.foldl (specStep i R) acc).started (acts.foldl (specStep i R) acc).ab,
             pre ++ (acts.foldl (specStep i R) acc).tr⟩ := by
  intro acts
  induction acts with
  | nil => intro pre acc; simp [runActs]
  | cons a rest ih =>
    intro pre acc
    have h63 : ∀ b, idxOf s i b true = abortIndex := by intro b; simp [idxOf]
    cases a with
    | emit t =>
      have := ih pre { acc with tr := acc.tr ++ [.mark i t] }
      simpa [runActs, specStep, ownEv, List.append_assoc] using this
    | isAborted t =>
      have := ih pre { acc with tr := acc.tr ++ [.aborted i t acc.ab] }
      simpa [runActs, specStep, ownEv, List.append_assoc, idxOf_ge s i hs63 hi] using this
    | abort =>
      have := ih pre { acc with tr := acc.tr ++ [.abort i], ab := true }
      simpa [runActs, specStep, ownEv, List.append_assoc, h63] using this
    | abortThen =>
      have := ih pre { acc with tr := acc.tr ++ [.abort i], ab := true }
      simpa [runActs, specStep, ownEv, List.append_assoc, h63] using this
    | abortWithStatus c =>
      have := ih pre { acc with tr := acc.tr ++ [.status i c, .abort i], ab := true }
      simpa [runActs, specStep, ownEv, List.append_assoc, h63] using this
    | abortWithMsg c =>
      have := ih pre { acc with tr := acc.tr ++ [.status i c, .write i 0, .abort i], ab := true }
      simpa [runActs, specStep, ownEv, List.append_assoc, h63] using this
    | setStatus c =>
      have := ih pre { acc with tr := acc.tr ++ [.status i c] }
      simpa [runActs, specStep, ownEv, List.append_assoc] using this
    | write t =>
      have := ih pre { acc with tr := acc.tr ++ [.write i t] }
      simpa [runActs, specStep, ownEv, List.append_assoc] using this
    | next =>
      by_cases hc : acc.started = false ∧ acc.ab = false
      · obtain ⟨h1, h2⟩ := hc
        have hidx : idxOf s i acc.started acc.ab = (i : Int) := by simp [idxOf, h1, h2]
        have hstep : specStep i R acc .next = { tr := acc.tr ++ R.1, started := true, ab := R.2 } := by
          simp [specStep, h1, h2]
        have := ih pre { tr := acc.tr ++ R.1, started := true, ab := R.2 }
        rw [List.foldl_cons, hstep, hidx]
        simp only [runActs, hfresh]
        simpa [List.append_assoc] using this
      · have hcond : (!acc.started && !acc.ab) = false := by
          revert hc; cases acc.started <;> cases acc.ab <;> simp
        have hnot : ¬ (idxOf s i acc.started acc.ab < (s : Int) - 1) := by
          unfold idxOf abortIndex
          revert hc; cases acc.started <;> cases acc.ab <;> simp <;> omega
        have hstep : specStep i R acc .next = acc := by simp [specStep, hcond]
        have hnx := hdone ⟨idxOf s i acc.started acc.ab, pre ++ acc.tr⟩ hnot
        rw [List.foldl_cons, hstep]
        simp only [runActs, hnx]
        exact ih pre acc

/-- `Next()` entered with the cursor in front of handler `i` runs the onion of handlers `i, i+1, …`;
    `hs.length - i + 1` units of fuel suffice. -/
theorem next_eq_onion (hs : List Handler) (hlen : hs.length ≤ 63) :
    ∀ (k i : Nat), i + k = hs.length → ∀ (tr : List Ev) (f : Nat), k + 1 ≤ f →
      next hs f ⟨(i : Int) - 1, tr⟩ =
        .ok ⟨idxOf hs.length i true (onion i (hs.drop i)).2, tr ++ (onion i (hs.drop i)).1⟩ := by
  intro k
  induction k with
  | zero =>
    intro i hik tr f hf
    obtain ⟨f', rfl⟩ : ∃ f', f = f' + 1 := ⟨f - 1, by omega⟩
    have hi : i = hs.length := by omega
    subst hi
    rw [next_done hs hlen _ _ (by simp)]
    simp [onion, idxOf]
  | succ k ih =>
    intro i hik tr f hf
    have hi : i < hs.length := by omega
    have hdrop : hs.drop i = hs[i] :: hs.drop (i + 1) := List.drop_eq_getElem_cons hi
    obtain ⟨f', rfl⟩ : ∃ f', f = f' + 1 := ⟨f - 1, by omega⟩
    have hf' : k + 1 ≤ f' := by omega
    -- what a Next() inside (or after) handler i does
    have IH' : ∀ tr, next hs f' ⟨(i : Int), tr⟩ =
        .ok ⟨idxOf hs.length i true (onion (i + 1) (hs.drop (i + 1))).2,
             tr ++ (onion (i + 1) (hs.drop (i + 1))).1⟩ := by
      intro tr
      have := ih (i + 1) (by omega) tr f' hf'
      have e : ((i + 1 : Nat) : Int) - 1 = (i : Int) := by omega
      rw [e] at this
      simpa [idxOf] using this
    have hdone : ∀ st : St, ¬ st.idx < (hs.length : Int) - 1 → next hs f' st = .ok st := by
      intro st h
      obtain ⟨f'', rfl⟩ : ∃ f'', f' = f'' + 1 := ⟨f' - 1, by omega⟩
      exact next_done hs hlen f'' st h
    let R := onion (i + 1) (hs.drop (i + 1))
    have hrun := runActs_spec hs.length i (next hs f') R hlen hi IH' hdone hs[i]
      (tr ++ [.enter i]) ⟨[], false, false⟩
    let acc := hs[i].foldl (specStep i R) ⟨[], false, false⟩
    rw [next]
    have hlt : ((i : Int) - 1) < (hs.length : Int) - 1 := by omega
    have hj : wrap8 ((i : Int) - 1 + 1) = (i : Int) := by
      rw [wrap8_id (by omega) (by omega)]; omega
    simp only [last_eq _ hlen, hlt, if_true, hj, Int.toNat_natCast, Int.natCast_nonneg,
      List.getElem?_eq_getElem hi]
    have hidx0 : idxOf hs.length i false false = (i : Int) := by simp [idxOf]
    simp only [hidx0, List.append_nil] at hrun
    rw [hrun]
    simp only [onion, hdrop]
    by_cases hc : acc.started = false ∧ acc.ab = false
    · obtain ⟨hs1, hs2⟩ := hc
      have hcond : (!acc.started && !acc.ab) = true := by simp [hs1, hs2]
      have hidx : idxOf hs.length i acc.started acc.ab = (i : Int) := by simp [idxOf, hs1, hs2]
      show next hs f' ⟨idxOf hs.length i acc.started acc.ab, _⟩ = _
      rw [hidx, IH']
      simp [hcond, R, acc, List.append_assoc]
    · have hcond : (!acc.started && !acc.ab) = false := by
        revert hc; cases acc.started <;> cases acc.ab <;> simp
      have hnot : ¬ (idxOf hs.length i acc.started acc.ab < (hs.length : Int) - 1) := by
        unfold idxOf abortIndex
        revert hc; cases acc.started <;> cases acc.ab <;> simp <;> omega
      show next hs f' ⟨idxOf hs.length i acc.started acc.ab, _⟩ = _
      rw [hdone _ hnot]
      have hidx : idxOf hs.length i acc.started acc.ab = idxOf hs.length i true acc.ab := by
        unfold idxOf
        revert hc; cases acc.started <;> cases acc.ab <;> simp
      simp [hcond, R, acc, List.append_assoc, hidx]

/-- a whole request within the handler limit: the run ends normally, its trace is the onion, and the
    cursor ends at the last handler or at `abortIndex` -/
theorem serve_eq_onion (hs : List Handler) (hlen : hs.length ≤ 63) :
    serve hs = .ok ⟨idxOf hs.length 0 true (onion 0 hs).2, (onion 0 hs).1⟩ := by
  have := next_eq_onion hs hlen hs.length 0 (by omega) [] (hs.length + 1) (by omega)
  simpa [serve] using this

/-! ### 2. every onion trace passes the validator -/

theorem check_append (s : CSt) (a b : List Ev) :
    check s (a ++ b) = (check s a).bind (fun s' => check s' b) := by
  induction a generalizing s with
  | nil => simp [check]
  | cons e rest ih =>
    simp only [List.cons_append, check]
    cases checkStep s e with
    | none => simp
    | some s' => simpa using ih s'

theorem check_snoc {s0 s s' : CSt} {tr evs : List Ev} (h1 : check s0 tr = some s)
    (h2 : check s evs = some s') : check s0 (tr ++ evs) = some s' := by
  rw [check_append, h1]; simpa using h2

/-- the events of one action of handler `i` are accepted while `i` is the innermost running handler -/
theorem check_ownEv (s : CSt) (i : Nat) (a : Act) (h : s.stack.head? = some i) :
    check s (ownEv i s.ab a).1 = some { s with ab := (ownEv i s.ab a).2 } := by
  cases a <;> simp [ownEv, check, checkStep, h]

/-- position of the next handler to start after (part of) handler `i`: the rest of the chain starts
    `kR` handlers if it has been let in -/
def nxtOf (i kR : Nat) : Bool → Nat
  | true => i + 1 + kR
  | false => i + 1

/-- the actions of handler `i`, read by `specStep`, keep the validator happy: `i` stays on top of the
    stack; the rest of the chain (`R`, which starts `kR` handlers) is spliced in at most once, and only
    while nothing has aborted -/
theorem check_fold (i kR : Nat) (R : List Ev × Bool) (stk : List Nat) (s0 : CSt)
    (hR : check ⟨false, i :: stk, i + 1⟩ R.1 = some ⟨R.2, i :: stk, i + 1 + kR⟩) :
    ∀ (acts : List Act) (acc : Acc),
      (check s0 acc.tr = some ⟨acc.ab, i :: stk, nxtOf i kR acc.started⟩ ∧
        (acc.started = true → acc.ab = false → R.2 = false)) →
      (check s0 (acts.foldl (specStep i R) acc).tr =
          some ⟨(acts.foldl (specStep i R) acc).ab, i :: stk,
                nxtOf i kR (acts.foldl (specStep i R) acc).started⟩ ∧
        ((acts.foldl (specStep i R) acc).started = true → (acts.foldl (specStep i R) acc).ab = false →
          R.2 = false)) := by
  intro acts
  induction acts with
  | nil => intro acc h; exact h
  | cons a rest ih =>
    intro acc h
    obtain ⟨hc, hab⟩ := h
    rw [List.foldl_cons]
    apply ih
    by_cases hn : a = .next
    · subst hn
      by_cases hcnd : acc.started = false ∧ acc.ab = false
      · obtain ⟨h1, h2⟩ := hcnd
        have hstep : specStep i R acc .next = { tr := acc.tr ++ R.1, started := true, ab := R.2 } := by
          simp [specStep, h1, h2]
        rw [hstep]
        simp only [h1, h2, nxtOf] at hc
        exact ⟨by simpa [nxtOf] using check_snoc hc hR, by intro _ h; exact h⟩
      · have hcond : (!acc.started && !acc.ab) = false := by
          revert hcnd; cases acc.started <;> cases acc.ab <;> simp
        have hstep : specStep i R acc .next = acc := by simp [specStep, hcond]
        rw [hstep]; exact ⟨hc, hab⟩
    · have hstep : specStep i R acc a =
          { acc with tr := acc.tr ++ (ownEv i acc.ab a).1, ab := (ownEv i acc.ab a).2 } := by
        simp [specStep, hn]
      rw [hstep]
      refine ⟨check_snoc hc (check_ownEv _ i a rfl), ?_⟩
      intro h1 h2
      have : acc.ab = false := by
        revert h2; simp only; cases a <;> simp [ownEv]
      exact hab h1 this

/-- Every onion trace is accepted by `check`, from any stack.  `k` = number of handlers that start;
    when the request is not aborted at the end, all of them did. -/
theorem check_onion : ∀ (hs : List Handler) (i : Nat),
    ∃ k, k ≤ hs.length ∧ ((onion i hs).2 = false → k = hs.length) ∧
      ∀ stk, check ⟨false, stk, i⟩ (onion i hs).1 = some ⟨(onion i hs).2, stk, i + k⟩ := by
  intro hs
  induction hs with
  | nil => intro i; exact ⟨0, by simp, by simp, by intro stk; simp [onion, check]⟩
  | cons h rest ih =>
    intro i
    obtain ⟨kR, hk1, hk2, hk3⟩ := ih (i + 1)
    let R := onion (i + 1) rest
    let acc := h.foldl (specStep i R) ⟨[], false, false⟩
    have hfold : ∀ stk, check ⟨false, i :: stk, i + 1⟩ acc.tr =
          some ⟨acc.ab, i :: stk, nxtOf i kR acc.started⟩ ∧
        (acc.started = true → acc.ab = false → R.2 = false) := by
      intro stk
      exact check_fold i kR R stk ⟨false, i :: stk, i + 1⟩ (hk3 (i :: stk)) h ⟨[], false, false⟩
        ⟨by simp [check, nxtOf], by simp⟩
    have henter : ∀ stk, checkStep ⟨false, stk, i⟩ (.enter i) = some ⟨false, i :: stk, i + 1⟩ := by
      intro stk; simp [checkStep]
    by_cases hcnd : acc.started = false ∧ acc.ab = false
    · obtain ⟨h1, h2⟩ := hcnd
      have hcond : (!acc.started && !acc.ab) = true := by simp [h1, h2]
      refine ⟨kR + 1, by simp; omega, ?_, ?_⟩
      · intro hab
        have : (onion i (h :: rest)).2 = R.2 := by simp only [onion]; simp [R, acc, hcond]
        rw [this] at hab
        simp [hk2 hab]
      · intro stk
        have hf := (hfold stk).1
        simp only [h1, h2, nxtOf] at hf
        have e : (onion i (h :: rest)) = ([Ev.enter i] ++ acc.tr ++ [.leave i] ++ R.1, R.2) := by
          simp only [onion]; simp [R, acc, hcond]
        rw [e]
        simp only [List.cons_append, List.nil_append, check, henter, List.append_assoc]
        rw [check_append, hf]
        simp only [Option.bind_some, check, checkStep, if_true]
        have := hk3 stk
        simp only [R] at this ⊢
        rw [this]
        simp; omega
    · have hcond : (!acc.started && !acc.ab) = false := by
        revert hcnd; cases acc.started <;> cases acc.ab <;> simp
      have e : (onion i (h :: rest)) = ([Ev.enter i] ++ acc.tr ++ [.leave i], acc.ab) := by
        simp only [onion]; simp [R, acc, hcond]
      refine ⟨if acc.started then kR + 1 else 1, by split <;> simp <;> omega, ?_, ?_⟩
      · intro hab
        rw [e] at hab
        simp only at hab
        have hst : acc.started = true := by
          revert hcnd; rw [hab]; cases acc.started <;> simp
        have hR2 := (hfold []).2 hst hab
        simp [hst, hk2 hR2]
      · intro stk
        have hf := (hfold stk).1
        rw [e]
        simp only [List.cons_append, List.nil_append, check, henter]
        rw [check_append, hf]
        simp only [Option.bind_some, check, checkStep, if_true]
        cases acc.started <;> simp [nxtOf] <;> omega

/-! ### 3. the onion in closed form -/

theorem ownEv_ab_true (i : Nat) (a : Act) : (ownEv i true a).2 = true := by
  cases a <;> simp [ownEv]

theorem ownEv_ab_of_not_abort (i : Nat) (ab : Bool) (a : Act) (h : a.isAbort = false) :
    (ownEv i ab a).2 = ab := by
  cases a <;> simp_all [ownEv, Act.isAbort]

theorem ownEv_ab_of_abort (i : Nat) (ab : Bool) (a : Act) (h : a.isAbort = true) :
    (ownEv i ab a).2 = true := by
  cases a <;> simp_all [ownEv, Act.isAbort]

theorem flat_ab_true (i : Nat) (acts : List Act) : (flat i true acts).2 = true := by
  induction acts with
  | nil => simp [flat]
  | cons a rest ih => simp [flat, ownEv_ab_true, ih]

/-- once the rest of the chain has run, or after an abort, a handler's remaining actions are "flat" -/
theorem fold_inert (i : Nat) (R : List Ev × Bool) :
    ∀ (acts : List Act) (acc : Acc), (acc.started = true ∨ acc.ab = true) →
      acts.foldl (specStep i R) acc =
        ⟨acc.tr ++ (flat i acc.ab acts).1, acc.started, (flat i acc.ab acts).2⟩ := by
  intro acts
  induction acts with
  | nil => intro acc _; simp [flat]
  | cons a rest ih =>
    intro acc h
    have hcond : (!acc.started && !acc.ab) = false := by
      revert h; cases acc.started <;> cases acc.ab <;> simp
    rw [List.foldl_cons]
    by_cases hn : a = .next
    · subst hn
      have hstep : specStep i R acc .next = acc := by simp [specStep, hcond]
      rw [hstep, ih acc h]
      simp [flat, ownEv]
    · have hstep : specStep i R acc a =
          { acc with tr := acc.tr ++ (ownEv i acc.ab a).1, ab := (ownEv i acc.ab a).2 } := by
        simp [specStep, hn]
      rw [hstep, ih]
      · simp [flat, List.append_assoc]
      · rcases h with h | h
        · exact Or.inl h
        · right; simp only; rw [h]; exact ownEv_ab_true i a

/-- a handler's actions read from the start: split at the first effective `Next()` -/
theorem fold_fresh (i : Nat) (R : List Ev × Bool) :
    ∀ (acts : List Act) (tr : List Ev),
      acts.foldl (specStep i R) ⟨tr, false, false⟩ =
        match splitNext acts with
        | some (pre, post) =>
          ⟨tr ++ (flat i false pre).1 ++ R.1 ++ (flat i R.2 post).1, true, (flat i R.2 post).2⟩
        | none => ⟨tr ++ (flat i false acts).1, false, (flat i false acts).2⟩ := by
  intro acts
  induction acts with
  | nil => intro tr; simp [splitNext, flat]
  | cons a rest ih =>
    intro tr
    rw [List.foldl_cons]
    by_cases hn : a = .next
    · subst hn
      have hstep : specStep i R ⟨tr, false, false⟩ .next = ⟨tr ++ R.1, true, R.2⟩ := by simp [specStep]
      rw [hstep, fold_inert i R rest _ (Or.inl rfl)]
      simp [splitNext, flat]
    · have hstep : specStep i R ⟨tr, false, false⟩ a =
          ⟨tr ++ (ownEv i false a).1, false, (ownEv i false a).2⟩ := by
        simp [specStep, hn]
      rw [hstep]
      by_cases ha : a.isAbort = true
      · rw [ownEv_ab_of_abort i false a ha, fold_inert i R rest _ (Or.inr rfl)]
        simp [splitNext, hn, ha, flat, ownEv_ab_of_abort i false a ha, List.append_assoc]
      · have ha' : a.isAbort = false := by simpa using ha
        rw [ownEv_ab_of_not_abort i false a ha', ih]
        simp only [splitNext, hn, ha', if_false, Bool.false_eq_true]
        cases splitNext rest with
        | none => simp [flat, ownEv_ab_of_not_abort i false a ha', List.append_assoc]
        | some pq => simp [flat, ownEv_ab_of_not_abort i false a ha', List.append_assoc]

/-- the onion, one handler at a time, in closed form -/
theorem onion_cons (i : Nat) (h : Handler) (rest : List Handler) :
    onion i (h :: rest) = onionStep i h (onion (i + 1) rest) := by
  simp only [onion, onionStep]
  rw [fold_fresh]
  cases splitNext h with
  | some pq => simp [List.append_assoc]
  | none =>
    simp only []
    cases (flat i false h).2 <;> simp

theorem splitNext_eq : ∀ (h pre post : List Act), splitNext h = some (pre, post) →
    h = pre ++ .next :: post ∧ (∀ a ∈ pre, a ≠ .next ∧ a.isAbort = false) := by
  intro h
  induction h with
  | nil => intro pre post hs; simp [splitNext] at hs
  | cons a rest ih =>
    intro pre post hs
    simp only [splitNext] at hs
    by_cases hn : a = .next
    · simp only [hn, if_true, Option.some.injEq, Prod.mk.injEq] at hs
      obtain ⟨rfl, rfl⟩ := hs
      simp [hn]
    · simp only [hn, if_false] at hs
      by_cases ha : a.isAbort = true
      · simp [ha] at hs
      · simp only [ha, if_false] at hs
        cases hr : splitNext rest with
        | none => simp [hr] at hs
        | some pq =>
          simp only [hr, Option.map_some, Option.some.injEq, Prod.mk.injEq] at hs
          obtain ⟨rfl, rfl⟩ := hs
          obtain ⟨e, hp⟩ := ih pq.1 pq.2 (by rw [hr])
          refine ⟨by simp [← e], ?_⟩
          intro x hx
          simp only [List.mem_cons] at hx
          rcases hx with rfl | hx
          · exact ⟨hn, by simpa using ha⟩
          · exact hp x hx

theorem splitNext_none : ∀ (h : List Act), splitNext h = none → (flat i false h).2 = false →
    ∀ a ∈ h, a ≠ .next ∧ a.isAbort = false := by
  intro h
  induction h with
  | nil => intro _ _ a ha; simp at ha
  | cons a rest ih =>
    intro hs hf x hx
    simp only [splitNext] at hs
    by_cases hn : a = .next
    · simp [hn] at hs
    · simp only [hn, if_false] at hs
      by_cases ha : a.isAbort = true
      · simp only [flat, ownEv_ab_of_abort i false a ha, flat_ab_true] at hf
        simp at hf
      · have ha' : a.isAbort = false := by simpa using ha
        simp only [ha', Bool.false_eq_true, if_false, Option.map_eq_none_iff] at hs
        simp only [flat, ownEv_ab_of_not_abort i false a ha'] at hf
        simp only [List.mem_cons] at hx
        rcases hx with rfl | hx
        · exact ⟨hn, ha'⟩
        · exact ih hs hf x hx

/-! ### 4. what an accepted trace looks like -/

theorem check_split {s s' : CSt} {pre post : List Ev} {e : Ev}
    (h : check s (pre ++ e :: post) = some s') :
    ∃ s1 s2, check s pre = some s1 ∧ checkStep s1 e = some s2 ∧ check s2 post = some s' := by
  rw [check_append] at h
  cases h1 : check s pre with
  | none => simp [h1] at h
  | some s1 =>
    simp only [h1, Option.bind_some, check] at h
    cases h2 : checkStep s1 e with
    | none => simp [h2] at h
    | some s2 => simp only [h2] at h; exact ⟨s1, s2, rfl, h2, h⟩

theorem checkStep_ab {s s' : CSt} {e : Ev} (h : checkStep s e = some s') :
    s'.ab = (s.ab || e.isAbort) := by
  cases e <;> simp only [checkStep] at h
  case leave j =>
    cases hst : s.stack with
    | nil => simp [hst] at h
    | cons top below =>
      simp only [hst] at h
      split at h
      · simp only [Option.some.injEq] at h; subst h; simp [Ev.isAbort]
      · simp at h
  all_goals
    split at h
    · simp only [Option.some.injEq] at h; subst h; simp_all [Ev.isAbort]
    · simp at h

theorem check_ab {s s' : CSt} {tr : List Ev} (h : check s tr = some s') :
    s'.ab = (s.ab || tr.any Ev.isAbort) := by
  induction tr generalizing s with
  | nil => simp only [check, Option.some.injEq] at h; subst h; simp
  | cons e rest ih =>
    simp only [check] at h
    cases h1 : checkStep s e with
    | none => simp [h1] at h
    | some s1 =>
      simp only [h1] at h
      rw [ih h, checkStep_ab h1]
      simp [Bool.or_assoc]

/-- after an abort, the validator accepts no `enter` any more -/
theorem check_no_enter {s s' : CSt} {tr : List Ev} (h : check s tr = some s') (hab : s.ab = true) :
    ∀ j, Ev.enter j ∉ tr := by
  induction tr generalizing s with
  | nil => intro j; simp
  | cons e rest ih =>
    intro j hmem
    simp only [check] at h
    cases h1 : checkStep s e with
    | none => simp [h1] at h
    | some s1 =>
      simp only [h1] at h
      have hab1 : s1.ab = true := by rw [checkStep_ab h1, hab]; simp
      simp only [List.mem_cons] at hmem
      rcases hmem with rfl | hmem
      · simp [checkStep, hab] at h1
      · exact ih h hab1 j hmem

theorem checkStep_nxt {s s' : CSt} {e : Ev} (h : checkStep s e = some s') :
    (e = .enter s.nxt ∧ s'.nxt = s.nxt + 1) ∨ (e.isEnter = false ∧ s'.nxt = s.nxt) := by
  cases e <;> simp only [checkStep] at h
  case leave j =>
    cases hst : s.stack with
    | nil => simp [hst] at h
    | cons top below =>
      simp only [hst] at h
      split at h
      · simp only [Option.some.injEq] at h; subst h; simp [Ev.isEnter]
      · simp at h
  case enter j =>
    split at h
    · rename_i hc
      simp only [Option.some.injEq] at h; subst h; left; simp [hc.2]
    · simp at h
  all_goals
    split at h
    · simp only [Option.some.injEq] at h; subst h; simp [Ev.isEnter]
    · simp at h

/-- handlers start in list order, without gaps and without repetition -/
theorem check_enters {s s' : CSt} {tr : List Ev} (h : check s tr = some s') :
    s.nxt ≤ s'.nxt ∧ enters tr = List.range' s.nxt (s'.nxt - s.nxt) := by
  induction tr generalizing s with
  | nil => simp only [check, Option.some.injEq] at h; subst h; simp [enters]
  | cons e rest ih =>
    simp only [check] at h
    cases h1 : checkStep s e with
    | none => simp [h1] at h
    | some s1 =>
      simp only [h1] at h
      obtain ⟨hle, hen⟩ := ih h
      rcases checkStep_nxt h1 with ⟨rfl, hn⟩ | ⟨hne, hn⟩
      · refine ⟨by omega, ?_⟩
        simp only [enters, hen, hn]
        have : s'.nxt - s.nxt = (s'.nxt - (s.nxt + 1)) + 1 := by omega
        rw [this, List.range'_succ]
      · refine ⟨by omega, ?_⟩
        rw [← hn, ← hen]
        cases e <;> simp_all [enters, Ev.isEnter]

/-- the validator's stack discipline is `nest` -/
theorem check_nest {s s' : CSt} {tr : List Ev} (h : check s tr = some s') :
    nest s.stack tr = some s'.stack := by
  induction tr generalizing s with
  | nil => simp only [check, Option.some.injEq] at h; subst h; simp [nest]
  | cons e rest ih =>
    simp only [check] at h
    cases h1 : checkStep s e with
    | none => simp [h1] at h
    | some s1 =>
      simp only [h1] at h
      have := ih h
      cases e <;> simp only [checkStep] at h1
      case enter j =>
        split at h1
        · simp only [Option.some.injEq] at h1; subst h1; simpa [nest] using this
        · simp at h1
      case leave j =>
        cases hst : s.stack with
        | nil => simp [hst] at h1
        | cons top below =>
          simp only [hst] at h1
          split at h1
          · rename_i hc
            simp only [Option.some.injEq] at h1; subst h1
            simpa [nest, hc] using this
          · simp at h1
      all_goals
        split at h1
        · rename_i hc
          simp only [Option.some.injEq] at h1; subst h1
          first
            | simpa [nest, Ev.handler, hc] using this
            | simpa [nest, Ev.handler, hc.1] using this
        · simp at h1

/-! ### 5. the events of one handler -/

theorem flat_handler (i : Nat) : ∀ (acts : List Act) (ab : Bool), ∀ e ∈ (flat i ab acts).1, e.handler = i := by
  intro acts
  induction acts with
  | nil => intro ab e he; simp [flat] at he
  | cons a rest ih =>
    intro ab e he
    simp only [flat, List.mem_append] at he
    rcases he with he | he
    · cases a <;> simp [ownEv] at he <;> (try rcases he with rfl | rfl | rfl) <;> simp_all [Ev.handler]
    · exact ih _ e he

theorem ownEv_erase (i : Nat) (ab : Bool) (a : Act) :
    (ownEv i ab a).1.map Ev.erase = (ownEv i false a).1.map Ev.erase := by
  cases a <;> simp [ownEv, Ev.erase]

theorem flat_erase (i : Nat) : ∀ (acts : List Act) (ab : Bool),
    (flat i ab acts).1.map Ev.erase = shape i acts := by
  intro acts
  induction acts with
  | nil => intro ab; simp [flat, shape]
  | cons a rest ih =>
    intro ab
    simp only [flat, shape, List.map_append]
    rw [ih, ih, ownEv_erase]

theorem flat_append (i : Nat) : ∀ (x y : List Act) (ab : Bool),
    flat i ab (x ++ y) = ((flat i ab x).1 ++ (flat i (flat i ab x).2 y).1, (flat i (flat i ab x).2 y).2) := by
  intro x
  induction x with
  | nil => intro y ab; simp [flat]
  | cons a rest ih => intro y ab; simp [flat, ih, List.append_assoc]

theorem shape_split (i : Nat) (pre post : List Act) :
    shape i (pre ++ .next :: post) = shape i pre ++ shape i post := by
  have h1 := flat_append i pre (.next :: post) false
  simp only [shape, h1, List.map_append]
  congr 1
  simp only [flat, ownEv, List.nil_append]
  rw [flat_erase, shape]

theorem proj_append (j : Nat) (a b : List Ev) : proj j (a ++ b) = proj j a ++ proj j b := by
  simp [proj]

theorem proj_flat_self (i : Nat) (ab : Bool) (acts : List Act) :
    proj i (flat i ab acts).1 = (flat i ab acts).1 := by
  simp only [proj, List.filter_eq_self]
  intro e he; simp [flat_handler i acts ab e he]

theorem proj_flat_other (i j : Nat) (hne : i ≠ j) (ab : Bool) (acts : List Act) :
    proj j (flat i ab acts).1 = [] := by
  simp only [proj, List.filter_eq_nil_iff]
  intro e he; simp [flat_handler i acts ab e he, hne]

/-- every event of the onion of handlers `i, i+1, …` belongs to one of them -/
theorem onion_handler_ge : ∀ (hs : List Handler) (i : Nat), ∀ e ∈ (onion i hs).1, i ≤ e.handler := by
  intro hs
  induction hs with
  | nil => intro i e he; simp [onion] at he
  | cons h rest ih =>
    intro i e he
    rw [onion_cons] at he
    have hR : ∀ e ∈ (onion (i + 1) rest).1, i ≤ e.handler := fun e he => by have := ih (i + 1) e he; omega
    have hF : ∀ ab acts, ∀ e ∈ (flat i ab acts).1, i ≤ e.handler := fun ab acts e he => by
      rw [flat_handler i acts ab e he]; exact Nat.le_refl _
    simp only [onionStep] at he
    split at he
    · simp only [List.mem_append, List.mem_cons, List.not_mem_nil, or_false] at he
      rcases he with (((rfl | he) | he) | he) | rfl
      · simp [Ev.handler]
      · exact hF _ _ e he
      · exact hR e he
      · exact hF _ _ e he
      · simp [Ev.handler]
    · split at he
      · simp only [List.mem_append, List.mem_cons, List.not_mem_nil, or_false] at he
        rcases he with (rfl | he) | rfl
        · simp [Ev.handler]
        · exact hF _ _ e he
        · simp [Ev.handler]
      · simp only [List.mem_append, List.mem_cons, List.not_mem_nil, or_false] at he
        rcases he with ((rfl | he) | rfl) | he
        · simp [Ev.handler]
        · exact hF _ _ e he
        · simp [Ev.handler]
        · exact hR e he

theorem proj_nil_of_lt (hs : List Handler) (i j : Nat) (h : j < i) : proj j (onion i hs).1 = [] := by
  simp only [proj, List.filter_eq_nil_iff]
  intro e he
  have := onion_handler_ge hs i e he
  simp; omega

/-- The events of handler `j` in an onion trace: none at all (it never started), or `enter j`, every one
    of its actions exactly once in order, `leave j` -/
theorem proj_onion : ∀ (hs : List Handler) (i j : Nat),
    proj j (onion i hs).1 = [] ∨
      ∃ h, hs[j - i]? = some h ∧ i ≤ j ∧
        (proj j (onion i hs).1).map Ev.erase = [Ev.enter j] ++ shape j h ++ [.leave j] := by
  intro hs
  induction hs with
  | nil => intro i j; left; simp [onion, proj]
  | cons h rest ih =>
    intro i j
    rw [onion_cons]
    by_cases hji : j = i
    · -- the handler itself
      subst hji
      right
      refine ⟨h, by simp, Nat.le_refl _, ?_⟩
      have hR : proj j (onion (j + 1) rest).1 = [] := proj_nil_of_lt rest (j + 1) j (by omega)
      have hE : proj j [Ev.enter j] = [Ev.enter j] := by simp [proj, Ev.handler]
      have hL : proj j [Ev.leave j] = [Ev.leave j] := by simp [proj, Ev.handler]
      simp only [onionStep]
      split
      · rename_i pre post hsp
        obtain ⟨rfl, _⟩ := splitNext_eq h pre post hsp
        simp only [proj_append, hR, hE, hL, proj_flat_self, List.append_nil, List.map_append,
          flat_erase, shape_split]
        simp [Ev.erase, List.append_assoc]
      · split
        · simp only [proj_append, hE, hL, proj_flat_self, List.map_append, flat_erase]
          simp [Ev.erase]
        · simp only [proj_append, hR, hE, hL, proj_flat_self, List.append_nil, List.map_append, flat_erase]
          simp [Ev.erase]
    · -- some other handler: only the rest of the chain can contain its events, and it occurs once
      have hij : ¬ i = j := fun h => hji h.symm
      have hE : proj j [Ev.enter i] = [] := by simp [proj, Ev.handler, hij]
      have hL : proj j [Ev.leave i] = [] := by simp [proj, Ev.handler, hij]
      have hF : ∀ ab acts, proj j (flat i ab acts).1 = [] := fun ab acts => proj_flat_other i j (Ne.symm hji) ab acts
      have hRest : proj j (onion (i + 1) rest).1 = [] ∨
          ∃ h', (h :: rest)[j - i]? = some h' ∧ i ≤ j ∧
            (proj j (onion (i + 1) rest).1).map Ev.erase = [Ev.enter j] ++ shape j h' ++ [.leave j] := by
        rcases ih (i + 1) j with h0 | ⟨h', hget, hle, hp⟩
        · exact Or.inl h0
        · right
          refine ⟨h', ?_, by omega, hp⟩
          have : j - i = (j - (i + 1)) + 1 := by omega
          rw [this, List.getElem?_cons_succ]; exact hget
      simp only [onionStep]
      split
      · simp only [proj_append, hE, hL, hF, List.nil_append, List.append_nil]
        exact hRest
      · split
        · left; simp only [proj_append, hE, hL, hF, List.append_nil]
        · simp only [proj_append, hE, hL, hF, List.nil_append]
          exact hRest

/-! ### 6. everybody calls `Next()`, nobody aborts: leave order is the reverse of the enter order -/

theorem enters_append (a b : List Ev) : enters (a ++ b) = enters a ++ enters b := by
  induction a with
  | nil => simp [enters]
  | cons e rest ih => cases e <;> simp [enters, ih]

theorem leaves_append (a b : List Ev) : leaves (a ++ b) = leaves a ++ leaves b := by
  induction a with
  | nil => simp [leaves]
  | cons e rest ih => cases e <;> simp [leaves, ih]

theorem flat_enters_leaves (i : Nat) : ∀ (acts : List Act) (ab : Bool),
    enters (flat i ab acts).1 = [] ∧ leaves (flat i ab acts).1 = [] := by
  intro acts
  induction acts with
  | nil => intro ab; simp [flat, enters, leaves]
  | cons a rest ih =>
    intro ab
    simp only [flat, enters_append, leaves_append, ih, List.append_nil]
    cases a <;> simp [ownEv, enters, leaves]

theorem flat_no_abort (i : Nat) : ∀ (acts : List Act) (ab : Bool), (∀ a ∈ acts, a.isAbort = false) →
    (flat i ab acts).2 = ab := by
  intro acts
  induction acts with
  | nil => intro ab _; simp [flat]
  | cons a rest ih =>
    intro ab h
    simp only [flat]
    rw [ownEv_ab_of_not_abort i ab a (h a (by simp)), ih ab (fun x hx => h x (by simp [hx]))]

theorem splitNext_some_of_mem : ∀ (h : List Act), .next ∈ h → (∀ a ∈ h, a.isAbort = false) →
    ∃ pre post, splitNext h = some (pre, post) := by
  intro h
  induction h with
  | nil => intro hm; simp at hm
  | cons a rest ih =>
    intro hm hna
    by_cases hn : a = .next
    · exact ⟨[], rest, by simp [splitNext, hn]⟩
    · have hm' : Act.next ∈ rest := by
        simp only [List.mem_cons] at hm
        rcases hm with hm | hm
        · exact absurd hm.symm hn
        · exact hm
      obtain ⟨pre, post, hsp⟩ := ih hm' (fun x hx => hna x (by simp [hx]))
      exact ⟨a :: pre, post, by simp [splitNext, hn, hna a (by simp), hsp]⟩

/-- nobody aborts and every handler except possibly the last calls `Next()` (any number of times):
    all handlers start in list order and return in exactly the reverse order -/
theorem onion_all_next : ∀ (hs : List Handler) (i : Nat),
    (∀ h ∈ hs, ∀ a ∈ h, a.isAbort = false) → (∀ h ∈ hs.dropLast, Act.next ∈ h) →
    enters (onion i hs).1 = List.range' i hs.length ∧
    leaves (onion i hs).1 = (List.range' i hs.length).reverse ∧ (onion i hs).2 = false := by
  intro hs
  induction hs with
  | nil => intro i _ _; simp [onion, enters, leaves]
  | cons h rest ih =>
    intro i hna hnx
    have hna' : ∀ a ∈ h, a.isAbort = false := hna h (by simp)
    rw [onion_cons]
    simp only [onionStep]
    have hrange : List.range' i (h :: rest).length = i :: List.range' (i + 1) rest.length := by
      simp [List.range'_succ]
    split
    · -- h calls Next()
      rename_i pre post hsp
      have hrest : ∀ h' ∈ rest.dropLast, Act.next ∈ h' := by
        intro h' hh'
        apply hnx
        cases rest with
        | nil => simp at hh'
        | cons r rs => simp only [List.dropLast_cons_cons, List.mem_cons]; exact Or.inr hh'
      obtain ⟨he, hl, hab⟩ := ih (i + 1) (fun h' hh' => hna h' (by simp [hh'])) hrest
      obtain ⟨rfl, _⟩ := splitNext_eq h pre post hsp
      have hpost : ∀ a ∈ post, a.isAbort = false := fun a ha => hna' a (by simp [ha])
      refine ⟨?_, ?_, ?_⟩
      · simp only [enters_append, (flat_enters_leaves i _ _).1, he, hrange]
        simp [enters]
      · simp only [leaves_append, (flat_enters_leaves i _ _).2, hl, hrange]
        simp [leaves]
      · rw [flat_no_abort i post _ hpost, hab]
    · -- h does not call Next(): it can only be the last handler
      rename_i hsp
      have hnone : Act.next ∉ h := by
        intro hm
        obtain ⟨pre, post, hs'⟩ := splitNext_some_of_mem h hm hna'
        rw [hs'] at hsp; simp at hsp
      have hrestnil : rest = [] := by
        cases rest with
        | nil => rfl
        | cons r rs =>
          exact absurd (hnx h (by simp)) hnone
      subst hrestnil
      rw [flat_no_abort i h false hna']
      simp only [Bool.false_eq_true, if_false, onion, List.append_nil]
      refine ⟨?_, ?_, by simp⟩
      · simp only [enters_append, (flat_enters_leaves i _ _).1]; simp [enters]
      · simp only [leaves_append, (flat_enters_leaves i _ _).2]; simp [leaves]

/-! ### 7. the writer fold -/

theorem W.run_append (w : W) (a b : List Ev) : W.run w (a ++ b) = W.run (W.run w a) b := by
  simp [W.run, List.foldl_append]

theorem W.run_cons (w : W) (e : Ev) (t : List Ev) : W.run w (e :: t) = W.run (w.step e) t := by
  simp [W.run]

/-- without a body write nothing is committed while the handlers run -/
theorem W.run_no_write : ∀ (tr : List Ev) (w : W), w.committed = none → (∀ e ∈ tr, e.isWrite = false) →
    (W.run w tr).committed = none := by
  intro tr
  induction tr with
  | nil => intro w h _; simpa [W.run] using h
  | cons e rest ih =>
    intro w h hnw
    rw [W.run_cons]
    apply ih
    · have := hnw e (by simp)
      cases e <;> simp_all [W.step, Ev.isWrite]
      split <;> simp_all
    · intro x hx; exact hnw x (by simp [hx])

/-- a status that nobody changes later is the one that gets committed -/
theorem W.run_keep : ∀ (tr : List Ev) (w : W) (c : Nat), c > 0 → w.status = c →
    (w.committed = none ∨ w.committed = some c) → (∀ e ∈ tr, e.isStatus = false) →
    (W.run w tr).status = c ∧ ((W.run w tr).committed = none ∨ (W.run w tr).committed = some c) := by
  intro tr
  induction tr with
  | nil => intro w c _ hs hc _; exact ⟨hs, hc⟩
  | cons e rest ih =>
    intro w c hpos hs hc hns
    rw [W.run_cons]
    have he := hns e (by simp)
    apply ih _ c hpos
    · cases e <;> simp_all [W.step, Ev.isStatus, W.ensure]
      split <;> simp_all
      omega
    · cases e <;> simp_all [W.step, Ev.isStatus, W.ensure]
      split <;> simp_all
      omega
    · intro x hx; exact hns x (by simp [hx])

/-- once committed, the committed status never changes -/
theorem W.run_committed : ∀ (tr : List Ev) (w : W) (s : Nat), w.committed = some s →
    (W.run w tr).committed = some s := by
  intro tr
  induction tr with
  | nil => intro w s h; simpa [W.run] using h
  | cons e rest ih =>
    intro w s h
    rw [W.run_cons]
    apply ih
    cases e <;> simp_all [W.step, W.ensure]
    split <;> simp_all

/-- a body write commits -/
theorem W.run_write : ∀ (tr : List Ev) (w : W), (∃ e ∈ tr, e.isWrite = true) →
    ∃ s, (W.run w tr).committed = some s := by
  intro tr
  induction tr with
  | nil => intro w h; simp at h
  | cons e rest ih =>
    intro w h
    rw [W.run_cons]
    by_cases he : e.isWrite = true
    · have : ∃ s, (w.step e).committed = some s := by
        cases e <;> simp_all [Ev.isWrite, W.step, W.ensure]
        cases hc : w.committed <;> simp [hc]
      obtain ⟨s, hs⟩ := this
      exact ⟨s, W.run_committed rest _ s hs⟩
    · apply ih
      obtain ⟨x, hx, hw⟩ := h
      simp only [List.mem_cons] at hx
      rcases hx with rfl | hx
      · exact absurd hw he
      · exact ⟨x, hx, hw⟩

/-! ### 8. small facts used by the property files -/

theorem splitNext_none_of_not_mem : ∀ (h : List Act), Act.next ∉ h → (∀ a ∈ h, a.isAbort = false) →
    splitNext h = none := by
  intro h
  induction h with
  | nil => intro _ _; simp [splitNext]
  | cons a rest ih =>
    intro hn hna
    have h1 : a ≠ .next := fun e => hn (by simp [e])
    have h2 : a.isAbort = false := hna a (by simp)
    have h3 := ih (fun hm => hn (by simp [hm])) (fun x hx => hna x (by simp [hx]))
    simp [splitNext, h1, h2, h3]

theorem splitNext_of_split : ∀ (pre post : List Act), (∀ a ∈ pre, a ≠ .next ∧ a.isAbort = false) →
    splitNext (pre ++ .next :: post) = some (pre, post) := by
  intro pre
  induction pre with
  | nil => intro post _; simp [splitNext]
  | cons a rest ih =>
    intro post h
    have h1 := h a (by simp)
    have h3 := ih post (fun x hx => h x (by simp [hx]))
    simp [splitNext, h1.1, h1.2, h3]

/-- a `Next()` in a stretch where `Next()` has no effect can be left out -/
theorem flat_filter_next (i : Nat) : ∀ (acts : List Act) (ab : Bool),
    flat i ab (acts.filter (fun a => !decide (a = Act.next))) = flat i ab acts := by
  intro acts
  induction acts with
  | nil => intro ab; simp
  | cons a rest ih =>
    intro ab
    by_cases hn : a = .next
    · subst hn; simp [flat, ownEv, ih]
    · simp [List.filter_cons, hn, flat, ih]

/-- a whole request as a validated trace -/
theorem serve_check (hs : List Handler) :
    ∃ k, k ≤ hs.length ∧ ((onion 0 hs).2 = false → k = hs.length) ∧
      check ⟨false, [], 0⟩ (onion 0 hs).1 = some ⟨(onion 0 hs).2, [], k⟩ := by
  obtain ⟨k, h1, h2, h3⟩ := check_onion hs 0
  exact ⟨k, h1, h2, by simpa using h3 []⟩

end Rux.Chain
