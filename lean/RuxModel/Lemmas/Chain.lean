import RuxModel.Model.Chain
/-
  Lemmas about the handler-chain model.

  1. `next_eq_onion` / `serve_eq_onion`: the cursor loop `next` (with the int8 wrap) computes exactly the
     onion specification, for every chain of at most 63 handlers and every behaviour, with an explicit
     fuel bound (so termination is part of the statement).
  2. `check_onion`: every onion trace passes the trace validator `check`.
  3. generic consequences of `check` (no enter after an abort, IsAborted samples, LIFO, enter order).
  4. `proj_onion`: the events of one handler inside an onion trace are exactly its own actions, once.
  5. the writer fold.
-/
namespace Rux.Chain

/-! ### 1. the loop computes the onion -/

theorem wrap8_id {x : Int} (h1 : -128 ≤ x) (h2 : x ≤ 127) : wrap8 x = x := by
  unfold wrap8; omega

theorem last_eq (s : Nat) (hs : s ≤ 63) : wrap8 (wrap8 (s : Int) - 1) = (s : Int) - 1 := by
  have h1 : wrap8 (s : Int) = s := wrap8_id (by omega) (by omega)
  rw [h1, wrap8_id (by omega) (by omega)]

theorem next_done (hs : List Handler) (hlen : hs.length ≤ 63) (f : Nat) (st : St)
    (h : ¬ st.idx < (hs.length : Int) - 1) : next hs (f + 1) st = .ok st := by
  rw [next]; simp only [last_eq _ hlen, h, if_false]

theorem idxOf_ge (s i : Nat) (hs : s ≤ 63) (hi : i < s) (started ab : Bool) :
    decide (idxOf s i started ab ≥ abortIndex) = ab := by
  unfold idxOf abortIndex
  cases ab <;> cases started <;> simp <;> omega

/-- the body of handler `i`, started with the cursor at the point `acc` describes, performs `specStep` -/
theorem runActs_spec (s i : Nat) (nx : St → Res) (R : List Ev × Bool) (hs63 : s ≤ 63) (hi : i < s)
    (hfresh : ∀ tr, nx ⟨(i : Int), tr⟩ = .ok ⟨idxOf s i true R.2, tr ++ R.1⟩)
    (hdone : ∀ st, ¬ st.idx < (s : Int) - 1 → nx st = .ok st) :
    ∀ (acts : List Act) (pre : List Ev) (acc : Acc),
      runActs nx i acts ⟨idxOf s i acc.started acc.ab, pre ++ acc.tr⟩ =
        .ok ⟨idxOf s i (acts.foldl (specStep i R) acc).started (acts.foldl (specStep i R) acc).ab,
             pre ++ (acts.foldl (specStep i R) acc).tr⟩ := by
  intro acts
  induction acts with
  | nil => intro pre acc; simp [runActs]
  | cons a rest ih =>
    intro pre acc
    have h63 : ∀ b, idxOf s i b true = abortIndex := by intro b; simp [idxOf]
    cases a with
    | emit t =>
      have := ih pre { acc with tr := acc.tr ++ [.mark i t] }
      simpa [runActs, specStep, List.append_assoc] using this
    | isAborted t =>
      have := ih pre { acc with tr := acc.tr ++ [.aborted i t acc.ab] }
      simpa [runActs, specStep, List.append_assoc, idxOf_ge s i hs63 hi] using this
    | abort =>
      have := ih pre { acc with tr := acc.tr ++ [.abort i], ab := true }
      simpa [runActs, specStep, List.append_assoc, h63] using this
    | abortThen =>
      have := ih pre { acc with tr := acc.tr ++ [.abort i], ab := true }
      simpa [runActs, specStep, List.append_assoc, h63] using this
    | abortWithStatus c =>
      have := ih pre { acc with tr := acc.tr ++ [.status i c, .abort i], ab := true }
      simpa [runActs, specStep, List.append_assoc, h63] using this
    | abortWithMsg c =>
      have := ih pre { acc with tr := acc.tr ++ [.status i c, .write i 0, .abort i], ab := true }
      simpa [runActs, specStep, List.append_assoc, h63] using this
    | setStatus c =>
      have := ih pre { acc with tr := acc.tr ++ [.status i c] }
      simpa [runActs, specStep, List.append_assoc] using this
    | write t =>
      have := ih pre { acc with tr := acc.tr ++ [.write i t] }
      simpa [runActs, specStep, List.append_assoc] using this
    | next =>
      by_cases hc : acc.started = false ∧ acc.ab = false
      · obtain ⟨h1, h2⟩ := hc
        have hidx : idxOf s i acc.started acc.ab = (i : Int) := by simp [idxOf, h1, h2]
        have hstep : specStep i R acc .next = { tr := acc.tr ++ R.1, started := true, ab := R.2 } := by
          simp [specStep, h1, h2]
        have := ih pre { tr := acc.tr ++ R.1, started := true, ab := R.2 }
        rw [List.foldl_cons, hstep, hidx]
        simp only [runActs, hfresh]
        simpa [List.append_assoc] using this
      · have hcond : (!acc.started && !acc.ab) = false := by
          revert hc; cases acc.started <;> cases acc.ab <;> simp
        have hnot : ¬ (idxOf s i acc.started acc.ab < (s : Int) - 1) := by
          unfold idxOf abortIndex
          revert hc; cases acc.started <;> cases acc.ab <;> simp <;> omega
        have hstep : specStep i R acc .next = acc := by simp [specStep, hcond]
        have hnx := hdone ⟨idxOf s i acc.started acc.ab, pre ++ acc.tr⟩ hnot
        rw [List.foldl_cons, hstep]
        simp only [runActs, hnx]
        exact ih pre acc

/-- `Next()` entered with the cursor in front of handler `i` runs the onion of handlers `i, i+1, …`;
    `hs.length - i + 1` units of fuel suffice. -/
theorem next_eq_onion (hs : List Handler) (hlen : hs.length ≤ 63) :
    ∀ (k i : Nat), i + k = hs.length → ∀ (tr : List Ev) (f : Nat), k + 1 ≤ f →
      next hs f ⟨(i : Int) - 1, tr⟩ =
        .ok ⟨idxOf hs.length i true (onion i (hs.drop i)).2, tr ++ (onion i (hs.drop i)).1⟩ := by
  intro k
  induction k with
  | zero =>
    intro i hik tr f hf
    obtain ⟨f', rfl⟩ : ∃ f', f = f' + 1 := ⟨f - 1, by omega⟩
    have hi : i = hs.length := by omega
    subst hi
    rw [next_done hs hlen _ _ (by simp)]
    simp [onion, idxOf]
  | succ k ih =>
    intro i hik tr f hf
    have hi : i < hs.length := by omega
    have hdrop : hs.drop i = hs[i] :: hs.drop (i + 1) := List.drop_eq_getElem_cons hi
    obtain ⟨f', rfl⟩ : ∃ f', f = f' + 1 := ⟨f - 1, by omega⟩
    have hf' : k + 1 ≤ f' := by omega
    -- what a Next() inside (or after) handler i does
    have IH' : ∀ tr, next hs f' ⟨(i : Int), tr⟩ =
        .ok ⟨idxOf hs.length i true (onion (i + 1) (hs.drop (i + 1))).2,
             tr ++ (onion (i + 1) (hs.drop (i + 1))).1⟩ := by
      intro tr
      have := ih (i + 1) (by omega) tr f' hf'
      have e : ((i + 1 : Nat) : Int) - 1 = (i : Int) := by omega
      rw [e] at this
      simpa [idxOf] using this
    have hdone : ∀ st : St, ¬ st.idx < (hs.length : Int) - 1 → next hs f' st = .ok st := by
      intro st h
      obtain ⟨f'', rfl⟩ : ∃ f'', f' = f'' + 1 := ⟨f' - 1, by omega⟩
      exact next_done hs hlen f'' st h
    let R := onion (i + 1) (hs.drop (i + 1))
    have hrun := runActs_spec hs.length i (next hs f') R hlen hi IH' hdone hs[i]
      (tr ++ [.enter i]) ⟨[], false, false⟩
    let acc := hs[i].foldl (specStep i R) ⟨[], false, false⟩
    rw [next]
    have hlt : ((i : Int) - 1) < (hs.length : Int) - 1 := by omega
    have hj : wrap8 ((i : Int) - 1 + 1) = (i : Int) := by
      rw [wrap8_id (by omega) (by omega)]; omega
    simp only [last_eq _ hlen, hlt, if_true, hj, Int.toNat_natCast, Int.natCast_nonneg,
      List.getElem?_eq_getElem hi]
    have hidx0 : idxOf hs.length i false false = (i : Int) := by simp [idxOf]
    simp only [hidx0, List.append_nil] at hrun
    rw [hrun]
    simp only [onion, hdrop]
    by_cases hc : acc.started = false ∧ acc.ab = false
    · obtain ⟨hs1, hs2⟩ := hc
      have hcond : (!acc.started && !acc.ab) = true := by simp [hs1, hs2]
      have hidx : idxOf hs.length i acc.started acc.ab = (i : Int) := by simp [idxOf, hs1, hs2]
      show next hs f' ⟨idxOf hs.length i acc.started acc.ab, _⟩ = _
      rw [hidx, IH']
      simp [hcond, R, acc, List.append_assoc]
    · have hcond : (!acc.started && !acc.ab) = false := by
        revert hc; cases acc.started <;> cases acc.ab <;> simp
      have hnot : ¬ (idxOf hs.length i acc.started acc.ab < (hs.length : Int) - 1) := by
        unfold idxOf abortIndex
        revert hc; cases acc.started <;> cases acc.ab <;> simp <;> omega
      show next hs f' ⟨idxOf hs.length i acc.started acc.ab, _⟩ = _
      rw [hdone _ hnot]
      have hidx : idxOf hs.length i acc.started acc.ab = idxOf hs.length i true acc.ab := by
        unfold idxOf
        revert hc; cases acc.started <;> cases acc.ab <;> simp
      simp [hcond, R, acc, List.append_assoc, hidx]

/-- a whole request within the handler limit: the run ends normally, its trace is the onion, and the
    cursor ends at the last handler or at `abortIndex` -/
theorem serve_eq_onion (hs : List Handler) (hlen : hs.length ≤ 63) :
    serve hs = .ok ⟨idxOf hs.length 0 true (onion 0 hs).2, (onion 0 hs).1⟩ := by
  have := next_eq_onion hs hlen hs.length 0 (by omega) [] (hs.length + 1) (by omega)
  simpa [serve] using this

end Rux.Chain
