import RuxModel.Model.Chain
/-
  Lemmas about the handler-chain model.

  1. `next_eq_onion` / `serve_eq_onion`: the cursor loop `next` (with the int8 wrap) computes exactly the
     onion specification, for every chain of at most 63 handlers and every behaviour, with an explicit
     fuel bound (so termination is part of the statement).
  2. `check_onion`: every onion trace passes the trace validator `check`.
  3. generic consequences of `check` (no enter after an abort, IsAborted samples, LIFO, enter order).
  4. `proj_onion`: the events of one handler inside an onion trace are exactly its own actions, once.
  5. the writer fold.
-/
namespace Rux.Chain

/-! ### 1. the loop computes the onion -/

theorem wrap8_id {x : Int} (h1 : -128 ≤ x) (h2 : x ≤ 127) : wrap8 x = x := by
  unfold wrap8; omega

theorem last_eq (s : Nat) (hs : s ≤ 63) : wrap8 (wrap8 (s : Int) - 1) = (s : Int) - 1 := by
  have h1 : wrap8 (s : Int) = s := wrap8_id (by omega) (by omega)
  rw [h1, wrap8_id (by omega) (by omega)]

theorem next_done (hs : List Handler) (hlen : hs.length ≤ 63) (f : Nat) (st : St)
    (h : ¬ st.idx < (hs.length : Int) - 1) : next hs (f + 1) st = .ok st := by
  rw [next]; simp only [last_eq _ hlen, h, if_false]

theorem idxOf_ge (s i : Nat) (hs : s ≤ 63) (hi : i < s) (started ab : Bool) :
    decide (idxOf s i started ab ≥ abortIndex) = ab := by
  unfold idxOf abortIndex
  cases ab <;> cases started <;> simp <;> omega

/-- the body of handler `i`, started with the cursor at the point `acc` describes, performs `specStep` -/
theorem runActs_spec (s i : Nat) (nx : St → Res) (R : List Ev × Bool) (hs63 : s ≤ 63) (hi : i < s)
    (hfresh : ∀ tr, nx ⟨(i : Int), tr⟩ = .ok ⟨idxOf s i true R.2, tr ++ R.1⟩)
    (hdone : ∀ st, ¬ st.idx < (s : Int) - 1 → nx st = .ok st) :
    ∀ (acts : List Act) (pre : List Ev) (acc : Acc),
      runActs nx i acts ⟨idxOf s i acc.started acc.ab, pre ++ acc.tr⟩ =
        .ok ⟨idxOf s i (acts.foldl (specStep i R) acc).started (acts.foldl (specStep i R) acc).ab,
             pre ++ (acts.foldl (specStep i R) acc).tr⟩ := by
  intro acts
  induction acts with
  | nil => intro pre acc; simp [runActs]
  | cons a rest ih =>
    intro pre acc
    have h63 : ∀ b, idxOf s i b true = abortIndex := by intro b; simp [idxOf]
    cases a with
    | emit t =>
      have := ih pre { acc with tr := acc.tr ++ [.mark i t] }
      simpa [runActs, specStep, ownEv, List.append_assoc] using this
    | isAborted t =>
      have := ih pre { acc with tr := acc.tr ++ [.aborted i t acc.ab] }
      simpa [runActs, specStep, ownEv, List.append_assoc, idxOf_ge s i hs63 hi] using this
    | abort =>
      have := ih pre { acc with tr := acc.tr ++ [.abort i], ab := true }
      simpa [runActs, specStep, ownEv, List.append_assoc, h63] using this
    | abortThen =>
      have := ih pre { acc with tr := acc.tr ++ [.abort i], ab := true }
      simpa [runActs, specStep, ownEv, List.append_assoc, h63] using this
    | abortWithStatus c =>
      have := ih pre { acc with tr := acc.tr ++ [.status i c, .abort i], ab := true }
      simpa [runActs, specStep, ownEv, List.append_assoc, h63] using this
    | abortWithMsg c =>
      have := ih pre { acc with tr := acc.tr ++ [.status i c, .write i 0, .abort i], ab := true }
      simpa [runActs, specStep, ownEv, List.append_assoc, h63] using this
    | setStatus c =>
      have := ih pre { acc with tr := acc.tr ++ [.status i c] }
      simpa [runActs, specStep, ownEv, List.append_assoc] using this
    | write t =>
      have := ih pre { acc with tr := acc.tr ++ [.write i t] }
      simpa [runActs, specStep, ownEv, List.append_assoc] using this
    | next =>
      by_cases hc : acc.started = false ∧ acc.ab = false
      · obtain ⟨h1, h2⟩ := hc
        have hidx : idxOf s i acc.started acc.ab = (i : Int) := by simp [idxOf, h1, h2]
        have hstep : specStep i R acc .next = { tr := acc.tr ++ R.1, started := true, ab := R.2 } := by
          simp [specStep, h1, h2]
        have := ih pre { tr := acc.tr ++ R.1, started := true, ab := R.2 }
        rw [List.foldl_cons, hstep, hidx]
        simp only [runActs, hfresh]
        simpa [List.append_assoc] using this
      · have hcond : (!acc.started && !acc.ab) = false := by
          revert hc; cases acc.started <;> cases acc.ab <;> simp
        have hnot : ¬ (idxOf s i acc.started acc.ab < (s : Int) - 1) := by
          unfold idxOf abortIndex
          revert hc; cases acc.started <;> cases acc.ab <;> simp <;> omega
        have hstep : specStep i R acc .next = acc := by simp [specStep, hcond]
        have hnx := hdone ⟨idxOf s i acc.started acc.ab, pre ++ acc.tr⟩ hnot
        rw [List.foldl_cons, hstep]
        simp only [runActs, hnx]
        exact ih pre acc

/-- `Next()` entered with the cursor in front of handler `i` runs the onion of handlers `i, i+1, …`;
    `hs.length - i + 1` units of fuel suffice. -/
theorem next_eq_onion (hs : List Handler) (hlen : hs.length ≤ 63) :
    ∀ (k i : Nat), i + k = hs.length → ∀ (tr : List Ev) (f : Nat), k + 1 ≤ f →
      next hs f ⟨(i : Int) - 1, tr⟩ =
        .ok ⟨idxOf hs.length i true (onion i (hs.drop i)).2, tr ++ (onion i (hs.drop i)).1⟩ := by
  intro k
  induction k with
  | zero =>
    intro i hik tr f hf
    obtain ⟨f', rfl⟩ : ∃ f', f = f' + 1 := ⟨f - 1, by omega⟩
    have hi : i = hs.length := by omega
    subst hi
    rw [next_done hs hlen _ _ (by simp)]
    simp [onion, idxOf]
  | succ k ih =>
    intro i hik tr f hf
    have hi : i < hs.length := by omega
    have hdrop : hs.drop i = hs[i] :: hs.drop (i + 1) := List.drop_eq_getElem_cons hi
    obtain ⟨f', rfl⟩ : ∃ f', f = f' + 1 := ⟨f - 1, by omega⟩
    have hf' : k + 1 ≤ f' := by omega
    -- what a Next() inside (or after) handler i does
    have IH' : ∀ tr, next hs f' ⟨(i : Int), tr⟩ =
        .ok ⟨idxOf hs.length i true (onion (i + 1) (hs.drop (i + 1))).2,
             tr ++ (onion (i + 1) (hs.drop (i + 1))).1⟩ := by
      intro tr
      have := ih (i + 1) (by omega) tr f' hf'
      have e : ((i + 1 : Nat) : Int) - 1 = (i : Int) := by omega
      rw [e] at this
      simpa [idxOf] using this
    have hdone : ∀ st : St, ¬ st.idx < (hs.length : Int) - 1 → next hs f' st = .ok st := by
      intro st h
      obtain ⟨f'', rfl⟩ : ∃ f'', f' = f'' + 1 := ⟨f' - 1, by omega⟩
      exact next_done hs hlen f'' st h
    let R := onion (i + 1) (hs.drop (i + 1))
    have hrun := runActs_spec hs.length i (next hs f') R hlen hi IH' hdone hs[i]
      (tr ++ [.enter i]) ⟨[], false, false⟩
    let acc := hs[i].foldl (specStep i R) ⟨[], false, false⟩
    rw [next]
    have hlt : ((i : Int) - 1) < (hs.length : Int) - 1 := by omega
    have hj : wrap8 ((i : Int) - 1 + 1) = (i : Int) := by
      rw [wrap8_id (by omega) (by omega)]; omega
    simp only [last_eq _ hlen, hlt, if_true, hj, Int.toNat_natCast, Int.natCast_nonneg,
      List.getElem?_eq_getElem hi]
    have hidx0 : idxOf hs.length i false false = (i : Int) := by simp [idxOf]
    simp only [hidx0, List.append_nil] at hrun
    rw [hrun]
    simp only [onion, hdrop]
    by_cases hc : acc.started = false ∧ acc.ab = false
    · obtain ⟨hs1, hs2⟩ := hc
      have hcond : (!acc.started && !acc.ab) = true := by simp [hs1, hs2]
      have hidx : idxOf hs.length i acc.started acc.ab = (i : Int) := by simp [idxOf, hs1, hs2]
      show next hs f' ⟨idxOf hs.length i acc.started acc.ab, _⟩ = _
      rw [hidx, IH']
      simp [hcond, R, acc, List.append_assoc]
    · have hcond : (!acc.started && !acc.ab) = false := by
        revert hc; cases acc.started <;> cases acc.ab <;> simp
      have hnot : ¬ (idxOf hs.length i acc.started acc.ab < (hs.length : Int) - 1) := by
        unfold idxOf abortIndex
        revert hc; cases acc.started <;> cases acc.ab <;> simp <;> omega
      show next hs f' ⟨idxOf hs.length i acc.started acc.ab, _⟩ = _
      rw [hdone _ hnot]
      have hidx : idxOf hs.length i acc.started acc.ab = idxOf hs.length i true acc.ab := by
        unfold idxOf
        revert hc; cases acc.started <;> cases acc.ab <;> simp
      simp [hcond, R, acc, List.append_assoc, hidx]

/-- a whole request within the handler limit: the run ends normally, its trace is the onion, and the
    cursor ends at the last handler or at `abortIndex` -/
theorem serve_eq_onion (hs : List Handler) (hlen : hs.length ≤ 63) :
    serve hs = .ok ⟨idxOf hs.length 0 true (onion 0 hs).2, (onion 0 hs).1⟩ := by
  have := next_eq_onion hs hlen hs.length 0 (by omega) [] (hs.length + 1) (by omega)
  simpa [serve] using this

/-! ### 2. every onion trace passes the validator -/

theorem check_append (s : CSt) (a b : List Ev) :
    check s (a ++ b) = (check s a).bind (fun s' => check s' b) := by
  induction a generalizing s with
  | nil => simp [check]
  | cons e rest ih =>
    simp only [List.cons_append, check]
    cases checkStep s e with
    | none => simp
    | some s' => simpa using ih s'

theorem check_snoc {s0 s s' : CSt} {tr evs : List Ev} (h1 : check s0 tr = some s)
    (h2 : check s evs = some s') : check s0 (tr ++ evs) = some s' := by
  rw [check_append, h1]; simpa using h2

/-- the events of one action of handler `i` are accepted while `i` is the innermost running handler -/
theorem check_ownEv (s : CSt) (i : Nat) (a : Act) (h : s.stack.head? = some i) :
    check s (ownEv i s.ab a).1 = some { s with ab := (ownEv i s.ab a).2 } := by
  cases a <;> simp [ownEv, check, checkStep, h]

/-- position of the next handler to start after (part of) handler `i`: the rest of the chain starts
    `kR` handlers if it has been let in -/
def nxtOf (i kR : Nat) : Bool → Nat
  | true => i + 1 + kR
  | false => i + 1

/-- the actions of handler `i`, read by `specStep`, keep the validator happy: `i` stays on top of the
    stack; the rest of the chain (`R`, which starts `kR` handlers) is spliced in at most once, and only
    while nothing has aborted -/
theorem check_fold (i kR : Nat) (R : List Ev × Bool) (stk : List Nat) (s0 : CSt)
    (hR : check ⟨false, i :: stk, i + 1⟩ R.1 = some ⟨R.2, i :: stk, i + 1 + kR⟩) :
    ∀ (acts : List Act) (acc : Acc),
      (check s0 acc.tr = some ⟨acc.ab, i :: stk, nxtOf i kR acc.started⟩ ∧
        (acc.started = true → acc.ab = false → R.2 = false)) →
      (check s0 (acts.foldl (specStep i R) acc).tr =
          some ⟨(acts.foldl (specStep i R) acc).ab, i :: stk,
                nxtOf i kR (acts.foldl (specStep i R) acc).started⟩ ∧
        ((acts.foldl (specStep i R) acc).started = true → (acts.foldl (specStep i R) acc).ab = false →
          R.2 = false)) := by
  intro acts
  induction acts with
  | nil => intro acc h; exact h
  | cons a rest ih =>
    intro acc h
    obtain ⟨hc, hab⟩ := h
    rw [List.foldl_cons]
    apply ih
    by_cases hn : a = .next
    · subst hn
      by_cases hcnd : acc.started = false ∧ acc.ab = false
      · obtain ⟨h1, h2⟩ := hcnd
        have hstep : specStep i R acc .next = { tr := acc.tr ++ R.1, started := true, ab := R.2 } := by
          simp [specStep, h1, h2]
        rw [hstep]
        simp only [h1, h2, nxtOf] at hc
        exact ⟨by simpa [nxtOf] using check_snoc hc hR, by intro _ h; exact h⟩
      · have hcond : (!acc.started && !acc.ab) = false := by
          revert hcnd; cases acc.started <;> cases acc.ab <;> simp
        have hstep : specStep i R acc .next = acc := by simp [specStep, hcond]
        rw [hstep]; exact ⟨hc, hab⟩
    · have hstep : specStep i R acc a =
          { acc with tr := acc.tr ++ (ownEv i acc.ab a).1, ab := (ownEv i acc.ab a).2 } := by
        simp [specStep, hn]
      rw [hstep]
      refine ⟨check_snoc hc (check_ownEv _ i a rfl), ?_⟩
      intro h1 h2
      have : acc.ab = false := by
        revert h2; simp only; cases a <;> simp [ownEv]
      exact hab h1 this

/-- Every onion trace is accepted by `check`, from any stack.  `k` = number of handlers that start;
    when the request is not aborted at the end, all of them did. -/
theorem check_onion : ∀ (hs : List Handler) (i : Nat),
    ∃ k, k ≤ hs.length ∧ ((onion i hs).2 = false → k = hs.length) ∧
      ∀ stk, check ⟨false, stk, i⟩ (onion i hs).1 = some ⟨(onion i hs).2, stk, i + k⟩ := by
  intro hs
  induction hs with
  | nil => intro i; exact ⟨0, by simp, by simp, by intro stk; simp [onion, check]⟩
  | cons h rest ih =>
    intro i
    obtain ⟨kR, hk1, hk2, hk3⟩ := ih (i + 1)
    let R := onion (i + 1) rest
    let acc := h.foldl (specStep i R) ⟨[], false, false⟩
    have hfold : ∀ stk, check ⟨false, i :: stk, i + 1⟩ acc.tr =
          some ⟨acc.ab, i :: stk, nxtOf i kR acc.started⟩ ∧
        (acc.started = true → acc.ab = false → R.2 = false) := by
      intro stk
      exact check_fold i kR R stk ⟨false, i :: stk, i + 1⟩ (hk3 (i :: stk)) h ⟨[], false, false⟩
        ⟨by simp [check, nxtOf], by simp⟩
    have henter : ∀ stk, checkStep ⟨false, stk, i⟩ (.enter i) = some ⟨false, i :: stk, i + 1⟩ := by
      intro stk; simp [checkStep]
    by_cases hcnd : acc.started = false ∧ acc.ab = false
    · obtain ⟨h1, h2⟩ := hcnd
      have hcond : (!acc.started && !acc.ab) = true := by simp [h1, h2]
      refine ⟨kR + 1, by simp; omega, ?_, ?_⟩
      · intro hab
        have : (onion i (h :: rest)).2 = R.2 := by simp only [onion]; simp [R, acc, hcond]
        rw [this] at hab
        simp [hk2 hab]
      · intro stk
        have hf := (hfold stk).1
        simp only [h1, h2, nxtOf] at hf
        have e : (onion i (h :: rest)) = ([Ev.enter i] ++ acc.tr ++ [.leave i] ++ R.1, R.2) := by
          simp only [onion]; simp [R, acc, hcond]
        rw [e]
        simp only [List.cons_append, List.nil_append, check, henter, List.append_assoc]
        rw [check_append, hf]
        simp only [Option.bind_some, check, checkStep, if_true]
        have := hk3 stk
        simp only [R] at this ⊢
        rw [this]
        simp; omega
    · have hcond : (!acc.started && !acc.ab) = false := by
        revert hcnd; cases acc.started <;> cases acc.ab <;> simp
      have e : (onion i (h :: rest)) = ([Ev.enter i] ++ acc.tr ++ [.leave i], acc.ab) := by
        simp only [onion]; simp [R, acc, hcond]
      refine ⟨if acc.started then kR + 1 else 1, by split <;> simp <;> omega, ?_, ?_⟩
      · intro hab
        rw [e] at hab
        simp only at hab
        have hst : acc.started = true := by
          revert hcnd; rw [hab]; cases acc.started <;> simp
        have hR2 := (hfold []).2 hst hab
        simp [hst, hk2 hR2]
      · intro stk
        have hf := (hfold stk).1
        rw [e]
        simp only [List.cons_append, List.nil_append, check, henter]
        rw [check_append, hf]
        simp only [Option.bind_some, check, checkStep, if_true]
        cases acc.started <;> simp [nxtOf] <;> omega

/-! ### 3. the onion in closed form -/

theorem ownEv_ab_true (i : Nat) (a : Act) : (ownEv i true a).2 = true := by
  cases a <;> simp [ownEv]

theorem ownEv_ab_of_not_abort (i : Nat) (ab : Bool) (a : Act) (h : a.isAbort = false) :
    (ownEv i ab a).2 = ab := by
  cases a <;> simp_all [ownEv, Act.isAbort]

theorem ownEv_ab_of_abort (i : Nat) (ab : Bool) (a : Act) (h : a.isAbort = true) :
    (ownEv i ab a).2 = true := by
  cases a <;> simp_all [ownEv, Act.isAbort]

theorem flat_ab_true (i : Nat) (acts : List Act) : (flat i true acts).2 = true := by
  induction acts with
  | nil => simp [flat]
  | cons a rest ih => simp [flat, ownEv_ab_true, ih]

/-- once the rest of the chain has run, or after an abort, a handler's remaining actions are "flat" -/
theorem fold_inert (i : Nat) (R : List Ev × Bool) :
    ∀ (acts : List Act) (acc : Acc), (acc.started = true ∨ acc.ab = true) →
      acts.foldl (specStep i R) acc =
        ⟨acc.tr ++ (flat i acc.ab acts).1, acc.started, (flat i acc.ab acts).2⟩ := by
  intro acts
  induction acts with
  | nil => intro acc _; simp [flat]
  | cons a rest ih =>
    intro acc h
    have hcond : (!acc.started && !acc.ab) = false := by
      revert h; cases acc.started <;> cases acc.ab <;> simp
    rw [List.foldl_cons]
    by_cases hn : a = .next
    · subst hn
      have hstep : specStep i R acc .next = acc := by simp [specStep, hcond]
      rw [hstep, ih acc h]
      simp [flat, ownEv]
    · have hstep : specStep i R acc a =
          { acc with tr := acc.tr ++ (ownEv i acc.ab a).1, ab := (ownEv i acc.ab a).2 } := by
        simp [specStep, hn]
      rw [hstep, ih]
      · simp [flat, List.append_assoc]
      · rcases h with h | h
        · exact Or.inl h
        · right; simp only; rw [h]; exact ownEv_ab_true i a

/-- a handler's actions read from the start: split at the first effective `Next()` -/
theorem fold_fresh (i : Nat) (R : List Ev × Bool) :
    ∀ (acts : List Act) (tr : List Ev),
      acts.foldl (specStep i R) ⟨tr, false, false⟩ =
        match splitNext acts with
        | some (pre, post) =>
          ⟨tr ++ (flat i false pre).1 ++ R.1 ++ (flat i R.2 post).1, true, (flat i R.2 post).2⟩
        | none => ⟨tr ++ (flat i false acts).1, false, (flat i false acts).2⟩ := by
  intro acts
  induction acts with
  | nil => intro tr; simp [splitNext, flat]
  | cons a rest ih =>
    intro tr
    rw [List.foldl_cons]
    by_cases hn : a = .next
    · subst hn
      have hstep : specStep i R ⟨tr, false, false⟩ .next = ⟨tr ++ R.1, true, R.2⟩ := by simp [specStep]
      rw [hstep, fold_inert i R rest _ (Or.inl rfl)]
      simp [splitNext, flat]
    · have hstep : specStep i R ⟨tr, false, false⟩ a =
          ⟨tr ++ (ownEv i false a).1, false, (ownEv i false a).2⟩ := by
        simp [specStep, hn]
      rw [hstep]
      by_cases ha : a.isAbort = true
      · rw [ownEv_ab_of_abort i false a ha, fold_inert i R rest _ (Or.inr rfl)]
        simp [splitNext, hn, ha, flat, ownEv_ab_of_abort i false a ha, List.append_assoc]
      · have ha' : a.isAbort = false := by simpa using ha
        rw [ownEv_ab_of_not_abort i false a ha', ih]
        simp only [splitNext, hn, ha', if_false, Bool.false_eq_true]
        cases splitNext rest with
        | none => simp [flat, ownEv_ab_of_not_abort i false a ha', List.append_assoc]
        | some pq => simp [flat, ownEv_ab_of_not_abort i false a ha', List.append_assoc]

/-- the onion, one handler at a time, in closed form -/
theorem onion_cons (i : Nat) (h : Handler) (rest : List Handler) :
    onion i (h :: rest) = onionStep i h (onion (i + 1) rest) := by
  simp only [onion, onionStep]
  rw [fold_fresh]
  cases splitNext h with
  | some pq => simp [List.append_assoc]
  | none =>
    simp only []
    cases (flat i false h).2 <;> simp

theorem splitNext_eq : ∀ (h pre post : List Act), splitNext h = some (pre, post) →
    h = pre ++ .next :: post ∧ (∀ a ∈ pre, a ≠ .next ∧ a.isAbort = false) := by
  intro h
  induction h with
  | nil => intro pre post hs; simp [splitNext] at hs
  | cons a rest ih =>
    intro pre post hs
    simp only [splitNext] at hs
    by_cases hn : a = .next
    · simp only [hn, if_true, Option.some.injEq, Prod.mk.injEq] at hs
      obtain ⟨rfl, rfl⟩ := hs
      simp [hn]
    · simp only [hn, if_false] at hs
      by_cases ha : a.isAbort = true
      · simp [ha] at hs
      · simp only [ha, if_false] at hs
        cases hr : splitNext rest with
        | none => simp [hr] at hs
        | some pq =>
          simp only [hr, Option.map_some, Option.some.injEq, Prod.mk.injEq] at hs
          obtain ⟨rfl, rfl⟩ := hs
          obtain ⟨e, hp⟩ := ih pq.1 pq.2 (by rw [hr])
          refine ⟨by simp [← e], ?_⟩
          intro x hx
          simp only [List.mem_cons] at hx
          rcases hx with rfl | hx
          · exact ⟨hn, by simpa using ha⟩
          · exact hp x hx

theorem splitNext_none : ∀ (h : List Act), splitNext h = none → (flat i false h).2 = false →
    ∀ a ∈ h, a ≠ .next ∧ a.isAbort = false := by
  intro h
  induction h with
  | nil => intro _ _ a ha; simp at ha
  | cons a rest ih =>
    intro hs hf x hx
    simp only [splitNext] at hs
    by_cases hn : a = .next
    · simp [hn] at hs
    · simp only [hn, if_false] at hs
      by_cases ha : a.isAbort = true
      · simp only [flat, ownEv_ab_of_abort i false a ha, flat_ab_true] at hf
        simp at hf
      · have ha' : a.isAbort = false := by simpa using ha
        simp only [ha', Bool.false_eq_true, if_false, Option.map_eq_none_iff] at hs
        simp only [flat, ownEv_ab_of_not_abort i false a ha'] at hf
        simp only [List.mem_cons] at hx
        rcases hx with rfl | hx
        · exact ⟨hn, ha'⟩
        · exact ih hs hf x hx

end Rux.Chain
