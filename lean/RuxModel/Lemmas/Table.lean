import RuxModel.Model.Table
import RuxModel.Lemmas.Pattern
/-
  The three-tier route table answers exactly `specSelect`.
-/
namespace Rux

/-! ### association lists -/

theorem alistGet_set {V : Type} (l : List (Bytes × V)) (k k' : Bytes) (v : V) :
    alistGet (alistSet l k v) k' = if k' = k then some v else alistGet l k' := by
  unfold alistGet alistSet
  by_cases h : k' = k
  · subst h
    rw [List.find?_cons_of_pos (by simp)]; simp
  · rw [if_neg h, List.find?_cons_of_neg (by simp; exact fun h' => h h'.symm)]
    congr 1
    induction l with
    | nil => rfl
    | cons a t ih =>
      by_cases ha : a.1 = k
      · have hak : ¬ a.1 = k' := fun h' => h (h'.symm.trans ha)
        rw [List.filter_cons_of_neg (by simp [ha]), List.find?_cons_of_neg (by simp [hak])]; exact ih
      · rw [List.filter_cons_of_pos (by simp [ha])]
        by_cases hak : a.1 = k'
        · rw [List.find?_cons_of_pos (by simp [hak]), List.find?_cons_of_pos (by simp [hak])]
        · rw [List.find?_cons_of_neg (by simp [hak]), List.find?_cons_of_neg (by simp [hak])]; exact ih

theorem listAt_append (l : List (Bytes × List RouteM)) (k k' : Bytes) (r : RouteM) :
    listAt (alistAppend l k r) k' = if k' = k then listAt l k ++ [r] else listAt l k' := by
  unfold listAt alistAppend
  cases hg : alistGet l k with
  | some rs =>
    simp only [alistGet_set]
    by_cases h : k' = k
    · simp [h]
    · simp [h]
  | none =>
    simp only [alistGet_set]
    by_cases h : k' = k
    · simp [h]
    · simp [h]

theorem listAt_foldl_append (ms : List Bytes) (f : Bytes → Bytes) (r : RouteM) (k : Bytes) :
    ∀ t : List (Bytes × List RouteM),
      listAt (ms.foldl (fun t m => alistAppend t (f m) r) t) k =
        listAt t k ++ List.replicate (ms.filter (fun m => f m = k)).length r := by
  induction ms with
  | nil => intro t; simp
  | cons m ms ih =>
    intro t
    simp only [List.foldl_cons]
    rw [ih, listAt_append]
    by_cases h : f m = k
    · have h' : k = f m := h.symm
      simp [h, List.filter_cons, List.replicate_succ, List.append_assoc]
    · have h' : ¬ k = f m := fun e => h e.symm
      simp [h, h', List.filter_cons]

theorem alistGet_foldl_set (ms : List Bytes) (f : Bytes → Bytes) (r : RouteM) (k : Bytes) :
    ∀ t : List (Bytes × RouteM),
      alistGet (ms.foldl (fun t m => alistSet t (f m) r) t) k =
        if ms.any (fun m => f m = k) then some r else alistGet t k := by
  induction ms with
  | nil => intro t; simp
  | cons m ms ih =>
    intro t
    simp only [List.foldl_cons]
    rw [ih, alistGet_set]
    by_cases h1 : ms.any (fun m => f m = k) = true
    · simp [h1]
    · by_cases h2 : k = f m
      · simp [h2]
      · have h2' : ¬ f m = k := fun e => h2 e.symm
        simp [h1, h2, h2']

/-! ### what `insertRoute` / `build` put into the three tiers -/

def regCount (k : Bytes) (r : RouteM) : Nat :=
  if !r.static && !r.info.first.isEmpty then (r.methods.filter (fun m => m ++ r.info.first = k)).length else 0

def irrCount (k : Bytes) (r : RouteM) : Nat :=
  if !r.static && r.info.first.isEmpty then (r.methods.filter (fun m => m = k)).length else 0

def staticHit (k : Bytes) (r : RouteM) : Bool := r.static && r.methods.any (fun m => m ++ r.path = k)

theorem insertRoute_regular (rt : RouterM) (r : RouteM) (k : Bytes) :
    listAt (insertRoute rt r).regular k = listAt rt.regular k ++ List.replicate (regCount k r) r := by
  unfold insertRoute regCount
  by_cases hs : r.static = true
  · simp [hs]
  · by_cases hf : r.info.first.isEmpty = true
    · simp [hs, hf]
    · simp only [hs, hf]
      simpa using listAt_foldl_append r.methods (fun m => m ++ r.info.first) r k rt.regular

theorem insertRoute_irregular (rt : RouterM) (r : RouteM) (k : Bytes) :
    listAt (insertRoute rt r).irregular k = listAt rt.irregular k ++ List.replicate (irrCount k r) r := by
  unfold insertRoute irrCount
  by_cases hs : r.static = true
  · simp [hs]
  · by_cases hf : r.info.first.isEmpty = true
    · simp only [hs, hf]
      simpa using listAt_foldl_append r.methods (fun m => m) r k rt.irregular
    · simp [hs, hf]

theorem insertRoute_stable (rt : RouterM) (r : RouteM) (k : Bytes) :
    alistGet (insertRoute rt r).stable k = if staticHit k r then some r else alistGet rt.stable k := by
  unfold insertRoute staticHit
  by_cases hs : r.static = true
  · simp only [hs, if_true, Bool.true_and]
    exact alistGet_foldl_set r.methods (fun m => m ++ r.path) r k rt.stable
  · by_cases hf : r.info.first.isEmpty = true <;> simp [hs, hf]

theorem foldl_insert_regular (rs : List RouteM) (k : Bytes) : ∀ rt : RouterM,
    listAt (rs.foldl insertRoute rt).regular k =
      listAt rt.regular k ++ rs.flatMap (fun r => List.replicate (regCount k r) r) := by
  induction rs with
  | nil => intro rt; simp
  | cons r rs ih => intro rt; simp only [List.foldl_cons, ih, insertRoute_regular, List.flatMap_cons, List.append_assoc]

theorem foldl_insert_irregular (rs : List RouteM) (k : Bytes) : ∀ rt : RouterM,
    listAt (rs.foldl insertRoute rt).irregular k =
      listAt rt.irregular k ++ rs.flatMap (fun r => List.replicate (irrCount k r) r) := by
  induction rs with
  | nil => intro rt; simp
  | cons r rs ih => intro rt; simp only [List.foldl_cons, ih, insertRoute_irregular, List.flatMap_cons, List.append_assoc]

theorem getLast?_cons_some {α : Type} (a : α) (l : List α) :
    (a :: l).getLast? = match l.getLast? with | some x => some x | none => some a := by
  cases l with
  | nil => rfl
  | cons b t => simp [List.getLast?_cons_cons]; cases h : (b :: t).getLast? <;> simp_all

theorem foldl_insert_stable (rs : List RouteM) (k : Bytes) : ∀ rt : RouterM,
    alistGet (rs.foldl insertRoute rt).stable k =
      match (rs.filter (staticHit k)).getLast? with
      | some r => some r
      | none => alistGet rt.stable k := by
  induction rs with
  | nil => intro rt; simp
  | cons r rs ih =>
    intro rt
    simp only [List.foldl_cons]
    rw [ih, insertRoute_stable]
    by_cases h : staticHit k r = true
    · rw [List.filter_cons_of_pos h, getLast?_cons_some]
      cases (rs.filter (staticHit k)).getLast? <;> simp [h]
    · rw [List.filter_cons_of_neg h]
      simp [h]

theorem foldl_insert_opts (rs : List RouteM) : ∀ rt : RouterM, (rs.foldl insertRoute rt).opts = rt.opts := by
  induction rs with
  | nil => intro rt; rfl
  | cons r rs ih =>
    intro rt
    simp only [List.foldl_cons, ih]
    unfold insertRoute
    by_cases hs : r.static = true
    · simp [hs]
    · by_cases hf : r.info.first.isEmpty = true <;> simp [hs, hf]

/-! ### generic facts about `findSome?` -/

theorem findSome?_congr_fun {α β : Type} (l : List α) (g g' : α → Option β) (h : ∀ r ∈ l, g r = g' r) :
    l.findSome? g = l.findSome? g' := by
  induction l with
  | nil => rfl
  | cons a t ih =>
    simp only [List.findSome?_cons]
    rw [h a (List.mem_cons_self ..), ih (fun r hr => h r (List.mem_cons_of_mem _ hr))]

theorem findSome?_filter_congr {α β : Type} (l : List α) (g : α → Option β) (a b : α → Bool)
    (h : ∀ r ∈ l, (g r).isSome = true → a r = b r) :
    (l.filter a).findSome? g = (l.filter b).findSome? g := by
  induction l with
  | nil => rfl
  | cons r l ih =>
    have ih := ih (fun r' hr' => h r' (List.mem_cons_of_mem _ hr'))
    cases hm : g r with
    | none =>
      have drop : ∀ c : α → Bool, ((r :: l).filter c).findSome? g = (l.filter c).findSome? g := by
        intro c
        by_cases hc : c r = true
        · rw [List.filter_cons_of_pos hc, List.findSome?_cons, hm]
        · rw [List.filter_cons_of_neg hc]
      rw [drop a, drop b, ih]
    | some x =>
      have hab := h r (List.mem_cons_self ..) (by rw [hm]; rfl)
      by_cases hc : a r = true
      · have hb : b r = true := hab ▸ hc
        rw [List.filter_cons_of_pos hc, List.filter_cons_of_pos hb, List.findSome?_cons, List.findSome?_cons, hm]
      · have hb : ¬ b r = true := hab ▸ hc
        rw [List.filter_cons_of_neg hc, List.filter_cons_of_neg hb]
        exact ih

theorem findSome?_replicate_append {α β : Type} (g : α → Option β) (n : Nat) (r : α) (rest : List α) :
    (List.replicate n r ++ rest).findSome? g =
      if n = 0 then rest.findSome? g else (r :: rest).findSome? g := by
  induction n with
  | zero => simp
  | succ n ih =>
    simp only [List.replicate_succ, List.cons_append, List.findSome?_cons, Nat.succ_ne_zero, if_false]
    cases hg : g r with
    | some x => rfl
    | none =>
      simp only
      rw [ih]
      by_cases hn : n = 0
      · simp [hn]
      · simp [hn, List.findSome?_cons, hg]

theorem findSome?_flatMap_replicate {α β : Type} (l : List α) (n : α → Nat) (g : α → Option β) :
    (l.flatMap (fun r => List.replicate (n r) r)).findSome? g =
      (l.filter (fun r => decide (n r > 0))).findSome? g := by
  induction l with
  | nil => rfl
  | cons r l ih =>
    simp only [List.flatMap_cons]
    rw [findSome?_replicate_append]
    by_cases hn : n r = 0
    · rw [if_pos hn, ih]
      simp [List.filter_cons, hn]
    · have hpos : 0 < n r := by omega
      rw [if_neg hn]
      simp [List.filter_cons, hpos, List.findSome?_cons, ih]

/-! ### what a matching dynamic route tells about the path -/

theorem segsLang_prefix {segs : List Seg} {caps : List Bytes} {u : Bytes} (h : SegsLang segs caps u) :
    ∃ t, u = (match segs with | .lit l :: _ => l | _ => []) ++ t := by
  cases h with
  | nil => exact ⟨[], rfl⟩
  | @lit l rest caps u' h' => exact ⟨u', rfl⟩
  | @var re rest caps u' v hv h' => exact ⟨v ++ u', rfl⟩

theorem levelsLang_firstLit {ls : Levels} {caps : List Bytes} {q : Bytes} (h : LevelsLang ls caps q) :
    ∃ t, q = firstLit ls ++ t := by
  cases h with
  | nil => exact ⟨[], rfl⟩
  | @last segs caps u hu =>
    obtain ⟨t, ht⟩ := segsLang_prefix hu
    refine ⟨t, ?_⟩
    rw [ht]; cases segs with
    | nil => rfl
    | cons sg rest => cases sg <;> rfl
  | @present segs l2 rest c1 u1 c2 u2 h1 h2 =>
    obtain ⟨t, ht⟩ := segsLang_prefix h1
    refine ⟨t ++ u2, ?_⟩
    rw [ht, List.append_assoc]; cases segs with
    | nil => rfl
    | cons sg rest => cases sg <;> rfl
  | @absent segs l2 rest c1 u1 h1 =>
    obtain ⟨t, ht⟩ := segsLang_prefix h1
    refine ⟨t, ?_⟩
    rw [ht]; cases segs with
    | nil => rfl
    | cons sg rest => cases sg <;> rfl

theorem routeMatch_some_levels {r : RouteM} {q : Bytes} {ps : Params} (h : routeMatch r q = some ps) :
    ∃ caps, LevelsLang r.info.levels caps q ∧ ps = mkParams r.info.names caps := by
  unfold routeMatch at h
  cases hm : matchPat r.info.levels q with
  | none => rw [hm] at h; simp at h
  | some caps => rw [hm] at h; simp at h; exact ⟨caps, matchPat_some hm, h.symm⟩

theorem indexByte_append_of_not_mem (f : Bytes) (c : Nat) (t : Bytes) (h : c ∉ f) :
    Bytes.indexByte (f ++ c :: t) c = some f.length := by
  induction f with
  | nil => simp [Bytes.indexByte]
  | cons a f ih =>
    have ha : ¬ a = c := fun e => h (by simp [e])
    have hf : c ∉ f := fun e => h (by simp [e])
    simp [Bytes.indexByte, ha, ih hf]

/-- the prefix facts the regular tier relies on, for a route that passed `routeOK` -/
theorem match_prefix_facts {r : RouteM} (hok : routeOK r.info = true) {q : Bytes} {ps : Params}
    (h : routeMatch r q = some ps) :
    Bytes.hasPrefix q r.info.start = true ∧
    (r.info.first.isEmpty = false →
      Bytes.indexByte (q.drop 1) 0x2F = some r.info.first.length ∧ 0 < r.info.first.length ∧
      (q.drop 1).take r.info.first.length = r.info.first) := by
  obtain ⟨caps, hl, _⟩ := routeMatch_some_levels h
  obtain ⟨t, ht⟩ := levelsLang_firstLit hl
  unfold routeOK at hok
  simp only [Bool.and_eq_true, Bool.or_eq_true] at hok
  obtain ⟨⟨_, hstart⟩, hfirst⟩ := hok
  obtain ⟨t1, ht1⟩ := (hasPrefix_iff _ _).mp hstart
  refine ⟨(hasPrefix_iff _ _).mpr ⟨t1 ++ t, by rw [ht, ht1, List.append_assoc]⟩, ?_⟩
  intro hne
  rcases hfirst with hemp | hpre
  · rw [hne] at hemp; cases hemp
  · obtain ⟨hp, hns⟩ := hpre
    obtain ⟨t2, ht2⟩ := (hasPrefix_iff _ _).mp hp
    have hnot : (0x2F : Nat) ∉ r.info.first := by
      simpa using hns
    have hq : q = [0x2F] ++ r.info.first ++ [0x2F] ++ (t2 ++ t) := by
      rw [ht, ht2]; simp [List.append_assoc]
    have hd : q.drop 1 = r.info.first ++ 0x2F :: (t2 ++ t) := by
      rw [hq]; simp [List.append_assoc]
    refine ⟨?_, ?_, ?_⟩
    · rw [hd]; exact indexByte_append_of_not_mem _ _ _ hnot
    · cases hf : r.info.first with
      | nil => rw [hf] at hne; simp at hne
      | cons a b => simp
    · rw [hd]; simp

/-! ### keys are unambiguous -/

theorem key_inj : ∀ (m' m p q : Bytes), (0x2F : Nat) ∉ m' → (0x2F : Nat) ∉ m →
    p.head? = some 0x2F → q.head? = some 0x2F → m' ++ p = m ++ q → m' = m ∧ p = q := by
  intro m'
  induction m' with
  | nil =>
    intro m p q _ hm hp hq h
    cases m with
    | nil => exact ⟨rfl, by simpa using h⟩
    | cons a m =>
      exfalso
      simp only [List.nil_append] at h
      rw [h] at hp
      simp at hp
      exact hm (by simp [hp])
  | cons a m' ih =>
    intro m p q hm' hm hp hq h
    cases m with
    | nil =>
      exfalso
      simp only [List.nil_append, List.cons_append] at h
      rw [← h] at hq
      simp at hq
      exact hm' (by simp [hq])
    | cons b m =>
      simp only [List.cons_append, List.cons.injEq] at h
      obtain ⟨rfl, h⟩ := h
      have := ih m p q (fun e => hm' (by simp [e])) (fun e => hm (by simp [e])) hp hq h
      exact ⟨by rw [this.1], this.2⟩


/-! ### the tiers of a built table, and the main theorem -/


theorem firstMatch_eq (rs : List RouteM) (q : Bytes) (us : Bool) :
    firstMatch rs q us = rs.findSome? (fun r =>
      if us && !Bytes.hasPrefix q r.info.start then none else (routeMatch r q).map fun ps => (r, ps)) := rfl

theorem alist_match_firstMatch (l : List (Bytes × List RouteM)) (k q : Bytes) (us : Bool) :
    (match alistGet l k with
     | some rs => firstMatch rs q us
     | none => none) = firstMatch (listAt l k) q us := by
  unfold listAt
  cases alistGet l k <;> simp [firstMatch]

/-- hypotheses on the registered routes (all established by `prepare`) -/
structure TableOK (rs : List RouteM) : Prop where
  dynOK : ∀ r ∈ rs, r.static = false → routeOK r.info = true
  methodsNoSlash : ∀ r ∈ rs, ∀ m' ∈ r.methods, (0x2F : Nat) ∉ m'
  staticPath : ∀ r ∈ rs, r.static = true → r.path.head? = some 0x2F

theorem build_stable_eq (o : Opts) (rs : List RouteM) (h : TableOK rs) (m q : Bytes)
    (hm : (0x2F : Nat) ∉ m) (hq : q.head? = some 0x2F) :
    alistGet (build o rs).stable (m ++ q) = (rs.filter (isStaticFor m q)).getLast? := by
  unfold build
  rw [foldl_insert_stable]
  have hf : rs.filter (staticHit (m ++ q)) = rs.filter (isStaticFor m q) := by
    apply List.filter_congr
    intro r hr
    unfold staticHit isStaticFor
    by_cases hs : r.static = true
    · have hp := h.staticPath r hr hs
      by_cases hc : r.methods.contains m = true ∧ r.path = q
      · obtain ⟨hc1, hc2⟩ := hc
        have : r.methods.any (fun m' => decide (m' ++ r.path = m ++ q)) = true := by
          simp only [List.any_eq_true, decide_eq_true_eq]
          exact ⟨m, by simpa using hc1, by rw [hc2]⟩
        rw [this, hc1, hs]
        have : (r.path == q) = true := by rw [hc2]; simp
        rw [this]; rfl
      · have : r.methods.any (fun m' => decide (m' ++ r.path = m ++ q)) = false := by
          apply Bool.eq_false_iff.mpr
          intro hany
          simp only [List.any_eq_true, decide_eq_true_eq] at hany
          obtain ⟨m', hm', he⟩ := hany
          obtain ⟨rfl, rfl⟩ := key_inj m' m r.path q (h.methodsNoSlash r hr m' hm') hm hp hq he
          exact hc ⟨by simpa using hm', rfl⟩
        rw [this, hs]
        by_cases hc1 : r.methods.contains m = true
        · have hne : (r.path == q) = false := by
            apply Bool.eq_false_iff.mpr
            intro e; exact hc ⟨hc1, by simpa using e⟩
          rw [hc1, hne]; rfl
        · have hc1' : r.methods.contains m = false := by simpa using hc1
          rw [hc1']; rfl
    · simp [hs]
  rw [hf]
  cases (rs.filter (isStaticFor m q)).getLast? <;> simp [RouterM.new, alistGet]


theorem filter_length_pos {α : Type} (l : List α) (p : α → Bool) :
    0 < (l.filter p).length ↔ ∃ x ∈ l, p x = true := by
  rw [List.length_pos_iff_exists_mem]
  constructor
  · rintro ⟨x, hx⟩; exact ⟨x, (List.mem_filter.mp hx).1, (List.mem_filter.mp hx).2⟩
  · rintro ⟨x, hx, hp⟩; exact ⟨x, List.mem_filter.mpr ⟨hx, hp⟩⟩

theorem new_regular_empty (o : Opts) (k : Bytes) : listAt (RouterM.new o).regular k = [] := rfl
theorem new_irregular_empty (o : Opts) (k : Bytes) : listAt (RouterM.new o).irregular k = [] := rfl

theorem build_irregular_eq (o : Opts) (rs : List RouteM) (m q : Bytes) :
    irrTier (build o rs) m q = firstMatch (rs.filter (isIrregularFor m)) q false := by
  unfold irrTier
  unfold build
  rw [foldl_insert_irregular, new_irregular_empty, List.nil_append, firstMatch_eq, firstMatch_eq,
    findSome?_flatMap_replicate]
  congr 1
  apply List.filter_congr
  intro r _
  unfold irrCount isIrregularFor
  by_cases hc : (!r.static && r.info.first.isEmpty) = true
  · rw [if_pos hc, hc, Bool.true_and]
    by_cases hm : r.methods.contains m = true
    · rw [hm]
      have : 0 < (r.methods.filter (fun m' => decide (m' = m))).length :=
        (filter_length_pos _ _).mpr ⟨m, by simpa using hm, by simp⟩
      simpa using this
    · have hm' : r.methods.contains m = false := by simpa using hm
      rw [hm']
      have : ¬ 0 < (r.methods.filter (fun m' => decide (m' = m))).length := by
        intro hpos
        obtain ⟨x, hx, hp⟩ := (filter_length_pos _ _).mp hpos
        simp at hp; subst hp
        exact hm (by simpa using hx)
      simpa using this
  · have hc' : (!r.static && r.info.first.isEmpty) = false := by simpa using hc
    rw [if_neg hc, hc']; simp


def gF (q : Bytes) (r : RouteM) : Option (RouteM × Params) := (routeMatch r q).map fun ps => (r, ps)

theorem firstMatch_false (rs : List RouteM) (q : Bytes) : firstMatch rs q false = rs.findSome? (gF q) := by
  rw [firstMatch_eq]; apply findSome?_congr_fun; intro r _; simp [gF]

theorem gT_eq_gF {r : RouteM} (hok : routeOK r.info = true) (q : Bytes) :
    (if true && !Bytes.hasPrefix q r.info.start then none else (routeMatch r q).map fun ps => (r, ps)) = gF q r := by
  unfold gF
  cases hm : routeMatch r q with
  | none => simp
  | some ps =>
    have := (match_prefix_facts hok hm).1
    simp [this]

theorem regCount_pos_iff (r : RouteM) (k : Bytes) :
    0 < regCount k r ↔ (r.static = false ∧ r.info.first.isEmpty = false ∧ ∃ m' ∈ r.methods, m' ++ r.info.first = k) := by
  unfold regCount
  by_cases hc : (!r.static && !r.info.first.isEmpty) = true
  · rw [if_pos hc, filter_length_pos]
    simp only [Bool.and_eq_true, Bool.not_eq_true'] at hc
    simp [hc.1, hc.2]
  · rw [if_neg hc]
    simp only [Bool.and_eq_true, Bool.not_eq_true', not_and, Bool.not_eq_false] at hc
    constructor
    · intro h; omega
    · rintro ⟨h1, h2, _⟩; have := hc h1; rw [h2] at this; cases this

theorem build_regular_eq (o : Opts) (rs : List RouteM) (h : TableOK rs) (m q : Bytes) :
    regTier (build o rs) m q = firstMatch (rs.filter (isRegularFor m)) q false := by
  unfold regTier
  -- a matching regular route determines the first segment of the path
  have factB : ∀ r ∈ rs, isRegularFor m r = true → (gF q r).isSome = true →
      Bytes.indexByte (q.drop 1) 0x2F = some r.info.first.length ∧ 0 < r.info.first.length ∧
      (q.drop 1).take r.info.first.length = r.info.first := by
    intro r hr hreg hsome
    unfold isRegularFor at hreg
    simp only [Bool.and_eq_true, Bool.not_eq_true'] at hreg
    obtain ⟨⟨hs, hf⟩, _⟩ := hreg
    unfold gF at hsome
    cases hm : routeMatch r q with
    | none => rw [hm] at hsome; simp at hsome
    | some ps => exact (match_prefix_facts (h.dynOK r hr hs) hm).2 hf
  have noneCase : (∀ r ∈ rs, isRegularFor m r = true → (gF q r).isSome = true → False) →
      firstMatch (rs.filter (isRegularFor m)) q false = none := by
    intro hno
    rw [firstMatch_false, List.findSome?_eq_none_iff]
    intro r hr
    have hmem := (List.mem_filter.mp hr).1
    have hreg := (List.mem_filter.mp hr).2
    cases hg : gF q r with
    | none => rfl
    | some x => exact absurd (hno r hmem hreg (by rw [hg]; rfl)) id
  cases hidx : Bytes.indexByte (q.drop 1) 0x2F with
  | none =>
    simp only
    symm; apply noneCase
    intro r hr hreg hsome
    have := (factB r hr hreg hsome).1
    rw [hidx] at this; cases this
  | some pos =>
    simp only
    by_cases hpos : pos > 0
    · rw [if_pos hpos]
      unfold build
      rw [foldl_insert_regular, new_regular_empty, List.nil_append, firstMatch_eq, findSome?_flatMap_replicate,
        firstMatch_false]
      -- drop the literal-prefix pre-filter: every candidate passed routeOK
      have step1 : (rs.filter (fun r => decide (regCount (m ++ (q.drop 1).take pos) r > 0))).findSome?
            (fun r => if true && !Bytes.hasPrefix q r.info.start then none else (routeMatch r q).map fun ps => (r, ps)) =
          (rs.filter (fun r => decide (regCount (m ++ (q.drop 1).take pos) r > 0))).findSome? (gF q) := by
        apply findSome?_congr_fun
        intro r hr
        have hmem := (List.mem_filter.mp hr).1
        have hc := (List.mem_filter.mp hr).2
        simp only [decide_eq_true_eq] at hc
        have hs := ((regCount_pos_iff r _).mp hc).1
        exact gT_eq_gF (h.dynOK r hmem hs) q
      rw [step1]
      apply findSome?_filter_congr
      intro r hr hsome
      by_cases hreg : isRegularFor m r = true
      · -- r is regular for m and matches: its key is exactly the key looked up
        obtain ⟨h1, _, h3⟩ := factB r hr hreg hsome
        rw [hidx] at h1
        have hp : pos = r.info.first.length := by simpa using h1
        rw [hreg]
        have : 0 < regCount (m ++ (q.drop 1).take pos) r := by
          rw [regCount_pos_iff]
          unfold isRegularFor at hreg
          simp only [Bool.and_eq_true, Bool.not_eq_true'] at hreg
          refine ⟨hreg.1.1, hreg.1.2, m, by simpa using hreg.2, ?_⟩
          rw [hp, h3]
        simpa using this
      · have hreg' : isRegularFor m r = false := by simpa using hreg
        rw [hreg']
        have : ¬ 0 < regCount (m ++ (q.drop 1).take pos) r := by
          intro hc
          obtain ⟨hs, hf, m', hm', hk⟩ := (regCount_pos_iff r _).mp hc
          -- r matches q, so the first segment of q is r's key and the methods agree
          have hsome' := hsome
          unfold gF at hsome'
          cases hm : routeMatch r q with
          | none => rw [hm] at hsome'; simp at hsome'
          | some ps =>
            obtain ⟨i1, _, i3⟩ := (match_prefix_facts (h.dynOK r hr hs) hm).2 hf
            rw [hidx] at i1
            have hp : pos = r.info.first.length := by simpa using i1
            rw [hp, i3] at hk
            have : m' = m := List.append_cancel_right hk
            subst this
            apply hreg
            unfold isRegularFor
            simp [hs, hf, hm']
        simpa using this
    · rw [if_neg hpos]
      symm; apply noneCase
      intro r hr hreg hsome
      obtain ⟨h1, h2, _⟩ := factB r hr hreg hsome
      rw [hidx] at h1
      have : pos = r.info.first.length := by simpa using h1
      omega


/-- the three-tier index built by registration answers exactly the specified selection -/
theorem lookupPure_eq_spec (o : Opts) (rs : List RouteM) (h : TableOK rs) (m q : Bytes)
    (hm : (0x2F : Nat) ∉ m) (hq : q.head? = some 0x2F) :
    lookupPure (build o rs) m q = specSelect rs m q := by
  unfold lookupPure specSelect
  rw [build_stable_eq o rs h m q hm hq]
  cases (rs.filter (isStaticFor m q)).getLast? with
  | some r => rfl
  | none =>
    simp only
    unfold dynMatch
    rw [build_regular_eq o rs h m q, build_irregular_eq o rs m q]


/-! ### tables built by registration -/

theorem fmtPath_head (strict : Bool) (p : Bytes) : (fmtPath strict p).head? = some 0x2F := by
  unfold fmtPath
  by_cases h1 : p = [] ∨ p = [0x2F]
  · rw [if_pos h1]; rfl
  · rw [if_neg h1]
    simp only
    generalize (if (!strict && Bytes.hasSuffix (Bytes.trimSpace p) [0x2F]) = true then
        trimRightSlashSpace (Bytes.trimSpace p) else Bytes.trimSpace p) = p2
    by_cases h2 : p2 = [] ∨ p2 = [0x2F]
    · rw [if_pos h2]; rfl
    · rw [if_neg h2]
      cases p2 with
      | nil => rfl
      | cons c rest =>
        simp only
        by_cases hc : c ≠ 0x2F
        · rw [if_pos hc]; rfl
        · rw [if_neg hc]
          have hc' : c = 0x2F := by simpa using hc
          split
          · rfl
          · simp [hc']

theorem nine_no_slash : ∀ m ∈ anyMethodsB, (0x2F : Nat) ∉ m := by decide

theorem prepare_ok_facts {gv : GVars} {strict : Bool} {id : Nat} {name : Bytes} {ms : List Bytes} {p : Bytes} {nh : Bool}
    {route : RouteM} (h : prepare gv strict id name ms p nh = .ok route) :
    (route.static = false → routeOK route.info = true) ∧
    (∀ m' ∈ route.methods, (0x2F : Nat) ∉ m') ∧
    (route.path.head? = some 0x2F) ∧ route.path = fmtPath strict (simpleFmt p) := by
  unfold prepare at h
  split at h
  · cases h
  · rename_i methods _
    split at h
    · cases h
    · split at h
      · cases h
      · split at h
        · cases h
        · rename_i _ _ hall
          have hms : ∀ m' ∈ methods, (0x2F : Nat) ∉ m' := by
            intro m' hm'
            apply nine_no_slash
            have : ¬ (methods.any fun m => !anyMethodsB.contains m) = true := hall
            simp only [List.any_eq_true, Bool.not_eq_true', not_exists, not_and, Bool.not_eq_false] at this
            simpa using this m' hm'
          simp only at h
          split at h
          · injection h with h; subst h
            exact ⟨by simp, hms, fmtPath_head _ _, rfl⟩
          · split at h
            · cases h
            · cases h
            · rename_i info _
              split at h
              · rename_i hok
                injection h with h; subst h
                exact ⟨fun _ => hok, hms, fmtPath_head _ _, rfl⟩
              · cases h

theorem registerAll_build (ds : List RouteDef) : ∀ (rt : RouterM) (rt' : RouterM) (rs : List RouteM),
    registerAll rt ds = some (rt', rs) → rt' = rs.foldl insertRoute rt ∧ rt'.opts = rt.opts ∧ TableOK rs := by
  induction ds with
  | nil =>
    intro rt rt' rs h
    simp only [registerAll, Option.some.injEq, Prod.mk.injEq] at h
    obtain ⟨rfl, rfl⟩ := h
    exact ⟨rfl, rfl, ⟨by simp, by simp, by simp⟩⟩
  | cons d ds ih =>
    intro rt rt' rs h
    simp only [registerAll] at h
    split at h
    · rename_i rt1 route hreg
      split at h
      · rename_i rt2 rs' hrest
        simp only [Option.some.injEq, Prod.mk.injEq] at h
        obtain ⟨rfl, rfl⟩ := h
        unfold register at hreg
        split at hreg
        · rename_i route' hprep
          injection hreg with e1 e2
          subst e1; subst e2
          obtain ⟨f1, f2, f3, _⟩ := prepare_ok_facts hprep
          obtain ⟨g1, g2, g3⟩ := ih _ _ _ hrest
          refine ⟨by rw [g1]; rfl, ?_, ?_⟩
          · rw [g2]; exact foldl_insert_opts [route'] rt
          · refine ⟨?_, ?_, ?_⟩
            · intro r hr hs
              rcases List.mem_cons.mp hr with rfl | hr
              · exact f1 hs
              · exact g3.dynOK r hr hs
            · intro r hr
              rcases List.mem_cons.mp hr with rfl | hr
              · exact f2
              · exact g3.methodsNoSlash r hr
            · intro r hr hs
              rcases List.mem_cons.mp hr with rfl | hr
              · exact f3
              · exact g3.staticPath r hr hs
        · cases hreg
        · cases hreg
      · cases h
    · cases h


theorem firstMatch_some' {rs : List RouteM} {q : Bytes} {us : Bool} {r : RouteM} {ps : Params}
    (h : firstMatch rs q us = some (r, ps)) : r ∈ rs := by
  unfold firstMatch at h
  obtain ⟨r', hr', hg⟩ := List.exists_of_findSome?_eq_some h
  split at hg
  · cases hg
  · cases hm : routeMatch r' q with
    | none => rw [hm] at hg; simp at hg
    | some ps' =>
      rw [hm] at hg; simp at hg
      obtain ⟨rfl, rfl⟩ := hg
      exact hr'

end Rux
