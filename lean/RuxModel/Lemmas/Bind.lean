import RuxModel.Model.Bind
/-
  Helper lemmas for C18 (binding): `strings.Contains` as the infix relation, the percent-encoding codec,
  `ParseQuery ∘ Encode`, and the characterisation of a successful bind.  Core Lean only.
-/
namespace Rux.Bind
open Rux

/-! ### `strings.Contains` / `strings.HasPrefix` are the infix / prefix relations -/

theorem prefix_append_cons {sub a b : Bytes} {c : Nat} (hc : c ∉ sub)
    (h : sub <+: a ++ c :: b) : sub <+: a := by
  rcases List.prefix_or_prefix_of_prefix h (List.prefix_append a (c :: b)) with h1 | h1
  · exact h1
  · obtain ⟨r, rfl⟩ := h1
    rw [List.prefix_append_right_inj] at h
    cases r with
    | nil => simp
    | cons y r =>
      rw [List.cons_prefix_cons] at h
      exact absurd (by simp [h.1]) hc


theorem hasPrefix_iff (s p : Bytes) : Bytes.hasPrefix s p = true ↔ p <+: s := by
  induction s generalizing p with
  | nil =>
    cases p with
    | nil => simp [Bytes.hasPrefix]
    | cons b p => simp [Bytes.hasPrefix]
  | cons a s ih =>
    cases p with
    | nil => simp [Bytes.hasPrefix]
    | cons b p =>
      simp only [Bytes.hasPrefix, Bool.and_eq_true, decide_eq_true_eq, ih, List.cons_prefix_cons]
      constructor
      · rintro ⟨h1, h2⟩; exact ⟨h1.symm, h2⟩
      · rintro ⟨h1, h2⟩; exact ⟨h1.symm, h2⟩

theorem containsSub_iff (sub s : Bytes) : containsSub sub s = true ↔ sub <:+: s := by
  induction s with
  | nil => simp [containsSub, List.infix_nil]
  | cons a s ih =>
    simp only [containsSub, Bool.or_eq_true, hasPrefix_iff, ih, List.infix_cons_iff]

theorem infix_append_cons {sub a b : Bytes} {c : Nat} (hc : c ∉ sub)
    (h : sub <:+: a ++ c :: b) : sub <:+: a ∨ sub <:+: b := by
  induction a with
  | nil =>
    simp only [List.nil_append, List.infix_cons_iff] at h
    rcases h with h | h
    · cases sub with
      | nil => left; exact List.nil_infix
      | cons x sub =>
        rw [List.cons_prefix_cons] at h
        exact absurd (by simp [h.1]) hc
    · right; exact h
  | cons x a ih =>
    simp only [List.cons_append, List.infix_cons_iff] at h
    rcases h with h | h
    · -- prefix of x :: a ++ c :: b
      left
      exact (prefix_append_cons hc (by simpa using h)).isInfix
    · rcases ih h with h | h
      · left; exact List.infix_cons h
      · right; exact h

/-! ### percent-encoding -/

/-- all elements are bytes -/
def IsBytes (s : Bytes) : Prop := ∀ b ∈ s, b < 256

theorem unhex_upperHex : ∀ n, n < 16 → unhex (upperHex n) = some n := by decide

theorem unreserved_ne {b : Nat} (h : unreserved b = true) : b ≠ 0x25 ∧ b ≠ 0x2B := by
  simp only [unreserved, Bool.or_eq_true, Bool.and_eq_true, decide_eq_true_eq] at h
  omega

theorem unescape_plain {c : Nat} (t : Bytes) (h1 : c ≠ 0x25) (h2 : c ≠ 0x2B) :
    unescape (c :: t) = (unescape t).map (fun r => c :: r) := by
  rw [unescape.eq_def]; simp [h1, h2]
theorem unescape_plus (t : Bytes) :
    unescape (0x2B :: t) = (unescape t).map (fun r => 0x20 :: r) := by
  rw [unescape.eq_def]; simp
theorem unescape_escapeByte_append (b : Nat) (hb : b < 256) (t : Bytes) :
    unescape (escapeByte b ++ t) = (unescape t).map (fun r => b :: r) := by
  unfold escapeByte
  split
  · rename_i h
    have := unreserved_ne h
    exact unescape_plain t this.1 this.2
  · split
    · rename_i _ h; subst h; exact unescape_plus t
    · have h1 : (b / 16) % 16 < 16 := Nat.mod_lt _ (by decide)
      have h2 : b % 16 < 16 := Nat.mod_lt _ (by decide)
      have : b / 16 % 16 * 16 + b % 16 = b := by omega
      simp only [List.cons_append, List.nil_append, unescape.eq_2, if_true, unhex_upperHex _ h1,
        unhex_upperHex _ h2, this]

theorem unescape_escape (s : Bytes) (hs : IsBytes s) : unescape (escape s) = some s := by
  induction s with
  | nil => rfl
  | cons b s ih =>
    have hb : b < 256 := hs b (by simp)
    have hs' : IsBytes s := fun x hx => hs x (by simp [hx])
    simp only [escape, List.flatMap_cons] at ih ⊢
    rw [unescape_escapeByte_append b hb, ih hs']
    rfl



theorem upperHex_noSep : ∀ n, n < 16 → upperHex n ≠ 0x26 ∧ upperHex n ≠ 0x3D ∧ upperHex n ≠ 0x3B := by decide

theorem escapeByte_noSep (b x : Nat) (hx : x ∈ escapeByte b) : x ≠ 0x26 ∧ x ≠ 0x3D ∧ x ≠ 0x3B := by
  unfold escapeByte at hx
  split at hx
  · rename_i h
    simp only [List.mem_singleton] at hx
    subst hx
    simp only [unreserved, Bool.or_eq_true, Bool.and_eq_true, decide_eq_true_eq] at h
    omega
  · split at hx
    · simp only [List.mem_singleton] at hx; subst hx; decide
    · simp only [List.mem_cons, List.not_mem_nil, or_false] at hx
      rcases hx with h | h | h
      · subst h; decide
      · subst h; exact upperHex_noSep _ (Nat.mod_lt _ (by decide))
      · subst h; exact upperHex_noSep _ (Nat.mod_lt _ (by decide))

theorem escape_noSep (s : Bytes) (x : Nat) (hx : x ∈ escape s) : x ≠ 0x26 ∧ x ≠ 0x3D ∧ x ≠ 0x3B := by
  simp only [escape, List.mem_flatMap] at hx
  obtain ⟨b, _, hb⟩ := hx
  exact escapeByte_noSep b x hb

theorem splitOnByte_ne_nil (c : Nat) (s : Bytes) : Bytes.splitOnByte c s ≠ [] := by
  induction s with
  | nil => simp [Bytes.splitOnByte]
  | cons b t ih =>
    simp only [Bytes.splitOnByte]
    split
    · simp
    · split <;> simp

theorem splitOnByte_noSep (c : Nat) (a : Bytes) (h : c ∉ a) : Bytes.splitOnByte c a = [a] := by
  induction a with
  | nil => rfl
  | cons b t ih =>
    have hb : b ≠ c := fun e => h (by simp [e])
    have ht : c ∉ t := fun e => h (by simp [e])
    simp [Bytes.splitOnByte, ih ht, hb]

theorem splitOnByte_append_sep (c : Nat) (a rest : Bytes) (h : c ∉ a) :
    Bytes.splitOnByte c (a ++ c :: rest) = a :: Bytes.splitOnByte c rest := by
  induction a with
  | nil =>
    simp only [List.nil_append, Bytes.splitOnByte]
    split
    · rename_i he; exact absurd he (splitOnByte_ne_nil c rest)
    · rename_i hd tl he; simp [he]
  | cons b t ih =>
    have hb : b ≠ c := fun e => h (by simp [e])
    have ht : c ∉ t := fun e => h (by simp [e])
    simp [Bytes.splitOnByte, ih ht, hb]

theorem cutByte_append (c : Nat) (a b : Bytes) (h : c ∉ a) : cutByte c (a ++ c :: b) = (a, b) := by
  induction a with
  | nil => simp [cutByte]
  | cons x t ih =>
    have hb : x ≠ c := fun e => h (by simp [e])
    have ht : c ∉ t := fun e => h (by simp [e])
    simp [cutByte, ih ht, hb]

/-- the text `Values.Encode` writes for one pair -/
def encSeg (p : Bytes × Bytes) : Bytes := escape p.1 ++ [0x3D] ++ escape p.2

theorem encSeg_noAmp (p : Bytes × Bytes) : 0x26 ∉ encSeg p := by
  intro h
  simp only [encSeg, List.mem_append, List.mem_singleton] at h
  rcases h with (h | h) | h
  · exact (escape_noSep _ _ h).1 rfl
  · exact absurd h (by decide)
  · exact (escape_noSep _ _ h).1 rfl

theorem parseSeg_encSeg (p : Bytes × Bytes) (h1 : IsBytes p.1) (h2 : IsBytes p.2) :
    parseSeg (encSeg p) = some (some p) := by
  have hsemi : 0x3B ∉ encSeg p := by
    intro h
    simp only [encSeg, List.mem_append, List.mem_singleton] at h
    rcases h with (h | h) | h
    · exact (escape_noSep _ _ h).2.2 rfl
    · exact absurd h (by decide)
    · exact (escape_noSep _ _ h).2.2 rfl
  have hne : (encSeg p).isEmpty = false := by simp [encSeg]
  have hcut : cutByte 0x3D (encSeg p) = (escape p.1, escape p.2) := by
    simp only [encSeg, List.append_assoc, List.singleton_append]
    exact cutByte_append _ _ _ (fun h => (escape_noSep _ _ h).2.1 rfl)
  simp [parseSeg, hsemi, hne, hcut, unescape_escape _ h1, unescape_escape _ h2]

theorem split_join (segs : List Bytes) (hne : segs ≠ []) (h : ∀ s ∈ segs, 0x26 ∉ s) :
    Bytes.splitOnByte 0x26 (Bytes.join [0x26] segs) = segs := by
  induction segs with
  | nil => exact absurd rfl hne
  | cons a rest ih =>
    cases rest with
    | nil => simp only [Bytes.join]; exact splitOnByte_noSep _ _ (h a (by simp))
    | cons b rest =>
      simp only [Bytes.join, List.append_assoc, List.singleton_append]
      rw [splitOnByte_append_sep _ _ _ (h a (by simp)), ih (by simp) (fun s hs => h s (by simp [hs]))]

theorem parseSegs_encSegs (ps : List (Bytes × Bytes)) (h : ∀ p ∈ ps, IsBytes p.1 ∧ IsBytes p.2) :
    parseSegs (ps.map encSeg) = (ps, false) := by
  induction ps with
  | nil => rfl
  | cons p rest ih =>
    have hp := h p (by simp)
    simp only [List.map_cons, parseSegs, parseSeg_encSeg p hp.1 hp.2, ih (fun q hq => h q (by simp [hq]))]

theorem parsePairs_encodePairs (ps : List (Bytes × Bytes)) (h : ∀ p ∈ ps, IsBytes p.1 ∧ IsBytes p.2) :
    parsePairs (encodePairs ps) = (ps, false) := by
  cases ps with
  | nil => rfl
  | cons p rest =>
    have : encodePairs (p :: rest) = Bytes.join [0x26] ((p :: rest).map encSeg) := rfl
    rw [parsePairs, this, split_join _ (by simp) (by
      intro s hs
      simp only [List.mem_map] at hs
      obtain ⟨q, _, rfl⟩ := hs
      exact encSeg_noAmp q)]
    exact parseSegs_encSegs _ h


/-! ### url.Values -/

def keysOf (m : Vals) : List Bytes := m.map (·.1)

theorem valsAdd_new (acc : Vals) (k v : Bytes) (h : k ∉ keysOf acc) :
    valsAdd acc k v = acc ++ [(k, [v])] := by
  induction acc with
  | nil => rfl
  | cons e t ih =>
    obtain ⟨k', vs⟩ := e
    have h1 : k' ≠ k := fun e => h (by simp [keysOf, e])
    have h2 : k ∉ keysOf t := fun e => h (by simp [keysOf] at e ⊢; exact Or.inr e)
    simp [valsAdd, h1, ih h2]

theorem valsAdd_last (acc : Vals) (k v : Bytes) (ws : List Bytes) (h : k ∉ keysOf acc) :
    valsAdd (acc ++ [(k, ws)]) k v = acc ++ [(k, ws ++ [v])] := by
  induction acc with
  | nil => simp [valsAdd]
  | cons e t ih =>
    obtain ⟨k', vs⟩ := e
    have h1 : k' ≠ k := fun e => h (by simp [keysOf, e])
    have h2 : k ∉ keysOf t := fun e => h (by simp [keysOf] at e ⊢; exact Or.inr e)
    simp [valsAdd, h1, ih h2]

theorem foldl_add_same (acc : Vals) (k : Bytes) (ws vs : List Bytes) (h : k ∉ keysOf acc) :
    (vs.map fun v => (k, v)).foldl (fun m p => valsAdd m p.1 p.2) (acc ++ [(k, ws)]) =
      acc ++ [(k, ws ++ vs)] := by
  induction vs generalizing ws with
  | nil => simp
  | cons v vs ih =>
    simp only [List.map_cons, List.foldl_cons, valsAdd_last acc k v ws h]
    rw [ih]; simp

theorem foldl_add_entry (acc : Vals) (k : Bytes) (vs : List Bytes) (h : k ∉ keysOf acc) :
    (vs.map fun v => (k, v)).foldl (fun m p => valsAdd m p.1 p.2) acc =
      acc ++ (if vs.isEmpty then [] else [(k, vs)]) := by
  cases vs with
  | nil => simp
  | cons v vs =>
    simp only [List.map_cons, List.foldl_cons, valsAdd_new acc k v h]
    rw [foldl_add_same acc k [v] vs h]; simp

theorem foldl_add_flatten (m acc : Vals) (h : (keysOf (acc ++ m)).Nodup) :
    (flattenVals m).foldl (fun m p => valsAdd m p.1 p.2) acc =
      acc ++ m.filter (fun e => !e.2.isEmpty) := by
  induction m generalizing acc with
  | nil => simp [flattenVals]
  | cons e t ih =>
    obtain ⟨k, vs⟩ := e
    have hk : k ∉ keysOf acc := by
      intro hk
      simp only [keysOf, List.map_append, List.map_cons] at h hk
      rw [List.nodup_append] at h
      exact h.2.2 k hk k (by simp) rfl
    simp only [flattenVals, List.flatMap_cons, List.foldl_append]
    rw [foldl_add_entry acc k vs hk]
    have ih' := ih (acc ++ if vs.isEmpty then [] else [(k, vs)]) (by
      cases vs with
      | nil => 
        simp only [List.isEmpty_nil, if_true, List.append_nil]
        simp only [keysOf, List.map_append, List.map_cons] at h ⊢
        rw [List.nodup_append] at h ⊢
        refine ⟨h.1, (List.nodup_cons.mp h.2.1).2, fun a ha b hb => h.2.2 a ha b (by simp [hb])⟩
      | cons v vs =>
        simpa [keysOf] using h)
    simp only [flattenVals] at ih'
    rw [ih']
    cases vs <;> simp

theorem valsOfPairs_flatten (m : Vals) (hk : (keysOf m).Nodup) :
    valsOfPairs (flattenVals m) = m.filter (fun e => !e.2.isEmpty) := by
  have := foldl_add_flatten m [] (by simpa using hk)
  simpa [valsOfPairs] using this


/-- all keys and values are byte strings -/
def ValsBytes (m : Vals) : Prop := ∀ e ∈ m, IsBytes e.1 ∧ ∀ v ∈ e.2, IsBytes v

/-- what `ParseQuery(m.Encode())` rebuilds: the entries in key order, entries without values dropped -/
def canon (m : Vals) : Vals := (sortVals m).filter (fun e => !e.2.isEmpty)

theorem insertEntry_perm (e : Bytes × List Bytes) (l : Vals) : (insertEntry e l).Perm (e :: l) := by
  induction l with
  | nil => exact List.Perm.refl _
  | cons x t ih =>
    simp only [insertEntry]
    split
    · exact List.Perm.refl _
    · exact ((List.Perm.cons x ih).trans (List.Perm.swap e x t))

theorem sortVals_perm (m : Vals) : (sortVals m).Perm m := by
  induction m with
  | nil => exact List.Perm.refl _
  | cons e t ih =>
    simp only [sortVals, List.foldr_cons]
    exact (insertEntry_perm e _).trans (List.Perm.cons e ih)

theorem keysOf_sort_nodup (m : Vals) (h : (keysOf m).Nodup) : (keysOf (sortVals m)).Nodup := by
  unfold keysOf at h ⊢
  exact ((sortVals_perm m).map (·.1)).nodup_iff.mpr h

theorem parseQuery_encode (m : Vals) (hk : (keysOf m).Nodup) (hb : ValsBytes m) :
    parseQuery (encode m) = (canon m, false) := by
  have hp : ∀ p ∈ flattenVals (sortVals m), IsBytes p.1 ∧ IsBytes p.2 := by
    intro p hp
    simp only [flattenVals, List.mem_flatMap, List.mem_map] at hp
    obtain ⟨e, he, v, hv, rfl⟩ := hp
    have he' : e ∈ m := (sortVals_perm m).mem_iff.mp he
    exact ⟨(hb e he').1, (hb e he').2 v hv⟩
  simp only [parseQuery, encode, parsePairs_encodePairs _ hp,
    valsOfPairs_flatten _ (keysOf_sort_nodup m hk), canon]

theorem mem_unique {m : Vals} (hk : (keysOf m).Nodup) {k : Bytes} {vs ws : List Bytes}
    (h1 : (k, vs) ∈ m) (h2 : (k, ws) ∈ m) : vs = ws := by
  induction m with
  | nil => simp at h1
  | cons e t ih =>
    simp only [keysOf, List.map_cons, List.nodup_cons] at hk
    simp only [List.mem_cons] at h1 h2
    rcases h1 with h1 | h1 <;> rcases h2 with h2 | h2
    · rw [← h1] at h2; exact (Prod.mk.inj h2).2.symm ▸ rfl
    · exact absurd (List.mem_map.mpr ⟨(k, ws), h2, rfl⟩) (by rw [← h1] at hk; exact hk.1)
    · exact absurd (List.mem_map.mpr ⟨(k, vs), h1, rfl⟩) (by rw [← h2] at hk; exact hk.1)
    · exact ih hk.2 h1 h2

theorem valsGet_of_mem {m : Vals} (hk : (keysOf m).Nodup) {k : Bytes} {vs : List Bytes}
    (h : (k, vs) ∈ m) : valsGet m k = vs := by
  induction m with
  | nil => simp at h
  | cons e t ih =>
    obtain ⟨k', ws⟩ := e
    simp only [keysOf, List.map_cons, List.nodup_cons] at hk
    simp only [List.mem_cons] at h
    rcases h with h | h
    · obtain ⟨rfl, rfl⟩ := Prod.mk.inj h
      simp [valsGet, List.lookup]
    · have hne : k ≠ k' := by
        intro e; subst e
        exact hk.1 (List.mem_map.mpr ⟨(k, vs), h, rfl⟩)
      have := ih hk.2 h
      have hb : (k == k') = false := beq_eq_false_iff_ne.mpr hne
      simp only [valsGet] at this ⊢
      simp only [List.lookup, hb]
      exact this

theorem valsGet_of_not_mem {m : Vals} {k : Bytes} (h : k ∉ keysOf m) : valsGet m k = [] := by
  induction m with
  | nil => rfl
  | cons e t ih =>
    obtain ⟨k', ws⟩ := e
    simp only [keysOf, List.map_cons, List.mem_cons, not_or] at h
    have := ih h.2
    have hb : (k == k') = false := beq_eq_false_iff_ne.mpr h.1
    simp only [valsGet] at this ⊢
    simp only [List.lookup, hb]
    exact this

theorem valsGet_canon (m : Vals) (hk : (keysOf m).Nodup) (k : Bytes) :
    valsGet (canon m) k = valsGet m k := by
  have hsub : (keysOf (canon m)).Nodup :=
    (keysOf_sort_nodup m hk).sublist ((List.filter_sublist).map _)
  have hmem : ∀ e, e ∈ canon m ↔ e ∈ m ∧ e.2.isEmpty = false := by
    intro e
    simp only [canon, List.mem_filter, (sortVals_perm m).mem_iff, Bool.not_eq_eq_eq_not,
      Bool.not_true]
  by_cases hin : k ∈ keysOf m
  · obtain ⟨e, he, rfl⟩ := List.mem_map.mp hin
    obtain ⟨k, vs⟩ := e
    rw [valsGet_of_mem hk he]
    cases hvs : vs.isEmpty
    · exact valsGet_of_mem hsub ((hmem _).mpr ⟨he, hvs⟩)
    · have : vs = [] := List.isEmpty_iff.mp hvs
      subst this
      apply valsGet_of_not_mem
      intro hc
      obtain ⟨e', he', hk'⟩ := List.mem_map.mp hc
      obtain ⟨k', ws⟩ := e'
      simp only at hk'; subst hk'
      have h2 := (hmem _).mp he'
      have := mem_unique hk h2.1 he
      subst this
      simp at h2
  · rw [valsGet_of_not_mem hin]
    apply valsGet_of_not_mem
    intro hc
    obtain ⟨e', he', hk'⟩ := List.mem_map.mp hc
    exact hin (List.mem_map.mpr ⟨e', ((hmem _).mp he').1, hk'⟩)



/-! ### the pipeline: when does a bind succeed -/
variable {Val ε : Type}

/-- the validator, when there is one, accepts `v` -/
def Passes (c : Codecs Val ε) (v : Val) : Prop := ∀ f, c.validator = some f → f v = .ok ()

theorem validate_ok_iff (c : Codecs Val ε) (v w : Val) :
    validate c v = .ok w ↔ w = v ∧ Passes c v := by
  unfold validate Passes
  split
  · rename_i h; simp [h, eq_comm]
  · rename_i f h
    split
    · rename_i u hu
      simp only [Except.ok.injEq, h, Option.some.injEq]
      constructor
      · rintro rfl; exact ⟨rfl, fun g hg => by subst hg; rw [hu]⟩
      · rintro ⟨rfl, _⟩; rfl
    · rename_i e he
      simp only [h, Option.some.injEq, reduceCtorEq, false_iff, not_and]
      intro _ hp
      have := hp f rfl
      rw [he] at this
      cases this

theorem decodeUrlValues_ok_iff (c : Codecs Val ε) (t : Tag) (vals : Vals) (v : Val) :
    decodeUrlValues c t vals = .ok v ↔ c.decodeValues t vals = .ok v ∧ Passes c v := by
  unfold decodeUrlValues
  split
  · rename_i e he; simp [he]
  · rename_i w hw
    rw [validate_ok_iff, hw]
    constructor
    · rintro ⟨rfl, hp⟩; exact ⟨rfl, hp⟩
    · rintro ⟨h, hp⟩; cases h; exact ⟨rfl, hp⟩

theorem bindJSON_ok_iff (c : Codecs Val ε) (b : Bytes) (v : Val) :
    bindJSON c b = .ok v ↔ c.decodeJSON b = .ok v ∧ Passes c v := by
  unfold bindJSON
  split
  · rename_i e he; simp [he]
  · rename_i w hw
    rw [validate_ok_iff, hw]
    constructor
    · rintro ⟨rfl, hp⟩; exact ⟨rfl, hp⟩
    · rintro ⟨h, hp⟩; cases h; exact ⟨rfl, hp⟩

theorem bindXML_ok_iff (c : Codecs Val ε) (b : Bytes) (v : Val) :
    bindXML c b = .ok v ↔ c.decodeXML b = .ok v ∧ Passes c v := by
  unfold bindXML
  split
  · rename_i e he; simp [he]
  · rename_i w hw
    rw [validate_ok_iff, hw]
    constructor
    · rintro ⟨rfl, hp⟩; exact ⟨rfl, hp⟩
    · rintro ⟨h, hp⟩; cases h; exact ⟨rfl, hp⟩

/-- "the source that `Auto` selects for `r` was read without error and its decoder produced `v`" -/
def AutoDecoded (c : Codecs Val ε) (r : Request ε) (v : Val) : Prop :=
  match autoSource r.method r.ctype with
  | .query => c.decodeValues .query (urlQuery r) = .ok v
  | .form => (parseForm r).err = none ∧ c.decodeValues .form (parseForm r).postForm = .ok v
  | .multipart => ∃ post, parseMultipart r = .ok post ∧ c.decodeValues .form post = .ok v
  | .json => c.decodeJSON r.body = .ok v
  | .xml => c.decodeXML r.body = .ok v
  | .unsupported => False

theorem auto_ok_iff (c : Codecs Val ε) (r : Request ε) (v : Val) :
    auto c r = .ok v ↔ AutoDecoded c r v ∧ Passes c v := by
  unfold auto AutoDecoded
  cases hs : autoSource r.method r.ctype <;> simp only []
  · exact decodeUrlValues_ok_iff ..
  · split
    · rename_i e he; simp [he]
    · rename_i he; simp [he, decodeUrlValues_ok_iff]
  · split
    · rename_i e he; simp [he]
    · rename_i post he
      simp only [he, Except.ok.injEq, decodeUrlValues_ok_iff]
      constructor
      · rintro ⟨h1, h2⟩; exact ⟨⟨post, rfl, h1⟩, h2⟩
      · rintro ⟨⟨p, rfl, h1⟩, h2⟩; exact ⟨h1, h2⟩
  · exact bindJSON_ok_iff ..
  · exact bindXML_ok_iff ..
  · simp


/-! ### byte-string constants and demo codecs used by the examples of Props/C18.lean -/

/-- application/x-www-form-urlencoded -/
def mtUrlenc : Bytes := [0x61, 0x70, 0x70, 0x6C, 0x69, 0x63, 0x61, 0x74, 0x69, 0x6F, 0x6E, 0x2F, 0x78, 0x2D, 0x77, 0x77, 0x77, 0x2D, 0x66, 0x6F, 0x72, 0x6D, 0x2D, 0x75, 0x72, 0x6C, 0x65, 0x6E, 0x63, 0x6F, 0x64, 0x65, 0x64]
#guard mtUrlenc == Bytes.ofString "application/x-www-form-urlencoded"
/-- multipart/form-data -/
def mtMultipart : Bytes := [0x6D, 0x75, 0x6C, 0x74, 0x69, 0x70, 0x61, 0x72, 0x74, 0x2F, 0x66, 0x6F, 0x72, 0x6D, 0x2D, 0x64, 0x61, 0x74, 0x61]
#guard mtMultipart == Bytes.ofString "multipart/form-data"
/-- application/json -/
def mtJson : Bytes := [0x61, 0x70, 0x70, 0x6C, 0x69, 0x63, 0x61, 0x74, 0x69, 0x6F, 0x6E, 0x2F, 0x6A, 0x73, 0x6F, 0x6E]
#guard mtJson == Bytes.ofString "application/json"
/-- application/xml -/
def mtXmlApp : Bytes := [0x61, 0x70, 0x70, 0x6C, 0x69, 0x63, 0x61, 0x74, 0x69, 0x6F, 0x6E, 0x2F, 0x78, 0x6D, 0x6C]
#guard mtXmlApp == Bytes.ofString "application/xml"
/-- text/xml -/
def mtXmlText : Bytes := [0x74, 0x65, 0x78, 0x74, 0x2F, 0x78, 0x6D, 0x6C]
#guard mtXmlText == Bytes.ofString "text/xml"
/-- text/plain -/
def mtPlain : Bytes := [0x74, 0x65, 0x78, 0x74, 0x2F, 0x70, 0x6C, 0x61, 0x69, 0x6E]
#guard mtPlain == Bytes.ofString "text/plain"
/-- multipart/mixed -/
def mtMixed : Bytes := [0x6D, 0x75, 0x6C, 0x74, 0x69, 0x70, 0x61, 0x72, 0x74, 0x2F, 0x6D, 0x69, 0x78, 0x65, 0x64]
#guard mtMixed == Bytes.ofString "multipart/mixed"
/-- Application/JSON -/
def mtJsonUpper : Bytes := [0x41, 0x70, 0x70, 0x6C, 0x69, 0x63, 0x61, 0x74, 0x69, 0x6F, 0x6E, 0x2F, 0x4A, 0x53, 0x4F, 0x4E]
#guard mtJsonUpper == Bytes.ofString "Application/JSON"
/-- post -/
def methodPostLower : Bytes := [0x70, 0x6F, 0x73, 0x74]
#guard methodPostLower == Bytes.ofString "post"
/-- ; charset=utf-8 -/
def paramsCharset : Bytes := [0x3B, 0x20, 0x63, 0x68, 0x61, 0x72, 0x73, 0x65, 0x74, 0x3D, 0x75, 0x74, 0x66, 0x2D, 0x38]
#guard paramsCharset == Bytes.ofString "; charset=utf-8"
/-- ; boundary=a/json -/
def paramsBoundaryJson : Bytes := [0x3B, 0x20, 0x62, 0x6F, 0x75, 0x6E, 0x64, 0x61, 0x72, 0x79, 0x3D, 0x61, 0x2F, 0x6A, 0x73, 0x6F, 0x6E]
#guard paramsBoundaryJson == Bytes.ofString "; boundary=a/json"
/-- ; x=/xml -/
def paramsSlashXml : Bytes := [0x3B, 0x20, 0x78, 0x3D, 0x2F, 0x78, 0x6D, 0x6C]
#guard paramsSlashXml == Bytes.ofString "; x=/xml"
/-- ; x=/x-www-form-urlencoded -/
def paramsUrlencMarker : Bytes := [0x3B, 0x20, 0x78, 0x3D, 0x2F, 0x78, 0x2D, 0x77, 0x77, 0x77, 0x2D, 0x66, 0x6F, 0x72, 0x6D, 0x2D, 0x75, 0x72, 0x6C, 0x65, 0x6E, 0x63, 0x6F, 0x64, 0x65, 0x64]
#guard paramsUrlencMarker == Bytes.ofString "; x=/x-www-form-urlencoded"
/-- a&b=c+d %;é -/
def sampleSeparators : Bytes := [0x61, 0x26, 0x62, 0x3D, 0x63, 0x2B, 0x64, 0x20, 0x25, 0x3B, 0xC3, 0xA9]
#guard sampleSeparators == Bytes.ofString "a&b=c+d %;é"
/-- a%26b%3Dc%2Bd+%25%3B%C3%A9 -/
def sampleEscaped : Bytes := [0x61, 0x25, 0x32, 0x36, 0x62, 0x25, 0x33, 0x44, 0x63, 0x25, 0x32, 0x42, 0x64, 0x2B, 0x25, 0x32, 0x35, 0x25, 0x33, 0x42, 0x25, 0x43, 0x33, 0x25, 0x41, 0x39]
#guard sampleEscaped == Bytes.ofString "a%26b%3Dc%2Bd+%25%3B%C3%A9"
/-- v=B -/
def sampleVB : Bytes := [0x76, 0x3D, 0x42]
#guard sampleVB == Bytes.ofString "v=B"
/-- v=A -/
def sampleVA : Bytes := [0x76, 0x3D, 0x41]
#guard sampleVA == Bytes.ofString "v=A"
/-- B&=+% -/
def sampleValue : Bytes := [0x42, 0x26, 0x3D, 0x2B, 0x25]
#guard sampleValue == Bytes.ofString "B&=+%"

theorem bodyMethod_iff (m : Bytes) : bodyMethod m = true ↔ (m = mPOST ∨ m = mPUT ∨ m = mPATCH) := by
  simp [bodyMethod, or_assoc]

/-- toy codecs over the value type `Bytes` (the value of a single field `v`): the values decoder takes the
    first value of key `v`, the body decoders return the body; the validator (when on) requires non-empty -/
def demoCodecs (validatorOn : Bool) : Codecs Bytes Unit where
  decodeValues := fun _ vals => .ok ((valsGet vals [0x76]).headD [])
  decodeJSON := fun b => .ok b
  decodeXML := fun b => .ok b
  validator := if validatorOn then some (fun v => if v.isEmpty then .error () else .ok ()) else none

def demoRequest (method ctype rawQuery body : Bytes) : Request Unit where
  method := method
  ctype := ctype
  rawQuery := rawQuery
  body := body
  header := []
  mclass := .urlenc
  multipartValues := .error ()

end Rux.Bind
