import RuxModel.Model.Quick
import RuxModel.Lemmas.Cache
import RuxModel.Lemmas.Table
/-
  The cache is transparent: `matchM`, `findAllowed`, `QuickMatch` with a coherent cache answer exactly
  the stateless specification (`lookupPure`, `allowedPure`, `quickPure`), keep the tables and keep the
  cache coherent; lifted to request histories.
-/
namespace Rux

structure SameTables (a b : RouterM) : Prop where
  opts : b.opts = a.opts
  stable : b.stable = a.stable
  regular : b.regular = a.regular
  irregular : b.irregular = a.irregular

theorem SameTables.refl (a : RouterM) : SameTables a a := ⟨rfl, rfl, rfl, rfl⟩

theorem SameTables.trans {a b c : RouterM} (h1 : SameTables a b) (h2 : SameTables b c) : SameTables a c :=
  ⟨h2.opts.trans h1.opts, h2.stable.trans h1.stable, h2.regular.trans h1.regular, h2.irregular.trans h1.irregular⟩

theorem dynMatch_same {a b : RouterM} (h : SameTables a b) (m q : Bytes) : dynMatch b m q = dynMatch a m q := by
  unfold dynMatch regTier irrTier
  rw [h.regular, h.irregular]

theorem lookupPure_same {a b : RouterM} (h : SameTables a b) (m q : Bytes) : lookupPure b m q = lookupPure a m q := by
  unfold lookupPure
  rw [h.stable, dynMatch_same h]

theorem dynK_same {a b : RouterM} (h : SameTables a b) : dynK b = dynK a := by
  funext k
  unfold dynK
  rw [h.stable, dynMatch_same h]

theorem takeWhile_append_of_not_mem (m p : Bytes) (hm : (0x2F : Nat) ∉ m) (hp : p.head? = some 0x2F) :
    (m ++ p).takeWhile (· ≠ 0x2F) = m ∧ (m ++ p).dropWhile (· ≠ 0x2F) = p := by
  induction m with
  | nil =>
    cases p with
    | nil => simp at hp
    | cons a t => simp at hp; subst hp; simp [List.takeWhile, List.dropWhile]
  | cons a m ih =>
    have ha : a ≠ 0x2F := fun e => hm (by simp [e])
    have hd : (fun x : Nat => decide (x ≠ 0x2F)) a = true := by simp [ha]
    have := ih (fun e => hm (by simp [e]))
    have hd' : decide (a ≠ 0x2F) = true := by simp [ha]
    constructor
    · simp only [List.cons_append, List.takeWhile_cons, hd', if_true, this.1]
    · simp only [List.cons_append, List.dropWhile_cons, hd', if_true, this.2]

theorem splitKey_append (m p : Bytes) (hm : (0x2F : Nat) ∉ m) (hp : p.head? = some 0x2F) :
    splitKey (m ++ p) = (m, p) := by
  unfold splitKey
  have := takeWhile_append_of_not_mem m p hm hp
  rw [this.1, this.2]

/-- the cache holds only what the pure lookup returns -/
def CacheOK (rt : RouterM) : Prop := Cache.Coherent (dynK rt) rt.cache

theorem matchM_spec (rt : RouterM) (m p : Bytes) (hm : (0x2F : Nat) ∉ m) (hp : p.head? = some 0x2F)
    (hc : CacheOK rt) :
    ((matchM rt m p).1.map fun x => (x.1, x.2.1)) = lookupPure rt m p ∧
    SameTables rt (matchM rt m p).2 ∧ CacheOK (matchM rt m p).2 := by
  unfold matchM lookupPure
  cases hs : alistGet rt.stable (m ++ p) with
  | some r => exact ⟨rfl, SameTables.refl rt, hc⟩
  | none =>
    simp only
    have hdk : dynK rt (m ++ p) = dynMatch rt m p := by
      unfold dynK; rw [hs, splitKey_append m p hm hp]; rfl
    by_cases hcach : rt.opts.caching = true
    · simp only [hcach, if_true]
      have hg := Cache.get_coherent (dynK rt) rt.cache (m ++ p) hc
      cases hget : (rt.cache.get (m ++ p)).1 with
      | some v =>
        obtain ⟨r, ps⟩ := v
        have hv := hg.1 (r, ps) hget
        rw [hdk] at hv
        have e : rt.cache.get (m ++ p) = (some (r, ps), (rt.cache.get (m ++ p)).2) := by
          rw [← hget]
        rw [e]
        simp only
        refine ⟨by rw [hv]; rfl, ⟨rfl, rfl, rfl, rfl⟩, ?_⟩
        unfold CacheOK
        have : dynK { rt with cache := (rt.cache.get (m ++ p)).2 } = dynK rt := dynK_same ⟨rfl, rfl, rfl, rfl⟩
        rw [this]; exact hg.2
      | none =>
        have e : rt.cache.get (m ++ p) = (none, (rt.cache.get (m ++ p)).2) := by
          rw [← hget]
        rw [e]
        simp only
        cases hd : dynMatch rt m p with
        | some v =>
          obtain ⟨r, ps⟩ := v
          simp only
          refine ⟨rfl, ⟨rfl, rfl, rfl, rfl⟩, ?_⟩
          unfold CacheOK
          have : dynK { rt with cache := ((rt.cache.get (m ++ p)).2.set (m ++ p) (r, ps)) } = dynK rt :=
            dynK_same ⟨rfl, rfl, rfl, rfl⟩
          rw [this]
          exact Cache.set_coherent (dynK rt) _ _ _ hg.2 (by rw [hdk, hd])
        | none =>
          simp only
          refine ⟨rfl, ⟨rfl, rfl, rfl, rfl⟩, ?_⟩
          unfold CacheOK
          have : dynK { rt with cache := (rt.cache.get (m ++ p)).2 } = dynK rt := dynK_same ⟨rfl, rfl, rfl, rfl⟩
          rw [this]; exact hg.2
    · have hcf : rt.opts.caching = false := by simpa using hcach
      simp only [hcf, Bool.false_eq_true, if_false]
      cases hd : dynMatch rt m p with
      | some v =>
        obtain ⟨r, ps⟩ := v
        exact ⟨rfl, ⟨rfl, rfl, rfl, rfl⟩, hc⟩
      | none => exact ⟨rfl, ⟨rfl, rfl, rfl, rfl⟩, hc⟩


theorem allowed_fold (method path : Bytes) (hp : path.head? = some 0x2F) (rt0 : RouterM) (ms : List Bytes)
    (hms : ∀ m ∈ ms, (0x2F : Nat) ∉ m) :
    ∀ (acc : List Bytes) (rt : RouterM), SameTables rt0 rt → CacheOK rt →
      let res := ms.foldl (fun (acc : List Bytes × RouterM) m =>
        if m = method then acc
        else
          let r := matchM acc.2 m path
          (if r.1.isSome then acc.1 ++ [m] else acc.1, r.2)) (acc, rt)
      res.1 = acc ++ ms.filter (fun m => !(decide (m = method)) && (lookupPure rt0 m path).isSome) ∧
      SameTables rt0 res.2 ∧ CacheOK res.2 := by
  induction ms with
  | nil => intro acc rt hs hc; exact ⟨by simp, hs, hc⟩
  | cons m ms ih =>
    intro acc rt hs hc
    simp only [List.foldl_cons]
    have hms' : ∀ m' ∈ ms, (0x2F : Nat) ∉ m' := fun m' h => hms m' (List.mem_cons_of_mem _ h)
    by_cases hm : m = method
    · simp only [hm, if_true]
      obtain ⟨h1, h2, h3⟩ := ih hms' acc rt hs hc
      refine ⟨?_, h2, h3⟩
      rw [h1]; simp [List.filter_cons]
    · simp only [hm, if_false]
      obtain ⟨e1, e2, e3⟩ := matchM_spec rt m path (hms m (List.mem_cons_self ..)) hp hc
      have hlk : (matchM rt m path).1.isSome = (lookupPure rt0 m path).isSome := by
        rw [← lookupPure_same hs, ← e1]; cases (matchM rt m path).1 <;> rfl
      obtain ⟨h1, h2, h3⟩ := ih hms' (if (matchM rt m path).1.isSome then acc ++ [m] else acc)
        (matchM rt m path).2 (hs.trans e2) e3
      refine ⟨?_, h2, h3⟩
      rw [h1, hlk]
      have hd : decide (m = method) = false := by simp [hm]
      by_cases hl : (lookupPure rt0 m path).isSome = true
      · simp [List.filter_cons, hd, hl]
      · have hl' : (lookupPure rt0 m path).isSome = false := by simpa using hl
        simp [List.filter_cons, hd, hl']

theorem findAllowed_spec (rt : RouterM) (method path : Bytes) (hp : path.head? = some 0x2F) (hc : CacheOK rt) :
    (findAllowed rt method path).1 = allowedPure rt method path ∧
    SameTables rt (findAllowed rt method path).2 ∧ CacheOK (findAllowed rt method path).2 := by
  have := allowed_fold method path hp rt anyMethodsB nine_no_slash [] rt (SameTables.refl rt) hc
  simpa [findAllowed, allowedPure] using this

theorem get_no_slash : (0x2F : Nat) ∉ methodGET := by decide

theorem allowedPure_same {a b : RouterM} (h : SameTables a b) (m p : Bytes) :
    allowedPure b m p = allowedPure a m p := by
  unfold allowedPure; congr 1; funext x; rw [lookupPure_same h]

theorem tailPure_same {a b : RouterM} (h : SameTables a b) (m p : Bytes) : tailPure b m p = tailPure a m p := by
  unfold tailPure; rw [h.opts, h.stable, allowedPure_same h]

theorem tailMatch_spec (rt : RouterM) (method path : Bytes) (hp : path.head? = some 0x2F) (hc : CacheOK rt) :
    (tailMatch rt method path).1.obs = tailPure rt method path ∧
    SameTables rt (tailMatch rt method path).2 ∧ CacheOK (tailMatch rt method path).2 := by
  unfold tailMatch tailPure
  cases hfb : (if rt.opts.fallback = true then alistGet rt.stable (method ++ slashStar) else none) with
  | some r => exact ⟨rfl, SameTables.refl rt, hc⟩
  | none =>
    simp only
    by_cases hna : rt.opts.notAllowed = true
    · rw [if_pos hna, if_pos hna]
      obtain ⟨g1, g2, g3⟩ := findAllowed_spec rt method path hp hc
      rw [g1]
      by_cases hemp : (allowedPure rt method path).isEmpty = true
      · rw [if_pos hemp, if_pos hemp]; exact ⟨rfl, g2, g3⟩
      · rw [if_neg hemp, if_neg hemp]; exact ⟨rfl, g2, g3⟩
    · rw [if_neg hna, if_neg hna]; exact ⟨rfl, SameTables.refl rt, hc⟩

theorem headMatch_spec (rt : RouterM) (method path : Bytes) (hp : path.head? = some 0x2F) (hc : CacheOK rt) :
    (headMatch rt method path).1.obs = headPure rt method path ∧
    SameTables rt (headMatch rt method path).2 ∧ CacheOK (headMatch rt method path).2 := by
  unfold headMatch headPure
  by_cases hhead : method = methodHEAD
  · rw [if_pos hhead, if_pos hhead]
    obtain ⟨f1, f2, f3⟩ := matchM_spec rt methodGET path get_no_slash hp hc
    cases h2 : (matchM rt methodGET path).1 with
    | some x =>
      obtain ⟨r, ps, c⟩ := x
      have e' : matchM rt methodGET path = (some (r, ps, c), (matchM rt methodGET path).2) := by rw [← h2]
      have hl : lookupPure rt methodGET path = some (r, ps) := by rw [← f1, h2]; rfl
      rw [e', hl]
      exact ⟨rfl, f2, f3⟩
    | none =>
      have e' : matchM rt methodGET path = (none, (matchM rt methodGET path).2) := by rw [← h2]
      have hl : lookupPure rt methodGET path = none := by rw [← f1, h2]; rfl
      rw [e', hl]
      obtain ⟨g1, g2, g3⟩ := tailMatch_spec (matchM rt methodGET path).2 method path hp f3
      rw [tailPure_same f2] at g1
      exact ⟨g1, f2.trans g2, g3⟩
  · rw [if_neg hhead, if_neg hhead]
    exact tailMatch_spec rt method path hp hc

theorem headPure_same {a b : RouterM} (h : SameTables a b) (m p : Bytes) : headPure b m p = headPure a m p := by
  unfold headPure; rw [lookupPure_same h, tailPure_same h]

/-- `QuickMatch` with the cache answers exactly the stateless specification, keeps the tables and keeps
    the cache coherent -/
theorem quickMatch_spec (rt : RouterM) (method p0 : Bytes) (hm : (0x2F : Nat) ∉ method) (hc : CacheOK rt) :
    (quickMatch rt method p0).1.obs = quickPure rt method p0 ∧
    SameTables rt (quickMatch rt method p0).2 ∧ CacheOK (quickMatch rt method p0).2 := by
  unfold quickMatch quickPure
  simp only
  generalize hpath : fmtPath rt.opts.strict (if rt.opts.intercept.isEmpty = true then p0 else rt.opts.intercept) = path
  have hp : path.head? = some 0x2F := by rw [← hpath]; exact fmtPath_head _ _
  obtain ⟨e1, e2, e3⟩ := matchM_spec rt method path hm hp hc
  cases h1 : (matchM rt method path).1 with
  | some x =>
    obtain ⟨r, ps, c⟩ := x
    have e : matchM rt method path = (some (r, ps, c), (matchM rt method path).2) := by rw [← h1]
    have hl : lookupPure rt method path = some (r, ps) := by rw [← e1, h1]; rfl
    rw [e, hl]
    exact ⟨rfl, e2, e3⟩
  | none =>
    have e : matchM rt method path = (none, (matchM rt method path).2) := by rw [← h1]
    have hl : lookupPure rt method path = none := by rw [← e1, h1]; rfl
    rw [e, hl]
    obtain ⟨g1, g2, g3⟩ := headMatch_spec (matchM rt method path).2 method path hp e3
    rw [headPure_same e2] at g1
    exact ⟨g1, e2.trans g2, g3⟩

theorem quickPure_same {a b : RouterM} (h : SameTables a b) (m p : Bytes) : quickPure b m p = quickPure a m p := by
  unfold quickPure
  simp only [h.opts, lookupPure_same h, headPure_same h]

/-! ### histories -/

/-- serve a history of requests, threading the router (i.e. the cache) through -/
def runQuick (rt : RouterM) : List (Bytes × Bytes) → List Obs
  | [] => []
  | mp :: h => (quickMatch rt mp.1 mp.2).1.obs :: runQuick (quickMatch rt mp.1 mp.2).2 h

theorem runQuick_pure (h : List (Bytes × Bytes)) (hm : ∀ mp ∈ h, (0x2F : Nat) ∉ mp.1) :
    ∀ (rt0 rt : RouterM), SameTables rt0 rt → CacheOK rt →
      runQuick rt h = h.map fun mp => quickPure rt0 mp.1 mp.2 := by
  induction h with
  | nil => intro _ _ _ _; rfl
  | cons mp h ih =>
    intro rt0 rt hs hc
    obtain ⟨e1, e2, e3⟩ := quickMatch_spec rt mp.1 mp.2 (hm mp (List.mem_cons_self ..)) hc
    simp only [runQuick, List.map_cons]
    rw [e1, ih (fun x hx => hm x (List.mem_cons_of_mem _ hx)) rt0 _ (hs.trans e2) e3]
    rw [quickPure_same hs]

end Rux
