import RuxModel.Model.Clean
/-
  Helper lemmas for C17 (Props/C17.lean): splitting at a byte, the element stack of path.Clean,
  rendering of element lists, prefix/suffix tests.
-/
namespace Rux
namespace Clean
open Bytes

/-! ### splitOnByte -/

theorem split_ne_nil (c : Nat) (s : Bytes) : splitOnByte c s ≠ [] := by
  induction s with
  | nil => simp [splitOnByte]
  | cons b t ih =>
    unfold splitOnByte
    split
    · simp
    · split <;> simp

theorem split_cons_sep (c : Nat) (t : Bytes) : splitOnByte c (c :: t) = [] :: splitOnByte c t := by
  conv => lhs; unfold splitOnByte
  split
  · rename_i h; exact absurd h (split_ne_nil c t)
  · rename_i hd tl h; simp [h]

theorem split_cons_ne (c b : Nat) (t : Bytes) (hb : b ≠ c) :
    ∃ hd tl, splitOnByte c t = hd :: tl ∧ splitOnByte c (b :: t) = (b :: hd) :: tl := by
  conv => enter [1, hd, 1, tl, 2, 1]; unfold splitOnByte
  cases h : splitOnByte c t with
  | nil => exact absurd h (split_ne_nil c t)
  | cons hd tl => exact ⟨hd, tl, rfl, by simp [hb]⟩

theorem split_noSep (c : Nat) (s : Bytes) : ∀ seg ∈ splitOnByte c s, c ∉ seg := by
  induction s with
  | nil => simp [splitOnByte]
  | cons b t ih =>
    by_cases hb : b = c
    · subst hb
      rw [split_cons_sep]
      intro seg hseg
      rcases List.mem_cons.mp hseg with h | h
      · subst h; simp
      · exact ih seg h
    · obtain ⟨hd, tl, h1, h2⟩ := split_cons_ne c b t hb
      rw [h2]
      rw [h1] at ih
      intro seg hseg
      rcases List.mem_cons.mp hseg with h | h
      · subst h
        have := ih hd (by simp)
        simp only [List.mem_cons, not_or]
        exact ⟨fun e => hb e.symm, this⟩
      · exact ih seg (by simp [h])

/-- a string without the separator in front of a separator is the first field -/
theorem split_append_sep (c : Nat) (a t : Bytes) (h : c ∉ a) :
    splitOnByte c (a ++ c :: t) = a :: splitOnByte c t := by
  induction a with
  | nil => simpa using split_cons_sep c t
  | cons b a ih =>
    have hb : b ≠ c := by intro e; subst e; simp at h
    have ha : c ∉ a := by intro e; exact h (by simp [e])
    obtain ⟨hd, tl, h1, h2⟩ := split_cons_ne c b (a ++ c :: t) hb
    rw [List.cons_append, h2]
    rw [ih ha] at h1
    injection h1 with e1 e2
    subst e1; subst e2; rfl

theorem split_of_noSep (c : Nat) (a : Bytes) (h : c ∉ a) : splitOnByte c a = [a] := by
  induction a with
  | nil => simp [splitOnByte]
  | cons b a ih =>
    have hb : b ≠ c := by intro e; subst e; simp at h
    have ha : c ∉ a := by intro e; exact h (by simp [e])
    obtain ⟨hd, tl, h1, h2⟩ := split_cons_ne c b a hb
    rw [h2]
    rw [ih ha] at h1
    injection h1 with e1 e2
    subst e1; subst e2; rfl

/-- appending a string without the separator only extends the last field -/
theorem split_append_noSep (c : Nat) (s b : Bytes) (h : c ∉ b) :
    ∃ init last, splitOnByte c s = init ++ [last] ∧ splitOnByte c (s ++ b) = init ++ [last ++ b] := by
  induction s with
  | nil => exact ⟨[], [], by simp [splitOnByte], by simpa using split_of_noSep c b h⟩
  | cons x s ih =>
    obtain ⟨init, last, h1, h2⟩ := ih
    by_cases hx : x = c
    · subst hx
      refine ⟨[] :: init, last, ?_, ?_⟩
      · rw [split_cons_sep, h1]; rfl
      · rw [List.cons_append, split_cons_sep, h2]; rfl
    · obtain ⟨hd, tl, e1, e2⟩ := split_cons_ne c x s hx
      obtain ⟨hd', tl', e1', e2'⟩ := split_cons_ne c x (s ++ b) hx
      rw [List.cons_append, e2, e2']
      rw [h1] at e1
      rw [h2] at e1'
      cases init with
      | nil =>
        simp at e1 e1'
        obtain ⟨rfl, rfl⟩ := e1
        obtain ⟨rfl, rfl⟩ := e1'
        exact ⟨[], x :: last, rfl, rfl⟩
      | cons i0 init =>
        simp at e1 e1'
        obtain ⟨rfl, rfl⟩ := e1
        obtain ⟨rfl, rfl⟩ := e1'
        exact ⟨(x :: i0) :: init, last, rfl, rfl⟩

/-! ### the element stack -/

def AllProper (l : List Bytes) : Prop := ∀ s ∈ l, Proper s

theorem allProper_nil : AllProper [] := by intro s h; simp at h

theorem allProper_tail {l : List Bytes} (h : AllProper l) : AllProper l.tail := by
  intro s hs; exact h s (List.mem_of_mem_tail hs)

theorem allProper_append {a b : List Bytes} (ha : AllProper a) (hb : AllProper b) : AllProper (a ++ b) := by
  intro s hs
  rcases List.mem_append.mp hs with h | h
  · exact ha s h
  · exact hb s h

theorem allProper_reverse {l : List Bytes} (h : AllProper l) : AllProper l.reverse := by
  intro s hs; exact h s (List.mem_reverse.mp hs)

theorem push_of_proper (stk : List Bytes) (seg : Bytes) (h : Proper seg) : push stk seg = seg :: stk := by
  unfold push
  rw [if_neg h.1, if_neg h.2.1, if_neg h.2.2.1]

theorem push_proper (stk : List Bytes) (seg : Bytes) (h : AllProper stk) (hs : slash ∉ seg) :
    AllProper (push stk seg) := by
  unfold push
  split
  · exact h
  · split
    · exact h
    · split
      · exact allProper_tail h
      · rename_i h1 h2 h3
        intro s hmem
        rcases List.mem_cons.mp hmem with e | e
        · subst e; exact ⟨h1, h2, h3, hs⟩
        · exact h s e

theorem foldl_push_proper (segs : List Bytes) (stk : List Bytes) (h : AllProper stk)
    (hs : ∀ s ∈ segs, slash ∉ s) : AllProper (segs.foldl push stk) := by
  induction segs generalizing stk with
  | nil => exact h
  | cons a t ih =>
    simp only [List.foldl_cons]
    exact ih _ (push_proper stk a h (hs a (by simp))) (fun s m => hs s (by simp [m]))

theorem cleanSegs_proper (s : Bytes) : AllProper (cleanSegs s) := by
  unfold cleanSegs
  exact allProper_reverse (foldl_push_proper _ [] allProper_nil (split_noSep slash s))

theorem foldl_push_of_proper (l stk : List Bytes) (h : AllProper l) :
    l.foldl push stk = l.reverse ++ stk := by
  induction l generalizing stk with
  | nil => simp
  | cons a t ih =>
    simp only [List.foldl_cons, List.reverse_cons, List.append_assoc, List.singleton_append]
    rw [push_of_proper stk a (h a (by simp))]
    exact ih _ (fun s m => h s (by simp [m]))

/-! ### rendering -/

theorem renderRel_nil : renderRel [] = [] := rfl

theorem renderRel_cons (a : Bytes) (l : List Bytes) : renderRel (a :: l) = slash :: (a ++ renderRel l) := by
  simp [renderRel]

theorem renderRel_append (a b : List Bytes) : renderRel (a ++ b) = renderRel a ++ renderRel b := by
  simp [renderRel]

theorem render_of_ne_nil {l : List Bytes} (h : l ≠ []) : render l = renderRel l := by
  cases l with
  | nil => exact absurd rfl h
  | cons a t => rfl

theorem render_head (l : List Bytes) : ∃ t, render l = slash :: t := by
  cases l with
  | nil => exact ⟨[], rfl⟩
  | cons a t => exact ⟨a ++ renderRel t, by rw [render_of_ne_nil (by simp), renderRel_cons]⟩

/-- splitting "a/b/c" gives back the elements, when no element contains a slash -/
theorem split_renderRel (a : Bytes) (l : List Bytes) (ha : slash ∉ a) (hl : ∀ s ∈ l, slash ∉ s) :
    splitOnByte slash (a ++ renderRel l) = a :: l := by
  induction l generalizing a with
  | nil => simpa [renderRel] using split_of_noSep slash a ha
  | cons b t ih =>
    rw [renderRel_cons, split_append_sep slash a _ ha, ih b (hl b (by simp)) (fun s m => hl s (by simp [m]))]

theorem noSlash_of_allProper {l : List Bytes} (h : AllProper l) : ∀ s ∈ l, slash ∉ s :=
  fun s m => (h s m).2.2.2

/-- folding the elements of a rendered proper list (with any number of empty elements in front) -/
theorem foldl_push_split_renderRel (l : List Bytes) (h : AllProper l) (stk : List Bytes) :
    (splitOnByte slash (renderRel l)).foldl push stk = l.reverse ++ stk := by
  cases l with
  | nil => simp [renderRel, splitOnByte, push]
  | cons a t =>
    rw [renderRel_cons, split_cons_sep,
      split_renderRel a t (noSlash_of_allProper h a (by simp)) (fun s m => noSlash_of_allProper h s (by simp [m]))]
    simp only [List.foldl_cons]
    have : push stk [] = stk := by simp [push]
    rw [this]
    exact foldl_push_of_proper (a :: t) stk h

/-- `Clean("/" ++ p) = p` for a clean rooted `p` -/
theorem cleanSegs_render (l : List Bytes) (h : AllProper l) : cleanSegs (render l) = l := by
  unfold cleanSegs
  cases l with
  | nil => simp [render, splitOnByte, push]
  | cons a t =>
    rw [render_of_ne_nil (by simp), foldl_push_split_renderRel _ h]
    simp

/-- `Clean(p) = p` for a clean rooted `p` -/
theorem cleanSegs_render_drop (l : List Bytes) (h : AllProper l) : cleanSegs ((render l).drop 1) = l := by
  unfold cleanSegs
  cases l with
  | nil => simp [render, splitOnByte, push]
  | cons a t =>
    rw [render_of_ne_nil (by simp), renderRel_cons]
    simp only [List.drop_succ_cons, List.drop_zero]
    rw [split_renderRel a t (noSlash_of_allProper h a (by simp)) (fun s m => noSlash_of_allProper h s (by simp [m])),
      foldl_push_of_proper (a :: t) [] h]
    simp

/-! ### prefix / suffix tests -/

theorem hasPrefix_iff (s p : Bytes) : hasPrefix s p = true ↔ ∃ t, s = p ++ t := by
  induction p generalizing s with
  | nil => cases s <;> simp [hasPrefix]
  | cons b p ih =>
    cases s with
    | nil => simp [hasPrefix]
    | cons a s =>
      simp only [hasPrefix, Bool.and_eq_true, decide_eq_true_eq, List.cons_append, List.cons.injEq]
      rw [ih]
      constructor
      · rintro ⟨rfl, t, rfl⟩; exact ⟨t, rfl, rfl⟩
      · rintro ⟨t, rfl, rfl⟩; exact ⟨rfl, t, rfl⟩

theorem hasSuffix_iff (s p : Bytes) : hasSuffix s p = true ↔ ∃ y, s = y ++ p := by
  unfold hasSuffix
  rw [hasPrefix_iff]
  constructor
  · rintro ⟨t, ht⟩
    refine ⟨t.reverse, ?_⟩
    have := congrArg List.reverse ht
    simpa using this
  · rintro ⟨y, rfl⟩
    exact ⟨y.reverse, by simp⟩

end Clean
end Rux
