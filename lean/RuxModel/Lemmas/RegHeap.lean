import RuxModel.Model.RegHeap
import RuxModel.Lemmas.Reg
/-
  The slice-level interpreter refines the list-level interpreter (`hexec_sim`): whatever the growth
  policy, the lists SHOWN by the slices evolve exactly as `exec` says — in particular the list shown
  by a registered route never changes — although groups append in place into shared backing arrays.
-/
namespace Rux.Reg

/-! ### arrays -/

theorem cells_append_lt (h : Heap) (x : List H) {a : Nat} (ha : a < h.length) :
    cells (h ++ [x]) a = cells h a := by
  simp [cells, List.getElem?_append_left ha]

theorem cells_append_eq (h : Heap) (x : List H) : cells (h ++ [x]) h.length = x := by
  simp [cells]

theorem cells_ge (h : Heap) {a : Nat} (ha : h.length ≤ a) : cells h a = [] := by
  simp [cells, List.getElem?_eq_none ha]

theorem cells_set (h : Heap) (a b : Nat) (v : List H) :
    cells (h.set a v) b = if a = b ∧ a < h.length then v else cells h b := by
  simp only [cells, List.getElem?_set]
  by_cases hab : a = b
  · subst hab
    by_cases hl : a < h.length
    · simp [hl]
    · simp [hl]
  · simp [hab]

/-- a slice fits its array -/
def Valid (h : Heap) (s : Slice) : Prop := s.len ≤ s.cap ∧ s.cap ≤ (cells h s.arr).length

theorem valid_nil (h : Heap) : Valid h Slice.nil := by simp [Valid, Slice.nil]

theorem valid_arr_lt {h : Heap} {s : Slice} (hv : Valid h s) (hc : 0 < s.cap) : s.arr < h.length := by
  apply Nat.lt_of_not_le
  intro hge
  have := hv.2
  rw [cells_ge h hge] at this
  simp at this; omega

theorem read_length {h : Heap} {s : Slice} (hv : Valid h s) : (read h s).length = s.len := by
  simp only [read, List.length_take]
  have := hv.1; have := hv.2; omega

theorem read_nil (h : Heap) : read h Slice.nil = [] := by simp [read, Slice.nil]

theorem read_len0 (h : Heap) (s : Slice) (h0 : s.len = 0) : read h s = [] := by simp [read, h0]

theorem take_eq_of_getElem? {l1 l2 : List H} {k : Nat} (h : ∀ i, i < k → l1[i]? = l2[i]?) :
    l1.take k = l2.take k := by
  apply List.ext_getElem?
  intro i
  simp only [List.getElem?_take]
  by_cases hi : i < k
  · simp [hi, h i hi]
  · simp [hi]

/-! ### writing into the spare capacity -/

theorem writeAt_length {cs : List H} {off : Nat} {xs : List H} (h : off + xs.length ≤ cs.length) :
    (writeAt cs off xs).length = cs.length := by
  simp only [writeAt, List.length_append, List.length_take, List.length_drop]; omega

theorem writeAt_lt {cs : List H} {off : Nat} {xs : List H} {i : Nat} (h : off + xs.length ≤ cs.length)
    (hi : i < off) : (writeAt cs off xs)[i]? = cs[i]? := by
  have hl : i < (cs.take off).length := by simp only [List.length_take]; omega
  simp only [writeAt, List.append_assoc]
  rw [List.getElem?_append_left hl, List.getElem?_take]
  simp [hi]

theorem writeAt_ge {cs : List H} {off : Nat} {xs : List H} {i : Nat} (h : off + xs.length ≤ cs.length)
    (hi : off + xs.length ≤ i) : (writeAt cs off xs)[i]? = cs[i]? := by
  have hl : (cs.take off ++ xs).length = off + xs.length := by
    simp only [List.length_append, List.length_take]; omega
  simp only [writeAt]
  rw [List.getElem?_append_right (by omega), hl, List.getElem?_drop]
  congr 1; omega

theorem writeAt_take {cs : List H} {off : Nat} {xs : List H} (h : off + xs.length ≤ cs.length) :
    (writeAt cs off xs).take (off + xs.length) = cs.take off ++ xs := by
  have hl : (cs.take off ++ xs).length = off + xs.length := by
    simp only [List.length_append, List.length_take]; omega
  simp only [writeAt]
  exact List.take_left' hl

/-! ### what one heap operation may change

  `Ext h h' W`: the heap only grows, old arrays keep their length, and an old cell outside `W` keeps
  its content. -/

def Ext (h h' : Heap) (W : Nat → Nat → Prop) : Prop :=
  h.length ≤ h'.length ∧ ∀ a, a < h.length →
    (cells h' a).length = (cells h a).length ∧ ∀ i, ¬ W a i → (cells h' a)[i]? = (cells h a)[i]?

theorem ext_refl (h : Heap) (W : Nat → Nat → Prop) : Ext h h W :=
  ⟨Nat.le_refl _, fun _ _ => ⟨rfl, fun _ _ => rfl⟩⟩

theorem ext_trans {h h1 h2 : Heap} {W1 W2 W : Nat → Nat → Prop} (e1 : Ext h h1 W1) (e2 : Ext h1 h2 W2)
    (w1 : ∀ a i, a < h.length → W1 a i → W a i) (w2 : ∀ a i, a < h.length → W2 a i → W a i) : Ext h h2 W := by
  refine ⟨Nat.le_trans e1.1 e2.1, fun a ha => ?_⟩
  have a1 := e1.2 a ha
  have a2 := e2.2 a (Nat.lt_of_lt_of_le ha e1.1)
  refine ⟨a2.1.trans a1.1, fun i hi => ?_⟩
  rw [a2.2 i (fun hw => hi (w2 a i ha hw)), a1.2 i (fun hw => hi (w1 a i ha hw))]

theorem ext_weaken {h h' : Heap} {W W' : Nat → Nat → Prop} (e : Ext h h' W)
    (w : ∀ a i, a < h.length → W a i → W' a i) : Ext h h' W' :=
  ⟨e.1, fun a ha => ⟨(e.2 a ha).1, fun i hi => (e.2 a ha).2 i (fun hw => hi (w a i ha hw))⟩⟩

/-- a valid slice none of whose cells may have been written shows the same list afterwards -/
theorem ext_read {h h' : Heap} {W : Nat → Nat → Prop} (e : Ext h h' W) {t : Slice} (hv : Valid h t)
    (hw : ∀ i, i < t.len → ¬ W t.arr i) : read h' t = read h t ∧ Valid h' t := by
  by_cases hc : t.cap = 0
  · have hl : t.len = 0 := by have := hv.1; omega
    exact ⟨by rw [read_len0 _ _ hl, read_len0 _ _ hl], by simp [Valid, hc, hl]⟩
  · have ha := valid_arr_lt hv (by omega)
    have := e.2 t.arr ha
    refine ⟨take_eq_of_getElem? (fun i hi => this.2 i (hw i hi)), hv.1, ?_⟩
    rw [this.1]; exact hv.2

def spare (s : Slice) (a i : Nat) : Prop := a = s.arr ∧ s.len ≤ i ∧ i < s.cap

/-- the new slice lives in a new array, or is the old one grown in place -/
def FreshOr (n0 : Nat) (old new : Slice) : Prop :=
  new.cap = 0 ∨ n0 ≤ new.arr ∨ (new.arr = old.arr ∧ new.cap = old.cap ∧ old.len ≤ new.len)

theorem freshOr_refl (n0 : Nat) (s : Slice) : FreshOr n0 s s := Or.inr (Or.inr ⟨rfl, rfl, Nat.le_refl _⟩)

theorem freshOr_trans {n0 n1 : Nat} {a b c : Slice} (hn : n0 ≤ n1) (h1 : FreshOr n0 a b) (h2 : FreshOr n1 b c) :
    FreshOr n0 a c := by
  rcases h2 with h | h | ⟨ha, hc, hl⟩
  · exact Or.inl h
  · exact Or.inr (Or.inl (Nat.le_trans hn h))
  · rcases h1 with h | h | ⟨ha', hc', hl'⟩
    · exact Or.inl (by omega)
    · exact Or.inr (Or.inl (by omega))
    · exact Or.inr (Or.inr ⟨by omega, by omega, by omega⟩)

theorem spare_of_freshOr {n0 : Nat} {old new : Slice} (hf : FreshOr n0 old new) {a i : Nat} (ha : a < n0)
    (hs : spare new a i) : spare old a i := by
  obtain ⟨h1, h2, h3⟩ := hs
  rcases hf with h | h | ⟨ha', hc', hl'⟩
  · omega
  · omega
  · exact ⟨by omega, by omega, by omega⟩

/-! ### alloc, append -/

theorem alloc_spec (pol : Pol) (h : Heap) (xs : List H) :
    Ext h (alloc pol h xs).1 (fun _ _ => False) ∧ (alloc pol h xs).1.length = h.length + 1 ∧
    (alloc pol h xs).2.arr = h.length ∧ Valid (alloc pol h xs).1 (alloc pol h xs).2 ∧
    read (alloc pol h xs).1 (alloc pol h xs).2 = xs := by
  simp only [alloc]
  refine ⟨⟨by simp, fun a ha => ?_⟩, by simp, trivial, ?_, ?_⟩
  · exact ⟨by rw [cells_append_lt h _ ha], fun i _ => by rw [cells_append_lt h _ ha]⟩
  · simp [Valid, cells_append_eq]
  · simp [read, cells_append_eq]

theorem allocExact_spec (h : Heap) (xs : List H) :
    Ext h (allocExact h xs).1 (fun _ _ => False) ∧ (allocExact h xs).1.length = h.length + 1 ∧
    (allocExact h xs).2.arr = h.length ∧ Valid (allocExact h xs).1 (allocExact h xs).2 ∧
    read (allocExact h xs).1 (allocExact h xs).2 = xs := by
  simp only [allocExact]
  refine ⟨⟨by simp, fun a ha => ?_⟩, by simp, trivial, ?_, ?_⟩
  · exact ⟨by rw [cells_append_lt h _ ha], fun i _ => by rw [cells_append_lt h _ ha]⟩
  · simp [Valid, cells_append_eq]
  · simp [read, cells_append_eq]

theorem argSlice_spec (pol : Pol) (h : Heap) (xs : List H) :
    Ext h (argSlice pol h xs).1 (fun _ _ => False) ∧ (argSlice pol h xs).1.length ≤ h.length + 1 ∧
    read (argSlice pol h xs).1 (argSlice pol h xs).2 = xs ∧ (argSlice pol h xs).2.len = xs.length := by
  unfold argSlice
  split
  · rename_i hx
    exact ⟨ext_refl _ _, Nat.le_succ _, by simp [read_nil, hx], by simp [Slice.nil, hx]⟩
  · have := alloc_spec pol h xs
    exact ⟨this.1, by omega, this.2.2.2.2, by simp [alloc]⟩

theorem appendS_spec (pol : Pol) (h : Heap) (s : Slice) (xs : List H) (hv : Valid h s) :
    Ext h (appendS pol h s xs).1 (spare s) ∧ (appendS pol h s xs).1.length ≤ h.length + 1 ∧
    Valid (appendS pol h s xs).1 (appendS pol h s xs).2 ∧
    read (appendS pol h s xs).1 (appendS pol h s xs).2 = read h s ++ xs ∧
    FreshOr h.length s (appendS pol h s xs).2 := by
  unfold appendS
  split
  · rename_i hfit
    have hcl : s.len + xs.length ≤ (cells h s.arr).length := Nat.le_trans hfit hv.2
    by_cases hx : xs = []
    · -- nothing is written
      subst hx
      have hw : writeAt (cells h s.arr) s.len [] = cells h s.arr := by simp [writeAt]
      have hset : h.set s.arr (writeAt (cells h s.arr) s.len []) = h := by
        rw [hw]
        apply List.ext_getElem?
        intro i
        rw [List.getElem?_set]
        by_cases hi : s.arr = i
        · subst hi
          by_cases hl : s.arr < h.length
          · simp [hl, cells]
          · simp [hl]
        · simp [hi]
      simp only [hset, List.length_nil, Nat.add_zero, List.append_nil]
      exact ⟨ext_refl _ _, by omega, hv, trivial, freshOr_refl _ _⟩
    · have hpos : 0 < s.cap := by
        have : 0 < xs.length := List.length_pos_iff.mpr hx
        omega
      have ha := valid_arr_lt hv hpos
      refine ⟨⟨by simp, fun a _ => ?_⟩, by simp, ?_, ?_, Or.inr (Or.inr ⟨rfl, rfl, by simp⟩)⟩
      · rw [cells_set]
        by_cases hab : s.arr = a
        · subst hab
          simp only [ha, and_self, if_true]
          refine ⟨writeAt_length hcl, fun i hi => ?_⟩
          by_cases h1 : i < s.len
          · exact writeAt_lt hcl h1
          · by_cases h2 : s.len + xs.length ≤ i
            · exact writeAt_ge hcl h2
            · exact absurd ⟨rfl, by omega, by omega⟩ hi
        · simp only [hab, false_and, if_false]; exact ⟨trivial, fun _ _ => trivial⟩
      · simp only [Valid, cells_set, ha, and_self, if_true]
        exact ⟨hfit, by rw [writeAt_length hcl]; exact hv.2⟩
      · simp only [read, cells_set, ha, and_self, if_true]
        rw [writeAt_take hcl]
  · have := alloc_spec pol h (read h s ++ xs)
    exact ⟨ext_weaken this.1 (fun _ _ _ hf => hf.elim), by omega, this.2.2.2.1, this.2.2.2.2,
      Or.inr (Or.inl (by rw [this.2.2.1]; exact Nat.le_refl _))⟩


/-! ### the state invariant and what a statement may do -/

/-- cells a later `append` may write: the spare capacity of the two router-held slices -/
def Wr (st : HS) (a i : Nat) : Prop := spare st.grp a i ∨ spare st.globals a i

/-- two slices in different arrays (or one of them without any cell) -/
def Disj (s t : Slice) : Prop := s.cap = 0 ∨ t.cap = 0 ∨ s.arr ≠ t.arr

structure Inv (st : HS) : Prop where
  vgrp : Valid st.heap st.grp
  vglob : Valid st.heap st.globals
  vroutes : ∀ r, r ∈ st.routes → Valid st.heap r.handlers
  dgg : Disj st.grp st.globals
  drg : ∀ r, r ∈ st.routes → Disj r.handlers st.grp
  drl : ∀ r, r ∈ st.routes → Disj r.handlers st.globals

structure Step (st st' : HS) : Prop where
  ext : Ext st.heap st'.heap (Wr st)
  inv : Inv st'
  routes : ∃ new, st'.routes = st.routes ++ new ∧
    ∀ r, r ∈ new → r.handlers.cap = 0 ∨ st.heap.length ≤ r.handlers.arr
  fgrp : FreshOr st.heap.length st.grp st'.grp
  fglob : FreshOr st.heap.length st.globals st'.globals

theorem inv_init : Inv HS.init :=
  ⟨valid_nil _, valid_nil _, fun _ h => by simp [HS.init] at h, Or.inl rfl,
   fun _ h => by simp [HS.init] at h, fun _ h => by simp [HS.init] at h⟩

theorem disj_symm {s t : Slice} (h : Disj s t) : Disj t s := by
  rcases h with h | h | h
  · exact Or.inr (Or.inl h)
  · exact Or.inl h
  · exact Or.inr (Or.inr (Ne.symm h))

/-- an old slice `t` stays apart from a slice that is new or grew in place from one `t` was apart from -/
theorem disj_of_freshOr {h : Heap} {s s' t : Slice} (hf : FreshOr h.length s s') (hd : Disj t s)
    (hv : Valid h t) : Disj t s' := by
  by_cases htc : t.cap = 0
  · exact Or.inl htc
  · have hlt := valid_arr_lt hv (by omega)
    rcases hf with h0 | h1 | ⟨ha, hc, _⟩
    · exact Or.inr (Or.inl h0)
    · exact Or.inr (Or.inr (by omega))
    · rcases hd with d | d | d
      · exact Or.inl d
      · exact Or.inr (Or.inl (by omega))
      · exact Or.inr (Or.inr (by omega))

/-- data cells of a slice apart from `grp` and `globals` are not writable -/
theorem not_wr_of_disj {st : HS} {t : Slice} (h1 : Disj t st.grp) (h2 : Disj t st.globals) (ht : t.len ≤ t.cap)
    {i : Nat} (hi : i < t.len) : ¬ Wr st t.arr i := by
  rintro (⟨ha, _, hc⟩ | ⟨ha, _, hc⟩)
  · rcases h1 with d | d | d
    · omega
    · omega
    · exact d ha
  · rcases h2 with d | d | d
    · omega
    · omega
    · exact d ha

theorem not_wr_grp {st : HS} (hi : Inv st) {i : Nat} (h : i < st.grp.len) : ¬ Wr st st.grp.arr i := by
  rintro (⟨_, hl, _⟩ | ⟨ha, _, hc⟩)
  · omega
  · have := hi.vgrp.1
    rcases hi.dgg with d | d | d
    · omega
    · omega
    · exact d ha

theorem not_wr_glob {st : HS} (hi : Inv st) {i : Nat} (h : i < st.globals.len) : ¬ Wr st st.globals.arr i := by
  rintro (⟨ha, _, hc⟩ | ⟨_, hl, _⟩)
  · have := hi.vglob.1
    rcases hi.dgg with d | d | d
    · omega
    · omega
    · exact d ha.symm
  · omega

/-- what registered routes, the group slice and the global slice show survives a step -/
theorem step_read_route {st st' : HS} (hi : Inv st) (hs : Step st st') {r : HRoute} (hr : r ∈ st.routes) :
    read st'.heap r.handlers = read st.heap r.handlers ∧ Valid st'.heap r.handlers :=
  ext_read hs.ext (hi.vroutes r hr)
    (fun _ hlt => not_wr_of_disj (hi.drg r hr) (hi.drl r hr) (hi.vroutes r hr).1 hlt)

theorem step_read_grp {st st' : HS} (hi : Inv st) (hs : Step st st') :
    read st'.heap st.grp = read st.heap st.grp ∧ Valid st'.heap st.grp :=
  ext_read hs.ext hi.vgrp (fun _ hlt => not_wr_grp hi hlt)

theorem step_read_glob {st st' : HS} (hi : Inv st) (hs : Step st st') :
    read st'.heap st.globals = read st.heap st.globals ∧ Valid st'.heap st.globals :=
  ext_read hs.ext hi.vglob (fun _ hlt => not_wr_glob hi hlt)

theorem wr_mono {st st' : HS} (hs : Step st st') {a i : Nat} (ha : a < st.heap.length) (hw : Wr st' a i) : Wr st a i := by
  rcases hw with h | h
  · exact Or.inl (spare_of_freshOr hs.fgrp ha h)
  · exact Or.inr (spare_of_freshOr hs.fglob ha h)

theorem step_refl {st : HS} (hi : Inv st) : Step st st :=
  ⟨ext_refl _ _, hi, ⟨[], by simp, fun _ h => by simp at h⟩, freshOr_refl _ _, freshOr_refl _ _⟩

theorem step_trans {st st1 st2 : HS} (h1 : Step st st1) (h2 : Step st1 st2) : Step st st2 := by
  obtain ⟨n1, e1, f1⟩ := h1.routes
  obtain ⟨n2, e2, f2⟩ := h2.routes
  refine ⟨ext_trans h1.ext h2.ext (fun _ _ _ hw => hw) (fun a i ha hw => wr_mono h1 ha hw), h2.inv,
    ⟨n1 ++ n2, by rw [e2, e1, List.append_assoc], fun r hr => ?_⟩,
    freshOr_trans h1.ext.1 h1.fgrp h2.fgrp, freshOr_trans h1.ext.1 h1.fglob h2.fglob⟩
  rcases List.mem_append.mp hr with hr | hr
  · exact f1 r hr
  · rcases f2 r hr with h | h
    · exact Or.inl h
    · exact Or.inr (Nat.le_trans h1.ext.1 h)



/-- assembling a step: new heap reached by writes into writable cells only, router-held slices new
    or grown in place, new routes in new arrays -/
theorem mkStep {st st' : HS} (hi : Inv st)
    (hext : Ext st.heap st'.heap (Wr st))
    (vg : Valid st'.heap st'.grp) (vl : Valid st'.heap st'.globals)
    (fg : FreshOr st.heap.length st.grp st'.grp) (fl : FreshOr st.heap.length st.globals st'.globals)
    (dgl : Disj st'.grp st'.globals)
    (new : List HRoute) (hr : st'.routes = st.routes ++ new)
    (hnew : ∀ r, r ∈ new → Valid st'.heap r.handlers ∧ (r.handlers.cap = 0 ∨ st.heap.length ≤ r.handlers.arr) ∧
      Disj r.handlers st'.grp ∧ Disj r.handlers st'.globals) : Step st st' := by
  have hold : ∀ r, r ∈ st.routes → Valid st'.heap r.handlers := fun r hr' =>
    (ext_read hext (hi.vroutes r hr')
      (fun _ hlt => not_wr_of_disj (hi.drg r hr') (hi.drl r hr') (hi.vroutes r hr').1 hlt)).2
  refine ⟨hext, ⟨vg, vl, ?_, dgl, ?_, ?_⟩, ⟨new, hr, fun r h => (hnew r h).2.1⟩, fg, fl⟩
  · intro r hmem
    rw [hr] at hmem
    rcases List.mem_append.mp hmem with h | h
    · exact hold r h
    · exact (hnew r h).1
  · intro r hmem
    rw [hr] at hmem
    rcases List.mem_append.mp hmem with h | h
    · exact disj_of_freshOr fg (hi.drg r h) (hi.vroutes r h)
    · exact (hnew r h).2.2.1
  · intro r hmem
    rw [hr] at hmem
    rcases List.mem_append.mp hmem with h | h
    · exact disj_of_freshOr fl (hi.drl r h) (hi.vroutes r h)
    · exact (hnew r h).2.2.2

/-- the list-level state shown after a step that registers the routes `new` -/
theorem abs_routes {st st' : HS} (hi : Inv st) (hs : Step st st') (new : List HRoute)
    (hr : st'.routes = st.routes ++ new) :
    st'.abs.routes = st.abs.routes ++ new.map (HRoute.abs st'.heap) := by
  simp only [HS.abs, hr, List.map_append]
  congr 1
  apply List.map_congr_left
  intro r hmem
  simp only [HRoute.abs]
  rw [(step_read_route hi hs hmem).1]

/-! ### building the handler slice of one route: the slice is nil or lives in an array allocated
    during this registration, so nothing that existed before is written -/

def Own (n0 : Nat) (s : Slice) : Prop := s.cap = 0 ∨ n0 ≤ s.arr

def WNew (n0 : Nat) (a _i : Nat) : Prop := n0 ≤ a

theorem hRouteUse_spec (pol : Pol) (limit n0 : Nat) (h : Heap) (s : Slice) (mw : List H)
    (hn : n0 ≤ h.length) (hv : Valid h s) (ho : Own n0 s) :
    (∀ r, hRouteUse pol limit h s mw = .ok r →
      Ext h r.1 (WNew n0) ∧ Valid r.1 r.2 ∧ Own n0 r.2 ∧ read r.1 r.2 = read h s ++ mw ∧
      routeUse limit (read h s) mw = .ok (read r.1 r.2)) ∧
    (∀ e, hRouteUse pol limit h s mw = .error e → routeUse limit (read h s) mw = .error e) := by
  unfold hRouteUse routeUse
  rw [read_length hv]
  by_cases hlim : s.len + mw.length ≥ limit
  · simp [hlim]
  · simp only [hlim, if_false]
    have ha := argSlice_spec pol h mw
    -- the argument array is new; the route's slice is still valid in the extended heap
    have hv1 : read (argSlice pol h mw).1 s = read h s ∧ Valid (argSlice pol h mw).1 s :=
      ext_read ha.1 hv (fun _ _ hf => hf)
    have hap := appendS_spec pol (argSlice pol h mw).1 s (read (argSlice pol h mw).1 (argSlice pol h mw).2) hv1.2
    refine ⟨fun r hr => ?_, fun e he => by cases he⟩
    injection hr with hr
    subst hr
    have hread : read (appendS pol (argSlice pol h mw).1 s (read (argSlice pol h mw).1 (argSlice pol h mw).2)).1
        (appendS pol (argSlice pol h mw).1 s (read (argSlice pol h mw).1 (argSlice pol h mw).2)).2 = read h s ++ mw := by
      rw [hap.2.2.2.1, hv1.1, ha.2.2.1]
    refine ⟨?_, hap.2.2.1, ?_, hread, by rw [hread]⟩
    · refine ext_trans ha.1 hap.1 (fun _ _ _ hf => hf.elim) (fun a i _ hsp => ?_)
      obtain ⟨hae, _, hc⟩ := hsp
      rcases ho with h0 | h0
      · omega
      · show n0 ≤ a; omega
    · rcases hap.2.2.2.2 with h0 | h0 | ⟨h1, h2, _⟩
      · exact Or.inl h0
      · exact Or.inr (Nat.le_trans hn (Nat.le_trans ha.1.1 h0))
      · rcases ho with o | o
        · exact Or.inl (by omega)
        · exact Or.inr (by omega)



theorem wnew_trans {n0 : Nat} {h h1 h2 : Heap} (e1 : Ext h h1 (WNew n0)) (e2 : Ext h1 h2 (WNew n0)) :
    Ext h h2 (WNew n0) :=
  ext_trans e1 e2 (fun _ _ _ hw => hw) (fun _ _ _ hw => hw)

theorem hRouteUses_spec (pol : Pol) (limit n0 : Nat) : ∀ (l : List (List H)) (h : Heap) (s : Slice),
    n0 ≤ h.length → Valid h s → Own n0 s →
    (∀ r, hRouteUses pol limit h s l = .ok r →
      Ext h r.1 (WNew n0) ∧ Valid r.1 r.2 ∧ Own n0 r.2 ∧
      routeUses limit (read h s) l = .ok (read r.1 r.2)) ∧
    (∀ e, hRouteUses pol limit h s l = .error e → routeUses limit (read h s) l = .error e)
  | [], h, s, _, hv, ho => by
    simp only [hRouteUses, routeUses]
    exact ⟨fun r hr => (by injection hr with hr; subst hr; exact ⟨ext_refl _ _, hv, ho, rfl⟩),
           fun e he => (by cases he)⟩
  | mw :: rest, h, s, hn, hv, ho => by
    have h1 := hRouteUse_spec pol limit n0 h s mw hn hv ho
    simp only [hRouteUses, routeUses]
    cases hu : hRouteUse pol limit h s mw with
    | error e =>
      rw [h1.2 e hu]
      refine ⟨fun r hr => ?_, fun e' he => ?_⟩
      · cases hr
      · injection he with he; subst he; rfl
    | ok r1 =>
      obtain ⟨e1, v1, o1, _, ru1⟩ := h1.1 r1 hu
      rw [ru1]
      have h2 := hRouteUses_spec pol limit n0 rest r1.1 r1.2 (Nat.le_trans hn e1.1) v1 o1
      refine ⟨fun r hr => ?_, fun e he => h2.2 e he⟩
      obtain ⟨e2, v2, o2, ru2⟩ := h2.1 r hr
      exact ⟨wnew_trans e1 e2, v2, o2, ru2⟩

/-- a slice of an old array shows the same after writes into new arrays only -/
theorem wnew_read {n0 : Nat} {h h' : Heap} (e : Ext h h' (WNew n0)) {t : Slice} (hv : Valid h t)
    (hold : t.cap = 0 ∨ t.arr < n0) : read h' t = read h t ∧ Valid h' t :=
  ext_read e hv (fun i hi hw => by
    have := hv.1
    rcases hold with h0 | h0
    · omega
    · exact absurd hw (by show ¬ n0 ≤ t.arr; omega))

theorem hAttach_spec (limit n0 : Nat) (h : Heap) (grp s : Slice) (hn : n0 ≤ h.length)
    (hvg : Valid h grp) (hv : Valid h s) (ho : Own n0 s) :
    (∀ r, hAttach limit h grp s = .ok r →
      Ext h r.1 (WNew n0) ∧ Valid r.1 r.2 ∧ Own n0 r.2 ∧
      attachHandlers limit (read h grp) (read h s) = .ok (read r.1 r.2)) ∧
    (∀ e, hAttach limit h grp s = .error e → attachHandlers limit (read h grp) (read h s) = .error e) := by
  unfold hAttach attachHandlers
  have hlg := read_length hvg
  have hls := read_length hv
  by_cases hg : grp.len > 0
  · have hne : read h grp ≠ [] := by
      intro h0; rw [h0] at hlg; simp at hlg; omega
    simp only [hg, hne, if_true, ne_eq, not_false_eq_true, List.length_append, hlg, hls]
    by_cases hlim : grp.len + s.len ≥ limit
    · simp [hlim]
    · simp only [hlim, if_false]
      have ha := allocExact_spec h (read h grp ++ read h s)
      refine ⟨fun r hr => ?_, fun e he => by cases he⟩
      injection hr with hr; subst hr
      exact ⟨ext_weaken ha.1 (fun _ _ _ hf => hf.elim), ha.2.2.2.1, Or.inr (by rw [ha.2.2.1]; exact hn),
        by rw [ha.2.2.2.2]⟩
  · have h0 : grp.len = 0 := by omega
    have he : read h grp = [] := read_len0 _ _ h0
    simp only [hg, he, if_false, ne_eq, not_true_eq_false]
    exact ⟨fun r hr => (by injection hr with hr; subst hr; exact ⟨ext_refl _ _, hv, ho, rfl⟩),
           fun e he => (by cases he)⟩



theorem old_of_valid {h : Heap} {t : Slice} (hv : Valid h t) : t.cap = 0 ∨ t.arr < h.length := by
  by_cases hc : t.cap = 0
  · exact Or.inl hc
  · exact Or.inr (valid_arr_lt hv (by omega))

theorem disj_own_old {n0 : Nat} {s t : Slice} (ho : Own n0 s) (hold : t.cap = 0 ∨ t.arr < n0) : Disj s t := by
  rcases ho with h | h
  · exact Or.inl h
  · rcases hold with h' | h'
    · exact Or.inr (Or.inl h')
    · exact Or.inr (Or.inr (by omega))

/-- a state that differs from `st` by a heap in which only new arrays were written, and by one more route -/
theorem step_push {st : HS} (hi : Inv st) {h' : Heap} (e : Ext st.heap h' (WNew st.heap.length))
    (r : HRoute) (hv : Valid h' r.handlers) (ho : Own st.heap.length r.handlers) :
    Step st { st with heap := h', routes := st.routes ++ [r] } ∧
    ({ st with heap := h', routes := st.routes ++ [r] } : HS).abs =
      st.abs.push (r.abs h') := by
  have hw : Ext st.heap h' (Wr st) := ext_weaken e (fun a _ ha hw => absurd hw (by show ¬ st.heap.length ≤ a; omega))
  have og := old_of_valid hi.vgrp
  have ol := old_of_valid hi.vglob
  have rg := wnew_read e hi.vgrp og
  have rl := wnew_read e hi.vglob ol
  have hs : Step st { st with heap := h', routes := st.routes ++ [r] } :=
    mkStep hi hw rg.2 rl.2 (freshOr_refl _ _) (freshOr_refl _ _) hi.dgg [r] rfl
      (fun x hx => by
        have : x = r := by simpa using hx
        subst this
        exact ⟨hv, ho, disj_own_old ho og, disj_own_old ho ol⟩)
  refine ⟨hs, ?_⟩
  have hr := abs_routes hi hs [r] rfl
  simp only [HS.abs] at hr ⊢
  simp only [RS.push, rg.1, rl.1, hr]
  simp

theorem hAddRoute_sim (pol : Pol) (cfg : Cfg) (st : HS) (d : RouteDef) (hi : Inv st) :
    (∀ st', hAddRoute pol cfg st d = .ok st' → Step st st' ∧ addRoute cfg st.abs d = .ok st'.abs) ∧
    (∀ e, hAddRoute pol cfg st d = .error e → addRoute cfg st.abs d = .error e) := by
  have s0 := hRouteUses_spec pol cfg.limit st.heap.length d.pre st.heap Slice.nil (Nat.le_refl _)
    (valid_nil _) (Or.inl rfl)
  rw [read_nil] at s0
  unfold hAddRoute addRoute
  cases h0 : hRouteUses pol cfg.limit st.heap Slice.nil d.pre with
  | error e =>
    rw [s0.2 e h0]
    exact ⟨fun _ hr => (by cases hr), fun e' he => (by injection he with he; subst he; rfl)⟩
  | ok r0 =>
    obtain ⟨e0, v0, o0, l0⟩ := s0.1 r0 h0
    rw [l0]
    dsimp only
    have og := old_of_valid hi.vgrp
    have rg0 := wnew_read e0 hi.vgrp og
    have s1 := hAttach_spec cfg.limit st.heap.length r0.1 st.grp r0.2 e0.1 rg0.2 v0 o0
    rw [rg0.1] at s1
    have hgrp : st.abs.grp = read st.heap st.grp := rfl
    simp only [hgrp]
    cases h1 : hAttach cfg.limit r0.1 st.grp r0.2 with
    | error e =>
      rw [s1.2 e h1]
      exact ⟨fun _ hr => (by cases hr), fun e' he => (by injection he with he; subst he; rfl)⟩
    | ok r1 =>
      obtain ⟨e1, v1, o1, l1⟩ := s1.1 r1 h1
      rw [l1]
      dsimp only
      have e01 := wnew_trans e0 e1
      have s2 := hRouteUses_spec pol cfg.limit st.heap.length d.post r1.1 r1.2 e01.1 v1 o1
      cases h2 : hRouteUses pol cfg.limit r1.1 r1.2 d.post with
      | error e =>
        rw [s2.2 e h2]
        exact ⟨fun _ hr => (by cases hr), fun e' he => (by injection he with he; subst he; rfl)⟩
      | ok r2 =>
        obtain ⟨e2, v2, o2, l2⟩ := s2.1 r2 h2
        rw [l2]
        dsimp only
        have e012 := wnew_trans e01 e2
        refine ⟨fun st' hr => ?_, fun e he => (by cases he)⟩
        injection hr with hr; subst hr
        have := step_push hi e012
          { id := d.id, main := d.main, name := d.name, methods := d.methods
            path := storedPath cfg st.pfx d.path, handlers := r2.2 } v2 o2
        refine ⟨this.1, ?_⟩
        rw [this.2]
        rfl



theorem hAddRoutes_sim (pol : Pol) (cfg : Cfg) : ∀ (ds : List RouteDef) (st : HS), Inv st →
    (∀ st', hAddRoutes pol cfg st ds = .ok st' → Step st st' ∧ addRoutes cfg st.abs ds = .ok st'.abs) ∧
    (∀ e, hAddRoutes pol cfg st ds = .error e → addRoutes cfg st.abs ds = .error e)
  | [], st, hi => by
    simp only [hAddRoutes, addRoutes]
    exact ⟨fun st' hr => (by injection hr with hr; subst hr; exact ⟨step_refl hi, rfl⟩), fun e he => (by cases he)⟩
  | d :: rest, st, hi => by
    have h1 := hAddRoute_sim pol cfg st d hi
    simp only [hAddRoutes, addRoutes]
    cases hu : hAddRoute pol cfg st d with
    | error e =>
      rw [h1.2 e hu]
      exact ⟨fun _ hr => (by cases hr), fun e' he => (by injection he with he; subst he; rfl)⟩
    | ok st1 =>
      obtain ⟨s1, l1⟩ := h1.1 st1 hu
      rw [l1]
      dsimp only
      have h2 := hAddRoutes_sim pol cfg rest st1 s1.inv
      exact ⟨fun st' hr => ⟨step_trans s1 (h2.1 st' hr).1, (h2.1 st' hr).2⟩, fun e he => h2.2 e he⟩

theorem freshOr_le {n0 n1 : Nat} {s s' : Slice} (hn : n0 ≤ n1) (h : FreshOr n1 s s') : FreshOr n0 s s' := by
  rcases h with h | h | h
  · exact Or.inl h
  · exact Or.inr (Or.inl (Nat.le_trans hn h))
  · exact Or.inr (Or.inr h)

/-- two states with the same fields show the same -/
theorem abs_congr {st : HS} {h' : Heap} {pfx : Bytes} {g l : Slice} {gv lv : List H}
    (hg : read h' g = gv) (hl : read h' l = lv)
    (hr : ∀ r, r ∈ st.routes → read h' r.handlers = read st.heap r.handlers) :
    ({ st with heap := h', pfx := pfx, grp := g, globals := l } : HS).abs =
      { st.abs with pfx := pfx, grp := gv, globals := lv } := by
  simp only [HS.abs, hg, hl]
  congr 1
  apply List.map_congr_left
  intro r hmem
  simp only [HRoute.abs]
  rw [hr r hmem]

/-- `append` on the group slice (after the call's argument array was allocated) -/
theorem grow_grp (pol : Pol) {st : HS} (hi : Inv st) {h1 : Heap} (e1 : Ext st.heap h1 (fun _ _ => False))
    (xs : List H) (pfx : Bytes) :
    Step st { st with heap := (appendS pol h1 st.grp xs).1, pfx := pfx, grp := (appendS pol h1 st.grp xs).2 } ∧
    ({ st with heap := (appendS pol h1 st.grp xs).1, pfx := pfx, grp := (appendS pol h1 st.grp xs).2 } : HS).abs =
      { st.abs with pfx := pfx, grp := st.abs.grp ++ xs } := by
  have rg := ext_read e1 hi.vgrp (fun _ _ hf => hf)
  have hap := appendS_spec pol h1 st.grp xs rg.2
  have hext : Ext st.heap (appendS pol h1 st.grp xs).1 (Wr st) :=
    ext_trans e1 hap.1 (fun _ _ _ hf => hf.elim) (fun _ _ _ hs => Or.inl hs)
  have fg : FreshOr st.heap.length st.grp (appendS pol h1 st.grp xs).2 := freshOr_le e1.1 hap.2.2.2.2
  have rl := ext_read hext hi.vglob (fun _ hlt => not_wr_glob hi hlt)
  have hs : Step st { st with heap := (appendS pol h1 st.grp xs).1, pfx := pfx, grp := (appendS pol h1 st.grp xs).2 } :=
    mkStep hi hext hap.2.2.1 rl.2 fg (freshOr_refl _ _)
      (disj_symm (disj_of_freshOr fg (disj_symm hi.dgg) hi.vglob)) [] (by simp) (fun _ h => by simp at h)
  refine ⟨hs, ?_⟩
  have := abs_congr (st := st) (pfx := pfx) (hap.2.2.2.1.trans (by rw [rg.1])) rl.1
    (fun r hr => (step_read_route hi hs hr).1)
  simpa [HS.abs] using this

theorem grow_glob (pol : Pol) {st : HS} (hi : Inv st) {h1 : Heap} (e1 : Ext st.heap h1 (fun _ _ => False))
    (xs : List H) :
    Step st { st with heap := (appendS pol h1 st.globals xs).1, globals := (appendS pol h1 st.globals xs).2 } ∧
    ({ st with heap := (appendS pol h1 st.globals xs).1, globals := (appendS pol h1 st.globals xs).2 } : HS).abs =
      { st.abs with globals := st.abs.globals ++ xs } := by
  have rl := ext_read e1 hi.vglob (fun _ _ hf => hf)
  have hap := appendS_spec pol h1 st.globals xs rl.2
  have hext : Ext st.heap (appendS pol h1 st.globals xs).1 (Wr st) :=
    ext_trans e1 hap.1 (fun _ _ _ hf => hf.elim) (fun _ _ _ hs => Or.inr hs)
  have fl : FreshOr st.heap.length st.globals (appendS pol h1 st.globals xs).2 := freshOr_le e1.1 hap.2.2.2.2
  have rg := ext_read hext hi.vgrp (fun _ hlt => not_wr_grp hi hlt)
  have hs : Step st { st with heap := (appendS pol h1 st.globals xs).1, globals := (appendS pol h1 st.globals xs).2 } :=
    mkStep hi hext rg.2 hap.2.2.1 (freshOr_refl _ _) fl
      (disj_of_freshOr fl hi.dgg hi.vgrp) [] (by simp) (fun _ h => by simp at h)
  refine ⟨hs, ?_⟩
  have := abs_congr (st := st) (pfx := st.pfx) rg.1 (hap.2.2.2.1.trans (by rw [rl.1]))
    (fun r hr => (step_read_route hi hs hr).1)
  simpa [HS.abs] using this



theorem hUse_sim (pol : Pol) (st : HS) (hs : List H) (hi : Inv st) :
    Step st (hUse pol st hs) ∧ (hUse pol st hs).abs = { st.abs with toScope := useScope st.abs.toScope hs } := by
  have ha := argSlice_spec pol st.heap hs
  unfold hUse
  simp only [ha.2.2.1]
  by_cases hp : st.pfx = []
  · have := grow_glob pol hi ha.1 hs
    rw [if_neg (fun h => h hp)]
    refine ⟨this.1, ?_⟩
    rw [this.2]
    simp [useScope, HS.abs, hp]
  · have := grow_grp pol hi ha.1 hs st.pfx
    rw [if_pos hp]
    refine ⟨this.1, ?_⟩
    rw [this.2]
    simp [useScope, HS.abs, hp]

theorem hEnter_sim (pol : Pol) (cfg : Cfg) (st : HS) (p : Bytes) (mws : List H) (hi : Inv st) :
    Step st (hEnter pol cfg st p mws) ∧ (hEnter pol cfg st p mws).abs = st.abs.enter cfg p mws := by
  have ha := argSlice_spec pol st.heap mws
  have hgl : (st.abs.grp ≠ []) ↔ st.grp.len > 0 := by
    have := read_length hi.vgrp
    show read st.heap st.grp ≠ [] ↔ _
    constructor
    · intro h; have := List.length_pos_iff.mpr h; omega
    · intro h h0; rw [h0] at this; simp at this; omega
  unfold hEnter
  simp only [ha.2.2.1, ha.2.2.2]
  by_cases hm : mws = []
  · -- no middleware: only the prefix changes, nothing is allocated
    subst hm
    have e : (argSlice pol st.heap []).1 = st.heap := by simp [argSlice]
    simp only [List.length_nil, Nat.lt_irrefl, gt_iff_lt, if_false, e]
    refine ⟨mkStep hi (ext_refl _ _) hi.vgrp hi.vglob (freshOr_refl _ _) (freshOr_refl _ _) hi.dgg [] (by simp)
      (fun _ h => by simp at h), ?_⟩
    simp [HS.abs, RS.enter, enterScope]
  · have hpos : mws.length > 0 := List.length_pos_iff.mpr hm
    simp only [hpos, if_true]
    by_cases hg : st.grp.len > 0
    · have := grow_grp pol hi ha.1 mws (st.pfx ++ cfg.fmt p)
      simp only [hg, if_true]
      refine ⟨this.1, ?_⟩
      rw [this.2]
      have hne := hgl.mpr hg
      simp only [RS.enter, enterScope, hm, hne, ne_eq, not_false_eq_true, if_true]
      rfl
    · -- the argument slice itself becomes the group slice
      simp only [hg, if_false]
      have he : st.abs.grp = [] := by
        by_cases h0 : st.abs.grp = []
        · exact h0
        · exact absurd (hgl.mp h0) hg
      have hal : argSlice pol st.heap mws = alloc pol st.heap mws := by simp [argSlice, hm]
      have hsp := alloc_spec pol st.heap mws
      rw [hal] at ha ⊢
      have hext : Ext st.heap (alloc pol st.heap mws).1 (Wr st) := ext_weaken ha.1 (fun _ _ _ hf => hf.elim)
      have rl := ext_read hext hi.vglob (fun _ hlt => not_wr_glob hi hlt)
      have fg : FreshOr st.heap.length st.grp (alloc pol st.heap mws).2 :=
        Or.inr (Or.inl (by rw [hsp.2.2.1]; exact Nat.le_refl _))
      have hs : Step st { st with heap := (alloc pol st.heap mws).1, pfx := st.pfx ++ cfg.fmt p,
                                  grp := (alloc pol st.heap mws).2 } :=
        mkStep hi hext hsp.2.2.2.1 rl.2 fg (freshOr_refl _ _)
          (disj_symm (disj_of_freshOr fg (disj_symm hi.dgg) hi.vglob)) [] (by simp) (fun _ h => by simp at h)
      refine ⟨hs, ?_⟩
      have := abs_congr (st := st) (pfx := st.pfx ++ cfg.fmt p) hsp.2.2.2.2 rl.1
        (fun r hr => (step_read_route hi hs hr).1)
      rw [this]
      simp only [RS.enter, enterScope, hm, he, ne_eq, not_false_eq_true, not_true_eq_false, if_true, if_false]
      rfl

/-- `Group` returns: the saved slice shows what it showed when it was saved -/
theorem leave_sim {st st2 : HS} (hi : Inv st) (hs : Step st st2) :
    Step st (st.leave st2) ∧ (st.leave st2).abs = st.abs.leave st2.abs := by
  have rg := step_read_grp hi hs
  obtain ⟨new, hnew, hfresh⟩ := hs.routes
  have og := old_of_valid hi.vgrp
  have hstep : Step st (st.leave st2) := by
    refine ⟨hs.ext, ⟨rg.2, hs.inv.vglob, hs.inv.vroutes, ?_, ?_, hs.inv.drl⟩, ⟨new, hnew, hfresh⟩,
      freshOr_refl _ _, hs.fglob⟩
    · exact disj_of_freshOr hs.fglob hi.dgg hi.vgrp
    · intro r hr
      have hr' : r ∈ st.routes ++ new := by rw [← hnew]; exact hr
      rcases List.mem_append.mp hr' with h | h
      · exact hi.drg r h
      · exact disj_own_old (hfresh r h) og
  refine ⟨hstep, ?_⟩
  simp only [HS.leave, HS.abs, RS.leave, rg.1]


/-! ### the refinement theorem -/

/-- the group pattern: enter, run the body, leave -/
theorem group_sim (pol : Pol) (cfg : Cfg) (st : HS) (p : Bytes) (mws : List H) (hi : Inv st)
    {hbody : Except Err HS} {lbody : Except Err RS}
    (ih : (∀ st2, hbody = .ok st2 → Step (hEnter pol cfg st p mws) st2 ∧ lbody = .ok st2.abs) ∧
          (∀ e, hbody = .error e → lbody = .error e)) :
    (∀ st', (match hbody with | .ok st2 => Except.ok (st.leave st2) | .error e => .error e) = .ok st' →
      Step st st' ∧
      (match lbody with | .ok st2 => Except.ok (st.abs.leave st2) | .error e => .error e) = .ok st'.abs) ∧
    (∀ e, (match hbody with | .ok st2 => Except.ok (st.leave st2) | .error e => .error e) = .error e →
      (match lbody with | .ok st2 => Except.ok (st.abs.leave st2) | .error e => .error e) = .error e) := by
  have he := hEnter_sim pol cfg st p mws hi
  cases hb : hbody with
  | error e =>
    rw [ih.2 e hb]
    exact ⟨fun _ hr => (by cases hr), fun e' h => (by injection h with h; subst h; rfl)⟩
  | ok st2 =>
    obtain ⟨s2, l2⟩ := ih.1 st2 hb
    rw [l2]
    dsimp only
    have s02 := step_trans he.1 s2
    have hl := leave_sim hi s02
    refine ⟨fun st' hr => ?_, fun e h => (by cases h)⟩
    injection hr with hr; subst hr
    exact ⟨hl.1, by rw [hl.2]⟩

mutual
theorem hexec_sim (pol : Pol) (cfg : Cfg) (st : HS) (hi : Inv st) : (s : Stmt) →
    (∀ st', hexec pol cfg st s = .ok st' → Step st st' ∧ exec cfg st.abs s = .ok st'.abs) ∧
    (∀ e, hexec pol cfg st s = .error e → exec cfg st.abs s = .error e)
  | .use hs => by
    have := hUse_sim pol st hs hi
    simp only [hexec, exec]
    exact ⟨fun st' hr => (by injection hr with hr; subst hr; exact ⟨this.1, by rw [this.2]⟩), fun e h => (by cases h)⟩
  | .route d => by
    simp only [hexec, exec]
    exact hAddRoute_sim pol cfg st d hi
  | .group p mws body => by
    have he := hEnter_sim pol cfg st p mws hi
    have ih := hexecList_sim pol cfg (hEnter pol cfg st p mws) he.1.inv body
    rw [he.2] at ih
    simp only [hexec, exec]
    exact group_sim pol cfg st p mws hi ih
  | .controller p mws body => by
    have he := hEnter_sim pol cfg st p mws hi
    have ih := hexecList_sim pol cfg (hEnter pol cfg st p mws) he.1.inv body
    rw [he.2] at ih
    simp only [hexec, exec]
    exact group_sim pol cfg st p mws hi ih
  | .resource rd mws => by
    simp only [hexec, exec]
    by_cases hk : rd.kind = .ptrStruct
    · have he := hEnter_sim pol cfg st (rd.base ++ rd.resName) mws hi
      have ih := hAddRoutes_sim pol cfg (restRoutes rd) (hEnter pol cfg st (rd.base ++ rd.resName) mws) he.1.inv
      rw [he.2] at ih
      simp only [hk, ne_eq, not_true_eq_false, if_false]
      exact group_sim pol cfg st (rd.base ++ rd.resName) mws hi ih
    · simp only [hk, ne_eq, not_false_eq_true, if_true]
      exact ⟨fun _ hr => (by cases hr), fun e h => (by injection h with h; subst h; rfl)⟩
  | .notFound hs => by
    simp only [hexec, exec]
    refine ⟨fun st' hr => ?_, fun e h => (by cases h)⟩
    injection hr with hr; subst hr
    exact ⟨⟨ext_refl _ _, ⟨hi.vgrp, hi.vglob, hi.vroutes, hi.dgg, hi.drg, hi.drl⟩, ⟨[], by simp, fun _ h => by simp at h⟩,
      freshOr_refl _ _, freshOr_refl _ _⟩, rfl⟩
  | .notAllowed hs => by
    simp only [hexec, exec]
    refine ⟨fun st' hr => ?_, fun e h => (by cases h)⟩
    injection hr with hr; subst hr
    exact ⟨⟨ext_refl _ _, ⟨hi.vgrp, hi.vglob, hi.vroutes, hi.dgg, hi.drg, hi.drl⟩, ⟨[], by simp, fun _ h => by simp at h⟩,
      freshOr_refl _ _, freshOr_refl _ _⟩, rfl⟩
theorem hexecList_sim (pol : Pol) (cfg : Cfg) (st : HS) (hi : Inv st) : (l : List Stmt) →
    (∀ st', hexecList pol cfg st l = .ok st' → Step st st' ∧ execList cfg st.abs l = .ok st'.abs) ∧
    (∀ e, hexecList pol cfg st l = .error e → execList cfg st.abs l = .error e)
  | [] => by
    simp only [hexecList, execList]
    exact ⟨fun st' hr => (by injection hr with hr; subst hr; exact ⟨step_refl hi, rfl⟩), fun e h => (by cases h)⟩
  | s :: rest => by
    have h1 := hexec_sim pol cfg st hi s
    simp only [hexecList, execList]
    cases hu : hexec pol cfg st s with
    | error e =>
      rw [h1.2 e hu]
      exact ⟨fun _ hr => (by cases hr), fun e' he => (by injection he with he; subst he; rfl)⟩
    | ok st1 =>
      obtain ⟨s1, l1⟩ := h1.1 st1 hu
      rw [l1]
      dsimp only
      have h2 := hexecList_sim pol cfg st1 s1.inv rest
      exact ⟨fun st' hr => ⟨step_trans s1 (h2.1 st' hr).1, (h2.1 st' hr).2⟩, fun e he => h2.2 e he⟩
end


end Rux.Reg
