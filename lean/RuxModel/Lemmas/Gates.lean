import RuxModel.Model.Gates
/-
  Lemmas for C20.

  §A  the `Next` loop with its cursor equals the onion specification (lifted from the design prototype,
      DESIGN-prototypes.md §3), for every chain of at most 63 handlers and enough fuel;
  §B  handlers that never call `Next` (`flat`): what the onion does with them;
  §C  `WrapHTTPHandlers`: the index loop is a right fold;
  §D  base64 round trip and `parseBasicAuth ∘ SetBasicAuth`.
-/
namespace Rux.Gates

/-! ## §A  onion specification -/

/-- accumulator step of the specification: `(events of this handler, called Next?, aborted?)`;
    `R` is what the rest of the chain produces when it runs -/
def specStep (i : Nat) (R : List Ev × Bool) (acc : List Ev × Bool × Bool) (a : Act) : List Ev × Bool × Bool :=
  match a with
  | .emit o => (acc.1 ++ [.out i o], acc.2.1, acc.2.2)
  | .abort => (acc.1, acc.2.1, true)
  | .next => if !acc.2.1 && !acc.2.2 then (acc.1 ++ R.1, true, R.2) else acc

/-- the trace of the chain from position `i` on, and whether the chain ends aborted -/
def onion : Nat → List Handler → List Ev × Bool
  | _, [] => ([], false)
  | i, h :: rest =>
    let R := onion (i+1) rest
    let acc := h.foldl (specStep i R) ([], false, false)
    if !acc.2.1 && !acc.2.2 then ([Ev.enter i] ++ acc.1 ++ [.leave i] ++ R.1, R.2)
    else ([Ev.enter i] ++ acc.1 ++ [.leave i], acc.2.2)

/-- the cursor as a function of the abstract state -/
def idxOf (s i : Nat) (started ab : Bool) : Int :=
  if ab then 63 else if started then (s : Int) - 1 else i

theorem next_done (hs : List Handler) (f : Nat) (st : St) (h : ¬ st.idx < (hs.length : Int) - 1) :
    next hs (f+1) st = some st := by
  rw [next]; simp [h]

theorem run_spec (hs : List Handler) (_hlen : hs.length ≤ 63) (i : Nat) (_hi : i < hs.length)
    (R : List Ev × Bool)
    (IH : ∀ tr, ∃ f0, ∀ f, f0 ≤ f →
      next hs f ⟨(i : Int), tr⟩ = some ⟨idxOf hs.length i true R.2, tr ++ R.1⟩) :
    ∀ (acts : List Act) (pre tr : List Ev) (started ab : Bool),
    ∃ f0, ∀ f, f0 ≤ f →
      run hs f i acts ⟨idxOf hs.length i started ab, pre ++ tr⟩ =
        some ⟨idxOf hs.length i (acts.foldl (specStep i R) (tr, started, ab)).2.1
                (acts.foldl (specStep i R) (tr, started, ab)).2.2,
              pre ++ (acts.foldl (specStep i R) (tr, started, ab)).1⟩ := by
  intro acts
  induction acts with
  | nil => intro pre tr started ab; exact ⟨0, fun f _ => by rw [run]; simp⟩
  | cons a rest ih =>
    intro pre tr started ab
    cases a with
    | emit o =>
      obtain ⟨f0, hf⟩ := ih pre (tr ++ [.out i o]) started ab
      refine ⟨f0, fun f hge => ?_⟩
      rw [run]; simp only [List.foldl_cons, specStep]
      have := hf f hge
      simpa [List.append_assoc] using this
    | abort =>
      obtain ⟨f0, hf⟩ := ih pre tr started true
      refine ⟨f0, fun f hge => ?_⟩
      rw [run]; simp only [List.foldl_cons, specStep]
      have := hf f hge
      have h63 : idxOf hs.length i started true = 63 := by simp [idxOf]
      simpa [h63, abortIndex] using this
    | next =>
      by_cases hc : started = false ∧ ab = false
      · obtain ⟨rfl, rfl⟩ := hc
        obtain ⟨f1, hf1⟩ := IH (pre ++ tr)
        obtain ⟨f2, hf2⟩ := ih pre (tr ++ R.1) true R.2
        refine ⟨max f1 f2, fun f hge => ?_⟩
        rw [run]; simp only [List.foldl_cons, specStep]
        have hidx : idxOf hs.length i false false = (i : Int) := by simp [idxOf]
        rw [hidx, hf1 f (by omega)]
        simp only [Bool.not_false, Bool.and_self, if_true]
        have := hf2 f (by omega)
        simpa [List.append_assoc] using this
      · obtain ⟨f2, hf2⟩ := ih pre tr started ab
        refine ⟨f2 + 1, fun f hge => ?_⟩
        obtain ⟨f', rfl⟩ : ∃ f', f = f' + 1 := ⟨f - 1, by omega⟩
        rw [run]; simp only [List.foldl_cons, specStep]
        have hnot : ¬ (idxOf hs.length i started ab < (hs.length : Int) - 1) := by
          unfold idxOf
          cases ab <;> cases started <;> simp at hc ⊢ <;> omega
        rw [next_done hs f' _ hnot]
        have hcond : (!started && !ab) = false := by
          cases ab <;> cases started <;> simp at hc ⊢
        simp only [hcond]
        exact hf2 (f'+1) (by omega)

theorem next_eq_onion (hs : List Handler) (hlen : hs.length ≤ 63) :
    ∀ (k i : Nat), i + k = hs.length → ∀ tr, ∃ f0, ∀ f, f0 ≤ f →
      next hs f ⟨(i : Int) - 1, tr⟩ =
        some ⟨idxOf hs.length i true (onion i (hs.drop i)).2, tr ++ (onion i (hs.drop i)).1⟩ := by
  intro k
  induction k with
  | zero =>
    intro i hik tr
    refine ⟨1, fun f hge => ?_⟩
    obtain ⟨f', rfl⟩ : ∃ f', f = f' + 1 := ⟨f - 1, by omega⟩
    have hi : i = hs.length := by omega
    subst hi
    rw [next_done _ _ _ (by simp)]
    simp [onion, idxOf]
  | succ k ih =>
    intro i hik tr
    have hi : i < hs.length := by omega
    have hdrop : hs.drop i = hs[i] :: hs.drop (i+1) := by
      exact List.drop_eq_getElem_cons hi
    have IH := ih (i+1) (by omega)
    have IH' : ∀ tr, ∃ f0, ∀ f, f0 ≤ f →
        next hs f ⟨(i : Int), tr⟩ =
          some ⟨idxOf hs.length i true (onion (i+1) (hs.drop (i+1))).2,
                tr ++ (onion (i+1) (hs.drop (i+1))).1⟩ := by
      intro tr
      obtain ⟨f0, hf⟩ := IH tr
      refine ⟨f0, fun f hge => ?_⟩
      have := hf f hge
      have e : ((i + 1 : Nat) : Int) - 1 = (i : Int) := by omega
      rw [e] at this
      simpa [idxOf] using this
    let R := onion (i+1) (hs.drop (i+1))
    obtain ⟨f1, hf1⟩ := run_spec hs hlen i hi R IH' hs[i] (tr ++ [.enter i]) [] false false
    let acc := hs[i].foldl (specStep i R) ([], false, false)
    obtain ⟨f2, hf2⟩ := IH' (tr ++ [.enter i] ++ acc.1 ++ [.leave i])
    refine ⟨max f1 f2 + 2, fun f hge => ?_⟩
    obtain ⟨f', rfl⟩ : ∃ f', f = f' + 1 := ⟨f - 1, by omega⟩
    rw [next]
    have hlt : ((i : Int) - 1) < (hs.length : Int) - 1 := by omega
    have hj : (i : Int) - 1 + 1 = (i : Int) := by omega
    simp only [hlt, if_true, hj, Int.toNat_natCast, Int.natCast_nonneg, List.getElem?_eq_getElem hi]
    have h1 := hf1 f' (by omega)
    simp only [idxOf, Bool.false_eq_true, if_false, List.append_nil] at h1
    rw [h1]
    simp only [onion, hdrop]
    by_cases hc : acc.2.1 = false ∧ acc.2.2 = false
    · obtain ⟨hs1, hs2⟩ := hc
      have hcond : (!acc.2.1 && !acc.2.2) = true := by simp [hs1, hs2]
      have hidx : idxOf hs.length i acc.2.1 acc.2.2 = (i : Int) := by simp [idxOf, hs1, hs2]
      show next hs f' ⟨idxOf hs.length i acc.2.1 acc.2.2, _⟩ = _
      rw [hidx]
      have := hf2 f' (by omega)
      simp only [List.append_assoc] at this ⊢
      rw [this]
      simp [hcond, R, acc]
    · have hcond : (!acc.2.1 && !acc.2.2) = false := by
        revert hc; cases acc.2.1 <;> cases acc.2.2 <;> simp
      have hnot : ¬ (idxOf hs.length i acc.2.1 acc.2.2 < (hs.length : Int) - 1) := by
        unfold idxOf
        revert hc; cases acc.2.1 <;> cases acc.2.2 <;> simp <;> omega
      obtain ⟨f'', rfl⟩ : ∃ f'', f' = f'' + 1 := ⟨f' - 1, by omega⟩
      show next hs (f''+1) ⟨idxOf hs.length i acc.2.1 acc.2.2, _⟩ = _
      rw [next_done _ _ _ hnot]
      have hidx : idxOf hs.length i acc.2.1 acc.2.2 = idxOf hs.length i true acc.2.2 := by
        unfold idxOf
        revert hc; cases acc.2.1 <;> cases acc.2.2 <;> simp
      simp [hcond, R, acc, List.append_assoc, hidx]

/-- the cursor loop produces exactly the onion trace, for every chain of at most 63 handlers -/
theorem chain_runs_onion (hs : List Handler) (hlen : hs.length ≤ 63) :
    ∃ f0, ∀ f, f0 ≤ f → serve hs f = some (onion 0 hs).1 := by
  obtain ⟨f0, hf⟩ := next_eq_onion hs hlen hs.length 0 (by omega) []
  refine ⟨f0, fun f hge => ?_⟩
  have := hf f hge
  simp at this
  simp [serve, this]

/-! ## §B  handlers that never call `Next` -/

/-- the handler never calls `c.Next()` -/
def Flat (h : Handler) : Prop := Act.next ∉ h

/-- the handler calls `c.Abort()` somewhere -/
def hasAbort (h : Handler) : Bool := h.any fun a => match a with | .abort => true | _ => false

/-- the effects of a handler at chain position `i`, in program order -/
def emits (i : Nat) : Handler → List Ev
  | [] => []
  | .emit o :: t => .out i o :: emits i t
  | _ :: t => emits i t

theorem foldl_flat (i : Nat) (R : List Ev × Bool) (h : Handler) (hf : Flat h) :
    ∀ (tr : List Ev) (ab : Bool),
      h.foldl (specStep i R) (tr, false, ab) = (tr ++ emits i h, false, ab || hasAbort h) := by
  induction h with
  | nil => intro tr ab; simp [emits, hasAbort]
  | cons a t ih =>
    intro tr ab
    have hft : Flat t := fun hm => hf (List.mem_cons_of_mem _ hm)
    cases a with
    | emit o =>
      simp only [List.foldl_cons, specStep]
      rw [ih hft]
      simp [emits, hasAbort]
    | abort =>
      simp only [List.foldl_cons, specStep]
      rw [ih hft]
      simp [emits, hasAbort]
    | next => exact absurd (List.mem_cons_self) hf

/-- a handler that never calls `Next`: its effects happen once, in order, between `enter` and `leave`;
    the rest of the chain then runs (from the enclosing `Next` loop) iff the handler did not abort -/
theorem onion_flat (i : Nat) (h : Handler) (rest : List Handler) (hf : Flat h) :
    onion i (h :: rest) =
      if hasAbort h then ([Ev.enter i] ++ emits i h ++ [Ev.leave i], true)
      else ([Ev.enter i] ++ emits i h ++ [Ev.leave i] ++ (onion (i+1) rest).1, (onion (i+1) rest).2) := by
  simp only [onion]
  rw [foldl_flat i _ h hf]
  cases hasAbort h <;> simp

theorem flat_wrapHTTPHandler (effects : List Out) : Flat (wrapHTTPHandler effects) := by
  simp [Flat, wrapHTTPHandler]

theorem hasAbort_wrapHTTPHandler (effects : List Out) : hasAbort (wrapHTTPHandler effects) = false := by
  simp [hasAbort, wrapHTTPHandler]

theorem emits_wrapHTTPHandler (i : Nat) (effects : List Out) :
    emits i (wrapHTTPHandler effects) = effects.map (Ev.out i) := by
  induction effects with
  | nil => rfl
  | cons o t ih => simp only [wrapHTTPHandler, List.map_cons, emits] at ih ⊢; rw [ih]

/-- every event of the onion of a chain starting at position `i` belongs to a position `≥ i`, and a
    non-empty chain starts with `enter i` -/
theorem onion_head (i : Nat) (h : Handler) (rest : List Handler) :
    ∃ t, (onion i (h :: rest)).1 = Ev.enter i :: t := by
  simp only [onion]
  split <;> simp

/-! ## §C  `WrapHTTPHandlers` is a right fold -/

/-- `w₁ (w₂ (… (wₙ r)))` -/
def nest {α : Type} (ws : List (α → α)) (r : α) : α := ws.foldr (fun w acc => w acc) r

theorem wrap_loop {α : Type} (pre : List (α → α)) (r : α) :
    ∀ k, k ≤ pre.length →
      (List.range k).foldl (wrapStep pre r) none =
        if k = 0 then none else some (nest (pre.drop (pre.length - k)) r) := by
  intro k
  induction k with
  | zero => intro _; simp
  | succ k ih =>
    intro hk
    rw [List.range_succ, List.foldl_append, ih (by omega)]
    simp only [List.foldl_cons, List.foldl_nil, Nat.succ_ne_zero, if_false]
    have hlt : pre.length - k - 1 < pre.length := by omega
    have hdrop : pre.drop (pre.length - (k+1)) = pre[pre.length - k - 1] :: pre.drop (pre.length - k) := by
      have : pre.length - (k+1) = pre.length - k - 1 := by omega
      rw [this, List.drop_eq_getElem_cons hlt]
      congr 2; omega
    unfold wrapStep
    rw [List.getElem?_eq_getElem hlt, hdrop]
    by_cases h0 : k = 0
    · subst h0
      simp [nest]
    · simp [h0, nest]

theorem wrapHTTPHandlers_eq {α : Type} (pre : List (α → α)) (r : α) :
    wrapHTTPHandlers pre r = if pre = [] then none else some (nest pre r) := by
  unfold wrapHTTPHandlers
  rw [wrap_loop pre r pre.length (Nat.le_refl _)]
  cases pre with
  | nil => simp
  | cons a t => simp


/-! ## §D  the override value, base64 round trip, `parseBasicAuth ∘ SetBasicAuth` -/

theorem om_eq (form hdr : Bytes) :
    (if (if form = [] then hdr else form) ≠ [] then Bytes.toUpper (if form = [] then hdr else form)
          else (if form = [] then hdr else form)) = Bytes.toUpper (if form ≠ [] then form else hdr) := by
  by_cases hf : form = []
  · subst hf
    by_cases hh : hdr = []
    · subst hh; simp [Bytes.toUpper]
    · simp [hh]
  · simp [hf]

theorem mo_post (form hdr : Bytes) :
    methodOverride POST form hdr =
      if Bytes.toUpper (if form ≠ [] then form else hdr) = PUT ∨
         Bytes.toUpper (if form ≠ [] then form else hdr) = PATCH ∨
         Bytes.toUpper (if form ≠ [] then form else hdr) = DELETE
      then (Bytes.toUpper (if form ≠ [] then form else hdr), some POST) else (POST, none) := by
  unfold methodOverride
  simp only [if_true, om_eq]


theorem b64val_chr (v : Nat) (h : v < 64) : b64val (b64chr v) = some v := by
  unfold b64chr b64val
  split
  · rw [if_pos (by omega)]; exact congrArg some (by omega)
  · split
    · rw [if_neg (by omega), if_pos (by omega)]; exact congrArg some (by omega)
    · split
      · rw [if_neg (by omega), if_neg (by omega), if_pos (by omega)]; exact congrArg some (by omega)
      · split
        · subst_vars; simp
        · have : v = 63 := by omega
          subst this; simp

theorem b64chr_ok (v : Nat) (h : v < 64) : b64chr v ≠ 61 ∧ b64chr v ≠ 10 ∧ b64chr v ≠ 13 := by
  unfold b64chr
  split
  · omega
  · split
    · omega
    · split
      · omega
      · split <;> omega

theorem dec4 (a b c d : Nat) (rest : List Nat) (hd : d ≠ 61) :
    b64decodeCore (a :: b :: c :: d :: rest) =
      match b64val a, b64val b, b64val c, b64val d, b64decodeCore rest with
      | some x, some y, some z, some w, some r =>
        some ((x * 4 + y / 16) % 256 :: ((y % 16) * 16 + z / 4) % 256 :: ((z % 4) * 64 + w) % 256 :: r)
      | _, _, _, _, _ => none := by
  rw [b64decodeCore]
  all_goals first | rfl | (intros; omega)

theorem b64_roundtrip : ∀ (s : Bytes), (∀ b ∈ s, b < 256) → b64decodeCore (b64encode s) = some s := by
  intro s
  fun_induction b64encode s with
  | case1 => intro _; rfl
  | case2 a =>
    intro h
    have ha : a < 256 := h a (by simp)
    have h1 := b64val_chr (a / 4) (by omega)
    have h2 := b64val_chr ((a % 4) * 16) (by omega)
    simp only [b64decodeCore, h1, h2]
    congr 2; omega
  | case3 a b =>
    intro h
    have ha : a < 256 := h a (by simp)
    have hb : b < 256 := h b (by simp)
    have h1 := b64val_chr (a / 4) (by omega)
    have h2 := b64val_chr ((a % 4) * 16 + b / 16) (by omega)
    have h3 := b64val_chr ((b % 16) * 4) (by omega)
    have n3 := (b64chr_ok ((b % 16) * 4) (by omega)).1
    rw [b64decodeCore]
    · simp only [h1, h2, h3]
      congr 2
      · omega
      · congr 1; omega
    · intro hc; exact absurd hc n3
  | case4 a b c rest ih =>
    intro h
    have ha : a < 256 := h a (by simp)
    have hb : b < 256 := h b (by simp)
    have hc : c < 256 := h c (by simp)
    have h1 := b64val_chr (a / 4) (by omega)
    have h2 := b64val_chr ((a % 4) * 16 + b / 16) (by omega)
    have h3 := b64val_chr ((b % 16) * 4 + c / 64) (by omega)
    have h4 := b64val_chr (c % 64) (by omega)
    have n4 := (b64chr_ok (c % 64) (by omega)).1
    rw [dec4 _ _ _ _ _ n4, h1, h2, h3, h4, ih (fun x hx => h x (by simp [hx]))]
    simp only
    congr 2
    · omega
    · congr 1
      · omega
      · congr 1; omega

theorem b64encode_chars : ∀ (s : Bytes), (∀ b ∈ s, b < 256) → ∀ c ∈ b64encode s, c ≠ 10 ∧ c ≠ 13 := by
  intro s
  fun_induction b64encode s with
  | case1 => intro _ c hc; simp at hc
  | case2 a =>
    intro h c hc
    have ha : a < 256 := h a (by simp)
    have o1 := b64chr_ok (a / 4) (by omega)
    have o2 := b64chr_ok ((a % 4) * 16) (by omega)
    simp only [List.mem_cons, List.not_mem_nil, or_false] at hc
    rcases hc with rfl | rfl | rfl | rfl
    · exact o1.2
    · exact o2.2
    · omega
    · omega
  | case3 a b =>
    intro h c hc
    have ha : a < 256 := h a (by simp)
    have hb : b < 256 := h b (by simp)
    have o1 := b64chr_ok (a / 4) (by omega)
    have o2 := b64chr_ok ((a % 4) * 16 + b / 16) (by omega)
    have o3 := b64chr_ok ((b % 16) * 4) (by omega)
    simp only [List.mem_cons, List.not_mem_nil, or_false] at hc
    rcases hc with rfl | rfl | rfl | rfl
    · exact o1.2
    · exact o2.2
    · exact o3.2
    · omega
  | case4 a b c rest ih =>
    intro h x hx
    have ha : a < 256 := h a (by simp)
    have hb : b < 256 := h b (by simp)
    have hc : c < 256 := h c (by simp)
    have o1 := b64chr_ok (a / 4) (by omega)
    have o2 := b64chr_ok ((a % 4) * 16 + b / 16) (by omega)
    have o3 := b64chr_ok ((b % 16) * 4 + c / 64) (by omega)
    have o4 := b64chr_ok (c % 64) (by omega)
    simp only [List.mem_cons] at hx
    rcases hx with rfl | rfl | rfl | rfl | hx
    · exact o1.2
    · exact o2.2
    · exact o3.2
    · exact o4.2
    · exact ih (fun y hy => h y (by simp [hy])) x hx

theorem b64decode_encode (s : Bytes) (h : ∀ b ∈ s, b < 256) : b64decode (b64encode s) = some s := by
  unfold b64decode
  have : (b64encode s).filter (fun c => !(c = 10 || c = 13)) = b64encode s := by
    apply List.filter_eq_self.mpr
    intro c hc
    have := b64encode_chars s h c hc
    simp [this.1, this.2]
  rw [this, b64_roundtrip s h]

theorem indexByte_append (u p : Bytes) (c : Nat) (hu : c ∉ u) :
    Bytes.indexByte (u ++ c :: p) c = some u.length := by
  induction u with
  | nil => simp [Bytes.indexByte]
  | cons a t ih =>
    have hne : ¬ a = c := fun h => hu (by simp [h])
    have ht : c ∉ t := fun h => hu (List.mem_cons_of_mem _ h)
    simp [Bytes.indexByte, hne, ih ht]

theorem cutColon_join (u p : Bytes) (hu : 58 ∉ u) : cutColon (u ++ [58] ++ p) = some (u, p) := by
  unfold cutColon
  have : u ++ [58] ++ p = u ++ 58 :: p := by simp
  rw [this, indexByte_append u p 58 hu]
  simp

theorem parse_set (u p : Bytes) (hb : ∀ b ∈ u ++ [58] ++ p, b < 256) (hu : 58 ∉ u) :
    requestBasicAuth (some (setBasicAuth u p)) = some (u, p) := by
  unfold requestBasicAuth setBasicAuth
  have hne : basicPrefix ++ b64encode (u ++ [58] ++ p) ≠ [] := by simp [basicPrefix]
  simp only [hne, if_false]
  unfold parseBasicAuth
  have hlen : ¬ (basicPrefix ++ b64encode (u ++ [58] ++ p)).length < basicPrefix.length := by
    simp
  have htake : (basicPrefix ++ b64encode (u ++ [58] ++ p)).take basicPrefix.length = basicPrefix := by
    simp
  have hdrop : (basicPrefix ++ b64encode (u ++ [58] ++ p)).drop basicPrefix.length
      = b64encode (u ++ [58] ++ p) := by simp
  have hfold : equalFold basicPrefix basicPrefix = true := by decide
  simp only [htake, hdrop, hfold, hlen, decide_false, Bool.not_true, Bool.or_self, Bool.false_eq_true, if_false]
  rw [b64decode_encode _ hb]
  exact cutColon_join u p hu
end Rux.Gates
