import RuxModel.Model.Rest
import RuxModel.Lemmas.Reg
/-
  Lemmas for C16: the routes `Resource` registers are the documented rows.
-/
namespace Rux.Reg

/-- the suffixes of the documented table, per action -/
def Action.docPath : Action → String
  | .aIndex => "" | .aStore => "" | .aCreate => "/create" | .aEdit => "/{id}/edit"
  | .aShow => "/{id}" | .aUpdate => "/{id}" | .aDelete => "/{id}"

theorem docTable_eq : docTable = Action.all.map fun a => (a, a.methods, a.docPath, a.lname) := by decide

/-- the documented row of one action -/
def rowOf (G res : Bytes) (a : Action) : Triple :=
  (a.methods.map ascii, G ++ ascii a.docPath, res ++ ascii "_" ++ ascii a.lname)

theorem docRows_eq (G res : Bytes) (S : List Action) :
    docRows G res S = (Action.all.filter fun a => decide (a ∈ S)).map (rowOf G res) := by
  simp only [docRows, docTable_eq, List.filter_map, List.map_map]
  rfl

/-- the definition `Resource` hands to `AddNamed`/`Use` for one action -/
def restDef (rd : ResDef) (a : Action) : RouteDef :=
  { id := rd.rid + a.idx, main := rd.rid + a.idx
    name := rd.resName ++ ascii "_" ++ ascii a.lname
    methods := a.methods.map ascii
    path := ascii a.relPath
    pre := []
    post := match rd.uses.lookup a with
      | some hs => [hs]
      | none => [] }

theorem restRoutes_eq (rd : ResDef) :
    restRoutes rd = (rd.order.filter fun a => decide (a ∈ rd.impl)).map (restDef rd) := rfl

theorem storedPath_rest {cfg : Cfg} {G : Bytes} (hp : RestPaths cfg G) (a : Action) :
    storedPath cfg G (ascii a.relPath) = G ++ ascii a.docPath := by
  cases a
  · simpa [Action.relPath, Action.docPath, ascii] using hp.root
  · exact hp.create
  · simpa [Action.relPath, Action.docPath, ascii] using hp.root
  · exact hp.item
  · exact hp.edit
  · exact hp.item
  · exact hp.item

theorem triple_mkRoute {cfg : Cfg} (sc : Scope) (hp : RestPaths cfg sc.pfx) (rd : ResDef) (a : Action) :
    (mkRoute cfg sc (restDef rd a)).triple = rowOf sc.pfx rd.resName a := by
  simp only [mkRoute, Route.triple, restDef, rowOf, storedPath_rest hp a]

/-- the routes a valid `Resource` call adds -/
theorem resource_routes {cfg : Cfg} {st st' : RS} {rd : ResDef} {mws : List H}
    (h : exec cfg st (.resource rd mws) = .ok st') :
    st'.routes = st.routes ++
      (rd.order.filter fun a => decide (a ∈ rd.impl)).map
        fun a => mkRoute cfg (enterScope cfg st.toScope (rd.base ++ rd.resName) mws) (restDef rd a) := by
  have := exec_den cfg st st' _ h
  subst this
  simp [RS.plus, den, restRoutes_eq, List.map_map]


theorem isFixed_append (a b : Bytes) : isFixed (a ++ b) = (isFixed a && isFixed b) := by
  simp only [isFixed, List.contains_append]
  cases a.contains 123 <;> cases a.contains 91 <;> cases b.contains 123 <;> cases b.contains 91 <;> rfl

theorem beq_append_self_ne (G x : Bytes) (hx : x ≠ []) : (G == G ++ x) = false := by
  apply Bool.eq_false_iff.mpr
  intro h
  have := congrArg List.length (beq_iff_eq.mp h)
  simp at this
  exact hx this

theorem beq_append_ne_self (G x : Bytes) (hx : x ≠ []) : (G ++ x == G) = false := by
  apply Bool.eq_false_iff.mpr
  intro h
  have := congrArg List.length (beq_iff_eq.mp h)
  simp at this
  exact hx this

/-- among the routes of one resource under a variable-free prefix, the static entry for
    `GET G/create` is the create route alone -/
theorem static_create {cfg : Cfg} (sc : Scope) (hp : RestPaths cfg sc.pfx) (hG : isFixed sc.pfx = true)
    (rd : ResDef) (a : Action) :
    (isFixed (mkRoute cfg sc (restDef rd a)).path && (mkRoute cfg sc (restDef rd a)).methods.contains (ascii "GET") &&
      (mkRoute cfg sc (restDef rd a)).path == sc.pfx ++ ascii "/create") = decide (a = .aCreate) := by
  simp only [mkRoute, restDef, storedPath_rest hp a]
  cases a
  · -- index: path G
    have : (sc.pfx ++ ascii Action.aIndex.docPath == sc.pfx ++ ascii "/create") = false := by
      have e : sc.pfx ++ ascii Action.aIndex.docPath = sc.pfx := by simp [Action.docPath, ascii]
      rw [e]; exact beq_append_self_ne _ _ (by decide)
    simp [this]
  · have h1 : isFixed (sc.pfx ++ ascii Action.aCreate.docPath) = true := by
      rw [isFixed_append, hG]; decide
    have h2 : ((Action.aCreate.methods.map ascii).contains (ascii "GET")) = true := by decide
    have h3 : (sc.pfx ++ ascii Action.aCreate.docPath == sc.pfx ++ ascii "/create") = true := by
      simp [Action.docPath]
    rw [h1, h2, h3]; rfl
  · have h2 : ((Action.aStore.methods.map ascii).contains (ascii "GET")) = false := by decide
    rw [h2]; simp
  · have h1 : isFixed (sc.pfx ++ ascii Action.aShow.docPath) = false := by
      rw [isFixed_append, hG]; decide
    simp [h1]
  · have h1 : isFixed (sc.pfx ++ ascii Action.aEdit.docPath) = false := by
      rw [isFixed_append, hG]; decide
    simp [h1]
  · have h1 : isFixed (sc.pfx ++ ascii Action.aUpdate.docPath) = false := by
      rw [isFixed_append, hG]; decide
    simp [h1]
  · have h1 : isFixed (sc.pfx ++ ascii Action.aDelete.docPath) = false := by
      rw [isFixed_append, hG]; decide
    simp [h1]

theorem filter_eq_create {l : List Action} (hl : l.Perm Action.all) (impl : List Action) (hc : Action.aCreate ∈ impl) :
    (l.filter fun a => decide (a ∈ impl)).filter (fun a => decide (a = .aCreate)) = [.aCreate] := by
  rw [List.filter_filter]
  have h1 : (l.filter fun a => decide (a = .aCreate) && decide (a ∈ impl)) =
      l.filter fun a => decide (a = .aCreate) := by
    apply List.filter_congr
    intro x _
    by_cases hx : x = .aCreate
    · subst hx; simp [hc]
    · simp [hx]
  rw [h1]
  have := hl.filter (fun a => decide (a = Action.aCreate))
  have e : Action.all.filter (fun a => decide (a = Action.aCreate)) = [.aCreate] := by decide
  rw [e] at this
  exact List.perm_singleton.mp this

/-! ### the driver's path functions meet `RestPaths` under every clean prefix -/

theorem trimRight_slash (G : Bytes) (hG : CleanPath G) : Bytes.trimRightByte 47 (G ++ [47]) = G := by
  obtain ⟨c, rest, rfl, _, hl⟩ := hG
  have hl' : (47 :: c :: rest).getLast? ≠ some 47 := by simpa [List.getLast?_cons_cons] using hl
  have ht := trimRight_clean (l := 47 :: c :: rest) (by simp) hl'
  unfold Bytes.trimRightByte at ht ⊢
  have : (47 :: c :: rest ++ [47]).reverse = 47 :: (47 :: c :: rest).reverse := by simp
  rw [this]
  simp only [Bytes.trimLeftByte, if_true]
  exact ht

theorem cleanFmt_slash (G : Bytes) (hG : CleanPath G) : cleanFmt (G ++ [47]) = G := by
  have hG' := hG
  obtain ⟨c, rest, rfl, hc, _⟩ := hG
  unfold cleanFmt
  rw [if_neg (by simp)]
  simp only
  rw [trimRight_slash _ hG']
  rw [if_neg (by simp)]
  simp [Bytes.trimLeftByte, hc]

theorem restPaths_clean (limit : Nat) (G : Bytes) (hG : CleanPath G) : RestPaths (cleanCfg limit) G := by
  have hne : G ≠ [] := by obtain ⟨c, rest, rfl, _, _⟩ := hG; simp
  have cat := fun (x : Bytes) (hx : CleanPath x) => cleanFmt_fix (G ++ x) (cleanPath_cat G x hG hx)
  refine ⟨?_, ?_, ?_, ?_⟩
  · have e : cleanFmt (cleanSfmt (ascii "/")) = [47] := by decide
    simp only [storedPath, cleanCfg, hne, ne_eq, not_false_eq_true, if_true, e]
    exact cleanFmt_slash G hG
  · have e : cleanFmt (cleanSfmt (ascii "/create/")) = ascii "/create" := by decide
    simp only [storedPath, cleanCfg, hne, ne_eq, not_false_eq_true, if_true, e]
    exact cat _ (by decide)
  · have e : cleanFmt (cleanSfmt (ascii "{id}/")) = ascii "/{id}" := by decide
    simp only [storedPath, cleanCfg, hne, ne_eq, not_false_eq_true, if_true, e]
    exact cat _ (by decide)
  · have e : cleanFmt (cleanSfmt (ascii "{id}/edit/")) = ascii "/{id}/edit" := by decide
    simp only [storedPath, cleanCfg, hne, ne_eq, not_false_eq_true, if_true, e]
    exact cat _ (by decide)


end Rux.Reg
