import RuxModel.Model.Conc
import RuxModel.Lemmas.Cache
/-
  Helper lemmas for C03.
  1. the abstract schedule lemma (DESIGN-prototypes.md §5, generalised by a normalisation of the local
     state and a local invariant: what the cache answered may differ between schedules until the request's
     next step);
  2. the instance obligations for the rux step function.
  Property theorems are in Props/C03.lean.
-/
namespace Rux.Conc

/-! ### 1. abstract systems -/

/-- A system of requests sharing a state `C`; each request has a local state `L`. -/
structure Sys (C L : Type) where
  step : C → L → C × L           -- one atomic step of one request
  norm : L → L                   -- the part of the local state that matters
  stepPure : L → L               -- what that step does when the request is alone
  Coh : C → Prop                 -- invariant of the shared state
  LInv : L → Prop                -- invariant of a local state
  coh_step : ∀ c l, Coh c → LInv l → Coh (step c l).1
  linv_step : ∀ c l, Coh c → LInv l → LInv (step c l).2
  indep : ∀ c l, Coh c → LInv l → norm (step c l).2 = stepPure (norm l)

namespace Sys
variable {C L : Type} (S : Sys C L)

def run (n : Nat) : List (Fin n) → C × (Fin n → L) → C × (Fin n → L)
  | [], st => st
  | i :: rest, (c, ls) =>
    let r := S.step c (ls i)
    run n rest (r.1, fun j => if j = i then r.2 else ls j)

theorem run_independent (n : Nat) (sch : List (Fin n)) :
    ∀ (c : C) (ls : Fin n → L), S.Coh c → (∀ i, S.LInv (ls i)) →
      S.Coh (S.run n sch (c, ls)).1 ∧ (∀ i, S.LInv ((S.run n sch (c, ls)).2 i)) ∧
      ∀ i, S.norm ((S.run n sch (c, ls)).2 i) = iter S.stepPure (count i sch) (S.norm (ls i)) := by
  induction sch with
  | nil => intro c ls h hl; exact ⟨h, hl, fun i => rfl⟩
  | cons j rest ih =>
    intro c ls h hl
    have hc := S.coh_step c (ls j) h (hl j)
    have hlj := S.linv_step c (ls j) h (hl j)
    have hi := S.indep c (ls j) h (hl j)
    have hl' : ∀ k, S.LInv ((fun k => if k = j then (S.step c (ls j)).2 else ls k) k) := by
      intro k
      by_cases hk : k = j
      · simp [hk]; exact hlj
      · simp [hk]; exact hl k
    obtain ⟨h1, h2, h3⟩ := ih (S.step c (ls j)).1 (fun k => if k = j then (S.step c (ls j)).2 else ls k) hc hl'
    refine ⟨h1, h2, fun i => ?_⟩
    simp only [run]
    rw [h3 i]
    by_cases hij : i = j
    · subst hij
      simp [count, List.filter, iter, hi]
    · have hji : ¬ j = i := fun h => hij h.symm
      simp [count, List.filter, hij, hji]

end Sys

/-! ### 2. the rux instance -/

/-- what a request remembers of a cache hit is what the pure tables say for that key -/
def LInv (cfg : Cfg) (l : Local) : Prop :=
  ∀ st v, l.pc = .got st (some v) → cfg.dyn (keyOf l st) = some v

/-- the shared invariant: nothing registered has changed and the cache is coherent with the pure tables -/
def Coh (cfg : Cfg) (s0 : Static) (sh : Shared) : Prop :=
  sh.static = s0 ∧ Cache.Coherent cfg.dyn sh.cache

theorem init_pristine (c : Ctx) : c.init = Ctx.pristine := by
  cases c; rfl

/-! the control-flow helpers never produce a `got` state and do not look at the pc -/

theorem nextAllow_pc (l : Local) (found todo : List Bytes) (st : Stage) (r : Option CVal) :
    (nextAllow l found todo).pc ≠ .got st r := by
  unfold nextAllow
  split
  · simp
  · split <;> simp

theorem afterMatch_pc (cfg : Cfg) (l : Local) (st : Stage) (r : Option CVal) :
    (afterMatch cfg l).pc ≠ .got st r := by
  unfold afterMatch
  split
  · simp
  · split
    · exact nextAllow_pc _ _ _ _ _
    · simp

theorem onFound_pc (l : Local) (st : Stage) (rt : Nat) (ps : Option Params) (st' : Stage) (r : Option CVal) :
    (onFound l st rt ps).pc ≠ .got st' r := by
  unfold onFound
  split
  · simp
  · simp
  · exact nextAllow_pc _ _ _ _ _

theorem onNone_pc (cfg : Cfg) (l : Local) (st : Stage) (st' : Stage) (r : Option CVal) :
    (onNone cfg l st).pc ≠ .got st' r := by
  unfold onNone
  split
  · split
    · simp
    · exact afterMatch_pc _ _ _ _
  · exact afterMatch_pc _ _ _ _
  · exact nextAllow_pc _ _ _ _ _

theorem norm_of_not_got (l : Local) (h : ∀ st r, l.pc ≠ .got st r) : norm l = l := by
  unfold norm
  split
  · rename_i st r hp; exact absurd hp (h st r)
  · rfl

theorem nextAllow_setpc (l : Local) (p : Pc) (found todo : List Bytes) :
    nextAllow { l with pc := p } found todo = nextAllow l found todo := by
  unfold nextAllow
  split
  · rfl
  · split <;> rfl

theorem afterMatch_setpc (cfg : Cfg) (l : Local) (p : Pc) :
    afterMatch cfg { l with pc := p } = afterMatch cfg l := by
  unfold afterMatch
  simp only [nextAllow_setpc]

theorem onFound_setpc (l : Local) (p : Pc) (st : Stage) (rt : Nat) (ps : Option Params) :
    onFound { l with pc := p } st rt ps = onFound l st rt ps := by
  unfold onFound
  cases st <;> simp only [nextAllow_setpc]

theorem onNone_setpc (cfg : Cfg) (l : Local) (p : Pc) (st : Stage) :
    onNone cfg { l with pc := p } st = onNone cfg l st := by
  unfold onNone
  cases st <;> simp only [nextAllow_setpc, afterMatch_setpc]

theorem keyOf_setpc (l : Local) (p : Pc) (st : Stage) : keyOf { l with pc := p } st = keyOf l st := by
  cases st <;> rfl

/-- a local state whose pc is not `got` satisfies the local invariant -/
theorem linv_of_not_got (cfg : Cfg) (l : Local) (h : ∀ st r, l.pc ≠ .got st r) : LInv cfg l := by
  intro st v hp; exact absurd hp (h st (some v))

theorem assemble_pc (s : Static) (l : Local) (sel : Sel) (st : Stage) (r : Option CVal) :
    (assemble s l sel).pc ≠ .got st r := by
  unfold assemble
  cases sel with
  | route rt =>
    simp only
    split <;> simp
  | notAllowed => simp
  | notFound => simp

theorem setStatus_pc (l : Local) (c : Nat) : (setStatus l c).pc = l.pc := by
  unfold setStatus; split <;> rfl

theorem ensureHeader_pc (l : Local) : (ensureHeader l).pc = l.pc := by
  unfold ensureHeader; split <;> rfl

theorem writeBody_pc (l : Local) (b : Bytes) : (writeBody l b).pc = l.pc := by
  unfold writeBody; simp [ensureHeader_pc]

theorem exec_pc (l : Local) (a : Act) : (exec l a).pc = l.pc := by
  cases a <;> simp only [exec, setStatus_pc, writeBody_pc]
  · split <;> rfl
  · split
    · simp [setStatus_pc]
    · simp [writeBody_pc, setStatus_pc]

/-- inside `Next()` the pc stays `running` or becomes `crashed` -/
theorem stepRun_pc (cfg : Cfg) (l : Local) (h : l.pc = .running) (st : Stage) (r : Option CVal) :
    (stepRun cfg l).pc ≠ .got st r := by
  unfold stepRun
  split
  · rw [h]; simp
  · simp only
    split
    · split
      · simp
      · split <;> simp [h]
    · simp [h]
  · simp [h]
  · rw [exec_pc]; simp [h]

theorem finish_pc (l : Local) : (finish l).pc = .done := rfl

/-! #### the three obligations -/

theorem step_coh (cfg : Cfg) (s0 : Static) (sh : Shared) (l : Local)
    (hc : Coh cfg s0 sh) (_hl : LInv cfg l) : Coh cfg s0 (step cfg sh l).1 := by
  obtain ⟨hs, hcc⟩ := hc
  unfold step
  split
  · exact ⟨hs, hcc⟩
  · split
    · exact ⟨hs, hcc⟩
    · split
      · exact ⟨hs, (Cache.get_coherent cfg.dyn sh.cache _ hcc).2⟩
      · exact ⟨hs, hcc⟩
  · exact ⟨hs, hcc⟩
  · split
    · rename_i v hd
      split
      · exact ⟨hs, Cache.set_coherent cfg.dyn sh.cache _ v hcc hd⟩
      · exact ⟨hs, hcc⟩
    · exact ⟨hs, hcc⟩
  · exact ⟨hs, hcc⟩
  · split
    · exact ⟨hs, hcc⟩
    · exact ⟨hs, hcc⟩
  · exact ⟨hs, hcc⟩
  · exact ⟨hs, hcc⟩

theorem step_linv (cfg : Cfg) (s0 : Static) (sh : Shared) (l : Local)
    (hc : Coh cfg s0 sh) (_hl : LInv cfg l) : LInv cfg (step cfg sh l).2 := by
  obtain ⟨hs, hcc⟩ := hc
  unfold step
  split
  · exact linv_of_not_got _ _ (by simp)
  · rename_i st hp
    split
    · exact linv_of_not_got _ _ (onFound_pc _ _ _ _)
    · split
      · intro st' v hpv
        simp only [Pc.got.injEq] at hpv
        obtain ⟨rfl, hv⟩ := hpv
        rw [keyOf_setpc]
        exact (Cache.get_coherent cfg.dyn sh.cache _ hcc).1 v hv
      · intro st' v hpv
        simp at hpv
  · exact linv_of_not_got _ _ (onFound_pc _ _ _ _)
  · split
    · exact linv_of_not_got _ _ (onFound_pc _ _ _ _)
    · exact linv_of_not_got _ _ (onNone_pc _ _ _)
  · exact linv_of_not_got _ _ (assemble_pc _ _ _)
  · rename_i hp
    split
    · exact linv_of_not_got _ _ (by simp [finish_pc])
    · exact linv_of_not_got _ _ (stepRun_pc cfg l hp)
  · rename_i hp; exact linv_of_not_got _ _ (by simp [hp])
  · rename_i hp; exact linv_of_not_got _ _ (by simp [hp])

theorem step_indep (cfg : Cfg) (s0 : Static) (sh : Shared) (l : Local)
    (hc : Coh cfg s0 sh) (hl : LInv cfg l) : norm (step cfg sh l).2 = stepPure cfg s0 (norm l) := by
  obtain ⟨hs, hcc⟩ := hc
  cases hp : l.pc with
  | fresh =>
    have hn : norm l = l := norm_of_not_got l (by simp [hp])
    rw [hn]
    unfold step stepPure
    simp only [hp, init_pristine]
    exact norm_of_not_got _ (by simp)
  | probe st =>
    have hn : norm l = l := norm_of_not_got l (by simp [hp])
    rw [hn]
    unfold step stepPure
    simp only [hp]
    split
    · exact norm_of_not_got _ (onFound_pc _ _ _ _)
    · split
      · simp [norm]
      · simp [norm]
  | got st res =>
    have hn : norm l = { l with pc := .got st none } := by simp [norm, hp]
    rw [hn]
    unfold stepPure
    simp only [keyOf_setpc, onFound_setpc, onNone_setpc]
    cases res with
    | some v =>
      have hd := hl st v hp
      unfold step
      simp only [hp, hd]
      exact norm_of_not_got _ (onFound_pc _ _ _ _)
    | none =>
      unfold step
      simp only [hp]
      split
      · exact norm_of_not_got _ (onFound_pc _ _ _ _)
      · exact norm_of_not_got _ (onNone_pc _ _ _)
  | assemble sel =>
    have hn : norm l = l := norm_of_not_got l (by simp [hp])
    rw [hn]
    unfold step stepPure
    simp only [hp, hs]
    exact norm_of_not_got _ (assemble_pc _ _ _)
  | running =>
    have hn : norm l = l := norm_of_not_got l (by simp [hp])
    rw [hn]
    unfold step stepPure
    simp only [hp]
    split
    · exact norm_of_not_got _ (by simp [finish_pc])
    · exact norm_of_not_got _ (stepRun_pc cfg l hp)
  | done =>
    have hn : norm l = l := norm_of_not_got l (by simp [hp])
    rw [hn]
    unfold step stepPure
    simp only [hp]
    exact hn
  | crashed =>
    have hn : norm l = l := norm_of_not_got l (by simp [hp])
    rw [hn]
    unfold step stepPure
    simp only [hp]
    exact hn

/-- the rux step function as an abstract system (relative to what registration left behind) -/
def ruxSys (cfg : Cfg) (s0 : Static) : Sys Shared Local where
  step := step cfg
  norm := norm
  stepPure := stepPure cfg s0
  Coh := Coh cfg s0
  LInv := LInv cfg
  coh_step := step_coh cfg s0
  linv_step := step_linv cfg s0
  indep := step_indep cfg s0

theorem ruxSys_run (cfg : Cfg) (s0 : Static) (n : Nat) (sch : List (Fin n)) (st : Shared × (Fin n → Local)) :
    (ruxSys cfg s0).run n sch st = run cfg n sch st := by
  induction sch generalizing st with
  | nil => rfl
  | cons i rest ih =>
    obtain ⟨sh, ls⟩ := st
    simp only [Sys.run, run]
    exact ih _

theorem count_filter_self {n : Nat} (i : Fin n) (sch : List (Fin n)) :
    count i (sch.filter (· = i)) = count i sch := by
  simp [count, List.filter_filter]

/-- a finished request stays as it is -/
theorem stepPure_final (cfg : Cfg) (s : Static) (l : Local) (h : l.isFinal = true) : stepPure cfg s l = l := by
  unfold Local.isFinal at h
  unfold stepPure
  split at h <;> simp_all

theorem iter_fixed {α : Type} (f : α → α) (a : α) (h : f a = a) (k : Nat) : iter f k a = a := by
  induction k with
  | zero => rfl
  | succ k ih => simp [iter, h, ih]

theorem iter_add {α : Type} (f : α → α) (j k : Nat) (a : α) : iter f (j + k) a = iter f k (iter f j a) := by
  induction j generalizing a with
  | zero => simp [iter]
  | succ j ih => rw [Nat.succ_add]; simp [iter, ih]

theorem norm_isFinal (l : Local) : (norm l).isFinal = l.isFinal := by
  unfold norm
  split
  · rename_i hp; simp [Local.isFinal, hp]
  · rfl

theorem norm_of_final (l : Local) (h : l.isFinal = true) : norm l = l := by
  apply norm_of_not_got
  intro st r hp
  simp [Local.isFinal, hp] at h


/-! ### macro steps are sequences of atomic steps -/

/-- k atomic steps of one request -/
def stepN (cfg : Cfg) : Nat → Shared × Local → Shared × Local
  | 0, st => st
  | k + 1, st => stepN cfg k (step cfg st.1 st.2)

theorem runUntilPark_steps (cfg : Cfg) (fuel : Nat) :
    ∀ (sh : Shared) (l : Local), ∃ k, runUntilPark cfg fuel sh l = stepN cfg k (sh, l) := by
  induction fuel with
  | zero => intro sh l; exact ⟨0, rfl⟩
  | succ f ih =>
    intro sh l
    unfold runUntilPark
    split
    · exact ⟨0, rfl⟩
    · obtain ⟨k, hk⟩ := ih (step cfg sh l).1 (step cfg sh l).2
      exact ⟨k + 1, by simp only [stepN]; exact hk⟩

theorem advance_steps (cfg : Cfg) (fuel : Nat) (sh : Shared) (l : Local) :
    ∃ k, advance cfg fuel sh l = stepN cfg k (sh, l) := by
  unfold advance
  split
  · obtain ⟨k, hk⟩ := runUntilPark_steps cfg fuel (step cfg sh l).1 (step cfg sh l).2
    exact ⟨k + 1, by simp only [stepN]; exact hk⟩
  · exact runUntilPark_steps cfg fuel sh l

theorem sliceCells_read (s : Slice) (a : Access) (h : a ∈ sliceCells s) : a.write = false := by
  simp only [sliceCells, List.mem_map] at h
  obtain ⟨i, _, rfl⟩ := h
  rfl

end Rux.Conc
