import RuxModel.Go.Bytes
/-
  Lemmas about the trimming functions of Go/Bytes.lean.

  `dropSpaces f fuel s` with `fuel = s.length` is written `strip f s` here; the facts needed about a
  "head length" function `f` (how many leading bytes form one rune of the cut set) are collected in the
  structure `HeadFn`, so that the three instances (`spaceAtHead`, `spaceAtHeadRev`,
  `spaceOrByteAtHeadRev '/'`) share all generic lemmas.
-/
namespace Rux
namespace Bytes

/-! ### generic: `strip` -/

def strip (f : Bytes → Nat) (s : Bytes) : Bytes := dropSpaces f s.length s

/-- what the generic lemmas need to know about a head-length function -/
structure HeadFn (f : Bytes → Nat) : Prop where
  le : ∀ s, f s ≤ s.length
  /-- a rune found at the head stays there whatever is appended -/
  stable : ∀ s r, 0 < f s → f (s ++ r) = f s

theorem dropSpaces_fuel2 {f : Bytes → Nat} (hf : HeadFn f) :
    ∀ (fuel : Nat) (s : Bytes) (fuel' : Nat), s.length ≤ fuel → s.length ≤ fuel' →
      dropSpaces f fuel s = dropSpaces f fuel' s := by
  intro fuel
  induction fuel with
  | zero =>
    intro s fuel' h _
    have hnil : s = [] := List.eq_nil_of_length_eq_zero (by omega)
    subst hnil
    have h0 : f [] = 0 := by have := hf.le []; simpa using this
    cases fuel' <;> simp [dropSpaces, h0]
  | succ n ih =>
    intro s fuel' h h'
    cases fuel' with
    | zero =>
      have hnil : s = [] := List.eq_nil_of_length_eq_zero (by omega)
      subst hnil
      have h0 : f [] = 0 := by have := hf.le []; simpa using this
      simp [dropSpaces, h0]
    | succ n' =>
      simp only [dropSpaces]
      cases hfs : f s with
      | zero => rfl
      | succ k =>
        simp only
        have hle := hf.le s
        have hl : (s.drop (k + 1)).length ≤ n := by simp [List.length_drop]; omega
        have hl' : (s.drop (k + 1)).length ≤ n' := by simp [List.length_drop]; omega
        exact ih _ _ hl hl'

theorem dropSpaces_fuel {f : Bytes → Nat} (hf : HeadFn f) (fuel : Nat) (s : Bytes)
    (h : s.length ≤ fuel) : dropSpaces f fuel s = dropSpaces f s.length s :=
  dropSpaces_fuel2 hf fuel s s.length h (Nat.le_refl _)

theorem strip_zero {f : Bytes → Nat} {s : Bytes} (h : f s = 0) : strip f s = s := by
  unfold strip
  cases hs : s.length with
  | zero => rfl
  | succ m => simp [dropSpaces, h]

theorem strip_pos {f : Bytes → Nat} (hf : HeadFn f) {s : Bytes} (h : 0 < f s) :
    strip f s = strip f (s.drop (f s)) := by
  unfold strip
  have hle := hf.le s
  cases hs : s.length with
  | zero => omega
  | succ m =>
    simp only [dropSpaces]
    cases hfs : f s with
    | zero => omega
    | succ k =>
      simp only
      apply dropSpaces_fuel hf
      simp [List.length_drop]; omega

theorem strip_nil {f : Bytes → Nat} : strip f [] = [] := rfl

/-- induction along the steps of `strip` -/
theorem strip_induct {f : Bytes → Nat} (hf : HeadFn f) {motive : Bytes → Prop}
    (h0 : ∀ s, f s = 0 → motive s)
    (hstep : ∀ s, 0 < f s → motive (s.drop (f s)) → motive s) : ∀ s, motive s := by
  intro s
  generalize hn : s.length = n
  induction n using Nat.strongRecOn generalizing s with
  | _ n ih =>
    by_cases h : f s = 0
    · exact h0 s h
    · have hpos : 0 < f s := Nat.pos_of_ne_zero h
      apply hstep s hpos
      have hle := hf.le s
      exact ih (s.drop (f s)).length (by simp [List.length_drop]; omega) _ rfl

theorem strip_fix {f : Bytes → Nat} (hf : HeadFn f) (s : Bytes) : f (strip f s) = 0 := by
  induction s using strip_induct hf with
  | h0 s h => rw [strip_zero h]; exact h
  | hstep s h ih => rw [strip_pos hf h]; exact ih

theorem strip_idem {f : Bytes → Nat} (hf : HeadFn f) (s : Bytes) : strip f (strip f s) = strip f s :=
  strip_zero (strip_fix hf s)

/-- the result is a suffix of the argument -/
theorem strip_suffix {f : Bytes → Nat} (hf : HeadFn f) (s : Bytes) : ∃ pre, s = pre ++ strip f s := by
  induction s using strip_induct hf with
  | h0 s h => exact ⟨[], by rw [strip_zero h]; rfl⟩
  | hstep s h ih =>
    obtain ⟨pre, hp⟩ := ih
    refine ⟨s.take (f s) ++ pre, ?_⟩
    rw [strip_pos hf h, List.append_assoc, ← hp, List.take_append_drop]

theorem strip_append {f : Bytes → Nat} (hf : HeadFn f) (s r : Bytes) :
    strip f (s ++ r) = strip f (strip f s ++ r) := by
  induction s using strip_induct hf with
  | h0 s h => rw [strip_zero h]
  | hstep s h ih =>
    have hs := hf.stable s r h
    have hle := hf.le s
    rw [strip_pos hf (by rw [hs]; exact h), hs, strip_pos hf h (s := s)]
    rw [List.drop_append_of_le_length hle]
    exact ih

/-- if `g` cuts at least what `f` cuts, stripping by `f` first changes nothing -/
theorem strip_mono {f g : Bytes → Nat} (hf : HeadFn f) (hg : HeadFn g)
    (hfg : ∀ s, 0 < f s → g s = f s) (s : Bytes) : strip g (strip f s) = strip g s := by
  induction s using strip_induct hf with
  | h0 s h => rw [strip_zero h]
  | hstep s h ih =>
    rw [strip_pos hf h, ih, strip_pos hg (s := s) (by rw [hfg s h]; exact h), hfg s h]

/-- contrapositive of stability: a prefix of a string without a rune at its head has none either -/
theorem head_zero_of_append {f : Bytes → Nat} (hf : HeadFn f) {s r : Bytes} (h : f (s ++ r) = 0) :
    f s = 0 := by
  by_cases h0 : f s = 0
  · exact h0
  · have := hf.stable s r (Nat.pos_of_ne_zero h0); omega

/-! ### trimming on the right = stripping the reversed string -/

def rtrim (f : Bytes → Nat) (s : Bytes) : Bytes := (strip f s.reverse).reverse

theorem trimLeftSpace_eq (s : Bytes) : trimLeftSpace s = strip spaceAtHead s := rfl

theorem trimRightSpace_eq (s : Bytes) : trimRightSpace s = rtrim spaceAtHeadRev s := by
  unfold trimRightSpace rtrim strip; rw [List.length_reverse]

theorem trimRightSpaceOrByte_eq (c : Nat) (s : Bytes) :
    trimRightSpaceOrByte c s = rtrim (spaceOrByteAtHeadRev c) s := by
  unfold trimRightSpaceOrByte rtrim strip; rw [List.length_reverse]

theorem trimSpace_eq (s : Bytes) : trimSpace s = rtrim spaceAtHeadRev (strip spaceAtHead s) := by
  unfold trimSpace; rw [trimRightSpace_eq, trimLeftSpace_eq]

theorem rtrim_fix {f : Bytes → Nat} (hf : HeadFn f) (s : Bytes) : f (rtrim f s).reverse = 0 := by
  unfold rtrim; rw [List.reverse_reverse]; exact strip_fix hf _

theorem rtrim_zero {f : Bytes → Nat} {s : Bytes} (h : f s.reverse = 0) : rtrim f s = s := by
  unfold rtrim; rw [strip_zero h, List.reverse_reverse]

/-- the result is a prefix of the argument -/
theorem rtrim_prefix {f : Bytes → Nat} (hf : HeadFn f) (s : Bytes) : ∃ suf, s = rtrim f s ++ suf := by
  obtain ⟨pre, hp⟩ := strip_suffix hf s.reverse
  refine ⟨pre.reverse, ?_⟩
  unfold rtrim
  have := congrArg List.reverse hp
  rw [List.reverse_reverse, List.reverse_append] at this
  exact this

/-! ### the three head functions -/

theorem isAsciiSpace_lt {b : Nat} (h : isAsciiSpace b = true) : b < 0x80 := by
  simp [isAsciiSpace] at h; omega

theorem isSp2_fst {a b : Nat} (h : isSp2 a b = true) : a = 0xC2 ∧ 0x80 ≤ b ∧ b ≤ 0xBF := by
  simp [isSp2] at h; omega

theorem isSp3_fst {a b c : Nat} (h : isSp3 a b c = true) :
    0xE1 ≤ a ∧ a ≤ 0xE3 ∧ 0x80 ≤ b ∧ b ≤ 0xBF ∧ 0x80 ≤ c ∧ c ≤ 0xBF := by
  simp [isSp3] at h; omega

theorem not_ascii_of_sp2 {a b : Nat} (h : isSp2 a b = true) : isAsciiSpace a = false := by
  have := (isSp2_fst h).1; subst this; decide

theorem not_ascii_of_sp3 {a b c : Nat} (h : isSp3 a b c = true) : isAsciiSpace a = false := by
  have := isSp3_fst h
  cases hx : isAsciiSpace a with
  | false => rfl
  | true => have := isAsciiSpace_lt hx; omega

theorem not_sp2_of_sp3 {a b c x : Nat} (h : isSp3 a b c = true) : isSp2 a x = false := by
  have := isSp3_fst h
  cases hx : isSp2 a x with
  | false => rfl
  | true => have := isSp2_fst hx; omega

/-! ### `HeadFn` instances -/

theorem spaceAtHead_stable (s r : Bytes) (h : 0 < spaceAtHead s) : spaceAtHead (s ++ r) = spaceAtHead s := by
  match s, r with
  | [], _ => simp [spaceAtHead] at h
  | [a], [] => rfl
  | [a], [b] => 
    simp only [spaceAtHead] at h ⊢
    split at h
    · simp [*]
    · omega
  | [a], b :: c :: t =>
    simp only [spaceAtHead, List.cons_append, List.nil_append] at h ⊢
    split at h
    · simp [*]
    · omega
  | [a, b], [] => rfl
  | [a, b], c :: t =>
    simp only [spaceAtHead, List.cons_append, List.nil_append] at h ⊢
    split at h
    · simp [*]
    · split at h
      · simp [*]
      · omega
  | a :: b :: c :: t, r => rfl

theorem spaceAtHeadRev_stable (s r : Bytes) (h : 0 < spaceAtHeadRev s) : spaceAtHeadRev (s ++ r) = spaceAtHeadRev s := by
  match s, r with
  | [], _ => simp [spaceAtHeadRev] at h
  | [a], [] => rfl
  | [a], [b] => 
    simp only [spaceAtHeadRev] at h ⊢
    split at h
    · simp [*]
    · omega
  | [a], b :: c :: t =>
    simp only [spaceAtHeadRev, List.cons_append, List.nil_append] at h ⊢
    split at h
    · simp [*]
    · omega
  | [a, b], [] => rfl
  | [a, b], c :: t =>
    simp only [spaceAtHeadRev, List.cons_append, List.nil_append] at h ⊢
    split at h
    · simp [*]
    · split at h
      · simp [*]
      · omega
  | a :: b :: c :: t, r => rfl

theorem headFn_space : HeadFn spaceAtHead := ⟨spaceAtHead_le, spaceAtHead_stable⟩
theorem headFn_spaceRev : HeadFn spaceAtHeadRev := ⟨spaceAtHeadRev_le, spaceAtHeadRev_stable⟩

theorem spaceOrByte_le (c : Nat) (s : Bytes) : spaceOrByteAtHeadRev c s ≤ s.length := by
  unfold spaceOrByteAtHeadRev
  split
  · simp
  · split
    · simp
    · exact spaceAtHeadRev_le _

theorem spaceOrByte_stable (c : Nat) (s r : Bytes) (h : 0 < spaceOrByteAtHeadRev c s) :
    spaceOrByteAtHeadRev c (s ++ r) = spaceOrByteAtHeadRev c s := by
  cases s with
  | nil => simp [spaceOrByteAtHeadRev] at h
  | cons b t =>
    simp only [spaceOrByteAtHeadRev, List.cons_append] at h ⊢
    split
    · rfl
    · rename_i hb
      rw [if_neg hb] at h
      exact spaceAtHeadRev_stable (b :: t) r h

theorem headFn_spaceOrByte (c : Nat) : HeadFn (spaceOrByteAtHeadRev c) := ⟨spaceOrByte_le c, spaceOrByte_stable c⟩

/-! ### bytes that cannot take part in a white-space rune, and white-space runes -/

/-- an ASCII byte that is not white space: never part of a white-space rune -/
def Inert (c : Nat) : Prop := c < 0x80 ∧ isAsciiSpace c = false

theorem sp2_inert_l {c x : Nat} (h : c < 0x80) : isSp2 c x = false := by
  cases hx : isSp2 c x with
  | false => rfl
  | true => have := isSp2_fst hx; omega
theorem sp2_inert_r {c x : Nat} (h : c < 0x80 ∨ 0xC0 ≤ c) : isSp2 x c = false := by
  cases hx : isSp2 x c with
  | false => rfl
  | true => have := isSp2_fst hx; omega
theorem sp3_inert_1 {c x y : Nat} (h : c < 0x80) : isSp3 c x y = false := by
  cases hx : isSp3 c x y with
  | false => rfl
  | true => have := isSp3_fst hx; omega
theorem sp3_inert_2 {c x y : Nat} (h : c < 0x80 ∨ 0xC0 ≤ c) : isSp3 x c y = false := by
  cases hx : isSp3 x c y with
  | false => rfl
  | true => have := isSp3_fst hx; omega
theorem sp3_inert_3 {c x y : Nat} (h : c < 0x80 ∨ 0xC0 ≤ c) : isSp3 x y c = false := by
  cases hx : isSp3 x y c with
  | false => rfl
  | true => have := isSp3_fst hx; omega

theorem spaceAtHead_inert {c : Nat} (hc : Inert c) (s : Bytes) : spaceAtHead (c :: s) = 0 := by
  obtain ⟨h1, h2⟩ := hc
  match s with
  | [] => simp [spaceAtHead, h2]
  | [b] => simp [spaceAtHead, h2, sp2_inert_l h1]
  | b :: d :: t => simp [spaceAtHead, h2, sp2_inert_l h1, sp3_inert_1 h1]

theorem spaceAtHeadRev_inert {c : Nat} (hc : Inert c) (s : Bytes) : spaceAtHeadRev (c :: s) = 0 := by
  obtain ⟨h1, h2⟩ := hc
  match s with
  | [] => simp [spaceAtHeadRev, h2]
  | [b] => simp [spaceAtHeadRev, h2, sp2_inert_r (Or.inl h1)]
  | b :: d :: t => simp [spaceAtHeadRev, h2, sp2_inert_r (Or.inl h1), sp3_inert_3 (Or.inl h1)]

/-- appending a byte that is no UTF-8 continuation byte cannot complete a white-space rune -/
theorem spaceAtHead_after {p : Bytes} {c : Nat} (r : Bytes) (h0 : spaceAtHead p = 0) (hp : p ≠ [])
    (hc : c < 0x80 ∨ 0xC0 ≤ c) : spaceAtHead (p ++ c :: r) = 0 := by
  match p, r with
  | [], _ => exact absurd rfl hp
  | [a], [] =>
    simp only [spaceAtHead] at h0
    split at h0
    · omega
    · simp [spaceAtHead, *, sp2_inert_r hc]
  | [a], d :: t =>
    simp only [spaceAtHead] at h0
    split at h0
    · omega
    · simp [spaceAtHead, *, sp2_inert_r hc, sp3_inert_2 hc]
  | [a, b], r =>
    simp only [spaceAtHead] at h0
    split at h0
    · omega
    · split at h0
      · omega
      · simp [spaceAtHead, *, sp3_inert_3 hc]
  | a :: b :: d :: t, r => exact h0

theorem spaceAtHeadRev_after {p : Bytes} {c : Nat} (r : Bytes) (h0 : spaceAtHeadRev p = 0) (hp : p ≠ [])
    (hc : c < 0x80) : spaceAtHeadRev (p ++ c :: r) = 0 := by
  match p, r with
  | [], _ => exact absurd rfl hp
  | [a], [] =>
    simp only [spaceAtHeadRev] at h0
    split at h0
    · omega
    · simp [spaceAtHeadRev, *, sp2_inert_l hc]
  | [a], d :: t =>
    simp only [spaceAtHeadRev] at h0
    split at h0
    · omega
    · simp [spaceAtHeadRev, *, sp2_inert_l hc, sp3_inert_2 (Or.inl hc)]
  | [a, b], r =>
    simp only [spaceAtHeadRev] at h0
    split at h0
    · omega
    · split at h0
      · omega
      · simp [spaceAtHeadRev, *, sp3_inert_1 hc]
  | a :: b :: d :: t, r => exact h0

theorem spaceAtHead_ws {w : Bytes} (hw : isWsRune w = true) (s : Bytes) : spaceAtHead (w ++ s) = w.length := by
  match w, s with
  | [a], [] => simp [isWsRune] at hw; simp [spaceAtHead, hw]
  | [a], [b] => simp [isWsRune] at hw; simp [spaceAtHead, hw]
  | [a], b :: c :: t => simp [isWsRune] at hw; simp [spaceAtHead, hw]
  | [a, b], [] => simp [isWsRune] at hw; simp [spaceAtHead, hw, not_ascii_of_sp2 hw]
  | [a, b], c :: t => simp [isWsRune] at hw; simp [spaceAtHead, hw, not_ascii_of_sp2 hw]
  | [a, b, c], s => simp [isWsRune] at hw; simp [spaceAtHead, hw, not_ascii_of_sp3 hw, not_sp2_of_sp3 hw]
  | [], _ => simp [isWsRune] at hw
  | _ :: _ :: _ :: _ :: _, _ => simp [isWsRune] at hw

theorem spaceAtHeadRev_ws {w : Bytes} (hw : isWsRune w = true) (s : Bytes) :
    spaceAtHeadRev (w.reverse ++ s) = w.length := by
  match w, s with
  | [a], [] => simp [isWsRune] at hw; simp [spaceAtHeadRev, hw]
  | [a], [b] => simp [isWsRune] at hw; simp [spaceAtHeadRev, hw]
  | [a], b :: c :: t => simp [isWsRune] at hw; simp [spaceAtHeadRev, hw]
  | [a, b], [] =>
    simp [isWsRune] at hw
    have := isSp2_fst hw
    have hb : isAsciiSpace b = false := by
      cases hx : isAsciiSpace b with
      | false => rfl
      | true => have := isAsciiSpace_lt hx; omega
    simp [spaceAtHeadRev, hw, hb]
  | [a, b], c :: t =>
    simp [isWsRune] at hw
    have := isSp2_fst hw
    have hb : isAsciiSpace b = false := by
      cases hx : isAsciiSpace b with
      | false => rfl
      | true => have := isAsciiSpace_lt hx; omega
    simp [spaceAtHeadRev, hw, hb]
  | [a, b, c], s =>
    simp [isWsRune] at hw
    have := isSp3_fst hw
    have hc : isAsciiSpace c = false := by
      cases hx : isAsciiSpace c with
      | false => rfl
      | true => have := isAsciiSpace_lt hx; omega
    have h2 : isSp2 b c = false := by
      cases hx : isSp2 b c with
      | false => rfl
      | true => have := isSp2_fst hx; omega
    simp [spaceAtHeadRev, hw, hc, h2]
  | [], _ => simp [isWsRune] at hw
  | _ :: _ :: _ :: _ :: _, _ => simp [isWsRune] at hw

/-- the first byte of a white-space rune is no continuation byte -/
theorem wsRune_head {w : Bytes} (hw : isWsRune w = true) :
    ∃ c t, w = c :: t ∧ (c < 0x80 ∨ 0xC0 ≤ c) := by
  match w with
  | [a] => simp [isWsRune] at hw; exact ⟨a, [], rfl, Or.inl (isAsciiSpace_lt hw)⟩
  | [a, b] => simp [isWsRune] at hw; have := isSp2_fst hw; exact ⟨a, [b], rfl, Or.inr (by omega)⟩
  | [a, b, c] => simp [isWsRune] at hw; have := isSp3_fst hw; exact ⟨a, [b, c], rfl, Or.inr (by omega)⟩
  | [] => simp [isWsRune] at hw
  | _ :: _ :: _ :: _ :: _ => simp [isWsRune] at hw

end Bytes
end Rux
