import RuxModel.Model.Cache
/-
  Helper lemmas about the cache model (invariant, coherence).  Property theorems are in Props/.
-/
namespace Rux
set_option linter.unusedSectionVars false
variable {K V : Type} [DecidableEq K]

theorem mem_rmKey {k : K} {l : List (K × V)} {x : K × V} : x ∈ rmKey k l ↔ x ∈ l ∧ x.1 ≠ k := by
  simp [rmKey, List.mem_filter]

theorem rmKey_length_le (k : K) (l : List (K × V)) : (rmKey k l).length ≤ l.length :=
  List.length_filter_le _ _

theorem rmKey_sublist (k : K) (l : List (K × V)) : (rmKey k l).Sublist l := List.filter_sublist

theorem rmKey_lt_of_any (l : List (K × V)) (k : K) (h : l.any (fun x => decide (x.1 = k)) = true) :
    (rmKey k l).length < l.length := by
  induction l with
  | nil => simp at h
  | cons a t ih =>
    simp only [List.any_cons, Bool.or_eq_true, decide_eq_true_eq] at h
    by_cases ha : a.1 = k
    · have : rmKey k (a :: t) = rmKey k t := by simp [rmKey, List.filter, ha]
      rw [this]; have := rmKey_length_le k t; simp; omega
    · have ht : t.any (fun x => decide (x.1 = k)) = true := by
        rcases h with h | h
        · exact absurd h ha
        · exact h
      have : rmKey k (a :: t) = a :: rmKey k t := by simp [rmKey, List.filter, ha]
      rw [this]; have := ih ht; simp; omega

theorem nodup_rmKey (l : List (K × V)) (k : K) (h : (l.map (·.1)).Nodup) :
    ((rmKey k l).map (·.1)).Nodup :=
  List.Sublist.nodup (List.Sublist.map _ (rmKey_sublist k l)) h

theorem not_mem_rmKey (l : List (K × V)) (k : K) : k ∉ (rmKey k l).map (·.1) := by
  intro hm
  simp only [List.mem_map] at hm
  obtain ⟨x, hx, hk⟩ := hm
  exact (mem_rmKey.mp hx).2 hk

theorem any_key_iff (l : List (K × V)) (k : K) :
    l.any (fun x => decide (x.1 = k)) = true ↔ k ∈ l.map (·.1) := by
  simp only [List.any_eq_true, decide_eq_true_eq, List.mem_map]

/-- the keys of `rmKey` are the keys without `k` -/
theorem keys_rmKey (l : List (K × V)) (k : K) :
    (rmKey k l).map (·.1) = (l.map (·.1)).filter (fun x => !decide (x = k)) := by
  induction l with
  | nil => rfl
  | cons a t ih =>
    by_cases ha : a.1 = k
    · simp [rmKey, List.filter, ha] at ih ⊢; exact ih
    · simp [rmKey, List.filter, ha] at ih ⊢; exact ih

/-- removing key `k` does not change what is found for another key -/
theorem find?_rmKey_ne (l : List (K × V)) {k k' : K} (hne : k' ≠ k) :
    (rmKey k l).find? (fun x => decide (x.1 = k')) = l.find? (fun x => decide (x.1 = k')) := by
  induction l with
  | nil => rfl
  | cons a t ih =>
    unfold rmKey at ih ⊢
    by_cases ha : a.1 = k
    · have hak' : ¬ a.1 = k' := fun h => hne (h.symm.trans ha)
      rw [List.filter_cons_of_neg (by simp [ha]), List.find?_cons_of_neg (by simp [hak'])]; exact ih
    · rw [List.filter_cons_of_pos (by simp [ha])]
      by_cases hak' : a.1 = k'
      · rw [List.find?_cons_of_pos (by simp [hak']), List.find?_cons_of_pos (by simp [hak'])]
      · rw [List.find?_cons_of_neg (by simp [hak']), List.find?_cons_of_neg (by simp [hak'])]; exact ih

theorem find?_dropLast_of_any {α : Type} (p : α → Bool) (l : List α) (h : l.dropLast.any p = true) :
    l.dropLast.find? p = l.find? p := by
  induction l with
  | nil => rfl
  | cons a t ih =>
    cases t with
    | nil => simp at h
    | cons b t' =>
      rw [List.dropLast_cons_cons] at h ⊢
      by_cases ha : p a = true
      · rw [List.find?_cons_of_pos (by exact ha), List.find?_cons_of_pos (by exact ha)]
      · rw [List.find?_cons_of_neg (by exact ha), List.find?_cons_of_neg (by exact ha)]
        apply ih
        simpa [ha] using h

namespace Cache

/-- the representation invariant: never more than `cap` entries, never two entries for one key -/
def Inv (c : Cache K V) : Prop :=
  c.items.length ≤ c.cap ∧ (c.items.map (·.1)).Nodup

theorem empty_inv (cap : Nat) : (Cache.empty cap : Cache K V).Inv := by
  simp [Inv, empty]

@[simp] theorem set_cap (c : Cache K V) (k : K) (v : V) : (c.set k v).cap = c.cap := by
  unfold set; split
  · rfl
  · simp only; split <;> rfl

@[simp] theorem get_cap (c : Cache K V) (k : K) : (c.get k).2.cap = c.cap := by
  unfold get; split <;> rfl

@[simp] theorem delete_cap (c : Cache K V) (k : K) : (c.delete k).2.cap = c.cap := rfl

theorem set_items_hit (c : Cache K V) (k : K) (v : V)
    (h : c.items.any (fun x => decide (x.1 = k)) = true) :
    (c.set k v).items = (k, v) :: rmKey k c.items := by
  unfold set; rw [if_pos h]

theorem set_items_evict (c : Cache K V) (k : K) (v : V)
    (h : ¬ c.items.any (fun x => decide (x.1 = k)) = true) (hl : ((k, v) :: c.items).length > c.cap) :
    (c.set k v).items = ((k, v) :: c.items).dropLast := by
  unfold set; rw [if_neg h]; simp only; rw [if_pos hl]

theorem set_items_room (c : Cache K V) (k : K) (v : V)
    (h : ¬ c.items.any (fun x => decide (x.1 = k)) = true) (hl : ¬ ((k, v) :: c.items).length > c.cap) :
    (c.set k v).items = (k, v) :: c.items := by
  unfold set; rw [if_neg h]; simp only; rw [if_neg hl]

theorem set_inv (c : Cache K V) (k : K) (v : V) (h : c.Inv) : (c.set k v).Inv := by
  unfold set
  split
  · rename_i hany
    refine ⟨?_, ?_⟩
    · have := rmKey_lt_of_any c.items k hany
      simp; have := h.1; omega
    · simp only [List.map_cons, List.nodup_cons]
      exact ⟨not_mem_rmKey c.items k, nodup_rmKey c.items k h.2⟩
  · rename_i hany
    have hnot : k ∉ c.items.map (·.1) := fun hm => hany ((any_key_iff _ _).mpr hm)
    have hnd : (((k, v) :: c.items).map (·.1)).Nodup := by
      simp only [List.map_cons, List.nodup_cons]; exact ⟨hnot, h.2⟩
    simp only
    split
    · refine ⟨?_, ?_⟩
      · simp [List.length_dropLast]; have := h.1; omega
      · have : (((k, v) :: c.items).dropLast.map (·.1)) = (((k, v) :: c.items).map (·.1)).dropLast := by
          simp [List.map_dropLast]
        show (((k, v) :: c.items).dropLast.map (·.1)).Nodup
        rw [this]
        exact List.Sublist.nodup (List.dropLast_sublist _) hnd
    · rename_i hlen
      exact ⟨by simp at hlen ⊢; omega, hnd⟩

theorem get_inv (c : Cache K V) (k : K) (h : c.Inv) : (c.get k).2.Inv := by
  unfold get
  split
  · rename_i kv hf
    have hk : kv.1 = k := by simpa using List.find?_some hf
    have hany : c.items.any (fun x => decide (x.1 = k)) = true := by
      simp only [List.any_eq_true, decide_eq_true_eq]
      exact ⟨kv, List.mem_of_find?_eq_some hf, hk⟩
    refine ⟨?_, ?_⟩
    · have := rmKey_lt_of_any c.items k hany
      simp; have := h.1; omega
    · simp only [List.map_cons, List.nodup_cons]
      rw [hk]
      exact ⟨not_mem_rmKey c.items k, nodup_rmKey c.items k h.2⟩
  · exact h

theorem delete_inv (c : Cache K V) (k : K) (h : c.Inv) : (c.delete k).2.Inv := by
  refine ⟨?_, nodup_rmKey c.items k h.2⟩
  have := rmKey_length_le k c.items
  have := h.1
  simp [delete]; omega

theorem step_inv (c : Cache K V) (op : CacheOp K V) (h : c.Inv) : (c.step op).1.Inv := by
  cases op with
  | set k v => exact set_inv c k v h
  | get k => exact get_inv c k h
  | has k => exact get_inv c k h
  | del k => exact delete_inv c k h
  | len => exact h

theorem run_inv (ops : List (CacheOp K V)) : ∀ c : Cache K V, c.Inv → (c.run ops).Inv := by
  induction ops with
  | nil => intro c h; exact h
  | cons op ops ih => intro c h; exact ih _ (step_inv c op h)

@[simp] theorem step_cap (c : Cache K V) (op : CacheOp K V) : (c.step op).1.cap = c.cap := by
  cases op <;> simp [step, has]

theorem run_cap (ops : List (CacheOp K V)) : ∀ c : Cache K V, (c.run ops).cap = c.cap := by
  induction ops with
  | nil => intro c; rfl
  | cons op ops ih => intro c; simp [run, ih]

/-! ### coherence with a pure function (used by C07) -/

/-- every cached binding equals what the pure function `dyn` returns for its key -/
def Coherent (dyn : K → Option V) (c : Cache K V) : Prop :=
  ∀ kv ∈ c.items, dyn kv.1 = some kv.2

theorem empty_coherent (dyn : K → Option V) (cap : Nat) : Coherent dyn (Cache.empty cap) := by
  intro kv h; simp [empty] at h

theorem get_coherent (dyn : K → Option V) (c : Cache K V) (k : K) (h : Coherent dyn c) :
    (∀ v, (c.get k).1 = some v → dyn k = some v) ∧ Coherent dyn (c.get k).2 := by
  unfold get
  split
  · rename_i kv hf
    have hmem := List.mem_of_find?_eq_some hf
    have hk : kv.1 = k := by simpa using List.find?_some hf
    refine ⟨?_, ?_⟩
    · intro v hv; simp at hv; subst hv; rw [← hk]; exact h kv hmem
    · intro x hx
      simp only [List.mem_cons] at hx
      rcases hx with rfl | hx
      · exact h _ hmem
      · exact h x (mem_rmKey.mp hx).1
  · exact ⟨by intro v hv; simp at hv, h⟩

theorem set_coherent (dyn : K → Option V) (c : Cache K V) (k : K) (v : V)
    (h : Coherent dyn c) (hv : dyn k = some v) : Coherent dyn (c.set k v) := by
  unfold set
  split
  · intro x hx
    simp only [List.mem_cons] at hx
    rcases hx with rfl | hx
    · exact hv
    · exact h x (mem_rmKey.mp hx).1
  · simp only
    have hall : ∀ x ∈ (k, v) :: c.items, dyn x.1 = some x.2 := by
      intro x hx
      simp only [List.mem_cons] at hx
      rcases hx with rfl | hx
      · exact hv
      · exact h x hx
    split
    · intro x hx; exact hall x ((List.dropLast_sublist _).subset hx)
    · exact hall

theorem delete_coherent (dyn : K → Option V) (c : Cache K V) (k : K) (h : Coherent dyn c) :
    Coherent dyn (c.delete k).2 := by
  intro x hx
  exact h x (mem_rmKey.mp hx).1

end Cache
end Rux
