import RuxModel.Model.Regex
/-
  The prioritised matcher is sound and complete for the language of the expression.
-/
namespace Rux

/-- the "one more iteration" part of the star case -/
theorem star_more_sound (a : Re) (g : Bool) (s : Bytes)
    (iha : ∀ n ∈ prefixLens a s, n ≤ s.length ∧ Lang a (s.take n))
    (ihs : ∀ n, 0 < n ∧ n ≤ s.length → ∀ m ∈ prefixLens (.star a g) (s.drop n),
        m ≤ (s.drop n).length ∧ Lang (.star a g) ((s.drop n).take m)) :
    ∀ n ∈ ((prefixLens a s).flatMap fun n =>
        if _h : 0 < n ∧ n ≤ s.length then (prefixLens (.star a g) (s.drop n)).map (n + ·) else []),
      n ≤ s.length ∧ Lang (.star a g) (s.take n) := by
  intro n hn
  simp only [List.mem_flatMap] at hn
  obtain ⟨k, hk, hn⟩ := hn
  split at hn
  · rename_i hle
    simp only [List.mem_map] at hn
    obtain ⟨m, hm, rfl⟩ := hn
    have ⟨h1, h2⟩ := iha k hk
    have ⟨h3, h4⟩ := ihs k hle m hm
    simp [List.length_drop] at h3
    refine ⟨by omega, ?_⟩
    have : s.take (k + m) = s.take k ++ (s.drop k).take m := by
      rw [List.take_add]
    rw [this]; exact Lang.starCons h2 h4
  · simp at hn

theorem prefixLens_sound (r : Re) (s : Bytes) :
    ∀ n ∈ prefixLens r s, n ≤ s.length ∧ Lang r (s.take n) := by
  fun_induction prefixLens r s with
  | case1 s => intro n hn; simp at hn; subst hn; simp; exact Lang.eps
  | case2 p c t hp => intro n hn; simp at hn; subst hn; simp; exact Lang.chr hp
  | case3 p c t hp => intro n hn; simp at hn
  | case4 p => intro n hn; simp at hn
  | case5 s a b ihb iha =>
    intro n hn
    simp only [List.mem_flatMap] at hn
    obtain ⟨k, hk, hn⟩ := hn
    split at hn
    · rename_i hle
      simp only [List.mem_map] at hn
      obtain ⟨m, hm, rfl⟩ := hn
      have ⟨h1, h2⟩ := iha k hk
      have ⟨h3, h4⟩ := ihb k hle m hm
      simp [List.length_drop] at h3
      refine ⟨by omega, ?_⟩
      have : s.take (k + m) = s.take k ++ (s.drop k).take m := by
        rw [List.take_add]
      rw [this]; exact Lang.seq h2 h4
    · simp at hn
  | case6 s a b iha ihb =>
    intro n hn
    simp only [List.mem_append] at hn
    rcases hn with h | h
    · exact ⟨(iha n h).1, Lang.altL (iha n h).2⟩
    · exact ⟨(ihb n h).1, Lang.altR (ihb n h).2⟩
  | case7 s a more ihs iha =>
    intro n hn
    simp only [List.mem_append, List.mem_singleton] at hn
    rcases hn with h | rfl
    · exact star_more_sound a true s iha ihs n h
    · simp; exact Lang.starNil
  | case8 s a g more hg ihs iha =>
    intro n hn
    simp only [List.mem_cons] at hn
    rcases hn with rfl | h
    · simp; exact Lang.starNil
    · exact star_more_sound a g s iha ihs n h

theorem prefixLens_complete {r : Re} {u : Bytes} (h : Lang r u) :
    ∀ t, u.length ∈ prefixLens r (u ++ t) := by
  induction h with
  | eps => intro t; rw [prefixLens]; simp
  | chr hp => intro t; rw [prefixLens.eq_def]; simp [hp]
  | @seq a b s t' _ _ iha ihb =>
    intro t
    rw [prefixLens]
    simp only [List.mem_flatMap]
    refine ⟨s.length, ?_, ?_⟩
    · have := iha (t' ++ t); simpa [List.append_assoc] using this
    · have hle : s.length ≤ (s ++ t' ++ t).length := by simp
      simp only [hle, dite_true, List.mem_map]
      refine ⟨t'.length, ?_, by simp⟩
      have : (s ++ t' ++ t).drop s.length = t' ++ t := by
        simp [List.append_assoc]
      rw [this]; exact ihb t
  | altL _ ih => intro t; rw [prefixLens]; exact List.mem_append_left _ (ih t)
  | altR _ ih => intro t; rw [prefixLens]; exact List.mem_append_right _ (ih t)
  | @starNil a g => intro t; rw [prefixLens]; cases g <;> simp
  | @starCons a g s t' _ _ iha ihs =>
    intro t
    by_cases hs : s = []
    · subst hs; simpa using ihs t
    · rw [prefixLens]
      have hmem : (s ++ t').length ∈ (prefixLens a (s ++ t' ++ t)).flatMap fun n =>
          if _h : 0 < n ∧ n ≤ (s ++ t' ++ t).length then
            (prefixLens (.star a g) ((s ++ t' ++ t).drop n)).map (n + ·) else [] := by
        simp only [List.mem_flatMap]
        refine ⟨s.length, ?_, ?_⟩
        · have := iha (t' ++ t); simpa [List.append_assoc] using this
        · have hpos : 0 < s.length := List.length_pos_iff.mpr hs
          have hle : s.length ≤ (s ++ t' ++ t).length := by simp
          simp only [hpos, hle, and_self, dite_true, List.mem_map]
          refine ⟨t'.length, ?_, by simp⟩
          have : (s ++ t' ++ t).drop s.length = t' ++ t := by
            simp [List.append_assoc]
          rw [this]; exact ihs t
      cases g
      · simp only [Bool.false_eq_true, if_false]; exact List.mem_cons_of_mem _ hmem
      · simp only [if_true]; exact List.mem_append_left _ hmem

/-- a prefix of `s` is matched by `r` iff its length is among the matcher's answers -/
theorem prefixLens_iff (r : Re) (s : Bytes) (n : Nat) :
    n ∈ prefixLens r s ↔ n ≤ s.length ∧ Lang r (s.take n) := by
  constructor
  · exact prefixLens_sound r s n
  · rintro ⟨hle, hl⟩
    have := prefixLens_complete hl (s.drop n)
    rw [List.take_append_drop] at this
    simpa [List.length_take, Nat.min_eq_left hle] using this

end Rux
