import RuxModel.Model.Pattern
import RuxModel.Lemmas.Regex
/-
  Declarative semantics of structured route patterns and the proof that the prioritised matcher
  (`matchSegs`, `matchLevels`, `matchPat`) is sound and complete for it.
-/
namespace Rux

theorem hasPrefix_iff (s p : Bytes) : Bytes.hasPrefix s p = true ↔ ∃ t, s = p ++ t := by
  induction p generalizing s with
  | nil => cases s <;> simp [Bytes.hasPrefix]
  | cons b p ih =>
    cases s with
    | nil => simp [Bytes.hasPrefix]
    | cons a s =>
      simp only [Bytes.hasPrefix, Bool.and_eq_true, decide_eq_true_eq, ih, List.cons_append, List.cons.injEq]
      constructor
      · rintro ⟨rfl, t, rfl⟩; exact ⟨t, rfl, rfl⟩
      · rintro ⟨t, rfl, rfl⟩; exact ⟨rfl, t, rfl⟩

/-- `caps` are the variable values and `u` the text of one way to read `u` as an instance of `segs` -/
inductive SegsLang : List Seg → List Bytes → Bytes → Prop where
  | nil : SegsLang [] [] []
  | lit {l rest caps u} : SegsLang rest caps u → SegsLang (.lit l :: rest) caps (l ++ u)
  | var {re rest caps u v} : Lang re v → SegsLang rest caps u → SegsLang (.var re :: rest) (v :: caps) (v ++ u)

/-- instances of `segs₀(?:segs₁(?:…)?)?`; an absent optional level contributes no text and empty values -/
inductive LevelsLang : Levels → List Bytes → Bytes → Prop where
  | nil : LevelsLang [] [] []
  | last {segs caps u} : SegsLang segs caps u → LevelsLang [segs] caps u
  | present {segs l2 rest c1 u1 c2 u2} : SegsLang segs c1 u1 → LevelsLang (l2 :: rest) c2 u2 →
      LevelsLang (segs :: l2 :: rest) (c1 ++ c2) (u1 ++ u2)
  | absent {segs l2 rest c1 u1} : SegsLang segs c1 u1 →
      LevelsLang (segs :: l2 :: rest) (c1 ++ List.replicate (levelsVars (l2 :: rest)) []) u1

theorem matchSegs_sound (segs : List Seg) : ∀ (s : Bytes) (caps : List Bytes) (r : Bytes),
    (caps, r) ∈ matchSegs segs s → ∃ u, s = u ++ r ∧ SegsLang segs caps u := by
  induction segs with
  | nil =>
    intro s caps r h
    simp only [matchSegs, List.mem_singleton, Prod.mk.injEq] at h
    obtain ⟨rfl, rfl⟩ := h
    exact ⟨[], rfl, SegsLang.nil⟩
  | cons seg rest ih =>
    intro s caps r h
    cases seg with
    | lit l =>
      simp only [matchSegs] at h
      split at h
      · rename_i hp
        obtain ⟨t, rfl⟩ := (hasPrefix_iff s l).mp hp
        have hd : (l ++ t).drop l.length = t := by simp
        rw [hd] at h
        obtain ⟨u, rfl, hu⟩ := ih t caps r h
        exact ⟨l ++ u, by simp [List.append_assoc], SegsLang.lit hu⟩
      · simp at h
    | var re =>
      simp only [matchSegs, List.mem_flatMap, List.mem_map] at h
      obtain ⟨n, hn, ⟨c, r'⟩, hcr, heq⟩ := h
      simp only [Prod.mk.injEq] at heq
      obtain ⟨rfl, rfl⟩ := heq
      obtain ⟨hle, hl⟩ := prefixLens_sound re s n hn
      obtain ⟨u, hu1, hu2⟩ := ih (s.drop n) c r' hcr
      refine ⟨s.take n ++ u, ?_, SegsLang.var hl hu2⟩
      rw [List.append_assoc, ← hu1, List.take_append_drop]

theorem matchSegs_complete {segs : List Seg} {caps : List Bytes} {u : Bytes} (h : SegsLang segs caps u) :
    ∀ r, (caps, r) ∈ matchSegs segs (u ++ r) := by
  induction h with
  | nil => intro r; simp [matchSegs]
  | @lit l rest caps u _ ih =>
    intro r
    simp only [matchSegs]
    have hp : Bytes.hasPrefix (l ++ u ++ r) l = true := (hasPrefix_iff _ _).mpr ⟨u ++ r, by simp [List.append_assoc]⟩
    rw [if_pos hp]
    have hd : (l ++ u ++ r).drop l.length = u ++ r := by simp [List.append_assoc]
    rw [hd]; exact ih r
  | @var re rest caps u v hv _ ih =>
    intro r
    simp only [matchSegs, List.mem_flatMap, List.mem_map]
    refine ⟨v.length, ?_, (caps, r), ?_, ?_⟩
    · have := prefixLens_complete hv (u ++ r); simpa [List.append_assoc] using this
    · have hd : (v ++ u ++ r).drop v.length = u ++ r := by simp [List.append_assoc]
      rw [hd]; exact ih r
    · simp [List.append_assoc]

theorem matchLevels_sound (ls : Levels) : ∀ (s : Bytes) (caps : List Bytes),
    caps ∈ matchLevels ls s → LevelsLang ls caps s := by
  induction ls with
  | nil =>
    intro s caps h
    simp only [matchLevels] at h
    split at h
    · rename_i hs; subst hs; simp at h; subst h; exact LevelsLang.nil
    · simp at h
  | cons segs rest ih =>
    intro s caps h
    cases rest with
    | nil =>
      simp only [matchLevels, List.mem_filterMap] at h
      obtain ⟨⟨c, r⟩, hcr, hsome⟩ := h
      split at hsome
      · rename_i hr
        simp at hsome; subst hsome
        simp only at hr; subst hr
        obtain ⟨u, rfl, hu⟩ := matchSegs_sound segs s c [] hcr
        simpa using LevelsLang.last hu
      · simp at hsome
    | cons l2 rest' =>
      simp only [matchLevels, List.mem_flatMap, List.mem_append, List.mem_map] at h
      obtain ⟨⟨c, r⟩, hcr, hor⟩ := h
      obtain ⟨u, rfl, hu⟩ := matchSegs_sound segs s c r hcr
      rcases hor with ⟨c2, hc2, rfl⟩ | habs
      · exact LevelsLang.present hu (ih r c2 hc2)
      · split at habs
        · rename_i hr
          simp only at hr; subst hr
          simp at habs; subst habs
          simpa using LevelsLang.absent (l2 := l2) (rest := rest') hu
        · simp at habs

theorem matchLevels_complete {ls : Levels} {caps : List Bytes} {s : Bytes} (h : LevelsLang ls caps s) :
    caps ∈ matchLevels ls s := by
  induction h with
  | nil => simp [matchLevels]
  | @last segs caps u hu =>
    simp only [matchLevels, List.mem_filterMap]
    refine ⟨(caps, []), ?_, by simp⟩
    have := matchSegs_complete hu []; simpa using this
  | @present segs l2 rest c1 u1 c2 u2 h1 _ ih =>
    simp only [matchLevels, List.mem_flatMap, List.mem_append, List.mem_map]
    exact ⟨(c1, u2), matchSegs_complete h1 u2, Or.inl ⟨c2, ih, rfl⟩⟩
  | @absent segs l2 rest c1 u1 h1 =>
    simp only [matchLevels, List.mem_flatMap, List.mem_append, List.mem_map]
    refine ⟨(c1, []), ?_, Or.inr ?_⟩
    · have := matchSegs_complete h1 []; simpa using this
    · simp

/-- `matchPat` finds a reading whenever there is one, and only readings -/
theorem matchPat_some {ls : Levels} {s : Bytes} {caps : List Bytes} (h : matchPat ls s = some caps) :
    LevelsLang ls caps s := by
  unfold matchPat at h
  apply matchLevels_sound
  cases hm : matchLevels ls s with
  | nil => rw [hm] at h; simp at h
  | cons a t => rw [hm] at h; simp at h; subst h; simp

theorem matchPat_none_iff (ls : Levels) (s : Bytes) :
    matchPat ls s = none ↔ ¬ ∃ caps, LevelsLang ls caps s := by
  unfold matchPat
  constructor
  · intro h ⟨caps, hc⟩
    have := matchLevels_complete hc
    cases hm : matchLevels ls s with
    | nil => rw [hm] at this; simp at this
    | cons a t => rw [hm] at h; simp at h
  · intro h
    cases hm : matchLevels ls s with
    | nil => simp
    | cons a t =>
      exfalso; apply h
      exact ⟨a, matchLevels_sound ls s a (by rw [hm]; simp)⟩

theorem matchPat_isSome_iff (ls : Levels) (s : Bytes) :
    (matchPat ls s).isSome = true ↔ ∃ caps, LevelsLang ls caps s := by
  cases h : matchPat ls s with
  | none => simp; exact fun x hx => (matchPat_none_iff ls s).mp h ⟨x, hx⟩
  | some c => simp; exact ⟨c, matchPat_some h⟩

end Rux
