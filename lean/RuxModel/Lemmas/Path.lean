import RuxModel.Lemmas.Trim
import RuxModel.Model.Path
/-
  Lemmas about `formatPath` / `simpleFmtPath` (Model/Path.lean) behind the theorems of Props/C11.lean.
  Main steps: `formatPath_eq` (the function is total and equals `final`), `nf_fixed`/`final_nf` (results
  are exactly the normal forms `NF`, which are fixed points), `final_cons_slash` (a slash in front),
  `final_append_slash` (a slash at the end, non-strict), `trimSpace_ws` (white-space runes around),
  `final_simple` (registration = lookup), `group_*` (groups), `find_add`/`key_inj` (static table).
-/
namespace Rux.Path
open Bytes

theorem slash_inert : Inert slash := ⟨by decide, by decide⟩

/-! ### `trimLeftByte` -/

theorem trimLeft_cons_self (c : Nat) (s : Bytes) : trimLeftByte c (c :: s) = trimLeftByte c s := by
  simp [trimLeftByte]

theorem trimLeft_cons_ne {c b : Nat} (s : Bytes) (h : b ≠ c) : trimLeftByte c (b :: s) = b :: s := by
  simp [trimLeftByte, h]

theorem trimLeft_replicate (c : Nat) (k : Nat) (x : Bytes) :
    trimLeftByte c (List.replicate k c ++ x) = trimLeftByte c x := by
  induction k with
  | zero => rfl
  | succ n ih => rw [List.replicate_succ, List.cons_append, trimLeft_cons_self, ih]

/-- `s` = some `c`s followed by the result, and the result does not start with `c` -/
theorem trimLeft_decomp (c : Nat) (s : Bytes) :
    ∃ k, s = List.replicate k c ++ trimLeftByte c s ∧ (trimLeftByte c s).head? ≠ some c := by
  induction s with
  | nil => exact ⟨0, rfl, by simp [trimLeftByte]⟩
  | cons b t ih =>
    by_cases h : b = c
    · subst h
      obtain ⟨k, h1, h2⟩ := ih
      refine ⟨k + 1, ?_, ?_⟩
      · rw [trimLeft_cons_self, List.replicate_succ, List.cons_append, ← h1]
      · rw [trimLeft_cons_self]; exact h2
    · refine ⟨0, ?_, ?_⟩
      · rw [trimLeft_cons_ne _ h]; rfl
      · rw [trimLeft_cons_ne _ h]; simpa using h

theorem trimLeft_id {c : Nat} {s : Bytes} (h : s.head? ≠ some c) : trimLeftByte c s = s := by
  cases s with
  | nil => rfl
  | cons b t => exact trimLeft_cons_ne _ (by simpa using h)

/-! ### `hasSuffix s [c]` -/

def endsWith (c : Nat) (s : Bytes) : Bool := hasSuffix s [c]

theorem endsWith_iff (c : Nat) (s : Bytes) : endsWith c s = true ↔ s.reverse.head? = some c := by
  unfold endsWith hasSuffix
  cases s.reverse with
  | nil => simp [hasPrefix]
  | cons b t => simp [hasPrefix]

theorem endsWith_nil (c : Nat) : endsWith c [] = false := rfl

theorem endsWith_append_single (c : Nat) (s : Bytes) : endsWith c (s ++ [c]) = true := by
  rw [endsWith_iff]; simp

theorem endsWith_cons {c b : Nat} {s : Bytes} (hs : s ≠ []) : endsWith c (b :: s) = endsWith c s := by
  have : ∀ x : Bytes, (endsWith c x = true ↔ x.reverse.head? = some c) := endsWith_iff c
  cases h1 : endsWith c (b :: s) <;> cases h2 : endsWith c s <;> try rfl
  · have := (endsWith_iff c s).1 h2
    have h3 : (b :: s).reverse.head? = some c := by
      rw [List.reverse_cons]
      cases hr : s.reverse with
      | nil => simp at hr; exact absurd hr hs
      | cons x y => rw [hr] at this; simpa using this
    rw [← endsWith_iff] at h3; rw [h3] at h1; cases h1
  · have := (endsWith_iff c _).1 h1
    have h3 : s.reverse.head? = some c := by
      rw [List.reverse_cons] at this
      cases hr : s.reverse with
      | nil => simp at hr; exact absurd hr hs
      | cons x y => rw [hr] at this; simpa using this
    rw [← endsWith_iff] at h3; rw [h3] at h2; cases h2

/-! ### the normal form of `formatPath` -/

/-- the string after the trimming steps of `formatPath`, before the leading slash is repaired -/
def core (st : Bool) (p : Bytes) : Bytes :=
  let t := trimSpace p
  if !st && endsWith slash t then trimRightSpaceOrByte slash t else t

/-- what `formatPath` returns -/
def final (st : Bool) (p : Bytes) : Bytes := slash :: trimLeftByte slash (core st p)

theorem leadFix_eq (q : Bytes) :
    (if q = [] ∨ q = [slash] then (Except.ok [slash] : Except Panic Bytes) else
      do
        let c0 ← byteAt q 0
        if c0 ≠ slash then return slash :: q
        let c1 ← byteAt q 1
        if c1 = slash then return slash :: trimLeftByte slash q
        return q) = .ok (slash :: trimLeftByte slash q) := by
  split
  · rename_i h
    rcases h with h | h <;> simp [h, trimLeftByte]
  · rename_i h
    cases q with
    | nil => exact absurd (Or.inl rfl) h
    | cons c0 rest =>
      simp only [byteAt, bind, Except.bind, List.getElem?_cons_zero, pure, Except.pure]
      by_cases hc : c0 = slash
      · subst hc
        cases rest with
        | nil => exact absurd (Or.inr rfl) h
        | cons c1 rest' =>
          simp only [List.getElem?_cons_succ, List.getElem?_cons_zero]
          by_cases hc1 : c1 = slash
          · simp [hc1]
          · simp [hc1, trimLeft_cons_self, trimLeft_cons_ne _ hc1]
      · simp [hc, trimLeft_cons_ne _ hc]

theorem formatPath_eq (st : Bool) (p : Bytes) : formatPath st p = .ok (final st p) := by
  unfold formatPath
  split
  · rename_i h
    rcases h with h | h <;> subst h <;> cases st <;> rfl
  · exact leadFix_eq (core st p)

abbrev H := spaceAtHead
abbrev Hr := spaceAtHeadRev
abbrev G := spaceOrByteAtHeadRev slash

theorem hH : HeadFn H := headFn_space
theorem hHr : HeadFn Hr := headFn_spaceRev
theorem hG : HeadFn G := headFn_spaceOrByte slash

theorem H_slash (s : Bytes) : H (slash :: s) = 0 := spaceAtHead_inert slash_inert s
theorem Hr_slash (s : Bytes) : Hr (slash :: s) = 0 := spaceAtHeadRev_inert slash_inert s

/-- a slash appended after a string without trailing... (reversed world) keeps it so; also for `[]` -/
theorem Hr_after_slash {y : Bytes} (r : Bytes) (h : Hr y = 0) : Hr (y ++ slash :: r) = 0 := by
  cases y with
  | nil => exact Hr_slash r
  | cons b t => exact spaceAtHeadRev_after r h (by simp) (by decide)

theorem H_after_slash {y : Bytes} (r : Bytes) (h : H y = 0) : H (y ++ slash :: r) = 0 := by
  cases y with
  | nil => exact H_slash r
  | cons b t => exact spaceAtHead_after r h (by simp) (Or.inl (by decide))

theorem G_slash (s : Bytes) : G (slash :: s) = 1 := by simp [G, spaceOrByteAtHeadRev]

theorem G_cons_ne {b : Nat} (h : b ≠ slash) (s : Bytes) : G (b :: s) = Hr (b :: s) := by
  simp [G, spaceOrByteAtHeadRev, h]

theorem G_nil : G [] = 0 := rfl

theorem G_zero_iff (s : Bytes) : G s = 0 ↔ (s.head? ≠ some slash ∧ Hr s = 0) := by
  cases s with
  | nil => simp [G_nil, Hr, spaceAtHeadRev]
  | cons b t =>
    by_cases h : b = slash
    · subst h; simp [G_slash]
    · rw [G_cons_ne h]; simp [h]

theorem G_ext (s : Bytes) (h : 0 < Hr s) : G s = Hr s := by
  cases s with
  | nil => rfl
  | cons b t =>
    by_cases hb : b = slash
    · subst hb; rw [Hr_slash] at h; omega
    · exact G_cons_ne hb t

theorem G_after_slash {y : Bytes} (r : Bytes) (h : G y = 0) (hy : y ≠ []) : G (y ++ slash :: r) = 0 := by
  cases y with
  | nil => exact absurd rfl hy
  | cons b t =>
    have := (G_zero_iff _).1 h
    have hb : b ≠ slash := by simpa using this.1
    rw [List.cons_append, G_cons_ne hb]
    exact Hr_after_slash r this.2

/-! ### `trimSpace` -/

theorem trimSpace_noTrail (p : Bytes) : Hr (trimSpace p).reverse = 0 := by
  rw [trimSpace_eq]; exact rtrim_fix hHr _

theorem trimSpace_noLead (p : Bytes) : H (trimSpace p) = 0 := by
  rw [trimSpace_eq]
  obtain ⟨suf, hs⟩ := rtrim_prefix hHr (strip H p)
  have h0 : H (strip H p) = 0 := strip_fix hH p
  rw [hs] at h0
  exact head_zero_of_append hH h0

theorem trimSpace_of_noLead {p : Bytes} (h : H p = 0) : trimSpace p = rtrim Hr p := by
  rw [trimSpace_eq, strip_zero h]

theorem trimSpace_id {p : Bytes} (h : H p = 0) (h' : Hr p.reverse = 0) : trimSpace p = p := by
  rw [trimSpace_of_noLead h, rtrim_zero h']

theorem trimSpace_idem (p : Bytes) : trimSpace (trimSpace p) = trimSpace p :=
  trimSpace_id (trimSpace_noLead p) (trimSpace_noTrail p)

/-! ### a slash in front of the string, seen by the right-hand trims -/

theorem rtrim_Hr_cons_slash (z : Bytes) : rtrim Hr (slash :: z) = slash :: rtrim Hr z := by
  unfold rtrim
  rw [List.reverse_cons, strip_append hHr]
  have h0 : Hr (strip Hr z.reverse ++ [slash]) = 0 := Hr_after_slash [] (strip_fix hHr _)
  rw [strip_zero h0]; simp

theorem rtrim_G_cons_slash (z : Bytes) :
    rtrim G (slash :: z) = if rtrim G z = [] then [] else slash :: rtrim G z := by
  unfold rtrim
  rw [List.reverse_cons, strip_append hG]
  by_cases hy : strip G z.reverse = []
  · rw [hy]
    have : strip G ([] ++ [slash]) = [] := by
      rw [List.nil_append, strip_pos hG (by rw [G_slash]; decide), G_slash]; rfl
    rw [this]; simp
  · have h0 : G (strip G z.reverse ++ [slash]) = 0 := G_after_slash [] (strip_fix hG _) hy
    rw [strip_zero h0]; simp [hy]

theorem endsWith_eq (c : Nat) (s : Bytes) : endsWith c s = (s.reverse.head? == some c) := by
  unfold endsWith hasSuffix
  cases s.reverse with
  | nil => simp [hasPrefix]
  | cons b t => by_cases h : b = c <;> simp [hasPrefix, h]

theorem endsWith_append (c : Nat) (x : Bytes) {s : Bytes} (hs : s ≠ []) :
    endsWith c (x ++ s) = endsWith c s := by
  rw [endsWith_eq, endsWith_eq, List.reverse_append]
  cases hr : s.reverse with
  | nil => simp at hr; exact absurd hr hs
  | cons b t => simp

theorem endsWith_false_of_head {c : Nat} {s : Bytes} (h : s.reverse.head? ≠ some c) : endsWith c s = false := by
  rw [endsWith_eq]; simpa using h

/-! ### facts about `core` -/

theorem core_strict (p : Bytes) : core true p = trimSpace p := by simp [core]

theorem core_nonstrict (p : Bytes) :
    core false p = if endsWith slash (trimSpace p) then rtrim G (trimSpace p) else trimSpace p := by
  simp [core, trimRightSpaceOrByte_eq]

theorem core_noTrail (st : Bool) (p : Bytes) : Hr (core st p).reverse = 0 := by
  cases st with
  | true => rw [core_strict]; exact trimSpace_noTrail p
  | false =>
    rw [core_nonstrict]
    split
    · exact ((G_zero_iff _).1 (rtrim_fix hG _)).2
    · exact trimSpace_noTrail p

theorem core_noSlashEnd (p : Bytes) : endsWith slash (core false p) = false := by
  rw [core_nonstrict]
  split
  · exact endsWith_false_of_head ((G_zero_iff _).1 (rtrim_fix hG _)).1
  · rename_i h; simpa using h

/-- `core` only looks at the trimmed string -/
theorem core_trimSpace (st : Bool) (p : Bytes) : core st (trimSpace p) = core st p := by
  simp only [core, trimSpace_idem]

theorem final_trimSpace (st : Bool) (p : Bytes) : final st (trimSpace p) = final st p := by
  simp only [final, core_trimSpace]

/-! ### normal forms -/

/-- the shape of every result of `formatPath`: `/`, or `/c…` with `c ≠ '/'`, no trailing white space and
    (non-strict mode) no trailing slash -/
def NF (st : Bool) (s : Bytes) : Prop :=
  s = [slash] ∨
  ∃ c rest, s = slash :: c :: rest ∧ c ≠ slash ∧ Hr s.reverse = 0 ∧ (st = false → endsWith slash s = false)

theorem final_slash (st : Bool) : final st [slash] = [slash] := by cases st <;> rfl

theorem nf_fixed {st : Bool} {s : Bytes} (h : NF st s) : final st s = s := by
  rcases h with h | ⟨c, rest, hs, hc, ht, he⟩
  · subst h; exact final_slash st
  · have hts : trimSpace s = s := trimSpace_id (by rw [hs]; exact H_slash _) ht
    have hcore : core st s = s := by
      cases st with
      | true => rw [core_strict, hts]
      | false => rw [core_nonstrict, hts, he rfl]; simp
    rw [final, hcore, hs, trimLeft_cons_self, trimLeft_cons_ne _ hc]

theorem final_nf (st : Bool) (p : Bytes) : NF st (final st p) := by
  unfold final
  obtain ⟨k, hq, hv⟩ := trimLeft_decomp slash (core st p)
  generalize hvv : trimLeftByte slash (core st p) = v at hq hv
  cases v with
  | nil => exact Or.inl rfl
  | cons c rest =>
    right
    have hc : c ≠ slash := by simpa using hv
    refine ⟨c, rest, rfl, hc, ?_, ?_⟩
    · have h1 := core_noTrail st p
      rw [hq, List.reverse_append, List.reverse_replicate] at h1
      have h2 : Hr (c :: rest).reverse = 0 := head_zero_of_append hHr h1
      rw [List.reverse_cons]
      exact Hr_after_slash [] h2
    · intro hst; subst hst
      have h1 := core_noSlashEnd p
      rw [hq, endsWith_append _ _ (by simp)] at h1
      rw [show slash :: c :: rest = [slash] ++ (c :: rest) from rfl, endsWith_append _ _ (by simp)]
      exact h1

theorem final_idem (st : Bool) (p : Bytes) : final st (final st p) = final st p :=
  nf_fixed (final_nf st p)

/-- `simpleFmtPath` is `formatPath` in strict mode -/
theorem simpleFmtPath_eq (p : Bytes) : simpleFmtPath p = final true p := by
  unfold simpleFmtPath final
  rw [core_strict]
  simp only
  split
  · rename_i h; rw [h]; rfl
  · rfl

/-! ### M2: one more slash in front -/

theorem trimSpace_cons_slash (P : Bytes) : trimSpace (slash :: P) = slash :: rtrim Hr P := by
  rw [trimSpace_of_noLead (H_slash P), rtrim_Hr_cons_slash]

theorem endsWith_single (c : Nat) : endsWith c [c] = true := by simp [endsWith_eq]

/-- a slash in front of a string without leading white space does not change the result -/
theorem core_cons_slash (st : Bool) {P : Bytes} (h : H P = 0) :
    trimLeftByte slash (core st (slash :: P)) = trimLeftByte slash (core st P) := by
  have ht : trimSpace P = rtrim Hr P := trimSpace_of_noLead h
  cases st with
  | true => rw [core_strict, core_strict, trimSpace_cons_slash, ht, trimLeft_cons_self]
  | false =>
    rw [core_nonstrict, core_nonstrict, trimSpace_cons_slash, ht]
    generalize rtrim Hr P = z
    by_cases hz : z = []
    · subst hz
      rw [endsWith_single, endsWith_nil]
      simp only [if_true]
      rw [rtrim_G_cons_slash]; simp [rtrim, strip_nil]
    · rw [show slash :: z = [slash] ++ z from rfl, endsWith_append _ _ hz]
      cases he : endsWith slash z with
      | false => simp [trimLeft_cons_self]
      | true =>
        simp only [if_true, List.singleton_append]
        rw [rtrim_G_cons_slash]
        split
        · rename_i h0; rw [h0]
        · rw [trimLeft_cons_self]

theorem final_cons_slash (st : Bool) {P : Bytes} (h : H P = 0) : final st (slash :: P) = final st P := by
  unfold final; rw [core_cons_slash st h]

theorem final_replicate_slash (st : Bool) (k : Nat) (x : Bytes) :
    final st (List.replicate (k + 1) slash ++ x) = final st (slash :: x) := by
  induction k with
  | zero => rfl
  | succ n ih =>
    rw [List.replicate_succ, List.cons_append, final_cons_slash st, ih]
    rw [List.replicate_succ, List.cons_append]; exact H_slash _

/-! ### M3: one more slash at the end (non-strict mode) -/

theorem strip_H_append_slash (P : Bytes) : strip H (P ++ [slash]) = strip H P ++ [slash] := by
  rw [strip_append hH]
  exact strip_zero (H_after_slash [] (strip_fix hH P))

theorem rtrim_G_append_slash (y : Bytes) : rtrim G (y ++ [slash]) = rtrim G y := by
  unfold rtrim
  rw [List.reverse_append, List.reverse_singleton, List.singleton_append,
    strip_pos hG (by rw [G_slash]; decide), G_slash]
  rfl

theorem core_append_slash (P : Bytes) : core false (P ++ [slash]) = core false P := by
  have h1 : trimSpace (P ++ [slash]) = strip H P ++ [slash] := by
    rw [trimSpace_eq, strip_H_append_slash]
    apply rtrim_zero
    rw [List.reverse_append, List.reverse_singleton, List.singleton_append]
    exact Hr_slash _
  rw [core_nonstrict, core_nonstrict, h1, endsWith_append_single]
  simp only [if_true]
  rw [rtrim_G_append_slash, trimSpace_eq]
  have hmono : rtrim G (rtrim Hr (strip H P)) = rtrim G (strip H P) := by
    unfold rtrim
    rw [List.reverse_reverse, strip_mono hHr hG G_ext]
  split
  · exact hmono.symm
  · rename_i he
    rw [← hmono]
    apply rtrim_zero
    rw [G_zero_iff]
    refine ⟨?_, rtrim_fix hHr _⟩
    intro hh
    apply he
    rw [endsWith_eq]; simp [hh]

theorem final_append_slash (P : Bytes) : final false (P ++ [slash]) = final false P := by
  unfold final; rw [core_append_slash]

/-! ### M4: white-space runes around the string -/

theorem trimSpace_ws_left {w : Bytes} (hw : isWsRune w = true) (P : Bytes) :
    trimSpace (w ++ P) = trimSpace P := by
  rw [trimSpace_eq, trimSpace_eq]
  have h := spaceAtHead_ws hw P
  have hpos : 0 < H (w ++ P) := by
    rw [show H (w ++ P) = w.length from h]
    cases w with
    | nil => simp [isWsRune] at hw
    | cons a t => simp
  rw [strip_pos hH hpos, show H (w ++ P) = w.length from h, List.drop_left]

theorem rtrim_Hr_ws {w : Bytes} (hw : isWsRune w = true) (y : Bytes) : rtrim Hr (y ++ w) = rtrim Hr y := by
  unfold rtrim
  have h := spaceAtHeadRev_ws hw y.reverse
  have hpos : 0 < Hr (w.reverse ++ y.reverse) := by
    rw [show Hr (w.reverse ++ y.reverse) = w.length from h]
    cases w with
    | nil => simp [isWsRune] at hw
    | cons a t => simp
  rw [List.reverse_append, strip_pos hHr hpos, show Hr (w.reverse ++ y.reverse) = w.length from h]
  have : w.length = w.reverse.length := by simp
  rw [this, List.drop_left]

theorem trimSpace_ws_right {w : Bytes} (hw : isWsRune w = true) (P : Bytes) :
    trimSpace (P ++ w) = trimSpace P := by
  rw [trimSpace_eq, trimSpace_eq, strip_append hH]
  by_cases hy : strip H P = []
  · rw [hy, List.nil_append]
    have h := spaceAtHead_ws hw []
    rw [List.append_nil] at h
    have hpos : 0 < H w := by
      rw [show H w = w.length from h]
      cases w with
      | nil => simp [isWsRune] at hw
      | cons a t => simp
    rw [strip_pos hH hpos, show H w = w.length from h, List.drop_length]
    rfl
  · obtain ⟨c, t, hwc, hc⟩ := wsRune_head hw
    have h0 : H (strip H P ++ w) = 0 := by
      rw [hwc]; exact spaceAtHead_after t (strip_fix hH P) hy hc
    rw [strip_zero h0, rtrim_Hr_ws hw]

theorem trimSpace_ws_rights (r : List Bytes) (hr : ∀ w ∈ r, isWsRune w = true) (P : Bytes) :
    trimSpace (P ++ r.flatten) = trimSpace P := by
  induction r generalizing P with
  | nil => simp
  | cons w r ih =>
    rw [List.flatten_cons, ← List.append_assoc, ih (fun x hx => hr x (by simp [hx])),
      trimSpace_ws_right (hr w (by simp))]

theorem trimSpace_ws (l r : List Bytes) (hl : ∀ w ∈ l, isWsRune w = true) (hr : ∀ w ∈ r, isWsRune w = true)
    (P : Bytes) : trimSpace (l.flatten ++ P ++ r.flatten) = trimSpace P := by
  rw [trimSpace_ws_rights r hr]
  induction l with
  | nil => simp
  | cons w l ih =>
    rw [List.flatten_cons, List.append_assoc, trimSpace_ws_left (hl w (by simp))]
    exact ih (fun x hx => hl x (by simp [hx]))

/-! ### registration = lookup -/

theorem final_simple (st : Bool) (P : Bytes) : final st (simpleFmtPath P) = final st P := by
  rw [simpleFmtPath_eq, ← final_trimSpace st P]
  unfold final
  rw [core_strict]
  obtain ⟨k, hq, _⟩ := trimLeft_decomp slash (trimSpace P)
  generalize trimLeftByte slash (trimSpace P) = v at hq
  show final st (slash :: v) = final st (trimSpace P)
  cases k with
  | zero =>
    rw [List.replicate_zero, List.nil_append] at hq
    rw [final_cons_slash st (by rw [← hq]; exact trimSpace_noLead P), hq]
  | succ n => rw [hq, final_replicate_slash]

/-! ### groups -/

theorem nf_head {st : Bool} {s : Bytes} (h : NF st s) : ∃ t, s = slash :: t := by
  rcases h with h | ⟨c, rest, hs, _⟩
  · exact ⟨[], h⟩
  · exact ⟨c :: rest, hs⟩

theorem nf_noLead {st : Bool} {s : Bytes} (h : NF st s) : H s = 0 := by
  obtain ⟨t, ht⟩ := nf_head h; rw [ht]; exact H_slash t

theorem nf_noTrail {st : Bool} {s : Bytes} (h : NF st s) : Hr s.reverse = 0 := by
  rcases h with h | ⟨c, rest, _, _, ht, _⟩
  · subst h; exact Hr_slash []
  · exact ht

/-- prefix `/`: the route path as it is -/
theorem group_root {st : Bool} {P' : Bytes} (hP : NF st P') : final st ([slash] ++ P') = P' := by
  rw [List.singleton_append, final_cons_slash st (nf_noLead hP), nf_fixed hP]

/-- route path `/` in non-strict mode: the prefix as it is -/
theorem group_slash {G' : Bytes} (hG : NF false G') : final false (G' ++ [slash]) = G' := by
  rw [final_append_slash, nf_fixed hG]

/-- otherwise the concatenation is already normal -/
theorem group_concat {st : Bool} {G' P' : Bytes} (hG : NF st G') (hG1 : G' ≠ [slash]) (hP : NF st P')
    (hP1 : st = false → P' ≠ [slash]) : NF st (G' ++ P') := by
  rcases hG with h | ⟨c, rest, hs, hc, _, _⟩
  · exact absurd h hG1
  · right
    refine ⟨c, rest ++ P', by rw [hs]; rfl, hc, ?_, ?_⟩
    · rw [List.reverse_append]
      rcases hP with h | ⟨c', rest', hs', _, ht', _⟩
      · subst h; exact Hr_slash _
      · rw [hs', List.reverse_cons] at ht' ⊢
        rw [List.append_assoc, List.singleton_append]
        exact Hr_after_slash _ (head_zero_of_append hHr ht')
    · intro hst
      rcases hP with h | ⟨c', rest', hs', _, _, he'⟩
      · exact absurd h (hP1 hst)
      · rw [endsWith_append _ _ (by rw [hs']; simp)]
        exact he' hst

/-- the stored path as a total function (the panic-free reading of `storedPath`) -/
def stored (st : Bool) (pre P : Bytes) : Bytes :=
  if pre ≠ [] then final st (pre ++ final st P) else final st P

theorem storedPath_eq (st : Bool) (pre P : Bytes) : storedPath st pre P = .ok (stored st pre P) := by
  unfold storedPath stored
  simp only [formatPath_eq, final_simple, bind, Except.bind, pure, Except.pure]
  split <;> rfl

theorem stored_nf (st : Bool) (pre P : Bytes) : NF st (stored st pre P) := by
  unfold stored; split <;> exact final_nf _ _

theorem nestedPrefix_eq (st : Bool) (prev : Bytes) (gs : List Bytes) :
    nestedPrefix st prev gs = .ok (prev ++ (gs.map (final st)).flatten) := by
  induction gs generalizing prev with
  | nil => simp [nestedPrefix]
  | cons g gs ih =>
    simp only [nestedPrefix, groupPrefix, formatPath_eq, bind, Except.bind, pure, Except.pure]
    rw [ih]; simp

/-! ### the static table -/

theorem find_add (t : Table) (m p key : Bytes) (id : Nat) :
    (t.add m p id).find key = if m ++ p = key then some id else t.find key := by
  simp [Table.add, Table.find]

/-- method names without `/` and paths that start with `/`: the concatenated key determines both -/
theorem key_inj {m1 m2 p1 p2 : Bytes} (h1 : slash ∉ m1) (h2 : slash ∉ m2)
    (h : m1 ++ slash :: p1 = m2 ++ slash :: p2) : m1 = m2 ∧ p1 = p2 := by
  induction m1 generalizing m2 with
  | nil =>
    cases m2 with
    | nil => simpa using h
    | cons b t => simp at h; exact absurd h.1.symm (by intro hb; apply h2; simp [hb])
  | cons a t ih =>
    cases m2 with
    | nil => simp at h; exact absurd h.1 (by intro ha; apply h1; simp [ha])
    | cons b t' =>
      simp only [List.cons_append, List.cons.injEq] at h
      have := ih (m2 := t') (by intro hx; apply h1; simp [hx]) (by intro hx; apply h2; simp [hx]) h.2
      exact ⟨by rw [h.1, this.1], this.2⟩

theorem final_head (st : Bool) (p : Bytes) : ∃ t, final st p = slash :: t := ⟨_, rfl⟩

theorem find_some_mem {t : Table} {key : Bytes} {id : Nat} (h : t.find key = some id) : (key, id) ∈ t := by
  induction t with
  | nil => simp [Table.find] at h
  | cons e t ih =>
    obtain ⟨k, i⟩ := e
    simp only [Table.find] at h
    split at h
    · rename_i hk; injection h with h; subst hk h; simp
    · simp [ih h]

theorem find_of_mem {t : Table} {key : Bytes} {id : Nat} (h : (key, id) ∈ t) : ∃ id', t.find key = some id' := by
  induction t with
  | nil => simp at h
  | cons e t ih =>
    obtain ⟨k, i⟩ := e
    simp only [Table.find]
    split
    · exact ⟨i, rfl⟩
    · rename_i hk
      simp only [List.mem_cons, Prod.mk.injEq] at h
      rcases h with h | h
      · exact absurd h.1.symm hk
      · exact ih h

/-- the key under which a registration `(gs, m, p, id)` is stored -/
def regKey (st : Bool) (pre0 : Bytes) (e : List Bytes × Bytes × Bytes × Nat) : Bytes :=
  e.2.1 ++ stored st (pre0 ++ (e.1.map (final st)).flatten) e.2.2.1

theorem regAll_eq (r : Router) (regs : List (List Bytes × Bytes × Bytes × Nat)) :
    r.regAll regs = .ok { r with stable :=
      (regs.reverse.map fun e => (regKey r.strict r.prefix_ e, e.2.2.2)) ++ r.stable } := by
  induction regs generalizing r with
  | nil => simp [Router.regAll]
  | cons e regs ih =>
    obtain ⟨gs, m, p, id⟩ := e
    simp only [Router.regAll, Router.addStatic, nestedPrefix_eq, storedPath_eq, bind, Except.bind, pure,
      Except.pure]
    rw [ih]
    simp [regKey, Table.add]

end Rux.Path
