import RuxModel.Model.Dispatch
/-
  Helper lemmas about the dispatch model (used by Props/C09.lean and Props/C10.lean).

  The central notion is `Good q st o`: running something from state `st` with result `o`
  * never changes `ctx.router`,
  * only APPENDS to the trace, and every appended event `e` has `e.zone = q`
    (`.chain`: produced by the chain / the OnError handler, `.hook`: produced by the body of the OnPanic hook),
  * and when the result is a panic with value `v`, the last appended event is `panicked p v`.
  `Good` is closed under sequencing, so it lifts from single actions to `runS`, `runActs`, `loop`, `body`.
-/
namespace Rux.Dispatch

/-- where a trace event comes from: the chain (handlers, OnError), the body of the OnPanic hook,
    or the two marks around the hook -/
inductive Zone
  | chain
  | hook
  | frame
  deriving DecidableEq, Repr

def Pos.zone : Pos → Zone
  | .hook => .hook
  | _ => .chain

def TEv.zone : TEv → Zone
  | .hookEnter => .frame
  | .hookLeave => .frame
  | .mark p _ => p.zone
  | .panicked p _ => p.zone
  | .got p _ _ => p.zone
  | .obs p _ => p.zone
  | _ => .chain

/-- lift the result of a simple action into the chain's result type -/
def liftP (r : St × Option PVal) : Out := (r.1, r.2.map Stop.panic)

structure Good (q : Zone) (st : St) (o : Out) : Prop where
  router : o.1.ctx.router = st.ctx.router
  wlen : noWritten ≤ st.ctx.writer.length → noWritten ≤ o.1.ctx.writer.length
  trace : ∃ evs, o.1.trace = st.trace ++ evs ∧ (∀ e ∈ evs, e.zone = q) ∧
            ∀ v, o.2 = some (.panic v) → ∃ pre p, evs = pre ++ [.panicked p v]

theorem Good.of_eq' {q : Zone} {st st' : St} (hr : st'.ctx.router = st.ctx.router) (ht : st'.trace = st.trace)
    (hw : noWritten ≤ st.ctx.writer.length → noWritten ≤ st'.ctx.writer.length) :
    Good q st (st', none) :=
  ⟨hr, hw, [], by simp [ht], by simp, by simp⟩

theorem Good.of_eq {q : Zone} {st st' : St} (hr : st'.ctx.router = st.ctx.router) (ht : st'.trace = st.trace)
    (hw : st'.ctx.writer.length = st.ctx.writer.length) : Good q st (st', none) :=
  Good.of_eq' hr ht (by rw [hw]; exact id)

theorem Good.refl {q : Zone} (st : St) : Good q st (st, none) := Good.of_eq rfl rfl rfl

theorem Good.ev {q : Zone} (st : St) (e : TEv) (he : e.zone = q) : Good q st (st.ev e, none) :=
  ⟨rfl, id, [e], rfl, by simpa using he, by simp⟩

/-- an action that panics, leaving `panicked p v` as its only event -/
theorem Good.panic {q : Zone} (st : St) (p : Pos) (v : PVal) (he : (TEv.panicked p v).zone = q) :
    Good q st (st.ev (.panicked p v), some (.panic v)) :=
  ⟨rfl, id, [.panicked p v], rfl, by simpa using he, by
    intro v' h
    have : v = v' := by simpa using h
    subst this
    exact ⟨[], p, rfl⟩⟩

theorem Good.bind {q : Zone} {st st1 : St} {o : Out} (h1 : Good q st (st1, none)) (h2 : Good q st1 o) : Good q st o := by
  obtain ⟨r1, w1, e1, t1, p1, _⟩ := h1
  obtain ⟨r2, w2, e2, t2, p2, f2⟩ := h2
  refine ⟨r2.trans r1, fun h => w2 (w1 h), e1 ++ e2, ?_, ?_, ?_⟩
  · rw [t2, t1, List.append_assoc]
  · intro e he
    rcases List.mem_append.mp he with h | h
    · exact p1 e h
    · exact p2 e h
  · intro v hv
    obtain ⟨pre, p, hp⟩ := f2 v hv
    exact ⟨e1 ++ pre, p, by rw [hp, List.append_assoc]⟩

/-! ### single actions -/

theorem ensureWH_router (st : St) : (ensureWH st).ctx.router = st.ctx.router := by
  unfold ensureWH; dsimp only; split <;> rfl

theorem ensureWH_trace (st : St) : (ensureWH st).trace = st.trace := by
  unfold ensureWH; dsimp only; split <;> rfl

theorem ownWriteHeader_router (st : St) (c : Int) : (ownWriteHeader st c).ctx.router = st.ctx.router := by
  unfold ownWriteHeader; dsimp only; split <;> rfl

theorem ownWriteHeader_trace (st : St) (c : Int) : (ownWriteHeader st c).trace = st.trace := by
  unfold ownWriteHeader; dsimp only; split <;> rfl

theorem ownWrite_router (st : St) (b : Bytes) : (ownWrite st b).ctx.router = st.ctx.router := by
  simp [ownWrite, ensureWH_router]

theorem ownWrite_trace (st : St) (b : Bytes) : (ownWrite st b).trace = st.trace := by
  simp [ownWrite, ensureWH_trace]

theorem ensureWH_wlen (st : St) (h0 : noWritten ≤ st.ctx.writer.length) :
    0 ≤ (ensureWH st).ctx.writer.length := by
  unfold ensureWH; dsimp only
  split
  · simp
  · rename_i h; simp only [noWritten, Facts.noWritten] at h h0 ⊢; omega

theorem ownWriteHeader_wlen (st : St) (c : Int) :
    (ownWriteHeader st c).ctx.writer.length = st.ctx.writer.length := by
  unfold ownWriteHeader; dsimp only; split <;> rfl

theorem ownWrite_wlen (st : St) (b : Bytes) (h0 : noWritten ≤ st.ctx.writer.length) :
    0 ≤ (ownWrite st b).ctx.writer.length := by
  have h := ensureWH_wlen st h0
  simp only [ownWrite]
  omega

theorem good_ensureWH {q : Zone} (st : St) : Good q st (ensureWH st, none) :=
  Good.of_eq' (ensureWH_router st) (ensureWH_trace st) (fun h => by have := ensureWH_wlen st h; simp only [noWritten, Facts.noWritten]; omega)

theorem respWriteHeader_good (p : Pos) (st : St) (code : Int) :
    Good p.zone st (liftP (respWriteHeader p st code)) := by
  unfold respWriteHeader liftP
  split
  · exact Good.of_eq (ownWriteHeader_router st code) (ownWriteHeader_trace st code) (ownWriteHeader_wlen st code)
  · exact Good.of_eq rfl rfl rfl
  · exact Good.panic st p .rtNilMap rfl

theorem stepS_good (p : Pos) (a : SAct) (st : St) : Good p.zone st (liftP (stepS p a st)) := by
  cases a with
  | emit t => exact Good.ev st _ rfl
  | panic v => exact Good.panic st p v rfl
  | set k v => exact Good.of_eq rfl rfl rfl
  | addError e => exact Good.of_eq rfl rfl rfl
  | setParam k v =>
    simp only [stepS]
    split
    · exact Good.panic st p .rtNilMap rfl
    · exact Good.of_eq rfl rfl rfl
  | abort => exact Good.of_eq rfl rfl rfl
  | setStatus c => exact Good.of_eq (ownWriteHeader_router st c) (ownWriteHeader_trace st c) (ownWriteHeader_wlen st c)
  | write b =>
    simp only [stepS]
    split
    · exact Good.of_eq' (ownWrite_router st b) (ownWrite_trace st b) (fun h => by have := ownWrite_wlen st b h; simp only [noWritten, Facts.noWritten]; omega)
    · exact Good.of_eq rfl rfl rfl
    · exact Good.panic st p .rtNilMap rfl
  | respWH c => exact respWriteHeader_good p st c
  | replaceResp id => exact Good.of_eq rfl rfl rfl
  | replaceReq id => exact Good.of_eq rfl rfl rfl
  | get k => exact Good.ev st _ rfl
  | dump => exact Good.ev st _ rfl

theorem runS_good (p : Pos) (l : List SAct) (st : St) : Good p.zone st (liftP (runS p l st)) := by
  induction l generalizing st with
  | nil => exact Good.refl st
  | cons a rest ih =>
    have h := stepS_good p a st
    rw [runS]
    generalize stepS p a st = r at h
    obtain ⟨s, x⟩ := r
    cases x with
    | none => exact Good.bind h (ih s)
    | some v => exact h

/-! ### the chain -/

theorem runActs_good (k : St → Out) (hk : ∀ st, Good .chain st (k st)) (i : Nat) (l : List Act) (st : St) :
    Good .chain st (runActs k i l st) := by
  induction l generalizing st with
  | nil => exact Good.refl st
  | cons a rest ih =>
    cases a with
    | next =>
      have h := hk st
      rw [runActs]
      generalize k st = r at h
      obtain ⟨s, x⟩ := r
      cases x with
      | none => exact Good.bind h (ih s)
      | some v => exact h
    | s a =>
      have h := stepS_good (.h i) a st
      rw [runActs]
      generalize stepS (.h i) a st = r at h
      obtain ⟨s, x⟩ := r
      cases x with
      | none => exact Good.bind h (ih s)
      | some v => exact h

theorem loop_good (hs : List Handler) : ∀ (i : Nat) (st : St), Good .chain st (loop i hs st) := by
  induction hs with
  | nil =>
    intro i st
    rw [loop]
    split
    · exact ⟨rfl, id, [], by simp, by simp, by simp⟩
    · exact Good.refl st
  | cons h rest ih =>
    intro i st
    rw [loop]
    split
    · split
      · -- run handler `i`
        have hidx : Good .chain st ({ st with ctx := { st.ctx with index := st.ctx.index + 1 } }, none) :=
          Good.of_eq rfl rfl rfl
        cases h with
        | acts l =>
          simp only
          refine Good.bind (Good.bind hidx (Good.ev _ (.enter i) rfl)) ?_
          have h := runActs_good _ (ih (i + 1)) i l
            (({ st with ctx := { st.ctx with index := st.ctx.index + 1 } } : St).ev (.enter i))
          generalize runActs (loop (i + 1) rest) i l
            (({ st with ctx := { st.ctx with index := st.ctx.index + 1 } } : St).ev (.enter i)) = r at h
          obtain ⟨s, x⟩ := r
          cases x with
          | none => exact Good.bind h (Good.bind (Good.ev s (.leave i) rfl) (ih (i + 1) _))
          | some v => exact h
        | builtin l =>
          simp only
          refine Good.bind hidx ?_
          have h := runS_good (.h i) l { st with ctx := { st.ctx with index := st.ctx.index + 1 } }
          generalize runS (.h i) l { st with ctx := { st.ctx with index := st.ctx.index + 1 } } = r at h
          obtain ⟨s, x⟩ := r
          cases x with
          | none => exact Good.bind h (ih (i + 1) s)
          | some v => exact h
        | panicsHandler =>
          simp only
          refine Good.bind hidx ?_
          have h := ih (i + 1) { st with ctx := { st.ctx with index := st.ctx.index + 1 } }
          generalize loop (i + 1) rest { st with ctx := { st.ctx with index := st.ctx.index + 1 } } = r at h
          obtain ⟨s, x⟩ := r
          cases x with
          | none => exact Good.bind h (ih (i + 1) s)
          | some x =>
            cases x with
            | off => exact h
            | panic v =>
              -- recovered: the events so far stay, the result is no longer a panic
              have h' : Good .chain { st with ctx := { st.ctx with index := st.ctx.index + 1 } } (s, none) := by
                obtain ⟨r1, w1, e1, t1, p1, _⟩ := h
                exact ⟨r1, w1, e1, t1, p1, by simp⟩
              refine Good.bind h' ?_
              have h2 := respWriteHeader_good (.h i) s 500
              simp only
              generalize respWriteHeader (.h i) s 500 = r2 at h2
              obtain ⟨s3, x3⟩ := r2
              cases x3 with
              | none => exact Good.bind h2 (ih (i + 1) s3)
              | some v3 => exact h2
      · split
        · exact ih (i + 1) st
        · exact ⟨rfl, id, [], by simp, by simp, by simp⟩
    · exact Good.refl st

theorem runOnError_good (cfg : Cfg) (st : St) : Good .chain st (liftP (runOnError cfg st)) := by
  unfold runOnError
  split
  · exact Good.refl st
  · split
    · exact Good.refl st
    · rename_i eh _ _
      refine Good.bind (Good.ev st .errEnter rfl) ?_
      have h := runS_good .onErr eh (st.ev .errEnter)
      generalize runS .onErr eh (st.ev .errEnter) = r at h
      obtain ⟨s, x⟩ := r
      cases x with
      | none => exact Good.bind h (Good.ev s .errLeave rfl)
      | some v => exact h

theorem body_good (cfg : Cfg) (rq : Req) (c : Ctx) : Good .chain (start rq c) (body cfg rq c) := by
  unfold body
  have h := loop_good rq.chain 0 (start rq c)
  generalize loop 0 rq.chain (start rq c) = r at h
  obtain ⟨s, x⟩ := r
  cases x with
  | some x => exact h
  | none =>
    refine Good.bind h ?_
    have h2 := runOnError_good cfg s
    simp only
    generalize runOnError cfg s = r2 at h2
    obtain ⟨s2, x2⟩ := r2
    cases x2 with
    | none => exact Good.bind h2 (good_ensureWH s2)
    | some v => exact h2

/-! ### `handleHTTPRequest` keeps `ctx.router` -/

theorem set_router (c : Ctx) (k : Bytes) (v : Val) : (c.set k v).router = c.router := rfl

theorem prelude_router (k : Kind) (c : Ctx) : (prelude k c).router = c.router := by
  cases k <;> rfl

theorem start_router (rq : Req) (c : Ctx) : (start rq c).ctx.router = c.router := by
  simp [start, prelude_router]

theorem handleRequest_router (cfg : Cfg) (rq : Req) (c : Ctx) :
    (handleRequest cfg rq c).1.ctx.router = c.router := by
  have hb := (body_good cfg rq c).router
  rw [start_router] at hb
  unfold handleRequest
  split
  · exact hb
  · rename_i hk _
    generalize body cfg rq c = r at hb
    obtain ⟨s, x⟩ := r
    cases x with
    | none => exact hb
    | some x =>
      cases x with
      | off => exact hb
      | panic v =>
        simp only
        have h := (runS_good .hook hk (hookStart v s)).router
        generalize runS .hook hk (hookStart v s) = r2 at h
        obtain ⟨s2, x2⟩ := r2
        cases x2 with
        | none =>
          simp only [liftP] at h ⊢
          rw [ensureWH_router]
          exact h.trans hb
        | some v2 =>
          simp only [liftP] at h ⊢
          exact h.trans hb

/-! ### `Init` -/

/-- `Init` overwrites every field except `router` -/
theorem init_eq (c : Ctx) (w r : Nat) : c.init w r = (newCtx c.router).init w r := by
  simp [Ctx.init, Ctx.reset, Writer.reset, newCtx]

theorem init_router (c : Ctx) (w r : Nat) : (c.init w r).router = c.router := rfl

/-! ### the loop when nothing is left to run -/

theorem loop_done (i : Nat) (hs : List Handler) (st : St) (h : ¬ st.ctx.index < st.last) :
    loop i hs st = (st, none) := by
  cases hs with
  | nil => rw [loop]; simp [h]
  | cons a rest => rw [loop]; simp [h]

/-! ### the model never leaves its fragment for chains of at most 64 handlers

  `Stop.off` is produced only when the cursor is BEHIND the list position.  With at most 64 handlers the
  cursor never decreases (`Abort` sets it to 63, which is then ≥ every position) — so `off` is unreachable. -/

/-- what a run from `st` to `o` does to the cursor and the handler list -/
structure Fwd (st : St) (o : Out) : Prop where
  noOff : o.2 ≠ some .off
  mono : st.ctx.index ≤ o.1.ctx.index
  le63 : o.1.ctx.index ≤ 63
  handlers : o.1.ctx.handlers = st.ctx.handlers

theorem Fwd.refl (st : St) (h : st.ctx.index ≤ 63) : Fwd st (st, none) :=
  ⟨by simp, Int.le_refl _, h, rfl⟩

theorem Fwd.bind {st st1 : St} {o : Out} (h1 : Fwd st (st1, none)) (h2 : Fwd st1 o) : Fwd st o :=
  ⟨h2.noOff, Int.le_trans h1.mono h2.mono, h2.le63, h2.handlers.trans h1.handlers⟩

theorem ensureWH_index (st : St) : (ensureWH st).ctx.index = st.ctx.index ∧ (ensureWH st).ctx.handlers = st.ctx.handlers := by
  unfold ensureWH; dsimp only; split <;> exact ⟨rfl, rfl⟩

theorem ownWriteHeader_index (st : St) (c : Int) :
    (ownWriteHeader st c).ctx.index = st.ctx.index ∧ (ownWriteHeader st c).ctx.handlers = st.ctx.handlers := by
  unfold ownWriteHeader; dsimp only; split <;> exact ⟨rfl, rfl⟩

theorem ownWrite_index (st : St) (b : Bytes) :
    (ownWrite st b).ctx.index = st.ctx.index ∧ (ownWrite st b).ctx.handlers = st.ctx.handlers := by
  simp [ownWrite, (ensureWH_index st).1, (ensureWH_index st).2]

theorem Fwd.same {st st' : St} {x : Option Stop} (hx : x ≠ some .off) (h : st.ctx.index ≤ 63)
    (hi : st'.ctx.index = st.ctx.index) (hh : st'.ctx.handlers = st.ctx.handlers) : Fwd st (st', x) :=
  ⟨hx, by rw [hi]; exact Int.le_refl _, by rw [hi]; exact h, hh⟩

theorem respWriteHeader_fwd (p : Pos) (st : St) (code : Int) (h : st.ctx.index ≤ 63) :
    Fwd st (liftP (respWriteHeader p st code)) := by
  unfold respWriteHeader liftP
  split
  · exact Fwd.same (by simp) h (ownWriteHeader_index st code).1 (ownWriteHeader_index st code).2
  · exact Fwd.same (by simp) h rfl rfl
  · exact Fwd.same (by simp) h rfl rfl

theorem stepS_fwd (p : Pos) (a : SAct) (st : St) (h : st.ctx.index ≤ 63) : Fwd st (liftP (stepS p a st)) := by
  cases a with
  | emit t => exact Fwd.same (by simp [stepS]) h rfl rfl
  | panic v => exact Fwd.same (by simp [stepS]) h rfl rfl
  | set k v => exact Fwd.same (by simp [stepS]) h rfl rfl
  | addError e => exact Fwd.same (by simp [stepS]) h rfl rfl
  | setParam k v =>
    simp only [stepS, liftP]
    split
    · exact Fwd.same (by simp) h rfl rfl
    · exact Fwd.same (by simp) h rfl rfl
  | abort =>
    exact ⟨by simp [liftP, stepS], by simpa [liftP, stepS, abortIndex, Facts.abortIndex] using h,
      by simp [liftP, stepS, abortIndex, Facts.abortIndex], rfl⟩
  | setStatus c => exact Fwd.same (by simp [stepS]) h (ownWriteHeader_index st c).1 (ownWriteHeader_index st c).2
  | write b =>
    simp only [stepS, liftP]
    split
    · exact Fwd.same (by simp) h (ownWrite_index st b).1 (ownWrite_index st b).2
    · exact Fwd.same (by simp) h rfl rfl
    · exact Fwd.same (by simp) h rfl rfl
  | respWH c => exact respWriteHeader_fwd p st c h
  | replaceResp id => exact Fwd.same (by simp [stepS]) h rfl rfl
  | replaceReq id => exact Fwd.same (by simp [stepS]) h rfl rfl
  | get k => exact Fwd.same (by simp [stepS]) h rfl rfl
  | dump => exact Fwd.same (by simp [stepS]) h rfl rfl

theorem runS_fwd (p : Pos) (l : List SAct) (st : St) (h : st.ctx.index ≤ 63) : Fwd st (liftP (runS p l st)) := by
  induction l generalizing st with
  | nil => exact Fwd.refl st h
  | cons a rest ih =>
    have h1 := stepS_fwd p a st h
    rw [runS]
    generalize stepS p a st = r at h1
    obtain ⟨s, x⟩ := r
    cases x with
    | none => exact Fwd.bind h1 (ih s h1.le63)
    | some v => exact h1

theorem loop_fwd (hs : List Handler) : ∀ (i : Nat) (st : St),
    i + hs.length = st.ctx.handlers.length → st.ctx.handlers.length ≤ 64 →
    (i : Int) ≤ st.ctx.index + 1 → st.ctx.index ≤ 63 → Fwd st (loop i hs st) := by
  induction hs with
  | nil =>
    intro i st hlen _ hpos h63
    rw [loop]
    have : ¬ st.ctx.index < st.last := by
      simp only [St.last]
      simp only [List.length_nil, Nat.add_zero] at hlen
      omega
    simp only [this, if_false]
    exact Fwd.refl st h63
  | cons h rest ih =>
    intro i st hlen h64 hpos h63
    have hlen' : (i + 1) + rest.length = st.ctx.handlers.length := by
      simp only [List.length_cons] at hlen; omega
    rw [loop]
    split
    · rename_i hlt
      have hidx63 : st.ctx.index + 1 ≤ 63 := by
        simp only [St.last] at hlt; omega
      split
      · rename_i heq
        -- the state in which handler `i` runs
        have hst1 : Fwd st ({ st with ctx := { st.ctx with index := st.ctx.index + 1 } }, none) :=
          ⟨by simp, by simp; omega, hidx63, rfl⟩
        have hi1 : ((i : Nat) : Int) ≤ ({ st with ctx := { st.ctx with index := st.ctx.index + 1 } } : St).ctx.index := by
          simp only; omega
        have hk : ∀ s : St, s.ctx.handlers = st.ctx.handlers → s.ctx.index ≤ 63 → (i : Int) ≤ s.ctx.index →
            Fwd s (loop (i + 1) rest s) := by
          intro s hh h1 h2
          exact ih (i + 1) s (by rw [hh]; exact hlen') (by rw [hh]; exact h64) (by push_cast; omega) h1
        cases h with
        | acts l =>
          simp only
          refine Fwd.bind hst1 ?_
          have hev : Fwd ({ st with ctx := { st.ctx with index := st.ctx.index + 1 } } : St)
              ((({ st with ctx := { st.ctx with index := st.ctx.index + 1 } } : St).ev (.enter i)), none) :=
            Fwd.same (by simp) hidx63 rfl rfl
          refine Fwd.bind hev ?_
          -- `runActs` with `k = loop (i+1) rest`; the handler list is unchanged along the way
          have hra : ∀ (l : List Act) (s : St), s.ctx.handlers = st.ctx.handlers → s.ctx.index ≤ 63 →
              (i : Int) ≤ s.ctx.index → Fwd s (runActs (loop (i + 1) rest) i l s) := by
            intro l
            induction l with
            | nil => intro s _ h1 _; exact Fwd.refl s h1
            | cons a tl ihl =>
              intro s hh h1 h2
              cases a with
              | next =>
                have hx := hk s hh h1 h2
                rw [runActs]
                generalize loop (i + 1) rest s = r at hx
                obtain ⟨s', x⟩ := r
                cases x with
                | none => exact Fwd.bind hx (ihl s' (hx.handlers.trans hh) hx.le63 (Int.le_trans h2 hx.mono))
                | some v => exact hx
              | s a =>
                have hx := stepS_fwd (.h i) a s h1
                rw [runActs]
                generalize stepS (.h i) a s = r at hx
                obtain ⟨s', x⟩ := r
                cases x with
                | none => exact Fwd.bind hx (ihl s' (hx.handlers.trans hh) hx.le63 (Int.le_trans h2 hx.mono))
                | some v => exact hx
          have hx := hra l ((({ st with ctx := { st.ctx with index := st.ctx.index + 1 } } : St).ev (.enter i))) rfl hidx63 hi1
          generalize runActs (loop (i + 1) rest) i l _ = r at hx
          obtain ⟨s', x⟩ := r
          cases x with
          | some v => exact hx
          | none =>
            refine Fwd.bind hx ?_
            have hl : Fwd s' (s'.ev (.leave i), none) := Fwd.same (by simp) hx.le63 rfl rfl
            refine Fwd.bind hl ?_
            exact hk (s'.ev (.leave i)) hx.handlers hx.le63 (Int.le_trans hi1 hx.mono)
        | builtin l =>
          simp only
          refine Fwd.bind hst1 ?_
          have hx := runS_fwd (.h i) l { st with ctx := { st.ctx with index := st.ctx.index + 1 } } hidx63
          generalize runS (.h i) l { st with ctx := { st.ctx with index := st.ctx.index + 1 } } = r at hx
          obtain ⟨s', x⟩ := r
          cases x with
          | some v => exact hx
          | none => exact Fwd.bind hx (hk s' hx.handlers hx.le63 (Int.le_trans hi1 hx.mono))
        | panicsHandler =>
          simp only
          refine Fwd.bind hst1 ?_
          have hx := hk { st with ctx := { st.ctx with index := st.ctx.index + 1 } } rfl hidx63 hi1
          generalize loop (i + 1) rest { st with ctx := { st.ctx with index := st.ctx.index + 1 } } = r at hx
          obtain ⟨s', x⟩ := r
          cases x with
          | none => exact Fwd.bind hx (hk s' hx.handlers hx.le63 (Int.le_trans hi1 hx.mono))
          | some x =>
            cases x with
            | off => exact absurd rfl hx.noOff
            | panic v =>
              have hx' : Fwd ({ st with ctx := { st.ctx with index := st.ctx.index + 1 } } : St) (s', none) :=
                ⟨by simp, hx.mono, hx.le63, hx.handlers⟩
              refine Fwd.bind hx' ?_
              have h2 := respWriteHeader_fwd (.h i) s' 500 hx.le63
              simp only
              generalize respWriteHeader (.h i) s' 500 = r2 at h2
              obtain ⟨s3, x3⟩ := r2
              cases x3 with
              | some v3 => exact h2
              | none =>
                simp only [liftP] at h2
                exact Fwd.bind h2 (hk s3 (h2.handlers.trans hx.handlers) h2.le63
                  (Int.le_trans (Int.le_trans hi1 hx.mono) h2.mono))
      · split
        · rename_i hgt
          exact ih (i + 1) st hlen' h64 (by push_cast; omega) h63
        · rename_i hne hgt
          omega
    · exact Fwd.refl st h63

/-! ### maps, commit -/

theorem mapGet_mapSet_same {α : Type} (m : List (Bytes × α)) (k : Bytes) (v : α) :
    mapGet (mapSet m k v) k = some v := by
  induction m with
  | nil => simp [mapSet, mapGet]
  | cons kv t ih =>
    obtain ⟨k', v'⟩ := kv
    by_cases h : k' = k
    · simp [mapSet, mapGet, h]
    · simp [mapSet, mapGet, h, ih]

/-- after `ensureWriteHeader` the header is committed -/
theorem ensureWH_committed (st : St) : (ensureWH st).ctx.writer.length ≠ noWritten := by
  unfold ensureWH
  dsimp only
  split
  · simp [noWritten, Facts.noWritten]
  · assumption

/-- the header commit that `ensureWriteHeader` sends for a writer in state `w` -/
def commitOf (w : Writer) : List WEv :=
  if w.length = noWritten then [.wh (.under w.under) (if w.status = 0 then 200 else w.status)] else []

theorem ensureWH_log (st : St) : (ensureWH st).log = st.log ++ commitOf st.ctx.writer := by
  unfold ensureWH commitOf
  dsimp only
  split <;> simp

/-! ### specification vocabulary of C10 / C09 -/

/-- every context in the pool was created by this router's `ctxPool.New` -/
def PoolOk (rid : Nat) (pool : List Ctx) : Prop := ∀ c ∈ pool, c.router = rid

/-- what `handleHTTPRequest` itself stores before the first handler runs -/
def preludeData : Kind → Data
  | .route _ name path => mapSet (mapSet [] keyRouteName (.str name)) keyRoutePath (.str path)
  | .notAllowed al => [(keyAllowed, .strs al)]
  | .notFound => []

def preludeParams : Kind → Params
  | .route ps _ _ => ps
  | _ => none

/-- the pristine observation of request `rq` on router `rid` -/
def pristineObs (rid : Nat) (rq : Req) : Obs :=
  { data := preludeData rq.kind, params := preludeParams rq.kind, errors := [], aborted := false,
    status := 0, length := -1, resp := .own, req := .orig rq.r, raw := some rq.w, router := rid }

theorem poolGet_router (rid : Nat) (pool : List Ctx) (pick : Option Nat) (h : PoolOk rid pool) :
    (poolGet rid pool pick).1.router = rid ∧ PoolOk rid (poolGet rid pool pick).2 := by
  unfold poolGet
  split
  · exact ⟨rfl, h⟩
  · split
    · rename_i n c hc
      refine ⟨h c (List.mem_of_getElem? hc), ?_⟩
      intro c' hc'
      exact h c' (List.mem_of_mem_eraseIdx hc')
    · exact ⟨rfl, h⟩

/-! ### what the first handler sees; the trace only grows -/

theorem loop_first_dump (l : List Act) (rest : List Handler) (st : St) (hidx : st.ctx.index = -1)
    (hh : st.ctx.handlers = .acts (.s .dump :: l) :: rest) :
    ∃ evs, (loop 0 (.acts (.s .dump :: l) :: rest) st).1.trace =
      st.trace ++ .enter 0 :: .obs (.h 0) ({ st.ctx with index := 0 } : Ctx).observe :: evs := by
  have hlt : st.ctx.index < st.last := by
    simp only [St.last, hh, hidx, List.length_cons]; omega
  have h0 : st.ctx.index + 1 = ((0 : Nat) : Int) := by rw [hidx]; rfl
  rw [loop]
  simp only [hlt, h0, if_true]
  rw [runActs]
  simp only [stepS]
  have hz : ((0 : Nat) : Int) = 0 := rfl
  have h := runActs_good (loop (0 + 1) rest) (loop_good rest (0 + 1)) 0 l
    ((({ st with ctx := { st.ctx with index := ((0 : Nat) : Int) } } : St).ev (.enter 0)).ev
      (.obs (.h 0) ((({ st with ctx := { st.ctx with index := ((0 : Nat) : Int) } } : St).ev (.enter 0)).ctx.observe)))
  generalize runActs (loop (0 + 1) rest) 0 l _ = r at h
  obtain ⟨s, x⟩ := r
  cases x with
  | some x =>
    obtain ⟨_, _, evs, ht, _⟩ := h
    simp only [St.ev, hz] at ht ⊢
    exact ⟨evs, by rw [ht]; simp [Ctx.observe]⟩
  | none =>
    obtain ⟨_, _, evs, ht, _⟩ := h
    obtain ⟨_, _, evs2, ht2, _⟩ := loop_good rest (0 + 1) (s.ev (.leave 0))
    refine ⟨evs ++ [.leave 0] ++ evs2, ?_⟩
    simp only [St.ev, hz, Nat.zero_add] at ht ht2 ⊢
    rw [ht2, ht]; simp [Ctx.observe]

theorem body_trace_mono (cfg : Cfg) (rq : Req) (c : Ctx) :
    ∃ evs, (body cfg rq c).1.trace = (loop 0 rq.chain (start rq c)).1.trace ++ evs := by
  unfold body
  generalize loop 0 rq.chain (start rq c) = r
  obtain ⟨s, x⟩ := r
  cases x with
  | some x => exact ⟨[], by simp⟩
  | none =>
    simp only
    have h2 := runOnError_good cfg s
    generalize runOnError cfg s = r2 at h2
    obtain ⟨s2, x2⟩ := r2
    obtain ⟨_, _, evs, ht, _⟩ := h2
    cases x2 with
    | none => exact ⟨evs, by simp only [ensureWH_trace]; exact ht⟩
    | some v => exact ⟨evs, ht⟩

theorem handleRequest_trace_mono (cfg : Cfg) (rq : Req) (c : Ctx) :
    ∃ evs, (handleRequest cfg rq c).1.trace = (body cfg rq c).1.trace ++ evs := by
  unfold handleRequest
  split
  · exact ⟨[], by simp⟩
  · rename_i hk _
    generalize body cfg rq c = r
    obtain ⟨s, x⟩ := r
    cases x with
    | none => exact ⟨[], by simp⟩
    | some x =>
      cases x with
      | off => exact ⟨[], by simp⟩
      | panic v =>
        simp only
        have h := runS_good .hook hk (hookStart v s)
        generalize runS .hook hk (hookStart v s) = r2 at h
        obtain ⟨s2, x2⟩ := r2
        obtain ⟨_, _, evs, ht, _⟩ := h
        simp only [liftP, hookStart, St.ev] at ht
        cases x2 with
        | none => exact ⟨.hookEnter :: evs ++ [.hookLeave], by simp [ensureWH_trace, St.ev, ht]⟩
        | some v2 => exact ⟨.hookEnter :: evs, by simp [ht]⟩

end Rux.Dispatch
