import RuxModel.Model.Reg
/-
  Lemmas about the registration-scope model (`Model/Reg.lean`): the interpreter computes the
  denotation; scope facts; group handlers are a prefix (outer → inner).
-/
namespace Rux.Reg

/-! ### Route.Use and the limit -/

theorem routeUse_ok {limit : Nat} {hs mw r : List H} (h : routeUse limit hs mw = .ok r) :
    r = hs ++ mw ∧ (hs ++ mw).length < limit := by
  unfold routeUse at h
  split at h
  · cases h
  · injection h with h; subst h; simp at *; omega

theorem routeUse_fits {limit : Nat} {hs mw : List H} (h : (hs ++ mw).length < limit) :
    routeUse limit hs mw = .ok (hs ++ mw) := by
  unfold routeUse
  simp at h
  rw [if_neg (by omega)]

theorem routeUses_ok {limit : Nat} : ∀ (l : List (List H)) {hs r : List H},
    routeUses limit hs l = .ok r → r = hs ++ l.flatten
  | [], hs, r, h => by simp [routeUses] at h; simp [h]
  | mw :: rest, hs, r, h => by
    simp only [routeUses] at h
    split at h
    · rename_i hs' h1
      have := routeUse_ok h1
      have h2 := routeUses_ok rest h
      simp [h2, this.1]
    · cases h

/-- if any `Use` call was made, the final list passed the limit test -/
theorem routeUses_ok_lt {limit : Nat} : ∀ (l : List (List H)) {hs r : List H},
    routeUses limit hs l = .ok r → l ≠ [] → r.length < limit
  | [], _, _, _, hne => absurd rfl hne
  | mw :: rest, hs, r, h, _ => by
    simp only [routeUses] at h
    split at h
    · rename_i hs' h1
      have h1' := routeUse_ok h1
      cases rest with
      | nil => simp [routeUses] at h; subst h; rw [h1'.1]; exact h1'.2
      | cons a t => exact routeUses_ok_lt (a :: t) h (by simp)
    · cases h

theorem routeUses_fits {limit : Nat} : ∀ (l : List (List H)) (hs : List H),
    (hs ++ l.flatten).length < limit → routeUses limit hs l = .ok (hs ++ l.flatten)
  | [], hs, _ => by simp [routeUses]
  | mw :: rest, hs, h => by
    simp only [routeUses]
    have h1 : (hs ++ mw).length < limit := by
      simp at h ⊢; omega
    rw [routeUse_fits h1]
    simp only
    have := routeUses_fits rest (hs ++ mw) (by simpa using h)
    simpa using this

theorem attach_ok {limit : Nat} {grp hs r : List H} (h : attachHandlers limit grp hs = .ok r) :
    r = grp ++ hs ∧ (grp ≠ [] → r.length < limit) := by
  unfold attachHandlers at h
  split at h
  · split at h
    · cases h
    · injection h with h; subst h
      refine ⟨rfl, fun _ => ?_⟩
      rename_i hlt; omega
  · rename_i hg
    injection h with h; subst h
    have : grp = [] := by simpa using hg
    subst this
    exact ⟨rfl, fun hne => absurd rfl hne⟩

theorem attach_fits {limit : Nat} {grp hs : List H} (h : (grp ++ hs).length < limit) :
    attachHandlers limit grp hs = .ok (grp ++ hs) := by
  unfold attachHandlers
  split
  · rw [if_neg (by omega)]
  · rename_i hg
    have : grp = [] := by simpa using hg
    subst this; rfl

/-! ### one route -/

def RS.push (st : RS) (r : Route) : RS := { st with routes := st.routes ++ [r] }

theorem addRoute_ok {cfg : Cfg} {st st' : RS} {d : RouteDef} (h : addRoute cfg st d = .ok st') :
    st' = st.push (mkRoute cfg st.toScope d) := by
  unfold addRoute at h
  split at h
  · cases h
  · rename_i h0 e0
    split at h
    · cases h
    · rename_i h1 e1
      split at h
      · cases h
      · rename_i h2 e2
        injection h with h; subst h
        have a0 := routeUses_ok _ e0
        have a1 := (attach_ok e1).1
        have a2 := routeUses_ok _ e2
        simp only [RS.push, mkRoute]
        subst a0 a1 a2
        simp

/-- an accepted route that went through any limit test has fewer than `limit` handlers -/
theorem addRoute_ok_lt {cfg : Cfg} {st st' : RS} {d : RouteDef} (h : addRoute cfg st d = .ok st')
    (hany : d.pre ≠ [] ∨ d.post ≠ [] ∨ st.grp ≠ []) :
    (mkRoute cfg st.toScope d).handlers.length < cfg.limit := by
  unfold addRoute at h
  split at h
  · cases h
  · rename_i h0 e0
    split at h
    · cases h
    · rename_i h1 e1
      split at h
      · cases h
      · rename_i h2 e2
        have a0 := routeUses_ok _ e0
        have a1 := attach_ok e1
        have a2 := routeUses_ok _ e2
        simp only [mkRoute]
        by_cases hpost : d.post = []
        · -- the last test was the attach test or the last `pre` use
          rw [hpost] at a2 ⊢
          simp at a2 ⊢
          by_cases hg : st.grp = []
          · have hpre : d.pre ≠ [] := by
              rcases hany with h | h | h
              · exact h
              · exact absurd hpost h
              · exact absurd hg h
            have := routeUses_ok_lt _ e0 hpre
            rw [a0] at this
            simpa [hg] using this
          · have := a1.2 hg
            rw [a1.1, a0] at this
            simpa using this
        · have := routeUses_ok_lt _ e2 hpost
          rw [a2, a1.1, a0] at this
          simpa [List.append_assoc] using this

theorem addRoute_fits {cfg : Cfg} (st : RS) (d : RouteDef)
    (h : (mkRoute cfg st.toScope d).handlers.length < cfg.limit) :
    addRoute cfg st d = .ok (st.push (mkRoute cfg st.toScope d)) := by
  simp only [mkRoute, List.length_append] at h
  unfold addRoute
  rw [routeUses_fits d.pre [] (by simp only [List.nil_append]; omega)]
  simp only
  rw [attach_fits (by simp only [List.nil_append, List.length_append]; omega)]
  simp only
  rw [routeUses_fits d.post _ (by simp only [List.nil_append, List.length_append]; omega)]
  simp [RS.push, mkRoute]

theorem addRoutes_ok {cfg : Cfg} : ∀ (ds : List RouteDef) {st st' : RS},
    addRoutes cfg st ds = .ok st' →
    st' = { st with routes := st.routes ++ ds.map (mkRoute cfg st.toScope) }
  | [], st, st', h => by simp [addRoutes] at h; subst h; simp
  | d :: rest, st, st', h => by
    simp only [addRoutes] at h
    split at h
    · rename_i st1 h1
      have e1 := addRoute_ok h1
      have e2 := addRoutes_ok rest h
      subst e1
      rw [e2]
      simp [RS.push]
    · cases h

theorem addRoutes_fits {cfg : Cfg} : ∀ (ds : List RouteDef) (st : RS),
    (∀ d ∈ ds, (mkRoute cfg st.toScope d).handlers.length < cfg.limit) →
    addRoutes cfg st ds = .ok { st with routes := st.routes ++ ds.map (mkRoute cfg st.toScope) }
  | [], st, _ => by simp [addRoutes]
  | d :: rest, st, h => by
    simp only [addRoutes]
    rw [addRoute_fits st d (h d (by simp))]
    simp only
    have := addRoutes_fits rest (st.push (mkRoute cfg st.toScope d))
      (fun d' hd' => by simpa [RS.push] using h d' (by simp [hd']))
    rw [this]
    simp [RS.push]

/-! ### the interpreter computes the denotation -/

/-- the state after a statement, as the denotation gives it -/
def RS.plus (st : RS) (r : List Route × Scope) : RS := ⟨r.2, st.routes ++ r.1⟩

mutual
theorem exec_den (cfg : Cfg) (st st' : RS) : (s : Stmt) → exec cfg st s = .ok st' →
    st' = st.plus (den cfg st.toScope s)
  | .use hs, h => by
    simp only [exec] at h; injection h with h; subst h; simp [RS.plus, den]
  | .route d, h => by
    simp only [exec] at h
    rw [addRoute_ok h]; simp [RS.plus, den, RS.push]
  | .group p mws body, h => by
    simp only [exec] at h
    split at h
    · rename_i st2 h2
      injection h with h; subst h
      have := execList_den cfg (st.enter cfg p mws) st2 body h2
      subst this
      simp [RS.leave, RS.plus, den, Scope.after, RS.enter]
    · cases h
  | .controller p mws body, h => by
    simp only [exec] at h
    split at h
    · rename_i st2 h2
      injection h with h; subst h
      have := execList_den cfg (st.enter cfg p mws) st2 body h2
      subst this
      simp [RS.leave, RS.plus, den, Scope.after, RS.enter]
    · cases h
  | .resource rd mws, h => by
    simp only [exec] at h
    split at h
    · cases h
    · split at h
      · rename_i st2 h2
        injection h with h; subst h
        rw [addRoutes_ok _ h2]
        simp [RS.leave, RS.plus, den, RS.enter, enterScope]
      · cases h
  | .notFound hs, h => by
    simp only [exec] at h; injection h with h; subst h; simp [RS.plus, den]
  | .notAllowed hs, h => by
    simp only [exec] at h; injection h with h; subst h; simp [RS.plus, den]
theorem execList_den (cfg : Cfg) (st st' : RS) : (l : List Stmt) → execList cfg st l = .ok st' →
    st' = st.plus (denList cfg st.toScope l)
  | [], h => by
    simp only [execList] at h; injection h with h; subst h; simp [RS.plus, denList]
  | s :: rest, h => by
    simp only [execList] at h
    split at h
    · rename_i st1 h1
      have e1 := exec_den cfg st st1 s h1
      have e2 := execList_den cfg st1 st' rest h
      rw [e2, e1]
      simp [RS.plus, denList]
    · cases h
end

/-! ### totality within the limit -/

mutual
theorem exec_total (cfg : Cfg) (st : RS) : (s : Stmt) → okCtrl s = true →
    (∀ r ∈ (den cfg st.toScope s).1, r.handlers.length < cfg.limit) →
    exec cfg st s = .ok (st.plus (den cfg st.toScope s))
  | .use hs, _, _ => by simp [exec, RS.plus, den]
  | .route d, _, h => by
    simp only [exec]
    rw [addRoute_fits st d (h _ (by simp [den]))]
    simp [RS.plus, den, RS.push]
  | .group p mws body, hc, h => by
    simp only [exec]
    have := execList_total cfg (st.enter cfg p mws) body (by simpa [okCtrl] using hc)
      (by simpa [den, RS.enter] using h)
    rw [this]
    simp [RS.leave, RS.plus, den, Scope.after, RS.enter]
  | .controller p mws body, hc, h => by
    simp only [exec]
    have := execList_total cfg (st.enter cfg p mws) body (by simpa [okCtrl] using hc)
      (by simpa [den, RS.enter] using h)
    rw [this]
    simp [RS.leave, RS.plus, den, Scope.after, RS.enter]
  | .resource rd mws, hc, h => by
    simp only [exec]
    have hk : rd.kind = .ptrStruct := by simpa [okCtrl] using hc
    rw [if_neg (by simp [hk])]
    have := addRoutes_fits (cfg := cfg) (restRoutes rd) (st.enter cfg (rd.base ++ rd.resName) mws)
      (fun d hd => h _ (by simp only [den, RS.enter]; exact List.mem_map_of_mem hd))
    rw [this]
    simp [RS.leave, RS.plus, den, RS.enter, enterScope]
  | .notFound hs, _, _ => by simp [exec, RS.plus, den]
  | .notAllowed hs, _, _ => by simp [exec, RS.plus, den]
theorem execList_total (cfg : Cfg) (st : RS) : (l : List Stmt) → okCtrlList l = true →
    (∀ r ∈ (denList cfg st.toScope l).1, r.handlers.length < cfg.limit) →
    execList cfg st l = .ok (st.plus (denList cfg st.toScope l))
  | [], _, _ => by simp [execList, RS.plus, denList]
  | s :: rest, hc, h => by
    simp only [okCtrlList, Bool.and_eq_true] at hc
    simp only [execList]
    rw [exec_total cfg st s hc.1 (fun r hr => h r (by simp [denList, hr]))]
    simp only
    rw [execList_total cfg _ rest hc.2 (fun r hr => h r (by
      simp only [denList, List.mem_append]; right; simpa [RS.plus] using hr))]
    simp [RS.plus, denList]
end

/-! ### `Group` extends the group list by appending -/

theorem enter_grp (cfg : Cfg) (sc : Scope) (p : Bytes) (mws : List H) :
    (enterScope cfg sc p mws).grp = sc.grp ++ mws := by
  simp only [enterScope]
  by_cases hm : mws = []
  · simp [hm]
  · by_cases hg : sc.grp = []
    · simp [hm, hg]
    · simp [hm, hg]

theorem enterScope_eq (cfg : Cfg) (sc : Scope) (p : Bytes) (mws : List H) :
    enterScope cfg sc p mws = { sc with pfx := sc.pfx ++ cfg.fmt p, grp := sc.grp ++ mws } := by
  have := enter_grp cfg sc p mws
  simp only [enterScope] at this ⊢
  rw [this]

/-! ### prefix and group handlers never leak out of a statement -/

mutual
theorem den_pfx (cfg : Cfg) (sc : Scope) : (s : Stmt) → (den cfg sc s).2.pfx = sc.pfx
  | .use hs => by simp only [den, useScope]; split <;> rfl
  | .route _ => rfl
  | .group _ _ _ => rfl
  | .controller _ _ _ => rfl
  | .resource _ _ => rfl
  | .notFound _ => rfl
  | .notAllowed _ => rfl
theorem denList_pfx (cfg : Cfg) (sc : Scope) : (l : List Stmt) → (denList cfg sc l).2.pfx = sc.pfx
  | [] => rfl
  | s :: rest => by
    simp only [denList]
    rw [denList_pfx cfg _ rest, den_pfx cfg sc s]
end

theorem denList_append (cfg : Cfg) : ∀ (a b : List Stmt) (sc : Scope),
    denList cfg sc (a ++ b) =
      ((denList cfg sc a).1 ++ (denList cfg (denList cfg sc a).2 b).1,
       (denList cfg (denList cfg sc a).2 b).2)
  | [], b, sc => by simp [denList]
  | s :: a, b, sc => by
    simp only [List.cons_append, denList]
    rw [denList_append cfg a b]
    simp

/-! ### group handlers are a prefix of the handlers of every route inside -/

def Scope.pre (g : List H) (sc : Scope) : Scope := { sc with grp := g ++ sc.grp }
def Route.pre (g : List H) (r : Route) : Route := { r with handlers := g ++ r.handlers }

theorem mkRoute_pre (cfg : Cfg) (sc : Scope) (g : List H) (d : RouteDef) :
    mkRoute cfg (sc.pre g) d = (mkRoute cfg sc d).pre g := by
  simp [mkRoute, Scope.pre, Route.pre]

theorem enter_pre (cfg : Cfg) (sc : Scope) (g : List H) (p : Bytes) (mws : List H) :
    enterScope cfg (sc.pre g) p mws = (enterScope cfg sc p mws).pre g := by
  rw [enterScope_eq, enterScope_eq]
  simp [Scope.pre]

mutual
theorem den_pre (cfg : Cfg) (g : List H) (sc : Scope) : (s : Stmt) →
    den cfg (sc.pre g) s = ((den cfg sc s).1.map (Route.pre g), (den cfg sc s).2.pre g)
  | .use hs => by
    simp only [den, useScope, Scope.pre]
    by_cases h : sc.pfx = [] <;> simp [h]
  | .route d => by simp [den, mkRoute_pre]
  | .group p mws body => by
    simp only [den]
    rw [enter_pre, denList_pre cfg g _ body]
    simp [Scope.after, Scope.pre]
  | .controller p mws body => by
    simp only [den]
    rw [enter_pre, denList_pre cfg g _ body]
    simp [Scope.after, Scope.pre]
  | .resource rd mws => by
    simp only [den]
    rw [enter_pre]
    simp [mkRoute_pre]
  | .notFound hs => by simp [den, Scope.pre]
  | .notAllowed hs => by simp [den, Scope.pre]
theorem denList_pre (cfg : Cfg) (g : List H) (sc : Scope) : (l : List Stmt) →
    denList cfg (sc.pre g) l = ((denList cfg sc l).1.map (Route.pre g), (denList cfg sc l).2.pre g)
  | [] => by simp [denList]
  | s :: rest => by
    simp only [denList]
    rw [den_pre cfg g sc s]
    simp only
    rw [denList_pre cfg g _ rest]
    simp
end


/-! ### the flat scope of the code = the stack of enclosing groups of the reference semantics -/
open Spec

/-- the flat scope of the code that a stack of groups stands for -/
def Spec.LScope.flat (cfg : Cfg) (ls : LScope) : Scope :=
  ⟨ls.fullPrefix cfg, ls.groupHandlers, ls.globals, ls.noRoute, ls.noAllowed⟩

/-- one prefix argument per level -/
def Spec.LScope.Bal (ls : LScope) : Prop := ls.lv.length = ls.pfxs.length

theorem flat_push (cfg : Cfg) (ls : LScope) (p : Bytes) (mws : List H) :
    (push ls p mws).flat cfg = enterScope cfg (ls.flat cfg) p mws := by
  rw [enterScope_eq]
  simp [LScope.flat, push, LScope.fullPrefix, LScope.groupHandlers]

theorem flat_pop (cfg : Cfg) (ls r : LScope) :
    (pop ls r).flat cfg = (ls.flat cfg).after (r.flat cfg) := by
  simp [LScope.flat, pop, Scope.after, LScope.fullPrefix, LScope.groupHandlers]

theorem flat_use (cfg : Cfg) (hne : ∀ x, cfg.fmt x ≠ []) (ls : LScope) (hb : ls.Bal) (hs : List H) :
    (useL ls hs).flat cfg = useScope (ls.flat cfg) hs := by
  unfold LScope.Bal at hb
  cases hl : ls.lv with
  | nil =>
    rw [hl] at hb
    have hp : ls.pfxs = [] := by
      cases h : ls.pfxs with
      | nil => rfl
      | cons a t => rw [h] at hb; simp at hb
    simp [useL, hl, LScope.flat, useScope, LScope.fullPrefix, LScope.groupHandlers, hp]
  | cons l outer =>
    rw [hl] at hb
    cases hp : ls.pfxs with
    | nil => rw [hp] at hb; simp at hb
    | cons a t =>
      have : cfg.fmt a ≠ [] := hne a
      simp [useL, hl, LScope.flat, useScope, LScope.fullPrefix, LScope.groupHandlers, hp, this]

theorem mkRoute_flat (cfg : Cfg) (ls : LScope) (d : RouteDef) :
    mkRoute cfg (ls.flat cfg) d = mkRouteL cfg ls d := rfl

theorem bal_use (ls : LScope) (hb : ls.Bal) (hs : List H) : (useL ls hs).Bal := by
  unfold LScope.Bal at *
  unfold useL
  split
  · rename_i h; simpa [h] using hb
  · rename_i l o h; simpa [h] using hb

mutual
theorem den_denote (cfg : Cfg) (hne : ∀ x, cfg.fmt x ≠ []) (ls : LScope) (hb : ls.Bal) : (s : Stmt) →
    den cfg (ls.flat cfg) s = ((denote cfg ls s).1, (denote cfg ls s).2.flat cfg) ∧ (denote cfg ls s).2.Bal
  | .use hs => by
    simp only [den, denote]
    exact ⟨by rw [flat_use cfg hne ls hb], bal_use ls hb hs⟩
  | .route d => by simp [den, denote, mkRoute_flat, hb]
  | .group p mws body => by
    have hb' : (push ls p mws).Bal := by simpa [LScope.Bal, push] using hb
    have := denList_denote cfg hne (push ls p mws) hb' body
    simp only [den, denote]
    rw [← flat_push, this.1]
    exact ⟨by simp [flat_pop], by simpa [LScope.Bal, pop] using hb⟩
  | .controller p mws body => by
    have hb' : (push ls p mws).Bal := by simpa [LScope.Bal, push] using hb
    have := denList_denote cfg hne (push ls p mws) hb' body
    simp only [den, denote]
    rw [← flat_push, this.1]
    exact ⟨by simp [flat_pop], by simpa [LScope.Bal, pop] using hb⟩
  | .resource rd mws => by
    simp only [den, denote]
    rw [← flat_push]
    exact ⟨by simp [mkRoute_flat], hb⟩
  | .notFound hs => by
    simp only [den, denote]
    exact ⟨by simp [LScope.flat, LScope.fullPrefix, LScope.groupHandlers], by simpa [LScope.Bal] using hb⟩
  | .notAllowed hs => by
    simp only [den, denote]
    exact ⟨by simp [LScope.flat, LScope.fullPrefix, LScope.groupHandlers], by simpa [LScope.Bal] using hb⟩
theorem denList_denote (cfg : Cfg) (hne : ∀ x, cfg.fmt x ≠ []) (ls : LScope) (hb : ls.Bal) : (l : List Stmt) →
    denList cfg (ls.flat cfg) l = ((denoteList cfg ls l).1, (denoteList cfg ls l).2.flat cfg) ∧
      (denoteList cfg ls l).2.Bal
  | [] => by simp [denList, denoteList, hb]
  | s :: rest => by
    have h1 := den_denote cfg hne ls hb s
    have h2 := denList_denote cfg hne (denote cfg ls s).2 h1.2 rest
    simp only [denList, denoteList]
    rw [h1.1]
    simp only
    rw [h2.1]
    exact ⟨rfl, h2.2⟩
end


/-! ### clean prefixes and paths are concatenated literally -/

/-- the model with both path functions replaced by the identity: paths are literally concatenated -/
def idCfg (cfg : Cfg) : Cfg := { cfg with fmt := id, sfmt := id }

theorem storedPath_id (cfg : Cfg) (pfx p : Bytes) : storedPath (idCfg cfg) pfx p = pfx ++ p := by
  simp only [storedPath, idCfg, id]
  by_cases h : pfx = [] <;> simp [h]

/-- what the theorems need to know about "clean" paths: the path functions fix them, and they are
    closed under concatenation -/
structure CleanFns (cfg : Cfg) (P : Bytes → Prop) : Prop where
  fmt_fix : ∀ s, P s → cfg.fmt s = s
  sfmt_fix : ∀ s, P s → cfg.sfmt s = s
  cat : ∀ s t, P s → P t → P (s ++ t)

theorem map_fix {cfg : Cfg} {P : Bytes → Prop} (hc : CleanFns cfg P) :
    ∀ (l : List Bytes), (∀ p ∈ l, P p) → l.map cfg.fmt = l
  | [], _ => rfl
  | a :: t, h => by
    simp only [List.map]
    rw [hc.fmt_fix a (h a (by simp)), map_fix hc t (fun p hp => h p (by simp [hp]))]

theorem flatten_clean {cfg : Cfg} {P : Bytes → Prop} (hc : CleanFns cfg P) :
    ∀ (l : List Bytes), (∀ p ∈ l, P p) → l.flatten = [] ∨ P l.flatten
  | [], _ => Or.inl rfl
  | a :: t, h => by
    have ha := h a (by simp)
    rcases flatten_clean hc t (fun p hp => h p (by simp [hp])) with ht | ht
    · right; simp [ht, ha]
    · right; simpa using hc.cat _ _ ha ht

theorem storedPath_clean {cfg : Cfg} {P : Bytes → Prop} (hc : CleanFns cfg P)
    (pfxs : List Bytes) (hp : ∀ p ∈ pfxs, P p) (path : Bytes) (hpath : P path) :
    storedPath cfg (pfxs.map cfg.fmt).flatten path = pfxs.flatten ++ path := by
  rw [map_fix hc pfxs hp]
  simp only [storedPath]
  rw [hc.sfmt_fix _ hpath, hc.fmt_fix _ hpath]
  by_cases h0 : pfxs.flatten = []
  · simp [h0]
  · rcases flatten_clean hc pfxs hp with h | h
    · exact absurd h h0
    · simp only [ne_eq, h0, not_false_eq_true, if_true]
      exact hc.fmt_fix _ (hc.cat _ _ h hpath)

-- all group prefixes and route paths of the program are clean, and it has no `Resource` call
-- (the paths `Resource` registers are the subject of C16)
mutual
def CleanStmt (P : Bytes → Prop) : Stmt → Prop
  | .use _ => True
  | .route d => P d.path
  | .group p _ body => P p ∧ CleanProg P body
  | .controller p _ body => P p ∧ CleanProg P body
  | .resource _ _ => False
  | .notFound _ => True
  | .notAllowed _ => True
def CleanProg (P : Bytes → Prop) : List Stmt → Prop
  | [] => True
  | s :: rest => CleanStmt P s ∧ CleanProg P rest
end

theorem mkRouteL_clean {cfg : Cfg} {P : Bytes → Prop} (hc : CleanFns cfg P) (ls : LScope)
    (hp : ∀ p ∈ ls.pfxs, P p) (d : RouteDef) (hd : P d.path) :
    mkRouteL cfg ls d = mkRouteL (idCfg cfg) ls d := by
  simp only [mkRouteL, LScope.fullPrefix]
  rw [storedPath_clean hc ls.pfxs.reverse (by simpa using hp) d.path hd, storedPath_id]
  simp [idCfg]

mutual
theorem denote_clean {cfg : Cfg} {P : Bytes → Prop} (hc : CleanFns cfg P) (ls : LScope)
    (hp : ∀ p ∈ ls.pfxs, P p) : (s : Stmt) → CleanStmt P s →
    denote cfg ls s = denote (idCfg cfg) ls s ∧ (denote cfg ls s).2.pfxs = ls.pfxs
  | .use hs, _ => by
    simp only [denote, useL]
    split <;> simp
  | .route d, h => by
    simp only [denote]
    rw [mkRouteL_clean hc ls hp d (by simpa [CleanStmt] using h)]
    simp
  | .group p mws body, h => by
    simp only [CleanStmt] at h
    have := denoteList_clean hc (push ls p mws) (by
      intro q hq; simp only [push, List.mem_cons] at hq
      rcases hq with rfl | hq
      · exact h.1
      · exact hp q hq) body h.2
    simp only [denote]
    rw [this.1]
    simp [pop]
  | .controller p mws body, h => by
    simp only [CleanStmt] at h
    have := denoteList_clean hc (push ls p mws) (by
      intro q hq; simp only [push, List.mem_cons] at hq
      rcases hq with rfl | hq
      · exact h.1
      · exact hp q hq) body h.2
    simp only [denote]
    rw [this.1]
    simp [pop]
  | .resource _ _, h => by simp [CleanStmt] at h
  | .notFound hs, _ => by simp [denote]
  | .notAllowed hs, _ => by simp [denote]
theorem denoteList_clean {cfg : Cfg} {P : Bytes → Prop} (hc : CleanFns cfg P) (ls : LScope)
    (hp : ∀ p ∈ ls.pfxs, P p) : (l : List Stmt) → CleanProg P l →
    denoteList cfg ls l = denoteList (idCfg cfg) ls l ∧ (denoteList cfg ls l).2.pfxs = ls.pfxs
  | [], _ => by simp [denoteList]
  | s :: rest, h => by
    simp only [CleanProg] at h
    have h1 := denote_clean hc ls hp s h.1
    have h2 := denoteList_clean hc (denote cfg ls s).2 (by rw [h1.2]; exact hp) rest h.2
    simp only [denoteList]
    refine ⟨?_, by rw [h2.2, h1.2]⟩
    rw [h2.1, h1.1]
end


/-! ### the executable path functions of the driver meet the hypotheses -/

theorem cleanFmt_ne (s : Bytes) : cleanFmt s ≠ [] := by
  unfold cleanFmt
  split
  · simp
  · simp only
    split <;> simp

theorem trimLeft_ne {c : Nat} {b : Nat} {t : Bytes} (h : b ≠ c) : Bytes.trimLeftByte c (b :: t) = b :: t := by
  simp [Bytes.trimLeftByte, h]

theorem getLast?_reverse_head {a : Nat} {l : Bytes} (h : l.getLast? = some a) : ∃ t, l.reverse = a :: t := by
  cases hr : l.reverse with
  | nil => simp at hr; subst hr; simp at h
  | cons x t =>
    have : l = (x :: t).reverse := by rw [← hr]; simp
    subst this
    simp at h
    exact ⟨t, by rw [h]⟩

theorem trimRight_clean {l : Bytes} (hne : l ≠ []) (h : l.getLast? ≠ some 47) : Bytes.trimRightByte 47 l = l := by
  unfold Bytes.trimRightByte
  cases hr : l.reverse with
  | nil => simp at hr; exact absurd hr hne
  | cons x t =>
    have hl : l = (x :: t).reverse := by rw [← hr]; simp
    have hx : x ≠ 47 := by
      intro hx; apply h; rw [hl]; simp [hx]
    rw [trimLeft_ne hx, hl]

theorem cleanFmt_fix (s : Bytes) (h : CleanPath s) : cleanFmt s = s := by
  obtain ⟨c, rest, rfl, hc, hl⟩ := h
  unfold cleanFmt
  rw [if_neg (by simp)]
  have hl' : (47 :: c :: rest).getLast? ≠ some 47 := by
    simpa [List.getLast?_cons_cons] using hl
  simp only
  rw [trimRight_clean (by simp) hl']
  rw [if_neg (by simp)]
  simp [Bytes.trimLeftByte, hc]

theorem cleanSfmt_fix (s : Bytes) (h : CleanPath s) : cleanSfmt s = s := by
  obtain ⟨c, rest, rfl, hc, _⟩ := h
  unfold cleanSfmt
  rw [if_neg (by simp)]
  simp [Bytes.trimLeftByte, hc]

theorem cleanPath_cat (s t : Bytes) (hs : CleanPath s) (ht : CleanPath t) : CleanPath (s ++ t) := by
  obtain ⟨c, rest, rfl, hc, _⟩ := hs
  obtain ⟨c', rest', rfl, _, hl'⟩ := ht
  refine ⟨c, rest ++ 47 :: c' :: rest', by simp, hc, ?_⟩
  have : c :: (rest ++ 47 :: c' :: rest') = (c :: rest ++ [47]) ++ (c' :: rest') := by simp
  rw [this, List.getLast?_append]
  cases hg : (c' :: rest').getLast? with
  | none => simp at hg
  | some y => rw [hg] at hl'; simpa using hl'

theorem cleanFns (limit : Nat) : CleanFns (cleanCfg limit) CleanPath :=
  ⟨cleanFmt_fix, cleanSfmt_fix, cleanPath_cat⟩

instance (s : Bytes) : Decidable (CleanPath s) :=
  match s with
  | [] => isFalse (by rintro ⟨c, r, h, _⟩; cases h)
  | [_] => isFalse (by rintro ⟨c, r, h, _⟩; cases h)
  | a :: c :: rest =>
    if h : a = 47 ∧ c ≠ 47 ∧ (c :: rest).getLast? ≠ some 47 then
      isTrue ⟨c, rest, by rw [h.1], h.2.1, h.2.2⟩
    else isFalse (by
      rintro ⟨c', r', he, h1, h2⟩
      injection he with ha he; injection he with hc hr
      subst ha hc hr
      exact h ⟨rfl, h1, h2⟩)

example : CleanPath [47, 97, 112, 105, 47, 118, 49] := by decide   -- "/api/v1"
example : ¬ CleanPath [47, 97, 112, 105, 47] := by decide   -- "/api/"


/-! ### `Use` inside a group is local -/

theorem scope_as_pre (sc : Scope) : sc = ({ sc with grp := [] } : Scope).pre sc.grp := by
  simp [Scope.pre]

theorem after_pre (outer inner : Scope) (g : List H) : outer.after (inner.pre g) = outer.after inner := by
  simp [Scope.after, Scope.pre]

/-- `Use` inside a group: the routes registered before it in the group are untouched, the routes
    registered after it in the group get exactly `hs` inserted behind the group handlers in effect,
    and the scope handed on after the group is the same as without the `Use`. -/
theorem group_use_local (cfg : Cfg) (sc : Scope) (p : Bytes) (mws : List H) (b1 b2 : List Stmt) (hs : List H)
    (hin : (enterScope cfg sc p mws).pfx ≠ []) :
    let r1 := denList cfg (enterScope cfg sc p mws) b1
    let base := denList cfg { r1.2 with grp := [] } b2
    (den cfg sc (.group p mws (b1 ++ .use hs :: b2))).1 = r1.1 ++ base.1.map (Route.pre (r1.2.grp ++ hs)) ∧
    (den cfg sc (.group p mws (b1 ++ b2))).1 = r1.1 ++ base.1.map (Route.pre r1.2.grp) ∧
    (den cfg sc (.group p mws (b1 ++ .use hs :: b2))).2 = (den cfg sc (.group p mws (b1 ++ b2))).2 := by
  intro r1 base
  have hp : r1.2.pfx ≠ [] := by
    show (denList cfg (enterScope cfg sc p mws) b1).2.pfx ≠ []
    rw [denList_pfx]; exact hin
  have huse : useScope r1.2 hs = ({ r1.2 with grp := [] } : Scope).pre (r1.2.grp ++ hs) := by
    simp [useScope, hp, Scope.pre]
  have hplain : r1.2 = ({ r1.2 with grp := [] } : Scope).pre r1.2.grp := scope_as_pre r1.2
  have e1 : denList cfg (enterScope cfg sc p mws) (b1 ++ .use hs :: b2) =
      (r1.1 ++ base.1.map (Route.pre (r1.2.grp ++ hs)), base.2.pre (r1.2.grp ++ hs)) := by
    rw [denList_append]
    simp only [denList, den, List.nil_append]
    show (r1.1 ++ (denList cfg (useScope r1.2 hs) b2).1, (denList cfg (useScope r1.2 hs) b2).2) = _
    rw [huse, denList_pre]
  have e2 : denList cfg (enterScope cfg sc p mws) (b1 ++ b2) =
      (r1.1 ++ base.1.map (Route.pre r1.2.grp), base.2.pre r1.2.grp) := by
    have h2 : denList cfg r1.2 b2 = (base.1.map (Route.pre r1.2.grp), base.2.pre r1.2.grp) := by
      have := denList_pre cfg r1.2.grp ({ r1.2 with grp := [] } : Scope) b2
      rwa [← hplain] at this
    rw [denList_append]
    show (r1.1 ++ (denList cfg r1.2 b2).1, (denList cfg r1.2 b2).2) = _
    rw [h2]
  simp only [den]
  rw [e1, e2]
  simp [after_pre]


/-! ### a list of plain route registrations -/

theorem execList_routes (cfg : Cfg) : ∀ (ds : List RouteDef) (st : RS),
    execList cfg st (ds.map Stmt.route) = addRoutes cfg st ds
  | [], st => by simp [execList, addRoutes]
  | d :: rest, st => by
    simp only [List.map, execList, exec, addRoutes]
    cases addRoute cfg st d with
    | ok st1 => simp only; exact execList_routes cfg rest st1
    | error e => rfl

/-! ### the router-wide lists after a program -/
section
open Spec
/-- inside a group (`lv ≠ []`) nothing changes the global list -/
theorem useL_inside (ls : LScope) (hs : List H) (h : ls.lv ≠ []) :
    (useL ls hs).globals = ls.globals ∧ (useL ls hs).lv ≠ [] := by
  unfold useL
  split
  · rename_i h0; exact absurd h0 h
  · simp

mutual
theorem denote_inside (cfg : Cfg) (ls : LScope) (h : ls.lv ≠ []) : (s : Stmt) →
    (denote cfg ls s).2.globals = ls.globals ∧ (denote cfg ls s).2.lv ≠ []
  | .use hs => by simp only [denote]; exact useL_inside ls hs h
  | .route _ => ⟨rfl, h⟩
  | .group p mws body => by
    have := denoteList_inside cfg (push ls p mws) (by simp [push]) body
    simp only [denote, pop]
    exact ⟨this.1, h⟩
  | .controller p mws body => by
    have := denoteList_inside cfg (push ls p mws) (by simp [push]) body
    simp only [denote, pop]
    exact ⟨this.1, h⟩
  | .resource _ _ => ⟨rfl, h⟩
  | .notFound _ => ⟨rfl, h⟩
  | .notAllowed _ => ⟨rfl, h⟩
theorem denoteList_inside (cfg : Cfg) (ls : LScope) (h : ls.lv ≠ []) : (l : List Stmt) →
    (denoteList cfg ls l).2.globals = ls.globals ∧ (denoteList cfg ls l).2.lv ≠ []
  | [] => ⟨rfl, h⟩
  | s :: rest => by
    have h1 := denote_inside cfg ls h s
    have h2 := denoteList_inside cfg (denote cfg ls s).2 h1.2 rest
    simp only [denoteList]
    exact ⟨h2.1.trans h1.1, h2.2⟩
end

/-- at top level the global list collects exactly the top-level `Use` arguments -/
theorem denoteList_top (cfg : Cfg) : ∀ (l : List Stmt) (ls : LScope), ls.lv = [] →
    (denoteList cfg ls l).2.globals = ls.globals ++ topUses l ∧ (denoteList cfg ls l).2.lv = []
  | [], ls, h => by simp [denoteList, topUses, h]
  | s :: rest, ls, h => by
    simp only [denoteList]
    cases s with
    | use hs =>
      have e : denote cfg ls (.use hs) = ([], { ls with globals := ls.globals ++ hs }) := by
        simp [denote, useL, h]
      rw [e]
      have := denoteList_top cfg rest { ls with globals := ls.globals ++ hs } h
      simp only [topUses]
      exact ⟨by rw [this.1]; simp, this.2⟩
    | route d => simpa [denote, topUses] using denoteList_top cfg rest ls h
    | group p mws body =>
      have hb := denoteList_inside cfg (push ls p mws) (by simp [push]) body
      have := denoteList_top cfg rest (pop ls (denoteList cfg (push ls p mws) body).2) (by simp [pop, h])
      simp only [denote, topUses]
      refine ⟨by rw [this.1]; simp only [pop]; rw [hb.1]; rfl, this.2⟩
    | controller p mws body =>
      have hb := denoteList_inside cfg (push ls p mws) (by simp [push]) body
      have := denoteList_top cfg rest (pop ls (denoteList cfg (push ls p mws) body).2) (by simp [pop, h])
      simp only [denote, topUses]
      refine ⟨by rw [this.1]; simp only [pop]; rw [hb.1]; rfl, this.2⟩
    | resource rd mws => simpa [denote, topUses] using denoteList_top cfg rest ls h
    | notFound hs =>
      have := denoteList_top cfg rest { ls with noRoute := hs } h
      simpa [denote, topUses] using this
    | notAllowed hs =>
      have := denoteList_top cfg rest { ls with noAllowed := hs } h
      simpa [denote, topUses] using this

mutual
theorem denote_nf (cfg : Cfg) (ls : LScope) : (s : Stmt) →
    (denote cfg ls s).2.noRoute = lastNF ls.noRoute s ∧ (denote cfg ls s).2.noAllowed = lastNA ls.noAllowed s
  | .use hs => by
    simp only [denote, useL, lastNF, lastNA]
    split <;> exact ⟨rfl, rfl⟩
  | .route _ => ⟨rfl, rfl⟩
  | .group p mws body => by
    have := denoteList_nf cfg (push ls p mws) body
    simp only [denote, pop, lastNF, lastNA]
    exact this
  | .controller p mws body => by
    have := denoteList_nf cfg (push ls p mws) body
    simp only [denote, pop, lastNF, lastNA]
    exact this
  | .resource _ _ => ⟨rfl, rfl⟩
  | .notFound _ => ⟨rfl, rfl⟩
  | .notAllowed _ => ⟨rfl, rfl⟩
theorem denoteList_nf (cfg : Cfg) (ls : LScope) : (l : List Stmt) →
    (denoteList cfg ls l).2.noRoute = lastNFList ls.noRoute l ∧
    (denoteList cfg ls l).2.noAllowed = lastNAList ls.noAllowed l
  | [] => ⟨rfl, rfl⟩
  | s :: rest => by
    have h1 := denote_nf cfg ls s
    have h2 := denoteList_nf cfg (denote cfg ls s).2 rest
    simp only [denoteList, lastNFList, lastNAList]
    rw [h2.1, h2.2, h1.1, h1.2]
    exact ⟨rfl, rfl⟩
end

/-- `Use` calls at top level only extend the global list -/
theorem denList_uses_top (cfg : Cfg) : ∀ (l : List (List H)) (sc : Scope), sc.pfx = [] →
    denList cfg sc (l.map Stmt.use) = ([], { sc with globals := sc.globals ++ l.flatten })
  | [], sc, _ => by simp [denList]
  | hs :: rest, sc, h => by
    have e : useScope sc hs = { sc with globals := sc.globals ++ hs } := by simp [useScope, h]
    simp only [List.map, denList, den, e]
    rw [denList_uses_top cfg rest { sc with globals := sc.globals ++ hs } h]
    simp


end

/-- `execList_den` in the form used by the property files -/
theorem execList_den_split (cfg : Cfg) (st st' : RS) (prog : List Stmt) (h : execList cfg st prog = .ok st') :
    st'.routes = st.routes ++ (denList cfg st.toScope prog).1 ∧ st'.toScope = (denList cfg st.toScope prog).2 := by
  have := execList_den cfg st st' prog h
  subst this
  exact ⟨rfl, rfl⟩

end Rux.Reg
