import RuxModel.Generated.Code
import RuxModel.Tie.Quick
/-
  parse_match.go `Router.findAllowedMethods` as generated = the model's `findAllowed`.

  The Go function collects the other supported methods under which the path matches in a map used as a set and then
  ranges over the map: the order of the result is unspecified.  The translation represents the map by the list of its
  keys (insertion order) and takes the visiting order as a parameter `ord`; the tie holds for every `ord` that returns a
  permutation: the answer is a permutation of the model's list (the model lists them in source order; callers and the
  engines compare the SET), the router state afterwards is the model's.
-/
set_option linter.unusedSimpArgs false
namespace Rux
namespace Tie
open GoRt

/-- an `Id` loop whose body always yields is a fold -/
theorem forIn_id_yield {α β : Type} (l : List α) (body : α → β → Id (ForInStep β)) (f : α → β → β)
    (h : ∀ a b, body a b = ForInStep.yield (f a b)) :
    ∀ init : β, (forIn l init body : Id β) = l.foldl (fun b a => f a b) init := by
  induction l with
  | nil => intro init; rfl
  | cons a t ih =>
    intro init
    simp only [List.forIn_cons, h, List.foldl_cons]
    exact ih _

/-- the model's accumulator step of `findAllowed` -/
def faStep (method path : Bytes) (acc : List Bytes × RouterM) (m : Bytes) : List Bytes × RouterM :=
  if m = method then acc
  else
    let (res, rt') := matchM acc.2 m path
    (if res.isSome then acc.1 ++ [m] else acc.1, rt')

theorem findAllowed_eq (rt : RouterM) (method path : Bytes) :
    findAllowed rt method path = anyMethodsB.foldl (faStep method path) ([], rt) := rfl

/-- one iteration of the first loop of the generated function -/
def genStepFA (env : QMEnv RouterM (RouteM × Bool) Params) (method path : Bytes) (m : Bytes)
    (b : RouterM × List Bytes) : RouterM × List Bytes :=
  if (m == method) = true then (b.1, b.2)
  else if (env.match_ b.1 m path).1.1.isSome = true then ((env.match_ b.1 m path).2, setInsert b.2 m)
  else ((env.match_ b.1 m path).2, b.2)

/-- the first loop of the generated function as a fold; its set-insert is a plain append on a duplicate-free list -/
theorem fa_fold (env : QMEnv RouterM (RouteM × Bool) Params) (o : Opts) (method path : Bytes)
    (henv : ∀ s m, s.opts = o → env.match_ s m path = envM.match_ s m path) (ms : List Bytes) :
    ∀ (acc : List Bytes × RouterM), acc.2.opts = o → (∀ m ∈ ms, m ∉ acc.1) → ms.Nodup →
    ms.foldl (fun b m => genStepFA env method path m b) (acc.2, acc.1)
      = ((ms.foldl (faStep method path) acc).2, (ms.foldl (faStep method path) acc).1) := by
  induction ms with
  | nil => intro acc _ _ _; rfl
  | cons a t ih =>
    intro acc hacc hnot hnd
    have hnd' := List.nodup_cons.mp hnd
    simp only [List.foldl_cons]
    by_cases ha : a = method
    · subst ha
      have h1 : faStep a path acc a = acc := by simp [faStep]
      have h2 : genStepFA env a path a (acc.2, acc.1) = (acc.2, acc.1) := by simp [genStepFA]
      rw [h1, h2]
      exact ih acc hacc (fun m hm => hnot m (List.mem_cons_of_mem _ hm)) hnd'.2
    · have hbeq : (a == method) = false := by simpa using ha
      have hnotin : a ∉ acc.1 := hnot a (List.mem_cons_self ..)
      have hopt : (matchM acc.2 a path).2.opts = o := (matchM_opts acc.2 a path).trans hacc
      rcases hm : matchM acc.2 a path with ⟨_ | ⟨r, ps, c⟩, rt'⟩
      · rw [hm] at hopt
        have hs : faStep method path acc a = (acc.1, rt') := by simp [faStep, ha, hm]
        have he : env.match_ acc.2 a path = ((none, none), rt') := (henv _ _ hacc).trans (envM_match_none hm)
        have hg : genStepFA env method path a (acc.2, acc.1) = (rt', acc.1) := by simp [genStepFA, hbeq, he]
        rw [hs, hg]
        exact ih (acc.1, rt') hopt (fun m hm' => hnot m (List.mem_cons_of_mem _ hm')) hnd'.2
      · rw [hm] at hopt
        have hs : faStep method path acc a = (acc.1 ++ [a], rt') := by simp [faStep, ha, hm]
        have he : env.match_ acc.2 a path = ((some (r, c), some ps), rt') :=
          (henv _ _ hacc).trans (envM_match_some hm)
        have hg : genStepFA env method path a (acc.2, acc.1) = (rt', acc.1 ++ [a]) := by
          simp [genStepFA, hbeq, he, setInsert, hnotin]
        rw [hs, hg]
        refine ih (acc.1 ++ [a], rt') hopt ?_ hnd'.2
        intro m hm' hin
        rcases List.mem_append.mp hin with h | h
        · exact hnot m (List.mem_cons_of_mem _ hm') h
        · have : m = a := by simpa using h
          subst this
          exact hnd'.1 hm'

/-- the second loop: appending the visited keys one by one rebuilds the visited list -/
theorem collect_fold (l : List Bytes) : ∀ acc : List Bytes, l.foldl (fun b a => b ++ [a]) acc = acc ++ l := by
  induction l with
  | nil => intro acc; simp
  | cons a t ih => intro acc; simp [ih]

/-- **`findAllowedMethods` as generated = the model's `findAllowed`**: the same router state afterwards, and the
    model's list in the order `ord` in which Go happens to visit the keys of the map (`[]` when there is none) -/
theorem tie_findAllowed_env (env : QMEnv RouterM (RouteM × Bool) Params) (g : Gen.Router) (rt : RouterM)
    (method path : Bytes) (ord : List Bytes → List Bytes)
    (henv : ∀ s m, s.opts = rt.opts → env.match_ s m path = envM.match_ s m path) (hnd : anyMethodsB.Nodup) :
    Gen.Router.findAllowedMethods g method path env anyMethodsB ord rt
      = ((findAllowed rt method path).2,
         if decide (((findAllowed rt method path).1.length : Int) > 0) then ord (findAllowed rt method path).1 else []) := by
  unfold Gen.Router.findAllowedMethods
  simp only [Id.run, pure, bind]
  have h1 : (forIn anyMethodsB (rt, ([] : List Bytes)) (fun m_it (__s : RouterM × List Bytes) =>
        (if (m_it == method) = true then ForInStep.yield (__s.fst, __s.snd)
        else
          if (env.match_ __s.fst m_it path).fst.fst.isSome = true then
            ForInStep.yield ((env.match_ __s.fst m_it path).snd, setInsert __s.snd m_it)
          else ForInStep.yield ((env.match_ __s.fst m_it path).snd, __s.snd) : Id _)) : Id _)
      = ((findAllowed rt method path).2, (findAllowed rt method path).1) := by
    rw [forIn_id_yield _ _ (genStepFA env method path) (by intro a b; unfold genStepFA; split <;> (try split) <;> rfl)]
    exact fa_fold env rt.opts method path henv anyMethodsB ([], rt) rfl (by simp) hnd
  have h2 : ∀ l : List Bytes, (forIn l ([] : List Bytes) (fun m_1_it __s => (ForInStep.yield (__s ++ [m_1_it]) : Id _)) : Id _) = l := by
    intro l
    rw [forIn_id_yield _ _ (fun a b => b ++ [a]) (by intro a b; rfl)]
    simpa using collect_fold l []
  rw [h1]
  simp only [h2]
  split <;> rfl

theorem tie_findAllowed (g : Gen.Router) (rt : RouterM) (method path : Bytes) (ord : List Bytes → List Bytes)
    (hnd : anyMethodsB.Nodup) :
    Gen.Router.findAllowedMethods g method path envM anyMethodsB ord rt
      = ((findAllowed rt method path).2,
         if decide (((findAllowed rt method path).1.length : Int) > 0) then ord (findAllowed rt method path).1 else []) :=
  tie_findAllowed_env envM g rt method path ord (fun _ _ _ => rfl) hnd

/-- the caller sees the same SET of methods whatever the visiting order -/
theorem tie_findAllowed_perm (g : Gen.Router) (rt : RouterM) (method path : Bytes) (ord : List Bytes → List Bytes)
    (hord : ∀ l, (ord l).Perm l) (hnd : anyMethodsB.Nodup) :
    (Gen.Router.findAllowedMethods g method path envM anyMethodsB ord rt).2.Perm (findAllowed rt method path).1 ∧
    (Gen.Router.findAllowedMethods g method path envM anyMethodsB ord rt).1 = (findAllowed rt method path).2 := by
  rw [tie_findAllowed g rt method path ord hnd]
  refine ⟨?_, rfl⟩
  simp only
  split
  · exact hord _
  · rename_i h
    have : (findAllowed rt method path).1 = [] := by
      cases hl : (findAllowed rt method path).1 with
      | nil => rfl
      | cons a t => simp [hl] at h
    rw [this]

end Tie
end Rux
