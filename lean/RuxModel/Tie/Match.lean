import RuxModel.Generated.Code
import RuxModel.Model.Table
/-
  Tie: the definition generated from parse_match.go `Router.match` — static table, route cache, the
  first-segment-keyed lists with the literal-prefix pre-filter, the residual lists; a dynamic match is stored in
  the cache — is the hand-written `matchM` of Model/Table.lean when the abstract tables and per-route operations
  are instantiated with the model's.

  Part 1 characterises the generated definition for ANY environment (`matchSpec`: the two `for` loops become
  `List.find?`); part 2 instantiates the environment.
-/
namespace Rux
namespace Tie
open GoRt

variable {σ ρ π : Type}

/-! ### part 1: the generated function, loops resolved -/

/-- what one of the two loops of `match` does with a list: the first element that passes the pre-filter (regular
    tier only) and whose regex matches is returned and stored in the cache -/
def loopSpec (env : MEnv σ ρ π) (m p : Bytes) (useStart : Bool) (l : List ρ) (s : σ) :
    Option (σ × Option ρ × Option π) × σ :=
  match l.find? (fun el => (!useStart || GoRt.index p (env.start el) == 0) && (env.matchRegex el p).2) with
  | some el =>
    (some (env.cacheDynamic s (m ++ p) (env.matchRegex el p).1 el, some el, (env.matchRegex el p).1),
      env.cacheDynamic s (m ++ p) (env.matchRegex el p).1 el)
  | none => (none, s)

theorem forIn_regular (env : MEnv σ ρ π) (m p : Bytes) (l : List ρ) (s : σ) :
    (forIn l ((none : Option (σ × Option ρ × Option π)), s) fun el_it __s =>
      if (GoRt.index p (env.start el_it) != 0) = true then
        (Except.ok (ForInStep.yield (none, __s.snd)) : Except Panic _)
      else
        if (env.matchRegex el_it p).snd = true then
          Except.ok (ForInStep.done
            (some (env.cacheDynamic __s.snd (m ++ p) (env.matchRegex el_it p).fst el_it, some el_it,
                (env.matchRegex el_it p).fst),
              env.cacheDynamic __s.snd (m ++ p) (env.matchRegex el_it p).fst el_it))
        else Except.ok (ForInStep.yield (none, __s.snd))) = .ok (loopSpec env m p true l s) := by
  induction l with
  | nil => rfl
  | cons a t ih =>
    simp only [loopSpec, Bool.not_true, Bool.false_or] at ih ⊢
    simp only [List.forIn_cons, List.find?_cons]
    by_cases h1 : GoRt.index p (env.start a) = 0
    · by_cases h2 : (env.matchRegex a p).2 = true
      · simp [h1, h2, bind, Except.bind, pure, Except.pure]
      · have hb : (GoRt.index p (env.start a) != 0) = false := by simp [h1]
        have h2' : (env.matchRegex a p).2 = false := by simpa using h2
        simp only [hb, h2', Bool.false_eq_true, if_false, bind, Except.bind, h1, beq_self_eq_true, Bool.true_and]
        exact ih
    · have hb : (GoRt.index p (env.start a) != 0) = true := by simp [h1]
      have hb' : (GoRt.index p (env.start a) == 0) = false := by simp [h1]
      simp only [hb, if_true, bind, Except.bind, hb', Bool.false_and]
      exact ih

theorem forIn_irregular (env : MEnv σ ρ π) (m p : Bytes) (l : List ρ) (s : σ) :
    (forIn l ((none : Option (σ × Option ρ × Option π)), s) fun route_2_it __s =>
        if (env.matchRegex route_2_it p).snd = true then
          (Except.ok (ForInStep.done
            (some (env.cacheDynamic __s.snd (m ++ p) (env.matchRegex route_2_it p).fst route_2_it, some route_2_it,
                (env.matchRegex route_2_it p).fst),
              env.cacheDynamic __s.snd (m ++ p) (env.matchRegex route_2_it p).fst route_2_it)) : Except Panic _)
        else Except.ok (ForInStep.yield (none, __s.snd))) = .ok (loopSpec env m p false l s) := by
  induction l with
  | nil => rfl
  | cons a t ih =>
    simp only [loopSpec, Bool.not_false, Bool.true_or, Bool.true_and] at ih ⊢
    simp only [List.forIn_cons, List.find?_cons]
    by_cases h2 : (env.matchRegex a p).2 = true
    · simp [h2, bind, Except.bind, pure, Except.pure]
    · have h2' : (env.matchRegex a p).2 = false := by simpa using h2
      simp only [h2', Bool.false_eq_true, if_false, bind, Except.bind]
      exact ih

/-- the residual tier, from state `s1` -/
def irrSpec (env : MEnv σ ρ π) (m p : Bytes) (s1 : σ) : Except Panic (σ × Option ρ × Option π) :=
  if (env.irregular s1 m).2 = true then
    match (loopSpec env m p false (env.irregular s1 m).1 s1).1 with
    | some r => .ok r
    | none => .ok ((loopSpec env m p false (env.irregular s1 m).1 s1).2, none, none)
  else .ok (s1, none, none)

/-- the dynamic tiers, from state `s` (after the static table and the cache missed) -/
def dynSpec (env : MEnv σ ρ π) (m p : Bytes) (s : σ) : Except Panic (σ × Option ρ × Option π) :=
  match GoRt.slice p 1 p.length with
  | .error e => .error e
  | .ok v =>
    if decide (GoRt.indexByte v 47 > 0) = true then
      match GoRt.slice p 1 (GoRt.indexByte v 47 + 1) with
      | .error e => .error e
      | .ok k =>
        if (env.regular s (m ++ k)).2 = true then
          match (loopSpec env m p true (env.regular s (m ++ k)).1 s).1 with
          | some r => .ok r
          | none => irrSpec env m p (loopSpec env m p true (env.regular s (m ++ k)).1 s).2
        else irrSpec env m p s
    else irrSpec env m p s

/-- `Router.match` with both loops resolved -/
def matchSpec (env : MEnv σ ρ π) (g : Gen.Router) (m p : Bytes) (s : σ) : Except Panic (σ × Option ρ × Option π) :=
  if (env.stable s (m ++ p)).isSome = true then .ok (s, env.stable s (m ++ p), none)
  else if g.enableCaching = true then
    if (env.cacheGet s (m ++ p)).1.2 = true then
      .ok ((env.cacheGet s (m ++ p)).2, (env.cacheGet s (m ++ p)).1.1, env.paramsClone (env.cacheGet s (m ++ p)).1.1)
    else dynSpec env m p (env.cacheGet s (m ++ p)).2
  else dynSpec env m p s

theorem gen_match_eq_spec (env : MEnv σ ρ π) (g : Gen.Router) (m p : Bytes) (s : σ) :
    Gen.Router.match_ g m p env s = matchSpec env g m p s := by
  unfold Gen.Router.match_ matchSpec dynSpec irrSpec
  simp only [bind, Except.bind, pure, Except.pure, forIn_regular, forIn_irregular]
  repeat' split
  all_goals (try rfl)
  all_goals (try omega)
  all_goals (try (simp_all; done))
  all_goals (try (exfalso; simp_all; omega))

/-! ### part 2: the environment instantiated with the model's tables -/

/-- routes of the generated code = model routes, with the cached params when the route is a cache copy -/
abbrev MRoute := RouteM × Option Params

def envMatch : MEnv RouterM MRoute Params where
  stable s k := (alistGet s.stable k).map (·, none)
  cacheGet s k :=
    match s.cache.get k with
    | (some (r, ps), c1) => ((some (r, some ps), true), { s with cache := c1 })
    | (none, c1) => ((none, false), { s with cache := c1 })
  paramsClone o := o.bind (·.2)
  regular s k :=
    match alistGet s.regular k with
    | some l => (l.map (·, none), true)
    | none => ([], false)
  irregular s k :=
    match alistGet s.irregular k with
    | some l => (l.map (·, none), true)
    | none => ([], false)
  start r := r.1.info.start
  matchRegex r p :=
    match routeMatch r.1 p with
    | some ps => (some ps, true)
    | none => (none, false)
  cacheDynamic s key ps r := if s.opts.caching then { s with cache := s.cache.set key (r.1, ps.getD []) } else s

theorem slice_drop (p : Bytes) (hp : p ≠ []) : GoRt.slice p 1 p.length = .ok (p.drop 1) := by
  cases p with
  | nil => exact absurd rfl hp
  | cons a t =>
    simp only [GoRt.slice, List.length_cons]
    have : (0 : Int) ≤ 1 ∧ (1 : Int) ≤ ((t.length + 1 : Nat) : Int) ∧ ((t.length + 1 : Nat) : Int) ≤ ((t.length + 1 : Nat) : Int) := by
      omega
    rw [if_pos this]
    simp

theorem indexByte_lt (s : Bytes) (c i : Nat) (h : Bytes.indexByte s c = some i) : i < s.length := by
  induction s generalizing i with
  | nil => simp [Bytes.indexByte] at h
  | cons b t ih =>
    simp only [Bytes.indexByte] at h
    split at h
    · simp at h; subst h; simp
    · cases hi : Bytes.indexByte t c with
      | none => simp [hi] at h
      | some j =>
        simp [hi] at h; subst h
        have := ih j hi
        simp; omega

theorem slice_take (p : Bytes) (i : Nat) (hi : i < (p.drop 1).length) :
    GoRt.slice p 1 ((i : Int) + 1) = .ok ((p.drop 1).take i) := by
  simp only [GoRt.slice]
  have hl : (p.drop 1).length = p.length - 1 := by simp
  have : (0 : Int) ≤ 1 ∧ (1 : Int) ≤ (i : Int) + 1 ∧ (i : Int) + 1 ≤ (p.length : Int) := by omega
  rw [if_pos this]
  congr 2

theorem indexFrom_zero (sub s : Bytes) (k : Nat) :
    GoRt.indexFrom sub s k = some k ↔ Bytes.hasPrefix s sub = true := by
  cases s with
  | nil =>
    cases sub with
    | nil => simp [GoRt.indexFrom, Bytes.hasPrefix]
    | cons a t => simp [GoRt.indexFrom, Bytes.hasPrefix]
  | cons b t =>
    simp only [GoRt.indexFrom]
    by_cases h : Bytes.hasPrefix (b :: t) sub = true
    · simp [h]
    · simp only [h, Bool.false_eq_true, if_false, iff_false]
      intro hk
      have : ∀ (s : Bytes) (j : Nat) (r : Nat), GoRt.indexFrom sub s j = some r → j ≤ r := by
        intro s
        induction s with
        | nil => intro j r; simp only [GoRt.indexFrom]; split <;> simp <;> omega
        | cons x xs ih =>
          intro j r
          simp only [GoRt.indexFrom]
          split
          · simp; omega
          · intro h'; have := ih (j + 1) r h'; omega
      have := this t (k + 1) k hk
      omega

theorem index_zero_iff (s sub : Bytes) : GoRt.index s sub = 0 ↔ Bytes.hasPrefix s sub = true := by
  unfold GoRt.index
  have := indexFrom_zero sub s 0
  cases h : GoRt.indexFrom sub s 0 with
  | none => simp [h] at this ⊢; exact this
  | some i =>
    simp only [h] at this ⊢
    constructor
    · intro hi
      have : i = 0 := by omega
      subst this; exact this.mp rfl
    · intro hp
      have := this.mpr hp
      simp at this; subst this; rfl

/-- a loop of the generated `match` over model routes is the model's `firstMatch` -/
theorem loop_first (m p : Bytes) (useStart : Bool) (l : List RouteM) (s : RouterM) :
    loopSpec envMatch m p useStart (l.map (·, none)) s =
      match firstMatch l p useStart with
      | some (r, ps) =>
        (some (envMatch.cacheDynamic s (m ++ p) (some ps) (r, none), some (r, none), some ps),
          envMatch.cacheDynamic s (m ++ p) (some ps) (r, none))
      | none => (none, s) := by
  unfold loopSpec firstMatch
  induction l with
  | nil => rfl
  | cons a t ih =>
    simp only [List.map_cons, List.find?_cons, List.findSome?_cons]
    have hstart : (GoRt.index p (envMatch.start (a, none)) == 0) = Bytes.hasPrefix p a.info.start := by
      have := index_zero_iff p a.info.start
      cases h : Bytes.hasPrefix p a.info.start
      · simp only [h] at this; simp [envMatch]; intro h0; exact absurd (this.mp h0) (by simp)
      · simp only [h] at this; simp [envMatch, this.mpr trivial]
    cases useStart
    · -- no pre-filter
      simp only [Bool.not_false, Bool.true_or, Bool.true_and, Bool.false_and, Bool.false_eq_true, if_false]
      cases hr : routeMatch a p with
      | some ps => simp [envMatch, hr]
      | none => simp only [envMatch, hr, Option.map_none, Bool.false_eq_true, if_false]; exact ih
    · simp only [Bool.not_true, Bool.false_or, Bool.true_and, hstart]
      cases hpre : Bytes.hasPrefix p a.info.start
      · simp only [Bool.false_and, Bool.not_false, if_true, Bool.false_eq_true, if_false]; exact ih
      · simp only [Bool.true_and, Bool.not_true, Bool.false_eq_true, if_false]
        cases hr : routeMatch a p with
        | some ps => simp [envMatch, hr]
        | none => simp only [envMatch, hr, Option.map_none, Bool.false_eq_true, if_false]; exact ih

theorem irr_tie (s : RouterM) (m p : Bytes) :
    irrSpec envMatch m p s = .ok (match irrTier s m p with
      | some (r, ps) => (envMatch.cacheDynamic s (m ++ p) (some ps) (r, none), some (r, none), some ps)
      | none => (s, none, none)) := by
  unfold irrSpec irrTier listAt
  cases h : alistGet s.irregular m with
  | none => simp [envMatch, h, firstMatch]
  | some l =>
    have h1 : (envMatch.irregular s m) = (l.map (·, none), true) := by simp only [envMatch, h]
    simp only [h1, if_true, loop_first, Option.getD_some]
    cases firstMatch l p false with
    | none => rfl
    | some x => rfl

theorem dyn_tie (s : RouterM) (m p : Bytes) (hp : p ≠ []) :
    dynSpec envMatch m p s = .ok (match dynMatch s m p with
      | some (r, ps) => (envMatch.cacheDynamic s (m ++ p) (some ps) (r, none), some (r, none), some ps)
      | none => (s, none, none)) := by
  unfold dynSpec dynMatch regTier
  rw [slice_drop p hp]
  simp only
  cases hidx : Bytes.indexByte (p.drop 1) 0x2F with
  | none =>
    have : GoRt.indexByte (List.drop 1 p) 47 = -1 := by unfold GoRt.indexByte; rw [hidx]
    simp only [this]
    have hlt : ¬ ((-1 : Int) > 0) := by omega
    simp only [hlt, decide_false, Bool.false_eq_true, if_false]
    rw [irr_tie]
  | some pos =>
    have : GoRt.indexByte (List.drop 1 p) 47 = (pos : Int) := by unfold GoRt.indexByte; rw [hidx]
    simp only [this]
    by_cases hpos : pos > 0
    · have hgt : ((pos : Int) > 0) := by omega
      simp only [hgt, decide_true, if_true, hpos]
      rw [slice_take p pos (indexByte_lt _ _ _ hidx)]
      simp only [listAt]
      cases hreg : alistGet s.regular (m ++ (p.drop 1).take pos) with
      | none =>
        have h1 : envMatch.regular s (m ++ (p.drop 1).take pos) = ([], false) := by simp only [envMatch, hreg]
        simp only [h1, Bool.false_eq_true, if_false, Option.getD_none, firstMatch, List.findSome?_nil]
        rw [irr_tie]
      | some l =>
        have h1 : envMatch.regular s (m ++ (p.drop 1).take pos) = (l.map (·, none), true) := by simp only [envMatch, hreg]
        simp only [h1, if_true, loop_first, Option.getD_some]
        cases firstMatch l p true with
        | none => simp only []; rw [irr_tie]
        | some x => rfl
    · have hgt : ¬ ((pos : Int) > 0) := by omega
      simp only [hgt, decide_false, Bool.false_eq_true, if_false, hpos]
      rw [irr_tie]

/-- the dynamic tiers only read the tables -/
theorem dynMatch_cache (rt : RouterM) (c : Cache Bytes (RouteM × Params)) (m p : Bytes) :
    dynMatch { rt with cache := c } m p = dynMatch rt m p := rfl

/-- what the model's result looks like in Go's `(route, ps)`: the route (a cache copy carries its params),
    the params (`nil` for a static route), and whether it came from the cache -/
def ofGo (ro : Option MRoute) (po : Option Params) : Option (RouteM × Params × Bool) :=
  ro.map fun x => (x.1, po.getD [], x.2.isSome)

/-- `Router.match` as generated = the model's `matchM` (new router state and result), for every non-empty path -/
theorem tie_match (g : Gen.Router) (rt : RouterM) (hc : g.enableCaching = rt.opts.caching)
    (m p : Bytes) (hp : p ≠ []) :
    ∃ ro po, Gen.Router.match_ g m p envMatch rt = .ok ((matchM rt m p).2, ro, po) ∧
      (matchM rt m p).1 = ofGo ro po := by
  rw [gen_match_eq_spec]
  unfold matchSpec matchM
  cases hst : alistGet rt.stable (m ++ p) with
  | some r =>
    refine ⟨some (r, none), none, ?_, ?_⟩
    · simp [envMatch, hst]
    · simp [ofGo]
  | none =>
    have hst' : (envMatch.stable rt (m ++ p)).isSome = false := by simp [envMatch, hst]
    simp only [hst', Bool.false_eq_true, if_false, hc]
    cases hcach : rt.opts.caching with
    | false =>
      simp only [Bool.false_eq_true, if_false]
      rw [dyn_tie rt m p hp]
      cases hd : dynMatch rt m p with
      | none => exact ⟨none, none, by simp, by simp [ofGo]⟩
      | some x =>
        obtain ⟨r, ps⟩ := x
        refine ⟨some (r, none), some ps, ?_, by simp [ofGo]⟩
        simp [envMatch, hcach]
    | true =>
      simp only [if_true]
      rcases hget : rt.cache.get (m ++ p) with ⟨_ | ⟨r, ps⟩, c1⟩
      · have hg : envMatch.cacheGet rt (m ++ p) = ((none, false), { rt with cache := c1 }) := by
          simp only [envMatch, hget]
        simp only [hg, Bool.false_eq_true, if_false]
        rw [dyn_tie _ m p hp, dynMatch_cache]
        cases hd : dynMatch rt m p with
        | none => exact ⟨none, none, by simp, by simp [ofGo]⟩
        | some x =>
          obtain ⟨r, ps⟩ := x
          refine ⟨some (r, none), some ps, ?_, by simp [ofGo]⟩
          simp [envMatch, hcach]
      · have hg : envMatch.cacheGet rt (m ++ p) = ((some (r, some ps), true), { rt with cache := c1 }) := by
          simp only [envMatch, hget]
        simp only [hg, if_true]
        exact ⟨some (r, some ps), some ps, by simp [envMatch], by simp [ofGo]⟩

end Tie
end Rux
