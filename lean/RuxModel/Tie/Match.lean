import RuxModel.Generated.Code
import RuxModel.Model.Table
/-
  Tie: the definition generated from parse_match.go `Router.match` — static table, route cache, the
  first-segment-keyed lists with the literal-prefix pre-filter, the residual lists; a dynamic match is stored in
  the cache — is the hand-written `matchM` of Model/Table.lean when the abstract tables and per-route operations
  are instantiated with the model's.

  Part 1 characterises the generated definition for ANY environment (`matchSpec`: the two `for` loops become
  `List.find?`); part 2 instantiates the environment.
-/
namespace Rux
namespace Tie
open GoRt

variable {σ ρ π : Type}

/-! ### part 1: the generated function, loops resolved -/

/-- what one of the two loops of `match` does with a list: the first element that passes the pre-filter (regular
    tier only) and whose regex matches is returned and stored in the cache -/
def loopSpec (env : MEnv σ ρ π) (m p : Bytes) (useStart : Bool) (l : List ρ) (s : σ) :
    Option (σ × Option ρ × Option π) × σ :=
  match l.find? (fun el => (!useStart || GoRt.index p (env.start el) == 0) && (env.matchRegex el p).2) with
  | some el =>
    (some (env.cacheDynamic s (m ++ p) (env.matchRegex el p).1 el, some el, (env.matchRegex el p).1),
      env.cacheDynamic s (m ++ p) (env.matchRegex el p).1 el)
  | none => (none, s)

theorem forIn_regular (env : MEnv σ ρ π) (m p : Bytes) (l : List ρ) (s : σ) :
    (forIn l ((none : Option (σ × Option ρ × Option π)), s) fun el_it __s =>
      if (GoRt.index p (env.start el_it) != 0) = true then
        (Except.ok (ForInStep.yield (none, __s.snd)) : Except Panic _)
      else
        if (env.matchRegex el_it p).snd = true then
          Except.ok (ForInStep.done
            (some (env.cacheDynamic __s.snd (m ++ p) (env.matchRegex el_it p).fst el_it, some el_it,
                (env.matchRegex el_it p).fst),
              env.cacheDynamic __s.snd (m ++ p) (env.matchRegex el_it p).fst el_it))
        else Except.ok (ForInStep.yield (none, __s.snd))) = .ok (loopSpec env m p true l s) := by
  induction l with
  | nil => rfl
  | cons a t ih =>
    simp only [loopSpec, Bool.not_true, Bool.false_or] at ih ⊢
    simp only [List.forIn_cons, List.find?_cons]
    by_cases h1 : GoRt.index p (env.start a) = 0
    · by_cases h2 : (env.matchRegex a p).2 = true
      · simp [h1, h2, bind, Except.bind, pure, Except.pure]
      · have hb : (GoRt.index p (env.start a) != 0) = false := by simp [h1]
        have h2' : (env.matchRegex a p).2 = false := by simpa using h2
        simp only [hb, h2', Bool.false_eq_true, if_false, bind, Except.bind, h1, beq_self_eq_true, Bool.true_and]
        exact ih
    · have hb : (GoRt.index p (env.start a) != 0) = true := by simp [h1]
      have hb' : (GoRt.index p (env.start a) == 0) = false := by simp [h1]
      simp only [hb, if_true, bind, Except.bind, hb', Bool.false_and]
      exact ih

theorem forIn_irregular (env : MEnv σ ρ π) (m p : Bytes) (l : List ρ) (s : σ) :
    (forIn l ((none : Option (σ × Option ρ × Option π)), s) fun route_2_it __s =>
        if (env.matchRegex route_2_it p).snd = true then
          (Except.ok (ForInStep.done
            (some (env.cacheDynamic __s.snd (m ++ p) (env.matchRegex route_2_it p).fst route_2_it, some route_2_it,
                (env.matchRegex route_2_it p).fst),
              env.cacheDynamic __s.snd (m ++ p) (env.matchRegex route_2_it p).fst route_2_it)) : Except Panic _)
        else Except.ok (ForInStep.yield (none, __s.snd))) = .ok (loopSpec env m p false l s) := by
  induction l with
  | nil => rfl
  | cons a t ih =>
    simp only [loopSpec, Bool.not_false, Bool.true_or, Bool.true_and] at ih ⊢
    simp only [List.forIn_cons, List.find?_cons]
    by_cases h2 : (env.matchRegex a p).2 = true
    · simp [h2, bind, Except.bind, pure, Except.pure]
    · have h2' : (env.matchRegex a p).2 = false := by simpa using h2
      simp only [h2', Bool.false_eq_true, if_false, bind, Except.bind]
      exact ih

/-- the residual tier, from state `s1` -/
def irrSpec (env : MEnv σ ρ π) (m p : Bytes) (s1 : σ) : Except Panic (σ × Option ρ × Option π) :=
  if (env.irregular s1 m).2 = true then
    match (loopSpec env m p false (env.irregular s1 m).1 s1).1 with
    | some r => .ok r
    | none => .ok ((loopSpec env m p false (env.irregular s1 m).1 s1).2, none, none)
  else .ok (s1, none, none)

/-- the dynamic tiers, from state `s` (after the static table and the cache missed) -/
def dynSpec (env : MEnv σ ρ π) (m p : Bytes) (s : σ) : Except Panic (σ × Option ρ × Option π) :=
  match GoRt.slice p 1 p.length with
  | .error e => .error e
  | .ok v =>
    if decide (GoRt.indexByte v 47 > 0) = true then
      match GoRt.slice p 1 (GoRt.indexByte v 47 + 1) with
      | .error e => .error e
      | .ok k =>
        if (env.regular s (m ++ k)).2 = true then
          match (loopSpec env m p true (env.regular s (m ++ k)).1 s).1 with
          | some r => .ok r
          | none => irrSpec env m p (loopSpec env m p true (env.regular s (m ++ k)).1 s).2
        else irrSpec env m p s
    else irrSpec env m p s

/-- `Router.match` with both loops resolved -/
def matchSpec (env : MEnv σ ρ π) (g : Gen.Router) (m p : Bytes) (s : σ) : Except Panic (σ × Option ρ × Option π) :=
  if (env.stable s (m ++ p)).isSome = true then .ok (s, env.stable s (m ++ p), none)
  else if g.enableCaching = true then
    if (env.cacheGet s (m ++ p)).1.2 = true then
      .ok ((env.cacheGet s (m ++ p)).2, (env.cacheGet s (m ++ p)).1.1, env.paramsClone (env.cacheGet s (m ++ p)).1.1)
    else dynSpec env m p (env.cacheGet s (m ++ p)).2
  else dynSpec env m p s

theorem gen_match_eq_spec (env : MEnv σ ρ π) (g : Gen.Router) (m p : Bytes) (s : σ) :
    Gen.Router.match_ g m p env s = matchSpec env g m p s := by
  unfold Gen.Router.match_ matchSpec dynSpec irrSpec
  simp only [bind, Except.bind, pure, Except.pure, forIn_regular, forIn_irregular]
  repeat' split
  all_goals (try rfl)
  all_goals (try omega)
  all_goals (try (simp_all; done))
  all_goals (try (exfalso; simp_all; omega))

end Tie
end Rux
