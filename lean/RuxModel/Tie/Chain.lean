import RuxModel.Generated.Code
import RuxModel.Model.Chain
import RuxModel.Tie.Tactic
/-
  Tie: the definitions generated from context.go `Next`, `Abort`, `IsAborted` and the hand-written chain
  model (Model/Chain.lean).

  `Gen.Ctx.Next c call fuel` is the Go loop with the handler invocation `c.handlers[c.index](c)` as a parameter.
  Here that parameter is instantiated with the MODEL's reading of a handler (`modelCall`: the handler's action
  list interpreted by `Chain.runActs`, nested `Next()` calls answered by `Chain.next`).  `tie_Next` then says:
  the generated loop around model handlers is the model's `next` — i.e. `Chain.next` satisfies the recursive
  equation that the Go source defines (and that equation, being by recursion on the fuel, has one solution).
  The trace of events lives in the ghost field of the generated context record.
-/
namespace Rux
namespace Tie
open Chain

abbrev GCtx := Gen.Ctx (List Ev)

/-- generated context and model state describe the same cursor and the same trace -/
structure CRel (hs : List Handler) (c : GCtx) (st : St) : Prop where
  idx : c.index = st.idx
  trace : c.ghost = st.trace
  len : c.handlers.length = hs.length

/-- results correspond: normal end with related states / out of fuel / Go panic -/
def ResRel (hs : List Handler) : Except Panic (Option GCtx) → Res → Prop
  | .ok (some c), .ok st => CRel hs c st
  | .ok none, .fuel => True
  | .error _, .panic => True
  | _, _ => False

/-- handler `j` of the chain as the model reads it: index check, `enter`, the actions (`Next()` inside them is
    the model's `next` with the fuel that is left), `leave` -/
def modelCall (hs : List Handler) (fuel : Nat) (j : Int) (c : GCtx) : Except Panic (Option GCtx) :=
  if 0 ≤ j then
    match hs[j.toNat]? with
    | none => .error .index
    | some h =>
      match runActs (next hs fuel) j.toNat h { idx := c.index, trace := c.ghost ++ [.enter j.toNat] } with
      | .ok st2 => .ok (some { c with index := st2.idx, ghost := st2.trace ++ [.leave j.toNat] })
      | .panic => .error .value
      | .fuel => .ok none
  else .error .index

/-- the first (shadowed) argument of the generated loop function is irrelevant -/
theorem loop1_irrel (a b : GCtx) (call : Nat → Int → GCtx → Except Panic (Option GCtx)) :
    ∀ (f : Nat) (st : GCtx × Int), Gen.Ctx.Next.loop1 a call f st = Gen.Ctx.Next.loop1 b call f st := by
  intro f
  induction f with
  | zero => intro st; rfl
  | succ f _ =>
    intro st
    simp only [Gen.Ctx.Next.loop1]

/-- the generated loop, started in a state related to `st`, is the model's `next` -/
theorem tie_loop (hs : List Handler) (c0 : GCtx) : ∀ (f : Nat) (c : GCtx) (st : St), CRel hs c st →
    ResRel hs ((Gen.Ctx.Next.loop1 c0 (modelCall hs) f (c, GoRt.wrap8 (GoRt.wrap8 (hs.length : Int) - 1))).map
        (fun o => o.map (·.1))) (next hs f st) := by
  intro f
  induction f with
  | zero => intro c st _; simp [Gen.Ctx.Next.loop1, next, ResRel, pure, Except.pure, Except.map]
  | succ f ih =>
    intro c st hr
    obtain ⟨hi, ht, hl⟩ := hr
    simp only [Gen.Ctx.Next.loop1, next]
    have hw : GoRt.wrap8 = Chain.wrap8 := by funext x; rfl
    simp only [hw, hi]
    by_cases hlt : st.idx < Chain.wrap8 (Chain.wrap8 (hs.length : Int) - 1)
    · simp only [hlt, decide_true, if_true]
      simp only [bind, Except.bind, modelCall]
      by_cases hj : 0 ≤ Chain.wrap8 (st.idx + 1)
      · simp only [hj, if_true]
        cases hh : hs[(Chain.wrap8 (st.idx + 1)).toNat]? with
        | none => simp [ResRel, Except.map]
        | some h =>
          simp only [ht]
          cases hrun : runActs (next hs f) (Chain.wrap8 (st.idx + 1)).toNat h
              { idx := Chain.wrap8 (st.idx + 1), trace := st.trace ++ [Ev.enter (Chain.wrap8 (st.idx + 1)).toNat] } with
          | ok st2 =>
            simp only []
            rw [loop1_irrel _ c0]
            exact ih _ _ ⟨rfl, rfl, hl⟩
          | panic => simp [ResRel, Except.map]
          | fuel => simp [ResRel, Except.map, pure, Except.pure]
      · simp [hj, ResRel, Except.map]
    · simp only [hlt, decide_false, Bool.false_eq_true, if_false]
      simp [ResRel, pure, Except.pure, Except.map]
      exact ⟨hi, ht, hl⟩

/-- `Context.Next()` as generated = the model's `next` -/
theorem tie_Next (hs : List Handler) (f : Nat) (c : GCtx) (st : St) (h : CRel hs c st) :
    ResRel hs (Gen.Ctx.Next c (modelCall hs) f) (next hs f st) := by
  have := tie_loop hs c f c st h
  unfold Gen.Ctx.Next
  simp only [h.len, bind, Except.bind, pure, Except.pure]
  revert this
  cases Gen.Ctx.Next.loop1 c (modelCall hs) f (c, GoRt.wrap8 (GoRt.wrap8 (hs.length : Int) - 1)) with
  | error e => simp [Except.map]
  | ok o => cases o <;> simp [Except.map]

/-- `Abort()` as generated is what the model's abort actions do to the cursor -/
theorem tie_Abort (c : GCtx) : Gen.Ctx.Abort c = { c with index := Chain.abortIndex } := by
  simp [Gen.Ctx.Abort, Id.run, GoRt.idPure, Chain.abortIndex]

/-- `IsAborted()` as generated is the model's test -/
theorem tie_IsAborted (c : GCtx) : Gen.Ctx.IsAborted c = decide (c.index ≥ Chain.abortIndex) := by
  simp [Gen.Ctx.IsAborted, Id.run, GoRt.idPure, Chain.abortIndex]

end Tie
end Rux
