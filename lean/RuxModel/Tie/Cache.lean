import RuxModel.Generated.Code
import RuxModel.Model.Cache
/-
  Tie (refinement): the definitions generated from route_cache.go — `cachedRoutes.Len/Set/Get/Delete/Has`
  over a `container/list` with element identity (`GoRt.LList`) and a `map[string]*list.Element` (`GoRt.HMap`) —
  refine the recency-ordered association list `Rux.Cache` of Model/Cache.lean (the model of property C14),
  under the representation invariant `Inv`: element identities are unique, keys are unique, and the map sends
  exactly the keys of the list to the identity of their element.
-/
namespace Rux
namespace Tie
open GoRt

variable {ρ : Type}

/-- the abstract cache a generated `cachedRoutes` record stands for -/
def absC (c : Gen.CR ρ) : Cache Bytes (Option ρ) :=
  ⟨c.size.toNat, c.list.items.map (fun e => (e.key, e.val))⟩

/-- representation invariant -/
structure Inv (c : Gen.CR ρ) : Prop where
  ids : (c.list.items.map (·.id)).Nodup
  keys : (c.list.items.map (·.key)).Nodup
  fresh : ∀ e ∈ c.list.items, e.id < c.list.nextId
  map : ∀ k, c.hashMap.get k = (c.list.items.find? (fun e => e.key == k)).map (·.id)

theorem tie_Len (c : Gen.CR ρ) : Gen.CR.Len c = ((absC c).len : Int) := by
  simp [Gen.CR.Len, Id.run, GoRt.idPure, LList.len, absC, Cache.len]

/-! ### list lemmas -/

theorem inj_of_nodup_map {α β : Type} (f : α → β) {l : List α} (hn : (l.map f).Nodup) {a b : α}
    (ha : a ∈ l) (hb : b ∈ l) (h : f a = f b) : a = b := by
  induction l with
  | nil => cases ha
  | cons x t ih =>
    simp only [List.map_cons, List.nodup_cons] at hn
    rcases List.mem_cons.mp ha with ha | ha <;> rcases List.mem_cons.mp hb with hb | hb
    · rw [ha, hb]
    · rw [ha] at h; exact absurd (by rw [h]; exact List.mem_map_of_mem hb) hn.1
    · rw [hb] at h; exact absurd (by rw [← h]; exact List.mem_map_of_mem ha) hn.1
    · exact ih hn.2 ha hb

theorem find_id_of_mem {l : List (LElem ρ)} (hn : (l.map (·.id)).Nodup) {e : LElem ρ} (he : e ∈ l) :
    l.find? (fun x => x.id == e.id) = some e := by
  induction l with
  | nil => cases he
  | cons a t ih =>
    simp only [List.map_cons, List.nodup_cons] at hn
    rcases List.mem_cons.mp he with h | h
    · subst h; simp
    · have : a.id ≠ e.id := fun h' => hn.1 (by rw [h']; exact List.mem_map_of_mem h)
      simp [List.find?_cons, this, ih hn.2 h]

theorem find_key_some {l : List (LElem ρ)} {k : Bytes} {e : LElem ρ}
    (h : l.find? (fun x => x.key == k) = some e) : e ∈ l ∧ e.key = k := by
  have h1 := List.find?_some h
  exact ⟨List.mem_of_find?_eq_some h, by simpa using h1⟩

/-- with unique ids and unique keys, filtering out the id of `e` is filtering out the key of `e` -/
theorem filter_id_eq_filter_key {l : List (LElem ρ)} (hi : (l.map (·.id)).Nodup) (hk : (l.map (·.key)).Nodup)
    {e : LElem ρ} (he : e ∈ l) :
    l.filter (fun y => y.id != e.id) = l.filter (fun y => !decide (y.key = e.key)) := by
  apply List.filter_congr
  intro y hy
  by_cases hye : y = e
  · subst hye; simp
  · have h1 : y.id ≠ e.id := by
      intro h
      have := inj_of_nodup_map (·.id) hi hy he h
      exact hye this
    have h2 : y.key ≠ e.key := by
      intro h
      have := inj_of_nodup_map (·.key) hk hy he h
      exact hye this
    simp [h1, h2]

/-! ### the map -/

theorem find_pred_congr {α : Type} {p q : α → Bool} (l : List α) (h : ∀ a ∈ l, p a = q a) :
    l.find? p = l.find? q := by
  induction l with
  | nil => rfl
  | cons a t ih =>
    have ha := h a (List.mem_cons_self)
    simp only [List.find?_cons, ha]
    rw [ih (fun x hx => h x (List.mem_cons_of_mem _ hx))]

theorem hget_del (m : HMap) (k k' : Bytes) : (m.del k).get k' = if k' = k then none else m.get k' := by
  unfold HMap.del HMap.get
  simp only [List.find?_filter]
  by_cases h : k' = k
  · subst h
    simp only [if_true, Option.map_eq_none_iff, List.find?_eq_none]
    intro x _; simp
  · simp only [if_neg h]
    congr 1
    apply find_pred_congr
    intro a _
    by_cases h2 : a.1 = k'
    · simp [h2, h]
    · simp [h2]

theorem hget_set (m : HMap) (k k' : Bytes) (i : Nat) :
    (m.set k (some i)).get k' = if k' = k then some i else m.get k' := by
  by_cases h : k' = k
  · subst h; simp [HMap.set, HMap.get]
  · have h' : ¬ k = k' := fun e => h e.symm
    have := hget_del m k k'
    simp only [if_neg h] at this ⊢
    have hb : (k == k') = false := by simp [h']
    simp only [HMap.set, HMap.get, List.find?_cons, hb]
    exact this

/-! ### the list, seen through the abstraction -/

@[reducible] def kv (e : LElem ρ) : Bytes × Option ρ := (e.key, e.val)

theorem abs_find (l : List (LElem ρ)) (k : Bytes) :
    (l.map kv).find? (fun x => decide (x.1 = k)) = (l.find? (fun e => e.key == k)).map kv := by
  rw [List.find?_map]
  congr 1
  apply find_pred_congr
  intro a _
  by_cases h : a.key = k <;> simp [kv, Function.comp, h]

theorem abs_rmKey (l : List (LElem ρ)) (k : Bytes) :
    rmKey k (l.map kv) = (l.filter (fun y => !decide (y.key = k))).map kv := by
  unfold rmKey
  rw [List.filter_map]
  congr 1

theorem abs_any (l : List (LElem ρ)) (k : Bytes) :
    (l.map kv).any (fun x => decide (x.1 = k)) = (l.find? (fun e => e.key == k)).isSome := by
  rw [List.any_map]
  induction l with
  | nil => rfl
  | cons a t ih => by_cases h : a.key = k <;> simp [List.find?_cons, kv, h, ih]

/-- with unique keys, the element found under its own key is the element -/
theorem find_own_key {l : List (LElem ρ)} (hk : (l.map (·.key)).Nodup) {e : LElem ρ} (he : e ∈ l) :
    l.find? (fun x => x.key == e.key) = some e := by
  induction l with
  | nil => cases he
  | cons a t ih =>
    simp only [List.map_cons, List.nodup_cons] at hk
    rcases List.mem_cons.mp he with h1 | h1
    · subst h1; simp
    · have : a.key ≠ e.key := by
        intro h2; apply hk.1; rw [h2]; exact List.mem_map_of_mem h1
      simp [this, ih hk.2 h1]

/-- looking a key up in the list with the element `e` moved to the front -/
theorem find_key_moved {l : List (LElem ρ)} (hk : (l.map (·.key)).Nodup) {e : LElem ρ} (he : e ∈ l) (k' : Bytes) :
    (e :: l.filter (fun y => !decide (y.key = e.key))).find? (fun x => x.key == k') =
      l.find? (fun x => x.key == k') := by
  by_cases h : e.key = k'
  · subst h; rw [find_own_key hk he]; simp
  · have hb : (e.key == k') = false := by simp [h]
    simp only [List.find?_cons, hb, List.find?_filter]
    apply find_pred_congr
    intro a _
    by_cases h2 : a.key = k'
    · simp [h2]; exact fun x => h x.symm
    · simp [h2]

/-- looking a key up in the list with the element `e` removed -/
theorem find_key_removed (l : List (LElem ρ)) (ek k' : Bytes) :
    (l.filter (fun y => !decide (y.key = ek))).find? (fun x => x.key == k') =
      if k' = ek then none else l.find? (fun x => x.key == k') := by
  simp only [List.find?_filter]
  by_cases h : k' = ek
  · subst h
    simp only [if_true, List.find?_eq_none]
    intro x _; simp
  · simp only [if_neg h]
    apply find_pred_congr
    intro a _
    by_cases h2 : a.key = k'
    · simp [h2, h]
    · simp [h2]

/-! ### the operations -/

theorem nodup_map_filter {α β : Type} (f : α → β) (p : α → Bool) {l : List α} (h : (l.map f).Nodup) :
    ((l.filter p).map f).Nodup :=
  List.Nodup.sublist (List.Sublist.map f List.filter_sublist) h

/-- moving a member to the front keeps the invariant -/
theorem inv_moved {c : Gen.CR ρ} (h : Inv c) {e : LElem ρ} (he : e ∈ c.list.items) :
    Inv { c with list := { c.list with items := e :: c.list.items.filter (fun y => y.id != e.id) } } := by
  obtain ⟨hi, hk, hf, hm⟩ := h
  refine ⟨?_, ?_, ?_, ?_⟩
  · simp only [List.map_cons, List.nodup_cons]
    refine ⟨?_, nodup_map_filter _ _ hi⟩
    intro hmem
    obtain ⟨y, hy, hye⟩ := List.mem_map.mp hmem
    have := (List.mem_filter.mp hy).2
    simp [hye] at this
  · simp only [filter_id_eq_filter_key hi hk he, List.map_cons, List.nodup_cons]
    refine ⟨?_, nodup_map_filter _ _ hk⟩
    intro hmem
    obtain ⟨y, hy, hye⟩ := List.mem_map.mp hmem
    have := (List.mem_filter.mp hy).2
    simp [hye] at this
  · intro x hx
    rcases List.mem_cons.mp hx with h1 | h1
    · subst h1; exact hf _ he
    · exact hf _ (List.mem_filter.mp h1).1
  · intro k'
    simp only [filter_id_eq_filter_key hi hk he, find_key_moved hk he k']
    exact hm k'

theorem find_some_id {c : Gen.CR ρ} (h : Inv c) {e : LElem ρ} (he : e ∈ c.list.items) :
    c.list.find (some e.id) = some e := by
  simp only [LList.find]; exact find_id_of_mem h.ids he

/-- `Get`: refines `Cache.get`; the Go results are (value, found) -/
theorem tie_Get (c : Gen.CR ρ) (k : Bytes) (h : Inv c) :
    Inv (Gen.CR.Get c k).1 ∧
    absC (Gen.CR.Get c k).1 = ((absC c).get k).2 ∧
    (Gen.CR.Get c k).2.2 = ((absC c).get k).1.isSome ∧
    (Gen.CR.Get c k).2.1 = ((absC c).get k).1.join := by
  have hm := h.map k
  simp only [Gen.CR.Get, Id.run, GoRt.idPure, Cache.get, absC]
  have hfold : c.list.items.map (fun e => (e.key, e.val)) = c.list.items.map kv := rfl
  rw [hfold, abs_find]
  cases hf : c.list.items.find? (fun e => e.key == k) with
  | none =>
    rw [hf] at hm
    simp [hm, h, hfold]
  | some e =>
    rw [hf] at hm
    obtain ⟨he, hek⟩ := find_key_some hf
    have hfind := find_some_id h he
    simp only [Option.map_some] at hm
    simp only [hm, Option.isSome_some, if_true, LList.moveToFront, hfind, Option.map_some, kv]
    refine ⟨inv_moved h he, ?_, by first | rfl | trivial, ?_⟩
    · simp only [List.map_cons, hfold, abs_rmKey, filter_id_eq_filter_key h.ids h.keys he, hek, kv]; try rfl
    · simp [LList.valOf, LList.find]

/-- removing a member (and its key from the map) keeps the invariant -/
theorem inv_removed {c : Gen.CR ρ} (h : Inv c) {e : LElem ρ} (he : e ∈ c.list.items) :
    Inv { c with hashMap := c.hashMap.del e.key,
                 list := { c.list with items := c.list.items.filter (fun y => y.id != e.id) } } := by
  obtain ⟨hi, hk, hf, hm⟩ := h
  refine ⟨nodup_map_filter _ _ hi, nodup_map_filter _ _ hk, ?_, ?_⟩
  · intro x hx; exact hf _ (List.mem_filter.mp hx).1
  · intro k'
    simp only [filter_id_eq_filter_key hi hk he, find_key_removed, hget_del, hm k']
    split <;> rfl

/-- `Delete`: refines `Cache.delete` -/
theorem tie_Delete (c : Gen.CR ρ) (k : Bytes) (h : Inv c) :
    Inv (Gen.CR.Delete c k).1 ∧
    absC (Gen.CR.Delete c k).1 = ((absC c).delete k).2 ∧
    (Gen.CR.Delete c k).2 = ((absC c).delete k).1 := by
  have hm := h.map k
  simp only [Gen.CR.Delete, Id.run, GoRt.idPure, Cache.delete, absC]
  have hfold : c.list.items.map (fun e => (e.key, e.val)) = c.list.items.map kv := rfl
  rw [hfold, abs_any, abs_rmKey]
  cases hf : c.list.items.find? (fun e => e.key == k) with
  | none =>
    rw [hf] at hm
    have hnone : c.list.items.filter (fun y => !decide (y.key = k)) = c.list.items := by
      rw [List.filter_eq_self]
      intro a ha
      have := List.find?_eq_none.mp hf a ha
      simpa using this
    simp [hm, h, hnone, hfold]
  | some e =>
    rw [hf] at hm
    obtain ⟨he, hek⟩ := find_key_some hf
    have hfind := find_some_id h he
    simp only [Option.map_some] at hm
    simp only [hm, Option.isSome_some, if_true, LList.remove, LList.keyOf, hfind, Option.map_some, Option.getD_some]
    refine ⟨inv_removed h he, ?_, by first | rfl | trivial⟩
    simp only [filter_id_eq_filter_key h.ids h.keys he, hek]; try rfl

/-- with unique ids, removing the last element by its id is `dropLast` -/
theorem filter_last {l : List (LElem ρ)} (hi : (l.map (·.id)).Nodup) {x : LElem ρ} (hx : l.getLast? = some x) :
    l.filter (fun y => y.id != x.id) = l.dropLast := by
  induction l with
  | nil => simp at hx
  | cons a t ih =>
    cases t with
    | nil =>
      simp at hx; subst hx; simp
    | cons b t' =>
      simp only [List.map_cons, List.nodup_cons] at hi
      have hx' : (b :: t').getLast? = some x := by simpa [List.getLast?_cons_cons] using hx
      have hmem : x ∈ b :: t' := List.mem_of_getLast? hx'
      have hne : a.id ≠ x.id := by
        intro h; apply hi.1; rw [h]; exact List.mem_map_of_mem (f := (·.id)) hmem
      have h2 := ih (by simpa [List.nodup_cons] using hi.2) hx'
      rw [List.filter_cons_of_pos (by simpa using hne), h2, List.dropLast_cons_cons]

/-- changing the value of an element keeps the invariant -/
theorem inv_setVal {c : Gen.CR ρ} (h : Inv c) (i : Nat) (v : Option ρ) :
    Inv { c with list := c.list.setVal (some i) v } := by
  obtain ⟨hi, hk, hf, hm⟩ := h
  have hid : (c.list.setVal (some i) v).items.map (·.id) = c.list.items.map (·.id) := by
    simp only [LList.setVal, List.map_map]
    apply List.map_congr_left; intro a _; simp only [Function.comp]; split <;> rfl
  have hkey : (c.list.setVal (some i) v).items.map (·.key) = c.list.items.map (·.key) := by
    simp only [LList.setVal, List.map_map]
    apply List.map_congr_left; intro a _; simp only [Function.comp]; split <;> rfl
  refine ⟨by rw [hid]; exact hi, by rw [hkey]; exact hk, ?_, ?_⟩
  · intro x hx
    simp only [LList.setVal, List.mem_map] at hx
    obtain ⟨y, hy, rfl⟩ := hx
    have := hf y hy
    split <;> exact this
  · intro k'
    rw [hm k']
    simp only [LList.setVal]
    induction c.list.items with
    | nil => rfl
    | cons a t ih =>
      simp only [List.map_cons, List.find?_cons]
      by_cases h1 : a.id == i <;> by_cases h2 : a.key == k' <;> simp [h1, h2, ih]

theorem gt_toNat (n : Nat) (s : Int) : ((n : Int) > s) ↔ n > s.toNat ∨ (s < 0 ∧ n = 0 ∧ False) ∨ (s < 0 ∧ n ≥ 0 ∧ (n : Int) > s) := by
  omega

/-- `Set`: refines `Cache.set`; the Go result is always `true` -/
theorem tie_Set (c : Gen.CR ρ) (k : Bytes) (v : Option ρ) (h : Inv c) :
    Inv (Gen.CR.Set c k v).1 ∧ absC (Gen.CR.Set c k v).1 = (absC c).set k v ∧ (Gen.CR.Set c k v).2 = true := by
  have hm := h.map k
  have hany : (absC c).items.any (fun x => decide (x.1 = k)) =
      (c.list.items.find? (fun e => e.key == k)).isSome := abs_any c.list.items k
  simp only [Gen.CR.Set, Id.run, GoRt.idPure, Cache.set]
  cases hf : c.list.items.find? (fun e => e.key == k) with
  | some e =>
    rw [hf] at hm hany
    obtain ⟨he, hek⟩ := find_key_some hf
    have hfind := find_some_id h he
    simp only [Option.map_some] at hm
    simp only [hm, hany, Option.isSome_some, if_true, LList.moveToFront, hfind]
    refine ⟨?_, ?_, by first | rfl | trivial⟩
    · exact inv_setVal (inv_moved h he) e.id v
    · have hne : ∀ y ∈ c.list.items.filter (fun y => y.id != e.id), (y.id == e.id) = false := by
        intro y hy; have := (List.mem_filter.mp hy).2; simpa using this
      have hmap : (c.list.items.filter (fun y => y.id != e.id)).map
            (fun x => if (x.id == e.id) = true then { x with val := v } else x) =
          c.list.items.filter (fun y => y.id != e.id) := by
        conv => rhs; rw [← List.map_id (c.list.items.filter (fun y => y.id != e.id))]
        apply List.map_congr_left; intro a ha; simp [hne a ha]
      have hrm := abs_rmKey c.list.items k
      simp only [absC, LList.setVal, List.map_cons, beq_self_eq_true, if_true]
      rw [hmap, filter_id_eq_filter_key h.ids h.keys he, hek,
        show c.list.items.map (fun e => (e.key, e.val)) = c.list.items.map kv from rfl, hrm]
  | none =>
    rw [hf] at hm hany
    simp only [Option.map_none] at hm
    simp only [hm, hany, Option.isSome_none, Bool.false_eq_true, if_false]
    have hpush : c.list.pushFront (k, v) =
        ({ items := ⟨c.list.nextId, k, v⟩ :: c.list.items, nextId := c.list.nextId + 1 }, some c.list.nextId) := rfl
    simp only [hpush]
    have hkn : k ∉ c.list.items.map (·.key) := by
      intro hmem
      obtain ⟨y, hy, hyk⟩ := List.mem_map.mp hmem
      have := List.find?_eq_none.mp hf y hy
      simp [hyk] at this
    have hidn : c.list.nextId ∉ c.list.items.map (·.id) := by
      intro hmem
      obtain ⟨y, hy, hyk⟩ := List.mem_map.mp hmem
      have := h.fresh y hy
      have hyk' : y.id = c.list.nextId := hyk
      omega
    have hinv1 : Inv ({ size := c.size, list := { items := ⟨c.list.nextId, k, v⟩ :: c.list.items, nextId := c.list.nextId + 1 }, hashMap := c.hashMap.set k (some c.list.nextId) } : Gen.CR ρ) := by
      refine ⟨?_, ?_, ?_, ?_⟩
      · simp only [List.map_cons, List.nodup_cons]; exact ⟨hidn, h.ids⟩
      · simp only [List.map_cons, List.nodup_cons]; exact ⟨hkn, h.keys⟩
      · intro x hx
        rcases List.mem_cons.mp hx with h1 | h1
        · subst h1; simp
        · have := h.fresh x h1; simp only; omega
      · intro k'
        simp only [hget_set, List.find?_cons, h.map k']
        by_cases hk' : k' = k
        · subst hk'; simp
        · have : (k == k') = false := by simp; exact fun e => hk' e.symm
          simp [hk', this]
    have hlen : decide (LList.len ({ items := ⟨c.list.nextId, k, v⟩ :: c.list.items, nextId := c.list.nextId + 1 } : LList ρ)
        > c.size) = decide (((k, v) :: (absC c).items).length > (absC c).cap) := by
      simp only [LList.len, absC, List.length_cons, List.length_map]
      congr 1
      apply propext
      constructor <;> intro hh <;> omega
    rw [hlen]
    by_cases hgt : ((k, v) :: (absC c).items).length > (absC c).cap
    · simp only [hgt, decide_true, if_true]
      -- the element at the back
      obtain ⟨x, hx⟩ : ∃ x, (⟨c.list.nextId, k, v⟩ :: c.list.items : List (LElem ρ)).getLast? = some x := by
        cases hl : (⟨c.list.nextId, k, v⟩ :: c.list.items : List (LElem ρ)).getLast? with
        | none => simp at hl
        | some x => exact ⟨x, rfl⟩
      have hxm : x ∈ (⟨c.list.nextId, k, v⟩ :: c.list.items : List (LElem ρ)) := List.mem_of_getLast? hx
      have hback : LList.back ({ items := ⟨c.list.nextId, k, v⟩ :: c.list.items, nextId := c.list.nextId + 1 } : LList ρ)
          = some x.id := by simp only [LList.back, hx, Option.map_some]
      have hkey : LList.keyOf ({ items := ⟨c.list.nextId, k, v⟩ :: c.list.items, nextId := c.list.nextId + 1 } : LList ρ)
          (some x.id) = x.key := by
        simp only [LList.keyOf, LList.find, find_id_of_mem hinv1.ids hxm, Option.map_some, Option.getD_some]
      simp only [hback, hkey, Option.isNone_some, Bool.false_eq_true, if_false, LList.remove]
      refine ⟨inv_removed hinv1 hxm, ?_, trivial⟩
      simp only [absC, filter_last hinv1.ids hx, List.map_dropLast, List.map_cons]
    · simp only [hgt, decide_false, Bool.false_eq_true, if_false]
      exact ⟨hinv1, by simp [absC], trivial⟩

/-- `Has` is `Get` without the value -/
theorem tie_Has (c : Gen.CR ρ) (k : Bytes) (h : Inv c) :
    Inv (Gen.CR.Has c k).1 ∧ absC (Gen.CR.Has c k).1 = ((absC c).has k).2 ∧
    (Gen.CR.Has c k).2 = ((absC c).has k).1 := by
  obtain ⟨h1, h2, h3, _⟩ := tie_Get c k h
  simp only [Gen.CR.Has, Id.run, GoRt.idPure, Cache.has]
  exact ⟨h1, h2, h3⟩

/-! ### operation sequences -/

/-- `NewCachedRoutes(size)`: empty list, empty map (the constructor is a composite literal; not translated) -/
def genNew (size : Int) : Gen.CR ρ := { size := size, list := {}, hashMap := {} }

theorem inv_new (size : Int) : Inv (genNew size : Gen.CR ρ) := by
  refine ⟨?_, ?_, ?_, ?_⟩ <;> simp [genNew, HMap.get]

theorem abs_new (size : Int) : absC (genNew size : Gen.CR ρ) = Cache.empty size.toNat := rfl

/-- one model operation executed by the GENERATED functions -/
def genStepC (c : Gen.CR ρ) : CacheOp Bytes (Option ρ) → Gen.CR ρ × CacheOut (Option ρ)
  | .set k v => ((Gen.CR.Set c k v).1, .bool (Gen.CR.Set c k v).2)
  | .get k => ((Gen.CR.Get c k).1, .val (if (Gen.CR.Get c k).2.2 then some (Gen.CR.Get c k).2.1 else none))
  | .has k => ((Gen.CR.Has c k).1, .bool (Gen.CR.Has c k).2)
  | .del k => ((Gen.CR.Delete c k).1, .bool (Gen.CR.Delete c k).2)
  | .len => (c, .nat (Gen.CR.Len c).toNat)

theorem tie_stepC (c : Gen.CR ρ) (op : CacheOp Bytes (Option ρ)) (h : Inv c) :
    Inv (genStepC c op).1 ∧ absC (genStepC c op).1 = ((absC c).step op).1 ∧
    (genStepC c op).2 = ((absC c).step op).2 := by
  cases op with
  | set k v =>
    obtain ⟨h1, h2, h3⟩ := tie_Set c k v h
    exact ⟨h1, h2, by simp [genStepC, Cache.step, h3]⟩
  | get k =>
    obtain ⟨h1, h2, h3, h4⟩ := tie_Get c k h
    refine ⟨h1, h2, ?_⟩
    simp only [genStepC, Cache.step, h3, h4]
    cases ((absC c).get k).1 <;> simp
  | has k =>
    obtain ⟨h1, h2, h3⟩ := tie_Has c k h
    exact ⟨h1, h2, by simp [genStepC, Cache.step, h3]⟩
  | del k =>
    obtain ⟨h1, h2, h3⟩ := tie_Delete c k h
    exact ⟨h1, h2, by simp [genStepC, Cache.step, h3]⟩
  | len => exact ⟨h, rfl, by simp [genStepC, Cache.step, tie_Len]⟩

def genRunC (c : Gen.CR ρ) : List (CacheOp Bytes (Option ρ)) → Gen.CR ρ
  | [] => c
  | op :: ops => genRunC (genStepC c op).1 ops

def genOutputsC (c : Gen.CR ρ) : List (CacheOp Bytes (Option ρ)) → List (CacheOut (Option ρ))
  | [] => []
  | op :: ops => (genStepC c op).2 :: genOutputsC (genStepC c op).1 ops

/-- any operation sequence on the generated code: same outputs and same abstract state as the model,
    and the representation invariant holds throughout -/
theorem tie_runC (ops : List (CacheOp Bytes (Option ρ))) : ∀ (c : Gen.CR ρ), Inv c →
    Inv (genRunC c ops) ∧ absC (genRunC c ops) = (absC c).run ops ∧
    genOutputsC c ops = (absC c).outputs ops := by
  induction ops with
  | nil => intro c h; exact ⟨h, rfl, rfl⟩
  | cons op ops ih =>
    intro c h
    obtain ⟨h1, h2, h3⟩ := tie_stepC c op h
    obtain ⟨i1, i2, i3⟩ := ih _ h1
    refine ⟨i1, ?_, ?_⟩
    · simp only [genRunC, Cache.run]; rw [i2, h2]
    · simp only [genOutputsC, Cache.outputs]; rw [i3, h2, h3]

end Tie
end Rux
