import RuxModel.Tie.Quick
import RuxModel.Tie.Match
import RuxModel.Tie.Allowed
import RuxModel.Props.C13
/-
  The matching pipeline AS GENERATED, composed: `QuickMatch` (parse_match.go) calling the generated `Router.match`
  and the generated `findAllowedMethods` (which calls the generated `match` again) — no model function in between —
  answers what the model's `quickMatch` answers, and leaves the model's router state.

  Tie/Quick.lean proves this for `QuickMatch` over the MODEL's lookups (`envM`); Tie/Match.lean and Tie/Allowed.lean
  prove that the generated `match` / `findAllowedMethods` are those lookups.  Here the three are put together:
  `envG` is the environment whose operations are the generated functions themselves.
-/
set_option linter.unusedSimpArgs false
set_option linter.unusedVariables false
namespace Rux
namespace Tie
open GoRt

/-- the generated `Router.match` (over the model's tables and cache, `envMatch`) as the `match` operation of
    `QuickMatch` / `findAllowedMethods`; a panic (only for the empty path, which `formatPath` never produces) would be
    "no route" -/
def genMatchOp (g : Gen.Router) (s : RouterM) (m p : Bytes) : (Option (RouteM × Bool) × Option Params) × RouterM :=
  match Gen.Router.match_ g m p envMatch s with
  | .ok (s', ro, po) => ((ro.map (fun x => (x.1, x.2.isSome)), ro.map (fun _ => po.getD [])), s')
  | .error _ => ((none, none), s)

/-- `match` = the generated function; the operation `findAllowed` is not used by `findAllowedMethods` -/
def envG0 (g : Gen.Router) : QMEnv RouterM (RouteM × Bool) Params where
  match_ := genMatchOp g
  findAllowed s _ _ := ([], s)
  stable := envM.stable

/-- every operation of `QuickMatch` is the generated function; `ord` = the order in which Go visits the map keys -/
def envG (g : Gen.Router) (ord : List Bytes → List Bytes) : QMEnv RouterM (RouteM × Bool) Params where
  match_ := genMatchOp g
  findAllowed s m p :=
    let r := Gen.Router.findAllowedMethods g m p (envG0 g) anyMethodsB ord s
    (r.2, r.1)
  stable := envM.stable

theorem genMatchOp_eq (g : Gen.Router) (s : RouterM) (hc : g.enableCaching = s.opts.caching) (m p : Bytes)
    (hp : p ≠ []) : genMatchOp g s m p = envM.match_ s m p := by
  obtain ⟨ro, po, hgen, hmod⟩ := tie_match g s hc m p hp
  unfold genMatchOp
  rw [hgen]
  simp only [envM]
  rcases hm : matchM s m p with ⟨res, s'⟩
  rw [hm] at hmod
  simp only at hmod ⊢
  cases ro with
  | none =>
    have : res = none := by simpa [ofGo] using hmod
    subst this; rfl
  | some x =>
    have : res = some (x.1, po.getD [], x.2.isSome) := by simpa [ofGo] using hmod
    subst this; rfl

/-- what a caller of the generated `QuickMatch` gets for the model's result when Go visits the allowed methods in
    the order `ord` -/
def absResO (ord : List Bytes → List Bytes) : MatchResult → Option (RouteM × Bool) × Option Params × List Bytes
  | .allowed ms => (none, none, ord ms)
  | r => absRes r

theorem tie_tail_env (env : QMEnv RouterM (RouteM × Bool) Params) (ord : List Bytes → List Bytes)
    (rt0 rt : RouterM) (m q : Bytes) (ho : rt.opts = rt0.opts)
    (hst : env.stable = envM.stable)
    (hfa : env.findAllowed rt m q =
      (if decide (((findAllowed rt m q).1.length : Int) > 0) then ord (findAllowed rt m q).1 else [], (findAllowed rt m q).2))
    (hord : ∀ l, (ord l).length = l.length) :
    (if rt0.opts.fallback = true then
      if (env.stable rt (m ++ [47, 42])).isSome = true then
        (Except.ok (rt, env.stable rt (m ++ [47, 42]), none, []) : Except Panic _)
      else
        if rt0.opts.notAllowed = true then
          if decide (((env.findAllowed rt m q).fst.length : Int) > 0) = true then
            Except.ok ((env.findAllowed rt m q).snd, none, none, (env.findAllowed rt m q).fst)
          else Except.ok ((env.findAllowed rt m q).snd, none, none, (env.findAllowed rt m q).fst)
        else Except.ok (rt, none, none, [])
    else
      if rt0.opts.notAllowed = true then
        if decide (((env.findAllowed rt m q).fst.length : Int) > 0) = true then
          Except.ok ((env.findAllowed rt m q).snd, none, none, (env.findAllowed rt m q).fst)
        else Except.ok ((env.findAllowed rt m q).snd, none, none, (env.findAllowed rt m q).fst)
      else Except.ok (rt, none, none, [])) =
    .ok ((tailMatch rt m q).2, absResO ord (tailMatch rt m q).1) := by
  unfold tailMatch
  rw [ho, hfa, hst]
  simp only [envM, slashStar]
  cases rt0.opts.fallback <;> cases rt0.opts.notAllowed <;>
    simp only [Bool.false_eq_true, if_false, if_true, absRes, absResO]
  · cases hl : (findAllowed rt m q).1 with
    | nil => simp [absResO, absRes]
    | cons a t => simp [absResO]
  · cases alistGet rt.stable (m ++ [47, 42]) <;> simp [absRes, absResO]
  · cases alistGet rt.stable (m ++ [47, 42]) with
    | some r => simp [absRes, absResO]
    | none =>
      simp only [Option.map_none, Option.isSome_none, Bool.false_eq_true, if_false]
      cases hl : (findAllowed rt m q).1 with
      | nil => simp [absResO, absRes]
      | cons a t => simp [absResO]


/-- `findAllowedMethods` as generated, calling the generated `match` = the model's `findAllowed` -/
theorem envG_findAllowed (g : Gen.Router) (ord : List Bytes → List Bytes) (rt : RouterM)
    (hc : g.enableCaching = rt.opts.caching) (m q : Bytes) (hq : q ≠ []) (hnd : anyMethodsB.Nodup) :
    (envG g ord).findAllowed rt m q =
      (if decide (((findAllowed rt m q).1.length : Int) > 0) then ord (findAllowed rt m q).1 else [], (findAllowed rt m q).2) := by
  simp only [envG]
  rw [tie_findAllowed_env (envG0 g) g rt m q ord (fun s m' ho => genMatchOp_eq g s (by rw [ho]; exact hc) m' q hq) hnd]

/-- **The composed pipeline.**  The generated `QuickMatch`, with the generated `match` and the generated
    `findAllowedMethods` as its operations, on the model's tables: never panics, leaves the router state of the model's
    `quickMatch` and answers its result (the allowed methods in the order `ord`). -/
theorem tie_pipeline (g : Gen.Router) (ord : List Bytes → List Bytes) (rt : RouterM) (h : OptsRel g rt.opts)
    (hc : g.enableCaching = rt.opts.caching) (hnd : anyMethodsB.Nodup) (hord : ∀ l, (ord l).length = l.length)
    (m p : Bytes) :
    Gen.Router.QuickMatch g m p (envG g ord) rt =
      .ok ((quickMatch rt m p).2, absResO ord (quickMatch rt m p).1) := by
  obtain ⟨hs, hi, hf, hn⟩ := h
  unfold Gen.Router.QuickMatch quickMatch
  simp only [Id.run, GoRt.idPure, GoRt.idBind, tie_formatPath, C11_table_normaliser, hs, hi, hf, hn, bind, Except.bind, pure, Except.pure]
  cases hint : rt.opts.intercept
  case' nil =>
    simp only [bne_self_eq_false, Bool.false_eq_true, if_false, List.isEmpty_nil, if_true]
    have hq := C13_path_nonempty rt.opts.strict p
    generalize fmtPath rt.opts.strict p = q at hq
  case' cons b t =>
    have hne : ((b :: t) != ([] : Bytes)) = true := by simp
    simp only [hne, if_true, List.isEmpty_cons, Bool.false_eq_true, if_false]
    have hq := C13_path_nonempty rt.opts.strict (b :: t)
    generalize fmtPath rt.opts.strict (b :: t) = q at hq
  all_goals
    have hm0 : (envG g ord).match_ rt m q = envM.match_ rt m q := genMatchOp_eq g rt hc m q hq
    rw [hm0]
    rcases hm : matchM rt m q with ⟨_ | ⟨r, ps, c⟩, rt1⟩
    · have ho1 : rt1.opts = rt.opts := by have := matchM_opts rt m q; rw [hm] at this; exact this
      have hc1 : g.enableCaching = rt1.opts.caching := by rw [ho1]; exact hc
      rw [envM_match_none hm]
      simp only [Option.isSome_none, Bool.false_eq_true, if_false]
      unfold headMatch
      by_cases hh : m = methodHEAD
      · have hh' : (m == ([72, 69, 65, 68] : Bytes)) = true := by subst hh; rfl
        simp only [hh', if_pos hh, if_true]
        have hm1 : (envG g ord).match_ rt1 ([71, 69, 84] : Bytes) q = envM.match_ rt1 ([71, 69, 84] : Bytes) q :=
          genMatchOp_eq g rt1 hc1 _ q hq
        rw [hm1]
        rcases hg : matchM rt1 methodGET q with ⟨_ | ⟨r, ps, c⟩, rt2⟩
        · have ho2 : rt2.opts = rt.opts := by
            have := matchM_opts rt1 methodGET q; rw [hg] at this; exact this.trans ho1
          have hg' : matchM rt1 ([71, 69, 84] : Bytes) q = (none, rt2) := hg
          rw [envM_match_none hg']
          simp only [Option.isSome_none, Bool.false_eq_true, if_false]
          exact tie_tail_env (envG g ord) ord rt rt2 m q ho2 rfl
            (envG_findAllowed g ord rt2 (by rw [ho2]; exact hc) m q hq hnd) hord
        · have hg' : matchM rt1 ([71, 69, 84] : Bytes) q = (some (r, ps, c), rt2) := hg
          rw [envM_match_some hg']
          simp [absRes, absResO]
      · have hh' : (m == ([72, 69, 65, 68] : Bytes)) = false := by
          simp only [beq_eq_false_iff_ne]; exact hh
        simp only [hh', if_neg hh, Bool.false_eq_true, if_false]
        exact tie_tail_env (envG g ord) ord rt rt1 m q ho1 rfl
          (envG_findAllowed g ord rt1 hc1 m q hq hnd) hord
    · rw [envM_match_some hm]; simp [absRes, absResO]

end Tie
end Rux
