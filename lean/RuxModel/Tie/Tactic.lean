/-
  Tactics shared by the tie theorems (generated code = hand-written model).
-/
namespace Rux

/-- case analysis on every `if`/`match` of the goal, normalising with the case hypotheses -/
macro "tie_cases" : tactic =>
  `(tactic| repeat' (first | rfl | (split <;> (try simp [*] at *))))

/-- unfold the monadic plumbing the translator emits -/
macro "tie_simp" : tactic =>
  `(tactic| simp [Id.run, Bind.bind, Except.bind, pure, Except.pure, bne])

end Rux
