import RuxModel.Generated.Code
import RuxModel.Model.Path
import RuxModel.Model.PathFmt
import RuxModel.Model.Pattern
import RuxModel.Tie.Tactic
/-
  Tie: the definitions generated from router.go `formatPath` and utils.go `simpleFmtPath`, `isFixedPath`,
  `quotePointChar` are the hand-written ones of Model/Path.lean (C11), Model/PathFmt.lean (route table model)
  and Model/Pattern.lean (C01/C13).
-/
namespace Rux
namespace Tie
open Bytes

theorem byteAt_nat (s : Bytes) (i : Nat) : GoRt.byteAt s (i : Int) = Path.byteAt s i := by
  have : ¬ ((i : Int) < 0) := by omega
  simp [GoRt.byteAt, Path.byteAt, this]
  cases s[i]? <;> rfl

/-- generated `Router.formatPath` = `Path.formatPath` (the `Except` version whose totality is C11_total) -/
theorem tie_formatPath (r : Gen.Router) (path : Bytes) :
    Gen.Router.formatPath r path = Path.formatPath r.strictLastSlash path := by
  unfold Gen.Router.formatPath Path.formatPath
  simp only [GoRt.byteAt, Path.byteAt, Path.slash]
  cases r.strictLastSlash <;>
  simp [Bind.bind, Except.bind, pure, Except.pure] <;>
  tie_cases

/-- generated `simpleFmtPath` = `Path.simpleFmtPath` -/
theorem tie_simpleFmtPath (path : Bytes) : Gen.simpleFmtPath path = Path.simpleFmtPath path := by
  simp [Gen.simpleFmtPath, Path.simpleFmtPath, Id.run, GoRt.idPure, Path.slash]

theorem indexByte_neg (s : Bytes) (c : Nat) : decide (GoRt.indexByte s c < 0) = (Bytes.indexByte s c).isNone := by
  unfold GoRt.indexByte
  cases Bytes.indexByte s c with
  | none => simp
  | some i => simp

/-- generated `isFixedPath` = the model's (`Path.isFixedPath`, `Rux.isFixedPath` of the pattern model) -/
theorem tie_isFixedPath (s : Bytes) : Gen.isFixedPath s = Path.isFixedPath s := by
  simp [Gen.isFixedPath, Path.isFixedPath, Id.run, GoRt.idPure, indexByte_neg]

theorem tie_isFixedPath' (s : Bytes) : Gen.isFixedPath s = Rux.isFixedPath s := by
  simp [Gen.isFixedPath, Rux.isFixedPath, Id.run, GoRt.idPure, indexByte_neg]

end Tie
end Rux
