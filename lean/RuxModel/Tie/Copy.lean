import RuxModel.Generated.Code
import RuxModel.Tie.Allowed
import RuxModel.Tie.Cache
/-
  route.go `Params.clone`, `Route.copyWithParams` and parse_match.go `Router.cacheDynamicRoute` as generated: what a
  successful dynamic lookup stores in the route cache.

  A Go map is the list of its pairs (distinct keys); the order in which `range` visits them is the parameter `ord`.  The
  closed forms below hold for EVERY `ord`; that the clone is the same MAP as the original needs only that `ord` returns
  a permutation of the pairs (what Go guarantees: every pair once).
-/
set_option linter.unusedSimpArgs false
namespace Rux
namespace Tie
open GoRt

/-- lookup in a map represented as the list of its pairs -/
def kvFind (m : KV) (k : Bytes) : Option Bytes := (m.find? (fun x => x.1 == k)).map (·.2)

/-- the keys of a map are distinct -/
def KeysNodup (m : KV) : Prop := (m.map (·.1)).Nodup

theorem kvFind_kvSet (m : KV) (k v k' : Bytes) :
    kvFind (kvSet m k v) k' = if k = k' then some v else kvFind m k' := by
  unfold kvFind kvSet
  by_cases h : k = k'
  · subst h; simp
  · simp only [h, if_false, List.find?_cons]
    have : ((k == k') = false) := by simpa using h
    simp only [this]
    congr 1
    induction m with
    | nil => rfl
    | cons a t ih =>
      simp only [List.filter_cons]
      by_cases ha : a.1 = k
      · have hne : (a.1 == k') = false := by rw [ha]; simpa using h
        simp [ha, List.find?_cons, this, ih]
      · have : (a.1 != k) = true := by simpa using ha
        simp only [this, if_true, List.find?_cons]
        cases a.1 == k' <;> simp [ih]

/-- `Params.clone` on a nil map is nil -/
theorem clone_none (ord : KV → KV) : Gen.Params.clone none ord = none := rfl

/-- `Params.clone` on a non-nil map: a NEW map into which every visited pair has been stored -/
theorem clone_some (l : KV) (ord : KV → KV) :
    Gen.Params.clone (some l) ord = (ord l).foldl (fun b a => kvSetO b a.1 a.2) (some []) := by
  unfold Gen.Params.clone
  simp only [Id.run, Option.isNone_some, Bool.false_eq_true, if_false, Option.getD_some, bind, pure]
  have := forIn_id_yield (ord l) (fun (t1 : Bytes × Bytes) (r : Option KV) => (ForInStep.yield (kvSetO r t1.1 t1.2) : Id _))
    (fun a b => kvSetO b a.1 a.2) (fun _ _ => rfl) (some [])
  exact this

theorem fold_some (xs : KV) : ∀ acc : KV,
    xs.foldl (fun (b : Option KV) a => kvSetO b a.1 a.2) (some acc) = some (xs.foldl (fun b a => kvSet b a.1 a.2) acc) := by
  induction xs with
  | nil => intro acc; rfl
  | cons a t ih => intro acc; simp only [List.foldl_cons, kvSetO, Option.map_some]; exact ih _

/-- looking a key up in a map built by storing the pairs of `xs` (distinct keys) on top of `acc` -/
theorem kvFind_fold (xs : KV) (hn : KeysNodup xs) : ∀ (acc : KV) (k : Bytes),
    kvFind (xs.foldl (fun b a => kvSet b a.1 a.2) acc) k = (kvFind xs k).or (kvFind acc k) := by
  induction xs with
  | nil => intro acc k; simp [kvFind]
  | cons a t ih =>
    intro acc k
    have hn' : KeysNodup t := by unfold KeysNodup at hn ⊢; simp only [List.map_cons, List.nodup_cons] at hn; exact hn.2
    have hnot : a.1 ∉ t.map (·.1) := by unfold KeysNodup at hn; simp only [List.map_cons, List.nodup_cons] at hn; exact hn.1
    simp only [List.foldl_cons]
    rw [ih hn', kvFind_kvSet]
    by_cases hk : a.1 = k
    · subst hk
      have hfn : t.find? (fun x => x.1 == a.1) = none := by
        rw [List.find?_eq_none]
        intro x hx hxe
        exact hnot (by simp only [List.mem_map]; exact ⟨x, hx, by simpa using hxe⟩)
      simp [hfn, kvFind, List.find?_cons]
    · have hb : (a.1 == k) = false := by simpa using hk
      simp [hk, kvFind, List.find?_cons, hb]

theorem kvFind_perm {l l' : KV} (hp : l'.Perm l) (hn : KeysNodup l) (k : Bytes) : kvFind l' k = kvFind l k := by
  have hn' : KeysNodup l' := by unfold KeysNodup at hn ⊢; exact (hp.map _).nodup_iff.mpr hn
  unfold kvFind
  cases h : l.find? (fun x => x.1 == k) with
  | none =>
    rw [List.find?_eq_none] at h
    have : l'.find? (fun x => x.1 == k) = none := by
      rw [List.find?_eq_none]; intro x hx; exact h x (hp.mem_iff.mp hx)
    rw [this]
  | some x =>
    have hx := List.mem_of_find?_eq_some h
    have hxk := List.find?_some h
    cases h' : l'.find? (fun x => x.1 == k) with
    | none =>
      rw [List.find?_eq_none] at h'
      exact absurd hxk (h' x (hp.mem_iff.mpr hx))
    | some y =>
      have hy := hp.mem_iff.mp (List.mem_of_find?_eq_some h')
      have hyk := List.find?_some h'
      -- two pairs of `l` with the same key are the same pair
      have hxy : x.1 = y.1 := by
        have a : x.1 = k := by simpa using hxk
        have b : y.1 = k := by simpa using hyk
        rw [a, b]
      have : x = y := by
        unfold KeysNodup at hn
        exact inj_of_nodup_map (·.1) hn hx hy hxy
      rw [this]

/-- **the clone is the same map**: for every visiting order that permutes the pairs, a lookup in the clone gives what
    the lookup in the original gives (same keys, same values) -/
theorem clone_same_map (l : KV) (ord : KV → KV) (hp : (ord l).Perm l) (hn : KeysNodup l) :
    ∃ l', Gen.Params.clone (some l) ord = some l' ∧ ∀ k, kvFind l' k = kvFind l k := by
  refine ⟨(ord l).foldl (fun b a => kvSet b a.1 a.2) [], ?_, ?_⟩
  · rw [clone_some, fold_some]
  · intro k
    have hn' : KeysNodup (ord l) := by unfold KeysNodup at hn ⊢; exact (hp.map _).nodup_iff.mpr hn
    rw [kvFind_fold _ hn', kvFind_perm hp hn]
    simp [kvFind]

/-- the clone has exactly as many entries as the original -/
theorem clone_length (l : KV) (ord : KV → KV) (hp : (ord l).Perm l) (hn : KeysNodup l) :
    ∃ l', Gen.Params.clone (some l) ord = some l' ∧ l'.length = l.length := by
  refine ⟨(ord l).foldl (fun b a => kvSet b a.1 a.2) [], by rw [clone_some, fold_some], ?_⟩
  have hn' : KeysNodup (ord l) := by unfold KeysNodup at hn ⊢; exact (hp.map _).nodup_iff.mpr hn
  rw [← hp.length_eq]
  generalize ord l = xs at hn'
  -- storing pairs with new keys adds one entry each
  have key : ∀ (xs acc : KV), KeysNodup xs → (∀ x ∈ xs, x.1 ∉ acc.map (·.1)) →
      (xs.foldl (fun b a => kvSet b a.1 a.2) acc).length = xs.length + acc.length := by
    intro xs
    induction xs with
    | nil => intro acc _ _; simp
    | cons a t ih =>
      intro acc hn hd
      have hn2 : KeysNodup t := by unfold KeysNodup at hn ⊢; simp only [List.map_cons, List.nodup_cons] at hn; exact hn.2
      have hnot : a.1 ∉ t.map (·.1) := by unfold KeysNodup at hn; simp only [List.map_cons, List.nodup_cons] at hn; exact hn.1
      simp only [List.foldl_cons]
      have hfil : acc.filter (fun x => x.1 != a.1) = acc := by
        rw [List.filter_eq_self]
        intro x hx
        have := hd a (List.mem_cons_self)
        have hne : x.1 ≠ a.1 := fun he => this (by simp only [List.mem_map]; exact ⟨x, hx, he⟩)
        simpa using hne
      rw [ih _ hn2]
      · simp only [kvSet, hfil, List.length_cons]; omega
      · intro x hx
        simp only [kvSet, hfil, List.map_cons, List.mem_cons, not_or]
        constructor
        · intro he; exact hnot (by simp only [List.mem_map]; exact ⟨x, hx, he⟩)
        · exact hd x (List.mem_cons_of_mem _ hx)
  have := key xs [] hn' (by intro x _; simp)
  simpa using this

/-- `copyWithParams`: the copy differs from the route in exactly three fields — the compiled pattern and the variable
    names are dropped, the params are the clone of the matched params.  Name, path, methods, main handler, middleware
    chain, start and spath are the route's. -/
theorem copyWithParams_eq (r : Gen.Route) (ps : Option KV) (ord : KV → KV) :
    Gen.Route.copyWithParams r ps ord = { r with regex := none, matches_ := [], params := Gen.Params.clone ps ord } := rfl

/-- `cacheDynamicRoute`: with the cache disabled nothing is stored; otherwise ONE `Set` under the given key of the copy -/
theorem cacheDynamicRoute_eq {σ : Type} (g : Gen.Router) (key : Bytes) (ps : Option KV) (route : Gen.Route)
    (cacheSet : σ → Bytes → Gen.Route → σ) (ord : KV → KV) (s : σ) :
    Gen.Router.cacheDynamicRoute g key ps route cacheSet ord s =
      if g.enableCaching then cacheSet s key (Gen.Route.copyWithParams route ps ord) else s := by
  unfold Gen.Router.cacheDynamicRoute
  cases g.enableCaching <;> rfl

end Tie
end Rux
