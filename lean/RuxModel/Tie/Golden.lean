import RuxModel.Generated.Code
/-
  WRITTEN BY tools/update_golden.py — snapshot ties.  For generated definitions that have no semantic tie theorem yet,
  a verbatim copy taken when the framework was last reviewed, and the theorem (by `rfl`) that what go/go2lean generates
  from /repo now is still that copy.  A change of the Go function changes the generated definition and the `rfl` stops
  checking; bin/check then searches for a failing input with the engines.  (A snapshot says "unchanged since reviewed",
  nothing about what the function does — the readable specification and the property theorems on top of it are in
  Tie/Handle.lean.)
-/
set_option linter.unusedVariables false
namespace Rux.Golden
open Rux Rux.Gen

variable {γ : Type}

def Router.handleHTTPRequest {σ ρ η : Type} (r : Router) (ctx : Ctx γ) (env : GoRt.HEnv σ ρ η (Ctx γ)) (s0 : σ) : σ × Ctx γ × Option Panic := Id.run do
  let mut ctx := ctx
  let mut s := s0
  let mut hchain : List η := []
  let hasRecover : Bool := ((env.onPanicH s)).isSome
  let b : σ × Ctx γ × Option Panic := Id.run do
    let mut ctx := ctx
    let mut s := s
    let mut hchain := hchain
    let mut path : Bytes := (env.urlPath (ctx).req)
    let t1 : Bytes := Id.run do
      let mut path := path
      if r.useEncodedPath then
        path := (env.escapedPath (ctx).req)
      return path
    path := t1
    let t2 := env.quickMatch s (env.method (ctx).req) path
    s := t2.1
    if let some p := t2.2.2.2.2 then return (s, ctx, some p)
    let t3 := t2.2.1
    let t4 := t2.2.2.1
    let t5 := t2.2.2.2.1
    let mut route : Option ρ := t3
    let mut params : Option GoRt.KV := t4
    let mut allowed : List Bytes := t5
    let mut mainHandler : Option η := default
    let mut handlers : List η := default
    let t6 : Ctx γ × Option η × List η := Id.run do
      let mut ctx := ctx
      let mut mainHandler := mainHandler
      let mut handlers := handlers
      if (route).isSome then
        ctx := { ctx with params := params }
        ctx := { ctx with data := GoRt.dataSet (ctx).data ([0x5F, 0x63, 0x75, 0x72, 0x72, 0x65, 0x6E, 0x74, 0x52, 0x6F, 0x75, 0x74, 0x65, 0x4E, 0x61, 0x6D, 0x65] : Bytes) (GoRt.ToDV.toDV (env.routeName route)) }
        ctx := { ctx with data := GoRt.dataSet (ctx).data ([0x5F, 0x63, 0x75, 0x72, 0x72, 0x65, 0x6E, 0x74, 0x52, 0x6F, 0x75, 0x74, 0x65, 0x50, 0x61, 0x74, 0x68] : Bytes) (GoRt.ToDV.toDV path) }
        handlers := (env.routeHandlers route)
        mainHandler := (env.routeHandler route)
      else
        let t9 : Ctx γ × List η := Id.run do
          let mut ctx := ctx
          let mut handlers := handlers
          if (decide ((allowed.length : Int) > (0 : Int))) then
            ctx := { ctx with data := GoRt.dataSet (ctx).data ([0x5F, 0x61, 0x6C, 0x6C, 0x6F, 0x77, 0x65, 0x64, 0x4D, 0x65, 0x74, 0x68, 0x6F, 0x64, 0x73] : Bytes) (GoRt.ToDV.toDV allowed) }
            handlers := (env.noAllowed s)
            let t11 : List η := Id.run do
              let mut handlers := handlers
              if ((handlers.length : Int) == (0 : Int)) then
                handlers := env.default405
              return handlers
            handlers := t11
          else
            handlers := (env.noRoute s)
            let t12 : List η := Id.run do
              let mut handlers := handlers
              if ((handlers.length : Int) == (0 : Int)) then
                handlers := env.default404
              return handlers
            handlers := t12
          return (ctx, handlers)
        (ctx, handlers) := t9
      return (ctx, mainHandler, handlers)
    (ctx, mainHandler, handlers) := t6
    let mut chain : List η := []
    chain := (chain ++ (env.globalHandlers s))
    chain := (chain ++ handlers)
    let t13 : List η := Id.run do
      let mut chain := chain
      if (mainHandler).isSome then
        chain := (chain ++ (mainHandler).toList)
      return chain
    chain := t13
    hchain := chain
    ctx := { ctx with handlers := (chain).map (fun _ => ()) }
    let t15 := env.next s ctx hchain
    s := t15.1
    ctx := t15.2.1
    if let some p := t15.2.2 then return (s, ctx, some p)
    if (((env.onErrorH s)).isSome && (decide ((ctx.errors.length : Int) > (0 : Int)))) then
      let t16 := env.onError s ctx
      s := t16.1
      ctx := t16.2.1
      if let some p := t16.2.2 then return (s, ctx, some p)
    let t17 := (Gen.RW.ensureWriteHeader ctx.writer)
    ctx := { ctx with writer := t17 }
    return (s, ctx, (none : Option Panic))
  s := b.1
  ctx := b.2.1
  if hasRecover then
    if let some ret := b.2.2 then
      ctx := { ctx with data := GoRt.dataSet (ctx).data ([0x5F, 0x72, 0x65, 0x63, 0x6F, 0x76, 0x65, 0x72, 0x52, 0x65, 0x73, 0x75, 0x6C, 0x74] : Bytes) (GoRt.ToDV.toDV ret) }
      let t19 := env.onPanic s ctx
      s := t19.1
      ctx := t19.2.1
      if let some p := t19.2.2 then return (s, ctx, some p)
      let t20 := (Gen.RW.ensureWriteHeader ctx.writer)
      ctx := { ctx with writer := t20 }
      return (s, ctx, (none : Option Panic))
  return b

theorem Router_handleHTTPRequest_unchanged : @Gen.Router.handleHTTPRequest = @Golden.Router.handleHTTPRequest := rfl

end Rux.Golden
