import RuxModel.Generated.Code
import RuxModel.Model.URLBuild
import RuxModel.Tie.Append
/-
  extends.go `BuildRequestURL.Build` as generated = the model's `buildPath` / `splitArgs` (Model/URLBuild.lean).

  Parameters of the translation, instantiated here with the model's functions: `findAll` (what
  `varRegex.FindAllString(path, -1)` returns) := `findVars`, `replacer` (`strings.NewReplacer(oldNews...).Replace`) :=
  `replaceAll` on the pairs of the flat old/new list.  `encode` (`url.Values.Encode`) and the visiting order `ordKV` of
  the argument map stay arbitrary: the theorem holds for each of them, with the model reading the arguments in the
  visiting order.
-/
set_option linter.unusedSimpArgs false
set_option linter.unusedVariables false
namespace Rux
namespace Tie
open GoRt

/-- the flat `old1, new1, old2, new2, …` argument list of `strings.NewReplacer` as pairs -/
def pairUp : List Bytes → List (Bytes × Bytes)
  | a :: b :: t => (a, b) :: pairUp t
  | _ => []

def replacerM (on : List Bytes) (path : Bytes) : Bytes := replaceAll (pairUp on) (path.length + 1) path
def findAllM (path : Bytes) : List Bytes := findVars (path.length + 1) path

def flat (ps : List (Bytes × Bytes)) : List Bytes := ps.flatMap fun p => [p.1, p.2]

theorem pairUp_flat (ps : List (Bytes × Bytes)) : pairUp (flat ps) = ps := by
  induction ps with
  | nil => rfl
  | cons p t ih => simp only [flat, List.flatMap_cons, List.cons_append, List.nil_append, pairUp] at ih ⊢; rw [ih]

theorem flat_append (ps : List (Bytes × Bytes)) (a b : Bytes) : flat (ps ++ [(a, b)]) = flat ps ++ [a, b] := by
  simp [flat]

/-! ### the argument loop -/

/-- one iteration of the argument loop of the generated function -/
def argStep (kd : Bytes × Bytes) (b : Gen.BRU) : Gen.BRU :=
  if ((GoRt.indexByte kd.1 123 == (-1 : Int)) && (GoRt.indexByte kd.1 125 == (-1 : Int))) = true then
    { b with queries := b.queries ++ [(kd.1, kd.2)] }
  else { b with params := GoRt.kvSet b.params kd.1 kd.2 }

theorem isQuery_iff (k : Bytes) :
    ((GoRt.indexByte k 123 == (-1 : Int)) && (GoRt.indexByte k 125 == (-1 : Int))) = !isParamKey k := by
  unfold GoRt.indexByte isParamKey
  cases Bytes.indexByte k 123 <;> cases Bytes.indexByte k 125 <;> simp <;> omega

theorem kvGetD_kvSet (m : KV) (k v k' : Bytes) :
    kvGetD (kvSet m k v) k' = if k' = k then v else kvGetD m k' := by
  unfold kvGetD kvSet
  by_cases h : k' = k
  · subst h; simp
  · have h1 : ((k == k') = false) := by simpa using fun e => h e.symm
    simp only [List.find?_cons, h1, if_neg h]
    congr 1
    induction m with
    | nil => rfl
    | cons x t ih =>
      simp only [List.filter_cons]
      by_cases hx : x.1 = k
      · have : (x.1 != k) = false := by simpa using hx
        have h2 : (x.1 == k') = false := by rw [hx]; exact h1
        simp [this, h2, ih]
      · have : (x.1 != k) = true := by simpa using hx
        simp only [this, if_true, List.find?_cons]
        cases x.1 == k' <;> simp [ih]

theorem argGet_append (l : List (Bytes × Bytes)) (k v k' : Bytes) :
    argGet (l ++ [(k, v)]) k' = if k' = k then v else argGet l k' := by
  unfold argGet
  simp only [List.reverse_append, List.reverse_cons, List.reverse_nil, List.nil_append, List.cons_append,
    List.find?_cons]
  by_cases h : k' = k
  · subst h; simp
  · have : (decide (k = k')) = false := by simpa using fun e => h e.symm
    simp [this, h]

/-- the state of the builder after the argument loop, against the model's split of the arguments: the query
    arguments are appended in visiting order; every later lookup of a path parameter finds what the model finds in
    "the builder's parameters, then the path arguments, latest binding wins" -/
theorem args_fold (args : List (Bytes × Bytes)) : ∀ (b : Gen.BRU) (l : List (Bytes × Bytes)),
    (∀ k, kvGetD b.params k = argGet l k) →
    let b' := args.foldl (fun b kd => argStep kd b) b
    b'.queries = b.queries ++ (splitArgs args).2 ∧
    (∀ k, kvGetD b'.params k = argGet (l ++ (splitArgs args).1) k) ∧
    b'.path = b.path ∧ b'.scheme = b.scheme ∧ b'.host = b.host ∧ b'.user = b.user := by
  induction args with
  | nil => intro b l h; simp [splitArgs, h]
  | cons kd t ih =>
    intro b l h
    simp only [List.foldl_cons]
    by_cases hq : isParamKey kd.1 = true
    · have hs : argStep kd b = { b with params := GoRt.kvSet b.params kd.1 kd.2 } := by
        unfold argStep; rw [isQuery_iff, hq]; rfl
      rw [hs]
      have hl : ∀ k, kvGetD (kvSet b.params kd.1 kd.2) k = argGet (l ++ [(kd.1, kd.2)]) k := by
        intro k; rw [kvGetD_kvSet, argGet_append, h]
      obtain ⟨h1, h2, h3⟩ := ih { b with params := GoRt.kvSet b.params kd.1 kd.2 } (l ++ [(kd.1, kd.2)]) hl
      refine ⟨?_, ?_, h3⟩
      · simpa [splitArgs, hq] using h1
      · intro k; rw [h2 k]; simp [splitArgs, hq]
    · have hq' : isParamKey kd.1 = false := by simpa using hq
      have hs : argStep kd b = { b with queries := b.queries ++ [(kd.1, kd.2)] } := by
        unfold argStep; rw [isQuery_iff, hq']; rfl
      rw [hs]
      obtain ⟨h1, h2, h3⟩ := ih { b with queries := b.queries ++ [(kd.1, kd.2)] } l h
      refine ⟨?_, ?_, h3⟩
      · simpa [splitArgs, hq'] using h1
      · intro k; rw [h2 k]; simp [splitArgs, hq']


/-! ### the variable loop -/

/-- a `for` loop whose body, on the elements of the list, never fails and never leaves early is a fold -/
theorem forIn_pure_mem {α β : Type} (l : List α) (body : α → β → Except Panic (ForInStep β)) (f : α → β → β)
    (h : ∀ a ∈ l, ∀ b, body a b = .ok (.yield (f a b))) :
    ∀ init : β, forIn l init body = .ok (l.foldl (fun b a => f a b) init) := by
  induction l with
  | nil => intro init; rfl
  | cons a t ih =>
    intro init
    simp only [List.forIn_cons, h a (List.mem_cons_self ..), bind, Except.bind, List.foldl_cons]
    exact ih (fun a' ha' => h a' (List.mem_cons_of_mem _ ha')) _

theorem lastCloseIdx_lt (region : Bytes) (k : Nat) (h : lastCloseIdx region = some k) : 1 ≤ k ∧ k < region.length := by
  unfold lastCloseIdx at h
  have hm := List.mem_of_getLast? h
  simp only [List.mem_filter, List.mem_range, Bool.and_eq_true, decide_eq_true_eq] at hm
  exact ⟨hm.2.1, hm.1⟩

/-- every match of `{[^/]+}` has at least the two braces -/
theorem findVars_len : ∀ (n : Nat) (p s : Bytes), s ∈ findVars n p → 2 ≤ s.length := by
  intro n
  induction n with
  | zero => intro p s h; simp [findVars] at h
  | succ fuel ih =>
    intro p s h
    cases p with
    | nil => simp [findVars] at h
    | cons b t =>
      unfold findVars at h
      by_cases hb : b = 0x7B
      · simp only [hb, if_true] at h
        cases hl : lastCloseIdx (t.takeWhile (· ≠ 0x2F)) with
        | none => rw [hl] at h; exact ih _ _ h
        | some k =>
          rw [hl] at h
          simp only [List.mem_cons] at h
          rcases h with rfl | h
          · have := lastCloseIdx_lt _ _ hl
            simp only [List.length_cons, List.length_take]
            omega
          · exact ih _ _ h
      · simp only [hb, if_false] at h; exact ih _ _ h

/-- the key under which `Build` looks a `{…}` of the path up: `{name}` with the regex of `{name:regex}` stripped -/
def keyOf (str : Bytes) : Bytes :=
  if (parseVar str).hasRegex then wrapBraces (parseVar str).name else str

theorem slice_inner (s : Bytes) (h : 2 ≤ s.length) :
    slice s 1 ((s.length : Int) - 1) = .ok ((s.drop 1).dropLast) := by
  unfold slice
  have : (0 : Int) ≤ 1 ∧ (1 : Int) ≤ (s.length : Int) - 1 ∧ (s.length : Int) - 1 ≤ s.length := by omega
  simp only [this, and_self, if_true]
  congr 1
  rw [List.dropLast_eq_take]
  congr 1
  simp only [List.length_drop]
  omega

theorem keyOf_eq (str : Bytes) :
    keyOf str = match Bytes.indexByte ((str.drop 1).dropLast) 0x3A with
      | some pos => if pos > 0 then wrapBraces (Bytes.trimSpace (((str.drop 1).dropLast).take pos)) else str
      | none => str := by
  unfold keyOf parseVar parseVarIn
  dsimp only
  generalize (str.drop 1).dropLast = nv
  obtain ⟨x, hx⟩ : ∃ x, Bytes.indexByte nv 58 = x := ⟨_, rfl⟩
  simp only [hx]
  rcases x with _ | pos
  · simp
  · by_cases hp : 0 < pos <;> simp [hp]

/-- the step function of a loop body (whatever the body yields; the state when it does not yield) -/
def stepOf (body : Bytes → Bytes × Bytes × List Bytes → Except Panic (ForInStep (Bytes × Bytes × List Bytes)))
    (str : Bytes) (st : Bytes × Bytes × List Bytes) : Bytes × Bytes × List Bytes :=
  match body str st with
  | .ok (.yield r) => r
  | _ => st

/-- the variable loop as a whole, for any body that appends `str, params[keyOf str]` on the matches of `varRegex`
    (the body the translator emits does: `genVarBody_eq`): the flat old/new list of the replacer -/
theorem var_loop_eq (params : KV) (path : Bytes)
    (body : Bytes → Bytes × Bytes × List Bytes → Except Panic (ForInStep (Bytes × Bytes × List Bytes)))
    (hb : ∀ a ∈ findAllM path, ∀ st, ∃ n, body a st = .ok (.yield (n, keyOf a, st.2.2 ++ [a, kvGetD params (keyOf a)]))) :
    forIn (findAllM path) (([] : Bytes), ([] : Bytes), ([] : List Bytes)) body
      = .ok (((findAllM path).foldl (fun b a => stepOf body a b) ([], [], [])).1,
             ((findAllM path).foldl (fun b a => stepOf body a b) ([], [], [])).2.1,
             flat ((findAllM path).map fun str => (str, kvGetD params (keyOf str)))) := by
  have hbody : ∀ a ∈ findAllM path, ∀ b, body a b = .ok (.yield (stepOf body a b)) := by
    intro a ha b
    obtain ⟨n, hn⟩ := hb a ha b
    simp only [stepOf, hn]
  have hf : ∀ str ∈ findAllM path, ∀ st, (stepOf body str st).2.2 = st.2.2 ++ [str, kvGetD params (keyOf str)] := by
    intro str hs st
    obtain ⟨n, hn⟩ := hb str hs st
    simp only [stepOf, hn]
  rw [forIn_pure_mem _ _ (stepOf body) hbody]
  have key : ∀ (l : List Bytes), (∀ s ∈ l, s ∈ findAllM path) → ∀ st : Bytes × Bytes × List Bytes,
      (l.foldl (fun b a => stepOf body a b) st).2.2 = st.2.2 ++ flat (l.map fun str => (str, kvGetD params (keyOf str))) := by
    intro l
    induction l with
    | nil => intro _ st; simp [flat]
    | cons a t ih =>
      intro hl st
      simp only [List.foldl_cons, List.map_cons]
      rw [ih (fun s hs => hl s (List.mem_cons_of_mem _ hs)), hf a (hl a (List.mem_cons_self ..))]
      simp [flat]
  have := key (findAllM path) (fun _ h => h) ([], [], [])
  simp only [List.nil_append] at this
  rw [← this]

/-- the path of the URL that `Build` returns, from the builder state after the argument loop -/
theorem built_path (params : KV) (l : List (Bytes × Bytes)) (path : Bytes)
    (h : ∀ k, kvGetD params k = argGet l k) :
    (if (findAllM path).isEmpty then path
     else replacerM (flat ((findAllM path).map fun str => (str, kvGetD params (keyOf str)))) path) = buildPath path l := by
  unfold buildPath buildPairs replacerM findAllM keyOf
  simp only [pairUp_flat, h, List.isEmpty_map]


/-- the result of `Build`: the builder after the argument loop and the URL -/
def builtURL (b' : Gen.BRU) (encode : KV → Bytes) (path : Bytes) : Gen.URL :=
  { scheme := b'.scheme, user := b'.user, host := b'.host, path := path, rawQuery := encode b'.queries }

/-- **`Build(args)` as generated** never panics; the query arguments (keys without a brace) are appended to the
    queries in visiting order, and the path of the URL is the model's `buildPath` of the builder's path under "the
    builder's parameters, then the path arguments (keys with a brace), latest binding wins": every `{…}` of the path
    replaced, in one pass, by the value stored under `{name}`. -/
theorem tie_Build (b : Gen.BRU) (args : KV) (ordKV : KV → KV) (encode : KV → Bytes) :
    ∃ b', Gen.BRU.Build b [args] ordKV encode findAllM replacerM =
        .ok (b', builtURL b' encode (buildPath b.path (b.params.reverse ++ (splitArgs (ordKV args)).1))) ∧
      b'.queries = b.queries ++ (splitArgs (ordKV args)).2 ∧
      b'.scheme = b.scheme ∧ b'.host = b.host ∧ b'.user = b.user := by
  have hl0 : ∀ k, kvGetD b.params k = argGet b.params.reverse k := by
    intro k; unfold kvGetD argGet; simp only [List.reverse_reverse]
    have : (fun x : Bytes × Bytes => x.1 == k) = (fun kv => decide (kv.1 = k)) := by
      funext x; by_cases h : x.1 = k <;> simp [h]
    rw [this]
    cases List.find? (fun kv : Bytes × Bytes => decide (kv.1 = k)) b.params <;> rfl
  obtain ⟨hq, hp, hpath, hs, hh, hu⟩ := args_fold (ordKV args) b b.params.reverse hl0
  refine ⟨(ordKV args).foldl (fun b kd => argStep kd b) b, ?_, hq, hs, hh, hu⟩
  unfold Gen.BRU.Build
  simp only [bind, Except.bind, pure, Except.pure, List.length_singleton]
  have h1 : (decide (((1 : Nat) : Int) > 0)) = true := by decide
  have h2 : GoRt.listAt [args] 0 = .ok args := by simp [GoRt.listAt]
  simp only [h1, if_true, h2]
  have hloop : (forIn (ordKV args) b fun t2 (__s : Gen.BRU) =>
      (if (indexByte t2.fst 123 == -1 && indexByte t2.fst 125 == -1) = true then
        Except.ok (ForInStep.yield
          ({ queries := __s.queries ++ [(t2.fst, t2.snd)], params := __s.params, path := __s.path,
             scheme := __s.scheme, host := __s.host, user := __s.user } : Gen.BRU))
      else
        Except.ok (ForInStep.yield
          ({ queries := __s.queries, params := kvSet __s.params t2.fst t2.snd, path := __s.path,
             scheme := __s.scheme, host := __s.host, user := __s.user } : Gen.BRU)) : Except Panic _))
      = .ok ((ordKV args).foldl (fun b kd => argStep kd b) b) := by
    rw [forIn_pure _ _ (fun kd b => argStep kd b)]
    intro a b0
    unfold argStep
    split <;> rfl
  rw [hloop]
  simp only
  rw [var_loop_eq ((ordKV args).foldl (fun b kd => argStep kd b) b).params b.path _
    (fun a ha st => by
      have h2 := findVars_len _ _ _ ha
      rw [slice_inner a h2, keyOf_eq]
      simp only
      unfold GoRt.indexByte splitN2
      generalize (a.drop 1).dropLast = nv
      cases hi : Bytes.indexByte nv 58 with
      | none => simp
      | some pos =>
        by_cases hp : pos > 0
        · have : ((pos : Int) > 0) := by omega
          simp [hp, this, elemAt, wrapBraces]
        · have : ¬ ((pos : Int) > 0) := by omega
          simp [hp, this])]
  simp only
  rw [← built_path _ _ b.path hp]
  cases hfa : findAllM b.path with
  | nil => simp [builtURL]
  | cons a t =>
    have : ¬ (((t.length : Int) + 1) = 0) := by omega
    simp [builtURL, this]

end Tie
end Rux
