import RuxModel.Generated.Code
import RuxModel.Model.Render
/-
  pkg/render as generated: `writeContentType`, `Blob` and its aliases, and the content negotiation of `Auto`, brought
  into closed forms.  The http.ResponseWriter is `GoRt.HW` (header map and the `Write` calls received); what `Write`
  answers (`wans`), the three renderers `Auto` hands the value to and the parsed Accept header are parameters.
-/
set_option linter.unusedSimpArgs false
set_option linter.unusedVariables false
namespace Rux
namespace Tie
open GoRt

def hContentType : Bytes := [0x43, 0x6F, 0x6E, 0x74, 0x65, 0x6E, 0x74, 0x2D, 0x54, 0x79, 0x70, 0x65]

/-- the `Content-Type` of a writer -/
def HW.ct (w : HW) : Option Bytes := (w.header.find? (fun x => x.1 == hContentType)).map (·.2)

theorem hdrGet_ct (w : HW) : hdrGet w.header hContentType = (HW.ct w).toList := by
  unfold hdrGet HW.ct
  cases w.header.find? (fun x => x.1 == hContentType) <;> rfl

theorem ct_set (w : HW) (v : Bytes) : HW.ct (HW.set w hContentType v) = some v := by
  simp [HW.ct, HW.set]

/-- **`writeContentType`**: the value is stored only when the writer has no `Content-Type` yet; nothing else of the
    writer changes, nothing is written -/
theorem writeContentType_eq (w : HW) (v : Bytes) :
    Gen.writeContentType w v = if (HW.ct w).isSome then w else HW.set w hContentType v := by
  unfold Gen.writeContentType
  simp only [Id.run, pure]
  have : ([0x43, 0x6F, 0x6E, 0x74, 0x65, 0x6E, 0x74, 0x2D, 0x54, 0x79, 0x70, 0x65] : Bytes) = hContentType := rfl
  simp only [this, hdrGet_ct]
  cases HW.ct w <;> simp

theorem writeContentType_ct (w : HW) (v : Bytes) :
    HW.ct (Gen.writeContentType w v) = some ((HW.ct w).getD v) ∧ (Gen.writeContentType w v).log = w.log := by
  rw [writeContentType_eq]
  cases h : HW.ct w with
  | none => exact ⟨by simpa using ct_set w v, rfl⟩
  | some c => simp [h]

/-- **`Blob`**: content type by the rule above, then ONE `Write` of the data when it is not empty (none when it is),
    whose error is returned -/
theorem renderBlob_eq (w : HW) (ct data : Bytes) (wans : HW → Bool) :
    Gen.renderBlob w ct data wans =
      if data = [] then (Gen.writeContentType w ct, false)
      else (HW.write (Gen.writeContentType w ct) data, wans (HW.write (Gen.writeContentType w ct) data)) := by
  unfold Gen.renderBlob
  simp only [Id.run, pure]
  cases data with
  | nil => simp
  | cons a t =>
    have : ¬ (((t.length : Int) + 1) ≤ 0) := by omega
    simp [this]

/-! ### `Auto` -/

inductive AKind | json | html | text | xml
  deriving DecidableEq, Repr

/-- the `switch accept` of `Auto`, on the byte strings that go/types folded the `httpctype.MIME…` constants to -/
def akindOf (t : Bytes) : Option AKind :=
  if t = [97, 112, 112, 108, 105, 99, 97, 116, 105, 111, 110, 47, 106, 115, 111, 110] then some .json
  else if t = [116, 101, 120, 116, 47, 104, 116, 109, 108] then some .html
  else if t = [116, 101, 120, 116, 47, 112, 108, 97, 105, 110] then some .text
  else if t = [97, 112, 112, 108, 105, 99, 97, 116, 105, 111, 110, 47, 120, 109, 108] ∨ t = [116, 101, 120, 116, 47, 120, 109, 108] then some .xml
  else none

-- … which are the model's MIME names (evaluated checks: `String.toUTF8` does not reduce in the kernel)
#guard akindOf Render.mimeJSON == some .json && akindOf Render.mimeHTML == some .html && akindOf Render.mimeText == some .text
#guard akindOf Render.mimeXML == some .xml && akindOf Render.mimeXML2 == some .xml
#guard (Render.kindOf Render.mimeJSON).isSome && (Render.kindOf (Render.mimeJSON ++ [0x20])).isNone

/-- what the selected case does: hand the value to the renderer of that kind (html: nothing is rendered) -/
def arun (env : RAEnv HW) (k : AKind) (w : HW) (e : Bool) : HW × Bool :=
  match k with
  | .json => env.json w
  | .html => (w, e)
  | .text => env.text w
  | .xml => env.xml w

/-- the loop of `Auto` for any body that behaves like the `switch` + `if handled { break }` -/
theorem auto_loop (env : RAEnv HW) (body : Bytes → HW × Bool × Bool → Id (ForInStep (HW × Bool × Bool)))
    (hbody : ∀ a w e, body a (w, e, false) =
      match akindOf a with
      | some k => ForInStep.done ((arun env k w e).1, (arun env k w e).2, true)
      | none => ForInStep.yield (w, e, false)) :
    ∀ (l : List Bytes) (w : HW) (e : Bool), (forIn l (w, e, false) body : Id _) =
      match l.findSome? akindOf with
      | some k => ((arun env k w e).1, (arun env k w e).2, true)
      | none => (w, e, false) := by
  intro l
  induction l with
  | nil => intro w e; rfl
  | cons a t ih =>
    intro w e
    simp only [List.forIn_cons, hbody, List.findSome?_cons]
    cases akindOf a with
    | some k => rfl
    | none => exact ih w e

/-- **`Auto`**: the Accept header is parsed (an empty list is replaced by the fallback type); the FIRST listed type
    that has a case in the switch is the one rendered, with the renderer of that kind, exactly once — the types behind
    it are not looked at; when no listed type has a case the call returns an error and nothing is rendered. -/
theorem renderAuto_eq (w : HW) (r : Option Nat) (env : RAEnv HW) (fb : Bytes) :
    Gen.renderAuto w r () env fb =
      (let acc := env.parseAccept (env.acceptHeader [65, 99, 99, 101, 112, 116])
       let acc := if acc = [] then [fb] else acc
       match acc.findSome? akindOf with
       | some k => arun env k w false
       | none => (w, true)) := by
  unfold Gen.renderAuto
  simp only [Id.run, pure, bind]
  have hacc : ∀ l : List Bytes, (if ((l.length : Int) == 0) = true then [fb] else l) = (if l = [] then [fb] else l) := by
    intro l; cases l <;> simp; omega
  rw [hacc]
  rw [auto_loop env _ (by
    intro a w e
    unfold akindOf arun
    by_cases h1 : a = [97, 112, 112, 108, 105, 99, 97, 116, 105, 111, 110, 47, 106, 115, 111, 110]
    · simp [h1]
    · by_cases h2 : a = [116, 101, 120, 116, 47, 104, 116, 109, 108]
      · simp [h2]
      · by_cases h3 : a = [116, 101, 120, 116, 47, 112, 108, 97, 105, 110]
        · simp [h3]
        · by_cases h4 : a = [97, 112, 112, 108, 105, 99, 97, 116, 105, 111, 110, 47, 120, 109, 108]
          · simp [h4]
          · by_cases h5 : a = [116, 101, 120, 116, 47, 120, 109, 108]
            · simp [h5]
            · simp [h1, h2, h3, h4, h5])]
  generalize (if env.parseAccept (env.acceptHeader [65, 99, 99, 101, 112, 116]) = [] then [fb]
    else env.parseAccept (env.acceptHeader [65, 99, 99, 101, 112, 116])) = acc
  cases List.findSome? akindOf acc with
  | none => simp [default]
  | some k =>
    have : (default : Bool) = false := rfl
    simp [this]

end Tie
end Rux
