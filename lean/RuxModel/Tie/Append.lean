import RuxModel.Generated.Code
import RuxModel.Model.Table
import RuxModel.Tie.Path
/-
  Tie: the definition generated from router.go `Router.appendRoute` — name table, then ONE of: static table (one
  entry per method, later registrations replace), first-segment-keyed lists (append), residual lists (append),
  `counter++` per method — is the model's `insertRoute` (Model/Table.lean) when the abstract tables are the
  model's association lists and the route is one that `prepare` produced (`static` = `isFixedPath path`, first
  segment = what `parseParamRoute` returned).  The checks and the pattern compiler (`goodInfo`,
  `appendGroupInfo`, `parseParamRoute`) are parameters here; their model is `prepare` / `compileRoute`.
-/
namespace Rux
namespace Tie
open GoRt

/-- a `for` loop whose body never fails and never leaves early is a fold -/
theorem forIn_pure {α β : Type} (l : List α) (body : α → β → Except Panic (ForInStep β)) (f : α → β → β)
    (h : ∀ a b, body a b = .ok (.yield (f a b))) :
    ∀ init : β, forIn l init body = .ok (l.foldl (fun b a => f a b) init) := by
  induction l with
  | nil => intro init; rfl
  | cons a t ih =>
    intro init
    simp only [List.forIn_cons, h, bind, Except.bind, List.foldl_cons]
    exact ih _

/-- the model's tables as the environment of the generated `appendRoute`; the route has been prepared already -/
def envA : AEnv RouterM RouteM where
  goodInfo _ := .ok ()
  appendGroupInfo s r := .ok (s, r)
  name r := r.name
  path r := r.path
  methods r := r.methods
  parseParam _ r := .ok (r.info.first, r)
  setNamed s _ _ := s
  setStable s k r := { s with stable := alistSet s.stable k r }
  getRegular s k := match alistGet s.regular k with | some l => (l, true) | none => ([], false)
  setRegular s k l := { s with regular := alistSet s.regular k l }
  getIrregular s k := match alistGet s.irregular k with | some l => (l, true) | none => ([], false)
  setIrregular s k l := { s with irregular := alistSet s.irregular k l }

theorem fold_stable (route : RouteM) (ms : List Bytes) : ∀ (g : Gen.Router) (s : RouterM),
    ms.foldl (fun (b : Gen.Router × RouterM) m =>
        ({ b.1 with counter := b.1.counter + 1 }, envA.setStable b.2 (m ++ route.path) route)) (g, s) =
      ({ g with counter := g.counter + ms.length },
        { s with stable := ms.foldl (fun st m => alistSet st (m ++ route.path) route) s.stable }) := by
  induction ms with
  | nil => intro g s; simp
  | cons a t ih =>
    intro g s
    rw [List.foldl_cons, ih]
    simp only [envA, List.foldl_cons, List.length_cons]
    refine Prod.ext ?_ rfl
    simp only []
    congr 1
    omega

theorem fold_regular (route : RouteM) (first : Bytes) (ms : List Bytes) : ∀ (g : Gen.Router) (s : RouterM),
    ms.foldl (fun (b : Gen.Router × RouterM) m =>
        (({ b.1 with counter := b.1.counter + 1 } : Gen.Router),
          envA.setRegular b.2 (m ++ first)
            ((if (!(envA.getRegular b.2 (m ++ first)).2) = true then [] else (envA.getRegular b.2 (m ++ first)).1) ++ [route])))
        (g, s) =
      ({ g with counter := g.counter + ms.length },
        { s with regular := ms.foldl (fun t m => alistAppend t (m ++ first) route) s.regular }) := by
  induction ms with
  | nil => intro g s; simp
  | cons a t ih =>
    intro g s
    simp only [List.foldl_cons]
    have hstep : envA.setRegular s (a ++ first)
          ((if (!(envA.getRegular s (a ++ first)).2) = true then [] else (envA.getRegular s (a ++ first)).1) ++ [route]) =
        { s with regular := alistAppend s.regular (a ++ first) route } := by
      simp only [envA, alistAppend]
      rcases Option.eq_none_or_eq_some (alistGet s.regular (a ++ first)) with h | ⟨l, h⟩ <;> simp [h]
    rw [hstep, ih]
    simp only [List.foldl_cons, List.length_cons]
    refine Prod.ext ?_ rfl
    simp only []
    congr 1
    omega

theorem fold_irregular (route : RouteM) (ms : List Bytes) : ∀ (g : Gen.Router) (s : RouterM),
    ms.foldl (fun (b : Gen.Router × RouterM) m =>
        (({ b.1 with counter := b.1.counter + 1 } : Gen.Router),
          envA.setIrregular b.2 m
            ((if (!(envA.getIrregular b.2 m).2) = true then [] else (envA.getIrregular b.2 m).1) ++ [route])))
        (g, s) =
      ({ g with counter := g.counter + ms.length },
        { s with irregular := ms.foldl (fun t m => alistAppend t m route) s.irregular }) := by
  induction ms with
  | nil => intro g s; simp
  | cons a t ih =>
    intro g s
    simp only [List.foldl_cons]
    have hstep : envA.setIrregular s a
          ((if (!(envA.getIrregular s a).2) = true then [] else (envA.getIrregular s a).1) ++ [route]) =
        { s with irregular := alistAppend s.irregular a route } := by
      simp only [envA, alistAppend]
      rcases Option.eq_none_or_eq_some (alistGet s.irregular a) with h | ⟨l, h⟩ <;> simp [h]
    rw [hstep, ih]
    simp only [List.foldl_cons, List.length_cons]
    refine Prod.ext ?_ rfl
    simp only []
    congr 1
    omega

/-- `appendRoute` as generated, on a prepared route: the tables of the model's `insertRoute`, and the route counter
    advanced by the number of methods -/
theorem tie_appendRoute (g : Gen.Router) (rt : RouterM) (route : RouteM)
    (hst : route.static = Rux.isFixedPath route.path) :
    ∃ s' g', Gen.Router.appendRoute g route envA rt = .ok (s', g') ∧
      s'.stable = (insertRoute rt route).stable ∧ s'.regular = (insertRoute rt route).regular ∧
      s'.irregular = (insertRoute rt route).irregular ∧ s'.cache = rt.cache ∧ s'.opts = rt.opts ∧
      g'.counter = g.counter + route.methods.length := by
  have hfix : Gen.isFixedPath route.path = route.static := by rw [hst, tie_isFixedPath']
  -- the three loops as folds
  have l1 := fun (g0 : Gen.Router) (s0 : RouterM) => forIn_pure route.methods
    (fun method_it (__s : Gen.Router × RouterM) => (Except.ok (ForInStep.yield
      ({ __s.1 with counter := __s.1.counter + 1 }, envA.setStable __s.2 (method_it ++ route.path) route)) : Except Panic _))
    (fun m b => ({ b.1 with counter := b.1.counter + 1 }, envA.setStable b.2 (m ++ route.path) route))
    (fun _ _ => rfl) (g0, s0)
  have l2 := fun (g0 : Gen.Router) (s0 : RouterM) => forIn_pure route.methods
    (fun method_1_it (__s : Gen.Router × RouterM) => (Except.ok (ForInStep.yield
      ({ __s.1 with counter := __s.1.counter + 1 },
        envA.setRegular __s.2 (method_1_it ++ route.info.first)
          ((if (!(envA.getRegular __s.2 (method_1_it ++ route.info.first)).2) = true then []
            else (envA.getRegular __s.2 (method_1_it ++ route.info.first)).1) ++ [route]))) : Except Panic _))
    (fun m b => ({ b.1 with counter := b.1.counter + 1 },
        envA.setRegular b.2 (m ++ route.info.first)
          ((if (!(envA.getRegular b.2 (m ++ route.info.first)).2) = true then []
            else (envA.getRegular b.2 (m ++ route.info.first)).1) ++ [route])))
    (fun _ _ => rfl) (g0, s0)
  have l3 := fun (g0 : Gen.Router) (s0 : RouterM) => forIn_pure route.methods
    (fun method_2_it (__s : Gen.Router × RouterM) => (Except.ok (ForInStep.yield
      ({ __s.1 with counter := __s.1.counter + 1 },
        envA.setIrregular __s.2 method_2_it
          ((if (!(envA.getIrregular __s.2 method_2_it).2) = true then []
            else (envA.getIrregular __s.2 method_2_it).1) ++ [route]))) : Except Panic _))
    (fun m b => ({ b.1 with counter := b.1.counter + 1 },
        envA.setIrregular b.2 m
          ((if (!(envA.getIrregular b.2 m).2) = true then [] else (envA.getIrregular b.2 m).1) ++ [route])))
    (fun _ _ => rfl) (g0, s0)
  unfold Gen.Router.appendRoute insertRoute
  have e1 : envA.goodInfo route = .ok () := rfl
  have e2 : envA.appendGroupInfo rt route = .ok (rt, route) := rfl
  have e3 : ∀ s, envA.parseParam s route = .ok (route.info.first, route) := fun _ => rfl
  have e4 : ∀ s k r, envA.setNamed s k r = s := fun _ _ _ => rfl
  have e5 : envA.path route = route.path := rfl
  have e6 : envA.methods route = route.methods := rfl
  simp only [bind, Except.bind, pure, Except.pure, e1, e2, e3, e4, e5, e6, hfix, ite_self, Id.run, GoRt.idPure, GoRt.idBind]
  cases hs : route.static with
  | true =>
    simp only [if_true]
    rw [l1, fold_stable]
    exact ⟨_, _, rfl, rfl, rfl, rfl, rfl, rfl, rfl⟩
  | false =>
    simp only [Bool.false_eq_true, if_false]
    cases hf : route.info.first with
    | nil =>
      have : (([] : Bytes) != []) = false := rfl
      simp only [this, Bool.false_eq_true, if_false, List.isEmpty_nil, Bool.not_true]
      rw [l3, fold_irregular]
      exact ⟨_, _, rfl, rfl, rfl, rfl, rfl, rfl, rfl⟩
    | cons b t =>
      have : ((b :: t : Bytes) != []) = true := rfl
      simp only [this, if_true, List.isEmpty_cons, Bool.not_false]
      rw [← hf, l2, fold_regular]
      exact ⟨_, _, rfl, rfl, rfl, rfl, rfl, rfl, rfl⟩

end Tie
end Rux
