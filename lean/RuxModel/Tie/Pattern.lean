import RuxModel.Generated.Code
import RuxModel.Model.Pattern
import RuxModel.Tie.URL
/-
  Pattern compilation as generated — parse_match.go `parseParamRoute`, utils.go `checkAndParseOptional`,
  `quotePointChar`, `getGlobalVar`, route.go `goodRegexString`, `goodRegexGroups` — against the model's
  `compileRouteIn` (Model/Pattern.lean), which follows the string rewriting of the Go code up to the source text of the
  route's regexp.

  Parameters of the translation, instantiated with the model's functions:
    `findAll`     (varRegex.FindAllString)                := findVars          (as in Tie/URL.lean)
    `replacer`    (strings.NewReplacer(o/n...).Replace)   := replaceAll on the pairs of the flat old/new list
    `gv`          (the package-level map globalVars)      := the model's list of global variables
    `mustCompile` (regexp.MustCompile)                    := fails exactly on text that is not valid UTF-8
    `numSubexp`   ((*Regexp).NumSubexp)                   := countGroups of the text between `^` and `$`
  (the last two are what the model's `finish` assumes of the regexp library; the engines `route`, `rcache`, `total`
  compare them with the real library through the regexp text and the accept/reject decision of every registration).
-/
set_option linter.unusedSimpArgs false
set_option linter.unusedVariables false
namespace Rux
namespace Tie
open GoRt

/-- the text between `^` and `$` -/
def innerText (s : Bytes) : Bytes := (s.drop 1).dropLast

theorem innerText_wrap (r : Bytes) : innerText ([0x5E] ++ r ++ [0x24]) = r := by
  simp [innerText]

def mustCompileM (s : Bytes) : Except Panic Unit :=
  if Bytes.validUTF8 (innerText s) then .ok () else .error .value

def numSubexpM (o : Option Bytes) : Int :=
  match o with
  | some s => (countGroups (innerText s) 0 : Nat)
  | none => 0

/-! ### small facts -/

theorem indexByte_head (p : Bytes) (c : Nat) : Bytes.indexByte p c = some 0 ↔ p.head? = some c := by
  cases p with
  | nil => simp [Bytes.indexByte]
  | cons b t =>
    simp only [Bytes.indexByte, List.head?_cons, Option.some.injEq]
    by_cases h : b = c
    · simp [h]
    · simp only [h, if_false]
      cases Bytes.indexByte t c <;> simp [h]

theorem quoteDots_no_dot (p : Bytes) (h : Bytes.indexByte p 0x2E = none) : Bytes.quoteDots p = p := by
  induction p with
  | nil => rfl
  | cons b t ih =>
    simp only [Bytes.indexByte] at h
    by_cases hb : b = 0x2E
    · simp [hb] at h
    · simp only [hb, if_false, Option.map_eq_none_iff] at h
      simp only [Bytes.quoteDots, List.flatMap_cons, hb, if_false, List.singleton_append]
      have := ih h
      simp only [Bytes.quoteDots] at this
      rw [this]

/-- `quotePointChar` as generated quotes every dot of a path that does not begin with one -/
theorem quotePointChar_eq (p : Bytes) (h : p.head? ≠ some 0x2E) : Gen.quotePointChar p = Bytes.quoteDots p := by
  unfold Gen.quotePointChar GoRt.indexByte
  simp only [Id.run, pure]
  cases hi : Bytes.indexByte p 46 with
  | none => simp [quoteDots_no_dot p hi]
  | some k =>
    cases k with
    | zero => exact absurd ((indexByte_head p 46).mp hi) h
    | succ k =>
      have : ((k + 1 : Nat) : Int) > 0 := by omega
      simp [this]

/-- every match of `{[^/]+}` starts with the brace -/
theorem findVars_head : ∀ (n : Nat) (p s : Bytes), s ∈ findVars n p → s.head? = some 0x7B := by
  intro n
  induction n with
  | zero => intro p s h; simp [findVars] at h
  | succ fuel ih =>
    intro p s h
    cases p with
    | nil => simp [findVars] at h
    | cons b t =>
      unfold findVars at h
      by_cases hb : b = 0x7B
      · simp only [hb, if_true] at h
        cases hl : lastCloseIdx (t.takeWhile (· ≠ 0x2F)) with
        | none => rw [hl] at h; exact ih _ _ h
        | some k =>
          rw [hl] at h
          simp only [List.mem_cons] at h
          rcases h with rfl | h
          · rfl
          · exact ih _ _ h
      · simp only [hb, if_false] at h; exact ih _ _ h

/-- the single-pass replacer keeps the first byte of a string whose first byte starts none of the old strings -/
theorem replaceAll_head (pairs : List (Bytes × Bytes)) (c : Nat) (t : Bytes) (n : Nat)
    (h : ∀ p ∈ pairs, p.1.head? ≠ some c) : (replaceAll pairs (n + 1) (c :: t)).head? = some c := by
  unfold replaceAll
  have : firstPair pairs (c :: t) = none := by
    unfold firstPair
    apply List.find?_eq_none.mpr
    intro p hp
    have := h p hp
    cases ho : p.1 with
    | nil => simp
    | cons a r =>
      rw [ho] at this
      simp only [List.head?_cons, ne_eq, Option.some.injEq] at this
      have hne : ¬ c = a := fun e => this e.symm
      simp [Bytes.hasPrefix, hne]
  simp [this]


/-! ### the helpers -/

theorem indexByte_lt' : ∀ (s : Bytes) (c i : Nat), Bytes.indexByte s c = some i → i < s.length := by
  intro s
  induction s with
  | nil => intro c i h; simp [Bytes.indexByte] at h
  | cons b t ih =>
    intro c i h
    simp only [Bytes.indexByte] at h
    by_cases hb : b = c
    · simp [hb] at h; subst h; simp
    · simp only [hb, if_false, Option.map_eq_some_iff] at h
      obtain ⟨j, hj, rfl⟩ := h
      have := ih c j hj
      simp; omega

theorem tie_checkAndParseOptional (p : Bytes) :
    Gen.checkAndParseOptional p replacerM =
      match checkAndParseOptional p with
      | some r => .ok r
      | none => .error (Panic.msg [0x4F, 0x70, 0x74, 0x69, 0x6F, 0x6E, 0x61, 0x6C, 0x20, 0x73, 0x65, 0x67, 0x6D, 0x65, 0x6E, 0x74, 0x73, 0x20, 0x63, 0x61, 0x6E, 0x20, 0x6F, 0x6E, 0x6C, 0x79, 0x20, 0x6F, 0x63, 0x63, 0x75, 0x72, 0x20, 0x61, 0x74, 0x20, 0x74, 0x68, 0x65, 0x20, 0x65, 0x6E, 0x64, 0x20, 0x6F, 0x66, 0x20, 0x61, 0x20, 0x72, 0x6F, 0x75, 0x74, 0x65]) := by
  unfold Gen.checkAndParseOptional checkAndParseOptional
  simp only [bind, Except.bind, pure, Except.pure]
  have hle : (Bytes.trimRightByte 0x5D p).length ≤ p.length := by
    unfold Bytes.trimRightByte
    simp only [List.length_reverse]
    have : ∀ l : Bytes, (Bytes.trimLeftByte 0x5D l).length ≤ l.length := by
      intro l
      induction l with
      | nil => simp [Bytes.trimLeftByte]
      | cons a t ih => unfold Bytes.trimLeftByte; split <;> simp <;> omega
    simpa using this p.reverse
  by_cases hn : p.length - (Bytes.trimRightByte 0x5D p).length ≠ Bytes.countByte (Bytes.trimRightByte 0x5D p) 0x5B
  · have : (((p.length : Int) - ((Bytes.trimRightByte 0x5D p).length : Int)) != ((Bytes.countByte (Bytes.trimRightByte 0x5D p) 0x5B : Nat) : Int)) = true := by
      simp only [bne_iff_ne, ne_eq]; omega
    simp [this, hn, throw, throwThe, MonadExceptOf.throw]
  · have : (((p.length : Int) - ((Bytes.trimRightByte 0x5D p).length : Int)) != ((Bytes.countByte (Bytes.trimRightByte 0x5D p) 0x5B : Nat) : Int)) = false := by
      simp only [bne_eq_false_iff_eq]; omega
    simp only [this, hn, Bool.false_eq_true, if_false]
    rfl

theorem tie_getGlobalVar (gv : List (Bytes × Bytes)) (n : Bytes) :
    Gen.getGlobalVar n [0x5B, 0x5E, 0x2F, 0x5D, 0x2B] gv = globalVarIn gv n := by
  unfold Gen.getGlobalVar globalVarIn GoRt.mapGet
  simp only [Id.run, pure]
  have : (fun x : Bytes × Bytes => x.1 == n) = (fun kv => decide (kv.1 = n)) := by
    funext x; by_cases h : x.1 = n <;> simp [h]
  rw [this]
  cases List.find? (fun kv : Bytes × Bytes => decide (kv.1 = n)) gv <;> rfl

theorem tie_goodRegexString (r : Gen.Route) (n v : Bytes) :
    (goodRegexString v = true → Gen.Route.goodRegexString r n v = .ok ()) ∧
    (goodRegexString v = false → ∃ e, Gen.Route.goodRegexString r n v = .error e) := by
  unfold Gen.Route.goodRegexString goodRegexString GoRt.indexByte GoRt.byteAt
  simp only [bind, Except.bind, pure, Except.pure]
  cases hi : Bytes.indexByte v 40 with
  | none => simp
  | some pos =>
    have hlt := indexByte_lt' v 40 pos hi
    have h1 : ((pos : Int) != -1) = true := by simp only [bne_iff_ne, ne_eq]; omega
    have h2 : decide ((pos : Int) < (v.length : Int)) = true := by simp; omega
    have h3 : ¬ ((pos : Int) + 1 < 0) := by omega
    have h4 : ((pos : Int) + 1).toNat = pos + 1 := by omega
    simp only [h1, h2, Bool.and_self, if_true, h3, if_false, h4]
    cases hv : v[pos + 1]? with
    | none => simp
    | some c =>
      by_cases hc : c = 0x3F
      · simp [hc]
      · have : (c != 63) = true := by simpa using hc
        simp [hc, this, throw, throwThe, MonadExceptOf.throw]


/-! ### the variable loop of `parseParamRoute` -/

/-- what one `{…}` contributes to the old/new list that strips the regexes (`rawVar`) … -/
def rawOf (pv : VarInfo) : List Bytes := if pv.hasRegex then [pv.str, wrapBraces pv.name] else []
/-- … and to the one that puts the groups in (`varRegex`) -/
def varReOf (pv : VarInfo) : List Bytes :=
  if pv.hasRegex then [wrapBraces pv.name, wrapParens pv.regex] else [pv.str, wrapParens pv.regex]

abbrev PState := Gen.Route × Bytes × Bytes × List Bytes × List Bytes

/-- one iteration of the loop, when the variable's regex is accepted -/
def stepP (gv : GVars) (str : Bytes) (st : PState) : PState :=
  let pv := parseVarIn gv str
  ({ st.1 with matches_ := st.1.matches_ ++ [pv.name] }, pv.name, pv.regex, st.2.2.2.1 ++ rawOf pv, st.2.2.2.2 ++ varReOf pv)

/-- block 6 (the `if strings.IndexByte(nvStr, ':') > 0 {…} else {…}` of the loop) in terms of the model's `parseVarIn` -/
theorem ppBlk6_eq (route : Gen.Route) (findAll : Bytes → List Bytes) (replacer : List Bytes → Bytes → Bytes) (gv : GVars)
    (mc : Bytes → Except Panic Unit) (ns : Option Bytes → Int) (first_ path : Bytes) (ss : List Bytes)
    (n v : Bytes) (rawVar varRegex : List Bytes) (str : Bytes) :
    Gen.Router.parseParamRoute.blk6 route findAll replacer gv mc ns first_ path ss n v rawVar varRegex str
        ((str.drop 1).dropLast) =
      .ok ((parseVarIn gv str).name, (parseVarIn gv str).regex, rawVar ++ rawOf (parseVarIn gv str),
           varRegex ++ varReOf (parseVarIn gv str)) := by
  unfold Gen.Router.parseParamRoute.blk6 parseVarIn rawOf varReOf GoRt.indexByte splitN2
  simp only [bind, Except.bind, pure, Except.pure, tie_getGlobalVar]
  generalize (str.drop 1).dropLast = nv
  obtain ⟨x, hx⟩ : ∃ x, Bytes.indexByte nv 58 = x := ⟨_, rfl⟩
  simp only [hx]
  rcases x with _ | pos
  · simp [wrapParens]
  · by_cases hp : 0 < pos
    · have : ((pos : Int) > 0) := by omega
      simp [hp, this, elemAt, wrapBraces, wrapParens]
    · have : ¬ ((pos : Int) > 0) := by omega
      simp [hp, this, wrapParens]


/-- the loop over the matches of `varRegex`, for any body that does what the translated body does on them: all
    variable regexes accepted ⇒ the fold of `stepP`; one rejected ⇒ a panic -/
theorem pp_loop (gv : GVars) (body : Bytes → PState → Except Panic (ForInStep PState))
    (l : List Bytes)
    (hb : ∀ str ∈ l, ∀ st, (goodRegexString (parseVarIn gv str).regex = true → body str st = .ok (.yield (stepP gv str st))) ∧
      (goodRegexString (parseVarIn gv str).regex = false → ∃ e, body str st = .error e)) :
    ∀ st : PState,
      ((l.map (parseVarIn gv)).any (fun v => !goodRegexString v.regex) = false →
        forIn l st body = .ok (l.foldl (fun b a => stepP gv a b) st)) ∧
      ((l.map (parseVarIn gv)).any (fun v => !goodRegexString v.regex) = true → ∃ e, forIn l st body = .error e) := by
  induction l with
  | nil => intro st; simp [pure, Except.pure]
  | cons a t ih =>
    intro st
    have hb' : ∀ str ∈ t, ∀ st, (goodRegexString (parseVarIn gv str).regex = true → body str st = .ok (.yield (stepP gv str st))) ∧
        (goodRegexString (parseVarIn gv str).regex = false → ∃ e, body str st = .error e) :=
      fun s hs => hb s (List.mem_cons_of_mem _ hs)
    obtain ⟨hg, hbad⟩ := hb a (List.mem_cons_self ..) st
    cases hga : goodRegexString (parseVarIn gv a).regex with
    | true =>
      simp only [List.map_cons, List.any_cons, hga, Bool.not_true, Bool.false_or, List.forIn_cons, hg hga, bind,
        Except.bind, List.foldl_cons]
      exact ih hb' _
    | false =>
      obtain ⟨e, he⟩ := hbad hga
      simp only [List.map_cons, List.any_cons, hga, Bool.not_false, Bool.true_or, List.forIn_cons, he, bind, Except.bind]
      exact ⟨fun h => by simp at h, fun _ => ⟨e, rfl⟩⟩

/-- the accumulators after the loop -/
theorem pp_fold (gv : GVars) (l : List Bytes) : ∀ st : PState,
    let r := l.foldl (fun b a => stepP gv a b) st
    r.1 = { st.1 with matches_ := st.1.matches_ ++ (l.map (parseVarIn gv)).map (·.name) } ∧
    r.2.2.2.1 = st.2.2.2.1 ++ ((l.map (parseVarIn gv)).flatMap rawOf) ∧
    r.2.2.2.2 = st.2.2.2.2 ++ ((l.map (parseVarIn gv)).flatMap varReOf) := by
  induction l with
  | nil => intro st; simp
  | cons a t ih =>
    intro st
    simp only [List.foldl_cons, List.map_cons, List.flatMap_cons]
    obtain ⟨h1, h2, h3⟩ := ih (stepP gv a st)
    refine ⟨?_, ?_, ?_⟩
    · rw [h1]; simp [stepP]
    · rw [h2]; simp [stepP]
    · rw [h3]; simp [stepP]

/-- the two old/new lists, as pairs: what the model calls `rawVar` and `varRe` -/
theorem pairUp_raw (vars : List VarInfo) :
    pairUp (vars.flatMap rawOf) = (vars.filter (·.hasRegex)).map fun v => (v.str, wrapBraces v.name) := by
  induction vars with
  | nil => rfl
  | cons v t ih =>
    simp only [List.flatMap_cons, rawOf, List.filter_cons]
    cases v.hasRegex <;> simp [pairUp, ih, rawOf]

theorem pairUp_varRe (vars : List VarInfo) :
    pairUp (vars.flatMap varReOf) = vars.map fun v =>
      if v.hasRegex then (wrapBraces v.name, wrapParens v.regex) else (v.str, wrapParens v.regex) := by
  induction vars with
  | nil => rfl
  | cons v t ih =>
    simp only [List.flatMap_cons, varReOf, List.map_cons]
    cases v.hasRegex <;> simp [pairUp, ih, varReOf]

theorem raw_length (vars : List VarInfo) :
    (vars.flatMap rawOf).length = 2 * (vars.filter (·.hasRegex)).length := by
  induction vars with
  | nil => rfl
  | cons v t ih =>
    simp only [List.flatMap_cons, rawOf, List.filter_cons, List.length_append]
    cases v.hasRegex <;> simp [ih] <;> omega


/-! ### the rest of `parseParamRoute` -/

theorem finish_ok {r st f sp : Bytes} {names : List Bytes} {info : RouteInfo}
    (h : finish r st f sp names = .ok info) :
    Bytes.validUTF8 r = true ∧ countGroups r 0 = names.length ∧
    info.regexStr = r ∧ info.start = st ∧ info.first = f ∧ info.spath = sp ∧ info.names = names := by
  unfold finish at h
  by_cases hv : Bytes.validUTF8 r = true
  · simp only [hv, Bool.not_true, Bool.false_eq_true, if_false] at h
    by_cases hc : countGroups r 0 = names.length
    · simp only [hc, ne_eq, not_true_eq_false, if_false] at h
      cases hp : parseLevels (r.length + 2) r [] [] with
      | none => rw [hp] at h; cases h
      | some ls =>
        rw [hp] at h
        simp only at h
        by_cases hl : levelsVars ls = names.length
        · simp only [hl, ne_eq, not_true_eq_false, if_false, Compiled.ok.injEq] at h
          subst h
          exact ⟨hv, hc, rfl, rfl, rfl, rfl, rfl⟩
        · simp [hl] at h
    · simp [hc] at h
  · simp [hv] at h

/-- the compile step as generated: `regexp.MustCompile` then `goodRegexGroups` -/
theorem compile_ok (route : Gen.Route) (r : Bytes) (hv : Bytes.validUTF8 r = true)
    (hc : countGroups r 0 = route.matches_.length) :
    mustCompileM ([0x5E] ++ r ++ [0x24]) = .ok () ∧
    Gen.Route.goodRegexGroups { route with regex := some ([0x5E] ++ r ++ [0x24]) } numSubexpM = .ok () := by
  constructor
  · unfold mustCompileM
    rw [innerText_wrap, hv]
    rfl
  · unfold Gen.Route.goodRegexGroups
    have hn : numSubexpM (some ([0x5E] ++ r ++ [0x24])) = (countGroups r 0 : Nat) := by
      unfold numSubexpM; simp only; rw [innerText_wrap]
    simp only [bind, Except.bind, pure, Except.pure, hn]
    have : (((countGroups r 0 : Nat) : Int) != (route.matches_.length : Int)) = false := by
      simp only [bne_eq_false_iff_eq]; omega
    simp [this]

/-- **a path without variables** (only optional parts) -/
theorem tie_parseParamRoute_novars (route : Gen.Route) (gv : GVars) (info : RouteInfo)
    (hm : route.matches_ = []) (hhead : route.path.head? = some 0x2F)
    (hss : findVars (route.path.length + 1) route.path = [])
    (h : compileRouteIn gv route.path = .ok info) :
    Gen.Router.parseParamRoute route findAllM replacerM gv mustCompileM numSubexpM =
      .ok ({ route with regex := some ([0x5E] ++ info.regexStr ++ [0x24]) }, info.first) := by
  unfold compileRouteIn at h
  simp only [hss, List.isEmpty_nil, if_true] at h
  cases hopt : checkAndParseOptional (Bytes.quoteDots route.path) with
  | none => rw [hopt] at h; cases h
  | some r =>
    rw [hopt] at h
    obtain ⟨hv, hc, h1, _, h3, _, _⟩ := finish_ok h
    unfold Gen.Router.parseParamRoute
    have hq : Gen.quotePointChar route.path = Bytes.quoteDots route.path :=
      quotePointChar_eq _ (by rw [hhead]; simp)
    have hfa : findAllM route.path = [] := hss
    simp only [bind, Except.bind, pure, Except.pure, hfa, List.length_nil, hq, tie_checkAndParseOptional, hopt]
    obtain ⟨hmc, hgg⟩ := compile_ok route r hv (by rw [hm]; simpa using hc)
    simp only [hmc, hgg, h1, h3]
    rfl


/-! ### the stages of the model's `compileRouteIn` (vars branch), by name -/

def rawPairs (vars : List VarInfo) : List (Bytes × Bytes) :=
  (vars.filter (·.hasRegex)).map fun v => (v.str, wrapBraces v.name)
def varRePairs (vars : List VarInfo) : List (Bytes × Bytes) :=
  vars.map fun v => if v.hasRegex then (wrapBraces v.name, wrapParens v.regex) else (v.str, wrapParens v.regex)
def path1Of (vars : List VarInfo) (path : Bytes) : Bytes :=
  if (rawPairs vars).isEmpty then path else replaceAll (rawPairs vars) (path.length + 1) path
def spathOf (vars : List VarInfo) (path : Bytes) : Bytes :=
  if (rawPairs vars).isEmpty then [] else path1Of vars path
def minPosOf (p1 : Bytes) : Nat :=
  let argPos := (Bytes.indexByte p1 0x7B).getD 0
  match Bytes.indexByte p1 0x5B with
  | some o => if o > 0 ∧ argPos > o then o else argPos
  | none => argPos
def firstSegOf (start0 : Bytes) : Bytes :=
  if start0.length > 1 then
    match Bytes.indexByte (start0.drop 1) 0x2F with
    | some pos => if pos > 0 then (start0.drop 1).take pos else []
    | none => []
  else []
def startOf (start0 : Bytes) : Bytes :=
  if start0.length > 1 then
    if !(firstSegOf start0).isEmpty ∧ start0.length - (firstSegOf start0).length = 2 then [] else start0
  else []
def path3Of (p1 : Bytes) : Option Bytes :=
  match Bytes.indexByte p1 0x5B with
  | some o => if o > 0 then checkAndParseOptional (Bytes.quoteDots p1) else some (Bytes.quoteDots p1)
  | none => some (Bytes.quoteDots p1)

theorem compile_vars_eq (gv : GVars) (path : Bytes) (hne : (findVars (path.length + 1) path).isEmpty = false) :
    compileRouteIn gv path =
      (let vars := (findVars (path.length + 1) path).map (parseVarIn gv)
       if vars.any (fun v => !goodRegexString v.regex) then .reject .varRegex else
       match Bytes.indexByte (path1Of vars path) 0x7B with
       | none => .unsupported
       | some _ =>
         match path3Of (path1Of vars path) with
         | none => .reject .optional
         | some p3 =>
           finish (replaceAll (varRePairs vars) (p3.length + 1) p3)
             (startOf ((path1Of vars path).take (minPosOf (path1Of vars path))))
             (firstSegOf ((path1Of vars path).take (minPosOf (path1Of vars path))))
             (spathOf vars path) (vars.map (·.name))) := by
  unfold compileRouteIn
  simp only [hne, Bool.false_eq_true, if_false]
  rfl


/-! ### the blocks behind the loop -/

theorem ppBlk13_eq (route : Gen.Route) (fa : Bytes → List Bytes) (rep : List Bytes → Bytes → Bytes) (gv : GVars)
    (mc : Bytes → Except Panic Unit) (ns : Option Bytes → Int) (first_ path : Bytes) (ss : List Bytes)
    (n v : Bytes) (rawVar varRegex : List Bytes) :
    Gen.Router.parseParamRoute.blk13 route fa rep gv mc ns first_ path ss n v rawVar varRegex =
      if rawVar = [] then (route, path) else ({ route with spath := rep rawVar path }, rep rawVar path) := by
  unfold Gen.Router.parseParamRoute.blk13
  simp only [Id.run, pure]
  cases rawVar with
  | nil => simp
  | cons a t =>
    have : ¬ (((t.length : Int) + 1) ≤ 0) := by omega
    simp [this]

theorem ppBlk14_eq (route : Gen.Route) (fa : Bytes → List Bytes) (rep : List Bytes → Bytes → Bytes) (gv : GVars)
    (mc : Bytes → Except Panic Unit) (ns : Option Bytes → Int) (first_ path : Bytes) (ss : List Bytes)
    (n v : Bytes) (rawVar varRegex : List Bytes) (argPos optPos minPos : Int) :
    Gen.Router.parseParamRoute.blk14 route fa rep gv mc ns first_ path ss n v rawVar varRegex argPos optPos minPos =
      if optPos > 0 ∧ argPos > optPos then optPos else minPos := by
  unfold Gen.Router.parseParamRoute.blk14
  simp only [Id.run, pure]
  by_cases h1 : optPos > 0 <;> by_cases h2 : argPos > optPos <;> simp [h1, h2]

theorem ppBlk21_eq (route : Gen.Route) (fa : Bytes → List Bytes) (rep : List Bytes → Bytes → Bytes) (gv : GVars)
    (mc : Bytes → Except Panic Unit) (ns : Option Bytes → Int) (first_ path : Bytes) (ss : List Bytes)
    (n v : Bytes) (rawVar varRegex : List Bytes) (argPos optPos minPos : Int) (start : Bytes) :
    Gen.Router.parseParamRoute.blk21 route fa rep gv mc ns first_ path ss n v rawVar varRegex argPos optPos minPos start =
      if optPos > 0 then Gen.checkAndParseOptional path rep else .ok path := by
  unfold Gen.Router.parseParamRoute.blk21
  simp only [bind, Except.bind, pure, Except.pure]
  by_cases h1 : optPos > 0
  · simp only [h1, decide_true, if_true]
    cases Gen.checkAndParseOptional path rep <;> rfl
  · simp [h1]

theorem slice_from1 (s : Bytes) (h : 1 ≤ s.length) : slice s 1 (s.length : Int) = .ok (s.drop 1) := by
  unfold slice
  have : (0 : Int) ≤ 1 ∧ (1 : Int) ≤ (s.length : Int) ∧ (s.length : Int) ≤ s.length := by omega
  simp only [this, and_self, if_true]
  congr 1
  apply List.take_of_length_le
  simp only [List.length_drop]
  omega

theorem slice_1_to (s : Bytes) (pos : Nat) (h : pos + 1 ≤ s.length) :
    slice s 1 ((pos : Int) + 1) = .ok ((s.drop 1).take pos) := by
  unfold slice
  have : (0 : Int) ≤ 1 ∧ (1 : Int) ≤ (pos : Int) + 1 ∧ (pos : Int) + 1 ≤ s.length := by omega
  simp only [this, and_self, if_true]
  congr 2

/-- block 16 (`if len(start) > 1 {…}`): the literal prefix and its first segment, as the model computes them -/
theorem ppBlk16_eq (route : Gen.Route) (fa : Bytes → List Bytes) (rep : List Bytes → Bytes → Bytes) (gv : GVars)
    (mc : Bytes → Except Panic Unit) (ns : Option Bytes → Int) (path : Bytes) (ss : List Bytes)
    (n v : Bytes) (rawVar varRegex : List Bytes) (argPos optPos minPos : Int) (start : Bytes) :
    Gen.Router.parseParamRoute.blk16 route fa rep gv mc ns [] path ss n v rawVar varRegex argPos optPos minPos start =
      .ok ({ route with start := if start.length > 1 then startOf start else route.start }, firstSegOf start) := by
  unfold Gen.Router.parseParamRoute.blk16 Gen.Router.parseParamRoute.blk19 startOf firstSegOf
  simp only [bind, Except.bind, pure, Except.pure, Id.run]
  by_cases hl : start.length > 1
  · have hl' : decide (((start.length : Int)) > 1) = true := by simp; omega
    simp only [hl', if_true, hl, slice_from1 start (by omega)]
    unfold GoRt.indexByte
    cases hi : Bytes.indexByte (start.drop 1) 47 with
    | none => simp
    | some pos =>
      have hlt := indexByte_lt' _ _ _ hi
      simp only [List.length_drop] at hlt
      by_cases hp : pos > 0
      · have hp' : decide (((pos : Int)) > 0) = true := by simp; omega
        simp only [hp', if_true, hp, slice_1_to start pos (by omega)]
        have hlen : ((start.drop 1).take pos).length = pos := by simp; omega
        generalize (start.drop 1).take pos = fs at hlen ⊢
        have hne : fs.isEmpty = false := by
          cases fs with
          | nil => simp at hlen; omega
          | cons _ _ => rfl
        by_cases h2 : start.length - fs.length = 2
        · have : (((start.length : Int)) - ((fs.length : Nat) : Int) == 2) = true := by
            simp only [beq_iff_eq]; omega
          simp only [this, if_true, hne, Bool.not_false, true_and, h2]
        · have : (((start.length : Int)) - ((fs.length : Nat) : Int) == 2) = false := by
            simp only [beq_eq_false_iff_ne, ne_eq]; omega
          simp only [this, Bool.false_eq_true, if_false, hne, Bool.not_false, true_and, h2]
      · have hp' : decide (((pos : Int)) > 0) = false := by simp; omega
        simp [hp', hp]
  · have hl' : decide (((start.length : Int)) > 1) = false := by simp; omega
    simp [hl', hl]


/-! ### a path with variables -/

theorem parseVarIn_str (gv : GVars) (str : Bytes) : (parseVarIn gv str).str = str := by
  unfold parseVarIn
  obtain ⟨x, hx⟩ : ∃ x, Bytes.indexByte ((str.drop 1).dropLast) 0x3A = x := ⟨_, rfl⟩
  simp only [hx]
  rcases x with _ | pos
  · rfl
  · by_cases hp : pos > 0 <;> simp [hp]

theorem minPos_facts (p1 : Bytes) (a : Nat) (ha : Bytes.indexByte p1 123 = some a) :
    (if GoRt.indexByte p1 91 > 0 ∧ GoRt.indexByte p1 123 > GoRt.indexByte p1 91 then GoRt.indexByte p1 91
      else GoRt.indexByte p1 123) = ((minPosOf p1 : Nat) : Int) ∧ minPosOf p1 ≤ p1.length := by
  have halt := indexByte_lt' _ _ _ ha
  unfold minPosOf GoRt.indexByte
  simp only [ha, Option.getD_some]
  cases ho : Bytes.indexByte p1 91 with
  | none =>
    have : ¬ ((-1 : Int) > 0 ∧ (a : Int) > -1) := by omega
    simp only [this, if_false]
    constructor
    · trivial
    · omega
  | some o =>
    have holt := indexByte_lt' _ _ _ ho
    simp only
    by_cases hc1 : o > 0 ∧ a > o
    · have : ((o : Int) > 0 ∧ (a : Int) > (o : Int)) := by omega
      simp only [this, and_self, if_true, hc1]
      constructor
      · trivial
      · omega
    · have : ¬ ((o : Int) > 0 ∧ (a : Int) > (o : Int)) := by omega
      simp only [this, if_false, hc1]
      constructor
      · trivial
      · omega

/- the common front part of the proofs about a path WITH variables: the generated function, unfolded, its loop and
   its first blocks rewritten in terms of the stages of the model, down to the cut `start := path[0:minPos]`.
   Expects in the context: `hm hsp hhead hss hne hvars hbad ha` as in `tie_parseParamRoute_vars`; introduces `p1`
   (with `hp1 : path1Of vars route.path = p1`), `hq`, `hmin`, … -/
set_option hygiene false in
macro "pp_front" : tactic => `(tactic| (
    unfold Gen.Router.parseParamRoute
    have hfa : findAllM route.path = ss := hss
    have hlen : (((ss.length : Int)) == 0) = false := by
      cases ss with
      | nil => simp at hne
      | cons a t => simp; omega
    simp only [bind, Except.bind, pure, Except.pure, hfa, hlen, Bool.false_eq_true, if_false]
    have hgood : ((ss.map (parseVarIn gv)).any fun v => !goodRegexString v.regex) = false := by rw [hvars]; exact hbad
    have hmem : ∀ str ∈ ss, 2 ≤ str.length := fun str hs => findVars_len _ _ _ (hss ▸ hs)
    rw [(pp_loop gv _ ss (by
      intro str hs st
      have h2 := hmem str hs
      simp only [slice_inner str h2, ppBlk6_eq]
      obtain ⟨hg, hb⟩ := tie_goodRegexString st.1 (parseVarIn gv str).name (parseVarIn gv str).regex
      constructor
      · intro hgr; simp only [hg hgr]; rfl
      · intro hgr; obtain ⟨e, he⟩ := hb hgr; exact ⟨e, by simp only [he]⟩) (route, [], [], [], [])).1 hgood]
    obtain ⟨f1, f2, f3⟩ := pp_fold gv ss (route, [], [], [], [])
    simp only at f1 f2 f3
    generalize ss.foldl (fun b a => stepP gv a b) (route, [], [], [], []) = st at f1 f2 f3 ⊢
    obtain ⟨r', n', v', rw', vr'⟩ := st
    simp only at f1 f2 f3
    simp only [List.nil_append, hvars] at f1 f2 f3
    subst f1 f2 f3
    simp only [ppBlk13_eq, ppBlk14_eq, ppBlk16_eq, ppBlk21_eq]
    -- the path after the first replacement, and the route record at that point
    have hfl : (vars.flatMap rawOf = []) ↔ (vars.filter (·.hasRegex)) = [] := by
      have hl := raw_length vars
      constructor
      · intro he; rw [he] at hl; exact List.eq_nil_of_length_eq_zero (by simp at hl; omega)
      · intro he; rw [he] at hl; exact List.eq_nil_of_length_eq_zero (by simpa using hl)
    have hraw : (vars.flatMap rawOf = []) ↔ (rawPairs vars).isEmpty = true := by
      rw [hfl]; unfold rawPairs; simp [List.isEmpty_iff]
    have hrep : replacerM (vars.flatMap rawOf) route.path = replaceAll (rawPairs vars) (route.path.length + 1) route.path := by
      unfold replacerM rawPairs; rw [pairUp_raw]
    have hblk : (if vars.flatMap rawOf = [] then
          (({ route with matches_ := route.matches_ ++ vars.map (·.name) } : Gen.Route), route.path)
        else (({ route with matches_ := route.matches_ ++ vars.map (·.name), spath := replacerM (vars.flatMap rawOf) route.path } : Gen.Route), replacerM (vars.flatMap rawOf) route.path))
        = (({ route with matches_ := vars.map (·.name), spath := spathOf vars route.path } : Gen.Route), path1Of vars route.path) := by
      unfold spathOf path1Of
      by_cases he : vars.flatMap rawOf = []
      · simp only [he, if_true, hraw.mp he, hm, hsp, List.nil_append]
      · have : (rawPairs vars).isEmpty = false := by
          cases hh : (rawPairs vars).isEmpty with
          | false => rfl
          | true => exact absurd (hraw.mpr hh) he
        simp only [he, if_false, this, Bool.false_eq_true, hrep, hm, List.nil_append]
    simp only [hblk]
    -- the rewritten path still begins with '/'
    have hp1head : (path1Of vars route.path).head? = some 0x2F := by
      unfold path1Of
      split
      · exact hhead
      · cases hpth : route.path with
        | nil => rw [hpth] at hhead; simp at hhead
        | cons c t =>
          rw [hpth] at hhead
          simp only [List.head?_cons, Option.some.injEq] at hhead
          subst hhead
          apply replaceAll_head
          intro p hp
          unfold rawPairs at hp
          simp only [List.mem_map, List.mem_filter] at hp
          obtain ⟨vi, ⟨hvi, _⟩, rfl⟩ := hp
          rw [← hvars] at hvi
          simp only [List.mem_map] at hvi
          obtain ⟨str, hstr, rfl⟩ := hvi
          have hh := findVars_head _ _ _ (hss ▸ hstr)
          have : (parseVarIn gv str).str = str := parseVarIn_str gv str
          simp only [this, hh]
          simp
    generalize hp1 : path1Of vars route.path = p1 at ha hp1head ⊢
    have hq : Gen.quotePointChar p1 = Bytes.quoteDots p1 := quotePointChar_eq _ (by rw [hp1head]; simp)
    have halt := indexByte_lt' _ _ _ ha
    have hargI : GoRt.indexByte p1 123 = (a : Int) := by unfold GoRt.indexByte; rw [ha]
    -- the cut position
    have hmin := minPos_facts p1 a ha
    rw [hmin.1]
    have hsl : slice p1 0 ((minPosOf p1 : Nat) : Int) = .ok (p1.take (minPosOf p1)) := by
      unfold slice
      have : (0 : Int) ≤ 0 ∧ (0 : Int) ≤ ((minPosOf p1 : Nat) : Int) ∧ ((minPosOf p1 : Nat) : Int) ≤ p1.length := by
        have := hmin.2; omega
      simp only [this, and_self, if_true]
      simp
    simp only [hsl]
  ))

theorem tie_parseParamRoute_vars (route : Gen.Route) (gv : GVars) (info : RouteInfo)
    (hm : route.matches_ = []) (hst : route.start = []) (hsp : route.spath = [])
    (hhead : route.path.head? = some 0x2F)
    (hne : (findVars (route.path.length + 1) route.path).isEmpty = false)
    (h : compileRouteIn gv route.path = .ok info) :
    Gen.Router.parseParamRoute route findAllM replacerM gv mustCompileM numSubexpM =
      .ok ({ route with matches_ := info.names, start := info.start, spath := info.spath,
                        regex := some ([0x5E] ++ info.regexStr ++ [0x24]) }, info.first) := by
  rw [compile_vars_eq gv _ hne] at h
  simp only at h
  generalize hss : findVars (route.path.length + 1) route.path = ss at h hne
  generalize hvars : ss.map (parseVarIn gv) = vars at h
  cases hbad : vars.any (fun v => !goodRegexString v.regex) with
  | true => simp [hbad] at h
  | false =>
    simp only [hbad, Bool.false_eq_true, if_false] at h
    cases ha : Bytes.indexByte (path1Of vars route.path) 0x7B with
    | none => rw [ha] at h; cases h
    | some a =>
      rw [ha] at h
      simp only at h
      cases h3 : path3Of (path1Of vars route.path) with
      | none => rw [h3] at h; cases h
      | some p3 =>
        rw [h3] at h
        simp only at h
        obtain ⟨hv, hc, h1, h2, h4, h5, h6⟩ := finish_ok h
        pp_front
        rw [hp1] at h3 h2 h4
        -- the optional parts
        have hopt : (if GoRt.indexByte p1 91 > 0 then Gen.checkAndParseOptional (Gen.quotePointChar p1) replacerM
            else Except.ok (Gen.quotePointChar p1)) = .ok p3 := by
          unfold path3Of at h3
          unfold GoRt.indexByte
          rw [hq, tie_checkAndParseOptional]
          cases ho : Bytes.indexByte p1 91 with
          | none => rw [ho] at h3; simp only [Option.some.injEq] at h3; simp [h3]
          | some o =>
            rw [ho] at h3
            simp only at h3
            by_cases hc1 : o > 0
            · have : ((o : Int) > 0) := by omega
              simp only [hc1, if_true] at h3
              simp only [this, if_true, h3]
            · have : ¬ ((o : Int) > 0) := by omega
              simp only [hc1, if_false, Option.some.injEq] at h3
              simp only [this, if_false, h3]
        simp only [hopt]
        have hrep2 : replacerM (vars.flatMap varReOf) p3 = replaceAll (varRePairs vars) (p3.length + 1) p3 := by
          unfold replacerM varRePairs; rw [pairUp_varRe]
        rw [hrep2]
        generalize hR : replaceAll (varRePairs vars) (p3.length + 1) p3 = R at hv hc h1 ⊢
        generalize hS : p1.take (minPosOf p1) = s0 at h2 h4 ⊢
        have hstart : (if s0.length > 1 then startOf s0 else route.start) = startOf s0 := by
          by_cases hl : s0.length > 1
          · simp [hl]
          · simp [hl, hst, startOf]
        rw [hstart]
        obtain ⟨hmc, hgg⟩ := compile_ok ({ route with matches_ := vars.map (·.name), start := startOf s0, spath := spathOf vars route.path } : Gen.Route) R hv (by simpa using hc)
        simp only [hmc]
        have hgg' := hgg
        simp only at hgg'
        simp only [hgg', h1, h2, h4, h5, h6]

/-- the variables of a path, as the model reads them -/
def varsOf (gv : GVars) (path : Bytes) : List VarInfo := (findVars (path.length + 1) path).map (parseVarIn gv)

/-- the remaining rejections of a path WITH variables whose variable regexes are accepted: misplaced optional brackets,
    regexp text that is not valid UTF-8 (MustCompile), a group count that differs from the number of variables
    (goodRegexGroups) — in each case the generated function panics -/
theorem tie_parseParamRoute_vars_rejects (route : Gen.Route) (gv : GVars)
    (hm : route.matches_ = []) (hst : route.start = []) (hsp : route.spath = [])
    (hhead : route.path.head? = some 0x2F)
    (hne : (findVars (route.path.length + 1) route.path).isEmpty = false)
    (hbad0 : ((varsOf gv route.path).any fun v => !goodRegexString v.regex) = false)
    (a : Nat)
    (ha0 : Bytes.indexByte (path1Of (varsOf gv route.path) route.path) 0x7B = some a) :
    (path3Of (path1Of (varsOf gv route.path) route.path) = none →
      ∃ e, Gen.Router.parseParamRoute route findAllM replacerM gv mustCompileM numSubexpM = .error e) ∧
    (∀ p3, path3Of (path1Of (varsOf gv route.path) route.path) = some p3 →
      (Bytes.validUTF8 (replaceAll (varRePairs (varsOf gv route.path)) (p3.length + 1) p3) = false ∨
       countGroups (replaceAll (varRePairs (varsOf gv route.path)) (p3.length + 1) p3) 0 ≠ (varsOf gv route.path).length) →
      ∃ e, Gen.Router.parseParamRoute route findAllM replacerM gv mustCompileM numSubexpM = .error e) := by
  unfold varsOf at *
  generalize hss : findVars (route.path.length + 1) route.path = ss at hne hbad0 ha0 ⊢
  generalize hvars : ss.map (parseVarIn gv) = vars at hbad0 ha0 ⊢
  have hbad := hbad0
  have ha := ha0
  constructor
  · intro h3
    pp_front
    rw [hp1] at h3
    have hopt : ∃ e, (if GoRt.indexByte p1 91 > 0 then Gen.checkAndParseOptional (Gen.quotePointChar p1) replacerM
        else Except.ok (Gen.quotePointChar p1)) = .error e := by
      unfold path3Of at h3
      unfold GoRt.indexByte
      rw [hq, tie_checkAndParseOptional]
      cases ho : Bytes.indexByte p1 91 with
      | none => rw [ho] at h3; cases h3
      | some o =>
        rw [ho] at h3
        simp only at h3
        by_cases hc1 : o > 0
        · have : ((o : Int) > 0) := by omega
          simp only [hc1, if_true] at h3
          simp only [this, if_true, h3]
          exact ⟨_, rfl⟩
        · simp only [hc1, if_false] at h3; cases h3
    obtain ⟨e, he⟩ := hopt
    simp only [he]
    exact ⟨_, rfl⟩
  · intro p3 h3 hrej
    pp_front
    rw [hp1] at h3
    have hopt : (if GoRt.indexByte p1 91 > 0 then Gen.checkAndParseOptional (Gen.quotePointChar p1) replacerM
        else Except.ok (Gen.quotePointChar p1)) = .ok p3 := by
      unfold path3Of at h3
      unfold GoRt.indexByte
      rw [hq, tie_checkAndParseOptional]
      cases ho : Bytes.indexByte p1 91 with
      | none => rw [ho] at h3; simp only [Option.some.injEq] at h3; simp [h3]
      | some o =>
        rw [ho] at h3
        simp only at h3
        by_cases hc1 : o > 0
        · have : ((o : Int) > 0) := by omega
          simp only [hc1, if_true] at h3
          simp only [this, if_true, h3]
        · have : ¬ ((o : Int) > 0) := by omega
          simp only [hc1, if_false, Option.some.injEq] at h3
          simp only [this, if_false, h3]
    simp only [hopt]
    have hrep2 : replacerM (vars.flatMap varReOf) p3 = replaceAll (varRePairs vars) (p3.length + 1) p3 := by
      unfold replacerM varRePairs; rw [pairUp_varRe]
    rw [hrep2]
    generalize replaceAll (varRePairs vars) (p3.length + 1) p3 = R at hrej ⊢
    by_cases hv : Bytes.validUTF8 R = true
    · have hcnt : countGroups R 0 ≠ vars.length := by
        rcases hrej with h | h
        · rw [hv] at h; cases h
        · exact h
      have hmc : mustCompileM ([0x5E] ++ R ++ [0x24]) = .ok () := by
        unfold mustCompileM; rw [innerText_wrap, hv]; rfl
      simp only [hmc]
      unfold Gen.Route.goodRegexGroups
      have hn : numSubexpM (some ([0x5E] ++ R ++ [0x24])) = (countGroups R 0 : Nat) := by
        unfold numSubexpM; simp only; rw [innerText_wrap]
      simp only [bind, Except.bind, pure, Except.pure, hn, List.length_map]
      have : (((countGroups R 0 : Nat) : Int) != (vars.length : Int)) = true := by
        simp only [bne_iff_ne, ne_eq]; omega
      simp only [this, if_true, throw, throwThe, MonadExceptOf.throw]
      exact ⟨_, rfl⟩
    · have hmc : mustCompileM ([0x5E] ++ R ++ [0x24]) = .error .value := by
        unfold mustCompileM; rw [innerText_wrap]; simp [hv]
      simp only [hmc]
      exact ⟨_, rfl⟩

/-- **`parseParamRoute` as generated = the model's `compileRouteIn`**, for a fresh route (no variable names, literal
    prefix or simple path recorded yet) with a formatted path: whenever the model compiles the path, the generated
    function returns without panic, and the route it returns carries exactly the model's variable names, literal
    prefix, simple path and regexp source text (`^` + text + `$`), and the first-segment key is the model's. -/
theorem tie_parseParamRoute (route : Gen.Route) (gv : GVars) (info : RouteInfo)
    (hm : route.matches_ = []) (hst : route.start = []) (hsp : route.spath = [])
    (hhead : route.path.head? = some 0x2F)
    (h : compileRouteIn gv route.path = .ok info) :
    Gen.Router.parseParamRoute route findAllM replacerM gv mustCompileM numSubexpM =
      .ok ({ route with matches_ := info.names, start := info.start, spath := info.spath,
                        regex := some ([0x5E] ++ info.regexStr ++ [0x24]) }, info.first) := by
  cases hss : findVars (route.path.length + 1) route.path with
  | nil =>
    rw [tie_parseParamRoute_novars route gv info hm hhead hss h]
    unfold compileRouteIn at h
    simp only [hss, List.isEmpty_nil, if_true] at h
    cases hopt : checkAndParseOptional (Bytes.quoteDots route.path) with
    | none => rw [hopt] at h; cases h
    | some r =>
      rw [hopt] at h
      obtain ⟨_, _, _, h2, _, h5, h6⟩ := finish_ok h
      rw [h2, h5, h6, hm, hst, hsp]
  | cons a t =>
    exact tie_parseParamRoute_vars route gv info hm hst hsp hhead (by rw [hss]; rfl) h


theorem finish_reject {r st f sp : Bytes} {names : List Bytes} {why : Reject}
    (h : finish r st f sp names = .reject why) : why = .compile ∨ why = .groups := by
  unfold finish at h
  by_cases hv : Bytes.validUTF8 r = true
  · simp only [hv, Bool.not_true, Bool.false_eq_true, if_false] at h
    by_cases hc : countGroups r 0 = names.length
    · simp only [hc, ne_eq, not_true_eq_false, if_false] at h
      cases hp : parseLevels (r.length + 2) r [] [] with
      | none => rw [hp] at h; cases h
      | some ls =>
        rw [hp] at h
        simp only at h
        by_cases hl : levelsVars ls = names.length
        · simp [hl] at h
        · simp only [hl, ne_eq, not_false_eq_true, if_true, Compiled.reject.injEq] at h
          exact Or.inr h.symm
    · simp only [hc, ne_eq, not_false_eq_true, if_true, Compiled.reject.injEq] at h
      exact Or.inr h.symm
  · simp only [hv, Bool.not_false, if_true, Compiled.reject.injEq] at h
    exact Or.inl h.symm

/-- a variable regex that `goodRegexString` refuses (a capturing group): the generated function panics — registration
    refuses the route -/
theorem tie_parseParamRoute_reject_varRegex (route : Gen.Route) (gv : GVars)
    (h : compileRouteIn gv route.path = .reject .varRegex) :
    ∃ e, Gen.Router.parseParamRoute route findAllM replacerM gv mustCompileM numSubexpM = .error e := by
  cases hne : (findVars (route.path.length + 1) route.path).isEmpty with
  | true =>
    unfold compileRouteIn at h
    simp only [hne, if_true] at h
    cases hopt : checkAndParseOptional (Bytes.quoteDots route.path) with
    | none => rw [hopt] at h; cases h
    | some r =>
      rw [hopt] at h
      rcases finish_reject h with hw | hw <;> cases hw
  | false =>
    rw [compile_vars_eq gv _ hne] at h
    simp only at h
    generalize hss : findVars (route.path.length + 1) route.path = ss at h hne
    have hbad : ((ss.map (parseVarIn gv)).any fun v => !goodRegexString v.regex) = true := by
      cases hb : (ss.map (parseVarIn gv)).any fun v => !goodRegexString v.regex with
      | true => rfl
      | false =>
        simp only [hb, Bool.false_eq_true, if_false] at h
        split at h
        · cases h
        · split at h
          · cases h
          · rcases finish_reject h with hw | hw <;> cases hw
    unfold Gen.Router.parseParamRoute
    have hfa : findAllM route.path = ss := hss
    have hlen : (((ss.length : Int)) == 0) = false := by
      cases ss with
      | nil => simp at hne
      | cons a t => simp; omega
    simp only [bind, Except.bind, pure, Except.pure, hfa, hlen, Bool.false_eq_true, if_false]
    have hmem : ∀ str ∈ ss, 2 ≤ str.length := fun str hs => findVars_len _ _ _ (hss ▸ hs)
    have key : ∀ body : Bytes → PState → Except Panic (ForInStep PState),
        (∀ str ∈ ss, ∀ st, (goodRegexString (parseVarIn gv str).regex = true → body str st = .ok (.yield (stepP gv str st))) ∧
          (goodRegexString (parseVarIn gv str).regex = false → ∃ e, body str st = .error e)) →
        ∀ v, forIn ss ((route, [], [], [], []) : PState) body ≠ .ok v := by
      intro body hb v hv
      obtain ⟨e, he⟩ := (pp_loop gv body ss hb (route, [], [], [], [])).2 hbad
      rw [he] at hv; cases hv
    split
    · exact ⟨_, rfl⟩
    · rename_i v heq
      exact absurd heq (key _ (by
        intro str hs st
        have h2 := hmem str hs
        simp only [slice_inner str h2, ppBlk6_eq]
        obtain ⟨hg, hb⟩ := tie_goodRegexString st.1 (parseVarIn gv str).name (parseVarIn gv str).regex
        constructor
        · intro hgr; simp only [hg hgr]; rfl
        · intro hgr; obtain ⟨e, he⟩ := hb hgr; exact ⟨e, by simp only [he]⟩) v)

/-- optional brackets that are not all at the end of a path without variables: the generated function panics -/
theorem tie_parseParamRoute_reject_optional_novars (route : Gen.Route) (gv : GVars)
    (hhead : route.path.head? = some 0x2F)
    (hss : findVars (route.path.length + 1) route.path = [])
    (h : compileRouteIn gv route.path = .reject .optional) :
    ∃ e, Gen.Router.parseParamRoute route findAllM replacerM gv mustCompileM numSubexpM = .error e := by
  unfold compileRouteIn at h
  simp only [hss, List.isEmpty_nil, if_true] at h
  cases hopt : checkAndParseOptional (Bytes.quoteDots route.path) with
  | some r =>
    rw [hopt] at h
    rcases finish_reject h with hw | hw <;> cases hw
  | none =>
    unfold Gen.Router.parseParamRoute
    have hq : Gen.quotePointChar route.path = Bytes.quoteDots route.path :=
      quotePointChar_eq _ (by rw [hhead]; simp)
    have hfa : findAllM route.path = [] := hss
    simp only [bind, Except.bind, pure, Except.pure, hfa, List.length_nil, hq, tie_checkAndParseOptional, hopt]
    exact ⟨_, rfl⟩

/-- part of what the model's `finish` checks: as many capturing groups as variable names -/
theorem compile_ok_groups (gv : GVars) (path : Bytes) (info : RouteInfo) (h : compileRouteIn gv path = .ok info) :
    countGroups info.regexStr 0 = info.names.length := by
  cases hss : (findVars (path.length + 1) path).isEmpty with
  | true =>
    unfold compileRouteIn at h
    simp only [hss, if_true] at h
    cases hopt : checkAndParseOptional (Bytes.quoteDots path) with
    | none => rw [hopt] at h; cases h
    | some r =>
      rw [hopt] at h
      obtain ⟨_, hc, h1, _, _, _, h6⟩ := finish_ok h
      rw [h1, h6]; exact hc
  | false =>
    rw [compile_vars_eq gv _ hss] at h
    simp only at h
    split at h
    · cases h
    · split at h
      · cases h
      · split at h
        · cases h
        · obtain ⟨_, hc, h1, _, _, _, h6⟩ := finish_ok h
          rw [h1, h6]; exact hc

end Tie
end Rux
