import RuxModel.Generated.Code
import RuxModel.Model.Writer
import RuxModel.Tie.Tactic
/-
  Tie: the definitions generated from response_wirter.go (and the writer helpers of context.go) are the
  hand-written writer model `Rux.Writer` (Model/Writer.lean), through the abstraction `absW`.

  The generated record keeps `status`, `length` and the log of calls that reached the underlying
  `http.ResponseWriter`; the hand-written model additionally tracks the Content-Type header (`ctype`, `sent`),
  which no translated function touches.
-/
namespace Rux
namespace Tie
open Writer

/-- an event of the generated log as an event of the model; a `Write` that reports a negative count or more
    than it was given is outside the `io.Writer` contract and has no counterpart -/
def absEv : GoRt.WEv → Option Ev
  | .writeHeader c => some (.wh c)
  | .write b n err => if 0 ≤ n then some (.w b n.toNat err) else none
  | .flush => some .fl

def absLog : List GoRt.WEv → Option (List Ev)
  | [] => some []
  | e :: es => match absEv e, absLog es with
    | some a, some as => some (a :: as)
    | _, _ => none

theorem absLog_append (l : List GoRt.WEv) (e : GoRt.WEv) (l' : List Ev) (e' : Ev)
    (hl : absLog l = some l') (he : absEv e = some e') : absLog (l ++ [e]) = some (l' ++ [e']) := by
  induction l generalizing l' with
  | nil => simp [absLog] at hl; subst hl; simp [absLog, he]
  | cons x xs ih =>
    simp only [absLog] at hl
    cases hx : absEv x with
    | none => simp [hx] at hl
    | some a =>
      cases hxs : absLog xs with
      | none => simp [hx, hxs] at hl
      | some as =>
        simp [hx, hxs] at hl; subst hl
        simp [absLog, hx, ih as hxs]

/-- the generated writer `g` stands for the model writer `w` -/
structure Rel (g : Gen.RW) (w : W) : Prop where
  status : g.status = w.status
  length : g.length = w.length
  log : absLog g.log = some w.log

theorem tie_Written (g : Gen.RW) (w : W) (h : Rel g w) : Gen.RW.Written g = w.written := by
  simp [Gen.RW.Written, W.written, Id.run, GoRt.idPure, h.length]

theorem tie_Status (g : Gen.RW) (w : W) (h : Rel g w) : Gen.RW.Status g = w.status := by
  simp [Gen.RW.Status, Id.run, GoRt.idPure, h.status]

theorem tie_Length (g : Gen.RW) (w : W) (h : Rel g w) : Gen.RW.Length g = w.length := by
  simp [Gen.RW.Length, Id.run, GoRt.idPure, h.length]

/-- `responseWriter.WriteHeader(c)` is the model's `setStatus c` -/
theorem tie_WriteHeader (g : Gen.RW) (w : W) (c : Int) (h : Rel g w) :
    Rel (Gen.RW.WriteHeader g c) (step w (.setStatus c)) := by
  obtain ⟨hs, hl, hg⟩ := h
  unfold Gen.RW.WriteHeader step
  by_cases h1 : c > 0 <;> by_cases h2 : w.status = c <;>
    simp [Id.run, GoRt.idPure, Gen.RW.Written, h1, h2, hs, bne] <;> constructor <;> simp_all

/-- `responseWriter.ensureWriteHeader()` is the model's `ensure` -/
theorem tie_ensure (g : Gen.RW) (w : W) (h : Rel g w) : Rel (Gen.RW.ensureWriteHeader g) (ensure w) := by
  obtain ⟨hs, hl, hg⟩ := h
  unfold Gen.RW.ensureWriteHeader ensure
  by_cases h1 : w.length = -1 <;> by_cases h2 : w.status = 0 <;>
    simp [Id.run, GoRt.idPure, Gen.RW.Written, h1, h2, hs, hl, bne] <;> constructor <;>
    (try simp_all) <;> (try (apply absLog_append _ _ _ _ hg; simp [absEv, hs, h2]))

/-- `responseWriter.Write(b)` with the underlying writer answering `(n, err)`, `0 ≤ n`, is the model's
    `write b n err`; the values returned to the caller are the underlying writer's -/
theorem tie_Write (g : Gen.RW) (w : W) (b : Bytes) (n : Nat) (err : Bool) (h : Rel g w) :
    Rel (Gen.RW.Write g b ((n : Int), err)).1 (step w (.write b n err)) ∧
    (Gen.RW.Write g b ((n : Int), err)).2 = ((n : Int), err) := by
  have he := tie_ensure g w h
  obtain ⟨hs, hl, hg⟩ := he
  refine ⟨?_, by simp [Gen.RW.Write, Id.run, GoRt.idPure]⟩
  simp only [Gen.RW.Write, Id.run, GoRt.idPure, step]
  exact ⟨hs, by simp [hl], absLog_append _ _ _ _ hg (by simp [absEv])⟩

/-- `responseWriter.Flush()` is the model's `flush` -/
theorem tie_Flush (g : Gen.RW) (w : W) (h : Rel g w) : Rel (Gen.RW.Flush g) (step w .flush) := by
  have he := tie_ensure g w h
  obtain ⟨hs, hl, hg⟩ := he
  simp only [Gen.RW.Flush, Id.run, GoRt.idPure, step]
  exact ⟨hs, hl, absLog_append _ _ _ _ hg (by simp [absEv])⟩

/-! ### operation sequences on the generated code -/

/-- one model operation executed by the GENERATED functions; operations that only touch the header map
    of the underlying writer (`setCT`, `setCTIfAbsent`, `setHeader`) leave the generated record alone -/
def genStep (g : Gen.RW) : Op → Gen.RW
  | .setStatus c => Gen.RW.WriteHeader g c
  | .write b acc err => (Gen.RW.Write g b ((acc : Int), err)).1
  | .flush => Gen.RW.Flush g
  | _ => g

def genRun (g : Gen.RW) (ops : List Op) : Gen.RW := ops.foldl genStep g

/-- the record at the start of a request: `responseWriter.reset` (GENERATED) applied to whatever the pooled
    context's writer contained before -/
def genFresh (old : Gen.RW) : Gen.RW := Gen.RW.reset old ()

/-- a whole request on the generated code: the operations, then the `ensureWriteHeader()` at the end of
    `handleHTTPRequest` -/
def genFinish (old : Gen.RW) (ops : List Op) : Gen.RW := Gen.RW.ensureWriteHeader (genRun (genFresh old) ops)

theorem rel_fresh (old : Gen.RW) (ct : Option Bytes) : Rel (genFresh old) (W.fresh ct) := ⟨rfl, rfl, rfl⟩

theorem tie_step (g : Gen.RW) (w : W) (o : Op) (h : Rel g w) : Rel (genStep g o) (step w o) := by
  cases o with
  | setStatus c => exact tie_WriteHeader g w c h
  | write b acc err => exact (tie_Write g w b acc err h).1
  | flush => exact tie_Flush g w h
  | setCT v => exact ⟨h.status, h.length, h.log⟩
  | setCTIfAbsent v =>
    simp only [genStep, step]
    cases w.ctype <;> exact ⟨h.status, h.length, h.log⟩
  | setHeader => exact h

theorem tie_run (g : Gen.RW) (w : W) (ops : List Op) (h : Rel g w) : Rel (genRun g ops) (run w ops) := by
  induction ops generalizing g w with
  | nil => exact h
  | cons o os ih => exact ih _ _ (tie_step g w o h)

/-- the generated code, run on any operation sequence of one request, ends in the state of the model -/
theorem tie_finish (old : Gen.RW) (ct : Option Bytes) (ops : List Op) :
    Rel (genFinish old ops) (finish ct ops) :=
  tie_ensure _ _ (tie_run _ _ ops (rel_fresh old ct))

/-- a model event as the call the underlying writer receives -/
def toWEv : Ev → GoRt.WEv
  | .wh c => .writeHeader c
  | .w b acc err => .write b acc err
  | .fl => .flush

theorem absEv_inv (e : GoRt.WEv) (e' : Ev) (h : absEv e = some e') : e = toWEv e' := by
  cases e with
  | writeHeader c => simp [absEv] at h; subst h; rfl
  | flush => simp [absEv] at h; subst h; rfl
  | write b n err =>
    simp only [absEv] at h
    split at h
    · rename_i hn
      simp at h; subst h
      simp [toWEv, Int.toNat_of_nonneg hn]
    · simp at h

theorem absLog_inv (l : List GoRt.WEv) (l' : List Ev) (h : absLog l = some l') : l = l'.map toWEv := by
  induction l generalizing l' with
  | nil => simp [absLog] at h; subst h; rfl
  | cons x xs ih =>
    simp only [absLog] at h
    cases hx : absEv x with
    | none => simp [hx] at h
    | some a =>
      cases hxs : absLog xs with
      | none => simp [hx, hxs] at h
      | some as =>
        simp [hx, hxs] at h; subst h
        simp [absEv_inv x a hx, ← ih as hxs]

end Tie
end Rux
