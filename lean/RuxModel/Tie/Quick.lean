import RuxModel.Generated.Code
import RuxModel.Model.Table
import RuxModel.Model.Quick
import RuxModel.Tie.Path
import RuxModel.Props.C11Tie
/-
  Tie: the definition generated from parse_match.go `Router.QuickMatch` — the decision list
  direct match / HEAD→GET / fallback route / method-not-allowed / not found over abstract lookups — is the
  hand-written `quickMatch` of Model/Table.lean, when the abstract lookups are instantiated with the model's
  `matchM`, `findAllowed` and static table.
-/
namespace Rux
namespace Tie

/-- the model's lookups as the environment of the generated `QuickMatch`: state = the model router (its cache
    changes), routes carry the served-from-cache flag -/
def envM : GoRt.QMEnv RouterM (RouteM × Bool) Params where
  match_ s m p :=
    match matchM s m p with
    | (some (r, ps, c), s') => ((some (r, c), some ps), s')
    | (none, s') => ((none, none), s')
  findAllowed s m p := findAllowed s m p
  stable s k := (alistGet s.stable k).map fun r => (r, false)

/-- the model's result in the shape of Go's `(route, ps, alm)` -/
def absRes : MatchResult → Option (RouteM × Bool) × Option Params × List Bytes
  | .route r ps c => (some (r, c), some ps, [])
  | .fallback r => (some (r, false), none, [])
  | .allowed ms => (none, none, ms)
  | .notFound => (none, none, [])

/-- the option fields of the generated router record are the model's options -/
structure OptsRel (g : Gen.Router) (o : Opts) : Prop where
  strict : g.strictLastSlash = o.strict
  intercept : g.interceptAll = o.intercept
  fallback : g.handleFallbackRoute = o.fallback
  notAllowed : g.handleMethodNotAllowed = o.notAllowed

theorem envM_match_none {s s' : RouterM} {m q : Bytes} (h : matchM s m q = (none, s')) :
    envM.match_ s m q = ((none, none), s') := by simp [envM, h]

theorem envM_match_some {s s' : RouterM} {m q : Bytes} {r : RouteM} {ps : Params} {c : Bool}
    (h : matchM s m q = (some (r, ps, c), s')) :
    envM.match_ s m q = ((some (r, c), some ps), s') := by simp [envM, h]

/-- the part of `QuickMatch` after the direct match failed and the HEAD→GET attempt is over -/
theorem tie_tail (rt0 rt : RouterM) (m q : Bytes) (ho : rt.opts = rt0.opts) :
    (if rt0.opts.fallback = true then
      if (envM.stable rt (m ++ [47, 42])).isSome = true then
        (Except.ok (rt, envM.stable rt (m ++ [47, 42]), none, []) : Except Panic _)
      else
        if rt0.opts.notAllowed = true then
          if decide (((envM.findAllowed rt m q).fst.length : Int) > 0) = true then
            Except.ok ((envM.findAllowed rt m q).snd, none, none, (envM.findAllowed rt m q).fst)
          else Except.ok ((envM.findAllowed rt m q).snd, none, none, (envM.findAllowed rt m q).fst)
        else Except.ok (rt, none, none, [])
    else
      if rt0.opts.notAllowed = true then
        if decide (((envM.findAllowed rt m q).fst.length : Int) > 0) = true then
          Except.ok ((envM.findAllowed rt m q).snd, none, none, (envM.findAllowed rt m q).fst)
        else Except.ok ((envM.findAllowed rt m q).snd, none, none, (envM.findAllowed rt m q).fst)
      else Except.ok (rt, none, none, [])) =
    .ok ((tailMatch rt m q).2, absRes (tailMatch rt m q).1) := by
  unfold tailMatch
  rw [ho]
  simp only [envM, slashStar]
  cases rt0.opts.fallback <;> cases rt0.opts.notAllowed <;>
    simp only [Bool.false_eq_true, if_false, if_true, absRes]
  · by_cases h : (findAllowed rt m q).1.isEmpty = true
    · simp [h, List.isEmpty_iff.mp h]
    · simp [h]
  · cases alistGet rt.stable (m ++ [47, 42]) <;> simp [absRes]
  · cases alistGet rt.stable (m ++ [47, 42]) with
    | some r => simp [absRes]
    | none =>
      simp only [Option.map_none, Option.isSome_none, Bool.false_eq_true, if_false]
      by_cases h : (findAllowed rt m q).1.isEmpty = true
      · simp [h, List.isEmpty_iff.mp h]
      · simp [h]

theorem matchM_opts (rt : RouterM) (m q : Bytes) : (matchM rt m q).2.opts = rt.opts := by
  unfold matchM
  cases alistGet rt.stable (m ++ q) with
  | some r => rfl
  | none =>
    simp only
    generalize (if rt.opts.caching = true then rt.cache.get (m ++ q) else (none, rt.cache)) = hc
    rcases hc with ⟨_ | ⟨r, ps⟩, c1⟩
    · simp only
      cases dynMatch rt m q with
      | none => rfl
      | some x => rfl
    · rfl

theorem tie_QuickMatch (g : Gen.Router) (rt : RouterM) (h : OptsRel g rt.opts) (m p : Bytes) :
    Gen.Router.QuickMatch g m p envM rt =
      .ok ((quickMatch rt m p).2, absRes (quickMatch rt m p).1) := by
  obtain ⟨hs, hi, hf, hn⟩ := h
  unfold Gen.Router.QuickMatch quickMatch
  simp only [Id.run, GoRt.idPure, GoRt.idBind, tie_formatPath, C11_table_normaliser, hs, hi, hf, hn, bind, Except.bind, pure, Except.pure]
  cases hint : rt.opts.intercept
  case' nil =>
    simp only [bne_self_eq_false, Bool.false_eq_true, if_false, List.isEmpty_nil, if_true]
    generalize fmtPath rt.opts.strict p = q
  case' cons b t =>
    have hne : ((b :: t) != ([] : Bytes)) = true := by simp
    simp only [hne, if_true, List.isEmpty_cons, Bool.false_eq_true, if_false]
    generalize fmtPath rt.opts.strict (b :: t) = q
  all_goals
    rcases hm : matchM rt m q with ⟨_ | ⟨r, ps, c⟩, rt1⟩
    · have ho1 : rt1.opts = rt.opts := by have := matchM_opts rt m q; rw [hm] at this; exact this
      rw [envM_match_none hm]
      simp only [Option.isSome_none, Bool.false_eq_true, if_false]
      unfold headMatch
      by_cases hh : m = methodHEAD
      · have hh' : (m == ([72, 69, 65, 68] : Bytes)) = true := by subst hh; rfl
        simp only [hh', if_pos hh, if_true]
        rcases hg : matchM rt1 methodGET q with ⟨_ | ⟨r, ps, c⟩, rt2⟩
        · have ho2 : rt2.opts = rt.opts := by
            have := matchM_opts rt1 methodGET q; rw [hg] at this; exact this.trans ho1
          have hg' : matchM rt1 ([71, 69, 84] : Bytes) q = (none, rt2) := hg
          rw [envM_match_none hg']
          simp only [Option.isSome_none, Bool.false_eq_true, if_false]
          exact tie_tail rt rt2 m q ho2
        · have hg' : matchM rt1 ([71, 69, 84] : Bytes) q = (some (r, ps, c), rt2) := hg
          rw [envM_match_some hg']
          simp [absRes]
      · have hh' : (m == ([72, 69, 65, 68] : Bytes)) = false := by
          simp only [beq_eq_false_iff_ne]; exact hh
        simp only [hh', if_neg hh, Bool.false_eq_true, if_false]
        exact tie_tail rt rt1 m q ho1
    · rw [envM_match_some hm]; simp [absRes]

end Tie
end Rux
