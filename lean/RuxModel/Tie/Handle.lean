import RuxModel.Generated.Code
import RuxModel.Tie.Tactic
/-
  The definition generated from dispatch.go `Router.handleHTTPRequest`, brought into a readable closed form
  (`handleSpec`) for ANY environment: whatever `QuickMatch`, the handlers behind `Next()` and the two hooks do.
  The deferred recover of the Go source (`if r.OnPanic != nil { defer func() { if ret := recover(); ret != nil
  {…} }() }`) appears as: run the body; when it ended with a panic and the hook is set, store the value, run the
  hook, commit.
-/
namespace Rux
namespace Tie
open GoRt

variable {σ ρ η γ : Type}

def keyRouteName : Bytes := [0x5F, 0x63, 0x75, 0x72, 0x72, 0x65, 0x6E, 0x74, 0x52, 0x6F, 0x75, 0x74, 0x65, 0x4E, 0x61, 0x6D, 0x65]
def keyRoutePath : Bytes := [0x5F, 0x63, 0x75, 0x72, 0x72, 0x65, 0x6E, 0x74, 0x52, 0x6F, 0x75, 0x74, 0x65, 0x50, 0x61, 0x74, 0x68]
def keyAllowed : Bytes := [0x5F, 0x61, 0x6C, 0x6C, 0x6F, 0x77, 0x65, 0x64, 0x4D, 0x65, 0x74, 0x68, 0x6F, 0x64, 0x73]
def keyRecover : Bytes := [0x5F, 0x72, 0x65, 0x63, 0x6F, 0x76, 0x65, 0x72, 0x52, 0x65, 0x73, 0x75, 0x6C, 0x74]

/-- the handler chain of a request: global middleware, then the route's middleware and its main handler, or the
    NotAllowed handlers (default when none are set) when other methods match, or the NotFound handlers -/
def chainFor (env : HEnv σ ρ η (Gen.Ctx γ)) (s : σ) (route : Option ρ) (allowed : List Bytes) : List η :=
  env.globalHandlers s ++
    (if route.isSome then env.routeHandlers route ++ (env.routeHandler route).toList
     else if decide ((allowed.length : Int) > 0) then
       (if ((env.noAllowed s).length : Int) == 0 then env.default405 else env.noAllowed s)
     else (if ((env.noRoute s).length : Int) == 0 then env.default404 else env.noRoute s))

/-- what `handleHTTPRequest` stores in the context before the chain runs -/
def preludeCtx (env : HEnv σ ρ η (Gen.Ctx γ)) (ctx : Gen.Ctx γ) (path : Bytes) (route : Option ρ)
    (params : Option KV) (allowed : List Bytes) : Gen.Ctx γ :=
  if route.isSome then
    { ctx with params := params,
               data := dataSet (dataSet ctx.data keyRouteName (.str (env.routeName route))) keyRoutePath (.str path) }
  else if decide ((allowed.length : Int) > 0) then { ctx with data := dataSet ctx.data keyAllowed (.strs allowed) }
  else ctx

def commit (c : Gen.Ctx γ) : Gen.Ctx γ := { c with writer := Gen.RW.ensureWriteHeader c.writer }

/-- the part of `handleHTTPRequest` below the `defer` -/
def bodySpec (env : HEnv σ ρ η (Gen.Ctx γ)) (g : Gen.Router) (ctx : Gen.Ctx γ) (s : σ) : σ × Gen.Ctx γ × Option Panic :=
  let path := if g.useEncodedPath then env.escapedPath ctx.req else env.urlPath ctx.req
  let q := env.quickMatch s (env.method ctx.req) path
  match q.2.2.2.2 with
  | some p => (q.1, ctx, some p)
  | none =>
    let chain := chainFor env q.1 q.2.1 q.2.2.2.1
    let c1 := { preludeCtx env ctx path q.2.1 q.2.2.1 q.2.2.2.1 with handlers := chain.map (fun _ => ()) }
    let n := env.next q.1 c1 chain
    match n.2.2 with
    | some p => (n.1, n.2.1, some p)
    | none =>
      if ((env.onErrorH n.1).isSome && decide ((n.2.1.errors.length : Int) > 0)) = true then
        let e := env.onError n.1 n.2.1
        match e.2.2 with
        | some p => (e.1, e.2.1, some p)
        | none => (e.1, commit e.2.1, none)
      else (n.1, commit n.2.1, none)

/-- `handleHTTPRequest` -/
def handleSpec (env : HEnv σ ρ η (Gen.Ctx γ)) (g : Gen.Router) (ctx : Gen.Ctx γ) (s : σ) : σ × Gen.Ctx γ × Option Panic :=
  let b := bodySpec env g ctx s
  if (env.onPanicH s).isSome = true then
    match b.2.2 with
    | some ret =>
      let h := env.onPanic b.1 { b.2.1 with data := dataSet b.2.1.data keyRecover (.pv ret) }
      match h.2.2 with
      | some p => (h.1, h.2.1, some p)
      | none => (h.1, commit h.2.1, none)
    | none => b
  else b

/-
  OPEN: `Gen.Router.handleHTTPRequest g ctx env s = handleSpec env g ctx s`.
  The statement is true by inspection of the two definitions, but the obvious proof (unfold, zeta-reduce, case
  analysis) does not terminate in reasonable time: after zeta-reduction every structure update on the context copies
  the preceding tuple-valued block into each field.  Until a let-preserving proof is written the generated
  definition is tied by the snapshot theorem of Tie/Golden.lean only.
-/

end Tie
end Rux
