import RuxModel.Generated.Code
import RuxModel.Tie.Tactic
/-
  The definition generated from dispatch.go `Router.handleHTTPRequest`, brought into a readable closed form
  (`handleSpec`) for ANY environment: whatever `QuickMatch`, the handlers behind `Next()` and the two hooks do.
  The deferred recover of the Go source (`if r.OnPanic != nil { defer func() { if ret := recover(); ret != nil
  {…} }() }`) appears as: run the body; when it ended with a panic and the hook is set, store the value, run the
  hook, commit.
-/
set_option linter.unusedSimpArgs false
set_option linter.unusedVariables false
namespace Rux
namespace Tie
open GoRt

variable {σ ρ η γ : Type}

def keyRouteName : Bytes := [0x5F, 0x63, 0x75, 0x72, 0x72, 0x65, 0x6E, 0x74, 0x52, 0x6F, 0x75, 0x74, 0x65, 0x4E, 0x61, 0x6D, 0x65]
def keyRoutePath : Bytes := [0x5F, 0x63, 0x75, 0x72, 0x72, 0x65, 0x6E, 0x74, 0x52, 0x6F, 0x75, 0x74, 0x65, 0x50, 0x61, 0x74, 0x68]
def keyAllowed : Bytes := [0x5F, 0x61, 0x6C, 0x6C, 0x6F, 0x77, 0x65, 0x64, 0x4D, 0x65, 0x74, 0x68, 0x6F, 0x64, 0x73]
def keyRecover : Bytes := [0x5F, 0x72, 0x65, 0x63, 0x6F, 0x76, 0x65, 0x72, 0x52, 0x65, 0x73, 0x75, 0x6C, 0x74]

def orDefault (hs dflt : List η) : List η := if ((hs.length : Int) == 0) then dflt else hs

/-- what the `if route != nil {…} else if len(allowed) > 0 {…} else {…}` statement computes: the context with the
    prelude values, the main handler, the handlers in front of it -/
def choose (env : HEnv σ ρ η (Gen.Ctx γ)) (s : σ) (ctx : Gen.Ctx γ) (path : Bytes) (route : Option ρ)
    (params : Option KV) (allowed : List Bytes) : Gen.Ctx γ × Option η × List η :=
  if route.isSome then
    ({ ctx with params := params, data := dataSet (dataSet ctx.data keyRouteName (.str (env.routeName route))) keyRoutePath (.str path) },
      env.routeHandler route, env.routeHandlers route)
  else if decide ((allowed.length : Int) > 0) then
    ({ ctx with data := dataSet ctx.data keyAllowed (.strs allowed) }, none, orDefault (env.noAllowed s) env.default405)
  else (ctx, none, orDefault (env.noRoute s) env.default404)

theorem blk1_eq (r : Gen.Router) (ctx : Gen.Ctx γ) (env : HEnv σ ρ η (Gen.Ctx γ)) (s0 s : σ) (hc : List η) (path : Bytes) :
    Gen.Router.handleHTTPRequest.blk1 r ctx env s0 s hc path
      = if r.useEncodedPath then env.escapedPath ctx.req else path := by
  unfold Gen.Router.handleHTTPRequest.blk1
  simp only [Id.run, pure]
  try (split <;> rfl)

theorem blk11_eq (r : Gen.Router) (ctx : Gen.Ctx γ) (env : HEnv σ ρ η (Gen.Ctx γ)) (s0 s : σ) (hc : List η) (path : Bytes)
    (route : Option ρ) (params : Option KV) (allowed : List Bytes) (mh : Option η) (hs : List η) :
    Gen.Router.handleHTTPRequest.blk11 r ctx env s0 s hc path route params allowed mh hs = orDefault hs env.default405 := by
  unfold Gen.Router.handleHTTPRequest.blk11 orDefault
  simp only [Id.run, pure]
  try (split <;> rfl)

theorem blk12_eq (r : Gen.Router) (ctx : Gen.Ctx γ) (env : HEnv σ ρ η (Gen.Ctx γ)) (s0 s : σ) (hc : List η) (path : Bytes)
    (route : Option ρ) (params : Option KV) (allowed : List Bytes) (mh : Option η) (hs : List η) :
    Gen.Router.handleHTTPRequest.blk12 r ctx env s0 s hc path route params allowed mh hs = orDefault hs env.default404 := by
  unfold Gen.Router.handleHTTPRequest.blk12 orDefault
  simp only [Id.run, pure]
  try (split <;> rfl)

theorem blk13_eq (r : Gen.Router) (ctx : Gen.Ctx γ) (env : HEnv σ ρ η (Gen.Ctx γ)) (s0 s : σ) (hc : List η) (path : Bytes)
    (route : Option ρ) (params : Option KV) (allowed : List Bytes) (mh : Option η) (hs chain : List η) :
    Gen.Router.handleHTTPRequest.blk13 r ctx env s0 s hc path route params allowed mh hs chain
      = chain ++ mh.toList := by
  unfold Gen.Router.handleHTTPRequest.blk13
  simp only [Id.run, pure]
  cases mh <;> simp

theorem blk9_eq (r : Gen.Router) (ctx : Gen.Ctx γ) (env : HEnv σ ρ η (Gen.Ctx γ)) (s0 s : σ) (hc : List η) (path : Bytes)
    (route : Option ρ) (params : Option KV) (allowed : List Bytes) (mh : Option η) (hs : List η) :
    Gen.Router.handleHTTPRequest.blk9 r ctx env s0 s hc path route params allowed mh hs
      = if decide ((allowed.length : Int) > 0) then
          ({ ctx with data := dataSet ctx.data keyAllowed (.strs allowed) }, orDefault (env.noAllowed s) env.default405)
        else (ctx, orDefault (env.noRoute s) env.default404) := by
  unfold Gen.Router.handleHTTPRequest.blk9
  simp only [Id.run, pure, blk11_eq, blk12_eq, Gen.Ctx.set_data]
  try (split <;> rfl)

theorem blk6_eq (r : Gen.Router) (ctx : Gen.Ctx γ) (env : HEnv σ ρ η (Gen.Ctx γ)) (s0 s : σ) (hc : List η) (path : Bytes)
    (route : Option ρ) (params : Option KV) (allowed : List Bytes) (hs : List η) :
    Gen.Router.handleHTTPRequest.blk6 r ctx env s0 s hc path route params allowed none hs
      = choose env s ctx path route params allowed := by
  unfold Gen.Router.handleHTTPRequest.blk6 choose
  simp only [Id.run, pure, blk9_eq, Gen.Ctx.set_data, Gen.Ctx.set_params]
  split
  · rfl
  · split <;> rfl


def commit (c : Gen.Ctx γ) : Gen.Ctx γ := c.set_writer (Gen.RW.ensureWriteHeader c.writer)

/-- what follows the chain run `n`: a panic of the chain ends the body there; otherwise OnError runs when it is set and
    the chain left errors in the context; then the commit -/
def afterChain (env : HEnv σ ρ η (Gen.Ctx γ)) (n : σ × Gen.Ctx γ × Option Panic) : σ × Gen.Ctx γ × Option Panic :=
  match n.2.2 with
  | some p => (n.1, n.2.1, some p)
  | none =>
    if ((env.onErrorH n.1).isSome && decide ((n.2.1.errors.length : Int) > 0)) = true then
      let e := env.onError n.1 n.2.1
      match e.2.2 with
      | some p => (e.1, e.2.1, some p)
      | none => (e.1, commit e.2.1, none)
    else (n.1, commit n.2.1, none)

/-- the part of `handleHTTPRequest` below the `defer` -/
def bodySpec (env : HEnv σ ρ η (Gen.Ctx γ)) (g : Gen.Router) (ctx : Gen.Ctx γ) (s : σ) : σ × Gen.Ctx γ × Option Panic :=
  let path := if g.useEncodedPath then env.escapedPath ctx.req else env.urlPath ctx.req
  let q := env.quickMatch s (env.method ctx.req) path
  match q.2.2.2.2 with
  | some p => (q.1, ctx, some p)
  | none =>
    let ch := choose env q.1 ctx path q.2.1 q.2.2.1 q.2.2.2.1
    let chain := env.globalHandlers q.1 ++ ch.2.2 ++ ch.2.1.toList
    afterChain env (env.next q.1 (ch.1.set_handlers (chain.map (fun _ => ()))) chain)

/-- `handleHTTPRequest` -/
def handleSpec (env : HEnv σ ρ η (Gen.Ctx γ)) (g : Gen.Router) (ctx : Gen.Ctx γ) (s : σ) : σ × Gen.Ctx γ × Option Panic :=
  let b := bodySpec env g ctx s
  if (env.onPanicH s).isSome = true then
    match b.2.2 with
    | some ret =>
      let h := env.onPanic b.1 (b.2.1.set_data (dataSet b.2.1.data keyRecover (.pv ret)))
      match h.2.2 with
      | some p => (h.1, h.2.1, some p)
      | none => (h.1, commit h.2.1, none)
    | none => b
  else b

/-- The definition generated from dispatch.go `handleHTTPRequest` IS the closed form, whatever the environment does.
    (Proof: the blocks one at a time — the translator emits every tuple-valued `if` of this function as its own
    definition —, then the three modelled calls are named and the panic / hook cases enumerated.) -/
theorem gen_handle_eq_spec (env : HEnv σ ρ η (Gen.Ctx γ)) (g : Gen.Router) (ctx : Gen.Ctx γ) (s : σ) :
    Gen.Router.handleHTTPRequest g ctx env s = handleSpec env g ctx s := by
  unfold Gen.Router.handleHTTPRequest handleSpec bodySpec afterChain
  simp only [Id.run, pure, blk1_eq, blk13_eq]
  generalize (if g.useEncodedPath = true then env.escapedPath ctx.req else env.urlPath ctx.req) = P
  generalize env.quickMatch s (env.method ctx.req) P = q
  obtain ⟨s1, route, params, allowed, pn⟩ := q
  have hd : (default : Option η) = none := rfl
  simp only [hd, blk6_eq]
  generalize choose env s1 ctx P route params allowed = ch
  obtain ⟨c1, mh, hs⟩ := ch
  simp only [List.nil_append]
  cases pn
  · simp only []
    obtain ⟨s2, c2, pn2, hn⟩ : ∃ s2 c2 pn2, env.next s1 (c1.set_handlers (List.map (fun _ => ()) (env.globalHandlers s1 ++ hs ++ mh.toList))) (env.globalHandlers s1 ++ hs ++ mh.toList) = (s2, c2, pn2) := ⟨_, _, _, rfl⟩
    simp only [hn]
    obtain ⟨s3, c3, pn3, he⟩ : ∃ s3 c3 pn3, env.onError s2 c2 = (s3, c3, pn3) := ⟨_, _, _, rfl⟩
    simp only [he]
    cases pn2 <;> cases pn3 <;> cases env.onPanicH s <;> cases env.onErrorH s2 <;>
      by_cases hel : (c2.errors.length : Int) > 0 <;> simp [commit, keyRecover, ToDV.toDV, hel] <;> (repeat' split) <;> simp_all
  · cases env.onPanicH s <;> simp [commit, keyRecover, ToDV.toDV] <;> tie_cases

/-! ### the closed form, read by kind of match result -/

/-- the handler chain of a request: global middleware, then the route's middleware and its main handler, or the
    NotAllowed handlers (default when none are set) when other methods match, or the NotFound handlers -/
def chainFor (env : HEnv σ ρ η (Gen.Ctx γ)) (s : σ) (route : Option ρ) (allowed : List Bytes) : List η :=
  env.globalHandlers s ++
    (if route.isSome then env.routeHandlers route ++ (env.routeHandler route).toList
     else if decide ((allowed.length : Int) > 0) then orDefault (env.noAllowed s) env.default405
     else orDefault (env.noRoute s) env.default404)

/-- what `handleHTTPRequest` stores in the context before the chain runs -/
def preludeCtx (env : HEnv σ ρ η (Gen.Ctx γ)) (ctx : Gen.Ctx γ) (path : Bytes) (route : Option ρ)
    (params : Option KV) (allowed : List Bytes) : Gen.Ctx γ :=
  if route.isSome then
    { ctx with params := params, data := dataSet (dataSet ctx.data keyRouteName (.str (env.routeName route))) keyRoutePath (.str path) }
  else if decide ((allowed.length : Int) > 0) then { ctx with data := dataSet ctx.data keyAllowed (.strs allowed) }
  else ctx

theorem choose_ctx (env : HEnv σ ρ η (Gen.Ctx γ)) (s : σ) (ctx : Gen.Ctx γ) (path : Bytes) (route : Option ρ)
    (params : Option KV) (allowed : List Bytes) :
    (choose env s ctx path route params allowed).1 = preludeCtx env ctx path route params allowed := by
  unfold choose preludeCtx; tie_cases

theorem choose_chain (env : HEnv σ ρ η (Gen.Ctx γ)) (s : σ) (ctx : Gen.Ctx γ) (path : Bytes) (route : Option ρ)
    (params : Option KV) (allowed : List Bytes) :
    env.globalHandlers s ++ (choose env s ctx path route params allowed).2.2
        ++ (choose env s ctx path route params allowed).2.1.toList = chainFor env s route allowed := by
  unfold choose chainFor; tie_cases

end Tie
end Rux
