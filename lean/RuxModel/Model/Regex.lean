import RuxModel.Go.Bytes
/-
  Model of Go's `regexp` on the fragment rux route patterns use, at BYTE level.

  * `Re`  — eps, one byte from a set, sequence, alternation, star (greedy or lazy).
            `+ ? {m,n}` and their lazy forms are desugared by the parser.
  * `prefixLens r s` — the lengths of the prefixes of `s` matched by `r`, in the order a
    backtracking (leftmost-first, Perl-like) engine tries them.  Go's `regexp` returns "the match
    a backtracking search would have found first", so for an anchored pattern the first full
    match in this order is Go's match.
  * `parseRe` — parser for the textual syntax of variable regexes.  Anything outside the
    fragment (flags, anchors, `\b`, Unicode classes, capturing groups, nullable star bodies,
    bytes ≥ 0x80 in the regex text) gives `none` = "unsupported", never a guess.

  Byte level vs. Go's rune level: identical on ASCII input.  On non-ASCII input they can differ
  only where a negated class or `.` is not directly under `*`/`+` (`runeSensitive`); the driver
  answers `unsupported` for such (regex, path) pairs.
  Core Lean only.
-/
namespace Rux

/-- a set of bytes: union of closed ranges, possibly complemented -/
structure ByteSet where
  neg : Bool
  ranges : List (Nat × Nat)
  deriving Repr, DecidableEq

def ByteSet.mem (p : ByteSet) (b : Nat) : Bool :=
  (p.ranges.any fun r => r.1 ≤ b && b ≤ r.2) != p.neg

inductive Re where
  | eps
  | chr (p : ByteSet)
  | seq (a b : Re)
  | alt (a b : Re)
  | star (a : Re) (greedy : Bool)
  deriving Repr, DecidableEq

namespace Re

def size : Re → Nat
  | eps => 1
  | chr _ => 1
  | seq a b => a.size + b.size + 1
  | alt a b => a.size + b.size + 1
  | star a _ => a.size + 1

/-- can the expression match the empty string? -/
def nullable : Re → Bool
  | eps => true
  | chr _ => false
  | seq a b => a.nullable && b.nullable
  | alt a b => a.nullable || b.nullable
  | star _ _ => true

/-- `a{n}` -/
def rep (a : Re) : Nat → Re
  | 0 => eps
  | n + 1 => seq a (rep a n)

/-- `(a(a(...)?)?)?` with `k` levels: up to `k` further copies, greedy (more first) or lazy -/
def upTo (a : Re) (greedy : Bool) : Nat → Re
  | 0 => eps
  | k + 1 => if greedy then alt (seq a (upTo a greedy k)) eps else alt eps (seq a (upTo a greedy k))

def lit (b : Nat) : Re := chr ⟨false, [(b, b)]⟩

def litSeq : Bytes → Re
  | [] => eps
  | b :: t => seq (lit b) (litSeq t)

end Re

/-- match lengths in backtracking priority order -/
def prefixLens (r : Re) (s : Bytes) : List Nat :=
  match r with
  | .eps => [0]
  | .chr p =>
    match s with
    | c :: _ => if p.mem c then [1] else []
    | [] => []
  | .seq a b =>
    (prefixLens a s).flatMap fun n =>
      if _h : n ≤ s.length then (prefixLens b (s.drop n)).map (n + ·) else []
  | .alt a b => prefixLens a s ++ prefixLens b s
  | .star a greedy =>
    let more := (prefixLens a s).flatMap fun n =>
      if _h : 0 < n ∧ n ≤ s.length then (prefixLens (.star a greedy) (s.drop n)).map (n + ·) else []
    if greedy then more ++ [0] else 0 :: more
termination_by (s.length, r.size)
decreasing_by
  all_goals simp_wf
  all_goals simp only [Re.size]
  all_goals first
    | (apply Prod.Lex.right; omega)
    | (apply Prod.Lex.left; omega)
    | (by_cases hn : n = 0
       · subst hn; simp; apply Prod.Lex.right; omega
       · apply Prod.Lex.left; omega)

/-- the language of an expression (declarative specification of matching) -/
inductive Lang : Re → Bytes → Prop where
  | eps : Lang .eps []
  | chr {p c} : p.mem c = true → Lang (.chr p) [c]
  | seq {a b s t} : Lang a s → Lang b t → Lang (.seq a b) (s ++ t)
  | altL {a b s} : Lang a s → Lang (.alt a b) s
  | altR {a b s} : Lang b s → Lang (.alt a b) s
  | starNil {a g} : Lang (.star a g) []
  | starCons {a g s t} : Lang a s → Lang (.star a g) t → Lang (.star a g) (s ++ t)

/-! ### parser for the textual syntax -/

namespace ReParse

def isMeta (b : Nat) : Bool :=
  b = 0x5C || b = 0x5E || b = 0x24 || b = 0x2E || b = 0x7C || b = 0x3F || b = 0x2A || b = 0x2B ||
  b = 0x28 || b = 0x29 || b = 0x5B || b = 0x5D || b = 0x7B || b = 0x7D

def digitSet : List (Nat × Nat) := [(0x30, 0x39)]
def wordSet : List (Nat × Nat) := [(0x30, 0x39), (0x41, 0x5A), (0x5F, 0x5F), (0x61, 0x7A)]
def spaceSet : List (Nat × Nat) := [(0x09, 0x0A), (0x0C, 0x0D), (0x20, 0x20)]

/-- complement of a list of ranges inside 0..255 (only used for `\D \W \S` inside a class) -/
def complRanges (rs : List (Nat × Nat)) : List (Nat × Nat) :=
  let bytes := (List.range 256).filter fun b => !(rs.any fun r => r.1 ≤ b && b ≤ r.2)
  bytes.map fun b => (b, b)

/-- escape outside a class: returns the byte set -/
def escSet (b : Nat) : Option ByteSet :=
  if b = 0x64 then some ⟨false, digitSet⟩            -- \d
  else if b = 0x44 then some ⟨true, digitSet⟩        -- \D
  else if b = 0x77 then some ⟨false, wordSet⟩        -- \w
  else if b = 0x57 then some ⟨true, wordSet⟩         -- \W
  else if b = 0x73 then some ⟨false, spaceSet⟩       -- \s
  else if b = 0x53 then some ⟨true, spaceSet⟩        -- \S
  else if b = 0x6E then some ⟨false, [(0x0A, 0x0A)]⟩ -- \n
  else if b = 0x74 then some ⟨false, [(0x09, 0x09)]⟩ -- \t
  else if b = 0x72 then some ⟨false, [(0x0D, 0x0D)]⟩ -- \r
  else if b = 0x66 then some ⟨false, [(0x0C, 0x0C)]⟩ -- \f
  else if b = 0x76 then some ⟨false, [(0x0B, 0x0B)]⟩ -- \v
  else if b < 0x80 ∧ !(0x30 ≤ b && b ≤ 0x39) ∧ !(0x41 ≤ b && b ≤ 0x5A) ∧ !(0x61 ≤ b && b ≤ 0x7A) ∧ b ≠ 0x5F then
    some ⟨false, [(b, b)]⟩                           -- escaped punctuation is the literal
  else none

/-- the items of a bracket class, after the optional `^`; returns ranges and the rest after `]` -/
def classItems : Nat → Bytes → List (Nat × Nat) → Bool → Option (List (Nat × Nat) × Bytes)
  | 0, _, _, _ => none
  | _ + 1, [], _, _ => none
  | fuel + 1, b :: t, acc, first =>
    if b = 0x5D ∧ !first then some (acc.reverse, t)       -- `]` closes (a leading `]` is a literal)
    else if b ≥ 0x80 then none
    else if b = 0x5B then none                            -- `[` inside a class ([:alpha:] etc.): unsupported
    else
      -- one class atom: a single byte or an escape
      let atom : Option (Sum Nat (List (Nat × Nat)) × Bytes) :=
        if b = 0x5C then
          match t with
          | e :: t' =>
            match escSet e with
            | some ⟨false, [(x, y)]⟩ => if x = y then some (.inl x, t') else some (.inr [(x, y)], t')
            | some ⟨false, rs⟩ => some (.inr rs, t')
            | some ⟨true, rs⟩ => some (.inr (complRanges rs), t')
            | none => none
          | [] => none
        else some (.inl b, t)
      match atom with
      | none => none
      | some (.inr rs, rest) => classItems fuel rest (rs.reverse ++ acc) false
      | some (.inl lo, rest) =>
        match rest with
        | 0x2D :: hi :: rest' =>
          if hi = 0x5D then classItems fuel rest ((lo, lo) :: acc) false   -- `a-]` : '-' is literal, handled next round
          else if hi = 0x5C then
            match rest' with
            | e :: rest'' =>
              match escSet e with
              | some ⟨false, [(x, y)]⟩ =>
                if x = y ∧ lo ≤ x then classItems fuel rest'' ((lo, x) :: acc) false else none
              | _ => none
            | [] => none
          else if hi ≥ 0x80 ∨ hi = 0x5B then none
          else if lo ≤ hi then classItems fuel rest' ((lo, hi) :: acc) false
          else none                                                     -- bad range: compile error
        | _ => classItems fuel rest ((lo, lo) :: acc) false

def parseNat : Bytes → Nat → Nat × Bytes × Nat
  | b :: t, acc => if 0x30 ≤ b ∧ b ≤ 0x39 then
      let r := parseNat t (acc * 10 + (b - 0x30)); (r.1, r.2.1, r.2.2 + 1)
    else (acc, b :: t, 0)
  | [], acc => (acc, [], 0)

/-- `{m}`, `{m,}`, `{m,n}` right after the opening brace; `none` if it is not a repeat spec -/
def parseBraces (s : Bytes) : Option (Nat × Option Nat × Bytes) :=
  let (m, r1, d1) := parseNat s 0
  if d1 = 0 then none else
  match r1 with
  | 0x7D :: rest => some (m, some m, rest)
  | 0x2C :: 0x7D :: rest => some (m, none, rest)
  | 0x2C :: r2 =>
    let (n, r3, d2) := parseNat r2 0
    if d2 = 0 then none else
    match r3 with
    | 0x7D :: rest => if m ≤ n then some (m, some n, rest) else none
    | _ => none
  | _ => none

/-- apply one quantifier (with optional lazy `?`) to an atom; `none` = unsupported -/
def applyQuant (a : Re) (s : Bytes) : Option (Re × Bytes) :=
  let lazyOf (rest : Bytes) : Bool × Bytes :=
    match rest with
    | 0x3F :: r => (false, r)
    | r => (true, r)
  let noMoreQuant (r : Bytes) : Bool :=
    match r with
    | b :: _ => !(b = 0x2A || b = 0x2B || b = 0x3F || b = 0x7B)
    | [] => true
  match s with
  | 0x2A :: rest =>                                       -- *
    let (g, r) := lazyOf rest
    if a.nullable ∨ !noMoreQuant r then none else some (.star a g, r)
  | 0x2B :: rest =>                                       -- +
    let (g, r) := lazyOf rest
    if a.nullable ∨ !noMoreQuant r then none else some (.seq a (.star a g), r)
  | 0x3F :: rest =>                                       -- ?
    let (g, r) := lazyOf rest
    if !noMoreQuant r then none else some (if g then .alt a .eps else .alt .eps a, r)
  | 0x7B :: rest =>                                       -- {m,n}
    match parseBraces rest with
    | none => none                                        -- Go would take `{` literally: keep out of the fragment
    | some (m, hi, rest') =>
      let (g, r) := lazyOf rest'
      if !noMoreQuant r ∨ m > 50 then none else
      match hi with
      | none => if a.nullable then none else some (.seq (a.rep m) (.star a g), r)
      | some n => if n > 50 then none else some (.seq (a.rep m) (a.upTo g (n - m)), r)
  | _ => some (a, s)

mutual
/-- alternation level; stops at `)` or end of input -/
def parseAlt : Nat → Bytes → Option (Re × Bytes)
  | 0, _ => none
  | fuel + 1, s =>
    match parseConcat fuel s with
    | none => none
    | some (a, rest) =>
      match rest with
      | 0x7C :: rest' =>
        match parseAlt fuel rest' with
        | some (b, rest'') => some (.alt a b, rest'')
        | none => none
      | _ => some (a, rest)

def parseConcat : Nat → Bytes → Option (Re × Bytes)
  | 0, _ => none
  | fuel + 1, s =>
    match s with
    | [] => some (.eps, [])
    | 0x7C :: _ => some (.eps, s)
    | 0x29 :: _ => some (.eps, s)
    | _ =>
      match parseAtom fuel s with
      | none => none
      | some (a, rest) =>
        match applyQuant a rest with
        | none => none
        | some (q, rest') =>
          match parseConcat fuel rest' with
          | some (.eps, rest'') => some (q, rest'')
          | some (b, rest'') => some (.seq q b, rest'')
          | none => none

def parseAtom : Nat → Bytes → Option (Re × Bytes)
  | 0, _ => none
  | fuel + 1, s =>
    match s with
    | [] => none
    | 0x28 :: 0x3F :: 0x3A :: rest =>                     -- (?: … )
      match parseAlt fuel rest with
      | some (a, 0x29 :: rest') => some (a, rest')
      | _ => none
    | 0x28 :: _ => none                                   -- capturing group / flags: outside the fragment
    | 0x5B :: 0x5E :: rest =>                             -- [^ … ]
      match classItems (rest.length + 1) rest [] true with
      | some (rs, rest') => some (.chr ⟨true, rs⟩, rest')
      | none => none
    | 0x5B :: rest =>
      match classItems (rest.length + 1) rest [] true with
      | some (rs, rest') => some (.chr ⟨false, rs⟩, rest')
      | none => none
    | 0x2E :: rest => some (.chr ⟨true, [(0x0A, 0x0A)]⟩, rest)   -- `.` : anything but \n
    | 0x5C :: e :: rest =>
      match escSet e with
      | some p => some (.chr p, rest)
      | none => none
    | b :: rest =>
      if isMeta b ∨ b ≥ 0x80 then none else some (Re.lit b, rest)
end

end ReParse

/-- parse a complete variable regex; `none` = outside the modelled fragment -/
def parseRe (s : Bytes) : Option Re :=
  match ReParse.parseAlt (2 * s.length + 4) s with
  | some (r, []) => some r
  | _ => none

/-- does byte-level matching of `r` possibly differ from rune-level matching on non-ASCII input?
    (a complemented set that is not directly the body of a star) -/
def Re.runeSensitive : Re → Bool
  | .eps => false
  | .chr p => p.neg
  | .seq (.chr p) (.star (.chr q) g) => if q.neg then false else p.neg   -- `x+` with a complemented `x`
  | .seq a b => a.runeSensitive || b.runeSensitive
  | .alt a b => a.runeSensitive || b.runeSensitive
  | .star (.chr _) _ => false
  | .star a _ => a.runeSensitive

end Rux
