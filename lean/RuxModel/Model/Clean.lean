import RuxModel.Go.Bytes
/-
  Model for C17 — static file handlers (router.go: StaticFile, StaticFS, StaticDir, StaticFiles;
  context_render.go: Context.File) together with the part of Go's net/http and path packages that
  decides WHICH file is opened for a request:

    path.Clean on rooted paths                      (path/path.go)
    http.StripPrefix                                (net/http/server.go)
    http.FileServer = fileHandler.ServeHTTP         (net/http/fs.go)
    serveFile (redirects, index.html, directories)  (net/http/fs.go)
    http.Dir.Open                                   (net/http/fs.go; filepath.Localize/Join on Unix)
    http.ServeFile (containsDotDot, filepath.Split) (net/http/fs.go)
    Router.formatPath + the one route a Static* call registers (router.go, parse_match.go)

  Everything is lexical: the file system is a parameter `look : full path → Node`
  (what `os.Open`+`Stat` would find).  Symlinks, OS path semantics beyond "a path names the node
  reached by walking its '/'-separated elements" and the byte-serving part of net/http
  (serveContent, range requests, content types) are NOT modelled.
  Core Lean only — linked into the driver.
-/
namespace Rux
namespace Clean

abbrev slash : Nat := 0x2F
abbrev dot : Nat := 0x2E
abbrev bslash : Nat := 0x5C

/-! ### path.Clean on rooted paths -/

/-- `path.Clean` processes the elements between slashes left to right and keeps a stack of the
    elements written so far (`stk`, top first): empty and "." elements are skipped, ".." removes the
    element written last ("/.." at the root is replaced by "/", i.e. nothing happens on the empty
    stack), any other element is appended. -/
def push (stk : List Bytes) (seg : Bytes) : List Bytes :=
  if seg = [] then stk
  else if seg = [dot] then stk
  else if seg = [dot, dot] then stk.tail
  else seg :: stk

/-- "/a/b" for ["a","b"], "" for [] -/
def renderRel (l : List Bytes) : Bytes := l.flatMap (fun s => slash :: s)

/-- the rooted path with the given elements: "/" for [], "/a/b" for ["a","b"] -/
def render (l : List Bytes) : Bytes :=
  match l with
  | [] => [slash]
  | _ :: _ => renderRel l

/-- the elements of `path.Clean("/" ++ s)` -/
def cleanSegs (s : Bytes) : List Bytes :=
  ((Bytes.splitOnByte slash s).foldl push []).reverse

/-- `path.Clean("/" ++ s)` -/
def cleanRooted (s : Bytes) : Bytes := render (cleanSegs s)

/-- `path.Clean(p)` for a `p` that begins with '/' (callers guarantee that) -/
def cleanAbs (p : Bytes) : Bytes := cleanRooted (p.drop 1)

/-- a path element that survives Clean: non-empty, not "." or "..", without a slash -/
def Proper (seg : Bytes) : Prop :=
  seg ≠ [] ∧ seg ≠ [dot] ∧ seg ≠ [dot, dot] ∧ slash ∉ seg

instance (seg : Bytes) : Decidable (Proper seg) := by unfold Proper; exact inferInstance

/-! ### small Go library functions -/

def trimPrefix (s p : Bytes) : Bytes := if Bytes.hasPrefix s p then s.drop p.length else s

def trimSuffix (s p : Bytes) : Bytes :=
  if Bytes.hasSuffix s p then s.take (s.length - p.length) else s

def lastByte (s : Bytes) : Option Nat := s.getLast?

/-- `path.Base` -/
def base (p : Bytes) : Bytes :=
  if p = [] then [dot] else
  let q := Bytes.trimRightByte slash p
  match (Bytes.splitOnByte slash q).getLast? with
  | some [] => [slash]
  | some l => l
  | none => [slash]

/-- split at '/' and '\\' (the separators of `containsDotDot`) -/
def splitSlashes : Bytes → List Bytes
  | [] => [[]]
  | b :: t =>
    match splitSlashes t with
    | [] => [[]]
    | hd :: tl => if b = slash ∨ b = bslash then [] :: hd :: tl else (b :: hd) :: tl

/-- net/http `containsDotDot`: some element between '/' or '\\' is ".." -/
def containsDotDot (v : Bytes) : Bool := (splitSlashes v).any (· = [dot, dot])

def isCont (b : Nat) : Bool := 0x80 ≤ b && b ≤ 0xBF

/-- `utf8.ValidString` -/
def validUtf8 : Bytes → Bool
  | [] => true
  | b0 :: t =>
    if b0 < 0x80 then validUtf8 t
    else if 0xC2 ≤ b0 ∧ b0 ≤ 0xDF then
      match t with
      | b1 :: t1 => isCont b1 && validUtf8 t1
      | _ => false
    else if 0xE0 ≤ b0 ∧ b0 ≤ 0xEF then
      match t with
      | b1 :: b2 :: t2 =>
        let lo := if b0 = 0xE0 then 0xA0 else 0x80
        let hi := if b0 = 0xED then 0x9F else 0xBF
        (lo ≤ b1 && b1 ≤ hi) && isCont b2 && validUtf8 t2
      | _ => false
    else if 0xF0 ≤ b0 ∧ b0 ≤ 0xF4 then
      match t with
      | b1 :: b2 :: b3 :: t3 =>
        let lo := if b0 = 0xF0 then 0x90 else 0x80
        let hi := if b0 = 0xF4 then 0x8F else 0xBF
        (lo ≤ b1 && b1 ≤ hi) && isCont b2 && isCont b3 && validUtf8 t3
      | _ => false
    else false

/-! ### Router.formatPath (no InterceptAll) -/

def slashOrSpaceRev (s : Bytes) : Nat :=
  match s with
  | 0x2F :: _ => 1
  | _ => Bytes.spaceAtHeadRev s

/-- `strings.TrimRightFunc(s, c == '/' || unicode.IsSpace(c))` -/
def trimRightSlashSpace (s : Bytes) : Bytes :=
  (Bytes.dropSpaces slashOrSpaceRev s.length s.reverse).reverse

def formatPath (strict : Bool) (path : Bytes) : Bytes :=
  if path = [] ∨ path = [slash] then [slash] else
  let p1 := Bytes.trimSpace path
  let p2 := if !strict && Bytes.hasSuffix p1 [slash] then trimRightSlashSpace p1 else p1
  match p2 with
  | [] => [slash]
  | [0x2F] => [slash]
  | 0x2F :: 0x2F :: _ => slash :: Bytes.trimLeftByte slash p2
  | 0x2F :: _ => p2
  | _ => slash :: p2

/-! ### the file system as a parameter -/

inductive Node where
  | file | dir | none
  deriving DecidableEq, Repr

/-- what a 200 response carries -/
inductive Served where
  | nothing
  | file (full : Bytes)      -- the bytes of this file
  | listing (full : Bytes)   -- the generated listing of this directory
  deriving DecidableEq, Repr

structure Resp where
  status : Nat
  served : Served := .nothing
  /-- full OS paths handed to `os.Open`, in order -/
  opened : List Bytes := []
  /-- names handed to `FileSystem.Open`, in order (observable through a wrapping FileSystem) -/
  names : List Bytes := []
  deriving Repr

/-! ### http.Dir.Open -/

/-- `filepath.Join(dir, p)` on Unix for an absolute `dir`: `Clean(dir + "/" + p)` -/
def joinAbs (dir p : Bytes) : Bytes := cleanAbs (dir ++ slash :: p)

/-- `http.Dir(dir).Open(name)` up to the call of `os.Open`: the full path that is opened, or `none`
    for "http: invalid or unsafe file path".
    `filepath.Localize` = `fs.ValidPath` (UTF-8; no empty, "." or ".." element — the latter never fails
    on a cleaned path, theorem `C17_clean_rooted`) + "no NUL byte" on Unix. -/
def dirOpen (dir name : Bytes) : Option Bytes :=
  let c := cleanRooted name
  let rel := if c.drop 1 = [] then [dot] else c.drop 1
  if validUtf8 rel ∧ 0 ∉ rel then some (joinAbs dir rel) else none

/-! ### net/http serveFile -/

def indexPage : Bytes := [0x2F, 0x69, 0x6E, 0x64, 0x65, 0x78, 0x2E, 0x68, 0x74, 0x6D, 0x6C]  -- "/index.html"

/-- the directory branch of serveFile (the URL is known to end in '/'): index.html or the listing -/
def serveDirectory (look : Bytes → Node) (dir name full : Bytes) : Resp :=
  let index := trimSuffix name [slash] ++ indexPage
  match dirOpen dir index with
  | none => { status := 200, served := .listing full, opened := [full], names := [name, index] }
  | some full2 =>
    match look full2 with
    | .file => { status := 200, served := .file full2, opened := [full, full2], names := [name, index] }
    | .dir => { status := 200, served := .listing full2, opened := [full, full2], names := [name, index] }
    | .none => { status := 200, served := .listing full, opened := [full, full2], names := [name, index] }

/-- `serveFile(w, r, http.Dir(dir), name, redirect)` for a GET request without conditional or range
    headers; `urlPath` is `r.URL.Path` at that moment. -/
def serveFile (look : Bytes → Node) (dir urlPath name : Bytes) (redirect : Bool) : Resp :=
  if Bytes.hasSuffix urlPath indexPage then { status := 301 } else
  match dirOpen dir name with
  | none => { status := 500, names := [name] }
  | some full =>
    match look full with
    | .none => { status := 404, opened := [full], names := [name] }
    | .dir =>
      if lastByte urlPath ≠ some slash then { status := 301, opened := [full], names := [name] }
      else serveDirectory look dir name full
    | .file =>
      if redirect ∧ lastByte urlPath = some slash then
        let b := base urlPath
        if b = [slash] ∨ b = [dot] then { status := 500, opened := [full], names := [name] }
        else { status := 301, opened := [full], names := [name] }
      else { status := 200, served := .file full, opened := [full], names := [name] }

/-- `http.FileServer(http.Dir(dir)).ServeHTTP` with `r.URL.Path = upath0` -/
def fileServer (look : Bytes → Node) (dir upath0 : Bytes) : Resp :=
  let upath := if Bytes.hasPrefix upath0 [slash] then upath0 else slash :: upath0
  serveFile look dir upath (cleanAbs upath) true

/-! ### the rux handlers -/

/-- the request as the server's URL parser produced it: `URL.Path`, `URL.RawPath`, `URL.EscapedPath()` -/
structure Req where
  path : Bytes
  raw : Bytes
  esc : Bytes
  deriving Repr

inductive Kind where
  | dir     -- StaticDir(prefix, target)
  | fs      -- StaticFS(prefix, http.Dir(target))
  | files   -- StaticFiles(prefix, target, exts)
  | file    -- StaticFile(prefix, target): `prefix` is the route path, `target` the file
  deriving DecidableEq, Repr

structure Mount where
  kind : Kind
  enc : Bool            -- rux.UseEncodedPath
  strict : Bool := false  -- rux.StrictLastSlash
  pfx : Bytes
  exts : List Bytes     -- StaticFiles only: the alternatives of the exts argument
  target : Bytes
  deriving Repr

/-- `v` matches `.+\.(?:e)`: ends in "." ++ e with at least one byte in front of the dot -/
def extMatch (v e : Bytes) : Bool := Bytes.hasSuffix v (dot :: e) && decide (e.length + 1 < v.length)

/-- the extension part of the route regex (`none`: no restriction) -/
def extsOk (exts : Option (List Bytes)) (v : Bytes) : Bool :=
  match exts with
  | none => true
  | some es => es.any (extMatch v)

/-- the literal part of the registered route: `formatPath(pfx ++ "/{file:…}")` puts exactly one '/' in
    front ("static" → "/static/", "/" → "/", "//a" → "/a/", "/a/" → "/a//") -/
def routeStatic (pfx : Bytes) : Bytes := slash :: Bytes.trimLeftByte slash (pfx ++ [slash])

/-- the route `pfx/{file:.+}` resp. `pfx/{file:.+\.(?:exts)}` applied to the formatted request path:
    the value of the path variable `file`.  (`.` does not match a newline; the route regex is anchored.) -/
def capture (pfx : Bytes) (exts : Option (List Bytes)) (p : Bytes) : Option Bytes :=
  if Bytes.hasPrefix p (routeStatic pfx) then
    let v := p.drop (routeStatic pfx).length
    if v ≠ [] ∧ 0x0A ∉ v ∧ extsOk exts v = true then some v else none
  else none

/-- `http.StripPrefix(pfx, h)`: the `URL.Path` the inner handler sees, `none` = 404 -/
def stripPrefix (pfx : Bytes) (q : Req) : Option Bytes :=
  if pfx = [] then some q.path else
  let p := trimPrefix q.path pfx
  let rp := trimPrefix q.raw pfx
  if p.length < q.path.length ∧ (q.raw = [] ∨ rp.length < q.raw.length) then some p else none

/-- `filepath.Split` -/
def splitLast (f : Bytes) : Bytes × Bytes :=
  match (Bytes.splitOnByte slash f).getLast? with
  | some l => (f.take (f.length - l.length), l)
  | none => (f, [])

/-- `http.ServeFile(w, r, f)` -/
def httpServeFile (look : Bytes → Node) (urlPath f : Bytes) : Resp :=
  if containsDotDot urlPath then { status := 400 } else
  let (d, b) := splitLast f
  serveFile look d urlPath b false

/-- a GET request `q` to a router that has exactly the route(s) of one Static* call -/
def serve (look : Bytes → Node) (m : Mount) (q : Req) : Resp :=
  let p1 := formatPath m.strict (if m.enc then q.esc else q.path)
  match m.kind with
  | .dir | .fs =>
    match capture m.pfx none p1 with
    | none => { status := 404 }
    | some _ =>
      match stripPrefix m.pfx q with
      | none => { status := 404 }
      | some p => fileServer look m.target p
  | .files =>
    match capture m.pfx (some m.exts) p1 with
    | none => { status := 404 }
    | some v => fileServer look m.target v     -- c.Req.URL.Path = c.Param("file")
  | .file =>
    if p1 = formatPath m.strict m.pfx then httpServeFile look q.path m.target else { status := 404 }

/-! ### which configurations the model covers (the driver answers `unsupported` otherwise) -/

def safePrefixByte (b : Nat) : Bool :=
  (0x30 ≤ b && b ≤ 0x39) || (0x41 ≤ b && b ≤ 0x5A) || (0x61 ≤ b && b ≤ 0x7A) ||
  b = 0x2D || b = 0x5F || b = 0x2E || b = 0x7E

def alnum (b : Nat) : Bool :=
  (0x30 ≤ b && b ≤ 0x39) || (0x41 ≤ b && b ≤ 0x5A) || (0x61 ≤ b && b ≤ 0x7A)

/-- any string over `[A-Za-z0-9._~-]` and '/' (no regex or pattern meta characters, no white space) -/
def okPrefix (p : Bytes) : Bool := p.all fun b => safePrefixByte b || b = slash

/-- a clean absolute path other than "/" -/
def okAbs (p : Bytes) : Bool :=
  match p with
  | 0x2F :: _ :: _ => cleanAbs p = p
  | _ => false

def Mount.supported (m : Mount) : Bool :=
  okAbs m.target &&
  (match m.kind with
   | .file => okPrefix m.pfx
   | .files => okPrefix m.pfx && m.exts ≠ [] && m.exts.all (fun e => e ≠ [] && e.all alnum)
   | _ => okPrefix m.pfx)

end Clean
end Rux
